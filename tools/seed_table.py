#!/usr/bin/env python3
"""prints the markdown table of section 8.5 (seeded changes) from seeded/*/meta.json"""
import json, os, glob
rows = []
for d in sorted(glob.glob("/verif/seeded/*")):
    m = json.load(open(os.path.join(d, "meta.json")))
    suite = open(os.path.join(d, "suite.txt")).read().strip() if os.path.exists(os.path.join(d, "suite.txt")) else "(pending)"
    rows.append((os.path.basename(d), m["property"], m.get("summary", "")[:230].replace("|", "/").replace("\n", " "),
                 m.get("needs_to_manifest", "")[:200].replace("|", "/").replace("\n", " "),
                 m["confirmed_by_coordinator"]["caught_by"].replace("|", "/"), suite.split(" in ")[0]))
print("| seeded change | property | what was changed | what it needs to manifest | which check catches it | suite with the change |")
print("|---|---|---|---|---|---|")
for r in rows:
    print("| " + " | ".join(r) + " |")
