#!/bin/sh
# usage: tools/eval_harmless.sh [Cxx...] — applies each behaviour-preserving rewrite /tmp/harmless-<Cxx>/patch.diff to a scratch worktree
# of /repo's HEAD and runs the property's quick check (seeds 0 and 1) against it: the expected verdict is exit 0, no VIOLATION line.
W=/var/tmp/vr-main
[ -d $W ] || git -C /repo worktree add -q --detach $W HEAD
IDS=${*:-$(ls -d /tmp/harmless-C?? 2>/dev/null | sed 's#/tmp/harmless-##')}
for P in $IDS; do
  D=/tmp/harmless-$P
  [ -f $D/patch.diff ] || { echo "$P no patch.diff"; continue; }
  cd $W && git checkout -q -- . && git checkout -q --detach "$(git -C /repo rev-parse HEAD)"
  git apply $D/patch.diff 2>/dev/null || { echo "$P NOAPPLY"; continue; }
  res=""
  for s in 0 1; do
    out=$(cd /verif && VERIF_REPO=$W VERIF_SEED=$s ./check $P quick 2>&1); rc=$?
    echo "$out" > /var/tmp/vv-logs/harmless_${P}_$s.log
    v=$(echo "$out" | grep -c '^VIOLATION'); n=$(echo "$out" | grep -c 'no-failing-input-found')
    res="$res seed$s:exit=$rc,violations=$v,nofail=$n"
  done
  echo "$P lines=$(grep -c '^[+-]' $D/patch.diff)$res"
  cd $W && git checkout -q -- .
done
git -C /verif checkout -q -- lean/VirVerif/Generated 2>/dev/null
