#!/bin/sh
# usage: tools/soak.sh [tier] [seeds...]   — runs every claimed check with several seeds on the tree under test and
# prints one line per (check, seed): exit status and wall time; non-zero exits are repeated at the end.
TIER=${1:-quick}; shift; SEEDS=${*:-0 1 2 3 4}
cd "$(dirname "$0")/.." || exit 2
IDS=$(python3 -c "import json; print(' '.join(c['property_id'] for c in json.load(open('MANIFEST.json'))['checks']))")
BAD=""
for id in $IDS; do for s in $SEEDS; do
  t0=$(date +%s); VERIF_SEED=$s ./check $id $TIER > work/soak_${id}_$s.log 2>&1; rc=$?; t1=$(date +%s)
  echo "$id seed=$s exit=$rc $((t1-t0))s $(grep -c '^KNOWN-FINDING' work/soak_${id}_$s.log) known"
  [ $rc -ne 0 ] && BAD="$BAD $id:$s:$rc"
done; done
echo "NONZERO:$BAD"
