#!/usr/bin/env python3
"""rewrites the generated blocks of DESIGN.md (findings list from known_findings/*.txt, seeded-change table from
seeded/*/meta.json, per-property status from claims/ + evidence/)"""
import glob, json, os, re, subprocess
V = "/verif"
def block(name, text, doc):
    b, e = f"<!-- BEGIN GENERATED {name} -->", f"<!-- END GENERATED {name} -->"
    if b not in doc:
        return doc + f"\n{b}\n{text}\n{e}\n"
    return re.sub(re.escape(b) + r".*?" + re.escape(e), lambda m: b + "\n" + text + "\n" + e, doc, flags=re.S)

def findings():
    out = ["| property | status | commit / id | what failed |", "|---|---|---|---|"]
    for fn in sorted(glob.glob(f"{V}/known_findings/*.txt")):
        for line in open(fn):
            line = line.strip()
            m = re.match(r"fixed:\s+property=(C\d+)\s+(\S+)\s+(.*)$", line)
            if m:
                out.append(f"| {m.group(1)} | fixed | {m.group(2)} | {m.group(3)[:420].replace('|','/')} |")
            m = re.match(r"known:\s+property=(C\d+)\s+(\{.*\})$", line)
            if m:
                d = json.loads(m.group(2))
                out.append(f"| {m.group(1)} | KNOWN | {d['id']} | {d['text'][:420].replace('|','/')} |")
    return "\n".join(out)

def seeds():
    return subprocess.run(["python3", f"{V}/tools/seed_table.py"], capture_output=True, text=True).stdout.strip()

def status():
    out = ["| property | theorems (obligations = discharged in the last run) | last evidence: tier, cases, distinct non-trivial, wall s |", "|---|---|---|"]
    for fn in sorted(glob.glob(f"{V}/claims/*.json")):
        pid = os.path.basename(fn)[:-5]
        ev = f"{V}/evidence/{pid}.json"
        if os.path.exists(ev):
            e = json.load(open(ev)); c = e["coverage"]
            out.append(f"| {pid} | {c.get('obligations')} = {c.get('discharged')} | {e['tier']}, {c.get('evaluations')}, {c.get('distinct_nontrivial')}, {e['wall_s']} |")
    return "\n".join(out)

doc = open(f"{V}/DESIGN.md").read()
doc = block("findings", findings(), doc)
doc = block("seeds", seeds(), doc)
doc = block("status", status(), doc)
open(f"{V}/DESIGN.md", "w").write(doc)
