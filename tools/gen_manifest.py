#!/usr/bin/env python3
"""Regenerates /verif/MANIFEST.json from the table below (kept valid at all times)."""
import json, os

VERIF = os.path.dirname(os.path.dirname(os.path.abspath(__file__)))
BASELINE = "cd /repo && /venv/bin/python -m pytest -ra -q -p no:cacheprovider --timeout=900 --continue-on-collection-errors"

NOTE = ("Trusted: Lean 4.33.0 kernel (axioms per theorem are printed by the audit and listed in the evidence: "
        "subset of propext, Classical.choice, Quot.sound; no native_decide/bv_decide/sorry), Mathlib v4.33.0, "
        "the hand-written model's tie to /repo is the correspondence harness run on every invocation "
        "(generators bound what it sees), numpy/scipy leaves as listed in DESIGN 2.7.")

def load_claims():
    """claims/Cxx.json: {"text":..., "design":..., "technique":..., optional "note":...} — one file per claimed property"""
    d = os.path.join(VERIF, "claims")
    out = {}
    for fn in sorted(os.listdir(d)):
        if fn.endswith(".json"):
            out[fn[:-5]] = json.load(open(os.path.join(d, fn)))
    return out


CLAIMED = load_claims()

REASONS_PENDING = "check not built yet in this round; planned per DESIGN.md section 3 (no technique switch)"

def main():
    props = [json.loads(l) for l in open(os.path.join(VERIF, "properties.jsonl"))]
    checks, na = [], []
    for p in props:
        pid = p["id"]
        if pid in CLAIMED:
            c = CLAIMED[pid]
            checks.append({
                "property_id": pid,
                "quick_cmd": f"./check {pid} quick",
                "thorough_cmd": f"./check {pid} thorough",
                "evidence_file": f"/verif/evidence/{pid}.json",
                "replay_cmd_template": f"./check {pid} --replay {{path}}",
                "engine": "lean-proof+correspondence",
                "level_claimed": {"category": "proof", "text": c["text"], "design_ref": c["design"]},
                "level_note": c.get("note", NOTE),
                "technique": c["technique"],
            })
        else:
            na.append({"property_id": pid, "reason": REASONS_PENDING})
    m = {
        "version": 1,
        # the generated tables are refreshed from /repo first (each C05 / C11 run does that again); the driver must build, the
        # theorem files are pre-built on a best-effort basis (every check builds and audits its own target and decides
        # what a failure means)
        "setup_cmd": "cd /verif && python3 tools/regen_index.py && (cd harness && /venv/bin/python sentinel.py > /dev/null 2>&1 || true) && cd lean && lake build driver && (lake build || true)",
        "hooks": {
            "guard": "VIROCON_VERIF",
            "enable": "no source hooks: the harness observes the real code in-process (subclassing, recording callables, monkey-patching inside the harness process)",
            "baseline_off_cmd": BASELINE,
            "source_commits": [],
            "add_only": True,
        },
        "engines": [{
            "name": "lean-proof+correspondence",
            "path": "/verif/lean, /verif/harness",
            "serves_properties": sorted(CLAIMED),
            "kind_free_text": "Lean 4 theorems about hand-written executable models; models tied to /repo by a differential correspondence harness over a line protocol; generated tables re-proved per run",
        }],
        "checks": checks,
        "not_applicable": na,
        "notes": "See DESIGN.md. Fix commits in /repo are listed in known_findings/*.txt (fixed: lines).",
    }
    json.dump(m, open(os.path.join(VERIF, "MANIFEST.json"), "w"), indent=1)

if __name__ == "__main__":
    main()
