#!/usr/bin/env python3
"""prints the prompt for an independent 'harmless rewrite' sub-agent for one property (tests the no-false-alarm side)"""
import json, sys
pid = sys.argv[1]
rec = [json.loads(l) for l in open("/verif/properties.jsonl") if json.loads(l)["id"] == pid][0]
wt = f"/tmp/harmless-{pid}"
print(f"""You are helping to evaluate a verification effort for the open-source Python library `virocon` (environmental contours from hierarchical joint distributions). Your job is to play the role of a careful maintainer who REFACTORS code without changing its behaviour.

Work ONLY in your own scratch git worktree of the repository; create it first:

    git -C /repo worktree add --detach {wt} HEAD

Do NOT read, list or use anything under /verif (it contains the machinery you are helping to evaluate). Do not modify /repo itself. Python: use `/venv/bin/python` (use PYTHONPATH={wt} or run from inside {wt}; `cd {wt} && /venv/bin/python -c "import virocon; print(virocon.__file__)"` must print a path under {wt}). Never use `git stash` (shared between worktrees).

Here is a semantic property that virocon satisfies (JSON record):

{json.dumps(rec, indent=1)}

Task: make a realistic, NON-TRIVIAL but BEHAVIOUR-PRESERVING refactoring (20-80 changed lines) of the code that this property's anchors point to — the kind of clean-up a maintainer does: extract a helper function or method, rename local variables and private attributes consistently, restructure conditionals (early returns, merged branches), replace a Python loop by an equivalent comprehension or the other way round, reorder statements that do not depend on each other, replace an idiom by an equivalent one (e.g. `np.c_[a, b]` by `np.column_stack`, `dict(zip(...))` by a comprehension, `if x is not None` chains by a small lookup), add type hints / docstrings, move a nested function to module level. Requirements:
 (1) the public behaviour must be EXACTLY preserved for all inputs the property quantifies over: same return values (bit-for-bit for everything that is plain arithmetic; you must not reorder floating-point operations, change summation order, change dtypes, change which random numbers are drawn or in which order, or change which exceptions / warnings are raised), same mutations (or absence of mutations) of objects and arguments, same public attributes of the objects involved (do keep documented public attributes such as `coordinates`, `parameters`, `data_intervals`, `conditioning_values`, `parameters_per_interval`, `x`/`y` of dependence functions, `sample`, `fm`, `cell_center_coordinates`; purely internal helpers and locals may be renamed);
 (2) the existing test suite passes unchanged: `cd {wt} && /venv/bin/python -m pytest -q -p no:cacheprovider --timeout=900` (3-8 minutes; `tests/test_workflows.py::test_v_hs_hd_contour` fails already without your change because a dataset file is empty, ignore that one);
 (3) write `{wt}/demo_{pid}.py`: a deterministic program (fixed seeds, < 2 minutes) that exercises the refactored code on a spread of inputs (including unusual option combinations, integer inputs, re-use of objects) and prints a SHA-256 digest of all results (use `numpy.ndarray.tobytes()`); it must print the SAME digest on the original code and on your refactored code and exit 0. Verify both (`git diff -- virocon > patch.diff; git apply -R patch.diff; run; git apply patch.diff; run`).

Deliver, in {wt}: `patch.diff` (output of `git diff -- virocon`), `demo_{pid}.py`, and `meta.json`: {{"property": "{pid}", "kind": "harmless-rewrite", "summary": "...what was refactored...", "why_behaviour_preserving": "...", "commands_run": ["..."], "digest_original": "...", "digest_refactored": "..."}}.
Leave the worktree in place with the change applied. In your final message give a 4-line summary.""")
