#!/bin/sh
# usage: tools/confirm_seed_suite.sh <seeded-id>...   — runs the repository's full test suite with each seeded patch
# applied in a scratch worktree (never /repo) and records the summary line in seeded/<id>/suite.txt
W=/var/tmp/vr-seedtest
[ -d $W ] || git -C /repo worktree add -q --detach $W HEAD
for id in "$@"; do
  cd $W && git checkout -q -- . && git checkout -q --detach "$(git -C /repo rev-parse HEAD)"
  git apply /verif/seeded/$id/patch.diff || { echo "patch does not apply" > /verif/seeded/$id/suite.txt; continue; }
  /venv/bin/python -m pytest -q -p no:cacheprovider --timeout=900 2>&1 | tail -1 > /verif/seeded/$id/suite.txt
  git checkout -q -- .
done
