#!/usr/bin/env python3
"""store_seed.py <Cxx> <seed-dir> <id> <caught: text>  — copies patch/demo/meta of a confirmed seeded change to seeded/<id>/"""
import json, os, shutil, sys
pid, src, sid, caught = sys.argv[1:5]
dst = os.path.join("/verif/seeded", sid)
os.makedirs(dst, exist_ok=True)
shutil.copy(os.path.join(src, "patch.diff"), dst)
shutil.copy(os.path.join(src, f"demo_{pid}.py"), dst)
meta = json.load(open(os.path.join(src, "meta.json")))
meta["confirmed_by_coordinator"] = {
    "applies_to": "repository HEAD at the time of seeding (git apply patch.diff)",
    "ran": [f"tools/try_seed.sh {pid} {src}  (demo on original -> PASS, demo on changed -> FAIL, ./check {pid} quick with VERIF_REPO=scratch worktree)",
            "tools/confirm_seed_suite.sh (full baseline suite with the patch applied in a scratch worktree)"],
    "caught_by": caught,
}
json.dump(meta, open(os.path.join(dst, "meta.json"), "w"), indent=1)
print("stored", dst)
