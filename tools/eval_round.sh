#!/bin/sh
# usage: tools/eval_round.sh <variant> [Cxx...]  — runs tools/try_seed.sh for every /tmp/seed-<Cxx><variant> (or the named ones)
# and prints one verdict line per seed: demo on original / on changed, and whether the property's quick check reported a violation
V=$1; shift
IDS=${*:-$(ls -d /tmp/seed-C??$V 2>/dev/null | sed "s#/tmp/seed-##; s#$V\$##")}
for P in $IDS; do
  D=/tmp/seed-$P$V
  [ -f $D/patch.diff ] || { echo "$P$V no patch.diff"; continue; }
  out=$(tools/try_seed.sh $P $D 2>&1)
  echo "$out" > /var/tmp/vv-logs/try_$P$V.log
  o=$(echo "$out" | sed -n '/== demo on original/,/== demo on changed/p' | grep -c "^PASS\|PASS")
  c=$(echo "$out" | sed -n '/== demo on changed/,/== check/p' | grep -c "FAIL")
  v=$(echo "$out" | sed -n '/== check/,$p' | grep -c "^VIOLATION")
  m=$(echo "$out" | sed -n '/== check/,$p' | grep -c "MACHINERY")
  echo "$P$V demo_orig_pass=$o demo_changed_fail=$c violations=$v machinery=$m $( [ $v -gt 0 ] && echo CAUGHT || echo MISSED )"
done
