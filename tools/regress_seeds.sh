#!/bin/sh
# usage: tools/regress_seeds.sh [ids...]  — re-applies every stored seeded change (seeded/<id>/patch.diff) to a scratch worktree of
# /repo's HEAD and runs the check(s) recorded as catching it, from a scratch worktree of /verif's HEAD (own lean build, own
# generated tables): prints CAUGHT / MISSED / NOAPPLY per seed. Neither /repo nor /verif is touched.
V=/var/tmp/verif-regress; R=/var/tmp/vr-regress
cd /verif || exit 2
[ -d $V ] || git worktree add -q --detach $V HEAD
[ -d $R ] || git -C /repo worktree add -q --detach $R HEAD
(cd $V && git checkout -q -- . && git checkout -q -f --detach "$(git -C /verif rev-parse HEAD)" && python3 tools/regen_index.py && cd lean && lake build driver > /dev/null 2>&1)
IDS=${*:-$(ls /verif/seeded)}
for id in $IDS; do
  D=/verif/seeded/$id
  [ -f $D/patch.diff ] || continue
  cd $R && git checkout -q -- . && git checkout -q --detach "$(git -C /repo rev-parse HEAD)"
  if ! git apply $D/patch.diff 2>/dev/null; then echo "$id NOAPPLY"; continue; fi
  checks=$(python3 -c "
import json,re,sys
m=json.load(open('$D/meta.json'))
c=re.findall(r'check (C\d\d)', m.get('confirmed_by_coordinator',{}).get('caught_by',''))
print(' '.join(dict.fromkeys(c)) or m.get('property',''))")
  res=MISSED
  for c in $checks; do
    n=$(cd $V && VERIF_REPO=$R VERIF_SEED=0 ./check $c quick 2>&1 | grep -c '^VIOLATION')
    if [ "$n" -gt 0 ]; then res="CAUGHT($c)"; break; fi
  done
  echo "$id $res [$checks]"
  cd $R && git checkout -q -- .
done
