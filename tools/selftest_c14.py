"""Mutation self-test of the C14 check (see claims/C14.json "selftest"): python3 tools/selftest_c14.py [names…]"""
import subprocess, sys, os, json, glob, time
REPO = os.environ.get("VERIF_REPO", "/var/tmp/vr-c14")  # scratch worktree of virocon, never /repo itself
VW = os.path.dirname(os.path.dirname(os.path.abspath(__file__)))
def sub(path, old, new, count=1):
    p=os.path.join(REPO,path); s=open(p).read(); assert old in s, (path, old); open(p,"w").write(s.replace(old,new,count))
MUTS = {
 "M1_no_callback_after_fit": lambda: sub("virocon/dependencies.py","        for dependent in self.dependents:\n            dependent.callback(self)\n","        pass\n"),
 "M2_xy_not_stored_when_may_not_fit": lambda: sub("virocon/dependencies.py","        self.x = x\n        self.y = y\n        if self._may_fit:  # is the conditioner fitted, so that we can fit now?\n            self._fit(self.x, self.y)","        if self._may_fit:  # is the conditioner fitted, so that we can fit now?\n            self.x = x\n            self.y = y\n            self._fit(self.x, self.y)"),
 "M3_register_dropped": lambda: sub("virocon/dependencies.py","                dep_param.register(self)\n",""),
 "M4_refit_only_first_time": lambda: sub("virocon/dependencies.py","            self._may_fit = True\n            if hasattr(self, \"x\") and hasattr(","            first = not self._may_fit\n            self._may_fit = True\n            if first and hasattr(self, \"x\") and hasattr("),
 "M5_bounds_swapped": lambda: sub("virocon/_fitting.py","    return [lower_bounds, upper_bounds]","    return [upper_bounds, lower_bounds]"),
 "M5b_upper_default_minus_inf": lambda: sub("virocon/_fitting.py","upper if upper is not None else np.inf","upper if upper is not None else -np.inf"),
 "M6_sigma_dropped_with_bounds": lambda: sub("virocon/_fitting.py","curve_fit(func, x, y, p0, sigma=weights, bounds=bounds)","curve_fit(func, x, y, p0, bounds=bounds)"),
 "M6b_sigma_dropped_no_bounds": lambda: sub("virocon/_fitting.py","curve_fit(func, x, y, p0, sigma=weights)","curve_fit(func, x, y, p0)"),
 "M7_constraints_not_forwarded": lambda: sub("virocon/_fitting.py","        constraints=constraints,\n        bounds=bounds,","        bounds=bounds,"),
 "M8_eps_1e-15": lambda: sub("virocon/_fitting.py","        # tol=1E-15\n","        options={\"eps\": 1e-15},\n"),
 "M9_refit_with_wrong_data": lambda: sub("virocon/dependencies.py","                self.fit(self.x, self.y)","                self.fit(self.x, self.x)"),
 "M10_bounds_dropped_in_slsqp": lambda: sub("virocon/_fitting.py","        constraints=constraints,\n        bounds=bounds,","        constraints=constraints,"),
 "M11_weights_evaluated_on_swapped_args": lambda: sub("virocon/dependencies.py","weights = weights(x, y)","weights = weights(y, x)"),
 "M12_parameters_zipped_reversed": lambda: sub("virocon/dependencies.py","dict(zip(self.parameters.keys(), popt))","dict(zip(self.parameters.keys(), popt[::-1]))"),
 "M13_conddist_y_from_wrong_parameter": lambda: sub("virocon/distributions.py","            y = [params[par_name] for params in self.parameters_per_interval]","            y = [list(params.values())[0] for params in self.parameters_per_interval]"),
 "M14_callback_sets_may_fit_but_refits_before_conditioner_params_updated": lambda: sub("virocon/dependencies.py","        # update self with fitted parameters\n        self.parameters = dict(zip(self.parameters.keys(), popt))\n\n        # after fitting inform dependents:\n        for dependent in self.dependents:\n            dependent.callback(self)\n","        # after fitting inform dependents:\n        for dependent in self.dependents:\n            dependent.callback(self)\n\n        # update self with fitted parameters\n        self.parameters = dict(zip(self.parameters.keys(), popt))\n"),
 "H1_convert_bounds_comprehension": lambda: sub("virocon/_fitting.py","""    lower_bounds = []
    upper_bounds = []
    for lower, upper in bounds:
        lower_bounds.append(lower if lower is not None else -np.inf)
        upper_bounds.append(upper if upper is not None else np.inf)
    return [lower_bounds, upper_bounds]""","""    lows = [-np.inf if b[0] is None else b[0] for b in bounds]
    highs = [np.inf if b[1] is None else b[1] for b in bounds]
    return [lows, highs]"""),
 "H2_fit_function_kwargs_dict": lambda: sub("virocon/_fitting.py","""    if method == "lsq":
        if bounds is None:
            popt, _ = curve_fit(func, x, y, p0)
        else:
            popt, _ = curve_fit(func, x, y, p0, bounds=bounds)
    elif method == "wlsq":
        if bounds is None:
            popt, _ = curve_fit(func, x, y, p0, sigma=weights)
        else:
            popt, _ = curve_fit(func, x, y, p0, sigma=weights, bounds=bounds)
    else:""","""    kwargs = {}
    if bounds is not None:
        kwargs["bounds"] = bounds
    if method == "wlsq":
        kwargs["sigma"] = weights
    if method in ("lsq", "wlsq"):
        popt, _ = curve_fit(func, x, y, p0, **kwargs)
    else:"""),
 "H3_dependencies_renamed_locals_and_order": lambda: (sub("virocon/dependencies.py","        self.x = x\n        self.y = y\n        if self._may_fit:","        self.y = y\n        self.x = x\n        if self._may_fit:"), sub("virocon/dependencies.py","        for dependent in self.dependents:\n            dependent.callback(self)\n","        for registered in list(self.dependents):\n            registered.callback(caller=self)\n")),
}
names = sys.argv[1:] or list(MUTS)
for name in names:
    subprocess.run(["git","checkout","--","."],cwd=REPO,check=True)
    MUTS[name]()
    t=time.time()
    p=subprocess.run(["./check","C14","quick"],cwd=VW,env=dict(os.environ,VERIF_REPO=REPO),capture_output=True,text=True)
    out=[l for l in p.stdout.splitlines() if l.startswith("VIOLATION") or l.startswith("MACHINERY")]
    preds=[]
    for l in out:
        if "replay=" in l:
            f=l.split("replay=")[1].split()[0]; d=json.load(open(f))
            preds.append(d.get("signature",{}).get("predicate") or ("corr:"+str(d.get("correspondence")) if d.get("correspondence") else "proof"))
    print(f"{name}: exit={p.returncode} {round(time.time()-t)}s violations={len(out)} {preds}", flush=True)
    if p.returncode==2: print(p.stdout[-600:], p.stderr[-600:])
subprocess.run(["git","checkout","--","."],cwd=REPO,check=True)
