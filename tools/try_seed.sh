#!/bin/sh
# usage: tools/try_seed.sh <Cxx> <seed-dir> [check-ids...]   — applies the seeded patch to a scratch worktree, runs the
# demonstration with and without it and the named checks against it; prints a summary. Never touches /repo.
P=$1; D=$2; shift 2; CHECKS=${*:-$P}
W=/var/tmp/vr-main
[ -d $W ] || git -C /repo worktree add -q --detach $W HEAD
cd $W && git checkout -q -- . && git checkout -q --detach "$(git -C /repo rev-parse HEAD)" || exit 2
echo "== demo on original"; (cd $W && cp $D/demo_$P.py . && PYTHONPATH=$W timeout 300 /venv/bin/python demo_$P.py 2>&1 | grep -v Warning | tail -3; echo "exit $?")
git apply $D/patch.diff || { echo "PATCH DOES NOT APPLY"; exit 3; }
echo "== demo on changed"; (cd $W && PYTHONPATH=$W timeout 300 /venv/bin/python demo_$P.py 2>&1 | grep -v Warning | tail -4)
for c in $CHECKS; do
  echo "== check $c quick on changed"; (cd /verif && VERIF_REPO=$W ./check $c quick 2>&1 | grep -v KNOWN | tail -3 | cut -c1-160)
done
cd $W && git checkout -q -- . && rm -f demo_$P.py
# the C05 / C11 checks regenerate lean/VirVerif/Generated from the tree under test: restore the committed (= /repo) tables
git -C /verif checkout -q -- lean/VirVerif/Generated 2>/dev/null
