#!/usr/bin/env python3
"""prints the prompt for an independent 'seeded change' sub-agent for one property"""
import json, sys
pid = sys.argv[1]
variant = sys.argv[2] if len(sys.argv) > 2 else "a"
rec = [json.loads(l) for l in open("/verif/properties.jsonl") if json.loads(l)["id"] == pid][0]
wt = f"/tmp/seed-{pid}{variant}"
# later rounds: a property-independent nudge away from the most obvious code site (no information about the checks)
_N = {
 "e": ("(2b) do NOT take the first code site or mechanism that comes to mind: look through ALL files, entry points, "
    "keyword options and code paths that the property's statement, quantifier and anchors mention (also the rarely used ones: optional "
    "arguments with non-default values, alternative input types, the 3-D / n-D variants, helper functions shared by several entry points) "
    "and pick one that a quick reviewer would be least likely to exercise.\n "),
 "f": ("(2b) do NOT take the first code site or mechanism that comes to mind. Prefer a bug that shows only through STATE or INTERPLAY: "
    "an object used twice (second call differs from the first), a value cached or stored on an object and reused later, two objects that end up "
    "sharing a mutable value, an input array modified in place, a result that depends on what was computed before, the order in which two "
    "things are done, or a default that is only right for the first use. The property must still be the one that is violated.\n "),
 "g": ("(2b) do NOT take the first code site or mechanism that comes to mind. Prefer a bug at a NUMERIC or STRUCTURAL EDGE that the property's "
    "quantifier includes: values exactly on a boundary or exactly equal to each other, zero / negative / very large or very small magnitudes, "
    "integer or float32 dtypes, lists or tuples instead of arrays, a single row or the smallest admissible size, the last element / last "
    "interval / last dimension, a dimension count other than 2, or options at the ends of their admissible range.\n "),
 "h": ("(2b) do NOT take the first code site or mechanism that comes to mind. Prefer a bug in the GLUE rather than in the core formula: "
    "argument parsing and defaults, conversion between the public API and the internal representation (lists vs arrays, dicts of options, "
    "index <-> name mapping, n-D reshape / flatten / transpose, degrees vs radians, probability vs exceedance), an error-handling path that "
    "swallows or converts an exception, a warning that is no longer raised, or the bookkeeping that decides WHICH object, column, interval or "
    "dimension a value belongs to. The property must still be the one that is violated.\n "),
}
NUDGE = _N.get(variant[-1], "") if variant >= "e" else ""
print(f"""You are helping to evaluate a verification effort for the open-source Python library `virocon` (environmental contours from hierarchical joint distributions). Your job is to play the role of a developer who introduces a subtle bug.

Work ONLY in your own scratch git worktree of the repository; create it first:

    git -C /repo worktree add --detach {wt} HEAD

Do NOT read, list or use anything under /verif (it contains the machinery you are helping to evaluate; your change must be independent of it). Do not modify /repo itself. Python: use `/venv/bin/python` (the package is importable from a source tree by putting that tree first on sys.path, e.g. `cd {wt} && /venv/bin/python -c "import virocon; print(virocon.__file__)"` must print a path under {wt}; use PYTHONPATH={wt} when running from elsewhere).

Here is a semantic property that virocon is supposed to satisfy (JSON record):

{json.dumps(rec, indent=1)}

Task: make ONE small, realistic change to the library source under {wt}/virocon that BREAKS this property, while
 (1) the code still imports and the EXISTING test suite still passes unchanged (run at least the test files that touch the code you changed with `cd {wt} && /venv/bin/python -m pytest -q -p no:cacheprovider tests/<file>.py`, and before you finish the whole suite once: `cd {wt} && /venv/bin/python -m pytest -q -p no:cacheprovider --timeout=900` — it takes 3-8 minutes; `tests/test_workflows.py::test_v_hs_hd_contour` fails already without your change because a dataset file is empty, ignore that one);
 (2) the bug needs something SPECIFIC to manifest — a particular kind of input, an unusual but legitimate option combination, a multi-step sequence of operations, a boundary value, a tie, an ordering, or two sites that each look fine alone — NOT something ordinary use or the existing tests would expose at once. Think of the kind of slip a tired maintainer makes in a refactoring: an off-by-one, `<` for `<=`, a swapped index or column, a stale variable, a dropped normalisation or copy, a wrong default, an edge case handled for 2-D but not 3-D. The change should look plausible in code review (no comments announcing it, no dead code). Prefer a change in the code the property's anchors point to.
 {NUDGE}(3) you write a small demonstration program `{wt}/demo_{pid}.py` that uses only virocon's public behaviour (plus numpy/scipy), is deterministic (fix seeds), runs in under 2 minutes, exits 0 and prints PASS on the ORIGINAL code and exits 1 and prints FAIL (with the concrete numbers that show the property is violated) on your CHANGED code. Verify both: run it with your change, then save your diff (`git diff -- virocon > patch.diff`), reverse it (`git apply -R patch.diff`), run the demo again, and re-apply (`git apply patch.diff`). Do NOT use `git stash` (the stash is shared between all worktrees of the repository and other people are working in theirs).

Deliver, in {wt}:
  - `patch.diff`  : output of `git diff -- virocon` (only library source, applies with `git apply` to the repository HEAD);
  - `demo_{pid}.py`;
  - `meta.json`   : {{"property": "{pid}", "summary": "...what was changed...", "needs_to_manifest": "...what specific input/sequence/option exposes it...", "why_tests_pass": "...", "commands_run": ["..."], "demo_output_changed": "...", "demo_output_original": "..."}}.
Leave the worktree in place (do not remove it) with the change applied. In your final message give a 5-line summary (what you changed, what it needs to manifest, that the suite passes, demo results).""")
