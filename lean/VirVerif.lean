import VirVerif.Model.Num
import VirVerif.Model.Slicers
import VirVerif.Drv.Proto
import VirVerif.Drv.C10
import VirVerif.Properties.C10
