/-
Lemmas about the hierarchical chain (Model/Hier.lean), shared by C01, C06, C07.
-/
import VirVerif.Model.Hier
import Mathlib.Data.List.Basic
import Mathlib.Tactic.Linarith

namespace VirVerif
variable {α : Type}

/-- the dependence structure is hierarchical on the first `n` dimensions -/
def Hier (c : Nat → Option Nat) (n : Nat) : Prop := ∀ i j, i < n → c i = some j → j < i

theorem optMapM_eq_some_iff {β γ : Type} (f : β → Option γ) (l : List β) (r : List γ) :
    optMapM f l = some r ↔ r.length = l.length ∧ ∀ k (hk : k < l.length), f l[k] = r[k]? := by
  induction l generalizing r with
  | nil =>
    constructor
    · intro h; simp [optMapM] at h; subst h; simp
    · intro ⟨h, _⟩
      have : r = [] := List.eq_nil_of_length_eq_zero h
      simp [optMapM, this]
  | cons x xs ih =>
    constructor
    · intro h
      simp only [optMapM] at h
      split at h
      · rename_i y ys hy hys
        cases h
        obtain ⟨hl, hk⟩ := (ih ys).mp hys
        refine ⟨by simp [hl], ?_⟩
        intro k hk'
        cases k with
        | zero => simpa using hy
        | succ k => simpa using hk k (by simpa using hk')
      · cases h
    · intro ⟨hl, hk⟩
      cases r with
      | nil => simp at hl
      | cons y ys =>
        have h0 := hk 0 (by simp)
        simp at h0
        have hys : optMapM f xs = some ys := by
          apply (ih ys).mpr
          refine ⟨by simpa using hl, ?_⟩
          intro k hk'
          have := hk (k + 1) (by simpa using hk')
          simpa using this
        simp [optMapM, h0, hys]

/-- characterisation of a successful forward transform -/
theorem ros_eq_some_iff (c : Nat → Option Nat) (F : Nat → Option α → α → α) (row fs : List α) :
    ros c F row = some fs ↔
      fs.length = row.length ∧ ∀ i (_ : i < row.length), rosAt c F row i = fs[i]? := by
  unfold ros
  rw [optMapM_eq_some_iff]
  simp only [List.length_range, List.getElem_range]

/-- each component is defined when the structure is hierarchical -/
theorem rosAt_some_of_hier (c : Nat → Option Nat) (F : Nat → Option α → α → α) (row : List α)
    (hier : Hier c row.length) (i : Nat) (hi : i < row.length) :
    ∃ g, readCond row (c i) = some g ∧ rosAt c F row i = some (F i g row[i]) := by
  unfold rosAt
  cases hc : c i with
  | none => exact ⟨none, rfl, by simp [readCond, List.getElem?_eq_getElem hi]⟩
  | some j =>
    have hj := hier i j hi hc
    have hjr : j < row.length := by omega
    exact ⟨some row[j], by simp [readCond, hjr], by simp [readCond, hjr, List.getElem?_eq_getElem hi]⟩

/-- a total function into `Option` that is `some` everywhere on a list has a result list -/
theorem optMapM_isSome {β γ : Type} (f : β → Option γ) (l : List β)
    (h : ∀ x ∈ l, ∃ y, f x = some y) : ∃ r, optMapM f l = some r := by
  induction l with
  | nil => exact ⟨[], rfl⟩
  | cons a as ih =>
    obtain ⟨y, hy⟩ := h a (by simp)
    obtain ⟨ys, hys⟩ := ih (fun x hx => h x (by simp [hx]))
    exact ⟨y :: ys, by simp [optMapM, hy, hys]⟩

theorem ros_defined (c : Nat → Option Nat) (F : Nat → Option α → α → α) (row : List α)
    (hier : Hier c row.length) : ∃ fs, ros c F row = some fs := by
  unfold ros
  apply optMapM_isSome
  intro i hi
  obtain ⟨g, _, h⟩ := rosAt_some_of_hier c F row hier i (List.mem_range.mp hi)
  exact ⟨_, h⟩

theorem readCond_append (row ext : List α) (o : Option Nat) (g : Option α)
    (h : readCond row o = some g) : readCond (row ++ ext) o = some g := by
  cases o with
  | none => simpa [readCond] using h
  | some j =>
    simp only [readCond] at h ⊢
    split at h
    · rename_i hj
      have : j < (row ++ ext).length := by simp; omega
      simp only [this, dite_true]
      rw [List.getElem_append_left hj]; exact h
    · cases h

/-- the chain never reads an uninitialised column when the structure is hierarchical,
and every computed component satisfies the round-trip equation -/
theorem invRosAux_spec (c : Nat → Option Nat) (F Q : Nat → Option α → α → α) (P : α → Prop)
    (hFQ : ∀ i g p, P p → F i g (Q i g p) = p)
    (acc ps : List α) (n : Nat) (hn : acc.length + ps.length = n) (hier : Hier c n)
    (hP : ∀ p ∈ ps, P p) :
    ∃ row, invRosAux c Q acc ps = some row ∧ row.length = n ∧
      (∀ k (_ : k < acc.length), row[k]? = acc[k]?) ∧
      (∀ k (hk : k < ps.length), ∃ g x, readCond row (c (acc.length + k)) = some g ∧
          row[acc.length + k]? = some x ∧ F (acc.length + k) g x = ps[k]) := by
  induction ps generalizing acc with
  | nil =>
    refine ⟨acc, rfl, by simpa using hn, fun k hk => rfl, ?_⟩
    intro k hk; simp at hk
  | cons p ps ih =>
    have hlen : acc.length < n := by simp at hn; omega
    obtain ⟨g, hg⟩ : ∃ g, readCond acc (c acc.length) = some g := by
      cases hc : c acc.length with
      | none => exact ⟨none, rfl⟩
      | some j =>
        have := hier _ j hlen hc
        exact ⟨some acc[j], by simp [readCond, this]⟩
    simp only [invRosAux, hg]
    have hn' : (acc ++ [Q acc.length g p]).length + ps.length = n := by
      simp at hn ⊢; omega
    obtain ⟨row, hrow, hlenrow, hpre, hpost⟩ :=
      ih (acc ++ [Q acc.length g p]) hn' (fun q hq => hP q (by simp [hq]))
    refine ⟨row, hrow, hlenrow, ?_, ?_⟩
    · intro k hk
      have := hpre k (by simp; omega)
      rw [this, List.getElem?_append_left hk]
    · intro k hk
      cases k with
      | zero =>
        have h1 := hpre acc.length (by simp)
        simp only [List.getElem?_append_right (le_refl _), Nat.sub_self] at h1
        have hg' : readCond row (c acc.length) = some g := by
          cases hc : c acc.length with
          | none => simp [readCond, hc] at hg ⊢; exact hg
          | some j =>
            have hj := hier _ j hlen hc
            rw [hc] at hg
            simp only [readCond, hj, dite_true] at hg
            have hjr : j < row.length := by omega
            simp only [readCond, hjr, dite_true]
            have := hpre j (by simp; omega)
            rw [List.getElem?_append_left hj] at this
            rw [List.getElem?_eq_getElem hjr, List.getElem?_eq_getElem hj] at this
            injection this with this
            rw [this]; exact hg
        exact ⟨g, Q acc.length g p, by simpa using hg', by simpa using h1,
          by simpa using hFQ _ g p (hP p (by simp))⟩
      | succ k =>
        obtain ⟨g', x', h1, h2, h3⟩ := hpost k (by simp at hk; omega)
        refine ⟨g', x', ?_, ?_, ?_⟩
        · simpa [Nat.add_assoc, Nat.add_comm 1 k] using h1
        · simpa [Nat.add_assoc, Nat.add_comm 1 k] using h2
        · simpa [Nat.add_assoc, Nat.add_comm 1 k] using h3

/-- **round trip of one row**: for a hierarchical structure and leaves with `F ∘ Q = id` on the
probabilities used, the inverse chain succeeds and the forward Rosenblatt transform of its
result is the probability vector it started from. -/
theorem ros_invRos (c : Nat → Option Nat) (F Q : Nat → Option α → α → α) (P : α → Prop)
    (hFQ : ∀ i g p, P p → F i g (Q i g p) = p) (ps : List α) (hier : Hier c ps.length)
    (hP : ∀ p ∈ ps, P p) :
    ∃ row, invRos c Q ps = some row ∧ row.length = ps.length ∧ ros c F row = some ps := by
  obtain ⟨row, h1, h2, _, h4⟩ :=
    invRosAux_spec c F Q P hFQ [] ps ps.length (by simp) hier hP
  refine ⟨row, h1, h2, ?_⟩
  unfold ros
  rw [optMapM_eq_some_iff]
  refine ⟨by simp [h2], ?_⟩
  intro k hk
  simp only [List.length_range] at hk
  have hk' : k < ps.length := by omega
  obtain ⟨g, x, hg, hx, hF⟩ := h4 k hk'
  simp only [List.length_nil, Nat.zero_add] at hg hx hF
  simp only [List.getElem_range, rosAt, hg, hx]
  rw [hF, List.getElem?_eq_getElem hk']

/-- **necessity of the hierarchy**: if some dimension `i` is conditional on a dimension `j ≥ i`
the chain reads a column that is not computed yet — the model refuses (`none`), the Python
code would silently use the uninitialised array content. -/
theorem invRosAux_none_of_not_hier (c : Nat → Option Nat) (Q : Nat → Option α → α → α)
    (acc ps : List α) (i j : Nat) (hi : acc.length ≤ i) (hi' : i < acc.length + ps.length)
    (hc : c i = some j) (hj : i ≤ j) : invRosAux c Q acc ps = none := by
  induction ps generalizing acc with
  | nil => simp at hi'; omega
  | cons p ps ih =>
    simp only [invRosAux]
    by_cases h : acc.length = i
    · subst h
      simp [hc, readCond, Nat.not_lt.mpr hj]
    · cases hr : readCond acc (c acc.length) with
      | none => rfl
      | some g =>
        exact ih (acc ++ [Q acc.length g p]) (by simp; omega) (by simp at hi' ⊢; omega)

end VirVerif
