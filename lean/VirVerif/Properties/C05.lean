/-
C05 (table part, draft)
-/
import VirVerif.Model.Families
import VirVerif.Generated.ParamMap

namespace VirVerif.C05
open VirVerif VirVerif.Generated

theorem table_complete : getTableComplete families getRows = true := by decide +kernel
theorem override_law : getTableOk baseMaps getRows = true := by decide +kernel
theorem refusal_only_documented : getRows.all (raiseOk families) = true := by decide +kernel

end VirVerif.C05
