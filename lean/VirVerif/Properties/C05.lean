/-
C05 — Every distribution's cdf/icdf/pdf follow the documented formula and each other.

"For every shipped distribution family and every admissible parameter vector, cdf, icdf and pdf
equal the family's documented formula in the documented parameterisation (e.g.
F(x) = [1-exp(-(x/alpha)^beta)]^delta for the exponentiated Weibull; mean/std = mu_norm/sigma_norm
for the norm-fit log-normal) and are mutually consistent: cdf is non-decreasing from 0 to 1,
icdf(cdf(x)) = x and cdf(icdf(p)) = p, pdf is the derivative of cdf, non-negative and zero outside
the support. Passing parameter values explicitly to a call gives exactly the result of an instance
constructed with those values, for every parameter and every method."

The code delegates to scipy.stats through a parameter map; what is virocon's own is that map.
`Generated/ParamMap.lean` is what the code says the map is on THIS run (sentinel execution of the
real cdf/icdf/pdf with scipy's methods replaced by recorders, harness/sentinel.py); the table
theorems below are re-proved by `lake build` whenever it changes.

clause                                              theorem(s)
--------------------------------------------------  ------------------------------------------------
explicit parameters = constructed instance          table_complete, override_law, override_law_semantic,
  (every family × method × subset × convention)       eval_substArg, refusal_only_documented
which scipy distribution / slot gets which param    family_names, family_params, slot_maps
documented formula = scipy's (shape,loc,scale) form scipy_form_eq_documented_weibull / _ew / _lognormal /
  under the generated map                             _normal / _lognormfit / _gg / _vonmises / _gumbel,
                                                      scipy_subclass_identity_map (gamma, beta by `scipy_dist_name`;
                                                      Gumbel by `scipy_dist`, a scipy law without shape parameters)
mean/std of the norm-fit log-normal                 lognormfit_moments
icdf(cdf x) = x, cdf(icdf p) = p                    weibull_icdf_cdf, weibull_cdf_icdf, ew_icdf_cdf, ew_cdf_icdf,
                                                      gumbel_icdf_cdf, gumbel_cdf_icdf
cdf non-decreasing, from 0 to 1                     weibull_cdf_monotone, weibull_cdf_strictMonoOn, weibull_cdf_nonneg,
                                                      weibull_cdf_lt_one, weibull_cdf_tendsto_zero/_one; ew_… likewise;
                                                      gumbel_cdf_strictMono, gumbel_cdf_monotone, gumbel_cdf_pos,
                                                      gumbel_cdf_lt_one, gumbel_cdf_tendsto_zero/_one
pdf = d/dx cdf                                      weibull_hasDerivAt_cdf, ew_hasDerivAt_cdf, gumbel_hasDerivAt_cdf
pdf ≥ 0, = 0 off the support                        weibull_pdf_nonneg (+ weibull_pdf_pos on the open support),
                                                      weibull_pdf_zero_off_support, ew_…,
                                                      lognormal_pdf_…, normal_pdf_nonneg, gg_pdf_…, vonmises_pdf_nonneg,
                                                      gumbel_pdf_pos (support = the whole line)
families whose special function is scipy's          …_partial: lognormal / normal / gg / vonmises inverse,
                                                      monotonicity, RANGE [0,1] (…_cdf_range_partial) and LIMIT 0 / 1
                                                      (…_cdf_tendsto_partial; von Mises: values 0 / 1 at μ∓π) laws
                                                      RELATIVE TO an abstract Φ, P(m,·), V_κ that is monotone with
                                                      the stated inverse, range and limits (= scipy's contract).
                                                      FULL STATEMENT (for scipy's actual ndtr/gammainc/von Mises
                                                      cdf, and pdf = d/dx cdf for these families) is not provable
                                                      here: only observed numerically by harness/c05.py.
families WITHOUT a consistency theorem of their own  GammaScipyDistribution, BetaScipyDistribution (only
                                                      scipy_subclass_identity_map) and LogNormalNormFitDistribution (only the
                                                      moment map lognormfit_moments / scipy_form_eq_documented_lognormfit):
                                                      monotone 0..1, inverse laws, pdf = d/dx cdf, pdf ≥ 0 are OBSERVED only.
container type of a value (ndarray-valued parameters,  no theorem (the tables say which expression reaches which scipy slot):
  int / float32 / tuple / 0-d / empty x), instance     OBSERVED per run by harness/c05.py, as are icdf(0) / icdf(1) = ends of
  re-use after an explicit-parameter call              the support and cdf(±∞) = 0 / 1
the defect this found (DESIGN 4 #1)                 override_law_counterexample_old_normal

All analytic theorems are over ℝ (`realTr`); the driver evaluates the same definitions at Float and
the harness compares them with the real code (rtol 1e-9, conditioning-aware).
-/
import VirVerif.Model.Families
import VirVerif.Generated.ParamMap
import Mathlib.Analysis.SpecialFunctions.Pow.Real
import Mathlib.Analysis.SpecialFunctions.Pow.Asymptotics
import Mathlib.Analysis.SpecialFunctions.Pow.Deriv
import Mathlib.Analysis.SpecialFunctions.Log.Basic
import Mathlib.Analysis.SpecialFunctions.Exp
import Mathlib.Analysis.SpecialFunctions.Sqrt
import Mathlib.Tactic.Linarith
import Mathlib.Tactic.Ring
import Mathlib.Tactic.FieldSimp
import Mathlib.Tactic.Positivity

namespace VirVerif.C05
open VirVerif VirVerif.Generated Filter Topology

/-! ## generated-table theorems (re-proved against the code on every run) -/

theorem table_complete : getTableComplete families getRows = true := by decide +kernel
theorem override_law : getTableOk baseMaps getRows = true := by decide +kernel
theorem refusal_only_documented : getRows.all (raiseOk families) = true := by decide +kernel

section semantics
variable {α : Type} [Add α] [Sub α] [Mul α] [Div α] [Neg α]

theorem eval_substArg (T : Tr α) (ρ : Env α) (f : Nat → PExpr) (e : PExpr) :
    (e.substArg f).eval T ρ = e.eval T { ρ with arg := fun p => (f p).eval T ρ } := by
  induction e with
  | arg p => rfl
  | farg p => rfl
  | expl p => rfl
  | dep p => rfl
  | est j => rfl
  | int n => rfl
  | bits b => rfl
  | add a b iha ihb => simp only [PExpr.substArg, PExpr.eval, iha, ihb]
  | sub a b iha ihb => simp only [PExpr.substArg, PExpr.eval, iha, ihb]
  | mul a b iha ihb => simp only [PExpr.substArg, PExpr.eval, iha, ihb]
  | div a b iha ihb => simp only [PExpr.substArg, PExpr.eval, iha, ihb]
  | pow a b iha ihb => simp only [PExpr.substArg, PExpr.eval, iha, ihb]
  | neg a iha => simp only [PExpr.substArg, PExpr.eval, iha]
  | exp a iha => simp only [PExpr.substArg, PExpr.eval, iha]
  | log a iha => simp only [PExpr.substArg, PExpr.eval, iha]
  | sqrt a iha => simp only [PExpr.substArg, PExpr.eval, iha]

/-- override law, semantically -/
theorem override_law_semantic (T : Tr α) (ρ : Env α) (r : GetRow) (hr : r ∈ getRows)
    (d m : String) (s : List PExpr) (hres : r.result = some (d, m, s)) :
    ∃ d0 s0, baseMaps[r.fam]? = some (d0, s0) ∧ d = d0 ∧ m = scipyMethodOf r.meth ∧
      s.map (PExpr.eval T ρ) =
        s0.map (PExpr.eval T { ρ with arg := fun p => (leafFor r p).eval T ρ }) := by
  have h := override_law
  unfold getTableOk at h
  rw [Bool.and_eq_true] at h
  have h2 := (List.all_eq_true.mp h.2) r hr
  unfold getRowOkWith at h2
  rw [hres] at h2
  cases hb : baseMaps[r.fam]? with
  | none => rw [hb] at h2; simp at h2
  | some b =>
    obtain ⟨d0, s0⟩ := b
    rw [hb] at h2
    simp only [Bool.and_eq_true, beq_iff_eq] at h2
    refine ⟨d0, s0, rfl, h2.1.1, h2.1.2, ?_⟩
    rw [h2.2, List.map_map]
    apply List.map_congr_left
    intro e _
    exact eval_substArg T ρ (leafFor r) e

end semantics

/-! ## analytic theorems over ℝ -/

noncomputable def realTr : Tr ℝ :=
  { exp := Real.exp, log := Real.log, pow := fun x y => x ^ y, sqrt := Real.sqrt, cos := Real.cos,
    pi := Real.pi }

section weibull
variable {a b g : ℝ}

theorem weibull_cdf_eq_of_gt {x : ℝ} (hx : g < x) :
    weibullCdf realTr a b g x = 1 - Real.exp (-(((x - g) / a) ^ b)) := by
  simp [weibullCdf, realTr, not_le.2 hx]

theorem weibull_cdf_eq_of_le {x : ℝ} (hx : x ≤ g) : weibullCdf realTr a b g x = 0 := by
  simp [weibullCdf, hx]

theorem weibull_icdf_cdf (ha : 0 < a) (hb : 0 < b) {x : ℝ} (hx : g < x) :
    weibullIcdf realTr a b g (weibullCdf realTr a b g x) = x := by
  have hz : 0 < (x - g) / a := div_pos (sub_pos.2 hx) ha
  rw [weibull_cdf_eq_of_gt hx]
  simp only [weibullIcdf, realTr]
  rw [show (1 : ℝ) - (1 - Real.exp (-(((x - g) / a) ^ b))) = Real.exp (-(((x - g) / a) ^ b)) by ring,
    Real.log_exp, neg_neg, ← Real.rpow_mul hz.le, mul_one_div_cancel hb.ne', Real.rpow_one]
  field_simp
  ring

theorem weibull_cdf_icdf (ha : 0 < a) (hb : 0 < b) {p : ℝ} (hp0 : 0 ≤ p) (hp1 : p < 1) :
    weibullCdf realTr a b g (weibullIcdf realTr a b g p) = p := by
  have hb' : 1 / b ≠ 0 := (one_div_pos.2 hb).ne'
  rcases hp0.eq_or_lt with h0 | h0
  · subst h0
    have : weibullIcdf realTr a b g 0 = g := by
      simp [weibullIcdf, realTr, Real.zero_rpow (inv_ne_zero hb.ne')]
    rw [this, weibull_cdf_eq_of_le le_rfl]
  · have h1p : 0 < 1 - p := by linarith
    have hL : 0 < -Real.log (1 - p) := by
      have := Real.log_neg h1p (by linarith)
      linarith
    have hx : g < weibullIcdf realTr a b g p := by
      simp only [weibullIcdf, realTr]
      have := mul_pos ha (Real.rpow_pos_of_pos hL (1 / b))
      linarith
    rw [weibull_cdf_eq_of_gt hx]
    simp only [weibullIcdf, realTr]
    rw [show (g + a * (-Real.log (1 - p)) ^ (1 / b) - g) / a = (-Real.log (1 - p)) ^ (1 / b) by
        field_simp; ring,
      ← Real.rpow_mul hL.le, one_div_mul_cancel hb.ne', Real.rpow_one, neg_neg, Real.exp_log h1p]
    ring

theorem weibull_cdf_nonneg (ha : 0 < a) (x : ℝ) : 0 ≤ weibullCdf realTr a b g x := by
  rcases le_or_gt x g with h | h
  · rw [weibull_cdf_eq_of_le h]
  · rw [weibull_cdf_eq_of_gt h]
    have hz : 0 ≤ ((x - g) / a) ^ b := Real.rpow_nonneg (div_pos (sub_pos.2 h) ha).le b
    have : Real.exp (-(((x - g) / a) ^ b)) ≤ 1 := Real.exp_le_one_iff.2 (by linarith)
    linarith

theorem weibull_cdf_lt_one (x : ℝ) : weibullCdf realTr a b g x < 1 := by
  rcases le_or_gt x g with h | h
  · rw [weibull_cdf_eq_of_le h]; exact one_pos
  · rw [weibull_cdf_eq_of_gt h]
    have := Real.exp_pos (-(((x - g) / a) ^ b))
    linarith

theorem weibull_cdf_monotone (ha : 0 < a) (hb : 0 < b) : Monotone (weibullCdf realTr a b g) := by
  intro x y hxy
  rcases le_or_gt x g with h | h
  · rw [weibull_cdf_eq_of_le h]; exact weibull_cdf_nonneg ha y
  · have hy : g < y := lt_of_lt_of_le h hxy
    rw [weibull_cdf_eq_of_gt h, weibull_cdf_eq_of_gt hy]
    have hzx : 0 ≤ (x - g) / a := (div_pos (sub_pos.2 h) ha).le
    have hle : (x - g) / a ≤ (y - g) / a := by
      apply div_le_div_of_nonneg_right _ ha.le
      linarith
    have := Real.rpow_le_rpow hzx hle hb.le
    have := Real.exp_le_exp.2 (neg_le_neg this)
    linarith

theorem weibull_cdf_strictMonoOn (ha : 0 < a) (hb : 0 < b) :
    StrictMonoOn (weibullCdf realTr a b g) (Set.Ioi g) := by
  intro x hx y hy hxy
  rw [weibull_cdf_eq_of_gt hx, weibull_cdf_eq_of_gt hy]
  have hzx : 0 ≤ (x - g) / a := (div_pos (sub_pos.2 hx) ha).le
  have hlt : (x - g) / a < (y - g) / a := by
    apply div_lt_div_of_pos_right _ ha
    linarith
  have := Real.rpow_lt_rpow hzx hlt hb
  have := Real.exp_lt_exp.2 (neg_lt_neg this)
  linarith

theorem weibull_cdf_tendsto_one (ha : 0 < a) (hb : 0 < b) :
    Tendsto (weibullCdf realTr a b g) atTop (𝓝 1) := by
  have haff : Tendsto (fun x : ℝ => (x - g) / a) atTop atTop :=
    (tendsto_atTop_add_const_right _ (-g) tendsto_id).atTop_div_const ha
  have h1 : Tendsto (fun x : ℝ => 1 - Real.exp (-(((x - g) / a) ^ b))) atTop (𝓝 (1 - 0)) :=
    tendsto_const_nhds.sub
      (Real.tendsto_exp_neg_atTop_nhds_zero.comp ((tendsto_rpow_atTop hb).comp haff))
  rw [sub_zero] at h1
  refine h1.congr' ?_
  filter_upwards [eventually_gt_atTop g] with x hx
  exact (weibull_cdf_eq_of_gt hx).symm

theorem weibull_cdf_tendsto_zero : Tendsto (weibullCdf realTr a b g) atBot (𝓝 0) := by
  refine tendsto_const_nhds.congr' ?_
  filter_upwards [eventually_le_atBot g] with x hx
  exact (weibull_cdf_eq_of_le hx).symm

/-- TOTALISATION NOTE: at `x = g` with `b < 1` the real density diverges, while the formula gives
`0 ^ (b-1) = 0` with Mathlib's `Real.zero_rpow` (scipy returns `inf` there); the statement at that one
point is about Lean's value. Everywhere else (`x ≠ g`, or `b ≥ 1`) no convention is involved; on the
open support the density is strictly positive (`weibull_pdf_pos`). -/
theorem weibull_pdf_nonneg (ha : 0 < a) (hb : 0 < b) (x : ℝ) : 0 ≤ weibullPdf realTr a b g x := by
  simp only [weibullPdf, realTr]
  split_ifs with h
  · exact le_rfl
  · have hz : 0 ≤ (x - g) / a := div_nonneg (sub_nonneg.2 (not_lt.1 h)) ha.le
    have := Real.rpow_nonneg hz (b - 1)
    have := (Real.exp_pos (-(((x - g) / a) ^ b))).le
    positivity

theorem weibull_pdf_pos (ha : 0 < a) (hb : 0 < b) {x : ℝ} (hx : g < x) :
    0 < weibullPdf realTr a b g x := by
  simp only [weibullPdf, realTr, if_neg (not_lt.2 hx.le)]
  have hz : 0 < (x - g) / a := div_pos (sub_pos.2 hx) ha
  have := Real.rpow_pos_of_pos hz (b - 1)
  have := Real.exp_pos (-(((x - g) / a) ^ b))
  positivity

theorem weibull_pdf_zero_off_support {x : ℝ} (hx : x < g) : weibullPdf realTr a b g x = 0 := by
  simp [weibullPdf, hx]

theorem weibull_hasDerivAt_cdf (ha : 0 < a) {x : ℝ} (hx : g < x) :
    HasDerivAt (weibullCdf realTr a b g) (weibullPdf realTr a b g x) x := by
  have hz : 0 < (x - g) / a := div_pos (sub_pos.2 hx) ha
  have h1 : HasDerivAt (fun y : ℝ => (y - g) / a) (1 / a) x :=
    ((hasDerivAt_id x).sub_const g).div_const a
  have h2 : HasDerivAt (fun y : ℝ => ((y - g) / a) ^ b) (1 / a * b * ((x - g) / a) ^ (b - 1)) x :=
    h1.rpow_const (Or.inl hz.ne')
  have h3 := (h2.neg.exp).const_sub 1
  have heq : weibullPdf realTr a b g x =
      -(Real.exp (-(((x - g) / a) ^ b)) * -(1 / a * b * ((x - g) / a) ^ (b - 1))) := by
    simp only [weibullPdf, realTr, if_neg (not_lt.2 hx.le)]
    ring
  rw [heq]
  refine h3.congr_of_eventuallyEq ?_
  filter_upwards [eventually_gt_nhds hx] with y hy
  exact weibull_cdf_eq_of_gt hy

end weibull

section ew
variable {a b d : ℝ}

theorem ew_cdf_eq_of_pos {x : ℝ} (hx : 0 < x) :
    ewCdf realTr a b d x = (1 - Real.exp (-((x / a) ^ b))) ^ d := by
  simp [ewCdf, realTr, not_le.2 hx]

theorem ew_cdf_eq_of_nonpos {x : ℝ} (hx : x ≤ 0) : ewCdf realTr a b d x = 0 := by
  simp [ewCdf, hx]

/-- the inner Weibull probability lies in (0, 1) on the support -/
theorem ew_inner_mem (ha : 0 < a) {x : ℝ} (hx : 0 < x) :
    0 < 1 - Real.exp (-((x / a) ^ b)) ∧ 1 - Real.exp (-((x / a) ^ b)) < 1 := by
  have hz : 0 < (x / a) ^ b := Real.rpow_pos_of_pos (div_pos hx ha) b
  have h1 : Real.exp (-((x / a) ^ b)) < 1 := by
    have := Real.exp_lt_exp.2 (show -((x / a) ^ b) < 0 by linarith)
    rwa [Real.exp_zero] at this
  have h2 := Real.exp_pos (-((x / a) ^ b))
  constructor <;> linarith

theorem ew_icdf_cdf (ha : 0 < a) (hb : 0 < b) (hd : 0 < d) {x : ℝ} (hx : 0 < x) :
    ewIcdf realTr a b d (ewCdf realTr a b d x) = x := by
  have hz : 0 < x / a := div_pos hx ha
  obtain ⟨hu0, _⟩ := ew_inner_mem (b := b) ha hx
  rw [ew_cdf_eq_of_pos hx]
  simp only [ewIcdf, realTr]
  rw [← Real.rpow_mul hu0.le, mul_one_div_cancel hd.ne', Real.rpow_one,
    show (1 : ℝ) - (1 - Real.exp (-((x / a) ^ b))) = Real.exp (-((x / a) ^ b)) by ring,
    Real.log_exp, neg_neg, ← Real.rpow_mul hz.le, mul_one_div_cancel hb.ne', Real.rpow_one]
  field_simp

theorem ew_cdf_icdf (ha : 0 < a) (hb : 0 < b) (hd : 0 < d) {p : ℝ} (hp0 : 0 ≤ p) (hp1 : p < 1) :
    ewCdf realTr a b d (ewIcdf realTr a b d p) = p := by
  rcases hp0.eq_or_lt with h0 | h0
  · subst h0
    have : ewIcdf realTr a b d 0 = 0 := by
      simp [ewIcdf, realTr, Real.zero_rpow (inv_ne_zero hd.ne'), Real.zero_rpow (inv_ne_zero hb.ne')]
    rw [this, ew_cdf_eq_of_nonpos le_rfl]
  · have hq0 : 0 < p ^ (1 / d) := Real.rpow_pos_of_pos h0 _
    have hq1 : p ^ (1 / d) < 1 := Real.rpow_lt_one h0.le hp1 (one_div_pos.2 hd)
    have h1q : 0 < 1 - p ^ (1 / d) := by linarith
    have hL : 0 < -Real.log (1 - p ^ (1 / d)) := by
      have := Real.log_neg h1q (by linarith)
      linarith
    have hx : 0 < ewIcdf realTr a b d p := by
      simp only [ewIcdf, realTr]
      exact mul_pos ha (Real.rpow_pos_of_pos hL (1 / b))
    rw [ew_cdf_eq_of_pos hx]
    simp only [ewIcdf, realTr]
    rw [mul_div_cancel_left₀ _ ha.ne', ← Real.rpow_mul hL.le, one_div_mul_cancel hb.ne',
      Real.rpow_one, neg_neg, Real.exp_log h1q, sub_sub_cancel, ← Real.rpow_mul h0.le,
      one_div_mul_cancel hd.ne', Real.rpow_one]

theorem ew_cdf_nonneg (ha : 0 < a) (x : ℝ) : 0 ≤ ewCdf realTr a b d x := by
  rcases le_or_gt x 0 with h | h
  · rw [ew_cdf_eq_of_nonpos h]
  · rw [ew_cdf_eq_of_pos h]
    exact Real.rpow_nonneg (ew_inner_mem ha h).1.le d

theorem ew_cdf_le_one (ha : 0 < a) (hd : 0 < d) (x : ℝ) : ewCdf realTr a b d x ≤ 1 := by
  rcases le_or_gt x 0 with h | h
  · rw [ew_cdf_eq_of_nonpos h]; exact zero_le_one
  · rw [ew_cdf_eq_of_pos h]
    obtain ⟨h0, h1⟩ := ew_inner_mem (b := b) ha h
    exact Real.rpow_le_one h0.le h1.le hd.le

theorem ew_cdf_monotone (ha : 0 < a) (hb : 0 < b) (hd : 0 < d) :
    Monotone (ewCdf realTr a b d) := by
  intro x y hxy
  rcases le_or_gt x 0 with h | h
  · rw [ew_cdf_eq_of_nonpos h]; exact ew_cdf_nonneg ha y
  · have hy : 0 < y := lt_of_lt_of_le h hxy
    rw [ew_cdf_eq_of_pos h, ew_cdf_eq_of_pos hy]
    have hle : x / a ≤ y / a := div_le_div_of_nonneg_right hxy ha.le
    have h1 := Real.rpow_le_rpow (div_pos h ha).le hle hb.le
    have h2 := Real.exp_le_exp.2 (neg_le_neg h1)
    exact Real.rpow_le_rpow (ew_inner_mem ha h).1.le (by linarith) hd.le

theorem ew_cdf_strictMonoOn (ha : 0 < a) (hb : 0 < b) (hd : 0 < d) :
    StrictMonoOn (ewCdf realTr a b d) (Set.Ioi 0) := by
  intro x hx y hy hxy
  rw [ew_cdf_eq_of_pos hx, ew_cdf_eq_of_pos hy]
  have hlt : x / a < y / a := div_lt_div_of_pos_right hxy ha
  have h1 := Real.rpow_lt_rpow (div_pos hx ha).le hlt hb
  have h2 := Real.exp_lt_exp.2 (neg_lt_neg h1)
  exact Real.rpow_lt_rpow (ew_inner_mem ha hx).1.le (by linarith) hd

theorem ew_cdf_tendsto_one (ha : 0 < a) (hb : 0 < b) (hd : 0 < d) :
    Tendsto (ewCdf realTr a b d) atTop (𝓝 1) := by
  have haff : Tendsto (fun x : ℝ => x / a) atTop atTop := tendsto_id.atTop_div_const ha
  have h1 : Tendsto (fun x : ℝ => 1 - Real.exp (-((x / a) ^ b))) atTop (𝓝 (1 - 0)) :=
    tendsto_const_nhds.sub
      (Real.tendsto_exp_neg_atTop_nhds_zero.comp ((tendsto_rpow_atTop hb).comp haff))
  rw [sub_zero] at h1
  have h2 := h1.rpow_const (p := d) (Or.inr hd.le)
  rw [Real.one_rpow] at h2
  refine h2.congr' ?_
  filter_upwards [eventually_gt_atTop 0] with x hx
  exact (ew_cdf_eq_of_pos hx).symm

theorem ew_cdf_tendsto_zero : Tendsto (ewCdf realTr a b d) atBot (𝓝 0) := by
  refine tendsto_const_nhds.congr' ?_
  filter_upwards [eventually_le_atBot 0] with x hx
  exact (ew_cdf_eq_of_nonpos hx).symm

theorem ew_pdf_nonneg (ha : 0 < a) (hb : 0 < b) (hd : 0 < d) (x : ℝ) : 0 ≤ ewPdf realTr a b d x := by
  simp only [ewPdf, realTr]
  split_ifs with h
  · exact le_rfl
  · have hx : 0 < x := not_le.1 h
    have h1 := Real.rpow_nonneg (div_pos hx ha).le (b - 1)
    have h2 := (Real.exp_pos (-((x / a) ^ b))).le
    have h3 := Real.rpow_nonneg (ew_inner_mem (b := b) ha hx).1.le (d - 1)
    positivity

theorem ew_pdf_zero_off_support {x : ℝ} (hx : x ≤ 0) : ewPdf realTr a b d x = 0 := by
  simp [ewPdf, hx]

theorem ew_hasDerivAt_cdf (ha : 0 < a) {x : ℝ} (hx : 0 < x) :
    HasDerivAt (ewCdf realTr a b d) (ewPdf realTr a b d x) x := by
  have hz : 0 < x / a := div_pos hx ha
  have hu := (ew_inner_mem (b := b) ha hx).1
  have h1 : HasDerivAt (fun y : ℝ => y / a) (1 / a) x := (hasDerivAt_id x).div_const a
  have h2 : HasDerivAt (fun y : ℝ => (y / a) ^ b) (1 / a * b * (x / a) ^ (b - 1)) x :=
    h1.rpow_const (Or.inl hz.ne')
  have h3 := (h2.neg.exp).const_sub 1
  have h4 := h3.rpow_const (p := d) (Or.inl hu.ne')
  have heq : ewPdf realTr a b d x =
      -(Real.exp (-((x / a) ^ b)) * -(1 / a * b * (x / a) ^ (b - 1))) * d *
        (1 - Real.exp (-((x / a) ^ b))) ^ (d - 1) := by
    simp only [ewPdf, realTr, if_neg (not_le.2 hx)]
    ring
  rw [heq]
  refine h4.congr_of_eventuallyEq ?_
  filter_upwards [eventually_gt_nhds hx] with y hy
  exact ew_cdf_eq_of_pos hy

end ew

section gumbel
/-! Gumbel (`ScipyDistribution` subclass of `scipy.stats.gumbel_r`, parameters `loc`, `scale` only): the law
needs no special function beyond exp/log, so every clause is proven outright (no `_partial`). -/
variable {l s : ℝ}

theorem gumbel_icdf_cdf (hs : s ≠ 0) (x : ℝ) :
    gumbelIcdf realTr l s (gumbelCdf realTr l s x) = x := by
  simp only [gumbelIcdf, gumbelCdf, realTr]
  rw [Real.log_exp, neg_neg, Real.log_exp]
  field_simp
  ring

theorem gumbel_cdf_icdf (hs : s ≠ 0) {p : ℝ} (hp0 : 0 < p) (hp1 : p < 1) :
    gumbelCdf realTr l s (gumbelIcdf realTr l s p) = p := by
  have hL : 0 < -Real.log p := by
    have := Real.log_neg hp0 hp1
    linarith
  simp only [gumbelIcdf, gumbelCdf, realTr]
  rw [show -((l - s * Real.log (-Real.log p) - l) / s) = Real.log (-Real.log p) by field_simp; ring,
    Real.exp_log hL, neg_neg, Real.exp_log hp0]

theorem gumbel_cdf_pos (x : ℝ) : 0 < gumbelCdf realTr l s x := Real.exp_pos _

/-- (`hs` is not used by the proof: at `s = 0` the statement would hold only through `x/0 = 0`,
where the formula is `exp(-1)` and not a Gumbel law; the hypothesis keeps the theorem about
admissible scales) -/
theorem gumbel_cdf_lt_one (_hs : s ≠ 0) (x : ℝ) : gumbelCdf realTr l s x < 1 := by
  simp only [gumbelCdf, realTr]
  rw [Real.exp_lt_one_iff]
  have := Real.exp_pos (-((x - l) / s))
  linarith

theorem gumbel_cdf_strictMono (hs : 0 < s) : StrictMono (gumbelCdf realTr l s) := by
  intro x y hxy
  simp only [gumbelCdf, realTr]
  apply Real.exp_lt_exp.2
  apply neg_lt_neg
  apply Real.exp_lt_exp.2
  apply neg_lt_neg
  exact div_lt_div_of_pos_right (by linarith) hs

theorem gumbel_cdf_monotone (hs : 0 < s) : Monotone (gumbelCdf realTr l s) :=
  (gumbel_cdf_strictMono hs).monotone

theorem gumbel_cdf_tendsto_one (hs : 0 < s) : Tendsto (gumbelCdf realTr l s) atTop (𝓝 1) := by
  have haff : Tendsto (fun x : ℝ => (x - l) / s) atTop atTop :=
    (tendsto_atTop_add_const_right _ (-l) tendsto_id).atTop_div_const hs
  have h1 : Tendsto (fun x : ℝ => Real.exp (-((x - l) / s))) atTop (𝓝 0) :=
    Real.tendsto_exp_neg_atTop_nhds_zero.comp haff
  have h2 : Tendsto (fun x : ℝ => Real.exp (-Real.exp (-((x - l) / s)))) atTop (𝓝 (Real.exp (-0))) :=
    (Real.continuous_exp.tendsto (-0)).comp h1.neg
  rw [neg_zero, Real.exp_zero] at h2
  exact h2

theorem gumbel_cdf_tendsto_zero (hs : 0 < s) : Tendsto (gumbelCdf realTr l s) atBot (𝓝 0) := by
  have haff : Tendsto (fun x : ℝ => (x - l) / s) atBot atBot :=
    (tendsto_atBot_add_const_right _ (-l) tendsto_id).atBot_div_const hs
  have h1 : Tendsto (fun x : ℝ => Real.exp (-((x - l) / s))) atBot atTop :=
    Real.tendsto_exp_atTop.comp (tendsto_neg_atBot_atTop.comp haff)
  exact Real.tendsto_exp_atBot.comp (tendsto_neg_atTop_atBot.comp h1)

theorem gumbel_pdf_pos (hs : 0 < s) (x : ℝ) : 0 < gumbelPdf realTr l s x := by
  simp only [gumbelPdf, realTr]
  have := Real.exp_pos (-((x - l) / s + Real.exp (-((x - l) / s))))
  positivity

/-- (`hs` is not used by the proof: at `s = 0` both sides are the constant `exp(-1)` resp. `0` by
`x/0 = 0`, true but not about a Gumbel law) -/
theorem gumbel_hasDerivAt_cdf (_hs : s ≠ 0) (x : ℝ) :
    HasDerivAt (gumbelCdf realTr l s) (gumbelPdf realTr l s x) x := by
  have h1 : HasDerivAt (fun y : ℝ => (y - l) / s) (1 / s) x :=
    ((hasDerivAt_id x).sub_const l).div_const s
  have h4 := (h1.neg.exp).neg.exp
  have heq : gumbelPdf realTr l s x =
      Real.exp (-Real.exp (-((x - l) / s))) * -(Real.exp (-((x - l) / s)) * -(1 / s)) := by
    simp only [gumbelPdf, realTr]
    rw [neg_add, Real.exp_add]
    ring
  rw [heq]
  exact h4

end gumbel

section lnnf

/-- `exp(log K / 2) = sqrt K` -/
theorem exp_half_log {K : ℝ} (hK : 0 < K) : Real.exp (Real.log K / 2) = Real.sqrt K := by
  rw [Real.sqrt_eq_rpow, Real.rpow_def_of_pos hK]
  ring_nf

/-- **moments of the norm-fit log-normal**: with `μ = log(m/√(1+s²/m²))`, `σ = √(log(1+s²/m²))`,
the mean `exp(μ+σ²/2)` is `m` and the standard deviation `√((exp σ² − 1) exp(2μ+σ²))` is `s`. -/
theorem lognormfit_moments {m s : ℝ} (hm : 0 < m) (hs : 0 ≤ s) :
    Real.exp (lnnfMu realTr m s + lnnfSigma realTr m s ^ 2 / 2) = m ∧
    Real.sqrt ((Real.exp (lnnfSigma realTr m s ^ 2) - 1) *
      Real.exp (2 * lnnfMu realTr m s + lnnfSigma realTr m s ^ 2)) = s := by
  simp only [lnnfMu, lnnfSigma, realTr]
  set K := 1 + s * s / (m * m) with hKdef
  have hK1 : 1 ≤ K := by
    have : 0 ≤ s * s / (m * m) := by positivity
    linarith
  have hK : 0 < K := by linarith
  have hlog : 0 ≤ Real.log K := Real.log_nonneg hK1
  have hsK : 0 < Real.sqrt K := Real.sqrt_pos.2 hK
  rw [Real.sq_sqrt hlog]
  have hmean : Real.exp (Real.log (m / Real.sqrt K) + Real.log K / 2) = m := by
    rw [Real.exp_add, Real.exp_log (div_pos hm hsK), exp_half_log hK]
    field_simp
  refine ⟨hmean, ?_⟩
  have h2 : Real.exp (2 * Real.log (m / Real.sqrt K) + Real.log K) = m ^ 2 := by
    rw [show 2 * Real.log (m / Real.sqrt K) + Real.log K =
        (Real.log (m / Real.sqrt K) + Real.log K / 2) + (Real.log (m / Real.sqrt K) + Real.log K / 2) by ring,
      Real.exp_add, hmean]
    ring
  rw [h2, Real.exp_log hK]
  have : (K - 1) * m ^ 2 = s ^ 2 := by
    rw [hKdef]
    field_simp
    ring
  rw [this, Real.sqrt_sq hs]

end lnnf

/-! ### families whose special function is scipy's: laws relative to an abstract leaf -/
section partial_laws
variable {mu sigma : ℝ}

/-- FULL STATEMENT (not provable here): for the real Φ of scipy, `icdf (cdf x) = x`.
Proven part: for any `Phi`, `PhiInv` with `PhiInv ∘ Phi = id` (scipy's contract for `ndtri ∘ ndtr`). -/
theorem lognormal_icdf_cdf_partial (Phi PhiInv : ℝ → ℝ) (hinv : ∀ z, PhiInv (Phi z) = z)
    (hs : sigma ≠ 0) {x : ℝ} (hx : 0 < x) :
    lognormalIcdf realTr PhiInv mu sigma (lognormalCdf realTr Phi mu sigma x) = x := by
  simp only [lognormalIcdf, lognormalCdf, realTr, if_neg (not_le.2 hx), hinv]
  rw [mul_div_cancel₀ _ hs, add_sub_cancel, Real.exp_log hx]

theorem lognormal_cdf_icdf_partial (Phi PhiInv : ℝ → ℝ) {p : ℝ} (hinv : Phi (PhiInv p) = p)
    (hs : sigma ≠ 0) :
    lognormalCdf realTr Phi mu sigma (lognormalIcdf realTr PhiInv mu sigma p) = p := by
  have hpos : 0 < Real.exp (mu + sigma * PhiInv p) := Real.exp_pos _
  simp only [lognormalIcdf, lognormalCdf, realTr, if_neg (not_le.2 hpos), Real.log_exp]
  rw [add_sub_cancel_left, mul_div_cancel_left₀ _ hs, hinv]

theorem lognormal_cdf_monotone_partial (Phi : ℝ → ℝ) (hmono : Monotone Phi) (h0 : ∀ z, 0 ≤ Phi z)
    (hs : 0 < sigma) : Monotone (lognormalCdf realTr Phi mu sigma) := by
  intro x y hxy
  simp only [lognormalCdf, realTr]
  split_ifs with hx hy hy
  · exact le_rfl
  · exact h0 _
  · exact absurd (le_trans hxy hy) hx
  · apply hmono
    apply div_le_div_of_nonneg_right _ hs.le
    have := Real.log_le_log (not_le.1 hx) hxy
    linarith

theorem lognormal_pdf_nonneg (hs : 0 < sigma) (x : ℝ) : 0 ≤ lognormalPdf realTr mu sigma x := by
  simp only [lognormalPdf, realTr]
  split_ifs with h
  · exact le_rfl
  · have hx : 0 < x := not_le.1 h
    have := Real.sqrt_nonneg (2 * Real.pi)
    have := (Real.exp_pos (-((Real.log x - mu) * (Real.log x - mu)) / (2 * (sigma * sigma)))).le
    positivity

theorem lognormal_pdf_zero_off_support {x : ℝ} (hx : x ≤ 0) : lognormalPdf realTr mu sigma x = 0 := by
  simp [lognormalPdf, hx]

theorem normal_icdf_cdf_partial (Phi PhiInv : ℝ → ℝ) (hinv : ∀ z, PhiInv (Phi z) = z)
    (hs : sigma ≠ 0) (x : ℝ) : normalIcdf PhiInv mu sigma (normalCdf Phi mu sigma x) = x := by
  simp only [normalIcdf, normalCdf, hinv]
  rw [mul_div_cancel₀ _ hs]; ring

theorem normal_cdf_icdf_partial (Phi PhiInv : ℝ → ℝ) {p : ℝ} (hinv : Phi (PhiInv p) = p)
    (hs : sigma ≠ 0) : normalCdf Phi mu sigma (normalIcdf PhiInv mu sigma p) = p := by
  simp only [normalIcdf, normalCdf]
  rw [add_sub_cancel_left, mul_div_cancel_left₀ _ hs, hinv]

theorem normal_cdf_monotone_partial (Phi : ℝ → ℝ) (hmono : Monotone Phi) (hs : 0 < sigma) :
    Monotone (normalCdf Phi mu sigma) := by
  intro x y hxy
  apply hmono
  apply div_le_div_of_nonneg_right _ hs.le
  linarith

theorem normal_pdf_nonneg (hs : 0 < sigma) (x : ℝ) : 0 ≤ normalPdf realTr mu sigma x := by
  simp only [normalPdf, realTr]
  have := Real.sqrt_nonneg (2 * Real.pi)
  have := (Real.exp_pos (-((x - mu) * (x - mu)) / (2 * (sigma * sigma)))).le
  positivity

variable {m c lam : ℝ}

/-- generalised gamma relative to an abstract regularised incomplete gamma `P m ·` with inverse -/
theorem gg_icdf_cdf_partial (P PInv : ℝ → ℝ → ℝ) (hinv : ∀ t, 0 < t → PInv m (P m t) = t)
    (hc : 0 < c) (hl : 0 < lam) {x : ℝ} (hx : 0 < x) :
    ggIcdf realTr PInv m c lam (ggCdf realTr P m c lam x) = x := by
  have hz : 0 < lam * x := mul_pos hl hx
  simp only [ggIcdf, ggCdf, realTr, if_neg (not_le.2 hx)]
  rw [hinv _ (Real.rpow_pos_of_pos hz c), ← Real.rpow_mul hz.le, mul_one_div_cancel hc.ne',
    Real.rpow_one]
  field_simp

theorem gg_cdf_icdf_partial (P PInv : ℝ → ℝ → ℝ) {p : ℝ} (hinv : P m (PInv m p) = p)
    (hpos : 0 < PInv m p) (hc : 0 < c) (hl : 0 < lam) :
    ggCdf realTr P m c lam (ggIcdf realTr PInv m c lam p) = p := by
  have hx : 0 < ggIcdf realTr PInv m c lam p := by
    simp only [ggIcdf, realTr]
    exact div_pos (Real.rpow_pos_of_pos hpos _) hl
  unfold ggCdf
  rw [if_neg (not_le.2 hx)]
  simp only [ggIcdf, realTr]
  rw [mul_div_cancel₀ _ hl.ne', ← Real.rpow_mul hpos.le, one_div_mul_cancel hc.ne', Real.rpow_one, hinv]

theorem gg_cdf_monotone_partial (P : ℝ → ℝ → ℝ) (hmono : Monotone (P m)) (h0 : ∀ t, 0 ≤ P m t)
    (hc : 0 < c) (hl : 0 < lam) : Monotone (ggCdf realTr P m c lam) := by
  intro x y hxy
  simp only [ggCdf, realTr]
  split_ifs with hx hy hy
  · exact le_rfl
  · exact h0 _
  · exact absurd (le_trans hxy hy) hx
  · apply hmono
    exact Real.rpow_le_rpow (mul_pos hl (not_le.1 hx)).le (mul_le_mul_of_nonneg_left hxy hl.le) hc.le

theorem gg_pdf_nonneg (gammaM : ℝ) (hG : 0 < gammaM) (hc : 0 < c) (hl : 0 < lam) (x : ℝ) :
    0 ≤ ggPdf realTr gammaM m c lam x := by
  simp only [ggPdf, realTr]
  split_ifs with h
  · exact le_rfl
  · have hx : 0 ≤ x := not_lt.1 h
    have h1 := Real.rpow_nonneg hl.le (c * m)
    have h2 := Real.rpow_nonneg hx (c * m - 1)
    have h3 := (Real.exp_pos (-((lam * x) ^ c))).le
    positivity

theorem gg_pdf_zero_off_support (gammaM : ℝ) {x : ℝ} (hx : x < 0) :
    ggPdf realTr gammaM m c lam x = 0 := by
  simp [ggPdf, hx]

theorem vonmises_icdf_cdf_partial (V VInv : ℝ → ℝ) (hinv : ∀ z, VInv (V z) = z) (x : ℝ) :
    vonMisesIcdf VInv mu (vonMisesCdf V mu x) = x := by
  simp only [vonMisesIcdf, vonMisesCdf, hinv]; ring

theorem vonmises_cdf_icdf_partial (V VInv : ℝ → ℝ) {p : ℝ} (hinv : V (VInv p) = p) :
    vonMisesCdf V mu (vonMisesIcdf VInv mu p) = p := by
  simp only [vonMisesIcdf, vonMisesCdf]
  rw [add_sub_cancel_left, hinv]

theorem vonmises_cdf_monotone_partial (V : ℝ → ℝ) (hmono : Monotone V) :
    Monotone (vonMisesCdf V mu) := by
  intro x y hxy
  apply hmono
  linarith

theorem vonmises_pdf_nonneg (i0k kappa : ℝ) (hI : 0 < i0k) (x : ℝ) :
    0 ≤ vonMisesPdf realTr i0k kappa mu x := by
  simp only [vonMisesPdf, realTr]
  have := (Real.exp_pos (kappa * Real.cos (x - mu))).le
  have := Real.pi_pos
  positivity

end partial_laws

/-! ### "cdf from 0 to 1" for the families whose special function is scipy's

FULL STATEMENT (not provable here): for scipy's actual `ndtr`, `gammainc`, von Mises cdf the cdf has
range [0, 1] and the limits 0 / 1 at the ends of the support.  Proven part: the same RELATIVE TO an
abstract leaf `Phi` / `P m ·` / `V` with range [0, 1] and the stated limits (scipy's contract; the
non-vacuity example below exhibits such a leaf); what virocon adds (location / scale / log / power
maps, the `x ≤ 0` branch) preserves range and limits, including the limit 0 from the right at the
lower end of the support. -/
section range_limits
variable {mu sigma : ℝ}

theorem normal_cdf_range_partial (Phi : ℝ → ℝ) (h0 : ∀ z, 0 ≤ Phi z) (h1 : ∀ z, Phi z ≤ 1) (x : ℝ) :
    0 ≤ normalCdf Phi mu sigma x ∧ normalCdf Phi mu sigma x ≤ 1 := ⟨h0 _, h1 _⟩

theorem normal_cdf_tendsto_partial (Phi : ℝ → ℝ) (hbot : Tendsto Phi atBot (𝓝 0))
    (htop : Tendsto Phi atTop (𝓝 1)) (hs : 0 < sigma) :
    Tendsto (normalCdf Phi mu sigma) atBot (𝓝 0) ∧ Tendsto (normalCdf Phi mu sigma) atTop (𝓝 1) := by
  have hb : Tendsto (fun x : ℝ => (x - mu) / sigma) atBot atBot :=
    (tendsto_atBot_add_const_right _ (-mu) tendsto_id).atBot_div_const hs
  have ht : Tendsto (fun x : ℝ => (x - mu) / sigma) atTop atTop :=
    (tendsto_atTop_add_const_right _ (-mu) tendsto_id).atTop_div_const hs
  exact ⟨hbot.comp hb, htop.comp ht⟩

theorem lognormal_cdf_range_partial (Phi : ℝ → ℝ) (h0 : ∀ z, 0 ≤ Phi z) (h1 : ∀ z, Phi z ≤ 1) (x : ℝ) :
    0 ≤ lognormalCdf realTr Phi mu sigma x ∧ lognormalCdf realTr Phi mu sigma x ≤ 1 := by
  simp only [lognormalCdf]
  split_ifs
  · exact ⟨le_rfl, zero_le_one⟩
  · exact ⟨h0 _, h1 _⟩

theorem lognormal_cdf_tendsto_partial (Phi : ℝ → ℝ) (hbot : Tendsto Phi atBot (𝓝 0))
    (htop : Tendsto Phi atTop (𝓝 1)) (hs : 0 < sigma) :
    Tendsto (lognormalCdf realTr Phi mu sigma) atBot (𝓝 0) ∧
    Tendsto (lognormalCdf realTr Phi mu sigma) (𝓝[>] 0) (𝓝 0) ∧
    Tendsto (lognormalCdf realTr Phi mu sigma) atTop (𝓝 1) := by
  refine ⟨?_, ?_, ?_⟩
  · refine tendsto_const_nhds.congr' ?_
    filter_upwards [eventually_le_atBot 0] with x hx
    simp [lognormalCdf, hx]
  · have hl : Tendsto (fun x : ℝ => (Real.log x - mu) / sigma) (𝓝[>] 0) atBot :=
      (tendsto_atBot_add_const_right _ (-mu) Real.tendsto_log_nhdsGT_zero).atBot_div_const hs
    refine (hbot.comp hl).congr' ?_
    filter_upwards [self_mem_nhdsWithin] with x hx
    have hx' : 0 < x := hx
    simp [lognormalCdf, realTr, not_le.2 hx']
  · have hl : Tendsto (fun x : ℝ => (Real.log x - mu) / sigma) atTop atTop :=
      (tendsto_atTop_add_const_right _ (-mu) Real.tendsto_log_atTop).atTop_div_const hs
    refine (htop.comp hl).congr' ?_
    filter_upwards [eventually_gt_atTop 0] with x hx
    simp [lognormalCdf, realTr, not_le.2 hx]

variable {m c lam : ℝ}

theorem gg_cdf_range_partial (P : ℝ → ℝ → ℝ) (h0 : ∀ t, 0 ≤ P m t) (h1 : ∀ t, P m t ≤ 1) (x : ℝ) :
    0 ≤ ggCdf realTr P m c lam x ∧ ggCdf realTr P m c lam x ≤ 1 := by
  simp only [ggCdf]
  split_ifs
  · exact ⟨le_rfl, zero_le_one⟩
  · exact ⟨h0 _, h1 _⟩

theorem gg_cdf_tendsto_partial (P : ℝ → ℝ → ℝ) (hzero : Tendsto (P m) (𝓝[>] 0) (𝓝 0))
    (htop : Tendsto (P m) atTop (𝓝 1)) (hc : 0 < c) (hl : 0 < lam) :
    Tendsto (ggCdf realTr P m c lam) atBot (𝓝 0) ∧
    Tendsto (ggCdf realTr P m c lam) (𝓝[>] 0) (𝓝 0) ∧
    Tendsto (ggCdf realTr P m c lam) atTop (𝓝 1) := by
  refine ⟨?_, ?_, ?_⟩
  · refine tendsto_const_nhds.congr' ?_
    filter_upwards [eventually_le_atBot 0] with x hx
    simp [ggCdf, hx]
  · have hcont : Tendsto (fun x : ℝ => (lam * x) ^ c) (𝓝[>] 0) (𝓝 0) := by
      have h1 : Tendsto (fun x : ℝ => lam * x) (𝓝 0) (𝓝 (lam * 0)) :=
        (continuous_const.mul continuous_id).tendsto 0
      have h2 := (h1.rpow_const (p := c) (Or.inr hc.le))
      rw [mul_zero, Real.zero_rpow hc.ne'] at h2
      exact h2.mono_left nhdsWithin_le_nhds
    have hpos : ∀ᶠ x in 𝓝[>] (0 : ℝ), (lam * x) ^ c ∈ Set.Ioi (0 : ℝ) := by
      filter_upwards [self_mem_nhdsWithin] with x hx
      exact Real.rpow_pos_of_pos (mul_pos hl hx) c
    have hw : Tendsto (fun x : ℝ => (lam * x) ^ c) (𝓝[>] 0) (𝓝[>] 0) :=
      tendsto_nhdsWithin_iff.2 ⟨hcont, hpos⟩
    refine (hzero.comp hw).congr' ?_
    filter_upwards [self_mem_nhdsWithin] with x hx
    have hx' : 0 < x := hx
    simp [ggCdf, realTr, not_le.2 hx']
  · have hl' : Tendsto (fun x : ℝ => (lam * x) ^ c) atTop atTop :=
      (tendsto_rpow_atTop hc).comp (tendsto_id.const_mul_atTop hl)
    refine (htop.comp hl').congr' ?_
    filter_upwards [eventually_gt_atTop 0] with x hx
    simp [ggCdf, realTr, not_le.2 hx]

/-- von Mises on one period `[μ-π, μ+π]` (the documented support): 0 at the lower end, 1 at the upper
end, in [0, 1] in between; relative to a monotone standard cdf `V` with `V(-π) = 0`, `V(π) = 1` -/
theorem vonmises_cdf_range_partial (V : ℝ → ℝ) (hmono : Monotone V) (hlo : V (-Real.pi) = 0)
    (hhi : V Real.pi = 1) :
    vonMisesCdf V mu (mu - Real.pi) = 0 ∧ vonMisesCdf V mu (mu + Real.pi) = 1 ∧
    ∀ x, mu - Real.pi ≤ x → x ≤ mu + Real.pi → 0 ≤ vonMisesCdf V mu x ∧ vonMisesCdf V mu x ≤ 1 := by
  refine ⟨?_, ?_, fun x h1 h2 => ⟨?_, ?_⟩⟩
  · simp only [vonMisesCdf]; rw [show mu - Real.pi - mu = -Real.pi by ring, hlo]
  · simp only [vonMisesCdf]; rw [add_sub_cancel_left, hhi]
  · simp only [vonMisesCdf]; rw [← hlo]; exact hmono (by linarith)
  · simp only [vonMisesCdf]; rw [← hhi]; exact hmono (by linarith)

end range_limits


/-! ### scipy's (shape, loc, scale) form under the generated slot map = documented formula -/
section scipy_form

/-- valuation of the constructor arguments by a parameter vector (all other leaves unused) -/
noncomputable def envOf (θ : List ℝ) : Env ℝ :=
  { arg := fun p => θ.getD p 0, farg := fun _ => 0, expl := fun _ => 0, dep := fun _ => 0,
    est := fun _ => 0, ofInt := fun n => (n : ℝ), ofBits := fun _ => 0 }

/-- what family number `i` hands to scipy for a plain call with parameters `θ`, read off the
generated table: (scipy distribution, numeric arguments after `x`) -/
noncomputable def slotValues (i : Nat) (θ : List ℝ) : Option (String × List ℝ) :=
  baseMaps[i]?.map fun bm => (bm.1, bm.2.map (PExpr.eval realTr (envOf θ)))

theorem family_names : families.map (·.name) =
    ["WeibullDistribution", "LogNormalDistribution", "NormalDistribution",
     "LogNormalNormFitDistribution", "ExponentiatedWeibullDistribution",
     "GeneralizedGammaDistribution", "VonMisesDistribution", "GammaScipyDistribution",
     "BetaScipyDistribution", "GumbelScipyDistribution"] := by decide +kernel

/-- the parameter names of every family, in the order of `.parameters` (= numbering of `arg p`); for a
`ScipyDistribution` subclass: scipy's shape names, then `loc`, `scale` (none for the Gumbel) -/
theorem family_params : families.map (·.params) =
    [["alpha", "beta", "gamma"], ["mu", "sigma"], ["mu", "sigma"], ["mu_norm", "sigma_norm"],
     ["alpha", "beta", "delta"], ["m", "c", "lambda_"], ["kappa", "mu"], ["a", "loc", "scale"],
     ["a", "b", "loc", "scale"], ["loc", "scale"]] := by decide +kernel

theorem slot_maps : baseMaps =
    [("weibull_min", [.arg 1, .arg 2, .arg 0]),
     ("lognorm", [.arg 1, .int 0, .exp (.arg 0)]),
     ("norm", [.arg 0, .arg 1]),
     ("lognorm", [.sqrt (.log (.add (.int 1) (.div (.pow (.arg 1) (.int 2)) (.pow (.arg 0) (.int 2))))),
        .int 0,
        .exp (.log (.div (.arg 0) (.sqrt (.add (.int 1) (.div (.pow (.arg 1) (.int 2)) (.pow (.arg 0) (.int 2)))))))]),
     ("exponweib", [.arg 2, .arg 1, .int 0, .arg 0]),
     ("gengamma", [.arg 0, .arg 1, .int 0, .div (.int 1) (.arg 2)]),
     ("vonmises", [.arg 0, .arg 1]),
     ("gamma", [.arg 0, .arg 1, .arg 2]),
     ("beta", [.arg 0, .arg 1, .arg 2, .arg 3]),
     ("gumbel_r", [.arg 0, .arg 1])] := by decide +kernel

theorem scipy_form_eq_documented_weibull (a b g : ℝ) (ha : 0 < a) :
    slotValues 0 [a, b, g] = some ("weibull_min", [b, g, a]) ∧
    ∀ x, locScaleCdf (stdWeibullCdf realTr b) g a x = weibullCdf realTr a b g x ∧
      locScalePdf (stdWeibullPdf realTr b) g a x = weibullPdf realTr a b g x ∧
      locScalePpf (stdWeibullPpf realTr b) g a x = weibullIcdf realTr a b g x := by
  refine ⟨by simp [slotValues, slot_maps, PExpr.eval, envOf], fun x => ⟨?_, ?_, ?_⟩⟩
  · have : (x - g) / a ≤ 0 ↔ x ≤ g := by rw [div_le_iff₀ ha]; constructor <;> intro h <;> linarith
    simp only [locScaleCdf, stdWeibullCdf, weibullCdf, this]
  · have : (x - g) / a < 0 ↔ x < g := by rw [div_lt_iff₀ ha]; constructor <;> intro h <;> linarith
    simp only [locScalePdf, stdWeibullPdf, weibullPdf, this]
    split_ifs
    · simp
    · ring
  · simp only [locScalePpf, stdWeibullPpf, weibullIcdf]; ring

/-- virocon's exponentiated-Weibull density: scipy's form, set to 0 for `x ≤ 0` by virocon -/
theorem scipy_form_eq_documented_ew (a b d : ℝ) (ha : 0 < a) :
    slotValues 4 [a, b, d] = some ("exponweib", [d, b, 0, a]) ∧
    ∀ x, locScaleCdf (stdExpWeibCdf realTr d b) 0 a x = ewCdf realTr a b d x ∧
      (if x ≤ 0 then 0 else locScalePdf (stdExpWeibPdf realTr d b) 0 a x) = ewPdf realTr a b d x ∧
      locScalePpf (stdExpWeibPpf realTr d b) 0 a x = ewIcdf realTr a b d x := by
  refine ⟨by simp [slotValues, slot_maps, PExpr.eval, envOf], fun x => ⟨?_, ?_, ?_⟩⟩
  · have : x / a ≤ 0 ↔ x ≤ 0 := by rw [div_le_iff₀ ha, zero_mul]
    simp only [locScaleCdf, stdExpWeibCdf, ewCdf, sub_zero, this]
  · simp only [locScalePdf, stdExpWeibPdf, ewPdf, sub_zero]
    split_ifs with h1 h2
    · rfl
    · exact absurd h2 (not_lt.2 (div_nonneg (not_le.1 h1).le ha.le))
    · simp only [realTr]; ring
  · simp only [locScalePpf, stdExpWeibPpf, ewIcdf]; ring

theorem scipy_form_eq_documented_lognormal (Phi PhiInv : ℝ → ℝ) (mu sigma : ℝ) (hs : sigma ≠ 0) :
    slotValues 1 [mu, sigma] = some ("lognorm", [sigma, 0, Real.exp mu]) ∧
    ∀ x, locScaleCdf (stdLognormCdf realTr Phi sigma) 0 (Real.exp mu) x = lognormalCdf realTr Phi mu sigma x ∧
      locScalePdf (stdLognormPdf realTr sigma) 0 (Real.exp mu) x = lognormalPdf realTr mu sigma x ∧
      locScalePpf (stdLognormPpf realTr PhiInv sigma) 0 (Real.exp mu) x =
        lognormalIcdf realTr PhiInv mu sigma x := by
  have he := Real.exp_pos mu
  refine ⟨by simp [slotValues, slot_maps, PExpr.eval, envOf, realTr], fun x => ⟨?_, ?_, ?_⟩⟩
  · have hiff : (x - 0) / Real.exp mu ≤ 0 ↔ x ≤ 0 := by rw [sub_zero, div_le_iff₀ he, zero_mul]
    simp only [locScaleCdf, stdLognormCdf, lognormalCdf, hiff]
    split_ifs with h
    · rfl
    · simp only [realTr, sub_zero]
      rw [Real.log_div (not_le.1 h).ne' he.ne', Real.log_exp]
  · have hiff : (x - 0) / Real.exp mu ≤ 0 ↔ x ≤ 0 := by rw [sub_zero, div_le_iff₀ he, zero_mul]
    simp only [locScalePdf, stdLognormPdf, lognormalPdf, hiff]
    split_ifs with h
    · simp
    · have hx : 0 < x := not_le.1 h
      simp only [realTr, sub_zero]
      rw [Real.log_div hx.ne' he.ne', Real.log_exp]
      have hsq : 0 < Real.sqrt (2 * Real.pi) := Real.sqrt_pos.2 (by positivity)
      field_simp
  · simp only [locScalePpf, stdLognormPpf, lognormalIcdf, realTr]
    rw [add_zero, ← Real.exp_add]; ring_nf

theorem scipy_form_eq_documented_normal (Phi PhiInv : ℝ → ℝ) (mu sigma : ℝ) (hs : sigma ≠ 0) :
    slotValues 2 [mu, sigma] = some ("norm", [mu, sigma]) ∧
    ∀ x, locScaleCdf Phi mu sigma x = normalCdf Phi mu sigma x ∧
      locScalePdf (stdNormPdf realTr) mu sigma x = normalPdf realTr mu sigma x ∧
      locScalePpf PhiInv mu sigma x = normalIcdf PhiInv mu sigma x := by
  refine ⟨by simp [slotValues, slot_maps, PExpr.eval, envOf], fun x => ⟨rfl, ?_, ?_⟩⟩
  · simp only [locScalePdf, stdNormPdf, normalPdf, realTr]
    have hsq : 0 < Real.sqrt (2 * Real.pi) := Real.sqrt_pos.2 (by positivity)
    have : -((x - mu) / sigma * ((x - mu) / sigma)) / 2 = -((x - mu) * (x - mu)) / (2 * (sigma * sigma)) := by
      field_simp
    rw [this]
    field_simp
  · simp only [locScalePpf, normalIcdf]; ring

/-- the norm-fit log-normal is the log-normal with `μ = lnnfMu m s`, `σ = lnnfSigma m s` -/
theorem scipy_form_eq_documented_lognormfit (m s : ℝ) :
    slotValues 3 [m, s] =
      some ("lognorm", [lnnfSigma realTr m s, 0, Real.exp (lnnfMu realTr m s)]) := by
  simp [slotValues, slot_maps, PExpr.eval, envOf, realTr, lnnfSigma, lnnfMu, sq]

theorem scipy_form_eq_documented_gg (P PInv : ℝ → ℝ → ℝ) (gammaM m c lam : ℝ) (hl : 0 < lam) :
    slotValues 5 [m, c, lam] = some ("gengamma", [m, c, 0, 1 / lam]) ∧
    ∀ x, locScaleCdf (stdGengammaCdf realTr P m c) 0 (1 / lam) x = ggCdf realTr P m c lam x ∧
      locScalePdf (stdGengammaPdf realTr gammaM m c) 0 (1 / lam) x = ggPdf realTr gammaM m c lam x ∧
      locScalePpf (stdGengammaPpf realTr PInv m c) 0 (1 / lam) x = ggIcdf realTr PInv m c lam x := by
  have hz : ∀ x : ℝ, (x - 0) / (1 / lam) = lam * x := fun x => by rw [sub_zero]; field_simp
  refine ⟨by simp [slotValues, slot_maps, PExpr.eval, envOf], fun x => ⟨?_, ?_, ?_⟩⟩
  · have hiff : lam * x ≤ 0 ↔ x ≤ 0 := by
      constructor
      · intro h; by_contra hx; exact absurd (mul_pos hl (not_le.1 hx)) (not_lt.2 h)
      · intro h; exact mul_nonpos_of_nonneg_of_nonpos hl.le h
    simp only [locScaleCdf, stdGengammaCdf, ggCdf, hz, hiff]
  · have hiff : lam * x < 0 ↔ x < 0 := by
      constructor
      · intro h; by_contra hx; exact absurd (mul_nonneg hl.le (not_lt.1 hx)) (not_le.2 h)
      · intro h; exact mul_neg_of_pos_of_neg hl h
    simp only [locScalePdf, stdGengammaPdf, ggPdf, hz, hiff]
    split_ifs with h
    · simp
    · have hx : 0 ≤ x := not_lt.1 h
      simp only [realTr]
      have e1 : (lam * x) ^ (c * m - 1) = lam ^ (c * m - 1) * x ^ (c * m - 1) :=
        Real.mul_rpow hl.le hx
      have e2 : lam ^ (c * m) = lam ^ (c * m - 1) * lam := by
        rw [Real.rpow_sub_one hl.ne']; field_simp
      rw [e1, e2]
      field_simp
  · simp only [locScalePpf, stdGengammaPpf, ggIcdf]; ring

theorem scipy_form_eq_documented_vonmises (V VInv : ℝ → ℝ) (i0k kappa mu : ℝ) :
    slotValues 6 [kappa, mu] = some ("vonmises", [kappa, mu]) ∧
    ∀ x, locScaleCdf V mu 1 x = vonMisesCdf V mu x ∧
      locScalePdf (stdVonMisesPdf realTr i0k kappa) mu 1 x = vonMisesPdf realTr i0k kappa mu x ∧
      locScalePpf VInv mu 1 x = vonMisesIcdf VInv mu x := by
  refine ⟨by simp [slotValues, slot_maps, PExpr.eval, envOf], fun x => ⟨?_, ?_, ?_⟩⟩
  · simp [locScaleCdf, vonMisesCdf]
  · simp [locScalePdf, stdVonMisesPdf, vonMisesPdf]
  · simp only [locScalePpf, vonMisesIcdf]; ring

/-- Gumbel subclass (no shape parameter): `(loc, scale)` go to `gumbel_r` unchanged, and scipy's
location-scale form of the standard Gumbel is the documented law -/
theorem scipy_form_eq_documented_gumbel (l sc : ℝ) :
    slotValues 9 [l, sc] = some ("gumbel_r", [l, sc]) ∧
    ∀ x, locScaleCdf (stdGumbelCdf realTr) l sc x = gumbelCdf realTr l sc x ∧
      locScalePdf (stdGumbelPdf realTr) l sc x = gumbelPdf realTr l sc x ∧
      locScalePpf (stdGumbelPpf realTr) l sc x = gumbelIcdf realTr l sc x := by
  refine ⟨by simp [slotValues, slot_maps, PExpr.eval, envOf], fun x => ⟨rfl, ?_, ?_⟩⟩
  · simp only [locScalePdf, stdGumbelPdf, gumbelPdf]; ring
  · simp only [locScalePpf, stdGumbelPpf, gumbelIcdf]; ring

/-- ScipyDistribution subclasses: parameters go to scipy in their own order, unchanged -/
theorem scipy_subclass_identity_map (a l sc b : ℝ) :
    slotValues 7 [a, l, sc] = some ("gamma", [a, l, sc]) ∧
    slotValues 8 [a, b, l, sc] = some ("beta", [a, b, l, sc]) ∧
    slotValues 9 [l, sc] = some ("gumbel_r", [l, sc]) := by
  refine ⟨?_, ?_, ?_⟩ <;> simp [slotValues, slot_maps, PExpr.eval, envOf]

end scipy_form

/-! ## the old code, as a counterexample (what the proof attempt produced) -/

/-- The row the sentinel run printed for `NormalDistribution().cdf(x, sigma=…)` before the fix
(`scale = self.sigma` in both branches): it violates the override law. -/
theorem override_law_counterexample_old_normal :
    getRowOkWith (some ("norm", [.arg 0, .arg 1]))
      { fam := 2, meth := 0, fixed := [], expl := [1], mode := 0,
        result := some ("norm", "cdf", [.arg 0, .arg 1]) } = false := by decide

/-! ## non-vacuity -/

example : ∃ r ∈ getRows, r.fam = 2 ∧ r.expl = [1] ∧ r.mode = 0 ∧
    r.result = some ("norm", "cdf", [.arg 0, .expl 1]) := by decide +kernel
example : ∃ r ∈ getRows, r.result = none := by decide +kernel
example : weibullIcdf realTr 2 1 0 (weibullCdf realTr 2 1 0 3) = 3 :=
  weibull_icdf_cdf (by norm_num) (by norm_num) (by norm_num)
example : weibullCdf realTr 2 1 0 (weibullIcdf realTr 2 1 0 (1 / 2)) = 1 / 2 :=
  weibull_cdf_icdf (by norm_num) (by norm_num) (by norm_num) (by norm_num)
example : ewCdf realTr 2 1 3 (ewIcdf realTr 2 1 3 (1 / 2)) = 1 / 2 :=
  ew_cdf_icdf (by norm_num) (by norm_num) (by norm_num) (by norm_num) (by norm_num)
example : gumbelIcdf realTr (-1) 2 (gumbelCdf realTr (-1) 2 3) = 3 := gumbel_icdf_cdf (by norm_num) 3
example : gumbelCdf realTr (-1) 2 (gumbelIcdf realTr (-1) 2 (1 / 2)) = 1 / 2 :=
  gumbel_cdf_icdf (by norm_num) (by norm_num) (by norm_num)
/-- the family without shape parameters is in the table: its single-override row replaces exactly `loc` -/
example : ∃ r ∈ getRows, r.fam = 9 ∧ r.expl = [0] ∧ r.mode = 1 ∧
    r.result = some ("gumbel_r", "ppf", [.expl 0, .arg 1]) := by decide +kernel
example : Real.exp (lnnfMu realTr 3 1 + lnnfSigma realTr 3 1 ^ 2 / 2) = 3 :=
  (lognormfit_moments (by norm_num) (by norm_num)).1
/-- non-vacuity: a leaf meeting every hypothesis of the range / limit laws exists -/
example : ∃ Phi : ℝ → ℝ, Monotone Phi ∧ (∀ z, 0 ≤ Phi z) ∧ (∀ z, Phi z ≤ 1) ∧
    Tendsto Phi atBot (𝓝 0) ∧ Tendsto Phi atTop (𝓝 1) :=
  ⟨gumbelCdf realTr 0 1, gumbel_cdf_monotone one_pos, fun z => (gumbel_cdf_pos z).le,
    fun z => (gumbel_cdf_lt_one one_ne_zero z).le, gumbel_cdf_tendsto_zero one_pos, gumbel_cdf_tendsto_one one_pos⟩
/-- the hypotheses of the `_partial` laws are satisfiable (identity leaf) -/
example (x : ℝ) (hx : 0 < x) : lognormalIcdf realTr id 0 1 (lognormalCdf realTr id 0 1 x) = x :=
  lognormal_icdf_cdf_partial id id (fun _ => rfl) one_ne_zero hx
example (x : ℝ) (hx : 0 < x) :
    ggIcdf realTr (fun _ t => t) 1 2 3 (ggCdf realTr (fun _ t => t) 1 2 3 x) = x :=
  gg_icdf_cdf_partial (fun _ t => t) (fun _ t => t) (fun _ _ => rfl) (by norm_num) (by norm_num) hx

end VirVerif.C05
