/-
C04 — AND/OR contour points have empirical exceedance alpha within allowed_error.

  "For every two-variable sample, alpha, angular step and allowed_error, unless the 'could not
   achieve the required precision' UserWarning is emitted, every searched point of an AndContour
   (OrContour) lies on its ray from the origin at the requested angle and the fraction of sample
   points exceeding it in both variables (in at least one variable) differs from alpha by at most
   allowed_error*alpha. The contour is closed through the axes and origin exactly as documented
   (AND: final point (0,0); OR: (0,y_last),(0,0),(x_first,0)), and OR points beyond 1.1 times the
   sample maximum are dropped, never altered."

Clause → theorem (model: `Model/AndOr.lean`, tied to contours.py by the bit-exact correspondence
check in `harness/c04.py`)
  searched point lies on its ray (distance >= 0.1*max_distance)  search_on_ray
  the returned vector is the one the returned pe was counted at  search_returns_evaluated_point
  pe = fraction exceeding in both / in at least one, strict `>`   search_returns_evaluated_point (division form; for an
                                                                  empty sample it is the totalised 0/0 = 0),
                                                                  search_ray_facts (pe·n = count, n ≠ 0),
                                                                  exceed_counts_strict
  no warning  ⇒  |pe - alpha| <= allowed_error * alpha            search_precise_or_warned
  warning  ⇔  all max_iterations iterations used                  search_warned_iff
  a point is returned for 0 <= allowed_error < 1                  search_returns_point
  (allowed_error >= 1, outside the quantifier: no vector bound)   search_needs_err_lt_one
  one searched point per theta, in order                          searchRays_spec
  ALL per-ray clauses lifted to EVERY searched point of the contour functions the driver runs
  (non-empty sample, alpha > 0, constants as in the code)          and_contour_points, or_contour_points
                                                                  (RayFacts, search_ray_facts)
  AND: searched points then (0,0), |thetas|+1 rows                and_closure
  OR: (0,y_last),(0,0),(x_first,0) appended                       or_closure, or_contour_spec
  OR: beyond 1.1*max dropped, never altered                       or_filter_sublist, or_contour_spec (any factor),
                                                                  or_contour_drops_beyond_1_1 (factor pinned to 11/10;
                                                                  the driver's `orContourF` pins the double 1.1),
                                                                  listMax_spec

Carrier: any linear ordered field.  `cos`/`sin` values of the thetas are inputs (`dirs`),
`max_distance` is an input, the constants 0.2 / 0.1 / 0.5 / 100 are the record `SearchConst`
(the theorems need only `half + half = 1`, `0 < s0`, `1 <= maxIter`).  Observed at runtime
only: that the `Float` run of these same functions reproduces the code's coordinates bit for
bit and its number of warnings; per-ray iteration counts of the code are not observable.
-/
import VirVerif.Model.AndOr
import Mathlib.Tactic.Ring
import Mathlib.Tactic.Linarith
import Mathlib.Tactic.NormNum
import Mathlib.Algebra.Order.Field.Basic
import Mathlib.Algebra.Order.AbsoluteValue.Basic
import Mathlib.Data.List.Basic
import Mathlib.Algebra.Order.Ring.Rat

namespace VirVerif.C04
open VirVerif

section search
variable {α : Type} [Field α] [LinearOrder α] [IsStrictOrderedRing α]

theorem absv_eq_abs (x : α) : absv x = |x| := by
  unfold absv
  split
  · rename_i h; exact (abs_of_neg h).symm
  · rename_i h; exact (abs_of_nonneg (not_lt.mp h)).symm

omit [IsStrictOrderedRing α] in
theorem searchStep_dist (peAt : α → α) (alpha maxDist half : α) (st : SearchSt α) :
    (searchStep peAt alpha maxDist half st).dist = some (st.relDist * maxDist) ∧
    (searchStep peAt alpha maxDist half st).pe = peAt (st.relDist * maxDist) ∧
    (searchStep peAt alpha maxDist half st).iters = st.iters + 1 := by
  unfold searchStep
  simp only
  split <;> exact ⟨rfl, rfl, rfl⟩

omit [IsStrictOrderedRing α] in
/-- generic invariant rule for the loop: anything that holds initially, is established by every
loop body execution, holds at exit. -/
theorem searchLoop_invariant (peAt : α → α) (alpha err maxDist half : α) (P : SearchSt α → Prop)
    (hstep : ∀ st, P (searchStep peAt alpha maxDist half st)) :
    ∀ (fuel : Nat) (st : SearchSt α), P st → P (searchLoop peAt alpha err maxDist half fuel st).1
  | 0, st, h => h
  | fuel + 1, st, h => by
    unfold searchLoop
    split
    · split
      · exact hstep st
      · exact searchLoop_invariant peAt alpha err maxDist half P hstep fuel _ (hstep st)
    · exact h

omit [IsStrictOrderedRing α] in
/-- invariant rule with a precondition carried along (the step preserves `P`). -/
theorem searchLoop_preserves (peAt : α → α) (alpha err maxDist half : α) (P : SearchSt α → Prop)
    (hstep : ∀ st, P st → P (searchStep peAt alpha maxDist half st)) :
    ∀ (fuel : Nat) (st : SearchSt α), P st → P (searchLoop peAt alpha err maxDist half fuel st).1
  | 0, st, h => h
  | fuel + 1, st, h => by
    unfold searchLoop
    split
    · split
      · exact hstep st h
      · exact searchLoop_preserves peAt alpha err maxDist half P hstep fuel _ (hstep st h)
    · exact h

omit [IsStrictOrderedRing α] in
/-- not warned ⇒ the loop was left through its condition. -/
theorem searchLoop_unwarned (peAt : α → α) (alpha err maxDist half : α) :
    ∀ (fuel : Nat) (st : SearchSt α), 1 ≤ fuel →
      (searchLoop peAt alpha err maxDist half fuel st).2 = false →
      needMore alpha err (searchLoop peAt alpha err maxDist half fuel st).1.pe = false
  | 0, st, h, _ => absurd h (by omega)
  | fuel + 1, st, _, hw => by
    unfold searchLoop at hw ⊢
    split
    · rename_i hn
      rw [if_pos hn] at hw
      split
      · rename_i h0; rw [if_pos h0] at hw; cases hw
      · rename_i h0
        rw [if_neg h0] at hw
        exact searchLoop_unwarned peAt alpha err maxDist half fuel _ (by omega) hw
    · rename_i hn
      simpa using hn


omit [IsStrictOrderedRing α] in
/-- iteration count: a warning means exactly `fuel` more iterations were made, no warning
means fewer. -/
theorem searchLoop_iters (peAt : α → α) (alpha err maxDist half : α) :
    ∀ (fuel : Nat) (st : SearchSt α),
      ((searchLoop peAt alpha err maxDist half fuel st).2 = true →
        (searchLoop peAt alpha err maxDist half fuel st).1.iters = st.iters + fuel) ∧
      ((searchLoop peAt alpha err maxDist half fuel st).2 = false → 1 ≤ fuel →
        (searchLoop peAt alpha err maxDist half fuel st).1.iters < st.iters + fuel)
  | 0, st => by simp [searchLoop]
  | fuel + 1, st => by
    unfold searchLoop
    split
    · split
      · rename_i h0
        subst h0
        simp [(searchStep_dist peAt alpha maxDist half st).2.2]
      · rename_i h0
        have ih := searchLoop_iters peAt alpha err maxDist half fuel (searchStep peAt alpha maxDist half st)
        rw [(searchStep_dist peAt alpha maxDist half st).2.2] at ih
        dsimp only
        refine ⟨fun h => by rw [ih.1 h]; omega, fun h _ => ?_⟩
        have := ih.2 h (by omega)
        omega
    · simp

/-! ### the search along one ray -/

omit [IsStrictOrderedRing α] in
/-- result of `searchRay` in terms of the loop -/
theorem searchRay_ok (k : SearchConst α) (ofN : Nat → α) (isOr : Bool) (sample : List (α × α))
    (alpha err maxDist c s : α) (r : RayResult α)
    (h : searchRay k ofN isOr sample alpha err maxDist c s = .ok r) :
    ∃ d, (searchLoop (peAtRay ofN isOr sample c s) alpha err maxDist k.half k.maxIter
        (searchInit k.d0 k.s0)).1.dist = some d ∧
      r.x = c * d ∧ r.y = s * d ∧
      r.pe = (searchLoop (peAtRay ofN isOr sample c s) alpha err maxDist k.half k.maxIter
        (searchInit k.d0 k.s0)).1.pe ∧
      r.iters = (searchLoop (peAtRay ofN isOr sample c s) alpha err maxDist k.half k.maxIter
        (searchInit k.d0 k.s0)).1.iters ∧
      r.warned = (searchLoop (peAtRay ofN isOr sample c s) alpha err maxDist k.half k.maxIter
        (searchInit k.d0 k.s0)).2 := by
  unfold searchRay at h
  simp only at h
  split at h
  · cases h
  · rename_i d hd
    cases h
    exact ⟨d, hd, rfl, rfl, rfl, rfl, rfl⟩

omit [IsStrictOrderedRing α] in
/-- **the returned vector is the one at which the returned pe was computed, and it lies on
its ray**: `(x, y) = (c*d, s*d)` and `pe` is the exceedance fraction counted at exactly
`(x, y)` (not at the next iterate).
Totalisation note: for an EMPTY sample (`ofN 0 = 0`) the right-hand side is `0 / 0 = 0` in a field,
so the equation then says nothing about a fraction (numpy gives NaN there). The division-free form
under the hypothesis `ofN n ≠ 0` is `search_ray_facts` (`pe · n = count`). -/
theorem search_returns_evaluated_point (k : SearchConst α) (ofN : Nat → α) (isOr : Bool)
    (sample : List (α × α)) (alpha err maxDist c s : α) (r : RayResult α)
    (h : searchRay k ofN isOr sample alpha err maxDist c s = .ok r) :
    ∃ d, r.x = c * d ∧ r.y = s * d ∧
      r.pe = ofN ((if isOr then exceedOr else exceedAnd) sample r.x r.y) / ofN sample.length := by
  obtain ⟨d, hd, hx, hy, hpe, _, _⟩ := searchRay_ok k ofN isOr sample alpha err maxDist c s r h
  refine ⟨d, hx, hy, ?_⟩
  have hinv := searchLoop_preserves (peAtRay ofN isOr sample c s) alpha err maxDist k.half
    (fun st => ∀ d, st.dist = some d → st.pe = peAtRay ofN isOr sample c s d)
    (fun st _ d hd => by
      obtain ⟨h1, h2, _⟩ := searchStep_dist (peAtRay ofN isOr sample c s) alpha maxDist k.half st
      rw [h1] at hd
      cases hd
      exact h2)
    k.maxIter (searchInit k.d0 k.s0) (fun d hd => by simp [searchInit] at hd)
  rw [hpe, hinv d hd, hx, hy]
  rfl

/-- **not warned ⇒ within the allowed error**: if the ray did not run out of iterations then
`|pe - alpha| <= allowed_error * alpha` (for `alpha > 0`, at least one iteration allowed). -/
theorem search_precise_or_warned (k : SearchConst α) (ofN : Nat → α) (isOr : Bool)
    (sample : List (α × α)) (alpha err maxDist c s : α) (r : RayResult α)
    (halpha : 0 < alpha) (hmax : 1 ≤ k.maxIter)
    (h : searchRay k ofN isOr sample alpha err maxDist c s = .ok r) (hw : r.warned = false) :
    |r.pe - alpha| ≤ err * alpha := by
  obtain ⟨d, _, _, _, hpe, _, hwarn⟩ := searchRay_ok k ofN isOr sample alpha err maxDist c s r h
  rw [hwarn] at hw
  have := searchLoop_unwarned (peAtRay ofN isOr sample c s) alpha err maxDist k.half k.maxIter
    (searchInit k.d0 k.s0) hmax hw
  rw [← hpe] at this
  unfold needMore at this
  rw [decide_eq_false_iff_not, not_lt, absv_eq_abs, div_le_iff₀ halpha] at this
  exact this

omit [IsStrictOrderedRing α] in
/-- the warning is emitted exactly when all `max_iterations` iterations were used. -/
theorem search_warned_iff (k : SearchConst α) (ofN : Nat → α) (isOr : Bool)
    (sample : List (α × α)) (alpha err maxDist c s : α) (r : RayResult α) (hmax : 1 ≤ k.maxIter)
    (h : searchRay k ofN isOr sample alpha err maxDist c s = .ok r) :
    (r.warned = true ↔ r.iters = k.maxIter) ∧ r.iters ≤ k.maxIter := by
  obtain ⟨d, _, _, _, _, hit, hwarn⟩ := searchRay_ok k ofN isOr sample alpha err maxDist c s r h
  have hi := searchLoop_iters (peAtRay ofN isOr sample c s) alpha err maxDist k.half k.maxIter
    (searchInit k.d0 k.s0)
  rw [← hit, ← hwarn] at hi
  simp only [searchInit, Nat.zero_add] at hi
  cases hwv : r.warned with
  | true => have := hi.1 hwv; exact ⟨by simp [this], by omega⟩
  | false => have := hi.2 hwv hmax; exact ⟨by simp; omega, by omega⟩

/-- with `0 <= allowed_error < 1` and `alpha > 0` the loop body runs at least once, so a point
is returned (the Python variable `current_vector` is bound). -/
theorem search_returns_point (k : SearchConst α) (ofN : Nat → α) (isOr : Bool)
    (sample : List (α × α)) (alpha err maxDist c s : α)
    (halpha : 0 < alpha) (herr : err < 1) (hmax : 1 ≤ k.maxIter) :
    ∃ r, searchRay k ofN isOr sample alpha err maxDist c s = .ok r ∧ 1 ≤ r.iters := by
  have hneed : needMore alpha err (searchInit k.d0 k.s0 : SearchSt α).pe = true := by
    unfold needMore searchInit
    simp only [zero_sub, decide_eq_true_eq, absv_eq_abs, abs_neg, abs_of_pos halpha,
      div_self (ne_of_gt halpha)]
    exact herr
  obtain ⟨m, hm⟩ : ∃ m, k.maxIter = m + 1 := ⟨k.maxIter - 1, by omega⟩
  have hloop : ((searchLoop (peAtRay ofN isOr sample c s) alpha err maxDist k.half k.maxIter
      (searchInit k.d0 k.s0)).1.dist.isSome = true) ∧
      1 ≤ (searchLoop (peAtRay ofN isOr sample c s) alpha err maxDist k.half k.maxIter
      (searchInit k.d0 k.s0)).1.iters := by
    rw [hm]
    unfold searchLoop
    rw [if_pos hneed]
    have hs := searchStep_dist (peAtRay ofN isOr sample c s) alpha maxDist k.half (searchInit k.d0 k.s0)
    split
    · rw [hs.1, hs.2.2]; simp
    · exact searchLoop_preserves (peAtRay ofN isOr sample c s) alpha err maxDist k.half
        (fun st => st.dist.isSome = true ∧ 1 ≤ st.iters)
        (fun st _ => by
          have := searchStep_dist (peAtRay ofN isOr sample c s) alpha maxDist k.half st
          rw [this.1, this.2.2]; simp)
        m _ (by rw [hs.1, hs.2.2]; simp)
  obtain ⟨d, hd⟩ := Option.isSome_iff_exists.mp hloop.1
  set L := searchLoop (peAtRay ofN isOr sample c s) alpha err maxDist k.half k.maxIter
    (searchInit k.d0 k.s0) with hL
  have hr : searchRay k ofN isOr sample alpha err maxDist c s =
      .ok { x := c * d, y := s * d, pe := L.1.pe, iters := L.1.iters, warned := L.2 } := by
    unfold searchRay
    simp only [← hL, hd]
  exact ⟨_, hr, hloop.2⟩

/-- `allowed_error >= 1` (outside the property's quantifier): the loop body never runs and no
vector is ever bound — the code then fails with a NameError or reuses the previous ray's vector. -/
theorem search_needs_err_lt_one (k : SearchConst α) (ofN : Nat → α) (isOr : Bool)
    (sample : List (α × α)) (alpha err maxDist c s : α) (halpha : 0 < alpha) (herr : 1 ≤ err) :
    searchRay k ofN isOr sample alpha err maxDist c s = .error .unboundVector := by
  have hneed : needMore alpha err (searchInit k.d0 k.s0 : SearchSt α).pe = false := by
    unfold needMore searchInit
    simp only [zero_sub, decide_eq_false_iff_not, absv_eq_abs, abs_neg, abs_of_pos halpha,
      div_self (ne_of_gt halpha), not_lt]
    exact herr
  have : searchLoop (peAtRay ofN isOr sample c s) alpha err maxDist k.half k.maxIter
      (searchInit k.d0 k.s0) = (searchInit k.d0 k.s0, false) := by
    cases k.maxIter with
    | zero => rfl
    | succ m => unfold searchLoop; rw [if_neg (by simp [hneed])]
  unfold searchRay
  simp only [this]
  rfl

/-- **distance along the ray**: the returned point is `(c*d, s*d)` with
`d >= (rel_dist0 - rel_step0) * max_distance` (= `0.1 * max_distance` in the code), in
particular `d >= 0`: the point is on the ray, not on its backward extension. -/
theorem search_on_ray (k : SearchConst α) (ofN : Nat → α) (isOr : Bool)
    (sample : List (α × α)) (alpha err maxDist c s : α) (r : RayResult α)
    (hhalf : k.half + k.half = 1) (hs0 : 0 < k.s0) (hmd : 0 ≤ maxDist)
    (h : searchRay k ofN isOr sample alpha err maxDist c s = .ok r) :
    ∃ d, r.x = c * d ∧ r.y = s * d ∧ (k.d0 - k.s0) * maxDist ≤ d := by
  obtain ⟨d, hd, hx, hy, _, _, _⟩ := searchRay_ok k ofN isOr sample alpha err maxDist c s r h
  refine ⟨d, hx, hy, ?_⟩
  have hhalfpos : 0 < k.half := by
    by_contra hc
    have : k.half ≤ 0 := not_lt.mp hc
    linarith
  have hinv := searchLoop_preserves (peAtRay ofN isOr sample c s) alpha err maxDist k.half
    (fun st => k.d0 - k.s0 ≤ st.relDist - st.relStep ∧ 0 < st.relStep ∧
      ∀ d, st.dist = some d → (k.d0 - k.s0) * maxDist ≤ d)
    (fun st hst => by
      obtain ⟨h1, h2, h3⟩ := hst
      unfold searchStep
      simp only
      split
      · refine ⟨by linarith, h2, fun d hd => ?_⟩
        cases hd
        exact mul_le_mul_of_nonneg_right (by linarith) hmd
      · refine ⟨?_, mul_pos hhalfpos h2, fun d hd => ?_⟩
        · have : k.half * st.relStep + k.half * st.relStep = st.relStep := by
            rw [← add_mul, hhalf, one_mul]
          linarith
        · cases hd
          exact mul_le_mul_of_nonneg_right (by linarith) hmd)
    k.maxIter (searchInit k.d0 k.s0)
    ⟨by simp [searchInit], by simpa [searchInit] using hs0, fun d hd => by simp [searchInit] at hd⟩
  exact hinv.2.2 d hd


/-! ### all rays, closures, the OR filter -/

omit [IsStrictOrderedRing α] in
/-- ray `i` of the result is the search along direction `i` (one result per theta, in order). -/
theorem searchRays_spec (k : SearchConst α) (ofN : Nat → α) (isOr : Bool) (sample : List (α × α))
    (alpha err maxDist : α) :
    ∀ (dirs : List (α × α)) (rs : List (RayResult α)),
      searchRays k ofN isOr sample alpha err maxDist dirs = .ok rs →
      rs.length = dirs.length ∧
      ∀ i (hi : i < dirs.length), ∃ r, rs[i]? = some r ∧
        searchRay k ofN isOr sample alpha err maxDist dirs[i].1 dirs[i].2 = .ok r
  | [], rs, h => by
    simp only [searchRays, Except.ok.injEq] at h
    subst h
    exact ⟨rfl, fun i hi => absurd hi (by simp)⟩
  | cs :: rest, rs, h => by
    simp only [searchRays] at h
    split at h
    · cases h
    · rename_i r hr
      split at h
      · cases h
      · rename_i rs' hrs
        simp only [Except.ok.injEq] at h
        subst h
        obtain ⟨hlen, hall⟩ := searchRays_spec k ofN isOr sample alpha err maxDist rest rs' hrs
        refine ⟨by simp [hlen], fun i hi => ?_⟩
        cases i with
        | zero => exact ⟨r, by simp, by simpa using hr⟩
        | succ i =>
          obtain ⟨r', h1, h2⟩ := hall i (by simpa using hi)
          exact ⟨r', by simpa using h1, by simpa using h2⟩

omit [IsStrictOrderedRing α] in
/-- **AND closure**: the coordinates are the searched points in theta order followed by
`(0, 0)`; there are `|thetas| + 1` of them. -/
theorem and_closure (k : SearchConst α) (ofN : Nat → α) (sample : List (α × α))
    (alpha err maxDist : α) (dirs : List (α × α)) (coords : List (α × α)) (rs : List (RayResult α))
    (h : andContour k ofN sample alpha err maxDist dirs = .ok (coords, rs)) :
    coords = rs.map (fun r => (r.x, r.y)) ++ [(0, 0)] ∧ coords.length = dirs.length + 1 ∧
      coords.getLast? = some (0, 0) ∧
      searchRays k ofN false sample alpha err maxDist dirs = .ok rs := by
  unfold andContour at h
  split at h
  · cases h
  · rename_i rs' hrs
    simp only [Except.ok.injEq, Prod.mk.injEq] at h
    obtain ⟨h1, h2⟩ := h
    subst h2
    have hlen := (searchRays_spec k ofN false sample alpha err maxDist dirs rs' hrs).1
    subst h1
    exact ⟨rfl, by simp [andClose, hlen], by simp [andClose], hrs⟩

omit [Field α] [IsStrictOrderedRing α] in
/-- **OR filter: points are dropped, never altered**: what is kept is a sublist of the searched
points, and a searched point is kept exactly when it is strictly inside the box. -/
theorem or_filter_sublist (xmax ymax : α) (pts : List (α × α)) :
    (orKeep xmax ymax pts).Sublist pts ∧
    ∀ p, p ∈ orKeep xmax ymax pts ↔ p ∈ pts ∧ p.1 < xmax ∧ p.2 < ymax := by
  unfold orKeep
  refine ⟨List.filter_sublist, fun p => ?_⟩
  simp [List.mem_filter]

omit [LinearOrder α] [IsStrictOrderedRing α] in
/-- **OR closure**: the kept points are followed by `(0, y_last)`, `(0, 0)`, `(x_first, 0)`;
if nothing was kept there is no contour (the code raises IndexError). -/
theorem or_closure (kept : List (α × α)) :
    (∀ c, orClose kept = .ok c →
      ∃ f l, kept.head? = some f ∧ kept.getLast? = some l ∧
        c = kept ++ [(0, l.2), (0, 0), (f.1, 0)]) ∧
    (kept = [] → orClose kept = .error .emptyKept) := by
  constructor
  · intro c h
    unfold orClose at h
    split at h
    · rename_i f l hf hl
      simp only [Except.ok.injEq] at h
      exact ⟨f, l, hf, hl, h.symm⟩
    · cases h
  · intro h; subst h; rfl

omit [Field α] [IsStrictOrderedRing α] in
theorem foldl_max_spec (l : List α) (m : α) :
    m ≤ l.foldl (fun m y => if m < y then y else m) m ∧
    (∀ x ∈ l, x ≤ l.foldl (fun m y => if m < y then y else m) m) ∧
    (l.foldl (fun m y => if m < y then y else m) m = m ∨
      l.foldl (fun m y => if m < y then y else m) m ∈ l) := by
  induction l generalizing m with
  | nil => simp
  | cons y ys ih =>
    simp only [List.foldl_cons, List.mem_cons, forall_eq_or_imp]
    obtain ⟨h1, h2, h3⟩ := ih (if m < y then y else m)
    have hm : m ≤ (if m < y then y else m) := by split <;> [exact le_of_lt ‹_›; exact le_refl _]
    have hy : y ≤ (if m < y then y else m) := by split <;> [exact le_refl _; exact not_lt.mp ‹_›]
    refine ⟨le_trans hm h1, ⟨le_trans hy h1, h2⟩, ?_⟩
    rcases h3 with h3 | h3
    · rw [h3]
      split
      · exact Or.inr (Or.inl rfl)
      · exact Or.inl rfl
    · exact Or.inr (Or.inr h3)

omit [Field α] [IsStrictOrderedRing α] in
/-- `listMax` is the maximum of the list. -/
theorem listMax_spec (l : List α) (m : α) (h : listMax l = some m) :
    m ∈ l ∧ ∀ x ∈ l, x ≤ m := by
  cases l with
  | nil => cases h
  | cons a rest =>
    simp only [listMax, Option.some.injEq] at h
    obtain ⟨h1, h2, h3⟩ := foldl_max_spec rest a
    rw [h] at h1 h2 h3
    refine ⟨?_, fun x hx => ?_⟩
    · rcases h3 with h3 | h3
      · rw [h3]; exact List.mem_cons_self
      · exact List.mem_cons_of_mem _ h3
    · rcases List.mem_cons.mp hx with rfl | hx
      · exact h1
      · exact h2 x hx

omit [IsStrictOrderedRing α] in
/-- the OR contour: searched points (one per theta), filtered against `factor * max` of the
sample in each variable, closed through the axes. -/
theorem or_contour_spec (k : SearchConst α) (ofN : Nat → α) (sample : List (α × α))
    (alpha err maxDist factor : α) (dirs : List (α × α)) (coords : List (α × α))
    (rs : List (RayResult α))
    (h : orContour k ofN sample alpha err maxDist factor dirs = .ok (coords, rs)) :
    ∃ mx my f l,
      (mx ∈ sample.map Prod.fst ∧ ∀ x ∈ sample.map Prod.fst, x ≤ mx) ∧
      (my ∈ sample.map Prod.snd ∧ ∀ y ∈ sample.map Prod.snd, y ≤ my) ∧
      searchRays k ofN true sample alpha err maxDist dirs = .ok rs ∧
      (orKeep (factor * mx) (factor * my) (rs.map fun r => (r.x, r.y))).head? = some f ∧
      (orKeep (factor * mx) (factor * my) (rs.map fun r => (r.x, r.y))).getLast? = some l ∧
      coords = orKeep (factor * mx) (factor * my) (rs.map fun r => (r.x, r.y)) ++
        [(0, l.2), (0, 0), (f.1, 0)] := by
  unfold orContour at h
  split at h
  · rename_i mx my hmx hmy
    split at h
    · cases h
    · rename_i rs' hrs
      split at h
      · cases h
      · rename_i c hc
        simp only [Except.ok.injEq, Prod.mk.injEq] at h
        obtain ⟨h1, h2⟩ := h
        subst h1 h2
        obtain ⟨f, l, hf, hl, hcc⟩ := (or_closure _).1 c hc
        exact ⟨mx, my, f, l, listMax_spec _ _ hmx, listMax_spec _ _ hmy, hrs, hf, hl, hcc⟩
  · cases h


omit [IsStrictOrderedRing α] in
/-- **OR: points beyond 1.1 times the sample maximum are dropped, never altered** — `or_contour_spec` with the
factor of the code pinned to `11/10` (the driver runs `orContourF`, whose factor is the double `1.1`): the
kept points are a sublist of the searched points, a searched point is kept exactly when both coordinates are
strictly below `11/10` times the maximum of the sample in that variable, and the contour is the kept points
followed by the documented closure. -/
theorem or_contour_drops_beyond_1_1 (k : SearchConst α) (ofN : Nat → α) (sample : List (α × α))
    (alpha err maxDist : α) (dirs : List (α × α)) (coords : List (α × α)) (rs : List (RayResult α))
    (h : orContour k ofN sample alpha err maxDist (11 / 10) dirs = .ok (coords, rs)) :
    ∃ mx my kept f l,
      (mx ∈ sample.map Prod.fst ∧ ∀ x ∈ sample.map Prod.fst, x ≤ mx) ∧
      (my ∈ sample.map Prod.snd ∧ ∀ y ∈ sample.map Prod.snd, y ≤ my) ∧
      kept.Sublist (rs.map fun r => (r.x, r.y)) ∧
      (∀ p, p ∈ kept ↔ p ∈ (rs.map fun r => (r.x, r.y)) ∧ p.1 < 11 / 10 * mx ∧ p.2 < 11 / 10 * my) ∧
      kept.head? = some f ∧ kept.getLast? = some l ∧
      coords = kept ++ [(0, l.2), (0, 0), (f.1, 0)] := by
  obtain ⟨mx, my, f, l, hmx, hmy, _, hf, hl, hc⟩ :=
    or_contour_spec k ofN sample alpha err maxDist (11 / 10) dirs coords rs h
  obtain ⟨hsub, hmem⟩ := or_filter_sublist (11 / 10 * mx) (11 / 10 * my) (rs.map fun r => (r.x, r.y))
  exact ⟨mx, my, _, f, l, hmx, hmy, hsub, hmem, hf, hl, hc⟩

/-! ### the per-ray theorems lifted to every searched point of the AND / OR contour -/

/-- everything the property says about ONE searched point `r` of the ray with unit vector `(c, s)`:
on the ray at distance `≥ (d0 - s0)·max_distance`; `pe` is the exceedance FRACTION counted at exactly
`(r.x, r.y)` (stated without division: `pe · n = count`, for a non-empty sample); no warning ⇒
within the allowed error; warning ⇔ all iterations used. -/
def RayFacts (k : SearchConst α) (ofN : Nat → α) (isOr : Bool) (sample : List (α × α))
    (alpha err maxDist c s : α) (r : RayResult α) : Prop :=
  (∃ d, r.x = c * d ∧ r.y = s * d ∧ (k.d0 - k.s0) * maxDist ≤ d) ∧
  r.pe * ofN sample.length = ofN ((if isOr then exceedOr else exceedAnd) sample r.x r.y) ∧
  (r.warned = false → |r.pe - alpha| ≤ err * alpha) ∧
  (r.warned = true ↔ r.iters = k.maxIter)

/-- all per-ray clauses at once, for a non-empty sample (`ofN n ≠ 0`: with an empty sample `pe` would be
the totalised `0/0 = 0`, see `search_returns_evaluated_point`). -/
theorem search_ray_facts (k : SearchConst α) (ofN : Nat → α) (isOr : Bool)
    (sample : List (α × α)) (alpha err maxDist c s : α) (r : RayResult α)
    (hn : ofN sample.length ≠ 0) (halpha : 0 < alpha) (hmax : 1 ≤ k.maxIter)
    (hhalf : k.half + k.half = 1) (hs0 : 0 < k.s0) (hmd : 0 ≤ maxDist)
    (h : searchRay k ofN isOr sample alpha err maxDist c s = .ok r) :
    RayFacts k ofN isOr sample alpha err maxDist c s r := by
  refine ⟨search_on_ray k ofN isOr sample alpha err maxDist c s r hhalf hs0 hmd h, ?_,
    search_precise_or_warned k ofN isOr sample alpha err maxDist c s r halpha hmax h,
    (search_warned_iff k ofN isOr sample alpha err maxDist c s r hmax h).1⟩
  obtain ⟨_, _, _, hpe⟩ := search_returns_evaluated_point k ofN isOr sample alpha err maxDist c s r h
  rw [hpe, div_mul_cancel₀ _ hn]

/-- **every searched point of an AndContour**: the contour has `|thetas| + 1` rows, the last is `(0,0)`,
and row `i < |thetas|` is the searched point of ray `i`, which lies on its ray, whose `pe` is the fraction
of sample points exceeding it in BOTH variables, and — unless that ray warned — `|pe - alpha| ≤
allowed_error·alpha`. (`andContour` is the function the driver op `c04and` runs.) -/
theorem and_contour_points (k : SearchConst α) (ofN : Nat → α) (sample : List (α × α))
    (alpha err maxDist : α) (dirs : List (α × α)) (coords : List (α × α)) (rs : List (RayResult α))
    (hn : ofN sample.length ≠ 0) (halpha : 0 < alpha) (hmax : 1 ≤ k.maxIter)
    (hhalf : k.half + k.half = 1) (hs0 : 0 < k.s0) (hmd : 0 ≤ maxDist)
    (h : andContour k ofN sample alpha err maxDist dirs = .ok (coords, rs)) :
    coords.length = dirs.length + 1 ∧ coords.getLast? = some (0, 0) ∧
      ∀ i (hi : i < dirs.length), ∃ r, rs[i]? = some r ∧ coords[i]? = some (r.x, r.y) ∧
        RayFacts k ofN false sample alpha err maxDist dirs[i].1 dirs[i].2 r := by
  obtain ⟨hc, hlen, hlast, hrs⟩ := and_closure k ofN sample alpha err maxDist dirs coords rs h
  obtain ⟨hl, hall⟩ := searchRays_spec k ofN false sample alpha err maxDist dirs rs hrs
  refine ⟨hlen, hlast, fun i hi => ?_⟩
  obtain ⟨r, hr, hray⟩ := hall i hi
  refine ⟨r, hr, ?_, search_ray_facts k ofN false sample alpha err maxDist _ _ r hn halpha hmax hhalf
    hs0 hmd hray⟩
  rw [hc, List.getElem?_append_left (by simp [hl, hi]), List.getElem?_map, hr]
  rfl

/-- **every searched point of an OrContour that is kept**: the contour is the kept points followed by the
documented closure, and every kept point is — unaltered — the searched point of some ray `i`, lies on that
ray, its `pe` is the fraction of sample points exceeding it in AT LEAST ONE variable, and — unless that
ray warned — `|pe - alpha| ≤ allowed_error·alpha`. (`orContour` with the factor pinned is what the
driver op `c04or` runs; an empty sample is refused by `orContour`, `hn` only excludes `ofN n = 0`.) -/
theorem or_contour_points (k : SearchConst α) (ofN : Nat → α) (sample : List (α × α))
    (alpha err maxDist factor : α) (dirs : List (α × α)) (coords : List (α × α))
    (rs : List (RayResult α))
    (hn : ofN sample.length ≠ 0) (halpha : 0 < alpha) (hmax : 1 ≤ k.maxIter)
    (hhalf : k.half + k.half = 1) (hs0 : 0 < k.s0) (hmd : 0 ≤ maxDist)
    (h : orContour k ofN sample alpha err maxDist factor dirs = .ok (coords, rs)) :
    ∃ kept f l, kept.head? = some f ∧ kept.getLast? = some l ∧
      coords = kept ++ [(0, l.2), (0, 0), (f.1, 0)] ∧
      ∀ p ∈ kept, ∃ i, ∃ hi : i < dirs.length, ∃ r, rs[i]? = some r ∧ p = (r.x, r.y) ∧
        RayFacts k ofN true sample alpha err maxDist dirs[i].1 dirs[i].2 r := by
  obtain ⟨mx, my, f, l, _, _, hrs, hf, hl, hc⟩ :=
    or_contour_spec k ofN sample alpha err maxDist factor dirs coords rs h
  obtain ⟨hlen, hall⟩ := searchRays_spec k ofN true sample alpha err maxDist dirs rs hrs
  refine ⟨_, f, l, hf, hl, hc, fun p hp => ?_⟩
  have hp' := ((or_filter_sublist (factor * mx) (factor * my) _).2 p).mp hp
  obtain ⟨r, hr, rfl⟩ := List.mem_map.mp hp'.1
  obtain ⟨i, hi, hri⟩ := List.mem_iff_getElem.mp hr
  have hi' : i < dirs.length := by omega
  obtain ⟨r', hr', hray⟩ := hall i hi'
  rw [List.getElem?_eq_getElem hi, hri] at hr'
  cases hr'
  exact ⟨i, hi', r, by rw [List.getElem?_eq_getElem hi, hri], rfl,
    search_ray_facts k ofN true sample alpha err maxDist _ _ r hn halpha hmax hhalf hs0 hmd hray⟩

/-! ### exceedance counts are strict -/

omit [Field α] [IsStrictOrderedRing α] in
/-- AND exceedance counts the points strictly greater in BOTH variables, OR exceedance those
strictly greater in AT LEAST ONE; a point equal to the vector in a variable does not exceed
it in that variable. -/
theorem exceed_counts_strict (sample : List (α × α)) (vx vy : α) :
    exceedAnd sample vx vy = (sample.filter fun p => decide (vx < p.1 ∧ vy < p.2)).length ∧
    exceedOr sample vx vy = (sample.filter fun p => decide (vx < p.1 ∨ vy < p.2)).length ∧
    exceedAnd [(vx, vy)] vx vy = 0 ∧ exceedOr [(vx, vy)] vx vy = 0 ∧
    exceedAnd sample vx vy ≤ exceedOr sample vx vy := by
  unfold exceedAnd exceedOr
  refine ⟨?_, ?_, by simp, by simp, ?_⟩
  · rw [List.countP_eq_length_filter]; congr 2; funext p; simp [Bool.decide_and]
  · rw [List.countP_eq_length_filter]; congr 2; funext p; simp [Bool.decide_or]
  · apply List.countP_mono_left
    intro p _ hp
    simp only [Bool.and_eq_true, decide_eq_true_eq, Bool.or_eq_true] at hp ⊢
    exact Or.inl hp.1

end search

/-! ### non-vacuity: concrete runs of the model over ℚ -/

/-- the constants of the code as rationals (3 iterations instead of 100 to keep the examples small) -/
def kQ : SearchConst ℚ := { d0 := 1 / 5, s0 := 1 / 10, half := 1 / 2, maxIter := 3 }

/-- an un-warned ray: theta = 0, two sample points, alpha = 1/2 is met at the first evaluation -/
example : searchRay kQ (fun n : Nat => (n : ℚ)) false [(1, 1), (3, 1)] (1 / 2) (1 / 10) 10 1 0 =
    .ok { x := 2, y := 0, pe := 1 / 2, iters := 1, warned := false } := by
  norm_num [searchRay, kQ, searchLoop, searchInit, needMore, absv, searchStep, peAtRay, exceedAnd]

/-- a ray that runs out of iterations: one sample point, alpha = 1/2 can never be met -/
example : searchRay kQ (fun n : Nat => (n : ℚ)) false [(1, 1)] (1 / 2) (1 / 10) 10 1 0 =
    .ok { x := 5 / 4, y := 0, pe := 0, iters := 3, warned := true } := by
  norm_num [searchRay, kQ, searchLoop, searchInit, needMore, absv, searchStep, peAtRay, exceedAnd]

/-- non-vacuity of `and_contour_points`: a one-ray AND contour that exists (non-empty sample, `alpha > 0`,
`maxDist ≥ 0`; the conditions on the constants are shown for `kQ` below) -/
example : andContour kQ (fun n : Nat => (n : ℚ)) [(1, 1), (3, 1)] (1 / 2) (1 / 10) 10 [(1, 0)] =
    .ok ([(2, 0), (0, 0)], [{ x := 2, y := 0, pe := 1 / 2, iters := 1, warned := false }]) := by
  norm_num [andContour, searchRays, andClose, searchRay, kQ, searchLoop, searchInit, needMore, absv,
    searchStep, peAtRay, exceedAnd]

/-- non-vacuity of `or_contour_points`: a one-ray OR contour that exists -/
example : orContour kQ (fun n : Nat => (n : ℚ)) [(1, -1), (3, 1)] (1 / 2) (1 / 10) 10 (11 / 10) [(1, 0)] =
    .ok ([(2, 0), (0, 0), (0, 0), (2, 0)], [{ x := 2, y := 0, pe := 1 / 2, iters := 1, warned := false }]) := by
  norm_num [orContour, listMax, orKeep, orClose, searchRays, searchRay, kQ, searchLoop, searchInit,
    needMore, absv, searchStep, peAtRay, exceedOr]

example : orClose [((1 : ℚ), (2 : ℚ)), (3, 4)] = .ok [(1, 2), (3, 4), (0, 4), (0, 0), (1, 0)] := by
  simp [orClose]

example : orKeep (3 : ℚ) 5 [(1, 2), (3, 4), (2, 6), (2, 4)] = [(1, 2), (2, 4)] := by
  norm_num [orKeep, List.filter]

/-- the pinned factor 11/10 with sample maxima 3 and 5: a coordinate exactly AT 1.1*max is dropped -/
example : orKeep ((11 : ℚ) / 10 * 3) (11 / 10 * 5) [(1, 2), (33 / 10, 4), (2, 11 / 2), (3, 5)] = [(1, 2), (3, 5)] := by
  norm_num [orKeep, List.filter]

example : kQ.half + kQ.half = 1 ∧ 0 < kQ.s0 ∧ 1 ≤ kQ.maxIter := by norm_num [kQ]

end VirVerif.C04
