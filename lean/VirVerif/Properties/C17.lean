/-
C17 — Design conditions lie on the contour at the requested abscissa, top ordinate.

  "For every closed 2-D contour and list (or number) of abscissae, each returned design condition
   lies on the contour polygon at the requested abscissa and carries the largest ordinate among all
   intersections there; abscissae that do not cross the contour are omitted, the default abscissae
   span the contour's extent, and swap_axis is equivalent to exchanging the two coordinates. The
   underlying curve-intersection routine returns exactly the crossing points of two polylines in
   general position, each lying on both."

Clause → theorem   (model: `Model/Intersect.lean`; carrier: any ordered field)
  returned point lies on both segments / polylines        segInter_sound, intersect_sound
  the bounding-box prefilter never discards a crossing    bbox_prefilter_complete
  non-parallel segments that meet are reported            segInter_complete_general_position
  … and meet in one point only                            crossing_unique
  exactly the crossing points (general position)          intersect_exact_general_position,
                                                          intersect_length (number of reported points = number
                                                          of crossing segment pairs, under GeneralPosition;
                                                          intersect_length_unfold is the mere unfolding)
  parallel pairs are never reported                       segInter_parallel_none
  on the contour polygon, at the requested abscissa       design_on_contour
  largest ordinate among all intersections there          design_top_ordinate (reported intersections),
                                                          design_top_ordinate_geometric (every point of a
                                                          non-vertical edge at that abscissa),
                                                          design_conditions_top_ordinate (end to end)
  any number of crossings (section 4 #11)                 design_any_number_of_crossings (hypothesis: at least
                                                          one intersection), designStep_isSome_iff,
                                                          design_any_number_of_crossings_count (corollary);
                                                          COUNTER-MODEL theorems (about `designStepOld`, the code
                                                          before the repair, which the driver never runs):
                                                          design_old_agrees, assert_le_two_counterexample
  probe segment covers the contour (found here)           probe_covers, designSetup_probeCovers;
                                                          COUNTER-MODEL (`probeLimitsOld`, not run by the driver):
                                                          probeOld_counterexample, probeOld_design_counterexample
  the polygon worked on = contour closed with vertex 0    designSetup_closed (any carrier, incl. the Float run),
                                                          closePoly_zip, closePoly_map
  WHAT THE DRIVER EXECUTES (designCore at ℚ on the        design_core_top_ordinate_covered,
  doubles of the Float setup), only hypothesis the        design_core_omission_covered (iff),
  decidable flag `probeCovers` the driver prints and      design_core_reports_crossing_covered
  the harness requires on every non-flat contour
  non-crossing abscissae are omitted, crossing ones kept  design_conditions_omission (end to end, an iff: probe
                                                          ends are the ones computed from the contour),
                                                          design_conditions_reports_crossing (end to end),
                                                          design_on_nonvertical_edge;
                                                          building blocks with the probe ends `ylo`/`yhi` as free
                                                          hypotheses: design_omits_noncrossing,
                                                          design_reports_crossing; design_omits_outside,
                                                          design_abscissae_sublist
  default abscissae span the extent                       linspaceEnd_eq, linspaceEnd_span_all,
                                                          design_default_span_all (EVERY count incl. 0 and 1),
                                                          design_default_span (count n+2 only)
  swap_axis = exchanging the coordinates                  design_swap_equiv

The end-to-end theorems (`design_conditions_top_ordinate`, `design_conditions_omission`,
`design_conditions_reports_crossing`, `design_default_span_all`) assume `designSetup … = some S` over an
ordered FIELD: they describe the algorithm in exact arithmetic. The driver runs `designSetup` at Float only
and `designCore` at ℚ on the resulting doubles; for that executed object the applicable theorems are the
`design_core_*_covered` ones (hypothesis `probeCovers closed ylo yhi = true`, printed by the driver for the
same values, required by the harness) together with `designSetup_closed` (the Float `closed` is the closed
contour). `designSetup_probeCovers` shows that over a field the flag always holds, which is how the
end-to-end theorems are obtained from the `…_covered` ones. The abscissae of the Float run (`linspaceEnd`
in doubles) are compared with numpy bit for bit; `design_default_span_all` is about exact arithmetic only.

Hypotheses of the end-to-end theorems: `0 ≤ tenth` (the code's 0.1) and `hflat`: the contour has two
vertices with different ordinates. A contour whose vertices all share one ordinate has a probe segment
of length zero, every system is singular and nothing is reported; it is not a closed contour with an
interior, the harness counts such inputs (`design:flat_polygon_out_of_scope`) and evaluates no clause
on them.

What is *not* covered by a theorem: points of the contour on edges parallel to the probe line
(vertical edges at exactly the requested abscissa; their end points belong to the neighbouring
edges), that every default abscissa crosses the contour (observed only), and the rounding of the
doubles (the theorems are over an ordered field; the harness compares the Float execution of the
model with its Rat execution and with the real code).
-/
import VirVerif.Model.Intersect
import Mathlib.Algebra.Order.Field.Basic
import Mathlib.Data.List.Basic
import Mathlib.Tactic.Linarith
import Mathlib.Tactic.Ring
import Mathlib.Tactic.FieldSimp
import Mathlib.Tactic.LinearCombination
import Mathlib.Tactic.NormNum
import Mathlib.Tactic.Positivity
import Mathlib.Algebra.Order.Field.Rat

set_option linter.unusedSectionVars false

namespace VirVerif.C17
open VirVerif

variable {α : Type} [Field α] [LinearOrder α] [IsStrictOrderedRing α]

/-- the point `p` lies on the closed segment `s` -/
def OnSeg (s : Seg α) (p : α × α) : Prop :=
  ∃ t, 0 ≤ t ∧ t ≤ 1 ∧ p.1 = s.px + t * (s.qx - s.px) ∧ p.2 = s.py + t * (s.qy - s.py)

/-! ### segments -/

theorem between_mn_mx (a b t : α) (h0 : 0 ≤ t) (h1 : t ≤ 1) :
    mn a b ≤ a + t * (b - a) ∧ a + t * (b - a) ≤ mx a b := by
  unfold mn mx
  split_ifs with h
  · constructor <;> nlinarith
  · have h' : b ≤ a := le_of_lt (not_le.mp h)
    constructor <;> nlinarith

/-- what `segSolve` returns solves both parametric equations -/
theorem segSolve_spec (s1 s2 : Seg α) (r : Sol α) (h : segSolve s1 s2 = some r) :
    segDet s1 s2 ≠ 0 ∧
    r.x = s1.px + r.t1 * (s1.qx - s1.px) ∧ r.y = s1.py + r.t1 * (s1.qy - s1.py) ∧
    r.x = s2.px + r.t2 * (s2.qx - s2.px) ∧ r.y = s2.py + r.t2 * (s2.qy - s2.py) := by
  unfold segSolve at h
  simp only at h
  split_ifs at h with hd
  have hne : segDet s1 s2 ≠ 0 := by
    rcases hd with hd | hd
    · exact ne_of_lt hd
    · exact ne_of_gt hd
  have hr := Option.some.inj h
  subst hr
  refine ⟨hne, ?_, ?_, ?_, ?_⟩
  · simp only; ring
  · simp only; ring
  · simp only
    have : segDet s1 s2 = (s2.qx - s2.px) * (s1.qy - s1.py) - (s1.qx - s1.px) * (s2.qy - s2.py) := rfl
    field_simp
    rw [this]; ring
  · simp only
    have : segDet s1 s2 = (s2.qx - s2.px) * (s1.qy - s1.py) - (s1.qx - s1.px) * (s2.qy - s2.py) := rfl
    field_simp
    rw [this]; ring

omit [IsStrictOrderedRing α] in
theorem inRange_iff (r : Sol α) :
    inRange r = true ↔ 0 ≤ r.t1 ∧ 0 ≤ r.t2 ∧ r.t1 ≤ 1 ∧ r.t2 ≤ 1 := by
  unfold inRange
  simp [Bool.and_eq_true, and_assoc]

/-- **segInter_sound**: a reported point lies on both segments (it satisfies both parametric
equations with parameters in `[0,1]`). -/
theorem segInter_sound (s1 s2 : Seg α) (p : α × α) (h : segInter s1 s2 = some p) :
    OnSeg s1 p ∧ OnSeg s2 p := by
  unfold segInter at h
  split_ifs at h with hb
  cases hs : segSolve s1 s2 with
  | none => simp [hs] at h
  | some r =>
    simp only [hs] at h
    split_ifs at h with hr
    have hp := Option.some.inj h
    subst hp
    obtain ⟨_, e1, e2, e3, e4⟩ := segSolve_spec s1 s2 r hs
    obtain ⟨a1, a2, a3, a4⟩ := (inRange_iff r).mp hr
    exact ⟨⟨r.t1, a1, a3, e1, e2⟩, ⟨r.t2, a2, a4, e3, e4⟩⟩

/-- **bbox_prefilter_complete**: segments with a common point have overlapping bounding boxes, so
the prefilter never discards a crossing. -/
theorem bbox_prefilter_complete (s1 s2 : Seg α) (p : α × α) (h1 : OnSeg s1 p) (h2 : OnSeg s2 p) :
    bboxOverlap s1 s2 = true := by
  obtain ⟨t, t0, t1, ex, ey⟩ := h1
  obtain ⟨u, u0, u1, fx, fy⟩ := h2
  have ax := between_mn_mx s1.px s1.qx t t0 t1
  have ay := between_mn_mx s1.py s1.qy t t0 t1
  have bx := between_mn_mx s2.px s2.qx u u0 u1
  have bY := between_mn_mx s2.py s2.qy u u0 u1
  rw [← ex] at ax; rw [← ey] at ay; rw [← fx] at bx; rw [← fy] at bY
  unfold bboxOverlap
  simp only [Bool.and_eq_true, decide_eq_true_eq]
  exact ⟨⟨⟨le_trans ax.1 bx.2, le_trans bx.1 ax.2⟩, le_trans ay.1 bY.2⟩, le_trans bY.1 ay.2⟩

/-- **segInter_complete_general_position**: non-parallel segments with a common point are
reported, with exactly that point. -/
theorem segInter_complete_general_position (s1 s2 : Seg α) (p : α × α)
    (hdet : segDet s1 s2 ≠ 0) (h1 : OnSeg s1 p) (h2 : OnSeg s2 p) :
    segInter s1 s2 = some p := by
  have hb := bbox_prefilter_complete s1 s2 p h1 h2
  obtain ⟨t, t0, t1, ex, ey⟩ := h1
  obtain ⟨u, u0, u1, fx, fy⟩ := h2
  have hd : segDet s1 s2 < 0 ∨ 0 < segDet s1 s2 := lt_or_gt_of_ne hdet
  have hdef : segDet s1 s2 = (s2.qx - s2.px) * (s1.qy - s1.py) - (s1.qx - s1.px) * (s2.qy - s2.py) := rfl
  -- the two parametric equations
  have e1 : s1.px + t * (s1.qx - s1.px) = s2.px + u * (s2.qx - s2.px) := by rw [← ex, ← fx]
  have e2 : s1.py + t * (s1.qy - s1.py) = s2.py + u * (s2.qy - s2.py) := by rw [← ey, ← fy]
  have ht : ((s2.qx - s2.px) * (s2.py - s1.py) - (s2.qy - s2.py) * (s2.px - s1.px)) / segDet s1 s2 = t := by
    rw [div_eq_iff hdet, hdef]
    linear_combination (s2.qy - s2.py) * e1 - (s2.qx - s2.px) * e2
  have hu : ((s1.qx - s1.px) * (s2.py - s1.py) - (s1.qy - s1.py) * (s2.px - s1.px)) / segDet s1 s2 = u := by
    rw [div_eq_iff hdet, hdef]
    linear_combination (s1.qy - s1.py) * e1 - (s1.qx - s1.px) * e2
  unfold segInter
  rw [if_pos hb]
  unfold segSolve
  simp only
  rw [if_pos hd, ht, hu]
  have hin : inRange (⟨t, u, s1.px + (s1.qx - s1.px) * t, s1.py + (s1.qy - s1.py) * t⟩ : Sol α) = true :=
    (inRange_iff _).mpr ⟨t0, u0, t1, u1⟩
  simp only [hin, if_true]
  congr 1
  ext
  · simp only; rw [ex]; ring
  · simp only; rw [ey]; ring

/-- non-parallel segments meet in at most one point -/
theorem crossing_unique (s1 s2 : Seg α) (p q : α × α) (hdet : segDet s1 s2 ≠ 0)
    (hp1 : OnSeg s1 p) (hp2 : OnSeg s2 p) (hq1 : OnSeg s1 q) (hq2 : OnSeg s2 q) : p = q := by
  have a := segInter_complete_general_position s1 s2 p hdet hp1 hp2
  have b := segInter_complete_general_position s1 s2 q hdet hq1 hq2
  rw [a] at b
  exact Option.some.inj b

omit [IsStrictOrderedRing α] in
/-- parallel segments (zero determinant: `np.linalg.LinAlgError`) are never reported -/
theorem segInter_parallel_none (s1 s2 : Seg α) (hdet : segDet s1 s2 = 0) :
    segInter s1 s2 = none := by
  unfold segInter
  split_ifs
  · have : segSolve s1 s2 = none := by
      unfold segSolve
      simp only
      rw [if_neg]
      rw [hdet]; simp
    rw [this]
  · rfl

/-! ### polylines -/

omit [IsStrictOrderedRing α] in
theorem intersect_mem_iff (P1 P2 : List (α × α)) (p : α × α) :
    p ∈ intersect P1 P2 ↔ ∃ s1 ∈ segs P1, ∃ s2 ∈ segs P2, segInter s1 s2 = some p := by
  unfold intersect
  simp only [List.mem_flatMap, List.mem_filterMap]

/-- **intersect_sound**: every reported point lies on a segment of each polyline. -/
theorem intersect_sound (P1 P2 : List (α × α)) (p : α × α) (h : p ∈ intersect P1 P2) :
    ∃ s1 ∈ segs P1, ∃ s2 ∈ segs P2, OnSeg s1 p ∧ OnSeg s2 p := by
  obtain ⟨s1, h1, s2, h2, hs⟩ := (intersect_mem_iff P1 P2 p).mp h
  exact ⟨s1, h1, s2, h2, segInter_sound s1 s2 p hs⟩

/-- two polylines are in general position when no two of their segments are parallel and touch
(no collinear overlap, no parallel segment through an end point) -/
def GeneralPosition (P1 P2 : List (α × α)) : Prop :=
  ∀ s1 ∈ segs P1, ∀ s2 ∈ segs P2, segDet s1 s2 = 0 → ¬ ∃ p, OnSeg s1 p ∧ OnSeg s2 p

/-- **intersect_exact_general_position**: for polylines in general position the reported points are
exactly the common points of a segment of the first and a segment of the second polyline. -/
theorem intersect_exact_general_position (P1 P2 : List (α × α)) (hgp : GeneralPosition P1 P2)
    (p : α × α) :
    p ∈ intersect P1 P2 ↔ ∃ s1 ∈ segs P1, ∃ s2 ∈ segs P2, OnSeg s1 p ∧ OnSeg s2 p := by
  constructor
  · exact intersect_sound P1 P2 p
  · rintro ⟨s1, h1, s2, h2, o1, o2⟩
    have hdet : segDet s1 s2 ≠ 0 := fun h0 => hgp s1 h1 s2 h2 h0 ⟨p, o1, o2⟩
    exact (intersect_mem_iff P1 P2 p).mpr
      ⟨s1, h1, s2, h2, segInter_complete_general_position s1 s2 p hdet o1 o2⟩

omit [IsStrictOrderedRing α] in
/-- (unfolding only: `length_flatMap` + `length_filterMap_eq_countP`, true for any function in place
of `segInter`) the number of reported points is the number of segment pairs for which `segInter`
reports one (row-major order, one point per pair).  The geometric statement is `intersect_length`. -/
theorem intersect_length_unfold (P1 P2 : List (α × α)) :
    (intersect P1 P2).length =
      ((segs P1).map fun s1 => (segs P2).countP fun s2 => (segInter s1 s2).isSome).sum := by
  unfold intersect
  rw [List.length_flatMap]
  congr 1
  apply List.map_congr_left
  intro s1 _
  rw [List.length_filterMap_eq_countP]

/-- in general position a pair of segments contributes a point iff the segments meet -/
theorem segInter_isSome_iff (s1 s2 : Seg α)
    (hgp : segDet s1 s2 = 0 → ¬ ∃ p, OnSeg s1 p ∧ OnSeg s2 p) :
    (segInter s1 s2).isSome = true ↔ ∃ p, OnSeg s1 p ∧ OnSeg s2 p := by
  constructor
  · intro h
    obtain ⟨p, hp⟩ := Option.isSome_iff_exists.mp h
    exact ⟨p, segInter_sound s1 s2 p hp⟩
  · rintro ⟨p, o1, o2⟩
    have hdet : segDet s1 s2 ≠ 0 := fun h0 => hgp h0 ⟨p, o1, o2⟩
    rw [segInter_complete_general_position s1 s2 p hdet o1 o2]
    rfl

open Classical in
/-- **intersect_length**: for polylines in general position the number of reported points is the
number of *crossing segment pairs*: pairs `(s1, s2)` (row-major) that have a common point. -/
theorem intersect_length (P1 P2 : List (α × α)) (hgp : GeneralPosition P1 P2) :
    (intersect P1 P2).length =
      ((segs P1).map fun s1 => (segs P2).countP fun s2 =>
        decide (∃ p, OnSeg s1 p ∧ OnSeg s2 p)).sum := by
  rw [intersect_length_unfold]
  congr 1
  apply List.map_congr_left
  intro s1 h1
  apply List.countP_congr
  intro s2 h2
  rw [segInter_isSome_iff s1 s2 (hgp s1 h1 s2 h2), decide_eq_true_eq]

/-! ### `np.max` / `np.min` -/

omit [Field α] [IsStrictOrderedRing α] in
theorem foldl_max_spec (xs : List α) (x : α) :
    ((xs.foldl (fun m y => if m < y then y else m) x = x) ∨
      (xs.foldl (fun m y => if m < y then y else m) x ∈ xs)) ∧
    x ≤ xs.foldl (fun m y => if m < y then y else m) x ∧
    ∀ y ∈ xs, y ≤ xs.foldl (fun m y => if m < y then y else m) x := by
  induction xs generalizing x with
  | nil => simp
  | cons a as ih =>
    simp only [List.foldl_cons]
    obtain ⟨h1, h2, h3⟩ := ih (if x < a then a else x)
    have hx : x ≤ (if x < a then a else x) := by split_ifs with h; exact le_of_lt h; exact le_refl x
    have ha : a ≤ (if x < a then a else x) := by split_ifs with h; exact le_refl a; exact not_lt.mp h
    refine ⟨?_, le_trans hx h2, ?_⟩
    · rcases h1 with h1 | h1
      · by_cases h : x < a
        · right; rw [h1, if_pos h]; exact List.mem_cons_self
        · left; rw [h1, if_neg h]
      · right; exact List.mem_cons_of_mem _ h1
    · intro y hy
      rcases List.mem_cons.mp hy with rfl | hy
      · exact le_trans ha h2
      · exact h3 y hy

omit [Field α] [IsStrictOrderedRing α] in
theorem foldl_min_spec (xs : List α) (x : α) :
    ((xs.foldl (fun m y => if y < m then y else m) x = x) ∨
      (xs.foldl (fun m y => if y < m then y else m) x ∈ xs)) ∧
    xs.foldl (fun m y => if y < m then y else m) x ≤ x ∧
    ∀ y ∈ xs, xs.foldl (fun m y => if y < m then y else m) x ≤ y := by
  induction xs generalizing x with
  | nil => simp
  | cons a as ih =>
    simp only [List.foldl_cons]
    obtain ⟨h1, h2, h3⟩ := ih (if a < x then a else x)
    have hx : (if a < x then a else x) ≤ x := by split_ifs with h; exact le_of_lt h; exact le_refl x
    have ha : (if a < x then a else x) ≤ a := by split_ifs with h; exact le_refl a; exact not_lt.mp h
    refine ⟨?_, le_trans h2 hx, ?_⟩
    · rcases h1 with h1 | h1
      · by_cases h : a < x
        · right; rw [h1, if_pos h]; exact List.mem_cons_self
        · left; rw [h1, if_neg h]
      · right; exact List.mem_cons_of_mem _ h1
    · intro y hy
      rcases List.mem_cons.mp hy with rfl | hy
      · exact le_trans h2 ha
      · exact h3 y hy

omit [Field α] [IsStrictOrderedRing α] in
theorem listMax_spec (l : List α) (m : α) (h : listMax l = some m) : m ∈ l ∧ ∀ y ∈ l, y ≤ m := by
  cases l with
  | nil => simp [listMax] at h
  | cons x xs =>
    simp only [listMax, Option.some.injEq] at h
    obtain ⟨h1, h2, h3⟩ := foldl_max_spec xs x
    rw [h] at h1 h2 h3
    refine ⟨?_, ?_⟩
    · rcases h1 with h1 | h1
      · rw [h1]; exact List.mem_cons_self
      · exact List.mem_cons_of_mem _ h1
    · intro y hy
      rcases List.mem_cons.mp hy with rfl | hy
      · exact h2
      · exact h3 y hy

omit [Field α] [IsStrictOrderedRing α] in
theorem listMin_spec (l : List α) (m : α) (h : listMin l = some m) : m ∈ l ∧ ∀ y ∈ l, m ≤ y := by
  cases l with
  | nil => simp [listMin] at h
  | cons x xs =>
    simp only [listMin, Option.some.injEq] at h
    obtain ⟨h1, h2, h3⟩ := foldl_min_spec xs x
    rw [h] at h1 h2 h3
    refine ⟨?_, ?_⟩
    · rcases h1 with h1 | h1
      · rw [h1]; exact List.mem_cons_self
      · exact List.mem_cons_of_mem _ h1
    · intro y hy
      rcases List.mem_cons.mp hy with rfl | hy
      · exact h2
      · exact h3 y hy

omit [Field α] [IsStrictOrderedRing α] in
theorem listMax_eq_none (l : List α) : listMax l = none ↔ l = [] := by
  cases l <;> simp [listMax]

/-! ### the vertical probe segment -/

omit [IsStrictOrderedRing α] in
theorem segs_probe (x2 ylo yhi : α) : segs [(x2, ylo), (x2, yhi)] = [⟨x2, ylo, x2, yhi⟩] := rfl

omit [LinearOrder α] [IsStrictOrderedRing α] in
theorem segDet_probe (s : Seg α) (x2 ylo yhi : α) :
    segDet s ⟨x2, ylo, x2, yhi⟩ = -((s.qx - s.px) * (yhi - ylo)) := by
  unfold segDet; simp only; ring

theorem onProbe_fst (x2 ylo yhi : α) (p : α × α) (h : OnSeg ⟨x2, ylo, x2, yhi⟩ p) : p.1 = x2 := by
  obtain ⟨t, _, _, ex, _⟩ := h
  simp only at ex
  rw [ex]; ring

theorem onProbe_of (x2 ylo yhi y : α) (hlt : ylo < yhi) (h1 : ylo ≤ y) (h2 : y ≤ yhi) :
    OnSeg ⟨x2, ylo, x2, yhi⟩ (x2, y) := by
  have hpos : 0 < yhi - ylo := sub_pos.mpr hlt
  refine ⟨(y - ylo) / (yhi - ylo), div_nonneg (sub_nonneg.mpr h1) (le_of_lt hpos), ?_, ?_, ?_⟩
  · rw [div_le_one hpos]; linarith
  · simp only; ring
  · simp only
    field_simp
    ring

/-! ### one abscissa -/

theorem designStep_eq_some (closed : List (α × α)) (ylo yhi x2 : α) (q : α × α) :
    designStep closed ylo yhi x2 = some q ↔
      q.1 = x2 ∧ (∃ p ∈ intersect closed [(x2, ylo), (x2, yhi)], p.2 = q.2) ∧
      ∀ p ∈ intersect closed [(x2, ylo), (x2, yhi)], p.2 ≤ q.2 := by
  unfold designStep
  cases hm : listMax ((intersect closed [(x2, ylo), (x2, yhi)]).map Prod.snd) with
  | none =>
    simp only [reduceCtorEq, false_iff]
    rintro ⟨_, ⟨p, hp, _⟩, _⟩
    rw [listMax_eq_none, List.map_eq_nil_iff] at hm
    rw [hm] at hp
    exact absurd hp List.not_mem_nil
  | some m =>
    obtain ⟨hmem, hle⟩ := listMax_spec _ m hm
    simp only [Option.some.injEq]
    constructor
    · intro h
      subst h
      refine ⟨rfl, ?_, ?_⟩
      · obtain ⟨p, hp, hpm⟩ := List.mem_map.mp hmem
        exact ⟨p, hp, hpm⟩
      · intro p hp
        exact hle p.2 (List.mem_map.mpr ⟨p, hp, rfl⟩)
    · rintro ⟨h1, ⟨p, hp, hpq⟩, h3⟩
      have hq : q.2 ∈ (intersect closed [(x2, ylo), (x2, yhi)]).map Prod.snd :=
        List.mem_map.mpr ⟨p, hp, hpq⟩
      have a := hle q.2 hq
      obtain ⟨p', hp', hpm⟩ := List.mem_map.mp hmem
      have b := h3 p' hp'
      rw [hpm] at b
      have : m = q.2 := le_antisymm b a
      ext
      · simp only; exact h1.symm
      · simp only; exact this

omit [IsStrictOrderedRing α] in
theorem designStep_eq_none (closed : List (α × α)) (ylo yhi x2 : α) :
    designStep closed ylo yhi x2 = none ↔ intersect closed [(x2, ylo), (x2, yhi)] = [] := by
  unfold designStep
  cases hm : listMax ((intersect closed [(x2, ylo), (x2, yhi)]).map Prod.snd) with
  | none =>
    rw [listMax_eq_none, List.map_eq_nil_iff] at hm
    simp [hm]
  | some m =>
    simp only [reduceCtorEq, false_iff]
    intro h
    rw [h] at hm
    simp [listMax] at hm

omit [IsStrictOrderedRing α] in
theorem design_mem (closed : List (α × α)) (ylo yhi : α) (steps : List α) (q : α × α) :
    q ∈ designCore closed ylo yhi steps ↔ ∃ x2 ∈ steps, designStep closed ylo yhi x2 = some q := by
  unfold designCore
  simp only [List.mem_filterMap]

/-- a point of a non-vertical edge at abscissa `x2`, within the probe's ordinate range, is one of
the reported intersections -/
theorem crossing_mem_intersect (closed : List (α × α)) (ylo yhi x2 y' : α) (hlt : ylo < yhi)
    (s : Seg α) (hs : s ∈ segs closed) (hnv : s.px ≠ s.qx) (hon : OnSeg s (x2, y'))
    (h1 : ylo ≤ y') (h2 : y' ≤ yhi) :
    (x2, y') ∈ intersect closed [(x2, ylo), (x2, yhi)] := by
  rw [intersect_mem_iff]
  refine ⟨s, hs, ⟨x2, ylo, x2, yhi⟩, by rw [segs_probe]; exact List.mem_singleton.mpr rfl, ?_⟩
  apply segInter_complete_general_position _ _ _ _ hon (onProbe_of x2 ylo yhi y' hlt h1 h2)
  rw [segDet_probe]
  have a : s.qx - s.px ≠ 0 := sub_ne_zero.mpr (Ne.symm hnv)
  have b : yhi - ylo ≠ 0 := ne_of_gt (sub_pos.mpr hlt)
  exact neg_ne_zero.mpr (mul_ne_zero a b)

/-! ### the design conditions -/

/-- **design_on_contour**: every returned design condition has a requested abscissa and lies on an
edge of the closed polygon (and on the probe segment). -/
theorem design_on_contour (closed : List (α × α)) (ylo yhi : α) (steps : List α) (q : α × α)
    (h : q ∈ designCore closed ylo yhi steps) :
    q.1 ∈ steps ∧ ∃ s ∈ segs closed, OnSeg s q := by
  obtain ⟨x2, hx2, hq⟩ := (design_mem closed ylo yhi steps q).mp h
  obtain ⟨h1, ⟨p, hp, hpq⟩, _⟩ := (designStep_eq_some closed ylo yhi x2 q).mp hq
  obtain ⟨s1, hs1, s2, hs2, o1, o2⟩ := intersect_sound _ _ p hp
  rw [segs_probe, List.mem_singleton] at hs2
  subst hs2
  have hp1 : p.1 = x2 := onProbe_fst x2 ylo yhi p o2
  have hpq' : p = q := by
    ext
    · rw [hp1, h1]
    · exact hpq
  rw [h1]
  exact ⟨hx2, s1, hs1, hpq' ▸ o1⟩

/-- **design_top_ordinate**: a returned design condition carries the largest ordinate among all
intersections reported at its abscissa (any number of them). -/
theorem design_top_ordinate (closed : List (α × α)) (ylo yhi : α) (steps : List α) (q : α × α)
    (h : q ∈ designCore closed ylo yhi steps) :
    (∃ p ∈ intersect closed [(q.1, ylo), (q.1, yhi)], p.2 = q.2) ∧
    ∀ p ∈ intersect closed [(q.1, ylo), (q.1, yhi)], p.2 ≤ q.2 := by
  obtain ⟨x2, _, hq⟩ := (design_mem closed ylo yhi steps q).mp h
  obtain ⟨h1, h2, h3⟩ := (designStep_eq_some closed ylo yhi x2 q).mp hq
  rw [h1]
  exact ⟨h2, h3⟩

/-- **design_top_ordinate_geometric**: no point of a non-vertical edge of the closed polygon at that
abscissa (within the probe's ordinate range `[ylo, yhi]`, see `probe_covers`) lies above a returned
design condition. -/
theorem design_top_ordinate_geometric (closed : List (α × α)) (ylo yhi : α) (steps : List α)
    (q : α × α) (h : q ∈ designCore closed ylo yhi steps) (hlt : ylo < yhi)
    (s : Seg α) (hs : s ∈ segs closed) (hnv : s.px ≠ s.qx) (y' : α) (hon : OnSeg s (q.1, y'))
    (h1 : ylo ≤ y') (h2 : y' ≤ yhi) : y' ≤ q.2 := by
  obtain ⟨_, htop⟩ := design_top_ordinate closed ylo yhi steps q h
  exact htop (q.1, y') (crossing_mem_intersect closed ylo yhi q.1 y' hlt s hs hnv hon h1 h2)

/-- **design_any_number_of_crossings**: as soon as the probe has at least one intersection with the
closed polygon - whatever their number (star-shaped contours, probe through a vertex) - the abscissa
is kept and carries the maximum of their ordinates.  (The hypothesis is `≠ []`; no bound on the
number of intersections occurs anywhere, which is the content of section 4 #11; the version indexed
by the count `n + 1` is the corollary `design_any_number_of_crossings_count`.) -/
theorem design_any_number_of_crossings (closed : List (α × α)) (ylo yhi x2 : α)
    (hn : intersect closed [(x2, ylo), (x2, yhi)] ≠ []) :
    ∃ y, designStep closed ylo yhi x2 = some (x2, y) ∧
      (∃ p ∈ intersect closed [(x2, ylo), (x2, yhi)], p.2 = y) ∧
      ∀ p ∈ intersect closed [(x2, ylo), (x2, yhi)], p.2 ≤ y := by
  cases hd : designStep closed ylo yhi x2 with
  | none =>
    rw [designStep_eq_none] at hd
    exact absurd hd hn
  | some q =>
    obtain ⟨h1, h2, h3⟩ := (designStep_eq_some closed ylo yhi x2 q).mp hd
    refine ⟨q.2, ?_, h2, h3⟩
    congr 1
    ext
    · exact h1
    · rfl

/-- corollary of `design_any_number_of_crossings`, indexed by the number `n + 1` of intersections
(`n` occurs only in the hypothesis: the statement is the same for every `n`) -/
theorem design_any_number_of_crossings_count (closed : List (α × α)) (ylo yhi x2 : α) (n : Nat)
    (hn : (intersect closed [(x2, ylo), (x2, yhi)]).length = n + 1) :
    ∃ y, designStep closed ylo yhi x2 = some (x2, y) ∧
      (∃ p ∈ intersect closed [(x2, ylo), (x2, yhi)], p.2 = y) ∧
      ∀ p ∈ intersect closed [(x2, ylo), (x2, yhi)], p.2 ≤ y := by
  apply design_any_number_of_crossings
  intro h0
  rw [h0] at hn
  simp at hn

/-- the abscissa is kept iff the probe has at least one reported intersection -/
theorem designStep_isSome_iff (closed : List (α × α)) (ylo yhi x2 : α) :
    (designStep closed ylo yhi x2).isSome = true ↔ intersect closed [(x2, ylo), (x2, yhi)] ≠ [] := by
  rw [Ne, ← designStep_eq_none]
  cases designStep closed ylo yhi x2 <;> simp

omit [IsStrictOrderedRing α] in
/-- the repair is conservative: where the old code (with `assert len(x) <= 2`) returned, the
present code returns the same -/
theorem design_old_agrees (closed : List (α × α)) (ylo yhi x2 : α) (r : Option (α × α))
    (h : designStepOld closed ylo yhi x2 = .ok r) : designStep closed ylo yhi x2 = r := by
  unfold designStepOld at h
  simp only at h
  split_ifs at h
  unfold designStep
  injection h

/-- **design_omits_noncrossing**: if a requested abscissa is absent from the result then no
non-vertical edge of the closed polygon has a point there (within the probe's range). -/
theorem design_omits_noncrossing (closed : List (α × α)) (ylo yhi : α) (steps : List α) (x2 : α)
    (hx : x2 ∈ steps) (hlt : ylo < yhi) (hom : ∀ y, (x2, y) ∉ designCore closed ylo yhi steps)
    (s : Seg α) (hs : s ∈ segs closed) (hnv : s.px ≠ s.qx) (y' : α) (h1 : ylo ≤ y') (h2 : y' ≤ yhi) :
    ¬ OnSeg s (x2, y') := by
  intro hon
  have hmem := crossing_mem_intersect closed ylo yhi x2 y' hlt s hs hnv hon h1 h2
  cases hd : designStep closed ylo yhi x2 with
  | none =>
    rw [designStep_eq_none] at hd
    rw [hd] at hmem
    exact absurd hmem List.not_mem_nil
  | some q =>
    obtain ⟨hq1, _, _⟩ := (designStep_eq_some closed ylo yhi x2 q).mp hd
    apply hom q.2
    rw [design_mem]
    refine ⟨x2, hx, ?_⟩
    rw [hd]
    congr 1
    ext
    · exact hq1
    · rfl

/-- **design_reports_crossing**: a requested abscissa at which a non-vertical edge has a point is
kept. -/
theorem design_reports_crossing (closed : List (α × α)) (ylo yhi : α) (steps : List α) (x2 : α)
    (hx : x2 ∈ steps) (hlt : ylo < yhi)
    (s : Seg α) (hs : s ∈ segs closed) (hnv : s.px ≠ s.qx) (y' : α) (h1 : ylo ≤ y') (h2 : y' ≤ yhi)
    (hon : OnSeg s (x2, y')) : ∃ y, (x2, y) ∈ designCore closed ylo yhi steps := by
  by_contra hne
  have hom : ∀ y, (x2, y) ∉ designCore closed ylo yhi steps := fun y hy => hne ⟨y, hy⟩
  exact design_omits_noncrossing closed ylo yhi steps x2 hx hlt hom s hs hnv y' h1 h2 hon

omit [IsStrictOrderedRing α] in
/-- the returned abscissae are the requested ones, in order, with the non-crossing ones left out -/
theorem design_abscissae_sublist (closed : List (α × α)) (ylo yhi : α) (steps : List α) :
    List.Sublist ((designCore closed ylo yhi steps).map Prod.fst) steps := by
  unfold designCore
  induction steps with
  | nil => simp
  | cons x xs ih =>
    rw [List.filterMap_cons]
    cases hd : designStep closed ylo yhi x with
    | none => exact List.Sublist.cons _ ih
    | some q =>
      simp only [List.map_cons]
      have : q.1 = x := by
        unfold designStep at hd
        split at hd
        · simp at hd
        · injection hd with hd; rw [← hd]
      rw [this]
      exact List.Sublist.cons_cons _ ih

/-! ### the probe covers the contour; abscissae outside the contour -/

theorem segs_mem : ∀ (P : List (α × α)) (s : Seg α), s ∈ segs P →
    (s.px, s.py) ∈ P ∧ (s.qx, s.qy) ∈ P
  | [], s, h => by simp [segs] at h
  | [_], s, h => by simp [segs] at h
  | p :: q :: rest, s, h => by
    rw [segs] at h
    rcases List.mem_cons.mp h with rfl | h
    · simp
    · obtain ⟨a, b⟩ := segs_mem (q :: rest) s h
      exact ⟨List.mem_cons_of_mem _ a, List.mem_cons_of_mem _ b⟩

/-- the ordinate of a point of an edge lies between bounds of the vertex ordinates -/
theorem onSeg_snd_bounds (P : List (α × α)) (lo hi : α) (hb : ∀ v ∈ P, lo ≤ v.2 ∧ v.2 ≤ hi)
    (s : Seg α) (hs : s ∈ segs P) (p : α × α) (hon : OnSeg s p) : lo ≤ p.2 ∧ p.2 ≤ hi := by
  obtain ⟨hp, hq⟩ := segs_mem P s hs
  have b1 := hb _ hp
  have b2 := hb _ hq
  simp only at b1 b2
  obtain ⟨t, t0, t1, _, ey⟩ := hon
  rw [ey]
  constructor <;> nlinarith

theorem onSeg_fst_bounds (P : List (α × α)) (lo hi : α) (hb : ∀ v ∈ P, lo ≤ v.1 ∧ v.1 ≤ hi)
    (s : Seg α) (hs : s ∈ segs P) (p : α × α) (hon : OnSeg s p) : lo ≤ p.1 ∧ p.1 ≤ hi := by
  obtain ⟨hp, hq⟩ := segs_mem P s hs
  have b1 := hb _ hp
  have b2 := hb _ hq
  simp only at b1 b2
  obtain ⟨t, t0, t1, ex, _⟩ := hon
  rw [ex]
  constructor <;> nlinarith

/-- **probe_covers**: with a non-negative margin factor the probe segment `[min y - m, max y + m]`,
`m = tenth * (max y - min y)`, contains every vertex ordinate, and it is non-degenerate as soon as
two ordinates differ. -/
theorem probe_covers (tenth : α) (ys : List α) (ylo yhi : α) (h : probeLimits tenth ys = some (ylo, yhi))
    (ht : 0 ≤ tenth) :
    (∀ y ∈ ys, ylo ≤ y ∧ y ≤ yhi) ∧ ((∃ a ∈ ys, ∃ b ∈ ys, a < b) → ylo < yhi) := by
  unfold probeLimits at h
  cases hmin : listMin ys with
  | none => simp [hmin] at h
  | some lo =>
    cases hmax : listMax ys with
    | none => simp [hmin, hmax] at h
    | some hi =>
      simp only [hmin, hmax, Option.some.injEq, Prod.mk.injEq] at h
      obtain ⟨h1, h2⟩ := h
      obtain ⟨lomem, lole⟩ := listMin_spec ys lo hmin
      obtain ⟨himem, hile⟩ := listMax_spec ys hi hmax
      have hlh : lo ≤ hi := lole hi himem
      have hm : 0 ≤ tenth * (hi - lo) := mul_nonneg ht (sub_nonneg.mpr hlh)
      subst h1 h2
      constructor
      · intro y hy
        have a := lole y hy
        have b := hile y hy
        constructor <;> linarith
      · rintro ⟨a, ha, b, hb, hab⟩
        have := lole a ha
        have := hile b hb
        linarith

/-- the code before the repair used the margin `0.1 * max y`; for a contour with negative ordinates
the probe segment is then shorter than the contour: the top vertex ordinate `-1` of the square
`[0,2] x [-3,-1]` is outside `[-29/10, -11/10]` -/
theorem probeOld_counterexample :
    ∃ (tenth : ℚ) (ys : List ℚ) (ylo yhi : ℚ), 0 ≤ tenth ∧
      probeLimitsOld tenth ys = some (ylo, yhi) ∧ ∃ y ∈ ys, ¬ (ylo ≤ y ∧ y ≤ yhi) := by
  refine ⟨1 / 10, [-3, -3, -1, -1, -3], -3 - (-1) * (1 / 10), -1 + (-1) * (1 / 10), by norm_num, ?_,
    -1, by simp, by norm_num⟩
  have hmin : listMin ([-3, -3, -1, -1, -3] : List ℚ) = some (-3) := by
    simp only [listMin, List.foldl_cons, List.foldl_nil]; norm_num
  have hmax : listMax ([-3, -3, -1, -1, -3] : List ℚ) = some (-1) := by
    simp only [listMax, List.foldl_cons, List.foldl_nil]; norm_num
  unfold probeLimitsOld
  rw [hmin, hmax]

/-- **design_omits_outside**: an abscissa to the right (or to the left) of every vertex is omitted. -/
theorem design_omits_outside (closed : List (α × α)) (ylo yhi : α) (steps : List α) (x2 : α)
    (hout : (∀ v ∈ closed, v.1 < x2) ∨ (∀ v ∈ closed, x2 < v.1)) (y : α) :
    (x2, y) ∉ designCore closed ylo yhi steps := by
  intro h
  obtain ⟨_, s, hs, hon⟩ := design_on_contour closed ylo yhi steps (x2, y) h
  obtain ⟨hp, hq⟩ := segs_mem closed s hs
  obtain ⟨t, t0, t1, ex, _⟩ := hon
  simp only at ex
  obtain ⟨c1, c2⟩ := between_mn_mx s.px s.qx t t0 t1
  rw [← ex] at c1 c2
  rcases hout with hout | hout
  · have a := hout _ hp
    have b := hout _ hq
    simp only at a b
    have : mx s.px s.qx < x2 := by unfold mx; split_ifs <;> assumption
    exact absurd c2 (not_le.mpr this)
  · have a := hout _ hp
    have b := hout _ hq
    simp only at a b
    have : x2 < mn s.px s.qx := by unfold mn; split_ifs <;> assumption
    exact absurd c1 (not_le.mpr this)

/-! ### `calculate_design_conditions` end to end -/

theorem closePoly_length {β γ δ : Type} (f : β → γ) (g : β → δ) (c : List β) :
    (closePoly (c.map f)).length = (closePoly (c.map g)).length := by
  cases c <;> simp [closePoly]

theorem designSetup_spec (tenth small : α) (ofNat : Nat → α) (coords : List (α × α))
    (spec : StepSpec α) (swap : Bool) (S : DesignSetup α)
    (h : designSetup tenth small ofNat coords spec swap = some S) :
    ∃ lo hi,
      defaultLimits small (closePoly (coords.map (if swap then Prod.snd else Prod.fst))) = some (lo, hi) ∧
      probeLimits tenth (closePoly (coords.map (if swap then Prod.fst else Prod.snd))) = some (S.ylo, S.yhi) ∧
      S.closed = (closePoly (coords.map (if swap then Prod.snd else Prod.fst))).zip
        (closePoly (coords.map (if swap then Prod.fst else Prod.snd))) ∧
      S.steps = (match spec with
        | .default => linspaceEnd ofNat lo hi 10
        | .count n => linspaceEnd ofNat lo hi n
        | .list l => l) := by
  cases spec <;>
  · unfold designSetup at h
    simp only at h
    split at h
    · rename_i lo hi ylo yhi hdl hpl
      have hS := Option.some.inj h
      subst hS
      exact ⟨lo, hi, hdl, hpl, rfl, rfl⟩
    · exact absurd h (by simp)

theorem closePoly_zip {β γ δ : Type} (f : β → γ) (g : β → δ) (c : List β) :
    (closePoly (c.map f)).zip (closePoly (c.map g)) = closePoly (c.map fun p => (f p, g p)) := by
  cases c with
  | nil => rfl
  | cons p ps =>
    simp only [List.map_cons, closePoly]
    rw [List.zip_append (by simp)]
    simp [List.zip_map']

theorem closePoly_map {β γ : Type} (f : β → γ) (c : List β) :
    closePoly (c.map f) = (closePoly c).map f := by
  cases c <;> simp [closePoly]

/-- **designSetup_closed**: the polygon the loop works on IS the contour's vertex list closed with
its first vertex (`np.append(c, c[0])`), with the two columns exchanged for `swap_axis`.  No
arithmetic is involved, so this is stated for ANY carrier with the model's operations - in
particular for the `Float` run of `designSetup` in the driver, whose `closed` (cast exactly to `ℚ`,
`closePoly_map`) is what `designCore` and the `…_covered` theorems are about. -/
theorem designSetup_closed {β : Type} [LE β] [LT β] [DecidableLE β] [DecidableLT β]
    [Add β] [Sub β] [Mul β] [Div β] [OfNat β 0] [OfNat β 1]
    (tenth small : β) (ofNat : Nat → β) (coords : List (β × β))
    (spec : StepSpec β) (swap : Bool) (S : DesignSetup β)
    (h : designSetup tenth small ofNat coords spec swap = some S) :
    S.closed = closePoly (coords.map fun p => if swap then (p.2, p.1) else p) := by
  have hz : S.closed = (closePoly (coords.map (if swap then Prod.snd else Prod.fst))).zip
        (closePoly (coords.map (if swap then Prod.fst else Prod.snd))) := by
    unfold designSetup at h
    simp only at h
    split at h
    · have hS := Option.some.inj h
      subst hS
      rfl
    · exact absurd h (by simp)
  rw [hz, closePoly_zip]
  congr 1
  apply List.map_congr_left
  intro p _
  cases swap <;> rfl

theorem designConditions_eq (tenth small : α) (ofNat : Nat → α) (coords : List (α × α))
    (spec : StepSpec α) (swap : Bool) (res : List (α × α)) :
    designConditions tenth small ofNat coords spec swap = some res ↔
      ∃ S, designSetup tenth small ofNat coords spec swap = some S ∧
        res = designCore S.closed S.ylo S.yhi S.steps := by
  unfold designConditions
  cases designSetup tenth small ofNat coords spec swap with
  | none => simp
  | some S => simp [eq_comm]

/-- **design_conditions_top_ordinate** (end to end): for a contour whose ordinates are not all
equal and a non-negative margin factor, every returned design condition `q` lies on an edge of the
closed polygon at a requested abscissa, and no point of any non-vertical edge at that abscissa lies
above it - for any number of crossings. -/
theorem design_conditions_top_ordinate (tenth small : α) (ofNat : Nat → α) (coords : List (α × α))
    (spec : StepSpec α) (swap : Bool) (S : DesignSetup α)
    (h : designSetup tenth small ofNat coords spec swap = some S) (ht : 0 ≤ tenth)
    (hflat : ∃ a ∈ S.closed, ∃ b ∈ S.closed, a.2 < b.2)
    (q : α × α) (hq : q ∈ designCore S.closed S.ylo S.yhi S.steps) :
    q.1 ∈ S.steps ∧ (∃ s ∈ segs S.closed, OnSeg s q) ∧
    ∀ s ∈ segs S.closed, s.px ≠ s.qx → ∀ y', OnSeg s (q.1, y') → y' ≤ q.2 := by
  obtain ⟨lo, hi, _, hpl, hcl, _⟩ := designSetup_spec tenth small ofNat coords spec swap S h
  have hsnd : S.closed.map Prod.snd = closePoly (coords.map (if swap then Prod.fst else Prod.snd)) := by
    rw [hcl]
    apply List.map_snd_zip
    exact le_of_eq (closePoly_length _ _ coords).symm
  obtain ⟨hcov, hnd⟩ := probe_covers tenth _ S.ylo S.yhi hpl ht
  have hb : ∀ v ∈ S.closed, S.ylo ≤ v.2 ∧ v.2 ≤ S.yhi := by
    intro v hv
    apply hcov
    rw [← hsnd]
    exact List.mem_map.mpr ⟨v, hv, rfl⟩
  have hlt : S.ylo < S.yhi := by
    apply hnd
    obtain ⟨a, ha, b, hb', hab⟩ := hflat
    rw [← hsnd]
    exact ⟨a.2, List.mem_map.mpr ⟨a, ha, rfl⟩, b.2, List.mem_map.mpr ⟨b, hb', rfl⟩, hab⟩
  obtain ⟨h1, h2⟩ := design_on_contour S.closed S.ylo S.yhi S.steps q hq
  refine ⟨h1, h2, ?_⟩
  intro s hs hnv y' hon
  obtain ⟨b1, b2⟩ := onSeg_snd_bounds S.closed S.ylo S.yhi hb s hs (q.1, y') hon
  exact design_top_ordinate_geometric S.closed S.ylo S.yhi S.steps q hq hlt s hs hnv y' hon b1 b2

/-- a pair of segments is only ever reported when it is not parallel -/
theorem segInter_some_det (s1 s2 : Seg α) (p : α × α) (h : segInter s1 s2 = some p) :
    segDet s1 s2 ≠ 0 := by
  unfold segInter at h
  split_ifs at h with hb
  cases hs : segSolve s1 s2 with
  | none => simp [hs] at h
  | some r => exact (segSolve_spec s1 s2 r hs).1

/-- every returned design condition lies on a *non-vertical* edge of the closed polygon (an edge
parallel to the probe line is never reported: its system is singular) -/
theorem design_on_nonvertical_edge (closed : List (α × α)) (ylo yhi : α) (steps : List α) (q : α × α)
    (h : q ∈ designCore closed ylo yhi steps) :
    ∃ s ∈ segs closed, s.px ≠ s.qx ∧ OnSeg s q := by
  obtain ⟨x2, _, hq⟩ := (design_mem closed ylo yhi steps q).mp h
  obtain ⟨h1, ⟨p, hp, hpq⟩, _⟩ := (designStep_eq_some closed ylo yhi x2 q).mp hq
  obtain ⟨s1, hs1, s2, hs2, hsi⟩ := (intersect_mem_iff _ _ p).mp hp
  rw [segs_probe, List.mem_singleton] at hs2
  subst hs2
  have hdet := segInter_some_det _ _ p hsi
  obtain ⟨o1, o2⟩ := segInter_sound _ _ p hsi
  have hp1 : p.1 = x2 := onProbe_fst x2 ylo yhi p o2
  have hpq' : p = q := by
    ext
    · rw [hp1, h1]
    · exact hpq
  refine ⟨s1, hs1, ?_, hpq' ▸ o1⟩
  intro heq
  apply hdet
  rw [segDet_probe, heq]
  ring

/-! ### what the driver executes: `designCore` under the decidable side condition `probeCovers`

The driver evaluates `designCore closed ylo yhi steps` at carrier `ℚ` on the doubles produced by the
Float run of `designSetup` (exactly cast), prints `probeCovers closed ylo yhi` for the same values,
and the harness requires that flag for every contour that is not flat.  The three theorems below
have `probeCovers … = true` as their only hypothesis, so they apply verbatim to the executed object
(no `designSetup … = some S` over the field, no `0 ≤ tenth`, no `hflat`). -/

omit [Field α] [IsStrictOrderedRing α] in
theorem probeCovers_iff (closed : List (α × α)) (ylo yhi : α) :
    probeCovers closed ylo yhi = true ↔ ylo < yhi ∧ ∀ v ∈ closed, ylo ≤ v.2 ∧ v.2 ≤ yhi := by
  unfold probeCovers
  simp [Bool.and_eq_true, List.all_eq_true]

/-- **design_core_top_ordinate_covered**: under `probeCovers`, every returned design condition `q`
has a requested abscissa, lies on a non-vertical edge of the closed polygon, and no point of any
non-vertical edge at that abscissa lies above it (any number of crossings). -/
theorem design_core_top_ordinate_covered (closed : List (α × α)) (ylo yhi : α) (steps : List α)
    (hc : probeCovers closed ylo yhi = true) (q : α × α) (hq : q ∈ designCore closed ylo yhi steps) :
    q.1 ∈ steps ∧ (∃ s ∈ segs closed, s.px ≠ s.qx ∧ OnSeg s q) ∧
    ∀ s ∈ segs closed, s.px ≠ s.qx → ∀ y', OnSeg s (q.1, y') → y' ≤ q.2 := by
  obtain ⟨hlt, hb⟩ := (probeCovers_iff closed ylo yhi).mp hc
  refine ⟨(design_on_contour closed ylo yhi steps q hq).1,
    design_on_nonvertical_edge closed ylo yhi steps q hq, ?_⟩
  intro s hs hnv y' hon
  obtain ⟨b1, b2⟩ := onSeg_snd_bounds closed ylo yhi hb s hs (q.1, y') hon
  exact design_top_ordinate_geometric closed ylo yhi steps q hq hlt s hs hnv y' hon b1 b2

/-- **design_core_omission_covered**: under `probeCovers`, a requested abscissa is absent from the
result **iff** no non-vertical edge of the closed polygon has a point there. -/
theorem design_core_omission_covered (closed : List (α × α)) (ylo yhi : α) (steps : List α)
    (hc : probeCovers closed ylo yhi = true) (x2 : α) (hx : x2 ∈ steps) :
    (∀ y, (x2, y) ∉ designCore closed ylo yhi steps) ↔
      ∀ s ∈ segs closed, s.px ≠ s.qx → ∀ y', ¬ OnSeg s (x2, y') := by
  obtain ⟨hlt, hb⟩ := (probeCovers_iff closed ylo yhi).mp hc
  constructor
  · intro hom s hs hnv y' hon
    obtain ⟨b1, b2⟩ := onSeg_snd_bounds closed ylo yhi hb s hs (x2, y') hon
    exact design_omits_noncrossing closed ylo yhi steps x2 hx hlt hom s hs hnv y' b1 b2 hon
  · intro hno y hy
    obtain ⟨s, hs, hnv, hon⟩ := design_on_nonvertical_edge closed ylo yhi steps (x2, y) hy
    exact hno s hs hnv y hon

/-- **design_core_reports_crossing_covered**: under `probeCovers`, a requested abscissa at which
some non-vertical edge has a point is kept. -/
theorem design_core_reports_crossing_covered (closed : List (α × α)) (ylo yhi : α) (steps : List α)
    (hc : probeCovers closed ylo yhi = true) (x2 : α) (hx : x2 ∈ steps)
    (s : Seg α) (hs : s ∈ segs closed) (hnv : s.px ≠ s.qx) (y' : α) (hon : OnSeg s (x2, y')) :
    ∃ y, (x2, y) ∈ designCore closed ylo yhi steps := by
  by_contra hne
  have hom : ∀ y, (x2, y) ∉ designCore closed ylo yhi steps := fun y hy => hne ⟨y, hy⟩
  exact (design_core_omission_covered closed ylo yhi steps hc x2 hx).mp hom s hs hnv y' hon

/-- **designSetup_probeCovers**: over an ordered field, `designSetup` always produces a covering
probe when the margin factor is non-negative and two ordinates differ - the link between the
`…_covered` theorems and the end-to-end ones (`design_conditions_*`). -/
theorem designSetup_probeCovers (tenth small : α) (ofNat : Nat → α) (coords : List (α × α))
    (spec : StepSpec α) (swap : Bool) (S : DesignSetup α)
    (h : designSetup tenth small ofNat coords spec swap = some S) (ht : 0 ≤ tenth)
    (hflat : ∃ a ∈ S.closed, ∃ b ∈ S.closed, a.2 < b.2) :
    probeCovers S.closed S.ylo S.yhi = true := by
  obtain ⟨lo, hi, _, hpl, hcl, _⟩ := designSetup_spec tenth small ofNat coords spec swap S h
  have hsnd : S.closed.map Prod.snd = closePoly (coords.map (if swap then Prod.fst else Prod.snd)) := by
    rw [hcl]
    apply List.map_snd_zip
    exact le_of_eq (closePoly_length _ _ coords).symm
  obtain ⟨hcov, hnd⟩ := probe_covers tenth _ S.ylo S.yhi hpl ht
  rw [probeCovers_iff]
  constructor
  · apply hnd
    obtain ⟨a, ha, b, hb', hab⟩ := hflat
    rw [← hsnd]
    exact ⟨a.2, List.mem_map.mpr ⟨a, ha, rfl⟩, b.2, List.mem_map.mpr ⟨b, hb', rfl⟩, hab⟩
  · intro v hv
    apply hcov
    rw [← hsnd]
    exact List.mem_map.mpr ⟨v, hv, rfl⟩

/-- **design_conditions_omission** (end to end, the omission clause composed with `probe_covers`
exactly as `design_conditions_top_ordinate` does for the top-ordinate clause): for a contour whose
ordinates are not all equal and a non-negative margin factor, a requested abscissa `x2` is absent
from the result **iff** no non-vertical edge of the closed polygon has a point at `x2`. No
hypothesis on the probe ends: `S.ylo`, `S.yhi` are what `designSetup` computes from the contour. -/
theorem design_conditions_omission (tenth small : α) (ofNat : Nat → α) (coords : List (α × α))
    (spec : StepSpec α) (swap : Bool) (S : DesignSetup α)
    (h : designSetup tenth small ofNat coords spec swap = some S) (ht : 0 ≤ tenth)
    (hflat : ∃ a ∈ S.closed, ∃ b ∈ S.closed, a.2 < b.2)
    (x2 : α) (hx : x2 ∈ S.steps) :
    (∀ y, (x2, y) ∉ designCore S.closed S.ylo S.yhi S.steps) ↔
      ∀ s ∈ segs S.closed, s.px ≠ s.qx → ∀ y', ¬ OnSeg s (x2, y') :=
  design_core_omission_covered S.closed S.ylo S.yhi S.steps
    (designSetup_probeCovers tenth small ofNat coords spec swap S h ht hflat) x2 hx

/-- **design_conditions_reports_crossing** (end to end): a requested abscissa at which some
non-vertical edge of the closed polygon has a point is kept. -/
theorem design_conditions_reports_crossing (tenth small : α) (ofNat : Nat → α) (coords : List (α × α))
    (spec : StepSpec α) (swap : Bool) (S : DesignSetup α)
    (h : designSetup tenth small ofNat coords spec swap = some S) (ht : 0 ≤ tenth)
    (hflat : ∃ a ∈ S.closed, ∃ b ∈ S.closed, a.2 < b.2)
    (x2 : α) (hx : x2 ∈ S.steps)
    (s : Seg α) (hs : s ∈ segs S.closed) (hnv : s.px ≠ s.qx) (y' : α) (hon : OnSeg s (x2, y')) :
    ∃ y, (x2, y) ∈ designCore S.closed S.ylo S.yhi S.steps := by
  by_contra hne
  have hom : ∀ y, (x2, y) ∉ designCore S.closed S.ylo S.yhi S.steps := fun y hy => hne ⟨y, hy⟩
  exact (design_conditions_omission tenth small ofNat coords spec swap S h ht hflat x2 hx).mp hom
    s hs hnv y' hon

/-- **design_swap_equiv**: `swap_axis=True` is the same as exchanging the two coordinate columns. -/
theorem design_swap_equiv (tenth small : α) (ofNat : Nat → α) (coords : List (α × α))
    (spec : StepSpec α) :
    designConditions tenth small ofNat (coords.map Prod.swap) spec false =
      designConditions tenth small ofNat coords spec true := by
  unfold designConditions designSetup
  simp only [List.map_map, Bool.false_eq_true, if_false, if_true]
  have h1 : (Prod.fst ∘ Prod.swap : α × α → α) = Prod.snd := by funext p; rfl
  have h2 : (Prod.snd ∘ Prod.swap : α × α → α) = Prod.fst := by funext p; rfl
  rw [h1, h2]

/-! ### default abscissae -/

/-- `np.linspace(a, b, n+2)` in exact arithmetic: `a + k (b-a)/(n+1)` for `k ≤ n`, then `b` -/
theorem linspaceEnd_eq (a b : α) (n : Nat) :
    linspaceEnd (fun k : Nat => (k : α)) a b (n + 2) =
      (List.range (n + 1)).map (fun k : Nat => a + (k : α) * ((b - a) / ((n : α) + 1))) ++ [b] := by
  unfold linspaceEnd
  simp only
  congr 1
  apply List.map_congr_left
  intro k _
  have hn : ((n + 1 : Nat) : α) = (n : α) + 1 := by push_cast; ring
  have hpos : (0 : α) < (n : α) + 1 := by positivity
  rw [hn]
  split_ifs with h
  · ring
  · have h0 : (b - a) / ((n : α) + 1) = 0 := by
      rcases not_or.mp h with ⟨h1, h2⟩
      exact le_antisymm (not_lt.mp h2) (not_lt.mp h1)
    have hd : b - a = 0 := by
      rcases div_eq_zero_iff.mp h0 with h' | h'
      · exact h'
      · exact absurd h' (ne_of_gt hpos)
    rw [hd]; simp

/-- the evenly spaced abscissae start at `a`, end at `b`, there are `n+2` of them and all lie in
`[a, b]` -/
theorem linspaceEnd_span (a b : α) (n : Nat) (hab : a ≤ b) :
    (linspaceEnd (fun k : Nat => (k : α)) a b (n + 2)).length = n + 2 ∧
    (linspaceEnd (fun k : Nat => (k : α)) a b (n + 2)).head? = some a ∧
    (linspaceEnd (fun k : Nat => (k : α)) a b (n + 2)).getLast? = some b ∧
    ∀ x ∈ linspaceEnd (fun k : Nat => (k : α)) a b (n + 2), a ≤ x ∧ x ≤ b := by
  rw [linspaceEnd_eq]
  have hpos : (0 : α) < (n : α) + 1 := by positivity
  refine ⟨by simp, ?_, by simp, ?_⟩
  · rw [List.range_succ_eq_map]
    simp
  · intro x hx
    rcases List.mem_append.mp hx with hx | hx
    · obtain ⟨k, hk, rfl⟩ := List.mem_map.mp hx
      have hk' : (k : α) ≤ (n : α) := by exact_mod_cast Nat.lt_succ_iff.mp (List.mem_range.mp hk)
      have hk0 : (0 : α) ≤ (k : α) := Nat.cast_nonneg k
      have hd : 0 ≤ (b - a) / ((n : α) + 1) := div_nonneg (sub_nonneg.mpr hab) (le_of_lt hpos)
      constructor
      · nlinarith
      · have : (k : α) * ((b - a) / ((n : α) + 1)) ≤ (n : α) * ((b - a) / ((n : α) + 1)) :=
          mul_le_mul_of_nonneg_right hk' hd
        have h2 : ((n : α) + 1) * ((b - a) / ((n : α) + 1)) = b - a := by field_simp
        nlinarith
    · rw [List.mem_singleton.mp hx]
      exact ⟨hab, le_refl b⟩

/-- **design_default_span**: for `steps=None` (10) or an int `n+2`, the abscissae are evenly spaced
from `xmin + s` to `xmax - s`, `s = small * (xmax - xmin)`; with `0 ≤ small ≤ 1/2` they all lie
within the contour's extent `[xmin, xmax]` and differ from its ends by `s` only. -/
theorem design_default_span (tenth small : α) (coords : List (α × α)) (swap : Bool) (n : Nat)
    (S : DesignSetup α) (spec : StepSpec α) (hspec : spec = .count (n + 2) ∨ (spec = .default ∧ n = 8))
    (h : designSetup tenth small (fun k : Nat => (k : α)) coords spec swap = some S)
    (hs0 : 0 ≤ small) (hs1 : small ≤ 1 / 2) :
    ∃ xmin xmax,
      listMin (closePoly (coords.map (if swap then Prod.snd else Prod.fst))) = some xmin ∧
      listMax (closePoly (coords.map (if swap then Prod.snd else Prod.fst))) = some xmax ∧
      S.steps.length = n + 2 ∧
      S.steps.head? = some (xmin + small * (xmax - xmin)) ∧
      S.steps.getLast? = some (xmax - small * (xmax - xmin)) ∧
      ∀ x ∈ S.steps, xmin ≤ x ∧ x ≤ xmax := by
  obtain ⟨lo, hi, hdl, _, _, hst⟩ := designSetup_spec tenth small _ coords spec swap S h
  have hsteps : S.steps = linspaceEnd (fun k : Nat => (k : α)) lo hi (n + 2) := by
    rcases hspec with rfl | ⟨rfl, rfl⟩
    · exact hst
    · exact hst
  unfold defaultLimits at hdl
  cases hmin : listMin (closePoly (coords.map (if swap then Prod.snd else Prod.fst))) with
  | none => simp [hmin] at hdl
  | some xmin =>
    cases hmax : listMax (closePoly (coords.map (if swap then Prod.snd else Prod.fst))) with
    | none => simp [hmin, hmax] at hdl
    | some xmax =>
      simp only [hmin, hmax, Option.some.injEq, Prod.mk.injEq] at hdl
      obtain ⟨e1, e2⟩ := hdl
      obtain ⟨_, lole⟩ := listMin_spec _ xmin hmin
      obtain ⟨himem, _⟩ := listMax_spec _ xmax hmax
      have hmm : xmin ≤ xmax := lole xmax himem
      have hd : 0 ≤ xmax - xmin := sub_nonneg.mpr hmm
      have hlohi : lo ≤ hi := by rw [← e1, ← e2]; nlinarith
      obtain ⟨l1, l2, l3, l4⟩ := linspaceEnd_span lo hi n hlohi
      refine ⟨xmin, xmax, rfl, rfl, ?_, ?_, ?_, ?_⟩
      · rw [hsteps]; exact l1
      · rw [hsteps, l2, ← e1]
      · rw [hsteps, l3, ← e2]
      · intro x hx
        rw [hsteps] at hx
        obtain ⟨a, b⟩ := l4 x hx
        have : 0 ≤ small * (xmax - xmin) := mul_nonneg hs0 hd
        constructor
        · rw [← e1] at a; linarith
        · rw [← e2] at b; linarith

/-- `np.linspace(a, b, n)` for EVERY count `n` (0: no abscissa, 1: `[a]`, `n ≥ 2`: from `a` to `b`):
there are exactly `n` abscissae, all in `[a, b]`; the first is `a` as soon as there is one, the
last is `b` as soon as there are two -/
theorem linspaceEnd_span_all (a b : α) (n : Nat) (hab : a ≤ b) :
    (linspaceEnd (fun k : Nat => (k : α)) a b n).length = n ∧
    (1 ≤ n → (linspaceEnd (fun k : Nat => (k : α)) a b n).head? = some a) ∧
    (2 ≤ n → (linspaceEnd (fun k : Nat => (k : α)) a b n).getLast? = some b) ∧
    ∀ x ∈ linspaceEnd (fun k : Nat => (k : α)) a b n, a ≤ x ∧ x ≤ b := by
  match n with
  | 0 => simp [linspaceEnd]
  | 1 =>
    refine ⟨by simp [linspaceEnd], fun _ => by simp [linspaceEnd], fun h => absurd h (by decide), ?_⟩
    intro x hx
    simp [linspaceEnd] at hx
    rw [hx]
    exact ⟨le_refl a, hab⟩
  | m + 2 =>
    obtain ⟨l1, l2, l3, l4⟩ := linspaceEnd_span a b m hab
    exact ⟨l1, fun _ => l2, fun _ => l3, l4⟩

/-- **design_default_span_all**: `design_default_span` for EVERY count (`steps=None` = 10, or any int
`n ≥ 0`, including 0 and 1): exactly `n` abscissae, all within the contour's extent `[xmin, xmax]`;
for `n ≥ 1` the first is `xmin + s`, for `n ≥ 2` the last is `xmax - s`, `s = small * (xmax - xmin)`
(`n = 1` gives the single abscissa `xmin + s`, as `np.linspace(lo, hi, 1) = [lo]`). -/
theorem design_default_span_all (tenth small : α) (coords : List (α × α)) (swap : Bool) (n : Nat)
    (S : DesignSetup α) (spec : StepSpec α) (hspec : spec = .count n ∨ (spec = .default ∧ n = 10))
    (h : designSetup tenth small (fun k : Nat => (k : α)) coords spec swap = some S)
    (hs0 : 0 ≤ small) (hs1 : small ≤ 1 / 2) :
    ∃ xmin xmax,
      listMin (closePoly (coords.map (if swap then Prod.snd else Prod.fst))) = some xmin ∧
      listMax (closePoly (coords.map (if swap then Prod.snd else Prod.fst))) = some xmax ∧
      S.steps.length = n ∧
      (1 ≤ n → S.steps.head? = some (xmin + small * (xmax - xmin))) ∧
      (2 ≤ n → S.steps.getLast? = some (xmax - small * (xmax - xmin))) ∧
      ∀ x ∈ S.steps, xmin ≤ x ∧ x ≤ xmax := by
  obtain ⟨lo, hi, hdl, _, _, hst⟩ := designSetup_spec tenth small _ coords spec swap S h
  have hsteps : S.steps = linspaceEnd (fun k : Nat => (k : α)) lo hi n := by
    rcases hspec with rfl | ⟨rfl, rfl⟩
    · exact hst
    · exact hst
  unfold defaultLimits at hdl
  cases hmin : listMin (closePoly (coords.map (if swap then Prod.snd else Prod.fst))) with
  | none => simp [hmin] at hdl
  | some xmin =>
    cases hmax : listMax (closePoly (coords.map (if swap then Prod.snd else Prod.fst))) with
    | none => simp [hmin, hmax] at hdl
    | some xmax =>
      simp only [hmin, hmax, Option.some.injEq, Prod.mk.injEq] at hdl
      obtain ⟨e1, e2⟩ := hdl
      obtain ⟨_, lole⟩ := listMin_spec _ xmin hmin
      obtain ⟨himem, _⟩ := listMax_spec _ xmax hmax
      have hmm : xmin ≤ xmax := lole xmax himem
      have hd : 0 ≤ xmax - xmin := sub_nonneg.mpr hmm
      have hlohi : lo ≤ hi := by rw [← e1, ← e2]; nlinarith
      obtain ⟨l1, l2, l3, l4⟩ := linspaceEnd_span_all lo hi n hlohi
      refine ⟨xmin, xmax, rfl, rfl, ?_, ?_, ?_, ?_⟩
      · rw [hsteps]; exact l1
      · intro hn; rw [hsteps, l2 hn, ← e1]
      · intro hn; rw [hsteps, l3 hn, ← e2]
      · intro x hx
        rw [hsteps] at hx
        obtain ⟨a, b⟩ := l4 x hx
        have : 0 ≤ small * (xmax - xmin) := mul_nonneg hs0 hd
        constructor
        · rw [← e1] at a; linarith
        · rw [← e2] at b; linarith

/-! ### the two defects of the code before the repair, as theorems about its model -/

/-- triangle `(0,0),(2,0),(1,1)`, closed -/
def tri : List (ℚ × ℚ) := [(0, 0), (2, 0), (1, 1), (0, 0)]

/-- square `[0,2] x [-3,-1]`, closed -/
def negSquare : List (ℚ × ℚ) := [(0, -3), (2, -3), (2, -1), (0, -1), (0, -3)]

/-- section 4 #11: a probe line through the apex of a triangle meets the closed polygon three times
(base, and the apex reported by both adjacent edges): the old code's `assert len(x) <= 2` fails,
the present code returns the apex. -/
theorem assert_le_two_counterexample :
    (intersect tri [(1, -1/10), (1, 11/10)]).length = 3 ∧
    designStepOld tri (-1/10) (11/10) 1 = .error () ∧
    designStep tri (-1/10) (11/10) 1 = some (1, 1) := by
  decide +kernel

/-- found by this check: with the old margin `0.1 * max y` the probe segment for the square
`[0,2] x [-3,-1]` is `[-29/10, -11/10]`; the abscissa `1/2` is omitted although the top edge passes
through `(1/2, -1)`. With the present margin it is reported. -/
theorem probeOld_design_counterexample :
    probeLimitsOld (1/10 : ℚ) (negSquare.map Prod.snd) = some (-29/10, -11/10) ∧
    designCore negSquare (-29/10) (-11/10) [1/2] = [] ∧
    (⟨2, -1, 0, -1⟩ : Seg ℚ) ∈ segs negSquare ∧
    probeLimits (1/10 : ℚ) (negSquare.map Prod.snd) = some (-32/10, -8/10) ∧
    designCore negSquare (-32/10) (-8/10) [1/2] = [(1/2, -1)] := by
  decide +kernel

/-! ### non-vacuity: the hypotheses of the theorems are met by concrete inputs -/

example : OnSeg (⟨0, 0, 2, 2⟩ : Seg ℚ) (1, 1) ∧ OnSeg (⟨0, 2, 2, 0⟩ : Seg ℚ) (1, 1) ∧
    segDet (⟨0, 0, 2, 2⟩ : Seg ℚ) ⟨0, 2, 2, 0⟩ ≠ 0 := by
  refine ⟨⟨1/2, by norm_num, by norm_num, by norm_num, by norm_num⟩,
    ⟨1/2, by norm_num, by norm_num, by norm_num, by norm_num⟩, by norm_num [segDet]⟩

/-- two polylines in general position with two crossings, reported in row-major order -/
example : intersect ([(0, 0), (2, 2), (4, 0)] : List (ℚ × ℚ)) [(0, 1), (4, 1)] = [(1, 1), (3, 1)] := by
  decide +kernel

example : GeneralPosition ([(0, 0), (2, 2), (4, 0)] : List (ℚ × ℚ)) [(0, 1), (4, 1)] := by
  intro s1 h1 s2 h2 hdet
  simp only [segs, List.mem_cons, List.not_mem_nil, or_false] at h1 h2
  rcases h1 with rfl | rfl <;> subst h2 <;> norm_num [segDet] at hdet

/-- the hypothesis of the `design_core_*_covered` theorems on the triangle (the flag the driver prints) -/
example : probeCovers tri (-1/10) (11/10) = true ∧ probeCovers tri (1/10) (11/10) = false ∧
    probeCovers tri (0 : ℚ) 0 = false := by
  decide +kernel

/-- end to end on the triangle: abscissa through the apex (three intersections), an ordinary one,
and one outside (omitted); `swap_axis`; default abscissae -/
example : designConditions (1/10 : ℚ) (1/10000) (fun k : Nat => (k : ℚ)) [(0, 0), (2, 0), (1, 1)]
    (.list [1, 1/2, 3]) false = some [(1, 1), (1/2, 1/2)] := by
  decide +kernel

example : designConditions (1/10 : ℚ) (1/10000) (fun k : Nat => (k : ℚ)) [(0, 0), (0, 2), (1, 1)]
    (.list [1, 1/2, 3]) true = some [(1, 1), (1/2, 1/2)] := by
  decide +kernel

example : designConditions (1/10 : ℚ) (1/10000) (fun k : Nat => (k : ℚ)) [(0, 0), (2, 0), (1, 1)]
    (.count 3) false = some [(1/5000, 1/5000), (1, 1), (9999/5000, 1/5000)] := by
  decide +kernel

example : ∃ S, designSetup (1/10 : ℚ) (1/10000) (fun k : Nat => (k : ℚ)) [(0, 0), (2, 0), (1, 1)]
    (.count 3) false = some S ∧ (∃ a ∈ S.closed, ∃ b ∈ S.closed, a.2 < b.2) ∧ S.ylo < S.yhi := by
  refine ⟨⟨tri, [1/5000, 1, 9999/5000], -1/10, 11/10⟩, by decide +kernel, ?_, by norm_num⟩
  exact ⟨(0, 0), by simp [tri], (1, 1), by simp [tri], by norm_num⟩

/-- counts 0 and 1 (`design_default_span_all`): no abscissa; the single abscissa `xmin + s` -/
example : designConditions (1/10 : ℚ) (1/10000) (fun k : Nat => (k : ℚ)) [(0, 0), (2, 0), (1, 1)]
    (.count 0) false = some [] ∧
    designConditions (1/10 : ℚ) (1/10000) (fun k : Nat => (k : ℚ)) [(0, 0), (2, 0), (1, 1)]
    (.count 1) false = some [(1/5000, 1/5000)] := by
  decide +kernel

/-- omission end to end (`design_conditions_omission`): abscissa 3 is requested, no edge of the
triangle has a point there, and it is absent; abscissa 1/2 is crossed and kept -/
example : ∃ S, designSetup (1/10 : ℚ) (1/10000) (fun k : Nat => (k : ℚ)) [(0, 0), (2, 0), (1, 1)]
    (.list [1/2, 3]) false = some S ∧ (3 : ℚ) ∈ S.steps ∧
    designCore S.closed S.ylo S.yhi S.steps = [(1/2, 1/2)] := by
  refine ⟨⟨tri, [1/2, 3], -1/10, 11/10⟩, by decide +kernel, by simp, by decide +kernel⟩

end VirVerif.C17
