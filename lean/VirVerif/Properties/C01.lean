/-
C01 — IFORM/ISORM contours are the inverse-Rosenblatt image of the beta-sphere.

  "For every hierarchical joint model (any number of variables and any admissible dependence
   structure) and every exceedance probability alpha in (0,1), each point of an IFORM or ISORM
   contour, mapped back through the model's own marginal/conditional cumulative distribution
   functions into standard-normal space, lies at distance beta from the origin, where
   beta = Phi^-1(1-alpha) for IFORM and beta = sqrt(chi2_n^-1(1-alpha)) for ISORM (n variables).
   The contour has exactly n_points points whose standard-normal images are distinct directions
   (for two variables: equally spaced angles starting on the positive first axis), so the
   largest first-variable value on a 2-D IFORM contour is exactly that variable's marginal
   (1-alpha)-quantile."

The model (`Model/Hier.lean`) is one function `chainRows` for IFORM and ISORM (they differ only
in the leaf value `beta`, which is TABLE'd; the vectorised IFORM path and the scalar ISORM loop
are both compared with it by the correspondence harness).

Clause → theorem   (every composed theorem is stated on `chainRows c Q Φ (scaleRows β …)`, the
                    expression the driver ops `iform2` / `iformN` of Drv/C01.lean evaluate)
  mapped back … is the sphere point, for every n / hierarchy     contour_rosenblatt_image
  … hence at distance beta: every contour row has a Rosenblatt
    image u with ‖u‖² = β² (unit rows as hypothesis, any n)      contour_radius
    2-D, unit rows = circleRows cos sin angles (no hypothesis)    iform2_contour_radius
    (pieces: contour_point_radius, circle_unit, scaleRows_spec)
  the chain is defined EXACTLY for hierarchical structures        chain_defined_iff_hierarchy
    (necessary: chain_refuses_non_hierarchy; sufficient for every
     leaf Q: chain_defined_of_hierarchy, contour_defined_of_hierarchy)
  exactly n_points points                                         contour_row_count, circle_row_count,
                                                                  realCircleAngles_length
  2-D: unit circle, first point on the positive first axis        circle_unit, circle_first_point, realCircleAngles_succ
  2-D: the n rows of circleRows at the model's angles are
    pairwise distinct; so are the β-scaled points for β ≠ 0       circle_rows_nodup, iform2_sphere_nodup
    (closed-form lemma on cos(2πk/n), sin(2πk/n))                 circle_points_distinct
    (realCircleAngles = the formula of circleAngles/linspaceNoEnd read over ℝ; the Float list itself
     is compared bit for bit with the code by the harness)
  2-D IFORM: row k of the contour starts with Q₀(Φ(β cos φ_k))    iform2_first_coordinate (uses invRos_head)
  2-D IFORM: largest first variable = first point = Q₀(1-α),
    on the contour, given Φ(β) = 1-α, β ≥ 0, Q₀∘Φ monotone        iform2_max_first_variable, iform2_max_first_variable_circle
    (free-function lemmas used by it, not about the contour)      iform_max_first_variable,
                                                                  iform_max_first_variable_is_marginal_quantile,
                                                                  iform_first_point_is_marginal_quantile_trivial
  Φ(Φ⁻¹(1-α)) = 1-α for scipy's norm.cdf/ppf                      observed per run (oracle compares with icdf(1-α))
  TransformedModel branch of IFORMContour._compute                not modelled here (C16 covers it)
  n_dim ≥ 3: the unit rows are an INPUT of the driver op `iformN` (NSphere is run by the real code
  only); `contour_radius` takes "rows are unit vectors" as hypothesis, the harness checks it on the
  NSphere output of every run. The three theorems below are mathematics about a sketch of NSphere
  (`normalizeRow`, `bestState`, defined in this file, NOT executed by the driver, not compared with
  the code):                                                      normalize_unit, bestState_mem, bestState_unit
  distinct directions, n_dim ≥ 3 (NSphere)                        observed per run (partial)
-/
import VirVerif.Lemmas.Hier
import Mathlib.Algebra.Order.Field.Basic
import Mathlib.Algebra.BigOperators.Group.List.Basic
import Mathlib.Analysis.SpecialFunctions.Trigonometric.Basic
import Mathlib.Analysis.SpecialFunctions.Trigonometric.Angle
import Mathlib.Tactic.FieldSimp
import Mathlib.Analysis.SpecialFunctions.Pow.Real
import Mathlib.Analysis.SpecialFunctions.Sqrt
import Mathlib.Tactic.Ring
import Mathlib.Tactic.Linarith

namespace VirVerif.C01
open VirVerif

variable {α : Type}

theorem invRosAux_map (c : Nat → Option Nat) (Q : Nat → Option α → α → α) (Φ : α → α)
    (acc us : List α) :
    invRosAux c Q acc (us.map Φ) = invRosAux c (fun i g u => Q i g (Φ u)) acc us := by
  induction us generalizing acc with
  | nil => rfl
  | cons u us ih =>
    simp only [List.map_cons, invRosAux]
    cases readCond acc (c acc.length) with
    | none => rfl
    | some g => exact ih _

/-- **one contour point**: for a hierarchical structure, leaves with `F(Q(p)) = p` on the
probabilities in the image of `Φ`, and `Φ⁻¹(Φ(u)) = u`, the chain maps the sphere point `u` to a
row whose Rosenblatt image (through the model's own cdfs and `Φ⁻¹`) is `u` again. Any number of
dimensions, any hierarchy. -/
theorem point_rosenblatt_image (c : Nat → Option Nat) (F Q : Nat → Option α → α → α)
    (Φ Φinv : α → α) (P : α → Prop)
    (hFQ : ∀ i g p, P p → F i g (Q i g p) = p) (hΦ : ∀ u, P (Φ u) ∧ Φinv (Φ u) = u)
    (u : List α) (hier : Hier c u.length) :
    ∃ row, invRos c Q (u.map Φ) = some row ∧ row.length = u.length ∧
      ros c (fun i g x => Φinv (F i g x)) row = some u := by
  have h := ros_invRos c (fun i g x => Φinv (F i g x)) (fun i g u => Q i g (Φ u)) (fun _ => True)
    (fun i g p _ => by simp [hFQ i g (Φ p) (hΦ p).1, (hΦ p).2]) u hier (fun _ _ => trivial)
  obtain ⟨row, h1, h2, h3⟩ := h
  refine ⟨row, ?_, h2, h3⟩
  unfold invRos at h1 ⊢
  rw [invRosAux_map]; exact h1

/-- **the whole contour**: every sphere point is mapped to a row whose Rosenblatt image is that
sphere point; the chain never fails for a hierarchical structure. -/
theorem contour_rosenblatt_image (c : Nat → Option Nat) (F Q : Nat → Option α → α → α)
    (Φ Φinv : α → α) (P : α → Prop)
    (hFQ : ∀ i g p, P p → F i g (Q i g p) = p) (hΦ : ∀ u, P (Φ u) ∧ Φinv (Φ u) = u)
    (n : Nat) (hier : Hier c n) (sphere : List (List α)) (hlen : ∀ u ∈ sphere, u.length = n) :
    ∃ rows, chainRows c Q Φ sphere = some rows ∧ rows.length = sphere.length ∧
      ∀ k (hk : k < sphere.length), ∃ row, rows[k]? = some row ∧ row.length = n ∧
        ros c (fun i g x => Φinv (F i g x)) row = some sphere[k] := by
  induction sphere with
  | nil => exact ⟨[], rfl, rfl, fun k hk => by simp at hk⟩
  | cons u us ih =>
    obtain ⟨rows, hr, hl, hk⟩ := ih (fun v hv => hlen v (by simp [hv]))
    have hu : u.length = n := hlen u (by simp)
    obtain ⟨row, h1, h2, h3⟩ := point_rosenblatt_image c F Q Φ Φinv P hFQ hΦ u (by rw [hu]; exact hier)
    refine ⟨row :: rows, ?_, by simp [hl], ?_⟩
    · unfold chainRows at hr ⊢
      simp [optMapM, h1, hr]
    · intro k hk'
      cases k with
      | zero => exact ⟨row, by simp, by omega, by simpa using h3⟩
      | succ k =>
        obtain ⟨r, hr1, hr2, hr3⟩ := hk k (by simpa using hk')
        exact ⟨r, by simpa using hr1, hr2, by simpa using hr3⟩

theorem contour_row_count (c : Nat → Option Nat) (Q : Nat → Option α → α → α) (Φ : α → α)
    (sphere rows : List (List α)) (h : chainRows c Q Φ sphere = some rows) :
    rows.length = sphere.length := by
  unfold chainRows at h
  exact ((optMapM_eq_some_iff _ _ _).mp h).1

/-- **the hierarchy is necessary**: a dimension conditional on itself or on a later dimension
makes the chain read an unset column; the model refuses. -/
theorem chain_refuses_non_hierarchy (c : Nat → Option Nat) (Q : Nat → Option α → α → α)
    (ps : List α) (i j : Nat) (hi : i < ps.length) (hc : c i = some j) (hj : i ≤ j) :
    invRos c Q ps = none :=
  invRosAux_none_of_not_hier c Q [] ps i j (by simp) (by simpa using hi) hc hj

/-- the chain only appends: the prefix `acc` is kept in the result -/
theorem invRosAux_prefix (c : Nat → Option Nat) (Q : Nat → Option α → α → α)
    (acc ps row : List α) (h : invRosAux c Q acc ps = some row) :
    ∀ k, k < acc.length → row[k]? = acc[k]? := by
  induction ps generalizing acc with
  | nil =>
    simp only [invRosAux, Option.some.injEq] at h
    subst h; intros; rfl
  | cons p ps ih =>
    simp only [invRosAux] at h
    cases hr : readCond acc (c acc.length) with
    | none => rw [hr] at h; cases h
    | some g =>
      rw [hr] at h
      intro k hk
      have := ih _ h k (by simp; omega)
      rw [this, List.getElem?_append_left hk]

/-- **first coordinate of a chained row**: with an unconditional first dimension the first
coordinate of the row is the marginal quantile of the first probability, whatever follows. -/
theorem invRos_head (c : Nat → Option Nat) (Q : Nat → Option α → α → α) (hc0 : c 0 = none)
    (p : α) (ps row : List α) (h : invRos c Q (p :: ps) = some row) :
    row.head? = some (Q 0 none p) := by
  unfold invRos at h
  simp only [invRosAux, List.length_nil, hc0, readCond] at h
  have := invRosAux_prefix c Q _ ps row h 0 (by simp)
  rw [List.head?_eq_getElem?, this]; simp

theorem invRosAux_defined_of_hier (c : Nat → Option Nat) (Q : Nat → Option α → α → α)
    (acc ps : List α) (hier : Hier c (acc.length + ps.length)) :
    ∃ row, invRosAux c Q acc ps = some row ∧ row.length = acc.length + ps.length := by
  induction ps generalizing acc with
  | nil => exact ⟨acc, rfl, by simp⟩
  | cons p ps ih =>
    have hlen : acc.length < acc.length + (p :: ps).length := by simp
    obtain ⟨g, hg⟩ : ∃ g, readCond acc (c acc.length) = some g := by
      cases hc : c acc.length with
      | none => exact ⟨none, rfl⟩
      | some j =>
        have := hier _ j hlen hc
        exact ⟨some acc[j], by simp [readCond, this]⟩
    have e : (acc ++ [Q acc.length g p]).length + ps.length = acc.length + (p :: ps).length := by
      simp; omega
    obtain ⟨row, h1, h2⟩ := ih (acc ++ [Q acc.length g p]) (e ▸ hier)
    exact ⟨row, by simp only [invRosAux, hg]; exact h1, by rw [h2, e]⟩

/-- **the hierarchy is sufficient** (converse of `chain_refuses_non_hierarchy`), for EVERY leaf `Q`
(no inverse law needed): a hierarchical structure never makes the chain read an unset column. -/
theorem chain_defined_of_hierarchy (c : Nat → Option Nat) (Q : Nat → Option α → α → α)
    (ps : List α) (hier : Hier c ps.length) :
    ∃ row, invRos c Q ps = some row ∧ row.length = ps.length := by
  obtain ⟨row, h1, h2⟩ := invRosAux_defined_of_hier c Q [] ps (by simpa using hier)
  exact ⟨row, h1, by simpa using h2⟩

/-- **the chain refuses exactly when the structure is not hierarchical** on the dimensions used. -/
theorem chain_defined_iff_hierarchy (c : Nat → Option Nat) (Q : Nat → Option α → α → α)
    (ps : List α) : (invRos c Q ps).isSome ↔ Hier c ps.length := by
  constructor
  · intro h i j hi hc
    by_contra hj
    rw [chain_refuses_non_hierarchy c Q ps i j hi hc (by omega)] at h
    cases h
  · intro hier
    obtain ⟨row, h, _⟩ := chain_defined_of_hierarchy c Q ps hier
    simp [h]

/-- row `k` of the contour is the chain of sphere point `k` -/
theorem chainRows_get (c : Nat → Option Nat) (Q : Nat → Option α → α → α) (Φ : α → α)
    (sphere rows : List (List α)) (h : chainRows c Q Φ sphere = some rows) (k : Nat)
    (hk : k < sphere.length) : invRos c Q (sphere[k].map Φ) = rows[k]? :=
  ((optMapM_eq_some_iff _ _ _).mp h).2 k hk

/-- the whole contour is defined for a hierarchical structure, for every leaf `Q` and `Φ` -/
theorem contour_defined_of_hierarchy (c : Nat → Option Nat) (Q : Nat → Option α → α → α)
    (Φ : α → α) (n : Nat) (hier : Hier c n) (sphere : List (List α))
    (hlen : ∀ u ∈ sphere, u.length = n) :
    ∃ rows, chainRows c Q Φ sphere = some rows ∧ rows.length = sphere.length := by
  obtain ⟨rows, h⟩ := optMapM_isSome (fun u => invRos c Q (u.map Φ)) sphere (fun u hu => by
    obtain ⟨row, h, _⟩ := chain_defined_of_hierarchy c Q (u.map Φ) (by simpa [hlen u hu] using hier)
    exact ⟨row, h⟩)
  exact ⟨rows, h, contour_row_count c Q Φ sphere rows h⟩

/-- **2-D contour as the driver builds it: first coordinate of every point.** With an
unconditional first dimension, row `k` of `chainRows c Q Φ (scaleRows β (circleRows cos sin angles))`
(the expression of `Drv/C01.lean`, op `iform2`) has first coordinate `Q₀(Φ(β·cos φ_k))`. -/
theorem iform2_first_coordinate {α : Type} [Mul α] (c : Nat → Option Nat)
    (Q : Nat → Option α → α → α) (Φ cos sin : α → α) (β : α) (angles : List α)
    (rows : List (List α)) (hc0 : c 0 = none)
    (h : chainRows c Q Φ (scaleRows β (circleRows cos sin angles)) = some rows) (k : Nat)
    (hk : k < angles.length) :
    ∃ row, rows[k]? = some row ∧ row.head? = some (Q 0 none (Φ (β * cos angles[k]))) := by
  have hk' : k < (scaleRows β (circleRows cos sin angles)).length := by
    simpa [scaleRows, circleRows] using hk
  have hg := chainRows_get c Q Φ _ rows h k hk'
  have hl := contour_row_count c Q Φ _ rows h
  have hkr : k < rows.length := by omega
  rw [List.getElem?_eq_getElem hkr] at hg ⊢
  refine ⟨rows[k], rfl, ?_⟩
  have e : (scaleRows β (circleRows cos sin angles))[k] = [β * cos angles[k], β * sin angles[k]] := by
    simp [scaleRows, circleRows]
  rw [e] at hg
  exact invRos_head c Q hc0 _ _ _ hg

section field
variable {K : Type} [Field K]

/-- squared Euclidean norm -/
def normSq (u : List K) : K := (u.map fun v => v * v).sum

theorem normSq_scale (β : K) (d : List K) : normSq (d.map fun v => β * v) = β * β * normSq d := by
  induction d with
  | nil => simp [normSq]
  | cons x xs ih =>
    simp only [normSq, List.map_cons, List.sum_cons] at ih ⊢
    rw [ih]; ring

/-- (piece of `contour_radius`, which states it for the contour) a vector `β·d` with `d` a unit
vector has squared norm `β²`. -/
theorem contour_point_radius (β : K) (d : List K) (hd : normSq d = 1) :
    normSq (d.map fun v => β * v) = β * β := by
  rw [normSq_scale, hd, mul_one]

theorem scaleRows_spec (β : K) (rows : List (List K)) :
    scaleRows β rows = rows.map (fun r => r.map fun v => β * v) := rfl

/-- **distance beta, stated for the contour itself** (any number of dimensions, any hierarchy):
for unit rows `d` (‖d‖² = 1, length `n`) the contour `chainRows c Q Φ (scaleRows β unit)` — the
expression the driver ops `iform2`/`iformN` evaluate — is defined, has one row per unit row, and
every row has a Rosenblatt image `u` (through the model's own cdfs and `Φ⁻¹`) with `‖u‖² = β²`. -/
theorem contour_radius (c : Nat → Option Nat) (F Q : Nat → Option K → K → K)
    (Φ Φinv : K → K) (P : K → Prop)
    (hFQ : ∀ i g p, P p → F i g (Q i g p) = p) (hΦ : ∀ u, P (Φ u) ∧ Φinv (Φ u) = u)
    (n : Nat) (hier : Hier c n) (β : K) (unit : List (List K))
    (hlen : ∀ d ∈ unit, d.length = n) (hunit : ∀ d ∈ unit, normSq d = 1) :
    ∃ rows, chainRows c Q Φ (scaleRows β unit) = some rows ∧ rows.length = unit.length ∧
      ∀ k (_ : k < unit.length), ∃ row u, rows[k]? = some row ∧ row.length = n ∧
        ros c (fun i g x => Φinv (F i g x)) row = some u ∧ normSq u = β * β := by
  have hlen' : ∀ u ∈ scaleRows β unit, u.length = n := by
    intro u hu
    simp only [scaleRows, List.mem_map] at hu
    obtain ⟨d, hd, rfl⟩ := hu
    simpa using hlen d hd
  obtain ⟨rows, h1, h2, h3⟩ :=
    contour_rosenblatt_image c F Q Φ Φinv P hFQ hΦ n hier (scaleRows β unit) hlen'
  have hsl : (scaleRows β unit).length = unit.length := by simp [scaleRows]
  refine ⟨rows, h1, by rw [h2, hsl], ?_⟩
  intro k hk
  obtain ⟨row, hr1, hr2, hr3⟩ := h3 k (by rw [hsl]; exact hk)
  refine ⟨row, _, hr1, hr2, hr3, ?_⟩
  have e : (scaleRows β unit)[k]'(by rw [hsl]; exact hk) = unit[k].map fun v => β * v := by
    simp [scaleRows]
  rw [e]
  exact contour_point_radius β _ (hunit _ (List.getElem_mem hk))

end field

/-- the 2-D circle consists of unit vectors (real cosine and sine) -/
theorem circle_unit (angles : List ℝ) :
    ∀ d ∈ circleRows Real.cos Real.sin angles, normSq d = 1 := by
  intro d hd
  simp only [circleRows, List.mem_map] at hd
  obtain ⟨φ, _, rfl⟩ := hd
  simp [normSq]
  have := Real.cos_sq_add_sin_sq φ
  nlinarith [this]

theorem circle_row_count {β : Type} (cos sin : β → β) (angles : List β) :
    (circleRows cos sin angles).length = angles.length := by simp [circleRows]

/-- the first 2-D point lies on the positive first axis -/
theorem circle_first_point (rest : List ℝ) :
    (circleRows Real.cos Real.sin (0 :: rest)).head? = some [1, 0] := by
  simp [circleRows]

/-- **distinct directions (2-D), closed form**: the `n` directions `(cos(2πk/n), sin(2πk/n))`, `k < n`, at the
equally spaced angles of the 2-D circle are pairwise distinct. (The statement about the model's
`circleRows` is `circle_rows_nodup`, about the β-scaled points `iform2_sphere_nodup`.) -/
theorem circle_points_distinct (n : ℕ) (hn : 0 < n) (i j : ℕ) (hi : i < n) (hj : j < n)
    (hc : Real.cos (2 * Real.pi * i / n) = Real.cos (2 * Real.pi * j / n))
    (hs : Real.sin (2 * Real.pi * i / n) = Real.sin (2 * Real.pi * j / n)) : i = j := by
  have h := Real.Angle.cos_sin_inj hc hs
  rw [Real.Angle.angle_eq_iff_two_pi_dvd_sub] at h
  obtain ⟨k, hk⟩ := h
  have hnpos : (0 : ℝ) < n := by exact_mod_cast hn
  have hpi := Real.pi_pos
  have h2 : ((i : ℝ) - j) = k * n := by
    have h1 : 2 * Real.pi * ((i : ℝ) - j) / n = 2 * Real.pi * k := by
      rw [← hk]; ring
    field_simp at h1
    rw [h1]; ring
  have h3 : ((i : ℤ) - j) = k * n := by exact_mod_cast h2
  have hk0 : k = 0 := by
    by_contra hne
    have : (n : ℤ) ≤ |(i : ℤ) - j| := by
      rw [h3, abs_mul]
      have : (1 : ℤ) ≤ |k| := Int.one_le_abs hne
      have hn' : |(n : ℤ)| = n := abs_of_nonneg (by positivity)
      rw [hn']; nlinarith
    have : |(i : ℤ) - j| < n := by
      rw [abs_lt]; constructor <;> omega
    omega
  rw [hk0] at h3
  omega

/-- the angles of the 2-D circle read over the reals: the formula of `circleAngles` /
`linspaceNoEnd 0 2π n` (`k * ((2π - 0)/n) + 0`) with `Float.ofNat` read as the cast `ℕ → ℝ`. -/
noncomputable def realCircleAngles (n : ℕ) : List ℝ :=
  (List.range n).map fun k : ℕ => (k : ℝ) * ((2 * Real.pi - 0) / n) + 0

theorem realCircleAngles_eq (n : ℕ) :
    realCircleAngles n = (List.range n).map fun k : ℕ => 2 * Real.pi * k / n := by
  unfold realCircleAngles
  apply List.map_congr_left
  intro k _
  ring

theorem realCircleAngles_length (n : ℕ) : (realCircleAngles n).length = n := by
  simp [realCircleAngles]

/-- the first angle is `0` (the first point lies on the positive first axis) -/
theorem realCircleAngles_succ (n : ℕ) : ∃ rest, realCircleAngles (n + 1) = 0 :: rest := by
  refine ⟨(List.range n).map fun k : ℕ => ((k + 1 : ℕ) : ℝ) * ((2 * Real.pi - 0) / (n + 1 : ℕ)) + 0, ?_⟩
  simp [realCircleAngles, List.range_succ_eq_map, Function.comp_def]

/-- **distinct directions (2-D), for the model's own point list**: the rows
`circleRows cos sin (realCircleAngles n)` are pairwise distinct. -/
theorem circle_rows_nodup (n : ℕ) :
    (circleRows Real.cos Real.sin (realCircleAngles n)).Nodup := by
  rw [realCircleAngles_eq]
  simp only [circleRows, List.map_map]
  apply List.Nodup.map_on _ List.nodup_range
  intro i hi j hj h
  rw [List.mem_range] at hi hj
  simp only [Function.comp_apply, List.cons.injEq, and_true] at h
  exact circle_points_distinct n (by omega) i j hi hj h.1 h.2

/-- **distinct directions of the β-sphere points (2-D)**: for `β ≠ 0` the scaled points
`β·(cos φ_k, sin φ_k)` that the chain is fed with are pairwise distinct (all at the same distance
`|β|` from the origin, so they are `n` distinct directions). For `β = 0` (α = 1/2) all points
collapse to the origin: the hypothesis is necessary. -/
theorem iform2_sphere_nodup (n : ℕ) (β : ℝ) (hβ : β ≠ 0) :
    (scaleRows β (circleRows Real.cos Real.sin (realCircleAngles n))).Nodup := by
  unfold scaleRows
  apply List.Nodup.map _ (circle_rows_nodup n)
  apply List.map_injective_iff.mpr
  intro a b hab
  exact mul_left_cancel₀ hβ hab

/-- (free-function lemma; the statement on the contour is `iform2_max_first_variable`)
**2-D IFORM: the largest first-variable value is attained at the first point and equals
`Q₀(Φ(β))`** (with `Φ(β) = 1-α` this is the marginal (1-α)-quantile): for `β ≥ 0` and
`u ↦ Q₀(Φ(u))` monotone, every point's first coordinate `Q₀(Φ(β cos φ))` is at most
`Q₀(Φ(β cos 0))`. -/
theorem iform_max_first_variable (Q0 Φ : ℝ → ℝ) (hmono : Monotone fun u => Q0 (Φ u)) (β : ℝ)
    (hβ : 0 ≤ β) (φ : ℝ) : Q0 (Φ (β * Real.cos φ)) ≤ Q0 (Φ (β * Real.cos 0)) := by
  apply hmono
  rw [Real.cos_zero]
  have := Real.cos_le_one φ
  nlinarith

/-- (one-step rewriting, `cos 0 = 1` and the hypothesis; about free functions — the statement on
the contour is `iform2_max_first_variable`) the first 2-D IFORM point is the marginal (1-α)-quantile: with `β = Φ⁻¹(1-α)` and `Φ` a right inverse
of `Φ⁻¹` AT `1-α` (`Φ(Φ⁻¹(1-α)) = 1-α`; this direction is not given by `hΦ` of `contour_rosenblatt_image`,
which only has `Φ⁻¹ ∘ Φ = id`), the first coordinate of the point at angle 0 is `Q₀(1-α)`. -/
theorem iform_first_point_is_marginal_quantile_trivial (Q0 Φ Φinv : ℝ → ℝ) (oma : ℝ)
    (hright : Φ (Φinv oma) = oma) : Q0 (Φ (Φinv oma * Real.cos 0)) = Q0 oma := by
  rw [Real.cos_zero, mul_one, hright]

/-- (free-function form: the list of first coordinates is written out by hand here; that it IS the
list of first coordinates of the contour is `iform2_first_coordinate`, the composed statement is
`iform2_max_first_variable`)
**2-D IFORM: every point's first coordinate is at most the marginal (1-α)-quantile `Q₀(1-α)`, and the
first point attains it** (the clause "the largest first-variable value on a 2-D IFORM contour is exactly that
variable's marginal (1-alpha)-quantile" at full strength, for `α ≤ 1/2` i.e. `β = Φ⁻¹(1-α) ≥ 0`). -/
theorem iform_max_first_variable_is_marginal_quantile (Q0 Φ Φinv : ℝ → ℝ)
    (hmono : Monotone fun u => Q0 (Φ u)) (oma : ℝ) (hβ : 0 ≤ Φinv oma) (hright : Φ (Φinv oma) = oma)
    (angles : List ℝ) :
    (∀ φ ∈ 0 :: angles, Q0 (Φ (Φinv oma * Real.cos φ)) ≤ Q0 oma) ∧
      ((0 :: angles).map fun φ => Q0 (Φ (Φinv oma * Real.cos φ))).head? = some (Q0 oma) := by
  have h0 := iform_first_point_is_marginal_quantile_trivial Q0 Φ Φinv oma hright
  refine ⟨fun φ _ => ?_, by simp only [List.map_cons, List.head?_cons]; rw [h0]⟩
  rw [← h0]
  exact iform_max_first_variable Q0 Φ hmono (Φinv oma) hβ φ

/-- non-vacuity of the hypotheses of `iform_max_first_variable_is_marginal_quantile`: identity leaves -/
example : (∀ φ ∈ (0 : ℝ) :: [1, 2], id (id (id (1 : ℝ) * Real.cos φ)) ≤ id 1) ∧
    (((0 : ℝ) :: [1, 2]).map fun φ => id (id (id (1 : ℝ) * Real.cos φ))).head? = some (id 1) :=
  iform_max_first_variable_is_marginal_quantile id id id monotone_id 1 (by norm_num [id]) rfl [1, 2]

/-- **2-D IFORM, on the contour the driver computes** (`chainRows c Q Φ (scaleRows β (circleRows cos
sin angles))`, first angle `0`): for a hierarchical 2-D structure, `β ≥ 0`, `Φ(β) = 1-α` and
`u ↦ Q₀(Φ(u))` monotone, the contour is defined, has one row per angle, row `k` starts with
`Q₀(Φ(β·cos φ_k))`, row 0 starts with the marginal quantile `Q₀(1-α)`, and no row starts with a
larger value. (`Hier c 2` gives `c 0 = none`: the first dimension is unconditional.) -/
theorem iform2_max_first_variable (c : Nat → Option Nat) (Q : Nat → Option ℝ → ℝ → ℝ) (Φ : ℝ → ℝ)
    (hier : Hier c 2) (hmono : Monotone fun u => Q 0 none (Φ u)) (β oma : ℝ) (hβ : 0 ≤ β)
    (hright : Φ β = oma) (rest : List ℝ) :
    ∃ rows, chainRows c Q Φ (scaleRows β (circleRows Real.cos Real.sin (0 :: rest))) = some rows ∧
      rows.length = rest.length + 1 ∧
      (∀ k (hk : k < (0 :: rest).length), ∃ row, rows[k]? = some row ∧
          row.head? = some (Q 0 none (Φ (β * Real.cos (0 :: rest)[k])))) ∧
      (∃ row, rows[0]? = some row ∧ row.head? = some (Q 0 none oma)) ∧
      ∀ (k : ℕ) (row : List ℝ) (x : ℝ), rows[k]? = some row → row.head? = some x → x ≤ Q 0 none oma := by
  have hc0 : c 0 = none := by
    cases h : c 0 with
    | none => rfl
    | some j => exact absurd (hier 0 j (by omega) h) (by omega)
  obtain ⟨rows, hrows, hl⟩ := contour_defined_of_hierarchy c Q Φ 2 hier
    (scaleRows β (circleRows Real.cos Real.sin (0 :: rest))) (by
      intro u hu
      simp only [scaleRows, circleRows, List.map_map, List.mem_map] at hu
      obtain ⟨φ, _, rfl⟩ := hu
      rfl)
  have hl' : rows.length = rest.length + 1 := by simpa [scaleRows, circleRows] using hl
  have hfirst := iform2_first_coordinate c Q Φ Real.cos Real.sin β (0 :: rest) rows hc0 hrows
  refine ⟨rows, hrows, hl', hfirst, ?_, ?_⟩
  · obtain ⟨row, h1, h2⟩ := hfirst 0 (by simp)
    refine ⟨row, h1, ?_⟩
    rw [h2]; simp [hright]
  · intro k row x hk hx
    have hkl : k < (0 :: rest).length := by
      have := (List.getElem?_eq_some_iff.mp hk).1
      simp; omega
    obtain ⟨row', h1, h2⟩ := hfirst k hkl
    rw [hk] at h1; cases h1
    rw [hx] at h2; cases h2
    rw [← hright]
    have := iform_max_first_variable (Q 0 none) Φ hmono β hβ ((0 :: rest)[k])
    simpa using this

/-- the same on the model's equally spaced angles (`n_points = n + 1 ≥ 1`): the largest first
variable of the 2-D IFORM contour is the marginal (1-α)-quantile and the first point attains it. -/
theorem iform2_max_first_variable_circle (c : Nat → Option Nat) (Q : Nat → Option ℝ → ℝ → ℝ)
    (Φ : ℝ → ℝ) (hier : Hier c 2) (hmono : Monotone fun u => Q 0 none (Φ u)) (β oma : ℝ)
    (hβ : 0 ≤ β) (hright : Φ β = oma) (n : ℕ) :
    ∃ rows, chainRows c Q Φ (scaleRows β (circleRows Real.cos Real.sin (realCircleAngles (n + 1))))
        = some rows ∧ rows.length = n + 1 ∧
      (∃ row, rows[0]? = some row ∧ row.head? = some (Q 0 none oma)) ∧
      ∀ (k : ℕ) (row : List ℝ) (x : ℝ), rows[k]? = some row → row.head? = some x → x ≤ Q 0 none oma := by
  obtain ⟨rest, hrest⟩ := realCircleAngles_succ n
  have hlen : rest.length = n := by
    have := realCircleAngles_length (n + 1)
    rw [hrest] at this; simpa using this
  obtain ⟨rows, h1, h2, _, h4, h5⟩ := iform2_max_first_variable c Q Φ hier hmono β oma hβ hright rest
  exact ⟨rows, by rw [hrest]; exact h1, by omega, h4, h5⟩

/-- **2-D contour at distance β** (`contour_radius` on the circle the driver builds): every row of
`chainRows c Q Φ (scaleRows β (circleRows cos sin angles))` has a Rosenblatt image at squared
distance `β²` from the origin. -/
theorem iform2_contour_radius (c : Nat → Option Nat) (F Q : Nat → Option ℝ → ℝ → ℝ)
    (Φ Φinv : ℝ → ℝ) (P : ℝ → Prop)
    (hFQ : ∀ i g p, P p → F i g (Q i g p) = p) (hΦ : ∀ u, P (Φ u) ∧ Φinv (Φ u) = u)
    (hier : Hier c 2) (β : ℝ) (angles : List ℝ) :
    ∃ rows, chainRows c Q Φ (scaleRows β (circleRows Real.cos Real.sin angles)) = some rows ∧
      rows.length = angles.length ∧
      ∀ k (_ : k < angles.length), ∃ row u, rows[k]? = some row ∧ row.length = 2 ∧
        ros c (fun i g x => Φinv (F i g x)) row = some u ∧ normSq u = β * β := by
  have h := contour_radius c F Q Φ Φinv P hFQ hΦ 2 hier β (circleRows Real.cos Real.sin angles)
    (by
      intro d hd
      simp only [circleRows, List.mem_map] at hd
      obtain ⟨φ, _, rfl⟩ := hd
      rfl)
    (circle_unit angles)
  simpa [circle_row_count] using h

/-- non-vacuity of `iform2_contour_radius` / `iform2_max_first_variable`: independent identity
leaves (`c = none`, `F = Q = Φ = Φ⁻¹ = id`) meet every hypothesis. -/
example : ∃ rows, chainRows (fun _ => none) (fun _ _ p => p) id
    (scaleRows 2 (circleRows Real.cos Real.sin (realCircleAngles 4))) = some rows ∧ rows.length = 4 ∧
    (∃ row, rows[0]? = some row ∧ row.head? = some (2 : ℝ)) ∧
    ∀ (k : ℕ) (row : List ℝ) (x : ℝ), rows[k]? = some row → row.head? = some x → x ≤ 2 :=
  iform2_max_first_variable_circle (fun _ => none) (fun _ _ p => p) id
    (fun i j _ h => by cases h) (fun a b h => h) 2 2 (by norm_num) rfl 3

/-- non-vacuity of `iform2_contour_radius` (and of `contour_radius`): identity leaves, first dimension
unconditional, second conditional on the first, meet `hFQ`, `hΦ` and `Hier c 2`. -/
example : ∃ rows, chainRows (fun i => if i = 1 then some 0 else none) (fun _ _ p => p) id
      (scaleRows 3 (circleRows Real.cos Real.sin (realCircleAngles 5))) = some rows ∧
    rows.length = (realCircleAngles 5).length ∧
    ∀ k (_ : k < (realCircleAngles 5).length), ∃ row u, rows[k]? = some row ∧ row.length = 2 ∧
      ros (fun i => if i = 1 then some 0 else none) (fun _ _ x => id x) row = some u ∧
      normSq u = (3 : ℝ) * 3 :=
  iform2_contour_radius (fun i => if i = 1 then some 0 else none) (fun _ _ x => x) (fun _ _ p => p)
    id id (fun _ => True) (fun _ _ _ _ => rfl) (fun _ => ⟨trivial, rfl⟩)
    (fun i j hi h => by
      by_cases h1 : i = 1
      · subst h1; simp at h; omega
      · simp [h1] at h)
    3 (realCircleAngles 5)

/-! ### NSphere (n_dim ≥ 3): the returned points are unit vectors

Mathematics about an UN-EXECUTED sketch: `normalizeRow` and `bestState` are defined here, are not
part of the driver and are not compared with `NSphere` of the code (the driver op `iformN` receives
the unit rows the real NSphere produced as input; the harness checks their norms).
`bestState_unit` holds for any predicate (it is `bestState_mem` applied). -/

/-- row normalisation of NSphere (`points /= np.linalg.norm(points, axis=1, keepdims=True)`) -/
noncomputable def normalizeRow (v : List ℝ) : List ℝ := v.map fun x => x / Real.sqrt (normSq v)

theorem normSq_nonneg (v : List ℝ) : 0 ≤ normSq v := by
  unfold normSq
  apply List.sum_nonneg
  intro x hx
  simp only [List.mem_map] at hx
  obtain ⟨y, _, rfl⟩ := hx
  exact mul_self_nonneg y

/-- **a normalised non-zero row is a unit vector** (n-D sphere points of IFORM/ISORM for n_dim ≥ 3:
NSphere normalises the initial Gaussian points and every relaxation step) -/
theorem normalize_unit (v : List ℝ) (hv : normSq v ≠ 0) : normSq (normalizeRow v) = 1 := by
  have hpos : 0 < normSq v := lt_of_le_of_ne (normSq_nonneg v) (Ne.symm hv)
  have hs : Real.sqrt (normSq v) ≠ 0 := (Real.sqrt_pos.mpr hpos).ne'
  have key : ∀ w : List ℝ, ∀ c : ℝ, c ≠ 0 → normSq (w.map fun x => x / c) = normSq w / (c * c) := by
    intro w c hc
    induction w with
    | nil => simp [normSq]
    | cons a as ih =>
      simp only [normSq, List.map_cons, List.sum_cons] at ih ⊢
      rw [ih]; field_simp
  unfold normalizeRow
  rw [key v _ hs, Real.mul_self_sqrt hpos.le, div_self hv]

/-- best-state selection of `_relax_points`: keep the first state, replace it whenever a later
state has strictly lower potential energy -/
def bestState {σ : Type} (pot : σ → ℝ) [DecidableRel (fun a b : ℝ => a < b)] (init : σ) (later : List σ) : σ :=
  later.foldl (fun best s => if pot s < pot best then s else best) init

/-- **the state NSphere returns is one of the states it visited** — each of which has normalised
rows — so the returned points are unit vectors whatever the relaxation did. -/
theorem bestState_mem {σ : Type} (pot : σ → ℝ) [DecidableRel (fun a b : ℝ => a < b)] (init : σ) (later : List σ) :
    bestState pot init later = init ∨ bestState pot init later ∈ later := by
  unfold bestState
  induction later generalizing init with
  | nil => left; rfl
  | cons s rest ih =>
    simp only [List.foldl_cons]
    rcases ih (if pot s < pot init then s else init) with h | h
    · by_cases hs : pot s < pot init
      · simp only [hs, if_true] at h ⊢; right; rw [h]; simp
      · simp only [hs, if_false] at h ⊢; left; exact h
    · right; exact List.mem_cons_of_mem _ h

theorem bestState_unit {σ : Type} (pot : σ → ℝ) [DecidableRel (fun a b : ℝ => a < b)] (Unit : σ → Prop)
    (init : σ) (later : List σ) (h0 : Unit init) (hl : ∀ s ∈ later, Unit s) : Unit (bestState pot init later) := by
  rcases bestState_mem pot init later with h | h
  · rw [h]; exact h0
  · exact hl _ h


/-! ### non-vacuity: a 3-D hierarchy with exact leaves over `Int`-free rationals is exercised by
the correspondence harness; here the hypotheses are shown satisfiable on a tiny instance. -/
example : Hier (fun i => if i = 0 then none else some (i - 1)) 3 := by
  intro i j hi hc
  by_cases h : i = 0
  · simp [h] at hc
  · simp [h] at hc; omega

example : invRos (fun i => if i = 0 then none else some 0) (fun _ g p => match g with | none => p | some x => x + p)
    [(1 : Int), 2, 3] = some [1, 3, 4] := by decide

example : invRos (fun i => if i = 1 then some 2 else none) (fun _ _ p => p) [(1 : Int), 2, 3] = none := by decide

end VirVerif.C01
