/-
C01 — IFORM/ISORM contours are the inverse-Rosenblatt image of the beta-sphere.

  "For every hierarchical joint model (any number of variables and any admissible dependence
   structure) and every exceedance probability alpha in (0,1), each point of an IFORM or ISORM
   contour, mapped back through the model's own marginal/conditional cumulative distribution
   functions into standard-normal space, lies at distance beta from the origin, where
   beta = Phi^-1(1-alpha) for IFORM and beta = sqrt(chi2_n^-1(1-alpha)) for ISORM (n variables).
   The contour has exactly n_points points whose standard-normal images are distinct directions
   (for two variables: equally spaced angles starting on the positive first axis), so the
   largest first-variable value on a 2-D IFORM contour is exactly that variable's marginal
   (1-alpha)-quantile."

The model (`Model/Hier.lean`) is one function `chainRows` for IFORM and ISORM (they differ only
in the leaf value `beta`, which is TABLE'd; the vectorised IFORM path and the scalar ISORM loop
are both compared with it by the correspondence harness).

Clause → theorem
  mapped back … is the sphere point, for every n / hierarchy     contour_rosenblatt_image
  … hence at distance beta                                        contour_point_radius
  the hierarchy (conditional_on[i] < i) is necessary              chain_refuses_non_hierarchy
  exactly n_points points                                         contour_row_count, circle_row_count
  2-D: unit circle, first point on the positive first axis        circle_unit, circle_first_point
  2-D: the n equally spaced directions are pairwise distinct      circle_points_distinct
  2-D IFORM: largest first variable = first point = Q₀(Φ(β))      iform_max_first_variable
  … and Q₀(Φ(β)) = Q₀(1-α) given Φ(Φ⁻¹(1-α)) = 1-α               iform_first_point_is_marginal_quantile,
                                                                  iform_max_first_variable_is_marginal_quantile
  Φ(Φ⁻¹(1-α)) = 1-α for scipy's norm.cdf/ppf                      observed per run (oracle compares with icdf(1-α))
  TransformedModel branch of IFORMContour._compute                not modelled here (C16 covers it)
  n_dim ≥ 3: NSphere returns unit vectors (normalised rows of one
  of the visited states)                                          normalize_unit, bestState_mem, bestState_unit
  distinct directions, n_dim ≥ 3 (NSphere)                        observed per run (partial)
-/
import VirVerif.Lemmas.Hier
import Mathlib.Algebra.Order.Field.Basic
import Mathlib.Algebra.BigOperators.Group.List.Basic
import Mathlib.Analysis.SpecialFunctions.Trigonometric.Basic
import Mathlib.Analysis.SpecialFunctions.Trigonometric.Angle
import Mathlib.Tactic.FieldSimp
import Mathlib.Analysis.SpecialFunctions.Pow.Real
import Mathlib.Analysis.SpecialFunctions.Sqrt
import Mathlib.Tactic.Ring
import Mathlib.Tactic.Linarith

namespace VirVerif.C01
open VirVerif

variable {α : Type}

theorem invRosAux_map (c : Nat → Option Nat) (Q : Nat → Option α → α → α) (Φ : α → α)
    (acc us : List α) :
    invRosAux c Q acc (us.map Φ) = invRosAux c (fun i g u => Q i g (Φ u)) acc us := by
  induction us generalizing acc with
  | nil => rfl
  | cons u us ih =>
    simp only [List.map_cons, invRosAux]
    cases readCond acc (c acc.length) with
    | none => rfl
    | some g => exact ih _

/-- **one contour point**: for a hierarchical structure, leaves with `F(Q(p)) = p` on the
probabilities in the image of `Φ`, and `Φ⁻¹(Φ(u)) = u`, the chain maps the sphere point `u` to a
row whose Rosenblatt image (through the model's own cdfs and `Φ⁻¹`) is `u` again. Any number of
dimensions, any hierarchy. -/
theorem point_rosenblatt_image (c : Nat → Option Nat) (F Q : Nat → Option α → α → α)
    (Φ Φinv : α → α) (P : α → Prop)
    (hFQ : ∀ i g p, P p → F i g (Q i g p) = p) (hΦ : ∀ u, P (Φ u) ∧ Φinv (Φ u) = u)
    (u : List α) (hier : Hier c u.length) :
    ∃ row, invRos c Q (u.map Φ) = some row ∧ row.length = u.length ∧
      ros c (fun i g x => Φinv (F i g x)) row = some u := by
  have h := ros_invRos c (fun i g x => Φinv (F i g x)) (fun i g u => Q i g (Φ u)) (fun _ => True)
    (fun i g p _ => by simp [hFQ i g (Φ p) (hΦ p).1, (hΦ p).2]) u hier (fun _ _ => trivial)
  obtain ⟨row, h1, h2, h3⟩ := h
  refine ⟨row, ?_, h2, h3⟩
  unfold invRos at h1 ⊢
  rw [invRosAux_map]; exact h1

/-- **the whole contour**: every sphere point is mapped to a row whose Rosenblatt image is that
sphere point; the chain never fails for a hierarchical structure. -/
theorem contour_rosenblatt_image (c : Nat → Option Nat) (F Q : Nat → Option α → α → α)
    (Φ Φinv : α → α) (P : α → Prop)
    (hFQ : ∀ i g p, P p → F i g (Q i g p) = p) (hΦ : ∀ u, P (Φ u) ∧ Φinv (Φ u) = u)
    (n : Nat) (hier : Hier c n) (sphere : List (List α)) (hlen : ∀ u ∈ sphere, u.length = n) :
    ∃ rows, chainRows c Q Φ sphere = some rows ∧ rows.length = sphere.length ∧
      ∀ k (hk : k < sphere.length), ∃ row, rows[k]? = some row ∧ row.length = n ∧
        ros c (fun i g x => Φinv (F i g x)) row = some sphere[k] := by
  induction sphere with
  | nil => exact ⟨[], rfl, rfl, fun k hk => by simp at hk⟩
  | cons u us ih =>
    obtain ⟨rows, hr, hl, hk⟩ := ih (fun v hv => hlen v (by simp [hv]))
    have hu : u.length = n := hlen u (by simp)
    obtain ⟨row, h1, h2, h3⟩ := point_rosenblatt_image c F Q Φ Φinv P hFQ hΦ u (by rw [hu]; exact hier)
    refine ⟨row :: rows, ?_, by simp [hl], ?_⟩
    · unfold chainRows at hr ⊢
      simp [optMapM, h1, hr]
    · intro k hk'
      cases k with
      | zero => exact ⟨row, by simp, by omega, by simpa using h3⟩
      | succ k =>
        obtain ⟨r, hr1, hr2, hr3⟩ := hk k (by simpa using hk')
        exact ⟨r, by simpa using hr1, hr2, by simpa using hr3⟩

theorem contour_row_count (c : Nat → Option Nat) (Q : Nat → Option α → α → α) (Φ : α → α)
    (sphere rows : List (List α)) (h : chainRows c Q Φ sphere = some rows) :
    rows.length = sphere.length := by
  unfold chainRows at h
  exact ((optMapM_eq_some_iff _ _ _).mp h).1

/-- **the hierarchy is necessary**: a dimension conditional on itself or on a later dimension
makes the chain read an unset column; the model refuses. -/
theorem chain_refuses_non_hierarchy (c : Nat → Option Nat) (Q : Nat → Option α → α → α)
    (ps : List α) (i j : Nat) (hi : i < ps.length) (hc : c i = some j) (hj : i ≤ j) :
    invRos c Q ps = none :=
  invRosAux_none_of_not_hier c Q [] ps i j (by simp) (by simpa using hi) hc hj

section field
variable {K : Type} [Field K]

/-- squared Euclidean norm -/
def normSq (u : List K) : K := (u.map fun v => v * v).sum

theorem normSq_scale (β : K) (d : List K) : normSq (d.map fun v => β * v) = β * β * normSq d := by
  induction d with
  | nil => simp [normSq]
  | cons x xs ih =>
    simp only [normSq, List.map_cons, List.sum_cons] at ih ⊢
    rw [ih]; ring

/-- **distance beta**: the Rosenblatt image of a contour point is `β·d` with `d` a unit
vector, so its squared norm is `β²`. -/
theorem contour_point_radius (β : K) (d : List K) (hd : normSq d = 1) :
    normSq (d.map fun v => β * v) = β * β := by
  rw [normSq_scale, hd, mul_one]

theorem scaleRows_spec (β : K) (rows : List (List K)) :
    scaleRows β rows = rows.map (fun r => r.map fun v => β * v) := rfl

end field

/-- the 2-D circle consists of unit vectors (real cosine and sine) -/
theorem circle_unit (angles : List ℝ) :
    ∀ d ∈ circleRows Real.cos Real.sin angles, normSq d = 1 := by
  intro d hd
  simp only [circleRows, List.mem_map] at hd
  obtain ⟨φ, _, rfl⟩ := hd
  simp [normSq]
  have := Real.cos_sq_add_sin_sq φ
  nlinarith [this]

theorem circle_row_count {β : Type} (cos sin : β → β) (angles : List β) :
    (circleRows cos sin angles).length = angles.length := by simp [circleRows]

/-- the first 2-D point lies on the positive first axis -/
theorem circle_first_point (rest : List ℝ) :
    (circleRows Real.cos Real.sin (0 :: rest)).head? = some [1, 0] := by
  simp [circleRows]

/-- **distinct directions (2-D)**: the `n` directions `(cos(2πk/n), sin(2πk/n))`, `k < n`, at the
equally spaced angles of the 2-D circle are pairwise distinct. -/
theorem circle_points_distinct (n : ℕ) (hn : 0 < n) (i j : ℕ) (hi : i < n) (hj : j < n)
    (hc : Real.cos (2 * Real.pi * i / n) = Real.cos (2 * Real.pi * j / n))
    (hs : Real.sin (2 * Real.pi * i / n) = Real.sin (2 * Real.pi * j / n)) : i = j := by
  have h := Real.Angle.cos_sin_inj hc hs
  rw [Real.Angle.angle_eq_iff_two_pi_dvd_sub] at h
  obtain ⟨k, hk⟩ := h
  have hnpos : (0 : ℝ) < n := by exact_mod_cast hn
  have hpi := Real.pi_pos
  have h2 : ((i : ℝ) - j) = k * n := by
    have h1 : 2 * Real.pi * ((i : ℝ) - j) / n = 2 * Real.pi * k := by
      rw [← hk]; ring
    field_simp at h1
    rw [h1]; ring
  have h3 : ((i : ℤ) - j) = k * n := by exact_mod_cast h2
  have hk0 : k = 0 := by
    by_contra hne
    have : (n : ℤ) ≤ |(i : ℤ) - j| := by
      rw [h3, abs_mul]
      have : (1 : ℤ) ≤ |k| := Int.one_le_abs hne
      have hn' : |(n : ℤ)| = n := abs_of_nonneg (by positivity)
      rw [hn']; nlinarith
    have : |(i : ℤ) - j| < n := by
      rw [abs_lt]; constructor <;> omega
    omega
  rw [hk0] at h3
  omega

/-- **2-D IFORM: the largest first-variable value is attained at the first point and equals
`Q₀(Φ(β))`** (with `Φ(β) = 1-α` this is the marginal (1-α)-quantile): for `β ≥ 0` and
`u ↦ Q₀(Φ(u))` monotone, every point's first coordinate `Q₀(Φ(β cos φ))` is at most
`Q₀(Φ(β cos 0))`. -/
theorem iform_max_first_variable (Q0 Φ : ℝ → ℝ) (hmono : Monotone fun u => Q0 (Φ u)) (β : ℝ)
    (hβ : 0 ≤ β) (φ : ℝ) : Q0 (Φ (β * Real.cos φ)) ≤ Q0 (Φ (β * Real.cos 0)) := by
  apply hmono
  rw [Real.cos_zero]
  have := Real.cos_le_one φ
  nlinarith

/-- **the first 2-D IFORM point is the marginal (1-α)-quantile**: with `β = Φ⁻¹(1-α)` and `Φ` a right inverse
of `Φ⁻¹` AT `1-α` (`Φ(Φ⁻¹(1-α)) = 1-α`; this direction is not given by `hΦ` of `contour_rosenblatt_image`,
which only has `Φ⁻¹ ∘ Φ = id`), the first coordinate of the point at angle 0 is `Q₀(1-α)`. -/
theorem iform_first_point_is_marginal_quantile (Q0 Φ Φinv : ℝ → ℝ) (oma : ℝ)
    (hright : Φ (Φinv oma) = oma) : Q0 (Φ (Φinv oma * Real.cos 0)) = Q0 oma := by
  rw [Real.cos_zero, mul_one, hright]

/-- **2-D IFORM: every point's first coordinate is at most the marginal (1-α)-quantile `Q₀(1-α)`, and the
first point attains it** (the clause "the largest first-variable value on a 2-D IFORM contour is exactly that
variable's marginal (1-alpha)-quantile" at full strength, for `α ≤ 1/2` i.e. `β = Φ⁻¹(1-α) ≥ 0`). -/
theorem iform_max_first_variable_is_marginal_quantile (Q0 Φ Φinv : ℝ → ℝ)
    (hmono : Monotone fun u => Q0 (Φ u)) (oma : ℝ) (hβ : 0 ≤ Φinv oma) (hright : Φ (Φinv oma) = oma)
    (angles : List ℝ) :
    (∀ φ ∈ 0 :: angles, Q0 (Φ (Φinv oma * Real.cos φ)) ≤ Q0 oma) ∧
      ((0 :: angles).map fun φ => Q0 (Φ (Φinv oma * Real.cos φ))).head? = some (Q0 oma) := by
  have h0 := iform_first_point_is_marginal_quantile Q0 Φ Φinv oma hright
  refine ⟨fun φ _ => ?_, by simp only [List.map_cons, List.head?_cons]; rw [h0]⟩
  rw [← h0]
  exact iform_max_first_variable Q0 Φ hmono (Φinv oma) hβ φ

/-- non-vacuity of the hypotheses of `iform_max_first_variable_is_marginal_quantile`: identity leaves -/
example : (∀ φ ∈ (0 : ℝ) :: [1, 2], id (id (id (1 : ℝ) * Real.cos φ)) ≤ id 1) ∧
    (((0 : ℝ) :: [1, 2]).map fun φ => id (id (id (1 : ℝ) * Real.cos φ))).head? = some (id 1) :=
  iform_max_first_variable_is_marginal_quantile id id id monotone_id 1 (by norm_num [id]) rfl [1, 2]

/-! ### NSphere (n_dim ≥ 3): the returned points are unit vectors -/

/-- row normalisation of NSphere (`points /= np.linalg.norm(points, axis=1, keepdims=True)`) -/
noncomputable def normalizeRow (v : List ℝ) : List ℝ := v.map fun x => x / Real.sqrt (normSq v)

theorem normSq_nonneg (v : List ℝ) : 0 ≤ normSq v := by
  unfold normSq
  apply List.sum_nonneg
  intro x hx
  simp only [List.mem_map] at hx
  obtain ⟨y, _, rfl⟩ := hx
  exact mul_self_nonneg y

/-- **a normalised non-zero row is a unit vector** (n-D sphere points of IFORM/ISORM for n_dim ≥ 3:
NSphere normalises the initial Gaussian points and every relaxation step) -/
theorem normalize_unit (v : List ℝ) (hv : normSq v ≠ 0) : normSq (normalizeRow v) = 1 := by
  have hpos : 0 < normSq v := lt_of_le_of_ne (normSq_nonneg v) (Ne.symm hv)
  have hs : Real.sqrt (normSq v) ≠ 0 := (Real.sqrt_pos.mpr hpos).ne'
  have key : ∀ w : List ℝ, ∀ c : ℝ, c ≠ 0 → normSq (w.map fun x => x / c) = normSq w / (c * c) := by
    intro w c hc
    induction w with
    | nil => simp [normSq]
    | cons a as ih =>
      simp only [normSq, List.map_cons, List.sum_cons] at ih ⊢
      rw [ih]; field_simp
  unfold normalizeRow
  rw [key v _ hs, Real.mul_self_sqrt hpos.le, div_self hv]

/-- best-state selection of `_relax_points`: keep the first state, replace it whenever a later
state has strictly lower potential energy -/
def bestState {σ : Type} (pot : σ → ℝ) [DecidableRel (fun a b : ℝ => a < b)] (init : σ) (later : List σ) : σ :=
  later.foldl (fun best s => if pot s < pot best then s else best) init

/-- **the state NSphere returns is one of the states it visited** — each of which has normalised
rows — so the returned points are unit vectors whatever the relaxation did. -/
theorem bestState_mem {σ : Type} (pot : σ → ℝ) [DecidableRel (fun a b : ℝ => a < b)] (init : σ) (later : List σ) :
    bestState pot init later = init ∨ bestState pot init later ∈ later := by
  unfold bestState
  induction later generalizing init with
  | nil => left; rfl
  | cons s rest ih =>
    simp only [List.foldl_cons]
    rcases ih (if pot s < pot init then s else init) with h | h
    · by_cases hs : pot s < pot init
      · simp only [hs, if_true] at h ⊢; right; rw [h]; simp
      · simp only [hs, if_false] at h ⊢; left; exact h
    · right; exact List.mem_cons_of_mem _ h

theorem bestState_unit {σ : Type} (pot : σ → ℝ) [DecidableRel (fun a b : ℝ => a < b)] (Unit : σ → Prop)
    (init : σ) (later : List σ) (h0 : Unit init) (hl : ∀ s ∈ later, Unit s) : Unit (bestState pot init later) := by
  rcases bestState_mem pot init later with h | h
  · rw [h]; exact h0
  · exact hl _ h


/-! ### non-vacuity: a 3-D hierarchy with exact leaves over `Int`-free rationals is exercised by
the correspondence harness; here the hypotheses are shown satisfiable on a tiny instance. -/
example : Hier (fun i => if i = 0 then none else some (i - 1)) 3 := by
  intro i j hi hc
  by_cases h : i = 0
  · simp [h] at hc
  · simp [h] at hc; omega

example : invRos (fun i => if i = 0 then none else some 0) (fun _ g p => match g with | none => p | some x => x + p)
    [(1 : Int), 2, 3] = some [1, 3, 4] := by decide

example : invRos (fun i => if i = 1 then some 2 else none) (fun _ _ p => p) [(1 : Int), 2, 3] = none := by decide

end VirVerif.C01
