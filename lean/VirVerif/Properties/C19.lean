/-
C19 — Evaluation is pure and repeatable; predefined models share no state.

  "Evaluating a model or computing a contour (pdf, cdf, icdf, seeded sampling, every contour
   class with a supplied sample, design conditions, plotting, saving) leaves the model's
   parameters and the caller's arrays unchanged, and repeating a deterministic evaluation returns
   identical results. Fitting a conditional distribution does not alter its template's own
   parameters, and objects returned by separate calls of the predefined-model functions share no
   mutable state, so fitting one model never changes another built from a fresh description."

Model: `Model/Heap.lean` — store `ObjId → Option Obj`, reachability, operations given by their
effect (writes + allocations) and a declared write footprint (`footprint`): nothing for every
evaluation op; for `fit m descs args` the mutable objects reachable from `m` and from the
caller's fit descriptions `descs` (the code fills them in place: `_check_and_fill_fit_desc`).

Clause → theorem. Every theorem is CONDITIONAL: it is about the heap model and takes a footprint
certificate as hypothesis (`Admissible s op e`: the write set of the op lies inside its declared
footprint; for getters freshness of the result). None of them asserts that a Python entry point is
pure — that is what the harness measures for every executed op (observed write set → `admissibleB`,
`freshResultB`, …, proven sound below) and what the property oracle checks on the real objects.
  evaluation leaves models and caller arrays unchanged      eval_frame, eval_frame_reach
                                                             (GIVEN op.isPure and Admissible, i.e. the op
                                                             wrote nothing: the whole reachable sub-store
                                                             — contents and shape — is the old one)
  repeating a deterministic evaluation gives the same        repeat_eval_same_result_partial  (PARTIAL: `Effect` has no
                                                             result component; proven: the input of the second
                                                             evaluation is the input of the first; GIVEN: the result
                                                             reads only the reachable sub-store — observed)
  fitting one model never changes another                    fit_frame_disjoint, fit_frame_disjoint_reach
                                                             (GIVEN Admissible and no shared MUTABLE object),
    … for every interleaving of any length                   interleaving_frame (per-step separation, as measured),
                                                             interleaving_static (initial separation in the sense of
                                                             fit_frame_disjoint: no shared MUTABLE object; + no
                                                             capture), interleaving_static_no_shared_object (corollary).
                                                             The driver checks each step on an independent store
                                                             (PER-STEP ONLY): that step k+1 starts from `apply` of
                                                             step k is the harness' bookkeeping, not a driver check.
  getter results share no mutable state                      getter_fresh (GIVEN hfresh2: every mutable object of
                                                             the second result was allocated by the second call —
                                                             measured against a gc snapshot), getter_fresh_checked
                                                             (hfresh2 from the driver's `getterpair` Booleans)
  conditional fit keeps its template                         cond_fit_keeps_template (GIVEN the template exists),
                                                             condFit_length, cond_fit_copies_fresh
                                                             (about the model function `condFit true`, the deep-copy
                                                             loop of ConditionalDistribution.fit; tied to the code by
                                                             the `condfit` correspondence on every fit),
                                                             cond_fit_nocopy_changes_template (counter-model
                                                             `condFit false`: the variant without the copy)
  the Boolean checks the driver evaluates on the harness'    reachList_sound, closedB_complete, wfB_sound, liveB_sound,
  id()-graphs imply the hypotheses above                     admissibleB_sound, effWFB_sound, noCaptureB_sound,
                                                             touchedB_false_sound, sharedMut_nil_sound,
                                                             sharedAny_nil_sound, sharedMutList_nil_sound,
                                                             freshResultB_sound

What is *observed* and not proven: that each real entry point has the effect shape the footprint
demands (the harness measures the write set of every executed op and the driver checks
`admissibleB`), that separately built models are disjoint (`sharedMut = []`, measured), that
results read nothing but the reachable store (evaluated twice), and — outside the heap model's
alphabet of roots until the harness adds them as roots — that the caller's semantics / par_rename /
limits / levels arguments and virocon's module-level state (globals, class attributes, default
argument values) are left alone by evaluations.
-/
import VirVerif.Model.Heap

namespace VirVerif.C19
open VirVerif.Heap

/-! ### store lemmas -/

theorem get_write_ne (s : Store) (w : ObjId × Obj) (o : ObjId) (h : w.1 ≠ o) :
    (s.write w).get o = s.get o := by
  simp [Store.write, Store.get, List.getElem?_set_ne h]

theorem next_write (s : Store) (w : ObjId × Obj) : (s.write w).next = s.next := by
  simp [Store.write, Store.next]

theorem get_foldl_write (ws : List (ObjId × Obj)) (s : Store) (o : ObjId)
    (h : ∀ w ∈ ws, w.1 ≠ o) : (ws.foldl Store.write s).get o = s.get o := by
  induction ws generalizing s with
  | nil => rfl
  | cons w ws ih =>
    simp only [List.foldl_cons]
    rw [ih _ (fun w' hw' => h w' (List.mem_cons_of_mem _ hw'))]
    exact get_write_ne s w o (h w (List.mem_cons_self ..))

theorem next_foldl_write (ws : List (ObjId × Obj)) (s : Store) :
    (ws.foldl Store.write s).next = s.next := by
  induction ws generalizing s with
  | nil => rfl
  | cons w ws ih => simp only [List.foldl_cons]; rw [ih, next_write]

theorem next_apply (s : Store) (e : Effect) : (s.apply e).next = s.next + e.allocs.length := by
  have := next_foldl_write e.writes s
  simp only [Store.next] at this
  simp [Store.apply, Store.next, this]

theorem get_apply_old (s : Store) (e : Effect) (o : ObjId) (ho : o < s.next)
    (h : ∀ w ∈ e.writes, w.1 ≠ o) : (s.apply e).get o = s.get o := by
  have hn := next_foldl_write e.writes s
  have hg := get_foldl_write e.writes s o h
  simp only [Store.next] at hn ho
  simp only [Store.get] at hg
  simp only [Store.apply, Store.get]
  rw [List.getElem?_append_left (by omega)]
  exact hg

/-- every object of the new store is an old one, a written value, or an allocated one -/
theorem get_foldl_write_cases (ws : List (ObjId × Obj)) (s : Store) (o : ObjId) (ob : Obj)
    (h : (ws.foldl Store.write s).get o = some ob) :
    s.get o = some ob ∨ ∃ w ∈ ws, w.2 = ob := by
  induction ws generalizing s with
  | nil => exact Or.inl h
  | cons w ws ih =>
    simp only [List.foldl_cons] at h
    rcases ih _ h with h1 | ⟨w', hw', e'⟩
    · by_cases hw : w.1 = o
      · right
        refine ⟨w, List.mem_cons_self .., ?_⟩
        simp only [Store.write, Store.get] at h1
        subst hw
        rw [List.getElem?_set_self'] at h1
        cases hx : s.objs[w.1]? with
        | none => simp [hx] at h1
        | some x => simp [hx] at h1; exact h1
      · left; rw [get_write_ne s w o hw] at h1; exact h1
    · exact Or.inr ⟨w', List.mem_cons_of_mem _ hw', e'⟩

theorem get_apply_cases (s : Store) (e : Effect) (o : ObjId) (ob : Obj)
    (h : (s.apply e).get o = some ob) :
    s.get o = some ob ∨ (∃ w ∈ e.writes, w.2 = ob) ∨ ob ∈ e.allocs := by
  simp only [Store.apply, Store.get] at h
  rcases Nat.lt_or_ge o (e.writes.foldl Store.write s).objs.length with hlt | hge
  · rw [List.getElem?_append_left hlt] at h
    rcases get_foldl_write_cases e.writes s o ob h with h1 | h2
    · exact Or.inl h1
    · exact Or.inr (Or.inl h2)
  · rw [List.getElem?_append_right hge] at h
    exact Or.inr (Or.inr (List.mem_of_getElem? h))

theorem get_some_lt (s : Store) (o : ObjId) (ob : Obj) (h : s.get o = some ob) : o < s.next := by
  simp only [Store.get] at h
  have := List.getElem?_eq_some_iff.mp h
  exact this.1

/-! ### reachability lemmas -/

theorem reach_lt {s : Store} {roots : List ObjId} (hwf : WF s) (hl : Live s roots) {o : ObjId}
    (h : Reach s roots o) : o < s.next := by
  induction h with
  | root hr => exact hl _ hr
  | step _ hget hmem _ => exact hwf _ _ hget _ hmem

theorem reach_mono_roots {s : Store} {r1 r2 : List ObjId} (h : ∀ r ∈ r1, r ∈ r2) {o : ObjId}
    (hr : Reach s r1 o) : Reach s r2 o := by
  induction hr with
  | root hr => exact Reach.root (h _ hr)
  | step _ hget hmem ih => exact Reach.step ih hget hmem

/-- The frame lemma: if no write lands in the sub-store reachable from `roots`, every object of
that sub-store keeps its content. -/
theorem frame_get {s : Store} {roots : List ObjId} {e : Effect} (hwf : WF s) (hl : Live s roots)
    (hw : ∀ w ∈ e.writes, ¬ Reach s roots w.1) {o : ObjId} (h : Reach s roots o) :
    (s.apply e).get o = s.get o := by
  apply get_apply_old s e o (reach_lt hwf hl h)
  intro w hwm heq
  exact hw w hwm (heq ▸ h)

/-- … and the reachable set itself is the same. -/
theorem frame_reach {s : Store} {roots : List ObjId} {e : Effect} (hwf : WF s) (hl : Live s roots)
    (hw : ∀ w ∈ e.writes, ¬ Reach s roots w.1) (o : ObjId) :
    Reach (s.apply e) roots o ↔ Reach s roots o := by
  constructor
  · intro h
    induction h with
    | root hr => exact Reach.root hr
    | step _ hget hmem ih =>
      rw [frame_get hwf hl hw ih] at hget
      exact Reach.step ih hget hmem
  · intro h
    induction h with
    | root hr => exact Reach.root hr
    | @step o o' ob hro hget hmem ih =>
      rw [← frame_get hwf hl hw hro] at hget
      exact Reach.step ih hget hmem

theorem wf_apply {s : Store} {e : Effect} (hwf : WF s) (he : EffWF s e) : WF (s.apply e) := by
  intro o ob hget o' hmem
  rw [next_apply]
  rcases get_apply_cases s e o ob hget with h | ⟨w, hw, rfl⟩ | h
  · have := hwf o ob h o' hmem; omega
  · exact he.1 w hw o' hmem
  · exact he.2 ob h o' hmem

theorem live_apply {s : Store} {e : Effect} {roots : List ObjId} (hl : Live s roots) :
    Live (s.apply e) roots := by
  intro r hr; rw [next_apply]; have := hl r hr; omega

/-! ### clause 1: evaluation ops are pure -/

theorem admissible_pure_no_writes {s : Store} {op : Op} {e : Effect} (hp : op.isPure = true)
    (ha : Admissible s op e) : e.writes = [] := by
  cases hws : e.writes with
  | nil => rfl
  | cons w ws =>
    exfalso
    have := ha w (by rw [hws]; exact List.mem_cons_self ..)
    cases op <;> simp_all [footprint, Op.isPure]

/-- for a pure op, `Admissible` says exactly "the effect writes nothing" (the footprint of a pure op
is empty): `hp` and `ha` of `eval_frame` together are `e.writes = []` -/
theorem admissible_pure_iff_no_writes {s : Store} {op : Op} {e : Effect} (hp : op.isPure = true) :
    Admissible s op e ↔ e.writes = [] := by
  constructor
  · exact admissible_pure_no_writes hp
  · intro h w hw
    rw [h] at hw
    exact absurd hw List.not_mem_nil

/-- **eval_frame.** (Content: `hp` + `ha` are together `e.writes = []`, see
`admissible_pure_iff_no_writes`; the theorem is the frame lemma `frame_get` for an allocation-only
effect: allocation does not disturb what existed. That the real op wrote nothing is MEASURED.)
After any evaluation op (eval, contour, design, plot, save, deepcopy, getter)
whose effect respects the declared footprint, every object reachable from any set of roots
(live models, caller arrays, contours) has the content it had before. -/
theorem eval_frame {s : Store} {op : Op} {e : Effect} {roots : List ObjId}
    (hwf : WF s) (hl : Live s roots) (hp : op.isPure = true) (ha : Admissible s op e)
    {o : ObjId} (h : Reach s roots o) : (s.apply e).get o = s.get o := by
  have hn := admissible_pure_no_writes hp ha
  exact frame_get hwf hl (by simp [hn]) h

/-- … and exactly the same objects are reachable (the sub-store is unchanged as a whole). -/
theorem eval_frame_reach {s : Store} {op : Op} {e : Effect} {roots : List ObjId}
    (hwf : WF s) (hl : Live s roots) (hp : op.isPure = true) (ha : Admissible s op e) (o : ObjId) :
    Reach (s.apply e) roots o ↔ Reach s roots o := by
  have hn := admissible_pure_no_writes hp ha
  exact frame_reach hwf hl (by simp [hn]) o

/-- **repeat_eval_same_result_partial.** Any observation that reads only the sub-store reachable
from its arguments gives the same value before and after an evaluation op — in particular the second
of two identical evaluations sees what the first one saw.
PARTIAL: `Effect` has no result component, so "repeating a deterministic evaluation returns identical
results" is not stated; what is proven is the one-line consequence of `eval_frame` that the INPUT of a
second evaluation (everything reachable from its arguments) is the input of the first. That the
result is a function of that input only (`hlocal`: no global RNG, no cache, no clock) is assumed here
and observed per run by evaluating twice. -/
theorem repeat_eval_same_result_partial {α : Type} {s : Store} {op : Op} {e : Effect} {roots : List ObjId}
    (hwf : WF s) (hl : Live s roots) (hp : op.isPure = true) (ha : Admissible s op e)
    (obs : (ObjId → Option Obj) → α)
    (hlocal : ∀ g g' : ObjId → Option Obj, (∀ o, Reach s roots o → g o = g' o) → obs g = obs g') :
    obs (s.apply e).get = obs s.get :=
  hlocal _ _ (fun _ h => eval_frame hwf hl hp ha h)

/-! ### clause 2: fitting A leaves B alone -/

/-- **fit_frame_disjoint.** If no *mutable* object is reachable both from `A` and from `B`, then
`fit A` (any effect within its footprint) leaves every object reachable from `B` unchanged. -/
theorem fit_frame_disjoint {s : Store} {A : ObjId} {descs args : List ObjId} {e : Effect}
    {rootsB : List ObjId} (hwf : WF s) (hl : Live s rootsB)
    (ha : Admissible s (.fit A descs args) e)
    (hsep : ∀ o, Reach s (A :: descs) o → Reach s rootsB o → s.isMut o = false)
    {o : ObjId} (h : Reach s rootsB o) : (s.apply e).get o = s.get o := by
  apply frame_get hwf hl _ h
  intro w hw hr
  have := ha w hw
  simp only [footprint] at this
  have h2 := hsep _ this.1 hr
  rw [this.2] at h2
  exact Bool.noConfusion h2

theorem fit_frame_disjoint_reach {s : Store} {A : ObjId} {descs args : List ObjId} {e : Effect}
    {rootsB : List ObjId} (hwf : WF s) (hl : Live s rootsB)
    (ha : Admissible s (.fit A descs args) e)
    (hsep : ∀ o, Reach s (A :: descs) o → Reach s rootsB o → s.isMut o = false) (o : ObjId) :
    Reach (s.apply e) rootsB o ↔ Reach s rootsB o := by
  apply frame_reach hwf hl _ o
  intro w hw hr
  have := ha w hw
  simp only [footprint] at this
  have h2 := hsep _ this.1 hr
  rw [this.2] at h2
  exact Bool.noConfusion h2

/-- per-step conditions as the harness measures them, evaluated in the *current* store:
the effect is within the op's footprint, creates no dangling reference, and the footprint
is disjoint from what `B` reaches. -/
def StepsOK (rootsB : List ObjId) : Store → List (Op × Effect) → Prop
  | _, [] => True
  | s, st :: rest =>
    Admissible s st.1 st.2 ∧ EffWF s st.2 ∧
    (∀ o, footprint s st.1 o → ¬ Reach s rootsB o) ∧
    StepsOK rootsB (s.apply st.2) rest

/-- **interleaving_frame.** For every sequence of operations of any length over the whole
alphabet, if every step respects its footprint and that footprint avoids `B`'s sub-store,
then `B`'s sub-store at the end is the one at the start. -/
theorem interleaving_frame {rootsB : List ObjId} (steps : List (Op × Effect)) :
    ∀ {s : Store}, WF s → Live s rootsB → StepsOK rootsB s steps →
      (∀ o, Reach s rootsB o → (s.run (steps.map (·.2))).get o = s.get o) ∧
      (∀ o, Reach (s.run (steps.map (·.2))) rootsB o ↔ Reach s rootsB o) := by
  induction steps with
  | nil => intro s _ _ _; exact ⟨fun _ _ => rfl, fun _ => Iff.rfl⟩
  | cons st rest ih =>
    intro s hwf hl hok
    obtain ⟨ha, hew, hdis, hrest⟩ := hok
    have hw : ∀ w ∈ st.2.writes, ¬ Reach s rootsB w.1 := fun w hw => hdis _ (ha w hw)
    have ih' := ih (wf_apply hwf hew) (live_apply hl) hrest
    simp only [List.map_cons, Store.run]
    constructor
    · intro o ho
      rw [ih'.1 o ((frame_reach hwf hl hw o).mpr ho)]
      exact frame_get hwf hl hw ho
    · intro o
      rw [ih'.2 o]
      exact frame_reach hwf hl hw o

/-- static conditions: every step respects its footprint; fitted models belong to `fitted` and
do not capture foreign objects. No separation is assumed per step. -/
def StaticOK (fitted : List ObjId) : Store → List (Op × Effect) → Prop
  | _, [] => True
  | s, st :: rest =>
    Admissible s st.1 st.2 ∧ EffWF s st.2 ∧
    (match st.1 with
     | .fit m ds _ => (∀ r ∈ m :: ds, r ∈ fitted) ∧ NoCapture s (m :: ds) st.2
     | _ => True) ∧
    StaticOK fitted (s.apply st.2) rest

/-- what a no-capture fit can reach afterwards: fresh objects or what was reachable before -/
theorem reach_after_fit {s : Store} {fitted fr : List ObjId}
    {e : Effect} (hm : ∀ r ∈ fr, r ∈ fitted)
    (hnc : NoCapture s fr e) {o : ObjId} (h : Reach (s.apply e) fitted o) :
    s.next ≤ o ∨ Reach s fitted o := by
  have hsub : ∀ o, Reach s fr o → Reach s fitted o := fun o ho => reach_mono_roots hm ho
  induction h with
  | root hr => exact Or.inr (Reach.root hr)
  | @step o o' ob _ hget hmem ih =>
    rcases get_apply_cases s e o ob hget with h1 | ⟨w, hw, rfl⟩ | h3
    · rcases ih with hfresh | hold
      · have := get_some_lt s o ob h1; omega
      · exact Or.inr (Reach.step hold h1 hmem)
    · rcases hnc.1 w hw o' hmem with h | h
      · exact Or.inl h
      · exact Or.inr (hsub _ h)
    · rcases hnc.2 ob h3 o' hmem with h | h
      · exact Or.inl h
      · exact Or.inr (hsub _ h)

/-- `isMut` only looks at the object's content -/
theorem isMut_congr {s s' : Store} {o : ObjId} (h : s'.get o = s.get o) : s'.isMut o = s.isMut o := by
  simp only [Store.isMut, h]

/-- **interleaving_static** (the lifted form of `fit_frame_disjoint`, SAME separation hypothesis).
Let `fitted` be the models that are ever fitted and `B` anything else (another model, a caller
array). If initially no *mutable* object is reachable from both (shared immutable objects - tuples,
module-level constants - are allowed, exactly as in `fit_frame_disjoint` and as `sharedMut = []`
measures), then after EVERY interleaving of evaluation ops and no-capture fits of models in
`fitted`, of ANY length, each object reachable from `B` has its initial content and `B` reaches the
same objects. -/
theorem interleaving_static {fitted rootsB : List ObjId} (steps : List (Op × Effect)) :
    ∀ {s : Store}, WF s → Live s fitted → Live s rootsB →
      (∀ o, Reach s fitted o → Reach s rootsB o → s.isMut o = false) → StaticOK fitted s steps →
      (∀ o, Reach s rootsB o → (s.run (steps.map (·.2))).get o = s.get o) ∧
      (∀ o, Reach (s.run (steps.map (·.2))) rootsB o ↔ Reach s rootsB o) := by
  induction steps with
  | nil => intro s _ _ _ _ _; exact ⟨fun _ _ => rfl, fun _ => Iff.rfl⟩
  | cons st rest ih =>
    intro s hwf hlA hlB hsep hok
    obtain ⟨ha, hew, hop, hrest⟩ := hok
    -- no write of this step lands in B's sub-store
    have hw : ∀ w ∈ st.2.writes, ¬ Reach s rootsB w.1 := by
      intro w hwm hr
      have hf := ha w hwm
      cases hst : st.1 with
      | fit m ds args =>
        rw [hst] at hf hop
        simp only [footprint] at hf
        have h2 := hsep _ (reach_mono_roots hop.1 hf.1) hr
        rw [hf.2] at h2
        exact Bool.noConfusion h2
      | _ => rw [hst] at hf; exact hf
    -- separation is preserved
    have hsep' : ∀ o, Reach (s.apply st.2) fitted o → Reach (s.apply st.2) rootsB o →
        (s.apply st.2).isMut o = false := by
      intro o hA hB
      have hB' := (frame_reach hwf hlB hw o).mp hB
      have hfreshOrOld : s.next ≤ o ∨ Reach s fitted o := by
        cases hst : st.1 with
        | fit m ds args =>
          rw [hst] at hop
          exact reach_after_fit hop.1 hop.2 hA
        | _ =>
          right
          have hnw : st.2.writes = [] :=
            admissible_pure_no_writes (by rw [hst]; rfl) ha
          exact (frame_reach hwf hlA (by simp [hnw]) o).mp hA
      rcases hfreshOrOld with h | h
      · have := reach_lt hwf hlB hB'; omega
      · rw [isMut_congr (frame_get hwf hlB hw hB')]
        exact hsep o h hB'
    have ih' := ih (wf_apply hwf hew) (live_apply hlA) (live_apply hlB) hsep' hrest
    simp only [List.map_cons, Store.run]
    constructor
    · intro o ho
      rw [ih'.1 o ((frame_reach hwf hlB hw o).mpr ho)]
      exact frame_get hwf hlB hw ho
    · intro o
      rw [ih'.2 o]
      exact frame_reach hwf hlB hw o

/-- the old, stronger-hypothesis form (NO shared object at all, not even an immutable one): a
corollary, kept because `sharedAny = []` is also measured -/
theorem interleaving_static_no_shared_object {fitted rootsB : List ObjId} (steps : List (Op × Effect))
    {s : Store} (hwf : WF s) (hlA : Live s fitted) (hlB : Live s rootsB)
    (hsep : ∀ o, Reach s fitted o → ¬ Reach s rootsB o) (hok : StaticOK fitted s steps) :
    (∀ o, Reach s rootsB o → (s.run (steps.map (·.2))).get o = s.get o) ∧
    (∀ o, Reach (s.run (steps.map (·.2))) rootsB o ↔ Reach s rootsB o) :=
  interleaving_static steps hwf hlA hlB (fun o hA hB => absurd hB (hsep o hA)) hok

/-! ### clause 3: getter results are fresh -/

/-- **getter_fresh.** Two successive getter calls (effects within the getter footprint, i.e.
allocation only). If every mutable object of the second result was allocated by the second
call (`hfresh2` - this is most of the conclusion; what the theorem adds is that the FIRST result,
being reachable before the second call, cannot contain an object allocated by it, because the second
call writes nothing), then no mutable object is reachable from both results.
`getter_fresh_checked` discharges `hfresh2` from the Boolean the driver evaluates. -/
theorem getter_fresh {s : Store} {k1 k2 : Nat} {e1 e2 : Effect} {r1 r2 : ObjId}
    (hwf : WF s) (hw1 : EffWF s e1) (_ha1 : Admissible s (.getter k1) e1)
    (hr1 : r1 < (s.apply e1).next)
    (ha2 : Admissible (s.apply e1) (.getter k2) e2)
    (hfresh2 : ∀ o, Reach ((s.apply e1).apply e2) [r2] o →
      ((s.apply e1).apply e2).isMut o = true → (s.apply e1).next ≤ o) :
    ∀ o, Reach ((s.apply e1).apply e2) [r1] o → Reach ((s.apply e1).apply e2) [r2] o →
      ((s.apply e1).apply e2).isMut o = false := by
  intro o h1 h2
  cases hm : ((s.apply e1).apply e2).isMut o with
  | false => rfl
  | true =>
    exfalso
    have hwf1 := wf_apply hwf hw1
    have hl1 : Live (s.apply e1) [r1] := by intro r hr; simp at hr; exact hr ▸ hr1
    have h1' := (eval_frame_reach hwf1 hl1 (op := .getter k2) rfl ha2 o).mp h1
    have hlt := reach_lt hwf1 hl1 h1'
    have := hfresh2 o h2 hm
    omega

/-! ### clause 4: `ConditionalDistribution.fit` and its template -/

theorem condFit_copy_get_old (ps : List (List Val)) :
    ∀ (s : Store) (t o : ObjId), o < s.next → (condFit true s t ps).1.get o = s.get o := by
  induction ps with
  | nil => intro s t o _; rfl
  | cons p ps ih =>
    intro s t o ho
    simp only [condFit]
    cases hg : s.get t with
    | none => rfl
    | some tob =>
      simp only [if_true]
      have hlen : (Store.write ⟨s.objs ++ [tob]⟩ (s.next, { tob with fields := p })).next
          = s.next + 1 := by
        simp [Store.write, Store.next]
      rw [ih _ t o (by rw [hlen]; omega)]
      rw [get_write_ne _ _ o (by simp only; omega)]
      simp only [Store.get, Store.next] at ho ⊢
      exact List.getElem?_append_left ho

/-- the number of per-interval distributions is the number of intervals as soon as the template
exists (for a template id that is not allocated `condFit` returns `(s, [])` at once: that default is
NOT the code's behaviour and is excluded by `hg` below) -/
theorem condFit_length (b : Bool) (ps : List (List Val)) :
    ∀ (s : Store) (t : ObjId) (tob : Obj), s.get t = some tob →
      (condFit b s t ps).2.length = ps.length := by
  induction ps with
  | nil => intro s t tob _; simp [condFit]
  | cons p ps ih =>
    intro s t tob hg
    have hlt := get_some_lt s t tob hg
    simp only [condFit, hg]
    cases b with
    | true =>
      simp only [if_true, List.length_cons, Nat.add_right_cancel_iff]
      apply ih _ t tob
      rw [get_write_ne _ _ t (by simp only; omega)]
      simp only [Store.get, Store.next] at hlt ⊢
      rw [List.getElem?_append_left hlt]
      exact hg
    | false =>
      simp only [Bool.false_eq_true, if_false, List.length_cons, Nat.add_right_cancel_iff]
      apply ih _ t { tob with fields := p }
      simp only [Store.write, Store.get, Store.next] at hlt ⊢
      rw [List.getElem?_set_self hlt]

/-- **cond_fit_keeps_template.** For a template that EXISTS (`hg`; without it the statement would
hold only through the model's `none => (s, [])` default), with a deep copy per interval: after
fitting any number of intervals to any fitted values the template still has exactly its content
`tob`, one distribution per interval was produced (the loop really ran), and every other object
that existed is unchanged too. -/
theorem cond_fit_keeps_template (s : Store) (t : ObjId) (tob : Obj) (ps : List (List Val))
    (hg : s.get t = some tob) :
    (condFit true s t ps).1.get t = some tob ∧
    (condFit true s t ps).2.length = ps.length ∧
    ∀ o, o < s.next → (condFit true s t ps).1.get o = s.get o := by
  refine ⟨?_, condFit_length true ps s t tob hg, fun o ho => condFit_copy_get_old ps s t o ho⟩
  rw [condFit_copy_get_old ps s t t (get_some_lt s t tob hg), hg]

/-- the per-interval distributions are fresh, pairwise different objects, none of them the template -/
theorem cond_fit_copies_fresh (ps : List (List Val)) :
    ∀ (s : Store) (t : ObjId), t < s.next →
      (∀ d ∈ (condFit true s t ps).2, s.next ≤ d) ∧ (condFit true s t ps).2.Nodup ∧
      (condFit true s t ps).2.length = ps.length := by
  induction ps with
  | nil => intro s t _; simp [condFit]
  | cons p ps ih =>
    intro s t ht
    simp only [condFit]
    cases hg : s.get t with
    | none =>
      exfalso
      simp only [Store.get, Store.next] at hg ht
      rw [List.getElem?_eq_none_iff] at hg
      omega
    | some tob =>
      simp only [if_true]
      have hlen : (Store.write ⟨s.objs ++ [tob]⟩ (s.next, { tob with fields := p })).next
          = s.next + 1 := by
        simp [Store.write, Store.next]
      obtain ⟨h1, h2, h3⟩ := ih (Store.write ⟨s.objs ++ [tob]⟩ (s.next, { tob with fields := p })) t
        (by rw [hlen]; omega)
      rw [hlen] at h1
      refine ⟨?_, ?_, ?_⟩
      · intro d hd
        rcases List.mem_cons.mp hd with rfl | hd
        · exact Nat.le_refl _
        · have := h1 d hd; omega
      · refine List.nodup_cons.mpr ⟨?_, h2⟩
        intro hmem
        have := h1 _ hmem
        omega
      · simp [h3]

theorem condFit_nocopy_get (ps : List (List Val)) :
    ∀ (s : Store) (t : ObjId) (tob : Obj), s.get t = some tob → (hne : ps ≠ []) →
      (condFit false s t ps).1.get t = some { tob with fields := ps.getLast hne } := by
  induction ps with
  | nil => intro _ _ _ _ h; exact absurd rfl h
  | cons p ps ih =>
    intro s t tob hg _
    simp only [condFit, hg]
    have hlt := get_some_lt s t tob hg
    have hg2 : (s.write (t, { tob with fields := p })).get t = some { tob with fields := p } := by
      simp only [Store.write, Store.get, Store.next] at hlt ⊢
      rw [List.getElem?_set_self hlt]
    cases ps with
    | nil => simpa [condFit] using hg2
    | cons q qs =>
      have := ih (s.write (t, { tob with fields := p })) t { tob with fields := p } hg2
        (by simp)
      simp only [Bool.false_eq_true, if_false] at this ⊢
      rw [this]
      simp

/-- **counter-model.** Without the deep copy the template ends up holding the parameters fitted
to the LAST interval — so it is changed whenever those differ from its own. -/
theorem cond_fit_nocopy_changes_template (s : Store) (t : ObjId) (tob : Obj)
    (ps : List (List Val)) (hg : s.get t = some tob) (hne : ps ≠ [])
    (hdiff : ps.getLast hne ≠ tob.fields) : (condFit false s t ps).1.get t ≠ s.get t := by
  rw [condFit_nocopy_get ps s t tob hg hne, hg]
  intro h
  injection h with h
  exact hdiff (congrArg Obj.fields h)

/-! ### the executable checks imply the hypotheses -/

theorem contains_true_iff {l : List ObjId} {o : ObjId} : l.contains o = true ↔ o ∈ l := by
  simp

theorem dfs_sound (s : Store) (roots : List ObjId) :
    ∀ (fuel : Nat) (st seen : List ObjId),
      (∀ x ∈ st, Reach s roots x) → (∀ x ∈ seen, Reach s roots x) →
      ∀ x ∈ dfs s fuel st seen, Reach s roots x := by
  intro fuel
  induction fuel with
  | zero => intro st seen _ hs x hx; simpa [dfs] using hs x (by simpa [dfs] using hx)
  | succ n ih =>
    intro st seen hst hs x hx
    cases st with
    | nil => simp only [dfs] at hx; exact hs x hx
    | cons o st =>
      simp only [dfs] at hx
      split at hx
      · exact ih st seen (fun y hy => hst y (List.mem_cons_of_mem _ hy)) hs x hx
      · refine ih _ _ ?_ ?_ x hx
        · intro y hy
          rcases List.mem_append.mp hy with h | h
          · have ho := hst o (List.mem_cons_self ..)
            simp only [Store.succs] at h
            cases hg : s.get o with
            | none => simp [hg] at h
            | some ob => simp only [hg] at h; exact Reach.step ho hg h
          · exact hst y (List.mem_cons_of_mem _ h)
        · intro y hy
          rcases List.mem_cons.mp hy with rfl | h
          · exact hst _ (List.mem_cons_self ..)
          · exact hs y h

/-- everything the driver lists as reachable is reachable -/
theorem reachList_sound (s : Store) (roots : List ObjId) (o : ObjId)
    (h : o ∈ reachList s roots) : Reach s roots o :=
  dfs_sound s roots _ roots [] (fun _ hx => Reach.root hx) (fun _ hx => by simp at hx) o h

/-- … and if the certificate check passes, everything reachable is listed -/
theorem closedB_complete (s : Store) (roots l : List ObjId) (hc : closedB s roots l = true)
    (o : ObjId) (h : Reach s roots o) : o ∈ l := by
  simp only [closedB, Bool.and_eq_true, List.all_eq_true] at hc
  induction h with
  | root hr => exact contains_true_iff.mp (hc.1 _ hr)
  | @step o o' ob _ hget hmem ih =>
    have := hc.2 o ih
    simp only [Store.succs, hget] at this
    exact contains_true_iff.mp (this o' hmem)

theorem wfB_sound (s : Store) (h : wfB s = true) : WF s := by
  intro o ob hget o' hmem
  simp only [wfB, List.all_eq_true] at h
  have hm : ob ∈ s.objs := List.mem_of_getElem? hget
  have := h ob hm o' hmem
  simpa using this

theorem liveB_sound (s : Store) (roots : List ObjId) (h : liveB s roots = true) : Live s roots := by
  intro r hr
  simp only [liveB, List.all_eq_true] at h
  simpa using h r hr

theorem mem_footprintList_sound (s : Store) (op : Op) (o : ObjId)
    (h : o ∈ footprintList s op) : footprint s op o := by
  cases op with
  | fit m ds args =>
    simp only [footprintList, List.mem_filter] at h
    exact ⟨reachList_sound s (m :: ds) o h.1, h.2⟩
  | _ => simp [footprintList] at h

/-- the observed write set passes the driver's check ⇒ the effect is admissible -/
theorem admissibleB_sound (s : Store) (op : Op) (e : Effect)
    (h : admissibleB s op (e.writes.map (·.1)) = true) : Admissible s op e := by
  intro w hw
  simp only [admissibleB, List.all_eq_true] at h
  have := h w.1 (List.mem_map.mpr ⟨w, hw, rfl⟩)
  exact mem_footprintList_sound s op w.1 (contains_true_iff.mp this)

theorem effWFB_sound (s : Store) (e : Effect) (h : effWFB s e = true) : EffWF s e := by
  simp only [effWFB, Bool.and_eq_true, List.all_eq_true] at h
  constructor
  · intro w hw o' ho'; simpa using h.1 w hw o' ho'
  · intro ob hob o' ho'; simpa using h.2 ob hob o' ho'

theorem noCaptureB_sound (s : Store) (fr : List ObjId) (e : Effect) (h : noCaptureB s fr e = true) :
    NoCapture s fr e := by
  simp only [noCaptureB, Bool.and_eq_true, List.all_eq_true, Bool.or_eq_true,
    decide_eq_true_eq] at h
  constructor
  · intro w hw o' ho'
    rcases h.1 w hw o' ho' with h1 | h1
    · exact Or.inl h1
    · exact Or.inr (reachList_sound s fr o' (contains_true_iff.mp h1))
  · intro ob hob o' ho'
    rcases h.2 ob hob o' ho' with h1 | h1
    · exact Or.inl h1
    · exact Or.inr (reachList_sound s fr o' (contains_true_iff.mp h1))

/-- "the model says root `r` is untouched" ⇒ no write lands in `r`'s sub-store, hence
(by `frame_get`, `frame_reach`) the sub-store is unchanged -/
theorem touchedB_false_sound (s : Store) (r : ObjId) (ws : List ObjId)
    (hc : closedB s [r] (reachList s [r]) = true) (h : touchedB s r ws = false) :
    ∀ w ∈ ws, ¬ Reach s [r] w := by
  intro w hw hr
  have hmem := closedB_complete s [r] _ hc w hr
  have : touchedB s r ws = true := by
    simp only [touchedB, List.any_eq_true]
    exact ⟨w, hw, contains_true_iff.mpr hmem⟩
  rw [h] at this
  exact Bool.noConfusion this

theorem sharedMut_nil_sound (s : Store) (as : List ObjId) (b : ObjId)
    (hca : closedB s as (reachList s as) = true) (hcb : closedB s [b] (reachList s [b]) = true)
    (h : sharedMut s as b = []) :
    ∀ o, Reach s as o → Reach s [b] o → s.isMut o = false := by
  intro o ha hb
  cases hm : s.isMut o with
  | false => rfl
  | true =>
    exfalso
    have : o ∈ sharedMut s as b := by
      simp only [sharedMut, List.mem_filter]
      exact ⟨⟨closedB_complete s as _ hca o ha,
        contains_true_iff.mpr (closedB_complete s [b] _ hcb o hb)⟩, hm⟩
    rw [h] at this
    simp at this

theorem sharedAny_nil_sound (s : Store) (as : List ObjId) (b : ObjId)
    (hca : closedB s as (reachList s as) = true) (hcb : closedB s [b] (reachList s [b]) = true)
    (h : sharedAny s as b = []) : ∀ o, Reach s as o → ¬ Reach s [b] o := by
  intro o ha hb
  have : o ∈ sharedAny s as b := by
    simp only [sharedAny, List.mem_filter]
    exact ⟨closedB_complete s as _ hca o ha,
      contains_true_iff.mpr (closedB_complete s [b] _ hcb o hb)⟩
  rw [h] at this
  simp at this

theorem freshResultB_sound (s : Store) (e : Effect) (r : ObjId)
    (hc : closedB (s.apply e) [r] (reachList (s.apply e) [r]) = true)
    (h : freshResultB s e r = true) :
    ∀ o, Reach (s.apply e) [r] o → (s.apply e).isMut o = true → s.next ≤ o := by
  intro o hr hm
  simp only [freshResultB, List.all_eq_true, List.mem_filter, decide_eq_true_eq] at h
  exact h o ⟨closedB_complete _ [r] _ hc o hr, hm⟩

/-- **getter_fresh_checked**: `getter_fresh` with `hfresh2` discharged by what the driver's
`getterpair` op evaluates (`cert` and `fresh2`): two allocation-only getter calls whose second
result passes `freshResultB` share no mutable object. -/
theorem getter_fresh_checked {s : Store} {k1 k2 : Nat} {e1 e2 : Effect} {r1 r2 : ObjId}
    (hwf : WF s) (hw1 : EffWF s e1) (ha1 : Admissible s (.getter k1) e1)
    (hr1 : r1 < (s.apply e1).next) (ha2 : Admissible (s.apply e1) (.getter k2) e2)
    (hc : closedB ((s.apply e1).apply e2) [r2] (reachList ((s.apply e1).apply e2) [r2]) = true)
    (hf : freshResultB (s.apply e1) e2 r2 = true) :
    ∀ o, Reach ((s.apply e1).apply e2) [r1] o → Reach ((s.apply e1).apply e2) [r2] o →
      ((s.apply e1).apply e2).isMut o = false :=
  getter_fresh hwf hw1 ha1 hr1 ha2 (freshResultB_sound (s.apply e1) e2 r2 hc hf)

/-- list-of-roots version of `sharedMut_nil_sound` (the separation hypothesis of
`interleaving_static` for a set `B` of several roots) -/
theorem sharedMutList_nil_sound (s : Store) (as bs : List ObjId)
    (hca : closedB s as (reachList s as) = true) (hcb : closedB s bs (reachList s bs) = true)
    (h : ((reachList s as).filter (reachList s bs).contains).filter s.isMut = []) :
    ∀ o, Reach s as o → Reach s bs o → s.isMut o = false := by
  intro o ha hb
  cases hm : s.isMut o with
  | false => rfl
  | true =>
    exfalso
    have : o ∈ ((reachList s as).filter (reachList s bs).contains).filter s.isMut := by
      simp only [List.mem_filter]
      exact ⟨⟨closedB_complete s as _ hca o ha,
        contains_true_iff.mpr (closedB_complete s bs _ hcb o hb)⟩, hm⟩
    rw [h] at this
    simp at this

/-! ### non-vacuity: concrete stores -/

/-- two models A (0 → 1) and B (2 → 3), a shared *immutable* object 4, a caller array 5 -/
def exStore : Store := ⟨[
  ⟨true, [.ref 1, .ref 4]⟩, ⟨true, [.imm 10]⟩,
  ⟨true, [.ref 3, .ref 4]⟩, ⟨true, [.imm 20]⟩,
  ⟨false, [.imm 7]⟩, ⟨true, [.imm 99]⟩]⟩

/-- `fit A`: rewrites A's parameter object 1 and hangs a fresh object on A -/
def exFit : Effect := ⟨[(1, ⟨true, [.imm 11]⟩), (0, ⟨true, [.ref 1, .ref 4, .ref 6]⟩)], [⟨true, [.imm 5]⟩]⟩

/-- an evaluation: allocates a result that points to A and the array, writes nothing -/
def exEval : Effect := ⟨[], [⟨true, [.ref 0, .ref 5]⟩]⟩

example : wfB exStore = true ∧ liveB exStore [0, 2, 5] = true := by decide
example : closedB exStore [0] (reachList exStore [0]) = true ∧
    closedB exStore [2] (reachList exStore [2]) = true := by decide
example : reachList exStore [0] = [4, 1, 0] := by decide
-- A and B share object 4, but it is immutable: the hypothesis of `fit_frame_disjoint` holds
example : sharedAny exStore [0] 2 = [4] ∧ sharedMut exStore [0] 2 = [] := by decide
example : admissibleB exStore (.fit 0 [] [5]) (exFit.writes.map (·.1)) = true := by decide
example : effWFB exStore exFit = true ∧ noCaptureB exStore [0] exFit = true := by decide
-- the fit really changes A …
example : (exStore.apply exFit).get 1 = some ⟨true, [.imm 11]⟩ := by decide
-- … and is not admissible as an evaluation op, nor if it wrote B's parameters
example : admissibleB exStore (.eval 0 [5]) (exFit.writes.map (·.1)) = false := by decide
example : admissibleB exStore (.fit 0 [] [5]) [3] = false := by decide
example : touchedB exStore 2 (exFit.writes.map (·.1)) = false ∧
    touchedB exStore 0 (exFit.writes.map (·.1)) = true := by decide
-- conclusion of fit_frame_disjoint on the example, by the theorem
example : (exStore.apply exFit).get 3 = exStore.get 3 :=
  fit_frame_disjoint (A := 0) (descs := []) (args := [5]) (rootsB := [2]) (wfB_sound _ (by decide))
    (liveB_sound _ _ (by decide)) (admissibleB_sound _ _ _ (by decide))
    (sharedMut_nil_sound _ [0] 2 (by decide) (by decide) (by decide))
    (Reach.step (Reach.root (List.mem_cons_self ..)) (ob := ⟨true, [.ref 3, .ref 4]⟩) (by decide)
      (by decide))
/-- an interleaving fit A ; eval ; plot that satisfies the static conditions -/
theorem exStaticOK :
    StaticOK [0] exStore [(.fit 0 [] [5], exFit), (.eval 0 [5], exEval), (.plot [0, 5], ⟨[], []⟩)] := by
  refine ⟨admissibleB_sound _ _ _ (by decide), effWFB_sound _ _ (by decide),
    ⟨by decide, noCaptureB_sound _ _ _ (by decide)⟩, ?_⟩
  refine ⟨admissibleB_sound _ _ _ (by decide), effWFB_sound _ _ (by decide), trivial, ?_⟩
  exact ⟨admissibleB_sound _ _ _ (by decide), effWFB_sound _ _ (by decide), trivial, trivial⟩
-- with B = {2, 5}: A and B share the IMMUTABLE object 4 (so the old hypothesis "nothing reachable from
-- both" is false here), no mutable one: the hypothesis of `interleaving_static` holds and the theorem
-- gives the conclusion for B's parameter object 3 and the caller array 5
example : ¬ (∀ o, Reach exStore [0] o → ¬ Reach exStore [2, 5] o) := by
  intro h
  exact h 4 (reachList_sound _ _ _ (by decide)) (reachList_sound _ _ _ (by decide))
example : (exStore.run [exFit, exEval, ⟨[], []⟩]).get 3 = exStore.get 3 ∧
    (exStore.run [exFit, exEval, ⟨[], []⟩]).get 5 = exStore.get 5 := by
  have h := (interleaving_static (fitted := [0]) (rootsB := [2, 5]) _ (wfB_sound _ (by decide))
    (liveB_sound _ _ (by decide)) (liveB_sound _ _ (by decide))
    (sharedMutList_nil_sound _ [0] [2, 5] (by decide) (by decide) (by decide)) exStaticOK).1
  exact ⟨h 3 (reachList_sound _ _ _ (by decide)), h 5 (reachList_sound _ _ _ (by decide))⟩
-- getter freshness on a concrete pair of results
example : freshResultB exStore ⟨[], [⟨true, [.ref 7, .ref 4]⟩, ⟨true, [.imm 1]⟩]⟩ 6 = true := by decide
-- a getter that hands out the pre-existing mutable object 1 is not fresh
example : freshResultB exStore ⟨[], [⟨true, [.ref 1]⟩]⟩ 6 = false := by decide
-- conditional fit: template 1, two intervals
example : (condFit true exStore 1 [[.imm 12], [.imm 13]]).1.get 1 = some ⟨true, [.imm 10]⟩ ∧
    (condFit true exStore 1 [[.imm 12], [.imm 13]]).2 = [6, 7] ∧
    (condFit false exStore 1 [[.imm 12], [.imm 13]]).1.get 1 = some ⟨true, [.imm 13]⟩ ∧
    (condFit false exStore 1 [[.imm 12], [.imm 13]]).2 = [1, 1] := by decide

end VirVerif.C19
