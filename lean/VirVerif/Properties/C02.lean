/-
C02 — Highest-density contour encloses the highest-density region of content 1-alpha.

  "For every model, alpha, grid limits and cell sizes, the region enclosed by a
   highest-density contour - the grid cells whose cell-averaged density is at least the
   reported threshold fm - has total cell probability that is at most 1-alpha and misses
   1-alpha by less than the probability of the densest excluded cell; every enclosed cell is
   at least as dense as every excluded cell, and fm is the density of the least dense
   enclosed cell. If the grid cannot capture probability 1-alpha a RuntimeWarning is raised
   rather than a smaller region being returned silently, and cell probabilities are the
   documented CDF differences of the (conditional) distributions."

Clause → theorem (cells are items `x : β` with probability `w x ≥ 0`, visited in the order
`sortDesc` produces; `selItems`/`exclItems` are the code's `cum_sum <= limit` filter)
  content ≤ 1-α                                   select_total_le
  misses 1-α by less than densest excluded cell   select_next_exceeds (+ excl_head_is_max)
  enclosed ≥ excluded (probabilities)             select_dominates
  last added cell = least probable enclosed cell  last_is_min_selected
  … in DENSITIES, with the reported fm = fmOf probM deltas: fm is the density of the least dense
  enclosed cell, enclosed ≥ fm ≥ excluded         fm_is_min_enclosed_density (on `hdrRegion`, positive deltas),
                                                  fmOf_strictMono, prob_le_iff_density_le,
                                                  fmOf_cellProb (fmOf (cellProbAt … I) deltas = jointCellAt … I:
                                                  probability / every delta IS the cell-averaged density)
  region = {density ≥ fm} iff no tie at the cut   superlevel_of_no_tie, tie_breaks_superlevel
  warning iff grid content < 1-α; fallback        hdr_region_spec (composed); warn_iff_total_lt, fallback_all_cells,
                                                  no_warning_region are one-step unfoldings of the definitions
  the order visited is a sorted permutation       sortDesc_perm, sortDesc_sorted
  IndexError branch (densest cell > 1-α)          empty_iff_first_gt_limit
  ValueError branch (NaN in the array)            nan_input_refused, checked_eq_of_no_nan (one-step unfoldings of
                                                  the guard of `cumsumBiggestUntilChecked`)
  ALL of the above composed for the functions the driver runs (`cumsumBiggestUntil` on the order
  `sortDesc` produces, `hdrRegion`), hypothesis: cell probabilities ≥ 0
                                                  cumsum_biggest_until_spec, hdr_region_spec (RegionFacts)
  cell probabilities ≥ 0 (leaf cdf monotone), cell probabilities = CDF differences, float rounding of
  the cumulative sum                              observed per run (partial), see harness/c02.py
  the (cond, dist) matrix lands on the right axes of the n-D grid iff the conditioning
  axis comes first (hierarchy); transposed otherwise  reshape_index_of_cond_lt, reshape_transposes_if_cond_gt,
                                                      reshape_index_single — numpy-reshape facts about `flatUpTo`
                                                      (run by the separate op `flat`, compared with numpy)
  … and the direct indexing of `cellAvgAt` (run by `hdc`/`cellprobs`) reads exactly the entry of the
  code's cond-major buffer at that offset         cellAvgAt_reads_reshaped_matrix, cellAvgAt_reads_reshaped_vector
                                                  (`condMatrix`/`margVector` are defined here as the buffer
                                                  the code fills; not executed)
-/
import VirVerif.Model.Hdc
import Mathlib.Algebra.Order.Field.Basic
import Mathlib.Algebra.Order.BigOperators.Group.List
import Mathlib.Data.List.Basic
import Mathlib.Data.List.Sort
import Mathlib.Tactic.Linarith
import Mathlib.Tactic.Ring
import Mathlib.Tactic.NormNum
import Mathlib.Algebra.BigOperators.Group.List.Basic

namespace VirVerif.C02
open VirVerif

variable {α : Type} [Field α] [LinearOrder α] [IsStrictOrderedRing α] {β : Type}

/-- total probability of a list of cells -/
def content (w : β → α) (l : List β) : α := (l.map w).sum

omit [LinearOrder α] [IsStrictOrderedRing α] in
@[simp] theorem content_nil (w : β → α) : content w [] = 0 := rfl
omit [LinearOrder α] [IsStrictOrderedRing α] in
@[simp] theorem content_cons (w : β → α) (x : β) (l : List β) :
    content w (x :: l) = w x + content w l := by simp [content]

/-- with non-negative cell probabilities, once the running sum exceeds the limit nothing
later is selected: the selection is a prefix of the visiting order. -/
theorem selItems_nil_of_gt (w : β → α) (acc limit : α) (xs : List β) (hnn : ∀ x ∈ xs, 0 ≤ w x)
    (h : limit < acc) : selItems w acc limit xs = [] := by
  induction xs generalizing acc with
  | nil => rfl
  | cons x xs ih =>
    have hx : 0 ≤ w x := hnn x (by simp)
    have : limit < acc + w x := by linarith
    simp only [selItems, not_le.mpr this, if_false]
    exact ih (acc + w x) (fun v hv => hnn v (by simp [hv])) this

theorem exclItems_all_of_gt (w : β → α) (acc limit : α) (xs : List β) (hnn : ∀ x ∈ xs, 0 ≤ w x)
    (h : limit < acc) : exclItems w acc limit xs = xs := by
  induction xs generalizing acc with
  | nil => rfl
  | cons x xs ih =>
    have hx : 0 ≤ w x := hnn x (by simp)
    have : limit < acc + w x := by linarith
    simp only [exclItems, not_le.mpr this, if_false]
    rw [ih (acc + w x) (fun v hv => hnn v (by simp [hv])) this]

/-- **content ≤ 1-α.** -/
theorem select_total_le (w : β → α) (acc limit : α) (xs : List β) (hnn : ∀ x ∈ xs, 0 ≤ w x)
    (hacc : acc ≤ limit) : acc + content w (selItems w acc limit xs) ≤ limit := by
  induction xs generalizing acc with
  | nil => simpa [selItems] using hacc
  | cons x xs ih =>
    have hnn' : ∀ v ∈ xs, 0 ≤ w v := fun v hv => hnn v (by simp [hv])
    by_cases h : acc + w x ≤ limit
    · simp only [selItems, h, if_true, content_cons]
      have := ih (acc + w x) hnn' h
      linarith
    · simp only [selItems, h, if_false]
      rw [selItems_nil_of_gt _ _ _ _ hnn' (not_le.mp h)]
      simpa using hacc

/-- **misses 1-α by less than the first excluded cell** (which is the densest excluded cell,
see `excl_head_is_max`): adding it overshoots the limit. -/
theorem select_next_exceeds (w : β → α) (acc limit : α) (xs : List β) (hnn : ∀ x ∈ xs, 0 ≤ w x)
    (x : β) (rest : List β) (hex : exclItems w acc limit xs = x :: rest) :
    limit < acc + content w (selItems w acc limit xs) + w x := by
  induction xs generalizing acc with
  | nil => simp [exclItems] at hex
  | cons y ys ih =>
    have hnn' : ∀ v ∈ ys, 0 ≤ w v := fun v hv => hnn v (by simp [hv])
    by_cases h : acc + w y ≤ limit
    · simp only [exclItems, h, if_true] at hex
      simp only [selItems, h, if_true, content_cons]
      have := ih (acc + w y) hnn' hex
      linarith
    · simp only [exclItems, h, if_false] at hex
      simp only [selItems, h, if_false]
      rw [selItems_nil_of_gt _ _ _ _ hnn' (not_le.mp h)]
      injection hex with hxy _
      subst hxy
      simp only [content_nil, add_zero]
      exact not_le.mp h

/-- the selection is a prefix, the exclusion the matching suffix. -/
theorem select_prefix (w : β → α) (acc limit : α) (xs : List β) (hnn : ∀ x ∈ xs, 0 ≤ w x) :
    ∃ k, selItems w acc limit xs = xs.take k ∧ exclItems w acc limit xs = xs.drop k := by
  induction xs generalizing acc with
  | nil => exact ⟨0, rfl, rfl⟩
  | cons x xs ih =>
    have hnn' : ∀ v ∈ xs, 0 ≤ w v := fun v hv => hnn v (by simp [hv])
    by_cases h : acc + w x ≤ limit
    · obtain ⟨k, h1, h2⟩ := ih (acc + w x) hnn'
      exact ⟨k + 1, by simp [selItems, h, h1], by simp [exclItems, h, h2]⟩
    · refine ⟨0, ?_, ?_⟩
      · simp only [selItems, h, if_false, List.take_zero]
        exact selItems_nil_of_gt _ _ _ _ hnn' (not_le.mp h)
      · simp only [exclItems, h, if_false, List.drop_zero]
        rw [exclItems_all_of_gt _ _ _ _ hnn' (not_le.mp h)]

/-- **every enclosed cell is at least as dense as every excluded cell** (cells visited in
non-increasing order of probability). -/
theorem select_dominates (w : β → α) (acc limit : α) (xs : List β) (hnn : ∀ x ∈ xs, 0 ≤ w x)
    (hsorted : xs.Pairwise (fun a b => w b ≤ w a)) :
    ∀ s ∈ selItems w acc limit xs, ∀ e ∈ exclItems w acc limit xs, w e ≤ w s := by
  obtain ⟨k, h1, h2⟩ := select_prefix w acc limit xs hnn
  rw [h1, h2]
  intro s hs e he
  have hp : (xs.take k ++ xs.drop k).Pairwise (fun a b => w b ≤ w a) := by
    rw [List.take_append_drop]; exact hsorted
  exact (List.pairwise_append.mp hp).2.2 s hs e he

/-- the first excluded cell is the densest excluded cell. -/
theorem excl_head_is_max (w : β → α) (acc limit : α) (xs : List β) (hnn : ∀ x ∈ xs, 0 ≤ w x)
    (hsorted : xs.Pairwise (fun a b => w b ≤ w a)) (x : β) (rest : List β)
    (hex : exclItems w acc limit xs = x :: rest) : ∀ e ∈ exclItems w acc limit xs, w e ≤ w x := by
  obtain ⟨k, _, h2⟩ := select_prefix w acc limit xs hnn
  have hp : (xs.drop k).Pairwise (fun a b => w b ≤ w a) := hsorted.sublist (List.drop_sublist k xs)
  rw [hex] at *
  rw [← h2] at hp
  intro e he
  rcases List.mem_cons.mp he with rfl | he'
  · exact le_refl _
  · exact List.rel_of_pairwise_cons hp he'

/-- the cell added last has the smallest PROBABILITY of the selection. (The property's clause "fm is the
density of the least dense enclosed cell" is about densities and `fmOf`: `fm_is_min_enclosed_density`,
`fmOf_cellProb`.) -/
theorem last_is_min_selected (w : β → α) (acc limit : α) (xs : List β) (hnn : ∀ x ∈ xs, 0 ≤ w x)
    (hsorted : xs.Pairwise (fun a b => w b ≤ w a)) (l : β)
    (hl : (selItems w acc limit xs).getLast? = some l) :
    l ∈ selItems w acc limit xs ∧ ∀ s ∈ selItems w acc limit xs, w l ≤ w s := by
  obtain ⟨k, h1, _⟩ := select_prefix w acc limit xs hnn
  have hp : (selItems w acc limit xs).Pairwise (fun a b => w b ≤ w a) := by
    rw [h1]; exact hsorted.sublist (List.take_sublist k xs)
  generalize selItems w acc limit xs = sel at hl hp
  have hmem : l ∈ sel := List.mem_of_getLast? hl
  refine ⟨hmem, ?_⟩
  intro s hs
  obtain ⟨init, rfl⟩ : ∃ init, sel = init ++ [l] := by
    rcases sel.eq_nil_or_concat with rfl | ⟨i, b, rfl⟩
    · simp at hl
    · simp at hl; subst hl; exact ⟨i, by simp⟩
  rcases List.mem_append.mp hs with h | h
  · exact (List.pairwise_append.mp hp).2.2 s h l (by simp)
  · simp at h; subst h; exact le_refl _

/-- **no tie at the cut ⇒ the enclosed region is exactly `{density ≥ fm}`.** -/
theorem superlevel_of_no_tie (w : β → α) (acc limit : α) (xs : List β) (hnn : ∀ x ∈ xs, 0 ≤ w x)
    (hsorted : xs.Pairwise (fun a b => w b ≤ w a)) (l : β)
    (hl : (selItems w acc limit xs).getLast? = some l)
    (hnotie : ∀ e ∈ exclItems w acc limit xs, w e ≠ w l) (x : β) (hx : x ∈ xs) :
    (w l ≤ w x ↔ x ∈ selItems w acc limit xs) := by
  obtain ⟨hlm, hmin⟩ := last_is_min_selected w acc limit xs hnn hsorted l hl
  have hdom := select_dominates w acc limit xs hnn hsorted
  obtain ⟨k, h1, h2⟩ := select_prefix w acc limit xs hnn
  constructor
  · intro hle
    have : x ∈ xs.take k ++ xs.drop k := by rw [List.take_append_drop]; exact hx
    rcases List.mem_append.mp this with h | h
    · rw [h1]; exact h
    · exfalso
      rw [← h2] at h
      have h3 := hdom l hlm x h
      exact hnotie x h (le_antisymm h3 hle)
  · intro hs; exact hmin x hs

/-- **with a tie across the cut the description `{density ≥ fm}` is strictly larger than
the enclosed region**: a concrete instance (limit 5, cells 3, 2, 2): the code selects the
first two cells (content 5), `fm` corresponds to probability 2, and the third cell has
probability ≥ fm but is not enclosed. -/
theorem tie_breaks_superlevel :
    selItems (fun x : Int => x) 0 5 [3, 2, 2] = [3, 2] ∧ exclItems (fun x : Int => x) 0 5 [3, 2, 2] = [2] := by
  constructor <;> decide

/-- **IndexError branch**: the selection is empty iff the densest cell alone exceeds the limit. -/
theorem empty_iff_first_gt_limit (w : β → α) (limit : α) (x : β) (xs : List β)
    (hnn : ∀ y ∈ x :: xs, 0 ≤ w y) :
    selItems w 0 limit (x :: xs) = [] ↔ limit < w x := by
  constructor
  · intro h
    by_contra hc
    simp [selItems, not_lt.mp hc] at h
  · intro h
    have : ¬ (0 + w x ≤ limit) := by simpa using h
    simp only [selItems, this, if_false]
    exact selItems_nil_of_gt _ _ _ _ (fun v hv => hnn v (by simp [hv])) (by simpa using h)

/-! ### the visiting order -/

omit [Field α] [IsStrictOrderedRing α] in
theorem sortDesc_perm (vals : List α) : (sortDesc vals).Perm vals.zipIdx := by
  unfold sortDesc
  exact (List.reverse_perm _).trans (List.mergeSort_perm _ _)

omit [Field α] [IsStrictOrderedRing α] in
/-- the order produced by `argsort(kind="mergesort")[::-1]` is non-increasing in the values. -/
theorem sortDesc_sorted (vals : List α) :
    (sortDesc vals).Pairwise (fun a b => b.1 ≤ a.1) := by
  unfold sortDesc
  rw [List.pairwise_reverse]
  have := List.pairwise_mergeSort (le := fun (a b : α × Nat) => decide (a.1 ≤ b.1))
    (fun a b c hab hbc => by simp at *; exact le_trans hab hbc)
    (fun a b => by simp; exact le_total a.1 b.1) vals.zipIdx
  exact this.imp (by simp)

/-! ### warning and fallback (decision logic of `_compute`) -/

omit [IsStrictOrderedRing α] in
/-- (unfolding of `cumsumBiggestUntil`: the flag is defined as this comparison; the form with `vals.sum`
is part of `cumsum_biggest_until_spec`) the warning flag is exactly "the whole grid holds less than the limit". -/
theorem warn_iff_total_lt (vals : List α) (limit : α) (r : SelResult α)
    (h : cumsumBiggestUntil 0 vals limit = .ok r) :
    r.warn = true ↔ (sortDesc vals).foldl (fun a p => a + p.1) 0 < limit := by
  unfold cumsumBiggestUntil at h
  simp only at h
  split at h
  · cases h
  · split at h
    · cases h
    · cases h; simp

omit [IsStrictOrderedRing α] in
/-- (one-step unfolding of `hdrRegion`) on a warning the region is the whole grid and the threshold
probability is 0 — never a silently smaller region. The statement with content (warning ⇔ grid content
< 1-α, for the function the driver runs) is `hdr_region_spec`. -/
theorem fallback_all_cells (vals : List α) (limit : α) (r : SelResult α)
    (h : cumsumBiggestUntil 0 vals limit = .ok r) (hw : r.warn = true) :
    hdrRegion 0 vals limit = .ok (List.range vals.length, 0, true) := by
  simp [hdrRegion, h, hw]

omit [IsStrictOrderedRing α] in
/-- (one-step unfolding of `hdrRegion`) -/
theorem no_warning_region (vals : List α) (limit : α) (r : SelResult α)
    (h : cumsumBiggestUntil 0 vals limit = .ok r) (hw : r.warn = false) :
    hdrRegion 0 vals limit = .ok (r.selected, r.last, false) := by
  simp [hdrRegion, h, hw]


/-! ### entry guard -/

omit [Field α] [LinearOrder α] [IsStrictOrderedRing α] in
/-- (one-step unfolding of the entry guard of `cumsumBiggestUntilChecked`, the function the `select` op
runs) an array with a NaN entry is refused (`ValueError`), never selected from -/
theorem nan_input_refused {γ : Type} [Add γ] [LE γ] [LT γ] [DecidableLE γ] [DecidableLT γ]
    (isNan : γ → Bool) (zero : γ) (vals : List γ) (limit : γ) (h : vals.any isNan = true) :
    cumsumBiggestUntilChecked isNan zero vals limit = .error .nanInput := by
  simp [cumsumBiggestUntilChecked, h]

omit [Field α] [LinearOrder α] [IsStrictOrderedRing α] in
/-- (one-step unfolding of the entry guard) without NaN the guarded function is `cumsumBiggestUntil`, to
which `cumsum_biggest_until_spec` applies -/
theorem checked_eq_of_no_nan {γ : Type} [Add γ] [LE γ] [LT γ] [DecidableLE γ] [DecidableLT γ]
    (isNan : γ → Bool) (zero : γ) (vals : List γ) (limit : γ) (h : vals.any isNan = false) :
    cumsumBiggestUntilChecked isNan zero vals limit = cumsumBiggestUntil zero vals limit := by
  simp [cumsumBiggestUntilChecked, h]

/-! ### end to end: the selection facts for the functions the driver runs -/

omit [Field α] [IsStrictOrderedRing α] in
theorem sortDesc_mem_vals (vals : List α) (P : α → Prop) (hP : ∀ v ∈ vals, P v) :
    ∀ p ∈ sortDesc vals, P p.1 := by
  intro p hp
  exact hP _ (List.fst_mem_of_mem_zipIdx ((sortDesc_perm vals).mem_iff.mp hp))

omit [LinearOrder α] [IsStrictOrderedRing α] in
theorem foldl_fst_eq_sum (l : List (α × Nat)) (a : α) :
    l.foldl (fun a p => a + p.1) a = a + (l.map Prod.fst).sum := by
  induction l generalizing a with
  | nil => simp
  | cons x xs ih => simp only [List.foldl_cons, List.map_cons, List.sum_cons, ih]; ring

omit [IsStrictOrderedRing α] in
theorem sortDesc_total (vals : List α) :
    (sortDesc vals).foldl (fun a p => a + p.1) 0 = vals.sum := by
  rw [foldl_fst_eq_sum, zero_add]
  have h := ((sortDesc_perm vals).map Prod.fst).sum_eq
  rw [h]
  congr 1
  simp

/-- the facts of the property about one selection `sel` / exclusion `exc` of (probability, flat index) cells -/
structure RegionFacts (vals : List α) (limit : α) (sel exc : List (α × Nat)) (last : α) : Prop where
  /-- every cell of the grid is either enclosed or excluded, none twice -/
  partition : (sel ++ exc).Perm vals.zipIdx
  /-- content ≤ 1-α -/
  content_le : content Prod.fst sel ≤ limit
  /-- every enclosed cell is at least as dense as every excluded cell -/
  dominates : ∀ s ∈ sel, ∀ e ∈ exc, e.1 ≤ s.1
  /-- the content misses the limit by less than the densest excluded cell -/
  shortfall : ∀ x rest, exc = x :: rest → (∀ e ∈ exc, e.1 ≤ x.1) ∧ limit < content Prod.fst sel + x.1
  /-- the reported value is the probability of the least dense enclosed cell -/
  last_min : ∃ l ∈ sel, last = l.1 ∧ ∀ s ∈ sel, l.1 ≤ s.1

/-- **end to end, `cumsum_biggest_until`** (the function the driver runs, instantiating the `select_*` lemmas
with the order `sortDesc` produces): for non-negative cell probabilities, whenever it returns, the returned
cells and `last_summed` satisfy every selection fact of the property, and the warning flag is raised iff the
whole array sums to less than the limit. -/
theorem cumsum_biggest_until_spec (vals : List α) (limit : α) (hnn : ∀ v ∈ vals, 0 ≤ v)
    (r : SelResult α) (h : cumsumBiggestUntil 0 vals limit = .ok r) :
    (∃ sel exc : List (α × Nat), r.selected = sel.map Prod.snd ∧ RegionFacts vals limit sel exc r.last) ∧
      (r.warn = true ↔ vals.sum < limit) := by
  have hw := warn_iff_total_lt vals limit r h
  rw [sortDesc_total] at hw
  refine ⟨?_, hw⟩
  have hnn' : ∀ p ∈ sortDesc vals, 0 ≤ p.1 := sortDesc_mem_vals vals (fun v => 0 ≤ v) hnn
  have hsorted := sortDesc_sorted vals
  unfold cumsumBiggestUntil at h
  simp only at h
  split at h
  · cases h
  · split at h
    · cases h
    · rename_i l hl
      cases h
      have hlim : 0 ≤ limit := by
        by_contra hc
        rw [selItems_nil_of_gt Prod.fst 0 limit _ hnn' (not_le.mp hc)] at hl
        simp at hl
      obtain ⟨k, h1, h2⟩ := select_prefix Prod.fst 0 limit (sortDesc vals) hnn'
      refine ⟨selItems Prod.fst 0 limit (sortDesc vals), exclItems Prod.fst 0 limit (sortDesc vals), rfl, ?_⟩
      refine ⟨?_, ?_, ?_, ?_, ?_⟩
      · rw [h1, h2, List.take_append_drop]; exact sortDesc_perm vals
      · have := select_total_le Prod.fst 0 limit (sortDesc vals) hnn' hlim
        simpa using this
      · exact select_dominates Prod.fst 0 limit (sortDesc vals) hnn' hsorted
      · intro x rest hex
        refine ⟨excl_head_is_max Prod.fst 0 limit (sortDesc vals) hnn' hsorted x rest hex, ?_⟩
        have := select_next_exceeds Prod.fst 0 limit (sortDesc vals) hnn' x rest hex
        simpa using this
      · obtain ⟨hm, hmin⟩ := last_is_min_selected Prod.fst 0 limit (sortDesc vals) hnn' hsorted l hl
        exact ⟨l, hm, rfl, hmin⟩

/-- **end to end, what `_compute` uses** (`hdrRegion` = `cumsum_biggest_until` + warning fallback): without a
warning the region and the threshold probability satisfy all facts of the property and the grid holds at
least `1-α`; with a warning the grid holds less than `1-α`, the region is the whole grid and the threshold 0. -/
theorem hdr_region_spec (vals : List α) (limit : α) (hnn : ∀ v ∈ vals, 0 ≤ v)
    (region : List Nat) (pm : α) (w : Bool) (h : hdrRegion 0 vals limit = .ok (region, pm, w)) :
    (w = false → limit ≤ vals.sum ∧
        ∃ sel exc : List (α × Nat), region = sel.map Prod.snd ∧ RegionFacts vals limit sel exc pm) ∧
      (w = true → vals.sum < limit ∧ region = List.range vals.length ∧ pm = 0) := by
  unfold hdrRegion at h
  split at h
  · cases h
  · rename_i r hr
    obtain ⟨hfacts, hwarn⟩ := cumsum_biggest_until_spec vals limit hnn r hr
    by_cases hw : r.warn = true
    · simp only [hw, if_true] at h
      cases h
      exact ⟨fun hc => (by cases hc), fun _ => ⟨hwarn.mp hw, rfl, rfl⟩⟩
    · simp only [hw] at h
      cases h
      exact ⟨fun _ => ⟨not_lt.mp (fun hc => hw (hwarn.mpr hc)), hfacts⟩, fun hc => (by cases hc)⟩

/-! ### the threshold `fm`: from cell probabilities to cell densities

`RegionFacts` orders cell PROBABILITIES; the property speaks of DENSITIES and of `fm`. On the uniform
grid of the code every cell has the same volume `∏ deltas`, the driver reports
`fmOf probM deltas` (division by every delta in turn) and computes the cell probability as
`cellProbAt = density × every delta in turn`. The theorems below carry the ordering over. -/

omit [LinearOrder α] [IsStrictOrderedRing α] in
theorem fmOf_eq_div_prod (p : α) (deltas : List α) : fmOf p deltas = p / deltas.prod := by
  unfold fmOf
  induction deltas generalizing p with
  | nil => simp
  | cons d ds ih => simp only [List.foldl_cons, List.prod_cons, ih]; rw [div_div]

theorem prod_pos_of_pos (deltas : List α) (hpos : ∀ d ∈ deltas, 0 < d) : 0 < deltas.prod := by
  induction deltas with
  | nil => simp
  | cons d ds ih =>
    rw [List.prod_cons]
    exact mul_pos (hpos d (by simp)) (ih fun x hx => hpos x (by simp [hx]))

/-- **`fm` is strictly monotone in the cell probability** for positive cell sizes. -/
theorem fmOf_strictMono (deltas : List α) (hpos : ∀ d ∈ deltas, 0 < d) :
    StrictMono fun p : α => fmOf p deltas := by
  intro p q hpq
  simp only [fmOf_eq_div_prod]
  exact div_lt_div_of_pos_right hpq (prod_pos_of_pos deltas hpos)

/-- **"probability ≥ prob_m" is "density ≥ fm"**: for positive cell sizes, comparing cell probabilities
is comparing the cell densities `probability / cell volume` the property speaks of. -/
theorem prob_le_iff_density_le (deltas : List α) (hpos : ∀ d ∈ deltas, 0 < d) (p q : α) :
    fmOf p deltas ≤ fmOf q deltas ↔ p ≤ q :=
  (fmOf_strictMono deltas hpos).le_iff_le

omit [LinearOrder α] [IsStrictOrderedRing α] in
/-- **the density of a cell is its probability divided by every delta**: `fmOf` undoes the
multiplications of `cellProbAt` (the two functions the `hdc` op runs), for non-zero cell sizes. So
`fmOf (probability of cell I) deltas` is the cell-averaged joint density `jointCellAt … I`. -/
theorem fmOf_cellProb [Inhabited α] (half : α) (c : Nat → Option Nat) (F : Nat → Option α → α → α)
    (coords : Array (Array α)) (deltas : List α) (hne : ∀ d ∈ deltas, d ≠ 0) (I : Array Nat) :
    fmOf (cellProbAt 1 half c F coords deltas I) deltas = jointCellAt 1 half c F coords I := by
  unfold cellProbAt
  generalize jointCellAt 1 half c F coords I = dens
  have hmul : ∀ (ds : List α) (x : α), ds.foldl (· * ·) x = x * ds.prod := by
    intro ds
    induction ds with
    | nil => intro x; simp
    | cons d ds ih => intro x; simp only [List.foldl_cons, List.prod_cons, ih]; ring
  have hprod : deltas.prod ≠ 0 := by
    clear hmul
    induction deltas with
    | nil => simp
    | cons d ds ih =>
      rw [List.prod_cons]
      exact mul_ne_zero (hne d (by simp)) (ih fun x hx => hne x (by simp [hx]))
  rw [fmOf_eq_div_prod, hmul, mul_div_assoc, div_self hprod, mul_one]

/-- **fm is the density of the least dense enclosed cell, and every enclosed cell is at least as dense
as every excluded cell — in DENSITIES** (`fmOf · deltas` = probability / cell volume), for the
output of `hdrRegion` without a warning, exactly as the driver op `hdc` reports it
(`fmOf probM deltas`). Cells `x` with `fm ≤ density x` that are excluded can only be ties
(`density = fm`), see `superlevel_of_no_tie`. -/
theorem fm_is_min_enclosed_density (vals : List α) (limit : α) (hnn : ∀ v ∈ vals, 0 ≤ v)
    (deltas : List α) (hpos : ∀ d ∈ deltas, 0 < d)
    (region : List Nat) (pm : α) (h : hdrRegion 0 vals limit = .ok (region, pm, false)) :
    ∃ sel exc : List (α × Nat), region = sel.map Prod.snd ∧ (sel ++ exc).Perm vals.zipIdx ∧
      (∃ l ∈ sel, fmOf pm deltas = fmOf l.1 deltas) ∧
      (∀ s ∈ sel, fmOf pm deltas ≤ fmOf s.1 deltas) ∧
      (∀ e ∈ exc, fmOf e.1 deltas ≤ fmOf pm deltas) ∧
      (∀ s ∈ sel, ∀ e ∈ exc, fmOf e.1 deltas ≤ fmOf s.1 deltas) := by
  obtain ⟨h1, _⟩ := hdr_region_spec vals limit hnn region pm false h
  obtain ⟨_, sel, exc, hreg, facts⟩ := h1 rfl
  obtain ⟨l, hl, hpm, hmin⟩ := facts.last_min
  have hmono := prob_le_iff_density_le deltas hpos
  refine ⟨sel, exc, hreg, facts.partition, ⟨l, hl, by rw [hpm]⟩, ?_, ?_, ?_⟩
  · intro s hs; rw [hmono, hpm]; exact hmin s hs
  · intro e he; rw [hmono, hpm]; exact facts.dominates l hl e he
  · intro s hs e he; rw [hmono]; exact facts.dominates s hs e he

-- non-vacuity
example : fmOf (6 : ℚ) [2, 3] = 1 := by norm_num [fmOf]
example : hdrRegion (0 : ℚ) [2, 10, 1, 6] 18 = .ok ([1, 3, 0], 2, false) := by
  norm_num [hdrRegion, cumsumBiggestUntil, sortDesc, List.zipIdx, List.mergeSort, List.MergeSort.Internal.splitInTwo, List.merge, selItems]

-- non-vacuity
example : cumsumBiggestUntil (0 : ℚ) [2, 10, 1, 6] 18 = .ok ⟨[1, 3, 0], 2, false⟩ := by
  norm_num [cumsumBiggestUntil, sortDesc, List.zipIdx, List.mergeSort, List.MergeSort.Internal.splitInTwo, List.merge, selItems]


/-! ### placement of the per-dimension arrays in the n-D grid (`reshape` + broadcasting) -/

theorem flatUpTo_shape2 (a la b lb : Nat) (hab : a < b) (I : Nat → Nat) (k : Nat) :
    flatUpTo (fun j => if j = a then la else if j = b then lb else 1) I k =
      if k ≤ a then 0
      else if k ≤ b then (if la = 1 then 0 else I a)
      else (if la = 1 then 0 else I a) * lb + (if lb = 1 then 0 else I b) := by
  induction k with
  | zero => simp [flatUpTo]
  | succ k ih =>
    simp only [flatUpTo, ih]
    by_cases h1 : k < a
    · have : k ≠ a := by omega
      have : k ≠ b := by omega
      have hk : k ≤ a := by omega
      have hk1 : k + 1 ≤ a := by omega
      simp [*]
    · by_cases h2 : k = a
      · subst h2
        have hk1 : ¬ k + 1 ≤ k := by omega
        have hk2 : k + 1 ≤ b := by omega
        simp [hk1, hk2]
      · by_cases h3 : k < b
        · have : k ≠ b := by omega
          have ha : ¬ k ≤ a := by omega
          have ha1 : ¬ k + 1 ≤ a := by omega
          have hb : k ≤ b := by omega
          have hb1 : k + 1 ≤ b := by omega
          simp [*]
        · by_cases h4 : k = b
          · subst h4
            have ha : ¬ k ≤ a := by omega
            have ha1 : ¬ k + 1 ≤ a := by omega
            have hb1 : ¬ k + 1 ≤ k := by omega
            have hne : k ≠ a := by omega
            simp [ha, ha1, hb1, hne]
          · have ha : ¬ k ≤ a := by omega
            have ha1 : ¬ k + 1 ≤ a := by omega
            have hb : ¬ k ≤ b := by omega
            have hb1 : ¬ k + 1 ≤ b := by omega
            simp [*]

/-- **placement of the conditional matrix** (`fbar.reshape(fbar_out_shape)` in `cell_averaged_pdf`):
the `(len(cond), len(dist))` matrix is stored cond-major; in the n-D array with `len(cond)` at axis
`c` and `len(dist)` at axis `d` the cell `I` reads flat offset `I c * len(dist) + I d`, i.e. matrix
entry `(I c, I d)` — **iff the conditioning axis comes first (`c < d`, the hierarchy)**. -/
theorem reshape_index_of_cond_lt (n c lc d ld : Nat) (hcd : c < d) (hd : d < n) (I : Nat → Nat)
    (hlc : lc ≠ 1) (hld : ld ≠ 1) :
    flatUpTo (fun j => if j = c then lc else if j = d then ld else 1) I n = I c * ld + I d := by
  rw [flatUpTo_shape2 c lc d ld hcd I n]
  have h1 : ¬ n ≤ c := by omega
  have h2 : ¬ n ≤ d := by omega
  simp [h1, h2, hlc, hld]

/-- … and when the conditioning axis comes later (`d < c`, a non-hierarchical structure) the same
cond-major data are read transposed: cell `I` reads offset `I d * len(cond) + I c`, which is matrix
entry `(I c, I d)` only by accident. -/
theorem reshape_transposes_if_cond_gt (n c lc d ld : Nat) (hdc : d < c) (hc : c < n) (I : Nat → Nat)
    (hlc : lc ≠ 1) (hld : ld ≠ 1) :
    flatUpTo (fun j => if j = d then ld else if j = c then lc else 1) I n = I d * lc + I c := by
  rw [flatUpTo_shape2 d ld c lc hdc I n]
  have h1 : ¬ n ≤ d := by omega
  have h2 : ¬ n ≤ c := by omega
  simp [h1, h2, hlc, hld]

/-- the one-axis case (unconditional dimension): offset = the index on that axis -/
theorem reshape_index_single (n a la : Nat) (ha : a < n) (I : Nat → Nat) (hla : la ≠ 1) :
    flatUpTo (fun j => if j = a then la else 1) I n = I a := by
  have key : ∀ k, flatUpTo (fun j => if j = a then la else 1) I k = if k ≤ a then 0 else I a := by
    intro k
    induction k with
    | zero => simp [flatUpTo]
    | succ k ih =>
      simp only [flatUpTo, ih]
      by_cases h1 : k < a
      · have : k ≠ a := by omega
        have : k ≤ a := by omega
        have : k + 1 ≤ a := by omega
        simp [*]
      · by_cases h2 : k = a
        · subst h2; simp [hla]
        · have : ¬ k ≤ a := by omega
          have : ¬ k + 1 ≤ a := by omega
          simp [*]
  rw [key n]; simp [Nat.not_le.mpr ha]

example : flatUpTo (fun j => if j = 0 then 3 else if j = 2 then 4 else 1) (fun j => [2, 7, 3].getD j 0) 3 = 2 * 4 + 3 := by
  decide

/-! ### link between the reshape facts (op `flat`) and the direct indexing of `cellAvgAt` (ops `hdc`, `cellprobs`)

The code fills a cond-major buffer (`fbar[i, :] = upper - lower`), reshapes it to `fbar_out_shape` and lets
numpy broadcasting read it; the model's `cellAvgAt` indexes `coords[j][I[j]]`, `coords[i][I[i]]` directly.
`cellAvgAt_reads_reshaped_matrix` states that both read the same number when the conditioning axis comes
first. -/

theorem flatMap_range_length {γ : Type} (m n : Nat) (e : Nat → Nat → γ) :
    ((List.range m).flatMap fun a => (List.range n).map (e a)).length = m * n := by
  induction m with
  | zero => simp
  | succ m ih => rw [List.range_succ, List.flatMap_append, List.length_append, ih]; simp [Nat.succ_mul]

/-- C-order flattening of an `m × n` matrix: entry `(a, b)` sits at offset `a * n + b` -/
theorem flatMap_range_getElem_opt {γ : Type} (m n : Nat) (e : Nat → Nat → γ) (a b : Nat) (ha : a < m)
    (hb : b < n) :
    ((List.range m).flatMap fun a => (List.range n).map (e a))[a * n + b]? = some (e a b) := by
  induction m with
  | zero => omega
  | succ m ih =>
    rw [List.range_succ, List.flatMap_append]
    rcases Nat.lt_or_ge a m with hlt | hge
    · have hlen : a * n + b < ((List.range m).flatMap fun a => (List.range n).map (e a)).length := by
        rw [flatMap_range_length]
        calc a * n + b < a * n + n := by omega
          _ = (a + 1) * n := by rw [Nat.succ_mul]
          _ ≤ m * n := Nat.mul_le_mul_right n hlt
      rw [List.getElem?_append_left hlen]
      exact ih hlt
    · have ham : a = m := by omega
      subst ham
      rw [List.getElem?_append_right (by rw [flatMap_range_length]; omega), flatMap_range_length]
      simp [hb]

/-- the buffer `cell_averaged_pdf` fills for a conditional dimension `i`, flattened in C order and divided by
`dx`: row `a` = conditioning value `cond[a]`, column `b` = cell `ax[b]` -/
def condMatrix [Inhabited α] (half : α) (F : Nat → Option α → α → α) (i : Nat) (ax cond : Array α) : List α :=
  (List.range cond.size).flatMap fun a => (List.range ax.size).map fun b =>
    (F i (some cond[a]!) (ax[b]! + half * (ax[1]! - ax[0]!)) -
      F i (some cond[a]!) (ax[b]! - half * (ax[1]! - ax[0]!))) / (ax[1]! - ax[0]!)

omit [LinearOrder α] [IsStrictOrderedRing α] in
/-- **`cellAvgAt` reads the reshaped cond-major buffer at the broadcast offset** (hierarchical case `j < i`):
the value the model computes for dimension `i` (conditional on `j`) in cell `I` is the entry of the code's
buffer at the C-order offset of `I` in `fbar_out_shape` (`reshape_index_of_cond_lt`). For `i < j` the
offset is the transposed one (`reshape_transposes_if_cond_gt`) and this equation fails in general. -/
theorem cellAvgAt_reads_reshaped_matrix [Inhabited α] (half : α) (c : Nat → Option Nat)
    (F : Nat → Option α → α → α) (coords : Array (Array α)) (I : Array Nat) (n i j : Nat)
    (hc : c i = some j) (hji : j < i) (hin : i < n)
    (hIj : I[j]! < coords[j]!.size) (hIi : I[i]! < coords[i]!.size)
    (hlj : coords[j]!.size ≠ 1) (hli : coords[i]!.size ≠ 1) :
    (condMatrix half F i coords[i]! coords[j]!)[flatUpTo
        (fun k => if k = j then coords[j]!.size else if k = i then coords[i]!.size else 1)
        (fun k => I[k]!) n]? = some (cellAvgAt half c F coords I i) := by
  rw [reshape_index_of_cond_lt n j _ i _ hji hin (fun k => I[k]!) hlj hli]
  unfold condMatrix
  rw [flatMap_range_getElem_opt _ _ _ _ _ hIj hIi]
  simp [cellAvgAt, hc]

/-- the 1-D buffer of an unconditional dimension (`upper - lower`, then `/ dx`) -/
def margVector [Inhabited α] (half : α) (F : Nat → Option α → α → α) (i : Nat) (ax : Array α) : List α :=
  (List.range ax.size).map fun b =>
    (F i none (ax[b]! + half * (ax[1]! - ax[0]!)) - F i none (ax[b]! - half * (ax[1]! - ax[0]!))) /
      (ax[1]! - ax[0]!)

omit [LinearOrder α] [IsStrictOrderedRing α] in
/-- the same for an unconditional dimension: `cellAvgAt` reads the reshaped 1-D buffer at the broadcast
offset (`reshape_index_single`). -/
theorem cellAvgAt_reads_reshaped_vector [Inhabited α] (half : α) (c : Nat → Option Nat)
    (F : Nat → Option α → α → α) (coords : Array (Array α)) (I : Array Nat) (n i : Nat)
    (hc : c i = none) (hin : i < n) (hIi : I[i]! < coords[i]!.size) (hli : coords[i]!.size ≠ 1) :
    (margVector half F i coords[i]!)[flatUpTo (fun k => if k = i then coords[i]!.size else 1)
        (fun k => I[k]!) n]? = some (cellAvgAt half c F coords I i) := by
  rw [reshape_index_single n i _ hin (fun k => I[k]!) hli]
  simp [margVector, cellAvgAt, hc, hIi]

/-- non-vacuity of `cellAvgAt_reads_reshaped_matrix`: 2-D grid (3 × 2 cells), dimension 1 conditional on
dimension 0, cell `I = (2, 1)`: buffer offset `2*2 + 1 = 5`. -/
example : flatUpTo (fun k => if k = 0 then 3 else if k = 1 then 2 else 1) (fun k => #[2, 1][k]!) 2 = 5 := by
  decide

/-! ### non-vacuity -/
-- cell probabilities in units of 1/20: 0.5, 0.3, 0.1, 0.05, 0.05 with 1-α = 0.9
example : selItems (fun x : Int => x) 0 18 [10, 6, 2, 1, 1] = [10, 6, 2] := by decide
example : exclItems (fun x : Int => x) 0 18 [10, 6, 2, 1, 1] = [1, 1] := by decide
example : ([10, 6, 2, 1, 1] : List Int).Pairwise (fun a b => b ≤ a) := by decide

end VirVerif.C02
