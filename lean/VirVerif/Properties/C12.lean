/-
C12 — Maximum-likelihood fits do not lose likelihood and are scale-equivariant (partial).

  "After maximum-likelihood fitting of any family, the log-likelihood of the data under the
   fitted parameters is not lower than under the starting parameters, nor - for data sampled
   from a regular member of the family - under the generating parameters, and the fitted
   parameters are finite and admissible. Multiplying the data by c > 0 multiplies
   location/scale estimates by c (adds log c to a log-scale parameter) and leaves shape
   estimates unchanged within optimiser tolerance."

The model is `Model/Likelihood.lean` (log-likelihoods in closed form, closed-form estimators); here
it is instantiated at `ℝ` with Mathlib's `Real.log`, `Real.exp`, `Real.sqrt`, `Real.rpow`.

Clause → theorem
  likelihood of scaled data, any location-scale family g((x-l)/s)/s     ll_scale_law  (lsDens_scale)
  … for the closed forms the check evaluates (any `pow`, `lgamma`)      weibull_ll_scale_law, expWeibull_ll_scale_law,
                                                                        normal_ll_scale_law, lognormal_ll_scale_law,
                                                                        genGamma_ll_scale_law, gamma_ll_scale_law,
                                                                        gumbel_ll_scale_law
  closed form = log of the documented density                           weibull_logpdf_eq_log_density,
                                                                        expWeibull_logpdf_eq_log_density,
                                                                        normal_logpdf_eq_log_density,
                                                                        lognormal_logpdf_eq_log_density,
                                                                        gumbel_logpdf_eq_log_density
  a maximiser over a scaling-closed admissible set is mapped to a       argmax_transport (order kernel),
  maximiser for c·data: (l,s,shape) ↦ (c·l, c·s, shape)                 argmax_equivariant
  … log-scale parameter: μ ↦ μ + log c                                  argmax_equivariant_logscale (instance:
                                                                        lognormal_fit_isArgmax_logscale,
                                                                        lognormal_fit_scaled_isArgmax_logscale),
                                                                        lognormal_mle_equivariant
  … reciprocal-scale parameter (generalized gamma): λ ↦ λ/c             genGamma_mle_equivariant
  … Weibull (any shape constraint), exponentiated Weibull               weibull_mle_equivariant, expWeibull_mle_equivariant
  … a family with location and scale only (Gumbel subclass)             gumbel_mle_equivariant
  NON-VACUITY of the arg-max hypothesis is shown for the normal (normal_fit_isArgmax) and the log-normal
  (lognormal_fit_isArgmax_logscale, example after lognormal_mle_equivariant) ONLY.  weibull_ / expWeibull_ /
  genGamma_ / gumbel_mle_equivariant are CONDITIONAL on the existence of a maximiser, which is not formalised
  (for the Weibull with only `0 < β` it is refuted: weibull_no_maximiser).
  the unconstrained 3-parameter Weibull likelihood has no maximiser     weibull_likelihood_unbounded, weibull_no_maximiser
  (known findings C12-weibull-unbounded-likelihood-*)
  Normal fit (scipy's closed form) is exactly equivariant               normal_closed_form_equivariant
  LogNormal fit with floc=0 (closed form) is exactly equivariant        lognormal_closed_form_equivariant
  Normal / LogNormal closed forms ARE the arg-max (≥ every admissible   normal_mle_is_argmax, normal_mle_strict,
  parameter vector, hence ≥ start and ≥ truth), strictly in μ           lognormal_mle_is_argmax, lognormal_mle_strict
  … with ONE PARAMETER FIXED (scipy's floc / fscale / f0 branches):     normal_fixed_loc_is_argmax, normal_fixed_scale_is_argmax,
  the returned free parameter is the arg-max of the constrained problem lognormal_fixed_mu_is_argmax, lognormal_fixed_sigma_is_argmax
  LogNormalNormFit._fit_mle is a moment estimator …                     normfit_is_moment_estimator
  … and NOT an arg-max of the likelihood (section 4 #19)                normfit_not_argmax  (sample [1, 4])
  fitted parameters admissible (closed forms): σ̂ > 0 unless the        normalFit_scale_pos, lognormalFit_scale_pos,
  sample is constant (then σ̂ = 0); the fits are defined on every        normalFit_scale_zero_of_const,
  non-empty (positive) sample                                           normalFit_isSome, lognormalFit_isSome
  the two clauses as far as provable                                    fit_does_not_lose_likelihood_partial (assumes σ̂ > 0),
                                                                        fit_admissible_and_does_not_lose_likelihood_partial
                                                                        (derives σ̂ > 0 from two different observations),
                                                                        fit_scale_equivariant_partial
  iterative families (Weibull, exponentiated Weibull, generalized       observed per run (PARTIAL): scipy's Nelder–Mead
  gamma, ScipyDistribution subclasses): the optimiser reaches a point   is not modelled; what is proven is what the
  ≥ start and ≥ truth, returns admissible values, is equivariant        exact maximiser would satisfy
  von Mises: scale is fixed (fscale=1), the admissible set is not closed under scaling: no
  equivariance is claimed or checked; scipy's fit is analytic (circular mean, Bessel-ratio root).

FULL STATEMENT NOT PROVEN (kept here, observed on the real code by harness/c12.py):
  ∀ family, data, start:  LL(data; fit(data, start)) ≥ LL(data; start)  ∧  (data ~ family(θ₀) → … ≥ LL(data; θ₀))
  ∧ admissible(fit) ∧ fit(c·data) ≈ scaled fit(data).
For the iterative families this is a statement about the trajectory of scipy.optimize.fmin.
-/
import VirVerif.Model.Likelihood
import Mathlib.Analysis.SpecialFunctions.Log.Basic
import Mathlib.Analysis.SpecialFunctions.Pow.Real
import Mathlib.Analysis.SpecialFunctions.Exp
import Mathlib.Analysis.Real.Sqrt
import Mathlib.Analysis.SpecialFunctions.Trigonometric.Basic
import Mathlib.Tactic.Ring
import Mathlib.Tactic.Linarith
import Mathlib.Tactic.FieldSimp
import Mathlib.Tactic.NormNum
import Mathlib.Tactic.Positivity

namespace VirVerif.C12
open VirVerif

/-! ### sums over a sample -/

theorem cnt_eq_length (xs : List ℝ) : cnt xs = (xs.length : ℝ) := by
  induction xs with
  | nil => simp [cnt]
  | cons x xs ih =>
    simp only [cnt, List.map_cons, List.sum_cons, List.length_cons] at ih ⊢
    rw [ih]; push_cast; ring

theorem sumLogPdf_cons (lp : ℝ → ℝ) (x : ℝ) (xs : List ℝ) :
    sumLogPdf lp (x :: xs) = lp x + sumLogPdf lp xs := by
  simp [sumLogPdf]

theorem logLik_eq_sumLogPdf (f : ℝ → ℝ) (xs : List ℝ) :
    logLik Real.log f xs = sumLogPdf (fun x => Real.log (f x)) xs := rfl

/-- if scaling an observation by `c` (and the parameters accordingly) shifts its log-density by
`-d`, the log-likelihood of the scaled sample is shifted by `-n·d` -/
theorem sumLogPdf_scale (lp lp' : ℝ → ℝ) (c d : ℝ) (xs : List ℝ)
    (h : ∀ x ∈ xs, lp' (c * x) = lp x - d) :
    sumLogPdf lp' (xs.map (c * ·)) = sumLogPdf lp xs - xs.length * d := by
  induction xs with
  | nil => simp [sumLogPdf]
  | cons x xs ih =>
    have hx := h x (by simp)
    have ih' := ih (fun y hy => h y (by simp [hy]))
    simp only [List.map_cons, sumLogPdf_cons, List.length_cons]
    rw [ih', hx]; push_cast; ring

theorem sumLogPdf_congr (lp lp' : ℝ → ℝ) (xs : List ℝ) (h : ∀ x ∈ xs, lp x = lp' x) :
    sumLogPdf lp xs = sumLogPdf lp' xs := by
  induction xs with
  | nil => rfl
  | cons x xs ih =>
    rw [sumLogPdf_cons, sumLogPdf_cons, h x (by simp), ih (fun y hy => h y (by simp [hy]))]

/-! ### P1  the likelihood of a location-scale family under scaling -/

/-- density of scaled data under scaled location and scale: `f(c·x; c·l, c·s) = f(x; l, s) / c` -/
theorem lsDens_scale (g : ℝ → ℝ) (l s x c : ℝ) (hc : c ≠ 0) (hs : s ≠ 0) :
    lsDens g (c * l) (c * s) (c * x) = lsDens g l s x / c := by
  unfold lsDens
  have : (c * x - c * l) / (c * s) = (x - l) / s := by
    rw [← mul_sub, mul_div_mul_left _ _ hc]
  rw [this]
  field_simp

/-- **`ll_scale_law`**: for a location-scale family `f(x; l, s) = g((x-l)/s)/s` whose density is
positive at the data, `LL(c·x; c·l, c·s) = LL(x; l, s) − n·log c` for every `c > 0`
(`g` may depend on any number of shape parameters: they are not touched). -/
theorem ll_scale_law (g : ℝ → ℝ) (l s c : ℝ) (xs : List ℝ) (hc : 0 < c) (hs : 0 < s)
    (hg : ∀ x ∈ xs, 0 < g ((x - l) / s)) :
    logLik Real.log (lsDens g (c * l) (c * s)) (xs.map (c * ·)) =
      logLik Real.log (lsDens g l s) xs - xs.length * Real.log c := by
  rw [logLik_eq_sumLogPdf, logLik_eq_sumLogPdf]
  apply sumLogPdf_scale
  intro x hx
  rw [lsDens_scale g l s x c hc.ne' hs.ne']
  have hd : 0 < lsDens g l s x := div_pos (hg x hx) hs
  rw [Real.log_div hd.ne' hc.ne']

/-- non-vacuity: the standard exponential-type density `g z = 1/(1+z²)` (positive everywhere) -/
example : logLik Real.log (lsDens (fun z => 1 / (1 + z ^ 2)) (3 * 1) (3 * 2)) ([0, 5].map (3 * ·)) =
    logLik Real.log (lsDens (fun z => 1 / (1 + z ^ 2)) 1 2) [0, 5] - ([0, 5] : List ℝ).length * Real.log 3 :=
  ll_scale_law _ 1 2 3 [0, 5] (by norm_num) (by norm_num) (fun x _ => by positivity)

/-! ### P1  the closed forms the check evaluates obey the same law

`pow`, `lgamma` stay abstract: nothing about them is used. -/

/-- Weibull (3 parameters): scale `α`, shape `β`, location `γ` -/
theorem weibull_ll_scale_law (pow : ℝ → ℝ → ℝ) (a b g c : ℝ) (xs : List ℝ) (hc : 0 < c) (ha : 0 < a) :
    sumLogPdf (weibullLogPdf Real.log pow (c * a) b (c * g)) (xs.map (c * ·)) =
      sumLogPdf (weibullLogPdf Real.log pow a b g) xs - xs.length * Real.log c := by
  apply sumLogPdf_scale
  intro x _
  have hz : (c * x - c * g) / (c * a) = (x - g) / a := by
    rw [← mul_sub, mul_div_mul_left _ _ hc.ne']
  simp only [weibullLogPdf, hz, Real.log_mul hc.ne' ha.ne']
  ring

/-- exponentiated Weibull: scale `α`, shapes `β`, `δ` -/
theorem expWeibull_ll_scale_law (pow : ℝ → ℝ → ℝ) (a b d c : ℝ) (xs : List ℝ) (hc : 0 < c)
    (ha : 0 < a) :
    sumLogPdf (expWeibullLogPdf Real.log (fun t => Real.exp t - 1) pow (c * a) b d) (xs.map (c * ·)) =
      sumLogPdf (expWeibullLogPdf Real.log (fun t => Real.exp t - 1) pow a b d) xs - xs.length * Real.log c := by
  apply sumLogPdf_scale
  intro x _
  have hz : (c * x) / (c * a) = x / a := mul_div_mul_left _ _ hc.ne'
  simp only [expWeibullLogPdf, hz, Real.log_mul hc.ne' ha.ne']
  ring

/-- normal: location `μ`, scale `σ` -/
theorem normal_ll_scale_law (l2pi mu sigma c : ℝ) (xs : List ℝ) (hc : 0 < c) (hs : 0 < sigma) :
    sumLogPdf (normalLogPdf Real.log l2pi (c * mu) (c * sigma)) (xs.map (c * ·)) =
      sumLogPdf (normalLogPdf Real.log l2pi mu sigma) xs - xs.length * Real.log c := by
  apply sumLogPdf_scale
  intro x _
  have hz : (c * x - c * mu) / (c * sigma) = (x - mu) / sigma := by
    rw [← mul_sub, mul_div_mul_left _ _ hc.ne']
  simp only [normalLogPdf, hz, Real.log_mul hc.ne' hs.ne']
  ring

/-- log-normal: `μ` is a log-scale parameter (`μ ↦ μ + log c`), `σ` a shape; positive data -/
theorem lognormal_ll_scale_law (l2pi mu sigma c : ℝ) (xs : List ℝ) (hc : 0 < c)
    (hx : ∀ x ∈ xs, 0 < x) :
    sumLogPdf (lognormalLogPdf Real.log l2pi (mu + Real.log c) sigma) (xs.map (c * ·)) =
      sumLogPdf (lognormalLogPdf Real.log l2pi mu sigma) xs - xs.length * Real.log c := by
  apply sumLogPdf_scale
  intro x hxs
  have hl : Real.log (c * x) = Real.log c + Real.log x := Real.log_mul hc.ne' (hx x hxs).ne'
  have hz : (Real.log c + Real.log x - (mu + Real.log c)) / sigma = (Real.log x - mu) / sigma := by
    congr 1; ring
  simp only [lognormalLogPdf, normalLogPdf, hl, hz]
  ring

/-- generalized gamma: `λ` is a reciprocal scale (`λ ↦ λ/c`), `m`, `c` are shapes -/
theorem genGamma_ll_scale_law (lgamma : ℝ → ℝ) (pow : ℝ → ℝ → ℝ) (m k lam c : ℝ) (xs : List ℝ)
    (hc : 0 < c) (hl : 0 < lam) :
    sumLogPdf (genGammaLogPdf Real.log lgamma pow m k (lam / c)) (xs.map (c * ·)) =
      sumLogPdf (genGammaLogPdf Real.log lgamma pow m k lam) xs - xs.length * Real.log c := by
  apply sumLogPdf_scale
  intro x _
  have hz : lam / c * (c * x) = lam * x := by field_simp
  simp only [genGammaLogPdf, hz, Real.log_div hl.ne' hc.ne']
  ring

/-- gamma with location and scale (the `ScipyDistribution` example) -/
theorem gamma_ll_scale_law (lgamma : ℝ → ℝ) (a l s c : ℝ) (xs : List ℝ) (hc : 0 < c) (hs : 0 < s) :
    sumLogPdf (gammaLogPdf Real.log lgamma a (c * l) (c * s)) (xs.map (c * ·)) =
      sumLogPdf (gammaLogPdf Real.log lgamma a l s) xs - xs.length * Real.log c := by
  apply sumLogPdf_scale
  intro x _
  have hz : (c * x - c * l) / (c * s) = (x - l) / s := by
    rw [← mul_sub, mul_div_mul_left _ _ hc.ne']
  simp only [gammaLogPdf, hz, Real.log_mul hc.ne' hs.ne']
  ring

/-- Gumbel with location and scale only (the `ScipyDistribution` subclass of a scipy law without shapes) -/
theorem gumbel_ll_scale_law (l s c : ℝ) (xs : List ℝ) (hc : 0 < c) (hs : 0 < s) :
    sumLogPdf (gumbelLogPdf Real.log Real.exp (c * l) (c * s)) (xs.map (c * ·)) =
      sumLogPdf (gumbelLogPdf Real.log Real.exp l s) xs - xs.length * Real.log c := by
  apply sumLogPdf_scale
  intro x _
  have hz : (c * x - c * l) / (c * s) = (x - l) / s := by
    rw [← mul_sub, mul_div_mul_left _ _ hc.ne']
  simp only [gumbelLogPdf, hz, Real.log_mul hc.ne' hs.ne']
  ring

/-! ### the closed forms are the logarithms of the documented densities -/

/-- Gumbel: `exp(-(z + exp(-z))) / s`, `z = (x-l)/s`, on the whole line -/
theorem gumbel_logpdf_eq_log_density (l s x : ℝ) (hs : 0 < s) :
    gumbelLogPdf Real.log Real.exp l s x =
      Real.log (lsDens (fun z => Real.exp (-(z + Real.exp (-z)))) l s x) := by
  simp only [gumbelLogPdf, lsDens]
  rw [Real.log_div (Real.exp_pos _).ne' hs.ne', Real.log_exp]
  ring

/-- Weibull: `β/α · z^(β-1) · exp(-z^β)` with `z = (x-γ)/α` is the location-scale density with
standard density `g_β(z) = β z^(β-1) exp(-z^β)`; for `x > γ` its logarithm is the closed form. -/
theorem weibull_logpdf_eq_log_density (a b g x : ℝ) (ha : 0 < a) (hb : 0 < b) (hx : g < x) :
    weibullLogPdf Real.log (fun z y => z ^ y) a b g x =
      Real.log (lsDens (fun z => b * z ^ (b - 1) * Real.exp (-(z ^ b))) g a x) := by
  have hz : 0 < (x - g) / a := div_pos (sub_pos.mpr hx) ha
  simp only [weibullLogPdf, lsDens]
  generalize (x - g) / a = z at hz
  have h1 : 0 < z ^ (b - 1) := Real.rpow_pos_of_pos hz _
  rw [Real.log_div (by positivity) ha.ne', Real.log_mul (by positivity) (Real.exp_pos _).ne',
    Real.log_mul hb.ne' h1.ne', Real.log_exp, Real.log_rpow hz]
  ring

/-- the standard Weibull density is positive on the support: the hypothesis of `ll_scale_law` -/
theorem weibull_std_density_pos (b z : ℝ) (hb : 0 < b) (hz : 0 < z) :
    0 < b * z ^ (b - 1) * Real.exp (-(z ^ b)) := by
  have := Real.rpow_pos_of_pos hz (b - 1)
  positivity

/-- exponentiated Weibull: `δβ/α · z^(β-1) · (1 - exp(-z^β))^(δ-1) · exp(-z^β)`, `z = x/α`, for `x > 0` -/
theorem expWeibull_logpdf_eq_log_density (a b d x : ℝ) (ha : 0 < a) (hb : 0 < b) (hd : 0 < d) (hx : 0 < x) :
    expWeibullLogPdf Real.log (fun t => Real.exp t - 1) (fun z y => z ^ y) a b d x =
      Real.log (lsDens (fun z => d * b * z ^ (b - 1) * (1 - Real.exp (-(z ^ b))) ^ (d - 1) *
        Real.exp (-(z ^ b))) 0 a x) := by
  have hz : 0 < (x - 0) / a := by rw [sub_zero]; exact div_pos hx ha
  simp only [expWeibullLogPdf, lsDens]
  rw [show x / a = (x - 0) / a by rw [sub_zero]]
  generalize (x - 0) / a = z at hz
  have h1 : 0 < z ^ (b - 1) := Real.rpow_pos_of_pos hz _
  have hp : 0 < z ^ b := Real.rpow_pos_of_pos hz _
  have he : 0 < 1 - Real.exp (-(z ^ b)) := by
    have : Real.exp (-(z ^ b)) < 1 := by
      rw [← Real.exp_zero]; exact Real.exp_lt_exp.mpr (by linarith)
    linarith
  have h2 : 0 < (1 - Real.exp (-(z ^ b))) ^ (d - 1) := Real.rpow_pos_of_pos he _
  have e1 : -(Real.exp (-(z ^ b)) - 1) = 1 - Real.exp (-(z ^ b)) := by ring
  rw [e1, Real.log_div (by positivity) ha.ne', Real.log_mul (by positivity) (Real.exp_pos _).ne',
    Real.log_mul (by positivity) h2.ne', Real.log_mul (by positivity) h1.ne', Real.log_mul hd.ne' hb.ne',
    Real.log_exp, Real.log_rpow hz, Real.log_rpow he]
  ring

/-- normal: `exp(-z²/2)/√(2π) / σ`, `z = (x-μ)/σ` -/
theorem normal_logpdf_eq_log_density (mu sigma x : ℝ) (hs : 0 < sigma) :
    normalLogPdf Real.log (Real.log (2 * Real.pi)) mu sigma x =
      Real.log (lsDens (fun z => Real.exp (-(z * z) / 2) / Real.sqrt (2 * Real.pi)) mu sigma x) := by
  have hpi : 0 < 2 * Real.pi := by positivity
  have hsq : 0 < Real.sqrt (2 * Real.pi) := Real.sqrt_pos.mpr hpi
  simp only [normalLogPdf, lsDens]
  rw [Real.log_div (by positivity) hs.ne', Real.log_div (Real.exp_pos _).ne' hsq.ne', Real.log_exp,
    Real.log_sqrt hpi.le]
  ring

/-- log-normal: `exp(-(ln x - μ)²/(2σ²)) / (x σ √(2π))` -/
theorem lognormal_logpdf_eq_log_density (mu sigma x : ℝ) (hs : 0 < sigma) (hx : 0 < x) :
    lognormalLogPdf Real.log (Real.log (2 * Real.pi)) mu sigma x =
      Real.log (Real.exp (-(((Real.log x - mu) / sigma) * ((Real.log x - mu) / sigma)) / 2) /
        (x * sigma * Real.sqrt (2 * Real.pi))) := by
  have hpi : 0 < 2 * Real.pi := by positivity
  have hsq : 0 < Real.sqrt (2 * Real.pi) := Real.sqrt_pos.mpr hpi
  simp only [lognormalLogPdf, normalLogPdf]
  rw [Real.log_div (Real.exp_pos _).ne' (by positivity), Real.log_exp,
    Real.log_mul (by positivity) hsq.ne', Real.log_mul hx.ne' hs.ne', Real.log_sqrt hpi.le]
  ring

/-! ### P1  arg-max equivariance: pure order reasoning on top of the scale law -/

/-- `θ` maximises `LL` over the admissible set `A` -/
def IsArgmax {Θ : Type} (A : Θ → Prop) (LL : Θ → ℝ) (θ : Θ) : Prop :=
  A θ ∧ ∀ θ', A θ' → LL θ' ≤ LL θ

/-- **order kernel**: if a bijection `T` between the admissible sets shifts the objective by a
constant, it maps maximisers to maximisers. -/
theorem argmax_transport {Θ : Type} (A A' : Θ → Prop) (LL LL' : Θ → ℝ) (T Tinv : Θ → Θ) (d : ℝ)
    (hT : ∀ θ, A θ → A' (T θ)) (hTinv : ∀ θ, A' θ → A (Tinv θ) ∧ T (Tinv θ) = θ)
    (hlaw : ∀ θ, A θ → LL' (T θ) = LL θ - d)
    (θ : Θ) (h : IsArgmax A LL θ) : IsArgmax A' LL' (T θ) := by
  refine ⟨hT θ h.1, fun θ' hθ' => ?_⟩
  obtain ⟨hA, hTT⟩ := hTinv θ' hθ'
  have h1 := hlaw (Tinv θ') hA
  rw [hTT] at h1
  rw [h1, hlaw θ h.1]
  linarith [h.2 (Tinv θ') hA]

section LocationScale
variable {S : Type}

/-- parameters (location, scale, shape(s)) -/
abbrev Par (S : Type) := ℝ × ℝ × S

/-- scaling of a parameter vector: location and scale are multiplied, shapes untouched -/
def scalePar (c : ℝ) (θ : Par S) : Par S := (c * θ.1, c * θ.2.1, θ.2.2)

/-- log-likelihood of the location-scale family with standard densities `g shape` -/
noncomputable def lsLL (g : S → ℝ → ℝ) (xs : List ℝ) (θ : Par S) : ℝ :=
  logLik Real.log (lsDens (g θ.2.2) θ.1 θ.2.1) xs

/-- admissible for the sample: in the family's parameter set `A`, positive scale, and the density
is positive at every observation (otherwise the likelihood is 0 and the point is no candidate) -/
def Adm (g : S → ℝ → ℝ) (A : Par S → Prop) (xs : List ℝ) (θ : Par S) : Prop :=
  A θ ∧ 0 < θ.2.1 ∧ ∀ x ∈ xs, 0 < g θ.2.2 ((x - θ.1) / θ.2.1)

theorem adm_scale (g : S → ℝ → ℝ) (A : Par S → Prop) (xs : List ℝ) (c : ℝ) (hc : 0 < c)
    (hA : ∀ t, 0 < t → ∀ θ, A θ → A (scalePar t θ)) (θ : Par S) (h : Adm g A xs θ) :
    Adm g A (xs.map (c * ·)) (scalePar c θ) := by
  obtain ⟨h1, h2, h3⟩ := h
  refine ⟨hA c hc θ h1, mul_pos hc h2, ?_⟩
  intro y hy
  obtain ⟨x, hx, rfl⟩ := List.mem_map.mp hy
  have : (c * x - c * θ.1) / (c * θ.2.1) = (x - θ.1) / θ.2.1 := by
    rw [← mul_sub, mul_div_mul_left _ _ hc.ne']
  simpa [scalePar, this] using h3 x hx

theorem scalePar_inv (c : ℝ) (hc : c ≠ 0) (θ : Par S) : scalePar c (scalePar c⁻¹ θ) = θ := by
  obtain ⟨l, s, k⟩ := θ
  simp [scalePar, mul_inv_cancel_left₀ hc]

theorem map_scale_inv (c : ℝ) (hc : c ≠ 0) (xs : List ℝ) :
    (xs.map (c * ·)).map (c⁻¹ * ·) = xs := by
  induction xs with
  | nil => rfl
  | cons x xs ih => simp [inv_mul_cancel_left₀ hc] at ih ⊢; exact ih

/-- **`argmax_equivariant`**: if `(l̂, ŝ, shape)` maximises the likelihood of `x` over an
admissible set closed under scaling, then `(c·l̂, c·ŝ, shape)` maximises the likelihood of `c·x`
over the same set — for every location-scale family, every sample, every `c > 0`. -/
theorem argmax_equivariant (g : S → ℝ → ℝ) (A : Par S → Prop) (xs : List ℝ) (c : ℝ) (hc : 0 < c)
    (hA : ∀ t, 0 < t → ∀ θ, A θ → A (scalePar t θ)) (θ : Par S)
    (h : IsArgmax (Adm g A xs) (lsLL g xs) θ) :
    IsArgmax (Adm g A (xs.map (c * ·))) (lsLL g (xs.map (c * ·))) (scalePar c θ) := by
  refine argmax_transport (Adm g A xs) (Adm g A (xs.map (c * ·))) (lsLL g xs)
    (lsLL g (xs.map (c * ·))) (scalePar c) (scalePar c⁻¹) (xs.length * Real.log c)
    (adm_scale g A xs c hc hA) ?_ ?_ θ h
  · intro θ' hθ'
    have := adm_scale g A (xs.map (c * ·)) c⁻¹ (inv_pos.mpr hc) hA θ' hθ'
    rw [map_scale_inv c hc.ne'] at this
    exact ⟨this, scalePar_inv c hc.ne' θ'⟩
  · intro θ' hθ'
    exact ll_scale_law (g θ'.2.2) θ'.1 θ'.2.1 c xs hc hθ'.2.1 hθ'.2.2

/-- **log-scale corollary**: a family with location fixed at 0 and scale `exp μ`
(`LogNormalDistribution`: `scipy scale = exp(mu)`, `floc = 0`).  If `(μ̂, shape)` maximises the
likelihood of `x`, then `(μ̂ + log c, shape)` maximises the likelihood of `c·x`.
Non-vacuous: `lognormal_fit_isArgmax_logscale` exhibits a maximiser (the log-normal closed form). -/
theorem argmax_equivariant_logscale (g : S → ℝ → ℝ) (K : S → Prop) (xs : List ℝ) (c : ℝ)
    (hc : 0 < c) (mu : ℝ) (k : S)
    (h : IsArgmax (Adm g (fun θ => θ.1 = 0 ∧ K θ.2.2) xs) (lsLL g xs) (0, Real.exp mu, k)) :
    IsArgmax (Adm g (fun θ => θ.1 = 0 ∧ K θ.2.2) (xs.map (c * ·))) (lsLL g (xs.map (c * ·)))
      (0, Real.exp (mu + Real.log c), k) := by
  have := argmax_equivariant g (fun θ => θ.1 = 0 ∧ K θ.2.2) xs c hc
    (fun t _ θ hθ => ⟨by simp [scalePar, hθ.1], hθ.2⟩) _ h
  have e : scalePar c ((0, Real.exp mu, k) : Par S) = (0, Real.exp (mu + Real.log c), k) := by
    simp [scalePar, Real.exp_add, Real.exp_log hc, mul_comm]
  rwa [e] at this

end LocationScale

-- non-vacuity of `argmax_equivariant`: see `normal_fit_isArgmax` / `normal_fit_scaled_isArgmax` below
-- (a maximiser exists for every sample with positive spread, the theorem is applied to it).

/-! ### P1  closed-form estimators: exact equivariance -/

theorem sum_map_mul_left (c : ℝ) (f : ℝ → ℝ) (xs : List ℝ) :
    (xs.map fun x => c * f x).sum = c * (xs.map f).sum := by
  induction xs with
  | nil => simp
  | cons x xs ih => simp only [List.map_cons, List.sum_cons, ih]; ring

theorem sum_map_add_const (d : ℝ) (xs : List ℝ) :
    (xs.map (d + ·)).sum = xs.length * d + xs.sum := by
  induction xs with
  | nil => simp
  | cons x xs ih => simp only [List.map_cons, List.sum_cons, List.length_cons, ih]; push_cast; ring

theorem cnt_map (f : ℝ → ℝ) (xs : List ℝ) : cnt (xs.map f) = cnt xs := by
  rw [cnt_eq_length, cnt_eq_length, List.length_map]

theorem cnt_pos (xs : List ℝ) (h : xs ≠ []) : 0 < cnt xs := by
  rw [cnt_eq_length]; exact_mod_cast List.length_pos_iff.mpr h

theorem meanL_scale (c : ℝ) (xs : List ℝ) : meanL (xs.map (c * ·)) = c * meanL xs := by
  unfold meanL
  rw [cnt_map]
  have := sum_map_mul_left c id xs
  rw [List.map_id] at this
  simp only [id] at this
  rw [this, mul_div_assoc]

theorem meanL_shift (d : ℝ) (xs : List ℝ) (h : xs ≠ []) : meanL (xs.map (d + ·)) = d + meanL xs := by
  unfold meanL
  rw [cnt_map, sum_map_add_const, cnt_eq_length]
  have : (xs.length : ℝ) ≠ 0 := by exact_mod_cast (List.length_pos_iff.mpr h).ne'
  field_simp

theorem meanSqDev_scale (c m : ℝ) (xs : List ℝ) :
    meanSqDev (c * m) (xs.map (c * ·)) = c * c * meanSqDev m xs := by
  unfold meanSqDev meanL
  rw [cnt_map, cnt_map, cnt_map, List.map_map]
  have : ((fun x => (x - c * m) * (x - c * m)) ∘ fun x => c * x) =
      fun x => (c * c) * ((x - m) * (x - m)) := by
    funext x; simp only [Function.comp]; ring
  rw [this, sum_map_mul_left, mul_div_assoc]

theorem meanSqDev_shift (d m : ℝ) (xs : List ℝ) :
    meanSqDev (d + m) (xs.map (d + ·)) = meanSqDev m xs := by
  unfold meanSqDev meanL
  rw [cnt_map, cnt_map, cnt_map, List.map_map]
  have : ((fun x => (x - (d + m)) * (x - (d + m))) ∘ fun x => d + x) =
      fun x => (x - m) * (x - m) := by
    funext x; simp only [Function.comp]; ring
  rw [this]

/-- **`normal_closed_form_equivariant`**: scipy's `norm.fit` (mean, population standard deviation)
applied to `c·x` returns exactly `(c·μ̂, c·σ̂)`; every sample, every `c > 0`. -/
theorem normal_closed_form_equivariant (c : ℝ) (hc : 0 < c) (xs : List ℝ) :
    normalFit Real.sqrt (xs.map (c * ·)) =
      (normalFit Real.sqrt xs).map (fun p => (c * p.1, c * p.2)) := by
  cases xs with
  | nil => rfl
  | cons x xs =>
    have e : (x :: xs).map (c * ·) = c * x :: xs.map (c * ·) := rfl
    simp only [List.map_cons, normalFit, Option.map_some]
    rw [← e, meanL_scale, meanSqDev_scale, Real.sqrt_mul (mul_self_nonneg c),
      Real.sqrt_mul_self hc.le]

/-- the normal fit is also translation equivariant (used for the log-normal) -/
theorem normal_closed_form_shift (d : ℝ) (xs : List ℝ) :
    normalFit Real.sqrt (xs.map (d + ·)) = (normalFit Real.sqrt xs).map (fun p => (d + p.1, p.2)) := by
  cases xs with
  | nil => rfl
  | cons x xs =>
    have e : (x :: xs).map (d + ·) = (d + x) :: xs.map (d + ·) := rfl
    simp only [List.map_cons, normalFit, Option.map_some]
    rw [← e, meanL_shift d (x :: xs) (by simp), meanSqDev_shift]

/-- the log-normal fit (`floc = 0`, scipy's analytic branch) is the normal fit of the logarithms;
it is defined iff the sample is non-empty and positive -/
theorem lognormalFit_eq_normalFit_log (xs : List ℝ) (hx : ∀ x ∈ xs, 0 < x) :
    lognormalFit Real.log Real.exp Real.sqrt xs = normalFit Real.sqrt (xs.map Real.log) := by
  cases xs with
  | nil => rfl
  | cons x xs =>
    have hall : ((x :: xs).all fun x => decide ((0 : ℝ) < x)) = true := by
      rw [List.all_eq_true]; intro y hy; exact decide_eq_true (hx y hy)
    simp only [lognormalFit, hall, if_true, Real.log_exp, List.map_cons, normalFit]

theorem lognormalFit_none_of_nonpos (xs : List ℝ) (x : ℝ) (hx : x ∈ xs) (h : x ≤ 0) :
    lognormalFit Real.log Real.exp Real.sqrt xs = none := by
  cases xs with
  | nil => rfl
  | cons y ys =>
    have hall : ((y :: ys).all fun x => decide ((0 : ℝ) < x)) = false := by
      rw [List.all_eq_false]; exact ⟨x, hx, by simp [not_lt.mpr h]⟩
    simp [lognormalFit, hall]

/-- **`lognormal_closed_form_equivariant`**: `LogNormalDistribution.fit` (free parameters) applied to
`c·x` returns exactly `(μ̂ + log c, σ̂)`; every positive sample, every `c > 0`. -/
theorem lognormal_closed_form_equivariant (c : ℝ) (hc : 0 < c) (xs : List ℝ) (hx : ∀ x ∈ xs, 0 < x) :
    lognormalFit Real.log Real.exp Real.sqrt (xs.map (c * ·)) =
      (lognormalFit Real.log Real.exp Real.sqrt xs).map (fun p => (p.1 + Real.log c, p.2)) := by
  have hx' : ∀ y ∈ xs.map (c * ·), 0 < y := by
    intro y hy; obtain ⟨x, hx1, rfl⟩ := List.mem_map.mp hy; exact mul_pos hc (hx x hx1)
  rw [lognormalFit_eq_normalFit_log _ hx', lognormalFit_eq_normalFit_log _ hx]
  have : (xs.map (c * ·)).map Real.log = (xs.map Real.log).map (Real.log c + ·) := by
    rw [List.map_map, List.map_map]
    apply List.map_congr_left
    intro x hx1
    simp only [Function.comp]
    exact Real.log_mul hc.ne' (hx x hx1).ne'
  rw [this, normal_closed_form_shift]
  cases normalFit Real.sqrt (xs.map Real.log) with
  | none => rfl
  | some p => simp [add_comm]

/-- non-vacuity: both fits are defined on a concrete sample -/
example : (normalFit Real.sqrt [1, 3]).isSome = true := rfl
example : lognormalFit Real.log Real.exp Real.sqrt [1, 3] = normalFit Real.sqrt ([1, 3].map Real.log) :=
  lognormalFit_eq_normalFit_log _ (by simp)

/-! ### P2  the closed-form normal / log-normal estimators are the arg-max of the likelihood -/

/-- sum of squared deviations from `mu` -/
def ss (mu : ℝ) (xs : List ℝ) : ℝ := (xs.map fun x => (x - mu) * (x - mu)).sum

theorem ss_nonneg (mu : ℝ) (xs : List ℝ) : 0 ≤ ss mu xs := by
  unfold ss
  induction xs with
  | nil => simp
  | cons x xs ih => simp only [List.map_cons, List.sum_cons]; nlinarith [mul_self_nonneg (x - mu)]

/-- decomposition around an arbitrary centre `m` -/
theorem ss_decomp (mu m : ℝ) (xs : List ℝ) :
    ss mu xs = ss m xs + 2 * (m - mu) * (xs.sum - xs.length * m) + xs.length * ((m - mu) * (m - mu)) := by
  unfold ss
  induction xs with
  | nil => simp
  | cons x xs ih =>
    simp only [List.map_cons, List.sum_cons, List.length_cons, ih]; push_cast; ring

theorem sum_sub_length_mul_mean (xs : List ℝ) (h : xs ≠ []) : xs.sum - xs.length * meanL xs = 0 := by
  unfold meanL
  rw [cnt_eq_length]
  have : (xs.length : ℝ) ≠ 0 := by exact_mod_cast (List.length_pos_iff.mpr h).ne'
  field_simp; ring

/-- around the mean the cross term vanishes -/
theorem ss_mean (mu : ℝ) (xs : List ℝ) (h : xs ≠ []) :
    ss mu xs = ss (meanL xs) xs + xs.length * ((meanL xs - mu) * (meanL xs - mu)) := by
  rw [ss_decomp mu (meanL xs) xs, sum_sub_length_mul_mean xs h]; ring

/-- the normal log-likelihood in terms of `n`, `log σ` and the sum of squares -/
theorem sumLogPdf_normal (l2pi mu sigma : ℝ) (xs : List ℝ) :
    sumLogPdf (normalLogPdf Real.log l2pi mu sigma) xs =
      -(xs.length * Real.log sigma) - xs.length * (l2pi / 2) - ss mu xs / (sigma * sigma) / 2 := by
  unfold ss
  induction xs with
  | nil => simp [sumLogPdf]
  | cons x xs ih =>
    rw [sumLogPdf_cons, ih]
    simp only [normalLogPdf, List.map_cons, List.sum_cons, List.length_cons, div_mul_div_comm]
    push_cast; ring

theorem normalFit_spec (xs : List ℝ) (m s : ℝ) (h : normalFit Real.sqrt xs = some (m, s)) :
    xs ≠ [] ∧ m = meanL xs ∧ s * s = ss m xs / xs.length := by
  cases xs with
  | nil => simp [normalFit] at h
  | cons x xs =>
    simp only [normalFit, Option.some.injEq, Prod.mk.injEq] at h
    obtain ⟨h1, h2⟩ := h
    refine ⟨by simp, h1.symm, ?_⟩
    subst h1
    have hnn : 0 ≤ meanSqDev (meanL (x :: xs)) (x :: xs) := by
      unfold meanSqDev
      rw [meanL]
      exact div_nonneg (ss_nonneg _ _) (by rw [cnt_eq_length]; positivity)
    rw [← h2, Real.mul_self_sqrt hnn]
    unfold meanSqDev meanL ss
    rw [cnt_map, cnt_eq_length]

/-- the core inequality `log t ≤ t − 1` in the form needed: for `σ, s > 0` and `q ≥ 0`,
`−n log σ − (n s² + n q)/(2σ²) ≤ −n log s − n/2`, strictly when `q > 0`. -/
theorem normal_core (n s sigma q : ℝ) (hn : 0 < n) (hs : 0 < s) (hsig : 0 < sigma) (hq : 0 ≤ q) :
    -(n * Real.log sigma) - (n * (s * s) + n * q) / (sigma * sigma) / 2 ≤
      -(n * Real.log s) - n * (s * s) / (s * s) / 2 ∧
    (0 < q → -(n * Real.log sigma) - (n * (s * s) + n * q) / (sigma * sigma) / 2 <
      -(n * Real.log s) - n * (s * s) / (s * s) / 2) := by
  have ht : 0 < s * s / (sigma * sigma) := by positivity
  have key := Real.log_le_sub_one_of_pos ht
  rw [Real.log_div (by positivity) (by positivity), Real.log_mul hs.ne' hs.ne',
    Real.log_mul hsig.ne' hsig.ne'] at key
  have e1 : (n * (s * s) + n * q) / (sigma * sigma) / 2 =
      n * (s * s / (sigma * sigma)) / 2 + n * (q / (sigma * sigma)) / 2 := by ring
  have e2 : n * (s * s) / (s * s) / 2 = n / 2 := by field_simp
  have hB : 0 ≤ q / (sigma * sigma) := by positivity
  rw [e1, e2]
  constructor
  · nlinarith [mul_nonneg hn.le (sub_nonneg.mpr key), mul_nonneg hn.le hB]
  · intro hq'
    have hB' : 0 < q / (sigma * sigma) := by positivity
    nlinarith [mul_nonneg hn.le (sub_nonneg.mpr key), mul_pos hn hB']

/-- **`normal_mle_is_argmax`**: for a sample with positive spread, scipy's closed form
`(mean, population std)` has at least the log-likelihood of EVERY admissible `(μ, σ)`, `σ > 0` —
in particular of any start values and of the generating parameters. -/
theorem normal_mle_is_argmax (l2pi : ℝ) (xs : List ℝ) (m s : ℝ)
    (h : normalFit Real.sqrt xs = some (m, s)) (hs : 0 < s) (mu sigma : ℝ) (hsig : 0 < sigma) :
    sumLogPdf (normalLogPdf Real.log l2pi mu sigma) xs ≤
      sumLogPdf (normalLogPdf Real.log l2pi m s) xs := by
  obtain ⟨hne, hm, hss⟩ := normalFit_spec xs m s h
  have hn : 0 < (xs.length : ℝ) := by exact_mod_cast List.length_pos_iff.mpr hne
  have hS : ss m xs = xs.length * (s * s) := by rw [hss]; field_simp
  rw [sumLogPdf_normal, sumLogPdf_normal, ss_mean mu xs hne, ← hm, hS]
  have := (normal_core xs.length s sigma ((m - mu) * (m - mu)) hn hs hsig (mul_self_nonneg _)).1
  linarith

/-- the maximiser is unique in `μ`: any other location loses likelihood strictly, whatever `σ` -/
theorem normal_mle_strict (l2pi : ℝ) (xs : List ℝ) (m s : ℝ)
    (h : normalFit Real.sqrt xs = some (m, s)) (hs : 0 < s) (mu sigma : ℝ) (hsig : 0 < sigma)
    (hmu : mu ≠ m) :
    sumLogPdf (normalLogPdf Real.log l2pi mu sigma) xs <
      sumLogPdf (normalLogPdf Real.log l2pi m s) xs := by
  obtain ⟨hne, hm, hss⟩ := normalFit_spec xs m s h
  have hn : 0 < (xs.length : ℝ) := by exact_mod_cast List.length_pos_iff.mpr hne
  have hS : ss m xs = xs.length * (s * s) := by rw [hss]; field_simp
  rw [sumLogPdf_normal, sumLogPdf_normal, ss_mean mu xs hne, ← hm, hS]
  have hq : 0 < (m - mu) * (m - mu) := mul_self_pos.mpr (sub_ne_zero.mpr (Ne.symm hmu))
  have := (normal_core xs.length s sigma ((m - mu) * (m - mu)) hn hs hsig hq.le).2 hq
  linarith

/-- non-vacuity of `normal_mle_is_argmax`: a sample whose fit is defined with positive spread -/
example : normalFit Real.sqrt [1, 3] = some (2, 1) := by
  have hm : meanL ([1, 3] : List ℝ) = 2 := by simp [meanL, cnt]; norm_num
  have hv : meanSqDev 2 ([1, 3] : List ℝ) = 1 := by simp [meanSqDev, meanL, cnt]; norm_num
  simp only [normalFit, hm, hv, Real.sqrt_one]

/-- the log-normal log-likelihood is the normal log-likelihood of the logarithms minus `Σ log x` -/
theorem sumLogPdf_lognormal (l2pi mu sigma : ℝ) (xs : List ℝ) :
    sumLogPdf (lognormalLogPdf Real.log l2pi mu sigma) xs =
      sumLogPdf (normalLogPdf Real.log l2pi mu sigma) (xs.map Real.log) - (xs.map Real.log).sum := by
  induction xs with
  | nil => simp [sumLogPdf]
  | cons x xs ih =>
    rw [sumLogPdf_cons, ih]
    simp only [lognormalLogPdf, List.map_cons, List.sum_cons, sumLogPdf_cons]
    ring

/-- **`lognormal_mle_is_argmax`**: `LogNormalDistribution.fit` (closed form, `floc = 0`) has at
least the log-likelihood of every `(μ, σ)`, `σ > 0`. -/
theorem lognormal_mle_is_argmax (l2pi : ℝ) (xs : List ℝ) (hx : ∀ x ∈ xs, 0 < x) (m s : ℝ)
    (h : lognormalFit Real.log Real.exp Real.sqrt xs = some (m, s)) (hs : 0 < s)
    (mu sigma : ℝ) (hsig : 0 < sigma) :
    sumLogPdf (lognormalLogPdf Real.log l2pi mu sigma) xs ≤
      sumLogPdf (lognormalLogPdf Real.log l2pi m s) xs := by
  rw [lognormalFit_eq_normalFit_log xs hx] at h
  rw [sumLogPdf_lognormal, sumLogPdf_lognormal]
  have := normal_mle_is_argmax l2pi (xs.map Real.log) m s h hs mu sigma hsig
  linarith

theorem lognormal_mle_strict (l2pi : ℝ) (xs : List ℝ) (hx : ∀ x ∈ xs, 0 < x) (m s : ℝ)
    (h : lognormalFit Real.log Real.exp Real.sqrt xs = some (m, s)) (hs : 0 < s)
    (mu sigma : ℝ) (hsig : 0 < sigma) (hmu : mu ≠ m) :
    sumLogPdf (lognormalLogPdf Real.log l2pi mu sigma) xs <
      sumLogPdf (lognormalLogPdf Real.log l2pi m s) xs := by
  rw [lognormalFit_eq_normalFit_log xs hx] at h
  rw [sumLogPdf_lognormal, sumLogPdf_lognormal]
  have := normal_mle_strict l2pi (xs.map Real.log) m s h hs mu sigma hsig hmu
  linarith

/-! ### P2b  the closed forms with ONE PARAMETER FIXED are the arg-max of the constrained problem

`NormalDistribution(f_mu=…)/(f_sigma=…)` and `LogNormalDistribution(f_mu=…)/(f_sigma=…)` reach scipy's `floc` /
`fscale` / `f0` branches of `norm.fit` / `lognorm.fit(floc=0)` (models `normalFitFixedLoc`, `normalFitFixedScale`,
`lognormalFitFixedMu`, `lognormalFitFixedSigma`, tied to the real fits by correspondence (B) of harness/c12.py). -/

theorem normalFitFixedLoc_spec (xs : List ℝ) (mu0 s : ℝ) (h : normalFitFixedLoc Real.sqrt mu0 xs = some s) :
    xs ≠ [] ∧ s * s = ss mu0 xs / xs.length := by
  cases xs with
  | nil => simp [normalFitFixedLoc] at h
  | cons x xs =>
    simp only [normalFitFixedLoc, Option.some.injEq] at h
    refine ⟨by simp, ?_⟩
    have hnn : 0 ≤ meanSqDev mu0 (x :: xs) := by
      unfold meanSqDev
      rw [meanL]
      exact div_nonneg (ss_nonneg _ _) (by rw [cnt_eq_length]; positivity)
    rw [← h, Real.mul_self_sqrt hnn]
    unfold meanSqDev meanL ss
    rw [cnt_map, cnt_eq_length]

/-- **fixed location**: with `μ` fixed at `μ₀`, the returned `σ̂ = sqrt(mean (x-μ₀)²)` has at least the
log-likelihood of every `σ > 0` at the same `μ₀` (start values and generating `σ` included) -/
theorem normal_fixed_loc_is_argmax (l2pi : ℝ) (xs : List ℝ) (mu0 s : ℝ)
    (h : normalFitFixedLoc Real.sqrt mu0 xs = some s) (hs : 0 < s) (sigma : ℝ) (hsig : 0 < sigma) :
    sumLogPdf (normalLogPdf Real.log l2pi mu0 sigma) xs ≤
      sumLogPdf (normalLogPdf Real.log l2pi mu0 s) xs := by
  obtain ⟨hne, hss⟩ := normalFitFixedLoc_spec xs mu0 s h
  have hn : 0 < (xs.length : ℝ) := by exact_mod_cast List.length_pos_iff.mpr hne
  have hS : ss mu0 xs = xs.length * (s * s) := by rw [hss]; field_simp
  rw [sumLogPdf_normal, sumLogPdf_normal, hS]
  have := (normal_core xs.length s sigma 0 hn hs hsig le_rfl).1
  simp only [mul_zero, add_zero] at this
  linarith

/-- **fixed scale**: with `σ` fixed at any `σ₀ > 0`, the returned `μ̂ = mean` has at least the log-likelihood of
every `μ` at the same `σ₀` -/
theorem normal_fixed_scale_is_argmax (l2pi : ℝ) (xs : List ℝ) (m : ℝ)
    (h : normalFitFixedScale xs = some m) (sigma0 : ℝ) (hsig : 0 < sigma0) (mu : ℝ) :
    sumLogPdf (normalLogPdf Real.log l2pi mu sigma0) xs ≤
      sumLogPdf (normalLogPdf Real.log l2pi m sigma0) xs := by
  cases xs with
  | nil => simp [normalFitFixedScale] at h
  | cons x xs =>
    simp only [normalFitFixedScale, Option.some.injEq] at h
    subst h
    rw [sumLogPdf_normal, sumLogPdf_normal, ss_mean mu (x :: xs) (by simp), add_div, add_div]
    have : 0 ≤ ((x :: xs).length : ℝ) * ((meanL (x :: xs) - mu) * (meanL (x :: xs) - mu)) /
        (sigma0 * sigma0) / 2 :=
      div_nonneg (div_nonneg (mul_nonneg (Nat.cast_nonneg _) (mul_self_nonneg _)) (mul_pos hsig hsig).le)
        (by norm_num)
    linarith

/-- the log-normal fixed-`μ` fit is the normal fixed-location fit of the logarithms -/
theorem lognormalFitFixedMu_eq (xs : List ℝ) (hx : ∀ x ∈ xs, 0 < x) (m : ℝ) :
    lognormalFitFixedMu Real.log Real.exp Real.sqrt m xs = normalFitFixedLoc Real.sqrt m (xs.map Real.log) := by
  cases xs with
  | nil => rfl
  | cons x xs =>
    have hall : ((x :: xs).all fun x => decide ((0 : ℝ) < x)) = true := by
      rw [List.all_eq_true]; intro y hy; exact decide_eq_true (hx y hy)
    simp only [lognormalFitFixedMu, hall, if_true, Real.log_exp, List.map_cons, normalFitFixedLoc]

theorem lognormalFitFixedSigma_eq (xs : List ℝ) (hx : ∀ x ∈ xs, 0 < x) :
    lognormalFitFixedSigma Real.log Real.exp xs = normalFitFixedScale (xs.map Real.log) := by
  cases xs with
  | nil => rfl
  | cons x xs =>
    have hall : ((x :: xs).all fun x => decide ((0 : ℝ) < x)) = true := by
      rw [List.all_eq_true]; intro y hy; exact decide_eq_true (hx y hy)
    simp only [lognormalFitFixedSigma, hall, if_true, Real.log_exp, List.map_cons, normalFitFixedScale]

/-- `LogNormalDistribution(f_mu=μ₀).fit`: the returned `σ̂` is the arg-max over `σ > 0` at `μ₀` -/
theorem lognormal_fixed_mu_is_argmax (l2pi : ℝ) (xs : List ℝ) (hx : ∀ x ∈ xs, 0 < x) (mu0 s : ℝ)
    (h : lognormalFitFixedMu Real.log Real.exp Real.sqrt mu0 xs = some s) (hs : 0 < s)
    (sigma : ℝ) (hsig : 0 < sigma) :
    sumLogPdf (lognormalLogPdf Real.log l2pi mu0 sigma) xs ≤
      sumLogPdf (lognormalLogPdf Real.log l2pi mu0 s) xs := by
  rw [lognormalFitFixedMu_eq xs hx] at h
  rw [sumLogPdf_lognormal, sumLogPdf_lognormal]
  have := normal_fixed_loc_is_argmax l2pi (xs.map Real.log) mu0 s h hs sigma hsig
  linarith

/-- `LogNormalDistribution(f_sigma=σ₀).fit`: the returned `μ̂ = mean(log x)` is the arg-max over `μ` at `σ₀` -/
theorem lognormal_fixed_sigma_is_argmax (l2pi : ℝ) (xs : List ℝ) (hx : ∀ x ∈ xs, 0 < x) (m : ℝ)
    (h : lognormalFitFixedSigma Real.log Real.exp xs = some m) (sigma0 : ℝ) (hsig : 0 < sigma0) (mu : ℝ) :
    sumLogPdf (lognormalLogPdf Real.log l2pi mu sigma0) xs ≤
      sumLogPdf (lognormalLogPdf Real.log l2pi m sigma0) xs := by
  rw [lognormalFitFixedSigma_eq xs hx] at h
  rw [sumLogPdf_lognormal, sumLogPdf_lognormal]
  have := normal_fixed_scale_is_argmax l2pi (xs.map Real.log) m h sigma0 hsig mu
  linarith

/-- non-vacuity: the fixed-location fit of `[1, 3]` at `μ₀ = 1` is `σ̂ = sqrt 2 > 0`, the fixed-scale fit is `2` -/
example : normalFitFixedLoc Real.sqrt 1 [1, 3] = some (Real.sqrt 2) ∧ normalFitFixedScale ([1, 3] : List ℝ) = some 2 := by
  have hv : meanSqDev 1 ([1, 3] : List ℝ) = 2 := by simp [meanSqDev, meanL, cnt]; norm_num
  have hm : meanL ([1, 3] : List ℝ) = 2 := by simp [meanL, cnt]; norm_num
  exact ⟨by simp only [normalFitFixedLoc, hv], by simp only [normalFitFixedScale, hm]⟩

/-! ### `LogNormalNormFitDistribution._fit_mle` is a moment estimator, not an arg-max (section 4 #19) -/

/-- what `_fit_mle` stores: the sample mean and the `ddof = 1` standard deviation of the DATA -/
theorem normFit_spec (x y : ℝ) (xs : List ℝ) :
    normFit Real.sqrt (x :: y :: xs) =
      some (meanL (x :: y :: xs),
        Real.sqrt (ss (meanL (x :: y :: xs)) (x :: y :: xs) / (((x :: y :: xs).length : ℝ) - 1))) := by
  simp only [normFit, ss, cnt_eq_length]

/-- **`normfit_is_moment_estimator`**: the `(mu, sigma)` that `calculate_mu` / `calculate_sigma`
derive from `(mu_norm, sigma_norm) = (m, s)` are exactly the log-normal parameters whose MEAN is
`m` and whose VARIANCE is `s²` (method of moments) — no likelihood is involved. -/
theorem normfit_is_moment_estimator (m s : ℝ) (hm : 0 < m) :
    Real.exp (normFitMu Real.log Real.sqrt m s +
        normFitSigma Real.log Real.sqrt m s * normFitSigma Real.log Real.sqrt m s / 2) = m ∧
    (Real.exp (normFitSigma Real.log Real.sqrt m s * normFitSigma Real.log Real.sqrt m s) - 1) *
      Real.exp (2 * normFitMu Real.log Real.sqrt m s +
        normFitSigma Real.log Real.sqrt m s * normFitSigma Real.log Real.sqrt m s) = s * s := by
  have hq1 : 1 ≤ 1 + s * s / (m * m) := by
    have : 0 ≤ s * s / (m * m) := div_nonneg (mul_self_nonneg s) (mul_self_nonneg m)
    linarith
  have hq : 0 < 1 + s * s / (m * m) := by linarith
  have hsq : 0 < Real.sqrt (1 + s * s / (m * m)) := Real.sqrt_pos.mpr hq
  have hsig : normFitSigma Real.log Real.sqrt m s * normFitSigma Real.log Real.sqrt m s =
      Real.log (1 + s * s / (m * m)) := Real.mul_self_sqrt (Real.log_nonneg hq1)
  have hmu : Real.exp (normFitMu Real.log Real.sqrt m s) = m / Real.sqrt (1 + s * s / (m * m)) :=
    Real.exp_log (div_pos hm hsq)
  rw [hsig]
  constructor
  · rw [Real.exp_add, hmu, Real.exp_half, Real.exp_log hq]
    field_simp
  · rw [Real.exp_add, Real.exp_log hq, two_mul, Real.exp_add, hmu]
    have h2 : m / Real.sqrt (1 + s * s / (m * m)) * (m / Real.sqrt (1 + s * s / (m * m))) =
        m * m / (1 + s * s / (m * m)) := by
      rw [div_mul_div_comm, Real.mul_self_sqrt hq.le]
    rw [h2]
    field_simp
    ring

/-- the witness sample `[1, 4]`: what `LogNormalNormFitDistribution._fit_mle` stores … -/
theorem normFit_witness : normFit Real.sqrt [1, 4] = some (5 / 2, Real.sqrt (9 / 2)) := by
  rw [normFit_spec]
  have hm : meanL ([1, 4] : List ℝ) = 5 / 2 := by simp [meanL, cnt]; norm_num
  rw [hm]
  simp [ss]
  norm_num

/-- … and what the maximum-likelihood fit of the log-normal distribution is on it -/
theorem lognormalFit_witness :
    lognormalFit Real.log Real.exp Real.sqrt [1, 4] = some (Real.log 2, Real.log 2) := by
  rw [lognormalFit_eq_normalFit_log _ (by simp)]
  have h4 : Real.log 4 = 2 * Real.log 2 := by
    rw [show (4 : ℝ) = 2 * 2 by norm_num, Real.log_mul (by norm_num) (by norm_num)]; ring
  have hl : 0 < Real.log 2 := Real.log_pos (by norm_num)
  have hm : meanL [Real.log 1, Real.log 4] = Real.log 2 := by
    simp [meanL, cnt, h4]; ring
  simp only [List.map_cons, List.map_nil, normalFit, hm, Option.some.injEq, Prod.mk.injEq, true_and]
  have hv : meanSqDev (Real.log 2) [Real.log 1, Real.log 4] = Real.log 2 * Real.log 2 := by
    simp [meanSqDev, meanL, cnt, h4]; ring
  rw [hv, Real.sqrt_mul_self hl.le]

/-- **`normfit_not_argmax`**: on the sample `[1, 4]` the parameters produced by
`LogNormalNormFitDistribution._fit_mle` have a strictly smaller log-normal log-likelihood than the
maximum-likelihood parameters `(log 2, log 2)`: the method called "mle" is not one.  No
transcendental value is evaluated: the log-normal arg-max is unique in `μ` (`lognormal_mle_strict`)
and the moment estimator's `μ = log(5/2 / √(43/25))` differs from `log 2`. -/
theorem normfit_not_argmax (l2pi : ℝ) :
    ∃ (xs : List ℝ) (m s mh sh : ℝ), (∀ x ∈ xs, 0 < x) ∧
      normFit Real.sqrt xs = some (m, s) ∧
      lognormalFit Real.log Real.exp Real.sqrt xs = some (mh, sh) ∧
      0 < normFitSigma Real.log Real.sqrt m s ∧
      sumLogPdf (lognormalLogPdf Real.log l2pi (normFitMu Real.log Real.sqrt m s)
          (normFitSigma Real.log Real.sqrt m s)) xs <
        sumLogPdf (lognormalLogPdf Real.log l2pi mh sh) xs := by
  have hpos : ∀ x ∈ ([1, 4] : List ℝ), 0 < x := by
    intro x hx; simp at hx; rcases hx with rfl | rfl <;> norm_num
  have hl : 0 < Real.log 2 := Real.log_pos (by norm_num)
  have hss : Real.sqrt (9 / 2) * Real.sqrt (9 / 2) = 9 / 2 := Real.mul_self_sqrt (by norm_num)
  have hq : (1 : ℝ) + Real.sqrt (9 / 2) * Real.sqrt (9 / 2) / (5 / 2 * (5 / 2)) = 43 / 25 := by
    rw [hss]; norm_num
  have hsig : 0 < normFitSigma Real.log Real.sqrt (5 / 2) (Real.sqrt (9 / 2)) := by
    unfold normFitSigma
    rw [hq]
    exact Real.sqrt_pos.mpr (Real.log_pos (by norm_num))
  have hmu : normFitMu Real.log Real.sqrt (5 / 2) (Real.sqrt (9 / 2)) ≠ Real.log 2 := by
    unfold normFitMu
    rw [hq]
    intro h
    have hsq : 0 < Real.sqrt (43 / 25) := Real.sqrt_pos.mpr (by norm_num)
    have h2 : (5 / 2 : ℝ) / Real.sqrt (43 / 25) = 2 :=
      Real.log_injOn_pos (Set.mem_Ioi.mpr (by positivity)) (Set.mem_Ioi.mpr (by norm_num)) h
    have h3 : Real.sqrt (43 / 25) = 5 / 4 := by
      field_simp at h2; linarith
    have h4 : Real.sqrt (43 / 25) * Real.sqrt (43 / 25) = 43 / 25 := Real.mul_self_sqrt (by norm_num)
    rw [h3] at h4
    norm_num at h4
  exact ⟨[1, 4], 5 / 2, Real.sqrt (9 / 2), Real.log 2, Real.log 2, hpos, normFit_witness,
    lognormalFit_witness, hsig,
    lognormal_mle_strict l2pi [1, 4] hpos _ _ lognormalFit_witness hl _ _ hsig hmu⟩

/-! ### P1  equivariance of the maximiser, family by family (closed forms the check evaluates)

Parameter vectors in virocon's order.  `pow`, `lgamma` abstract. -/

/-- Weibull `(α, β, γ)`: admissible iff `α > 0`, the shape satisfies a constraint `K` (any
constraint: it is not touched by scaling; e.g. `1 ≤ β` — without one the 3-parameter likelihood is
unbounded as `γ → min x` for `β < 1` and no maximiser exists) and every observation lies above `γ`.
A maximiser for `x` is mapped to the maximiser `(c·α, β, c·γ)` for `c·x`.
CONDITIONAL on the existence of a maximiser: for `K := (0 < ·)` the hypothesis is refuted on `[1, 2]`
(`weibull_no_maximiser`); for a constraint like `1 < β` existence is not formalised, so no instance of the
hypothesis is exhibited. -/
theorem weibull_mle_equivariant (pow : ℝ → ℝ → ℝ) (K : ℝ → Prop) (xs : List ℝ) (c : ℝ) (hc : 0 < c)
    (θ : ℝ × ℝ × ℝ)
    (h : IsArgmax (fun θ : ℝ × ℝ × ℝ => 0 < θ.1 ∧ K θ.2.1 ∧ ∀ x ∈ xs, θ.2.2 < x)
      (fun θ => sumLogPdf (weibullLogPdf Real.log pow θ.1 θ.2.1 θ.2.2) xs) θ) :
    IsArgmax (fun θ : ℝ × ℝ × ℝ => 0 < θ.1 ∧ K θ.2.1 ∧ ∀ x ∈ xs.map (c * ·), θ.2.2 < x)
      (fun θ => sumLogPdf (weibullLogPdf Real.log pow θ.1 θ.2.1 θ.2.2) (xs.map (c * ·)))
      (c * θ.1, θ.2.1, c * θ.2.2) := by
  refine argmax_transport _ _ _ _ (fun θ => (c * θ.1, θ.2.1, c * θ.2.2))
    (fun θ => (c⁻¹ * θ.1, θ.2.1, c⁻¹ * θ.2.2)) (xs.length * Real.log c) ?_ ?_ ?_ θ h
  · rintro ⟨a, b, g⟩ ⟨ha, hb, hg⟩
    refine ⟨mul_pos hc ha, hb, ?_⟩
    intro y hy
    obtain ⟨x, hx, rfl⟩ := List.mem_map.mp hy
    exact mul_lt_mul_of_pos_left (hg x hx) hc
  · rintro ⟨a, b, g⟩ ⟨ha, hb, hg⟩
    refine ⟨⟨mul_pos (inv_pos.mpr hc) ha, hb, ?_⟩, ?_⟩
    · intro x hx
      have := hg (c * x) (List.mem_map.mpr ⟨x, hx, rfl⟩)
      show c⁻¹ * g < x
      rw [inv_mul_lt_iff₀ hc]; exact this
    · simp [mul_inv_cancel_left₀ hc.ne']
  · rintro ⟨a, b, g⟩ ⟨ha, _, _⟩
    exact weibull_ll_scale_law pow a b g c xs hc ha


/-! ### why a shape constraint is needed: the unconstrained 3-parameter Weibull likelihood is unbounded

This backs the known findings `C12-weibull-unbounded-likelihood-*`: when the fitted shape is below 1
the optimiser is climbing a spike without a top, so "the estimate" that equivariance talks about
does not exist. -/

/-- for the sample `[1, 2]`, scale 1 and shape 1/2 the log-likelihood exceeds every bound as the
location approaches the smallest observation -/
theorem weibull_likelihood_unbounded (M : ℝ) :
    ∃ g : ℝ, g < 1 ∧
      M < sumLogPdf (weibullLogPdf Real.log (fun z y => z ^ y) 1 (1 / 2) g) [1, 2] := by
  set e := Real.exp (-(2 * (|M| + 10))) with he
  have he0 : 0 < e := Real.exp_pos _
  have hloge : Real.log e = -(2 * (|M| + 10)) := Real.log_exp _
  have hM : M ≤ |M| := le_abs_self M
  have hM0 : 0 ≤ |M| := abs_nonneg M
  have he1 : e ≤ 1 := by
    rw [he, ← Real.exp_zero]; exact Real.exp_le_exp.mpr (by linarith)
  have hl2 : Real.log 2 ≤ 1 := by
    have := Real.log_le_sub_one_of_pos (show (0:ℝ) < 2 by norm_num); linarith
  have hlhalf : Real.log (1 / 2) = -Real.log 2 := by
    rw [one_div, Real.log_inv]
  have b1 : e ^ (1 / 2 : ℝ) ≤ 1 := Real.rpow_le_one he0.le he1 (by norm_num)
  have b2 : (1 + e) ^ (1 / 2 : ℝ) ≤ 2 := by
    have h1 : (1 + e) ^ (1 / 2 : ℝ) ≤ (2 : ℝ) ^ (1 / 2 : ℝ) :=
      Real.rpow_le_rpow (by linarith) (by linarith) (by norm_num)
    have h2 : (2 : ℝ) ^ (1 / 2 : ℝ) ≤ (2 : ℝ) ^ (1 : ℝ) :=
      Real.rpow_le_rpow_of_exponent_le (by norm_num) (by norm_num)
    rw [Real.rpow_one] at h2
    linarith
  have b3 : Real.log (1 + e) ≤ 1 := by
    have := Real.log_le_log (show 0 < 1 + e by linarith) (show 1 + e ≤ 2 by linarith)
    linarith
  refine ⟨1 - e, by linarith, ?_⟩
  have s1 : sumLogPdf (weibullLogPdf Real.log (fun z y => z ^ y) 1 (1 / 2) (1 - e)) [1, 2] =
      (Real.log (1 / 2) - Real.log 1 + (1 / 2 - 1) * Real.log e - e ^ (1 / 2 : ℝ)) +
      (Real.log (1 / 2) - Real.log 1 + (1 / 2 - 1) * Real.log (1 + e) - (1 + e) ^ (1 / 2 : ℝ)) := by
    simp only [sumLogPdf, weibullLogPdf, List.map_cons, List.map_nil, List.sum_cons, List.sum_nil]
    have a1 : ((1 : ℝ) - (1 - e)) / 1 = e := by ring
    have a2 : ((2 : ℝ) - (1 - e)) / 1 = 1 + e := by ring
    rw [a1, a2]; ring
  rw [s1, hloge, Real.log_one, hlhalf]
  nlinarith

/-- hence no parameter vector maximises the unconstrained 3-parameter Weibull likelihood of `[1, 2]` -/
theorem weibull_no_maximiser :
    ¬ ∃ θ : ℝ × ℝ × ℝ, IsArgmax (fun θ : ℝ × ℝ × ℝ => 0 < θ.1 ∧ 0 < θ.2.1 ∧ ∀ x ∈ ([1, 2] : List ℝ), θ.2.2 < x)
      (fun θ => sumLogPdf (weibullLogPdf Real.log (fun z y => z ^ y) θ.1 θ.2.1 θ.2.2) [1, 2]) θ := by
  rintro ⟨θ, _, hmax⟩
  obtain ⟨g, hg, hM⟩ := weibull_likelihood_unbounded
    (sumLogPdf (weibullLogPdf Real.log (fun z y => z ^ y) θ.1 θ.2.1 θ.2.2) [1, 2])
  have := hmax (1, 1 / 2, g) ⟨by norm_num, by norm_num, by
    intro x hx; simp at hx; rcases hx with rfl | rfl <;> linarith⟩
  simp only at this
  linarith

/-- log-normal `(μ, σ)`, positive data: `(μ̂, σ̂) ↦ (μ̂ + log c, σ̂)` -/
theorem lognormal_mle_equivariant (l2pi : ℝ) (xs : List ℝ) (hx : ∀ x ∈ xs, 0 < x) (c : ℝ) (hc : 0 < c)
    (θ : ℝ × ℝ)
    (h : IsArgmax (fun θ : ℝ × ℝ => 0 < θ.2)
      (fun θ => sumLogPdf (lognormalLogPdf Real.log l2pi θ.1 θ.2) xs) θ) :
    IsArgmax (fun θ : ℝ × ℝ => 0 < θ.2)
      (fun θ => sumLogPdf (lognormalLogPdf Real.log l2pi θ.1 θ.2) (xs.map (c * ·)))
      (θ.1 + Real.log c, θ.2) := by
  refine argmax_transport _ _ _ _ (fun θ => (θ.1 + Real.log c, θ.2))
    (fun θ => (θ.1 - Real.log c, θ.2)) (xs.length * Real.log c) ?_ ?_ ?_ θ h
  · exact fun θ hθ => hθ
  · rintro ⟨m, s⟩ hs
    exact ⟨hs, by simp⟩
  · rintro ⟨m, s⟩ _
    exact lognormal_ll_scale_law l2pi m s c xs hc hx

/-- generalized gamma `(m, c, λ)`: `λ` is a reciprocal scale, `(m̂, ĉ, λ̂) ↦ (m̂, ĉ, λ̂/c)`.
CONDITIONAL on the existence of a maximiser: the hypothesis `IsArgmax …` is NOT shown to be satisfiable for this family (no closed-form maximiser; existence would need a compactness argument that is not formalised). -/
theorem genGamma_mle_equivariant (lgamma : ℝ → ℝ) (pow : ℝ → ℝ → ℝ) (xs : List ℝ) (c : ℝ) (hc : 0 < c)
    (θ : ℝ × ℝ × ℝ)
    (h : IsArgmax (fun θ : ℝ × ℝ × ℝ => 0 < θ.1 ∧ 0 < θ.2.1 ∧ 0 < θ.2.2)
      (fun θ => sumLogPdf (genGammaLogPdf Real.log lgamma pow θ.1 θ.2.1 θ.2.2) xs) θ) :
    IsArgmax (fun θ : ℝ × ℝ × ℝ => 0 < θ.1 ∧ 0 < θ.2.1 ∧ 0 < θ.2.2)
      (fun θ => sumLogPdf (genGammaLogPdf Real.log lgamma pow θ.1 θ.2.1 θ.2.2) (xs.map (c * ·)))
      (θ.1, θ.2.1, θ.2.2 / c) := by
  refine argmax_transport _ _ _ _ (fun θ => (θ.1, θ.2.1, θ.2.2 / c))
    (fun θ => (θ.1, θ.2.1, θ.2.2 * c)) (xs.length * Real.log c) ?_ ?_ ?_ θ h
  · rintro ⟨m, k, l⟩ ⟨hm, hk, hl⟩
    exact ⟨hm, hk, div_pos hl hc⟩
  · rintro ⟨m, k, l⟩ ⟨hm, hk, hl⟩
    exact ⟨⟨hm, hk, mul_pos hl hc⟩, by simp [mul_div_assoc, div_self hc.ne']⟩
  · rintro ⟨m, k, l⟩ ⟨_, _, hl⟩
    exact genGamma_ll_scale_law lgamma pow m k l c xs hc hl

/-- Gumbel `(loc, scale)`, no shape: `(l̂, ŝ) ↦ (c·l̂, c·ŝ)`.
CONDITIONAL on the existence of a maximiser: the hypothesis `IsArgmax …` is NOT shown to be satisfiable for this family (no closed-form maximiser; existence would need a compactness argument that is not formalised). -/
theorem gumbel_mle_equivariant (xs : List ℝ) (c : ℝ) (hc : 0 < c) (θ : ℝ × ℝ)
    (h : IsArgmax (fun θ : ℝ × ℝ => 0 < θ.2)
      (fun θ => sumLogPdf (gumbelLogPdf Real.log Real.exp θ.1 θ.2) xs) θ) :
    IsArgmax (fun θ : ℝ × ℝ => 0 < θ.2)
      (fun θ => sumLogPdf (gumbelLogPdf Real.log Real.exp θ.1 θ.2) (xs.map (c * ·)))
      (c * θ.1, c * θ.2) := by
  refine argmax_transport _ _ _ _ (fun θ => (c * θ.1, c * θ.2))
    (fun θ => (c⁻¹ * θ.1, c⁻¹ * θ.2)) (xs.length * Real.log c) ?_ ?_ ?_ θ h
  · rintro ⟨l, s⟩ hs
    exact mul_pos hc hs
  · rintro ⟨l, s⟩ hs
    exact ⟨mul_pos (inv_pos.mpr hc) hs, by simp [mul_inv_cancel_left₀ hc.ne']⟩
  · rintro ⟨l, s⟩ hs
    exact gumbel_ll_scale_law l s c xs hc hs

/-- exponentiated Weibull `(α, β, δ)`: `(α̂, β̂, δ̂) ↦ (c·α̂, β̂, δ̂)`.
CONDITIONAL on the existence of a maximiser: the hypothesis `IsArgmax …` is NOT shown to be satisfiable for this family (no closed-form maximiser; existence would need a compactness argument that is not formalised). -/
theorem expWeibull_mle_equivariant (pow : ℝ → ℝ → ℝ) (xs : List ℝ) (c : ℝ) (hc : 0 < c)
    (θ : ℝ × ℝ × ℝ)
    (h : IsArgmax (fun θ : ℝ × ℝ × ℝ => 0 < θ.1 ∧ 0 < θ.2.1 ∧ 0 < θ.2.2)
      (fun θ => sumLogPdf (expWeibullLogPdf Real.log (fun t => Real.exp t - 1) pow θ.1 θ.2.1 θ.2.2) xs) θ) :
    IsArgmax (fun θ : ℝ × ℝ × ℝ => 0 < θ.1 ∧ 0 < θ.2.1 ∧ 0 < θ.2.2)
      (fun θ => sumLogPdf (expWeibullLogPdf Real.log (fun t => Real.exp t - 1) pow θ.1 θ.2.1 θ.2.2) (xs.map (c * ·)))
      (c * θ.1, θ.2.1, θ.2.2) := by
  refine argmax_transport _ _ _ _ (fun θ => (c * θ.1, θ.2.1, θ.2.2))
    (fun θ => (c⁻¹ * θ.1, θ.2.1, θ.2.2)) (xs.length * Real.log c) ?_ ?_ ?_ θ h
  · rintro ⟨a, b, d⟩ ⟨ha, hb, hd⟩
    exact ⟨mul_pos hc ha, hb, hd⟩
  · rintro ⟨a, b, d⟩ ⟨ha, hb, hd⟩
    exact ⟨⟨mul_pos (inv_pos.mpr hc) ha, hb, hd⟩, by simp [mul_inv_cancel_left₀ hc.ne']⟩
  · rintro ⟨a, b, d⟩ ⟨ha, _, _⟩
    exact expWeibull_ll_scale_law pow a b d c xs hc ha

/-! ### non-vacuity of the arg-max hypotheses: the proven closed-form maximisers are instances -/

/-- the standard normal density as a (shape-free) location-scale family -/
noncomputable def gNormal : Unit → ℝ → ℝ :=
  fun _ z => Real.exp (-(z * z) / 2) / Real.sqrt (2 * Real.pi)

theorem gNormal_pos (z : ℝ) : 0 < gNormal () z := by
  have : 0 < Real.sqrt (2 * Real.pi) := Real.sqrt_pos.mpr (by positivity)
  unfold gNormal; positivity

/-- scipy's `norm.fit` result is an arg-max in the sense of `argmax_equivariant` … -/
theorem normal_fit_isArgmax (xs : List ℝ) (m s : ℝ) (h : normalFit Real.sqrt xs = some (m, s))
    (hs : 0 < s) :
    IsArgmax (Adm gNormal (fun _ => True) xs) (lsLL gNormal xs) (m, s, ()) := by
  refine ⟨⟨trivial, hs, fun x _ => gNormal_pos _⟩, ?_⟩
  rintro ⟨mu, sigma, u⟩ ⟨_, hsig, _⟩
  have e : ∀ (mu sigma : ℝ), 0 < sigma → lsLL gNormal xs (mu, sigma, ()) =
      sumLogPdf (normalLogPdf Real.log (Real.log (2 * Real.pi)) mu sigma) xs := by
    intro mu sigma hsig
    unfold lsLL
    rw [logLik_eq_sumLogPdf]
    apply sumLogPdf_congr
    intro x _
    exact (normal_logpdf_eq_log_density mu sigma x hsig).symm
  cases u
  rw [e mu sigma hsig, e m s hs]
  exact normal_mle_is_argmax _ xs m s h hs mu sigma hsig

/-- … hence `(c·μ̂, c·σ̂)` maximises the likelihood of `c·x`: `argmax_equivariant` applied to a
maximiser that exists (every sample with positive spread). -/
theorem normal_fit_scaled_isArgmax (xs : List ℝ) (m s c : ℝ) (h : normalFit Real.sqrt xs = some (m, s))
    (hs : 0 < s) (hc : 0 < c) :
    IsArgmax (Adm gNormal (fun _ => True) (xs.map (c * ·))) (lsLL gNormal (xs.map (c * ·)))
      (c * m, c * s, ()) :=
  argmax_equivariant gNormal (fun _ => True) xs c hc (fun _ _ _ _ => trivial) (m, s, ())
    (normal_fit_isArgmax xs m s h hs)

/-- the hypothesis of `lognormal_mle_equivariant` holds for the closed-form fit of `[1, 4]` -/
example (l2pi : ℝ) : IsArgmax (fun θ : ℝ × ℝ => 0 < θ.2)
    (fun θ => sumLogPdf (lognormalLogPdf Real.log l2pi θ.1 θ.2) [1, 4]) (Real.log 2, Real.log 2) :=
  ⟨Real.log_pos (by norm_num), fun θ hθ =>
    lognormal_mle_is_argmax l2pi [1, 4] (by intro x hx; simp at hx; rcases hx with rfl | rfl <;> norm_num)
      _ _ lognormalFit_witness (Real.log_pos (by norm_num)) θ.1 θ.2 hθ⟩

/-- the standard log-normal density with shape `σ` (scipy's `lognorm(s)`): a family with location 0
and scale `exp μ`, the setting of `argmax_equivariant_logscale` -/
noncomputable def gLognormal : ℝ → ℝ → ℝ :=
  fun σ z => Real.exp (-((Real.log z / σ) * (Real.log z / σ)) / 2) / (z * σ * Real.sqrt (2 * Real.pi))

theorem gLognormal_pos (σ z : ℝ) (hs : 0 < σ) (hz : 0 < z) : 0 < gLognormal σ z := by
  have : 0 < Real.sqrt (2 * Real.pi) := Real.sqrt_pos.mpr (by positivity)
  unfold gLognormal; positivity

theorem gLognormal_logdens (σ sc x : ℝ) (hs : 0 < σ) (hsc : 0 < sc) (hx : 0 < x) :
    Real.log (lsDens (gLognormal σ) 0 sc x) =
      lognormalLogPdf Real.log (Real.log (2 * Real.pi)) (Real.log sc) σ x := by
  rw [lognormal_logpdf_eq_log_density (Real.log sc) σ x hs hx]
  congr 1
  have hsq : 0 < Real.sqrt (2 * Real.pi) := Real.sqrt_pos.mpr (by positivity)
  unfold lsDens gLognormal
  rw [sub_zero, Real.log_div hx.ne' hsc.ne']
  field_simp

/-- `LogNormalDistribution.fit`'s closed form is an arg-max in the sense of
`argmax_equivariant_logscale` (location 0, scale `exp μ̂`, shape `σ̂`) for every positive sample with
two different observations … -/
theorem lognormal_fit_isArgmax_logscale (xs : List ℝ) (hx : ∀ x ∈ xs, 0 < x) (m s : ℝ)
    (h : lognormalFit Real.log Real.exp Real.sqrt xs = some (m, s)) (hs : 0 < s) :
    IsArgmax (Adm gLognormal (fun θ => θ.1 = 0 ∧ 0 < θ.2.2) xs) (lsLL gLognormal xs)
      (0, Real.exp m, s) := by
  have e : ∀ (sc σ : ℝ), 0 < sc → 0 < σ → lsLL gLognormal xs (0, sc, σ) =
      sumLogPdf (lognormalLogPdf Real.log (Real.log (2 * Real.pi)) (Real.log sc) σ) xs := by
    intro sc σ hsc hσ
    unfold lsLL
    rw [logLik_eq_sumLogPdf]
    apply sumLogPdf_congr
    intro x hx1
    exact gLognormal_logdens σ sc x hσ hsc (hx x hx1)
  refine ⟨⟨⟨rfl, hs⟩, Real.exp_pos m, fun x hx1 => ?_⟩, ?_⟩
  · exact gLognormal_pos _ _ hs (by rw [sub_zero]; exact div_pos (hx x hx1) (Real.exp_pos m))
  · rintro ⟨l, sc, σ⟩ ⟨⟨hl, hσ⟩, hsc, _⟩
    simp only at hl hσ hsc
    subst hl
    rw [e sc σ hsc hσ, e (Real.exp m) s (Real.exp_pos m) hs, Real.log_exp]
    exact lognormal_mle_is_argmax _ xs hx m s h hs _ _ hσ

/-- … hence `(μ̂ + log c, σ̂)` is an arg-max for `c·x`: `argmax_equivariant_logscale` applied to a
maximiser that exists -/
theorem lognormal_fit_scaled_isArgmax_logscale (xs : List ℝ) (hx : ∀ x ∈ xs, 0 < x) (m s c : ℝ)
    (h : lognormalFit Real.log Real.exp Real.sqrt xs = some (m, s)) (hs : 0 < s) (hc : 0 < c) :
    IsArgmax (Adm gLognormal (fun θ => θ.1 = 0 ∧ 0 < θ.2.2) (xs.map (c * ·)))
      (lsLL gLognormal (xs.map (c * ·))) (0, Real.exp (m + Real.log c), s) :=
  argmax_equivariant_logscale gLognormal (fun σ => 0 < σ) xs c hc m s
    (lognormal_fit_isArgmax_logscale xs hx m s h hs)


/-! ### admissibility of the closed forms -/

theorem ss_pos_of_ne (m : ℝ) (xs : List ℝ) (h : ∃ x ∈ xs, x ≠ m) : 0 < ss m xs := by
  unfold ss
  induction xs with
  | nil => obtain ⟨x, hx, _⟩ := h; simp at hx
  | cons y ys ih =>
    simp only [List.map_cons, List.sum_cons]
    obtain ⟨x, hx, hne⟩ := h
    have htail : 0 ≤ (ys.map fun x => (x - m) * (x - m)).sum := ss_nonneg m ys
    rcases List.mem_cons.mp hx with rfl | hx'
    · have : 0 < (x - m) * (x - m) := mul_self_pos.mpr (sub_ne_zero.mpr hne)
      linarith
    · have := ih ⟨x, hx', hne⟩
      nlinarith [mul_self_nonneg (y - m)]

/-- **the normal fit is admissible**: `σ̂ > 0` as soon as one observation differs from the mean
(i.e. the sample is not constant); no admissibility is assumed -/
theorem normalFit_scale_pos (xs : List ℝ) (m s : ℝ) (h : normalFit Real.sqrt xs = some (m, s))
    (hne : ∃ x ∈ xs, x ≠ m) : 0 < s := by
  obtain ⟨hnil, _, hss⟩ := normalFit_spec xs m s h
  have hn : 0 < (xs.length : ℝ) := by exact_mod_cast List.length_pos_iff.mpr hnil
  have hpos : 0 < s * s := by rw [hss]; exact div_pos (ss_pos_of_ne m xs hne) hn
  have hs0 : 0 ≤ s := by
    cases xs with
    | nil => exact absurd rfl hnil
    | cons x xs =>
      simp only [normalFit, Option.some.injEq, Prod.mk.injEq] at h
      rw [← h.2]; exact Real.sqrt_nonneg _
  rcases hs0.eq_or_lt with h0 | h0
  · rw [← h0] at hpos; simp at hpos
  · exact h0

/-- two different observations: one of them differs from any centre -/
theorem exists_ne_of_two_ne (xs : List ℝ) (m : ℝ) (h : ∃ x ∈ xs, ∃ y ∈ xs, x ≠ y) :
    ∃ x ∈ xs, x ≠ m := by
  obtain ⟨x, hx, y, hy, hxy⟩ := h
  by_cases hxm : x = m
  · exact ⟨y, hy, fun hym => hxy (hxm.trans hym.symm)⟩
  · exact ⟨x, hx, hxm⟩

/-- conversely a constant sample gives `σ̂ = 0`: the fit returns, but the value is not admissible
(virocon stores `sigma = 0`) — the boundary of the hypothesis of `normalFit_scale_pos` -/
theorem normalFit_scale_zero_of_const (xs : List ℝ) (m s : ℝ)
    (h : normalFit Real.sqrt xs = some (m, s)) (hc : ∀ x ∈ xs, x = m) : s = 0 := by
  obtain ⟨hnil, _, hss⟩ := normalFit_spec xs m s h
  have hz : ss m xs = 0 := by
    unfold ss
    have : (xs.map fun x => (x - m) * (x - m)) = xs.map fun _ => (0 : ℝ) := by
      apply List.map_congr_left
      intro x hx; rw [hc x hx]; ring
    rw [this]; simp
  rw [hz, zero_div] at hss
  exact mul_self_eq_zero.mp hss

theorem lognormalFit_scale_pos (xs : List ℝ) (hx : ∀ x ∈ xs, 0 < x) (m s : ℝ)
    (h : lognormalFit Real.log Real.exp Real.sqrt xs = some (m, s))
    (hne : ∃ x ∈ xs, ∃ y ∈ xs, x ≠ y) : 0 < s := by
  rw [lognormalFit_eq_normalFit_log xs hx] at h
  apply normalFit_scale_pos _ m s h
  apply exists_ne_of_two_ne
  obtain ⟨x, hx1, y, hy1, hxy⟩ := hne
  refine ⟨Real.log x, List.mem_map.mpr ⟨x, hx1, rfl⟩, Real.log y, List.mem_map.mpr ⟨y, hy1, rfl⟩, ?_⟩
  intro hl
  exact hxy (Real.log_injOn_pos (Set.mem_Ioi.mpr (hx x hx1)) (Set.mem_Ioi.mpr (hx y hy1)) hl)

/-- the fits are DEFINED on every non-empty (positive) sample: the `some (m, s)` hypotheses above are
not a hidden restriction -/
theorem normalFit_isSome (xs : List ℝ) (h : xs ≠ []) : (normalFit Real.sqrt xs).isSome = true := by
  cases xs with
  | nil => exact absurd rfl h
  | cons x xs => rfl

theorem lognormalFit_isSome (xs : List ℝ) (h : xs ≠ []) (hx : ∀ x ∈ xs, 0 < x) :
    (lognormalFit Real.log Real.exp Real.sqrt xs).isSome = true := by
  rw [lognormalFit_eq_normalFit_log xs hx]
  exact normalFit_isSome _ (by simpa using h)

example : ∃ x ∈ ([1, 3] : List ℝ), ∃ y ∈ ([1, 3] : List ℝ), x ≠ y :=
  ⟨1, by simp, 3, by simp, by norm_num⟩


/-! ### the property's clauses, as far as they are provable (`_partial`)

FULL CLAUSE 1 (all families): after `fit`, `LL(fit) ≥ LL(start)`, `LL(fit) ≥ LL(truth)` and the fitted
parameters are admissible.  PROVEN PART: the families whose fit is a closed form (Normal; LogNormal
with `floc = 0`), for EVERY admissible start and truth.  MISSING: the iterative families — the
statement is about where scipy's Nelder–Mead search stops (observed per run by harness/c12.py). -/
theorem fit_does_not_lose_likelihood_partial (l2pi : ℝ) (xs : List ℝ) (m s : ℝ) (hs : 0 < s)
    (start truth : ℝ × ℝ) (h0 : 0 < start.2) (h1 : 0 < truth.2) :
    (normalFit Real.sqrt xs = some (m, s) →
      sumLogPdf (normalLogPdf Real.log l2pi start.1 start.2) xs ≤
          sumLogPdf (normalLogPdf Real.log l2pi m s) xs ∧
        sumLogPdf (normalLogPdf Real.log l2pi truth.1 truth.2) xs ≤
          sumLogPdf (normalLogPdf Real.log l2pi m s) xs) ∧
    ((∀ x ∈ xs, 0 < x) → lognormalFit Real.log Real.exp Real.sqrt xs = some (m, s) →
      sumLogPdf (lognormalLogPdf Real.log l2pi start.1 start.2) xs ≤
          sumLogPdf (lognormalLogPdf Real.log l2pi m s) xs ∧
        sumLogPdf (lognormalLogPdf Real.log l2pi truth.1 truth.2) xs ≤
          sumLogPdf (lognormalLogPdf Real.log l2pi m s) xs) :=
  ⟨fun h => ⟨normal_mle_is_argmax l2pi xs m s h hs _ _ h0, normal_mle_is_argmax l2pi xs m s h hs _ _ h1⟩,
   fun hx h => ⟨lognormal_mle_is_argmax l2pi xs hx m s h hs _ _ h0,
     lognormal_mle_is_argmax l2pi xs hx m s h hs _ _ h1⟩⟩

/-- clause 1 for the closed forms WITHOUT assuming admissibility of the result (`hs : 0 < s` of
`fit_does_not_lose_likelihood_partial` is now a conclusion): for every sample with two different
observations the fitted scale is admissible (`σ̂ > 0`) and the fit is ≥ every admissible start and
truth. The fits are defined on every non-empty (positive) sample (`normalFit_isSome`,
`lognormalFit_isSome`); a constant sample gives `σ̂ = 0` (`normalFit_scale_zero_of_const`).
Still PARTIAL for the same reason: closed-form families only. -/
theorem fit_admissible_and_does_not_lose_likelihood_partial (l2pi : ℝ) (xs : List ℝ) (m s : ℝ)
    (hne : ∃ x ∈ xs, ∃ y ∈ xs, x ≠ y)
    (start truth : ℝ × ℝ) (h0 : 0 < start.2) (h1 : 0 < truth.2) :
    (normalFit Real.sqrt xs = some (m, s) →
      0 < s ∧
      sumLogPdf (normalLogPdf Real.log l2pi start.1 start.2) xs ≤
          sumLogPdf (normalLogPdf Real.log l2pi m s) xs ∧
        sumLogPdf (normalLogPdf Real.log l2pi truth.1 truth.2) xs ≤
          sumLogPdf (normalLogPdf Real.log l2pi m s) xs) ∧
    ((∀ x ∈ xs, 0 < x) → lognormalFit Real.log Real.exp Real.sqrt xs = some (m, s) →
      0 < s ∧
      sumLogPdf (lognormalLogPdf Real.log l2pi start.1 start.2) xs ≤
          sumLogPdf (lognormalLogPdf Real.log l2pi m s) xs ∧
        sumLogPdf (lognormalLogPdf Real.log l2pi truth.1 truth.2) xs ≤
          sumLogPdf (lognormalLogPdf Real.log l2pi m s) xs) := by
  refine ⟨fun h => ?_, fun hx h => ?_⟩
  · have hs := normalFit_scale_pos xs m s h (exists_ne_of_two_ne xs m hne)
    exact ⟨hs, normal_mle_is_argmax l2pi xs m s h hs _ _ h0, normal_mle_is_argmax l2pi xs m s h hs _ _ h1⟩
  · have hs := lognormalFit_scale_pos xs hx m s h hne
    exact ⟨hs, lognormal_mle_is_argmax l2pi xs hx m s h hs _ _ h0,
      lognormal_mle_is_argmax l2pi xs hx m s h hs _ _ h1⟩


/-- FULL CLAUSE 2 (all families): `fit(c·x)` is `fit(x)` with location/scale multiplied by `c`
(`+ log c` for a log-scale), shapes unchanged, within optimiser tolerance.  PROVEN PART: exactly, for
the closed forms (Normal, LogNormal); for every other scale family what the exact maximiser
satisfies (`argmax_equivariant` and the family corollaries).  MISSING: that the iterative optimiser
returns the maximiser (observed per run; the deviation from equivariance is measured against the
optimiser's own restart gain). -/
theorem fit_scale_equivariant_partial (c : ℝ) (hc : 0 < c) (xs : List ℝ) :
    normalFit Real.sqrt (xs.map (c * ·)) = (normalFit Real.sqrt xs).map (fun p => (c * p.1, c * p.2)) ∧
    ((∀ x ∈ xs, 0 < x) → lognormalFit Real.log Real.exp Real.sqrt (xs.map (c * ·)) =
      (lognormalFit Real.log Real.exp Real.sqrt xs).map (fun p => (p.1 + Real.log c, p.2))) :=
  ⟨normal_closed_form_equivariant c hc xs, lognormal_closed_form_equivariant c hc xs⟩

end VirVerif.C12
