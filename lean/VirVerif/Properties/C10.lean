/-
C10 — Interval slicing partitions the data: each observation in exactly one interval.

  "For every data vector, in any order, and every slicer configuration, each observation
   inside the covered value range belongs to exactly one interval before small intervals
   are dropped - never two, never none, with the maximum included when include_max is set -
   and the returned masks are aligned with the input positions. Reported boundaries contain
   their interval's members and do not overlap, reference values are the configured
   centre/left/right/callable, exactly the intervals with fewer than min_n_points
   observations are dropped, and a RuntimeError is raised if fewer than min_n_intervals remain."

Clause → theorem
  exactly one interval (right-open / left-open / include_max)  rightOpen_partition, leftOpen_partition,
                                                               includeMax_partition, max_included_iff
  masks aligned with input positions                           masks_aligned, ppi_mask_aligned
  boundaries contain members (Width / Number)                  mask_member_within_boundaries (on the masks
                                                               returned; via ivPreds_get, member_within_boundaries)
  reference values = configured centre/left/right; callable:
  none in the model (value computed by the user's function)    width_refs_spec, number_refs_spec
  boundaries do not overlap (shared edge, Width / Number)      boundaries_chained
  PointsPerInterval midpoint boundaries contain members,
  are chained, lower <= upper (hypothesis: chunks ordered)     ppi_boundaries_contain_members, boundsContain_ordered
  ... and are those of the SURVIVORS after the drop            ppiSlice_survivors
  exactly the small intervals are dropped                      drop_exactly_small, drop_keeps_order
  RuntimeError iff too few                                     too_few_error_iff
  constructor caps: Number  min_n_intervals -> min(., n_intervals)   number_error_iff_capped, number_no_drop_no_error
                    (explicit value_range) and, for any value_range incl. the default data range,
                    number_error_iff_capped_any_range, number_no_drop_no_error_any_range, numberSliceF_empty
                    (all at Float: `numberSliceF` is the Float instance the driver runs)
                    PointsPerInterval min_n_points -> min(., n_points)  ppi_kept_iff_capped, ppi_full_chunk_kept
  PointsPerInterval: positions partitioned                     ppi_partition (chunks), ppi_partition_masks (masks)
  the Width / Number slicers' intervals ARE the pairs and masks
  of one edge list (ties the lemmas above to `_slice`)         widthIntervals_spec, numberIntervals_spec

The theorems are over an arbitrary linear order (the midpoint theorem: linearly ordered field); the side
conditions on the actual doubles are that the edge list is sorted (`List.Pairwise (· ≤ ·)`), resp. that
PointsPerInterval chunks are ordered (`chunksOrdered`, what np.argsort gives) - both are evaluated by the
harness on what the real code reports, for every configuration it explores. NOT proven here: that the
Width edge list `arange(lower, upper + width, width) ++ [last + width]` reaches beyond `upper` in floating
point (the harness checks the configured range `[lower, upper]` is covered on every explored case:
`configured_range_covered_exactly_once`), and that `(max + min)/2` of two doubles lies between them
(checked on the reported boundaries: `boundaries_contain_members`, `boundaries_overlap`).
-/
import VirVerif.Model.Slicers
import Mathlib.Order.Basic
import Mathlib.Order.Defs.LinearOrder
import Mathlib.Data.List.Basic
import Mathlib.Data.List.Count
import Mathlib.Data.List.Nodup
import Mathlib.Data.List.Perm.Basic
import Mathlib.Tactic.Linarith
import Mathlib.Algebra.Order.Field.Basic
import Mathlib.Algebra.Order.Ring.Rat
import Mathlib.Tactic.NormNum

namespace VirVerif.C10
open VirVerif

variable {α : Type} [LinearOrder α]

/-- number of intervals (given by their predicates) that contain `x` -/
def memberCount (preds : List (α → Bool)) (x : α) : Nat := preds.countP (fun p => p x)

omit [LinearOrder α] in
theorem edgePairs_cons_cons (a b : α) (rest : List α) :
    edgePairs (a :: b :: rest) = (a, b) :: edgePairs (b :: rest) := rfl

theorem getLast_le_of_pairwise (e : α) (es : List α) (h : List.Pairwise (· ≤ ·) (e :: es)) :
    e ≤ (e :: es).getLast (by simp) := by
  rcases es.eq_nil_or_concat with rfl | ⟨l, b, rfl⟩
  · simp
  · have := List.rel_of_pairwise_cons h (a' := b) (by simp)
    simpa using this

/-- generic partition lemma: all intervals `[lo, hi)`, the last one `[lo, hi)` or `[lo, hi]`. -/
theorem loClosed_count (lhc : Bool) (e : α) (es : List α) (hne : es ≠ [])
    (h : List.Pairwise (· ≤ ·) (e :: es)) (x : α) :
    memberCount (ivPreds true false lhc (edgePairs (e :: es))) x =
      if e ≤ x ∧ (if lhc then x ≤ (e :: es).getLast (by simp) else x < (e :: es).getLast (by simp))
      then 1 else 0 := by
  induction es generalizing e with
  | nil => exact absurd rfl hne
  | cons b rest ih =>
    cases rest with
    | nil =>
      cases lhc <;> simp [memberCount, edgePairs, ivPreds, inIv, List.countP_cons]
    | cons c rest' =>
      have hb : List.Pairwise (· ≤ ·) (b :: c :: rest') := (List.pairwise_cons.mp h).2
      have heb : e ≤ b := List.rel_of_pairwise_cons h (by simp)
      have ih' := ih b (by simp) hb
      have hlast : (e :: b :: c :: rest').getLast (by simp) = (b :: c :: rest').getLast (by simp) := by
        simp [List.getLast_cons]
      have hbl : b ≤ (b :: c :: rest').getLast (by simp) := getLast_le_of_pairwise b _ hb
      rw [edgePairs_cons_cons]
      have hshape : ivPreds true false lhc ((e, b) :: edgePairs (b :: c :: rest')) =
          inIv true false e b :: ivPreds true false lhc (edgePairs (b :: c :: rest')) := by
        rw [edgePairs_cons_cons]; rfl
      rw [hshape]
      unfold memberCount at ih' ⊢
      rw [List.countP_cons, ih', hlast]
      generalize (b :: c :: rest').getLast (by simp) = L at hbl ⊢
      by_cases hx : x < b
      · have hnb : ¬ b ≤ x := not_le.mpr hx
        have hxl : x < L := lt_of_lt_of_le hx hbl
        cases lhc <;> by_cases hex : e ≤ x <;> simp [inIv, hx, hnb, hex, hxl, le_of_lt hxl]
      · have hbx : b ≤ x := not_lt.mp hx
        have hex : e ≤ x := le_trans heb hbx
        cases lhc <;> simp [inIv, hx, hbx, hex]

/-- **right-open intervals `[lo, hi)`** (WidthOfIntervalSlicer right_open=True,
NumberOfIntervalsSlicer include_max=False): an observation is in exactly one interval iff it
lies in the covered range `[first edge, last edge)`, and in none otherwise. -/
theorem rightOpen_partition (e : α) (es : List α) (hne : es ≠ [])
    (h : List.Pairwise (· ≤ ·) (e :: es)) (x : α) :
    memberCount (ivPreds true false false (edgePairs (e :: es))) x =
      if e ≤ x ∧ x < (e :: es).getLast (by simp) then 1 else 0 := by
  simpa using loClosed_count false e es hne h x

/-- **include_max**: last interval closed; the covered range is `[first edge, last edge]`,
so the maximum (= last edge) is in exactly one interval. -/
theorem includeMax_partition (e : α) (es : List α) (hne : es ≠ [])
    (h : List.Pairwise (· ≤ ·) (e :: es)) (x : α) :
    memberCount (ivPreds true false true (edgePairs (e :: es))) x =
      if e ≤ x ∧ x ≤ (e :: es).getLast (by simp) then 1 else 0 := by
  simpa using loClosed_count true e es hne h x

/-- the maximum itself: with include_max the last edge is a member of exactly one interval;
without, of none. -/
theorem max_included_iff (lhc : Bool) (e : α) (es : List α) (hne : es ≠ [])
    (h : List.Pairwise (· ≤ ·) (e :: es)) :
    memberCount (ivPreds true false lhc (edgePairs (e :: es))) ((e :: es).getLast (by simp)) =
      if lhc then 1 else 0 := by
  have hle := getLast_le_of_pairwise e es h
  rw [loClosed_count lhc e es hne h]
  cases lhc <;> simp [hle]

/-- **left-open intervals `(lo, hi]`** (WidthOfIntervalSlicer right_open=False). -/
theorem leftOpen_partition (e : α) (es : List α) (hne : es ≠ [])
    (h : List.Pairwise (· ≤ ·) (e :: es)) (x : α) :
    memberCount (ivPreds false true true (edgePairs (e :: es))) x =
      if e < x ∧ x ≤ (e :: es).getLast (by simp) then 1 else 0 := by
  induction es generalizing e with
  | nil => exact absurd rfl hne
  | cons b rest ih =>
    cases rest with
    | nil => simp [memberCount, edgePairs, ivPreds, inIv, List.countP_cons]
    | cons c rest' =>
      have hb : List.Pairwise (· ≤ ·) (b :: c :: rest') := (List.pairwise_cons.mp h).2
      have heb : e ≤ b := List.rel_of_pairwise_cons h (by simp)
      have ih' := ih b (by simp) hb
      have hlast : (e :: b :: c :: rest').getLast (by simp) = (b :: c :: rest').getLast (by simp) := by
        simp [List.getLast_cons]
      have hbl : b ≤ (b :: c :: rest').getLast (by simp) := getLast_le_of_pairwise b _ hb
      have hshape : ivPreds false true true (edgePairs (e :: b :: c :: rest')) =
          inIv false true e b :: ivPreds false true true (edgePairs (b :: c :: rest')) := by
        rw [edgePairs_cons_cons, edgePairs_cons_cons]; rfl
      rw [hshape]
      unfold memberCount at ih' ⊢
      rw [List.countP_cons, ih', hlast]
      generalize (b :: c :: rest').getLast (by simp) = L at hbl ⊢
      by_cases hx : x ≤ b
      · have hnb : ¬ b < x := not_lt.mpr hx
        have hxl : x ≤ L := le_trans hx hbl
        by_cases hex : e < x <;> simp [inIv, hx, hnb, hex, hxl]
      · have hbx : b < x := not_le.mp hx
        have hex : e < x := lt_of_le_of_lt heb hbx
        simp [inIv, hx, hbx, hex]

/-- **alignment**: mask `k` at input position `j` is interval `k`'s predicate at `data[j]`;
every mask has the length of the data. -/
theorem masks_aligned (lc hc lhc : Bool) (pairs : List (α × α)) (data : List α)
    (k j : Nat) (hk : k < (ivPreds lc hc lhc pairs).length) (hj : j < data.length) :
    ((edgeMasks lc hc lhc pairs data)[k]'(by simp [edgeMasks, hk]))[j]'(by simp [edgeMasks, hj]) =
      (ivPreds lc hc lhc pairs)[k] data[j] := by
  simp [edgeMasks]

theorem masks_length (lc hc lhc : Bool) (pairs : List (α × α)) (data : List α) :
    ∀ m ∈ edgeMasks lc hc lhc pairs data, m.length = data.length := by
  intro m hm
  simp only [edgeMasks, List.mem_map] at hm
  obtain ⟨p, _, rfl⟩ := hm
  simp

/-- **boundaries contain members**: whatever the closedness flags, a member of an interval
lies within its reported boundaries `[lo, hi]`. -/
theorem member_within_boundaries (lc hc : Bool) (lo hi x : α) (h : inIv lc hc lo hi x = true) :
    lo ≤ x ∧ x ≤ hi := by
  unfold inIv at h
  cases lc <;> cases hc <;> simp at h <;> exact ⟨by first | exact h.1 | exact le_of_lt h.1,
    by first | exact h.2 | exact le_of_lt h.2⟩

omit [LinearOrder α] in
/-- **boundaries do not overlap**: consecutive reported boundaries share their edge. -/
theorem boundaries_chained (edges : List α) (k : Nat) (hk : k + 1 < (edgePairs edges).length) :
    ((edgePairs edges)[k]'(by omega)).2 = ((edgePairs edges)[k + 1]'hk).1 := by
  induction edges generalizing k with
  | nil => simp [edgePairs] at hk
  | cons a rest ih =>
    cases rest with
    | nil => simp [edgePairs] at hk
    | cons b rest' =>
      cases rest' with
      | nil => simp [edgePairs] at hk
      | cons c rest'' =>
        cases k with
        | zero => simp [edgePairs]
        | succ k =>
          have := ih k (by simpa [edgePairs] using hk)
          simpa [edgePairs] using this

/-- **drop rule**: an interval survives iff it has at least `minPts` members … -/
theorem drop_exactly_small {β : Type} (minPts : Nat) (ivs : List (Interval β)) (iv : Interval β) :
    iv ∈ dropSmall minPts ivs ↔ iv ∈ ivs ∧ minPts ≤ maskCount iv.mask := by
  simp [dropSmall, List.mem_filter]

/-- … and the survivors keep their order (they are a sublist). -/
theorem drop_keeps_order {β : Type} (minPts : Nat) (ivs : List (Interval β)) :
    List.Sublist (dropSmall minPts ivs) ivs := by
  simp [dropSmall]

/-- **min_n_intervals**: the error is raised iff fewer than `minIntervals` remain, and
otherwise the intervals are returned unchanged. -/
theorem too_few_error_iff {β : Type} (minIv : Nat) (ivs : List (Interval β)) :
    (finishSlice minIv ivs = .error (.tooFewIntervals minIv ivs.length) ↔ ivs.length < minIv) ∧
    (finishSlice minIv ivs = .ok ivs ↔ ¬ ivs.length < minIv) := by
  unfold finishSlice
  by_cases h : ivs.length < minIv <;> simp [h]

/-! ### the slicer functions themselves -/

omit [LinearOrder α] in
theorem edgePairs_length (l : List α) : (edgePairs l).length = l.length - 1 := by
  induction l with
  | nil => rfl
  | cons a rest ih =>
    cases rest with
    | nil => rfl
    | cons b rest' =>
      simp only [edgePairs, List.length_cons] at ih ⊢
      omega

theorem ivPreds_length (lc hc lhc : Bool) (pairs : List (α × α)) :
    (ivPreds lc hc lhc pairs).length = pairs.length := by
  induction pairs with
  | nil => rfl
  | cons p rest ih =>
    obtain ⟨lo, hi⟩ := p
    cases rest with
    | nil => rfl
    | cons q rest' => simp only [ivPreds, List.length_cons] at ih ⊢; omega

omit [LinearOrder α] in
theorem zip3_proj {A B C : Type} (masks : List A) (refs : List B) (pairs : List C)
    (h1 : masks.length = pairs.length) (h2 : refs.length = pairs.length) :
    (masks.zip (refs.zip pairs)).map (fun x => x.2.2) = pairs ∧
    (masks.zip (refs.zip pairs)).map Prod.fst = masks := by
  constructor
  · rw [show (fun x : A × B × C => x.2.2) = Prod.snd ∘ Prod.snd from rfl,
      ← List.map_map, List.map_snd_zip (by simp [h1, h2]), List.map_snd_zip (by simp [h2])]
  · rw [List.map_fst_zip (by simp [h1, h2])]

/-- **the Width slicer's intervals are exactly the consecutive pairs of ONE edge list** (`starts`
followed by `last start + width`) with the masks of those edges: so `rightOpen_partition` /
`leftOpen_partition`, `masks_aligned`, `member_within_boundaries` and `boundaries_chained` are
statements about what `WidthOfIntervalSlicer._slice` returns. -/
theorem widthIntervals_spec [Add α] [Sub α] (ro : Bool) (ref : RefKind) (w hw : α) (starts data : List α)
    (hne : starts ≠ []) :
    (widthIntervalsOfStarts ro ref w hw starts data).map (fun iv => (iv.lo, iv.hi)) =
        edgePairs (starts ++ [starts.getLast hne + w]) ∧
    (widthIntervalsOfStarts ro ref w hw starts data).map (·.mask) =
        edgeMasks ro (!ro) (!ro) (edgePairs (starts ++ [starts.getLast hne + w])) data := by
  unfold widthIntervalsOfStarts
  have hl : starts.getLast? = some (starts.getLast hne) := List.getLast?_eq_some_getLast hne
  simp only [hl]
  set pairs := edgePairs (starts ++ [starts.getLast hne + w]) with hp
  have hplen : pairs.length = starts.length := by
    rw [hp, edgePairs_length]; simp
  have hmlen : (edgeMasks ro (!ro) (!ro) pairs data).length = pairs.length := by
    simp [edgeMasks, ivPreds_length]
  constructor
  · rw [List.map_map]
    exact (zip3_proj _ _ _ hmlen (by simp [hplen])).1
  · rw [List.map_map]
    exact (zip3_proj _ _ _ hmlen (by simp [hplen])).2

/-- the same for the Number slicer: edges = `starts` followed by the upper end of the value range;
the last interval is closed iff `include_max`. -/
theorem numberIntervals_spec [Add α] (im : Bool) (ref : RefKind) (w hw upper : α) (starts data : List α)
    (hne : starts ≠ []) :
    (numberIntervalsOfStarts im ref w hw upper starts data).map (fun iv => (iv.lo, iv.hi)) =
        edgePairs (starts ++ [upper]) ∧
    (numberIntervalsOfStarts im ref w hw upper starts data).map (·.mask) =
        edgeMasks true false im (edgePairs (starts ++ [upper])) data := by
  unfold numberIntervalsOfStarts
  have hemp : starts.isEmpty = false := by cases starts <;> simp_all
  simp only [hemp, Bool.false_eq_true, if_false]
  set pairs := edgePairs (starts ++ [upper]) with hp
  have hplen : pairs.length = starts.length := by
    rw [hp, edgePairs_length]; simp
  have hmlen : (edgeMasks true false im pairs data).length = pairs.length := by
    simp [edgeMasks, ivPreds_length]
  constructor
  · rw [List.map_map]
    exact (zip3_proj _ _ _ hmlen (by simp [hplen])).1
  · rw [List.map_map]
    exact (zip3_proj _ _ _ hmlen (by simp [hplen])).2

omit [LinearOrder α] in
theorem zip3_mid {A B C : Type} (masks : List A) (refs : List B) (pairs : List C)
    (h1 : masks.length = pairs.length) (h2 : refs.length = pairs.length) :
    (masks.zip (refs.zip pairs)).map (fun x => x.2.1) = refs := by
  rw [show (fun x : A × B × C => x.2.1) = Prod.fst ∘ Prod.snd from rfl,
    ← List.map_map, List.map_snd_zip (by simp [h1, h2]), List.map_fst_zip (by simp [h2])]

/-- **reference values of the Width slicer**: `center` = start + width/2, `right` = centre + width/2,
`left` = centre − width/2 (the code's own arithmetic, in this order), `none` = left to the user's
callable (evaluated on the interval's members by the code; the harness compares it) -/
theorem width_refs_spec [Add α] [Sub α] (ro : Bool) (ref : RefKind) (w hw : α) (starts data : List α)
    (hne : starts ≠ []) :
    (widthIntervalsOfStarts ro ref w hw starts data).map (·.ref) =
      starts.map fun s => match ref with
        | .center => some (s + hw)
        | .right => some (s + hw + hw)
        | .left => some (s + hw - hw)
        | .callable => none := by
  unfold widthIntervalsOfStarts
  have hl : starts.getLast? = some (starts.getLast hne) := List.getLast?_eq_some_getLast hne
  simp only [hl]
  set pairs := edgePairs (starts ++ [starts.getLast hne + w]) with hp
  have hplen : pairs.length = starts.length := by
    rw [hp, edgePairs_length]; simp
  have hmlen : (edgeMasks ro (!ro) (!ro) pairs data).length = pairs.length := by
    simp [edgeMasks, ivPreds_length]
  have key := fun (refs : List (Option α)) (h : refs.length = pairs.length) =>
    zip3_mid (edgeMasks ro (!ro) (!ro) pairs data) refs pairs hmlen h
  rw [List.map_map]
  cases ref <;>
  · refine (key _ (by simp [hplen])).trans ?_
    simp [List.map_map, Function.comp_def]

/-- **reference values of the Number slicer**: `center` = start + width/2, `right` = start + width,
`left` = start, `none` for a callable -/
theorem number_refs_spec [Add α] (im : Bool) (ref : RefKind) (w hw upper : α) (starts data : List α)
    (hne : starts ≠ []) :
    (numberIntervalsOfStarts im ref w hw upper starts data).map (·.ref) =
      starts.map fun s => match ref with
        | .center => some (s + hw)
        | .right => some (s + w)
        | .left => some s
        | .callable => none := by
  unfold numberIntervalsOfStarts
  have hemp : starts.isEmpty = false := by cases starts <;> simp_all
  simp only [hemp, Bool.false_eq_true, if_false]
  set pairs := edgePairs (starts ++ [upper]) with hp
  have hplen : pairs.length = starts.length := by
    rw [hp, edgePairs_length]; simp
  have hmlen : (edgeMasks true false im pairs data).length = pairs.length := by
    simp [edgeMasks, ivPreds_length]
  have key := fun (refs : List (Option α)) (h : refs.length = pairs.length) =>
    zip3_mid (edgeMasks true false im pairs data) refs pairs hmlen h
  rw [List.map_map]
  cases ref <;>
  · refine (key _ (by simp [hplen])).trans ?_
    rfl

/-- the `k`-th predicate is `inIv` on the `k`-th pair; upper end closedness `lhc` for the last one -/
theorem ivPreds_get (lc hc lhc : Bool) (pairs : List (α × α)) (k : Nat) (hk : k < pairs.length) :
    (ivPreds lc hc lhc pairs)[k]'(by rw [ivPreds_length]; exact hk) =
      inIv lc (if k + 1 = pairs.length then lhc else hc) pairs[k].1 pairs[k].2 := by
  induction pairs generalizing k with
  | nil => simp at hk
  | cons p rest ih =>
    obtain ⟨lo, hi⟩ := p
    cases rest with
    | nil =>
      have : k = 0 := by simpa using hk
      subst this
      simp [ivPreds]
    | cons q rest' =>
      cases k with
      | zero => simp [ivPreds]
      | succ k =>
        have := ih k (by simpa using hk)
        simpa [ivPreds] using this

/-- **boundaries contain members, for the masks the slicers return** -/
theorem mask_member_within_boundaries (lc hc lhc : Bool) (pairs : List (α × α)) (data : List α)
    (k j : Nat) (hk : k < pairs.length) (hj : j < data.length)
    (hm : ((edgeMasks lc hc lhc pairs data)[k]'(by simp [edgeMasks, ivPreds_length, hk]))[j]'(by
      simp [edgeMasks, hj]) = true) :
    pairs[k].1 ≤ data[j] ∧ data[j] ≤ pairs[k].2 := by
  rw [masks_aligned lc hc lhc pairs data k j (by rw [ivPreds_length]; exact hk) hj, ivPreds_get _ _ _ _ _ hk] at hm
  exact member_within_boundaries _ _ _ _ _ hm

/-! ### PointsPerIntervalSlicer -/

theorem chunksOf_flatten {β : Type} (k n : Nat) (l : List β) (h : l.length = k * n) :
    (chunksOf k n l).flatten = l := by
  induction n generalizing l with
  | zero =>
    have : l = [] := List.eq_nil_of_length_eq_zero (by simpa using h)
    simp [chunksOf, this]
  | succ n ih =>
    have hd : (l.drop k).length = k * n := by
      rw [List.length_drop, h, Nat.mul_succ, Nat.add_sub_cancel]
    simp only [chunksOf, List.flatten_cons]
    rw [ih (l.drop k) hd, List.take_append_drop]

/-- the chunks of the code are a partition of the sorting permutation: concatenated they
give it back. -/
theorem ppiChunks_flatten (nPoints : Nat) (lastFull : Bool) (perm : List Nat) :
    (ppiChunks nPoints lastFull perm).flatten = perm := by
  unfold ppiChunks
  have hdm := Nat.div_add_mod perm.length nPoints
  have hml := Nat.mod_le perm.length nPoints
  by_cases hr : perm.length % nPoints ≠ 0
  · rw [if_pos hr]
    cases lastFull
    · rw [if_neg (by simp), List.flatten_append, chunksOf_flatten _ _ _ (by rw [List.length_take]; omega)]
      simp
    · rw [if_pos rfl, List.flatten_cons, chunksOf_flatten _ _ _ (by rw [List.length_drop]; omega),
        List.take_append_drop]
  · rw [if_neg hr]
    rw [chunksOf_flatten _ _ _ (by omega)]

/-- **PointsPerInterval partition**: if the argsort result is a permutation of the positions
`0 … n-1`, every input position belongs to exactly one chunk, i.e. is `true` in exactly one
mask — in input-position space. -/
theorem ppi_partition (nPoints : Nat) (lastFull : Bool) (perm : List Nat)
    (hperm : List.Perm perm (List.range perm.length)) (j : Nat) (hj : j < perm.length) :
    ((ppiChunks nPoints lastFull perm).map (fun c => c.count j)).sum = 1 := by
  have h1 : ((ppiChunks nPoints lastFull perm).map (fun c => c.count j)).sum =
      (ppiChunks nPoints lastFull perm).flatten.count j := by
    rw [List.count_flatten]
  rw [h1, ppiChunks_flatten, hperm.count_eq]
  exact List.count_eq_one_of_mem (List.nodup_range) (List.mem_range.mpr hj)

theorem countP_contains_eq_count (L : List (List Nat)) (j : Nat) (hnd : L.flatten.Nodup) :
    L.countP (fun c => c.contains j) = L.flatten.count j := by
  induction L with
  | nil => rfl
  | cons c L ih =>
    rw [List.flatten_cons, List.nodup_append] at hnd
    rw [List.countP_cons, List.flatten_cons, List.count_append, ih hnd.2.1, Nat.add_comm]
    congr 1
    by_cases hm : j ∈ c
    · rw [List.count_eq_one_of_mem hnd.1 hm]; simp [hm]
    · rw [List.count_eq_zero_of_not_mem hm]; simp [hm]

/-- **PointsPerInterval partition, on the masks**: every input position is `true` in exactly one
of the masks built from the chunks -/
theorem ppi_partition_masks (nPoints : Nat) (lastFull : Bool) (perm : List Nat)
    (hperm : List.Perm perm (List.range perm.length)) (j : Nat) (hj : j < perm.length) :
    (((ppiChunks nPoints lastFull perm).map (chunkMask perm.length)).countP
      fun m => m[j]? = some true) = 1 := by
  rw [List.countP_map]
  have hfun : ((fun m : List Bool => decide (m[j]? = some true)) ∘ chunkMask perm.length) =
      fun c => c.contains j := by
    funext c
    simp [chunkMask, hj]
  rw [hfun, countP_contains_eq_count _ _ (by rw [ppiChunks_flatten]; exact hperm.nodup_iff.mpr List.nodup_range),
    ppiChunks_flatten, hperm.count_eq]
  exact List.count_eq_one_of_mem List.nodup_range (List.mem_range.mpr hj)

/-- a mask is `true` at position `j` iff `j` is in the chunk (input-position space). -/
theorem ppi_mask_aligned (n : Nat) (chunk : List Nat) (j : Nat) (hj : j < n) :
    (chunkMask n chunk)[j]'(by simp [chunkMask, hj]) = chunk.contains j := by
  simp [chunkMask]

/-! ### constructor caps: the effective thresholds

`NumberOfIntervalsSlicer.__init__` lowers `min_n_intervals` to `n_intervals`, `PointsPerIntervalSlicer.__init__`
lowers `min_n_points` to `n_points`. The model applies `min …` inside `numberSliceF` / `ppiSlice`; the theorems
below say what that means for the drop rule and the error. (The harness computes the same effective thresholds
from the configuration alone and evaluates drop rule and error on the real slicers' output.) -/

/-- pre-drop intervals of the Number slicer model for an explicit range -/
def numberPreDrop (n : Nat) (im : Bool) (ref : RefKind) (a b : Float) (data : List Float) :
    List (Interval Float) :=
  numberIntervalsOfStarts im ref (linspaceNoEnd a b n).2 (0.5 * (linspaceNoEnd a b n).2) b
    (linspaceNoEnd a b n).1 data

theorem numberSliceF_eq (n : Nat) (im : Bool) (ref : RefKind) (a b : Float) (mp mi : Nat)
    (data : List Float) :
    numberSliceF n im ref (some (a, b)) mp mi data =
      finishSlice (min mi n) (dropSmall mp (numberPreDrop n im ref a b data)) := rfl

/-- **NumberOfIntervalsSlicer, capped `min_n_intervals`**: the error is raised iff the number of surviving
intervals is below BOTH `min_n_intervals` and `n_intervals` (i.e. below their minimum). -/
theorem number_error_iff_capped (n : Nat) (im : Bool) (ref : RefKind) (a b : Float) (mp mi : Nat)
    (data : List Float) :
    (∃ need got, numberSliceF n im ref (some (a, b)) mp mi data = .error (.tooFewIntervals need got)) ↔
      (dropSmall mp (numberPreDrop n im ref a b data)).length < mi ∧
      (dropSmall mp (numberPreDrop n im ref a b data)).length < n := by
  rw [numberSliceF_eq]
  unfold finishSlice
  by_cases h : (dropSmall mp (numberPreDrop n im ref a b data)).length < min mi n
  · rw [if_pos h]
    exact ⟨fun _ => lt_min_iff.mp h, fun _ => ⟨_, _, rfl⟩⟩
  · rw [if_neg h]
    constructor
    · rintro ⟨_, _, hh⟩; cases hh
    · intro hh; exact absurd (lt_min_iff.mpr hh) h

theorem ivPreds_length_gen {γ : Type} [LE γ] [LT γ] [DecidableLE γ] [DecidableLT γ]
    (lc hc lhc : Bool) (pairs : List (γ × γ)) :
    (ivPreds lc hc lhc pairs).length = pairs.length := by
  induction pairs with
  | nil => rfl
  | cons p rest ih =>
    obtain ⟨lo, hi⟩ := p
    cases rest with
    | nil => rfl
    | cons q rest' => simp only [ivPreds, List.length_cons] at ih ⊢; omega

theorem numberIntervalsOfStarts_length {γ : Type} [LE γ] [LT γ] [DecidableLE γ] [DecidableLT γ] [Add γ]
    (im : Bool) (ref : RefKind) (w hw upper : γ) (starts data : List γ) :
    (numberIntervalsOfStarts im ref w hw upper starts data).length = starts.length := by
  unfold numberIntervalsOfStarts
  cases starts with
  | nil => simp [edgePairs, edgeMasks, ivPreds]
  | cons s rest => simp [edgeMasks, ivPreds_length_gen, edgePairs_length]

theorem numberPreDrop_length (n : Nat) (im : Bool) (ref : RefKind) (a b : Float) (data : List Float) :
    (numberPreDrop n im ref a b data).length = n := by
  unfold numberPreDrop
  rw [numberIntervalsOfStarts_length]
  simp [linspaceNoEnd]

/-- the purpose of the cap: when no interval is dropped (`min_n_points = 0`) the Number slicer never raises,
whatever `min_n_intervals` was asked for. -/
theorem number_no_drop_no_error (n : Nat) (im : Bool) (ref : RefKind) (a b : Float) (mi : Nat)
    (data : List Float) :
    numberSliceF n im ref (some (a, b)) 0 mi data = .ok (numberPreDrop n im ref a b data) := by
  rw [numberSliceF_eq]
  have hd : dropSmall 0 (numberPreDrop n im ref a b data) = numberPreDrop n im ref a b data := by
    simp [dropSmall]
  rw [hd]
  unfold finishSlice
  rw [if_neg]
  rw [numberPreDrop_length]
  exact not_lt.mpr (min_le_right _ _)

/-- the value range the Number slicer works on: the configured `value_range`, by default
`(min data, max data)`; `none` for empty data without configured range -/
def numberRange (range : Option (Float × Float)) (data : List Float) : Option (Float × Float) :=
  match range with
  | some r => some r
  | none => match listMin data, listMax data with
    | some a, some b => some (a, b)
    | _, _ => none

theorem numberSliceF_eq_of_range (n : Nat) (im : Bool) (ref : RefKind) (range : Option (Float × Float))
    (a b : Float) (mp mi : Nat) (data : List Float) (hr : numberRange range data = some (a, b)) :
    numberSliceF n im ref range mp mi data =
      finishSlice (min mi n) (dropSmall mp (numberPreDrop n im ref a b data)) := by
  unfold numberSliceF
  simp only
  change (match numberRange range data with
    | none => Except.error SliceErr.emptyData
    | some (a, b) => _) = _
  rw [hr]
  rfl

theorem numberSliceF_empty (n : Nat) (im : Bool) (ref : RefKind) (range : Option (Float × Float))
    (mp mi : Nat) (data : List Float) (hr : numberRange range data = none) :
    numberSliceF n im ref range mp mi data = .error .emptyData := by
  unfold numberSliceF
  simp only
  change (match numberRange range data with
    | none => Except.error SliceErr.emptyData
    | some (a, b) => _) = _
  rw [hr]

/-- **capped `min_n_intervals`, any value range** (configured or the default data range) -/
theorem number_error_iff_capped_any_range (n : Nat) (im : Bool) (ref : RefKind)
    (range : Option (Float × Float)) (a b : Float) (mp mi : Nat) (data : List Float)
    (hr : numberRange range data = some (a, b)) :
    (∃ need got, numberSliceF n im ref range mp mi data = .error (.tooFewIntervals need got)) ↔
      (dropSmall mp (numberPreDrop n im ref a b data)).length < mi ∧
      (dropSmall mp (numberPreDrop n im ref a b data)).length < n := by
  rw [numberSliceF_eq_of_range n im ref range a b mp mi data hr, ← numberSliceF_eq]
  exact number_error_iff_capped n im ref a b mp mi data

theorem number_no_drop_no_error_any_range (n : Nat) (im : Bool) (ref : RefKind)
    (range : Option (Float × Float)) (a b : Float) (mi : Nat) (data : List Float)
    (hr : numberRange range data = some (a, b)) :
    numberSliceF n im ref range 0 mi data = .ok (numberPreDrop n im ref a b data) := by
  rw [numberSliceF_eq_of_range n im ref range a b 0 mi data hr, ← numberSliceF_eq]
  exact number_no_drop_no_error n im ref a b mi data

example (r : Float × Float) (data : List Float) : numberRange (some r) data = some r := rfl
example : numberRange none [] = none := rfl

/-- masks the PointsPerInterval model keeps: threshold `min(min_n_points, n_points)` -/
def ppiKept (nPoints minPts : Nat) (masks : List (List Bool)) : List (List Bool) :=
  masks.filter fun m => decide (min minPts nPoints ≤ maskCount m)

/-- **PointsPerIntervalSlicer, capped `min_n_points`**: a chunk survives iff it has at least `min_n_points`
OR at least `n_points` members; in particular a full chunk (`n_points` members) always survives. -/
theorem ppi_kept_iff_capped (nPoints minPts : Nat) (masks : List (List Bool)) (m : List Bool) :
    m ∈ ppiKept nPoints minPts masks ↔
      m ∈ masks ∧ (minPts ≤ maskCount m ∨ nPoints ≤ maskCount m) := by
  simp [ppiKept, List.mem_filter]

theorem ppi_full_chunk_kept (nPoints minPts : Nat) (masks : List (List Bool)) (m : List Bool)
    (hm : m ∈ masks) (hfull : maskCount m = nPoints) : m ∈ ppiKept nPoints minPts masks :=
  (ppi_kept_iff_capped nPoints minPts masks m).mpr ⟨hm, Or.inr (le_of_eq hfull.symm)⟩

theorem ppiKept_sublist (nPoints minPts : Nat) (masks : List (List Bool)) :
    List.Sublist (ppiKept nPoints minPts masks) masks := by
  simp [ppiKept]

/-! ### PointsPerIntervalSlicer: the midpoint boundaries (computed AFTER the drop, from the survivors) -/

section ppiBoundaries
variable {β : Type} [Field β] [LinearOrder β] [IsStrictOrderedRing β]

/-- consecutive member lists are ordered: nothing in a chunk exceeds anything in the next chunk
(what sorting gives; the harness evaluates it on the real masks: `ppi_chunks_sorted`). -/
def chunksOrdered : List (List β) → Prop
  | a :: b :: rest => (∀ x ∈ a, ∀ y ∈ b, x ≤ y) ∧ chunksOrdered (b :: rest)
  | _ => True

/-- upper boundary of an interval = lower boundary of the next -/
def boundsChained : List (β × β) → Prop
  | p :: q :: rest => p.2 = q.1 ∧ boundsChained (q :: rest)
  | _ => True

/-- boundaries `k` contain all members of interval `k` (and there are as many boundaries as intervals) -/
def boundsContain : List (β × β) → List (List β) → Prop
  | b :: bs, m :: ms => (∀ x ∈ m, b.1 ≤ x ∧ x ≤ b.2) ∧ boundsContain bs ms
  | [], [] => True
  | _, _ => False

omit [Field β] [IsStrictOrderedRing β] in
theorem foldl_max_spec (xs : List β) (x r : β)
    (h : xs.foldl (fun m y => if m < y then y else m) x = r) :
    r ∈ x :: xs ∧ ∀ y ∈ x :: xs, y ≤ r := by
  induction xs generalizing x with
  | nil => simp at h; subst h; simp
  | cons a rest ih =>
    rw [List.foldl_cons] at h
    obtain ⟨hm, hle⟩ := ih _ h
    have hx : x ≤ (if x < a then a else x) := by
      by_cases hxa : x < a
      · rw [if_pos hxa]; exact le_of_lt hxa
      · rw [if_neg hxa]
    have ha : a ≤ (if x < a then a else x) := by
      by_cases hxa : x < a
      · rw [if_pos hxa]
      · rw [if_neg hxa]; exact not_lt.mp hxa
    have hmem : (if x < a then a else x) ∈ x :: a :: rest := by
      by_cases hxa : x < a
      · rw [if_pos hxa]; simp
      · rw [if_neg hxa]; simp
    refine ⟨?_, ?_⟩
    · rcases List.mem_cons.mp hm with hm | hm
      · rw [hm]; exact hmem
      · exact List.mem_cons_of_mem _ (List.mem_cons_of_mem _ hm)
    · intro y hy
      have h0 := hle _ (List.mem_cons_self)
      rcases List.mem_cons.mp hy with rfl | hy
      · exact le_trans hx h0
      · rcases List.mem_cons.mp hy with rfl | hy
        · exact le_trans ha h0
        · exact hle _ (List.mem_cons_of_mem _ hy)

omit [Field β] [IsStrictOrderedRing β] in
theorem foldl_min_spec (xs : List β) (x r : β)
    (h : xs.foldl (fun m y => if y < m then y else m) x = r) :
    r ∈ x :: xs ∧ ∀ y ∈ x :: xs, r ≤ y := by
  induction xs generalizing x with
  | nil => simp at h; subst h; simp
  | cons a rest ih =>
    rw [List.foldl_cons] at h
    obtain ⟨hm, hle⟩ := ih _ h
    have hx : (if a < x then a else x) ≤ x := by
      by_cases hxa : a < x
      · rw [if_pos hxa]; exact le_of_lt hxa
      · rw [if_neg hxa]
    have ha : (if a < x then a else x) ≤ a := by
      by_cases hxa : a < x
      · rw [if_pos hxa]
      · rw [if_neg hxa]; exact not_lt.mp hxa
    have hmem : (if a < x then a else x) ∈ x :: a :: rest := by
      by_cases hxa : a < x
      · rw [if_pos hxa]; simp
      · rw [if_neg hxa]; simp
    refine ⟨?_, ?_⟩
    · rcases List.mem_cons.mp hm with hm | hm
      · rw [hm]; exact hmem
      · exact List.mem_cons_of_mem _ (List.mem_cons_of_mem _ hm)
    · intro y hy
      have h0 := hle _ (List.mem_cons_self)
      rcases List.mem_cons.mp hy with rfl | hy
      · exact le_trans h0 hx
      · rcases List.mem_cons.mp hy with rfl | hy
        · exact le_trans h0 ha
        · exact hle _ (List.mem_cons_of_mem _ hy)

omit [Field β] [IsStrictOrderedRing β] in
theorem listMax_spec (l : List β) (m : β) (h : listMax l = some m) : m ∈ l ∧ ∀ y ∈ l, y ≤ m := by
  cases l with
  | nil => simp [listMax] at h
  | cons x xs =>
    simp only [listMax, Option.some.injEq] at h
    exact foldl_max_spec xs x m h

omit [Field β] [IsStrictOrderedRing β] in
theorem listMin_spec (l : List β) (m : β) (h : listMin l = some m) : m ∈ l ∧ ∀ y ∈ l, m ≤ y := by
  cases l with
  | nil => simp [listMin] at h
  | cons x xs =>
    simp only [listMin, Option.some.injEq] at h
    exact foldl_min_spec xs x m h

/-- the loop of `PointsPerIntervalSlicer._slice` that computes the boundaries: started with a lower boundary
that is below all members of the current interval, on ordered chunks it returns boundaries that start with
that lower boundary, are chained, and contain their members. -/
theorem ppiBoundsAux_spec (rest : List (List β)) (lower : β) (cur : List β) (bs : List (β × β))
    (h : ppiBoundsAux lower cur rest = some bs)
    (hlow : ∀ x ∈ cur, lower ≤ x)
    (hord : chunksOrdered (cur :: rest)) :
    (∃ hi tl, bs = (lower, hi) :: tl) ∧ boundsChained bs ∧ boundsContain bs (cur :: rest) := by
  induction rest generalizing lower cur bs with
  | nil =>
    simp only [ppiBoundsAux, Option.map_eq_some_iff] at h
    obtain ⟨m, hm, rfl⟩ := h
    have hs := listMax_spec cur m hm
    exact ⟨⟨m, [], rfl⟩, trivial, ⟨fun x hx => ⟨hlow x hx, hs.2 x hx⟩, trivial⟩⟩
  | cons nxt rest ih =>
    unfold ppiBoundsAux at h
    cases hmx : listMax cur with
    | none => rw [hmx] at h; cases h
    | some mx =>
      cases hmn : listMin nxt with
      | none => rw [hmx, hmn] at h; cases h
      | some mn =>
        rw [hmx, hmn] at h
        simp only [Option.map_eq_some_iff] at h
        obtain ⟨t, ht, rfl⟩ := h
        have hsx := listMax_spec cur mx hmx
        have hsn := listMin_spec nxt mn hmn
        have hmxmn : mx ≤ mn := hord.1 mx hsx.1 mn hsn.1
        have hup1 : mx ≤ (mx + mn) / 2 := by linarith
        have hup2 : (mx + mn) / 2 ≤ mn := by linarith
        obtain ⟨⟨hi, tl, rfl⟩, hch, hct⟩ :=
          ih ((mx + mn) / 2) nxt t ht (fun y hy => le_trans hup2 (hsn.2 y hy)) hord.2
        refine ⟨⟨_, _, rfl⟩, ⟨rfl, hch⟩, ⟨fun x hx => ⟨hlow x hx, le_trans (hsx.2 x hx) hup1⟩, hct⟩⟩

/-- **PointsPerInterval boundaries contain their interval's members and do not overlap**: for ordered
(sorted) chunks, whenever the code's boundary computation succeeds, boundary pair `k` contains every member
of interval `k`, and the upper boundary of interval `k` IS the lower boundary of interval `k+1`. -/
theorem ppi_boundaries_contain_members (members : List (List β)) (bs : List (β × β))
    (h : ppiBounds members = some bs) (hord : chunksOrdered members) :
    boundsContain bs members ∧ boundsChained bs := by
  cases members with
  | nil => simp [ppiBounds] at h
  | cons first rest =>
    simp only [ppiBounds, Option.bind_eq_some_iff] at h
    obtain ⟨lo, hlo, haux⟩ := h
    have hs := listMin_spec first lo hlo
    obtain ⟨_, hch, hct⟩ := ppiBoundsAux_spec rest lo first bs haux hs.2 hord
    exact ⟨hct, hch⟩

omit [Field β] [IsStrictOrderedRing β] in
/-- containment gives `lower ≤ upper` for every non-empty interval; with `boundsChained` this is
"do not overlap". -/
theorem boundsContain_ordered (bs : List (β × β)) (members : List (List β))
    (h : boundsContain bs members) (hne : ∀ m ∈ members, m ≠ []) : ∀ b ∈ bs, b.1 ≤ b.2 := by
  induction bs generalizing members with
  | nil => intro b hb; cases hb
  | cons b0 bs ih =>
    cases members with
    | nil => exact absurd h (by simp [boundsContain])
    | cons m ms =>
      obtain ⟨h0, hrest⟩ := h
      intro b hb
      rcases List.mem_cons.mp hb with rfl | hb
      · obtain ⟨x, hx⟩ := List.exists_mem_of_ne_nil m (hne m (List.mem_cons_self))
        exact le_trans (h0 x hx).1 (h0 x hx).2
      · exact ih ms hrest (fun m' hm' => hne m' (List.mem_cons_of_mem _ hm')) b hb

omit [IsStrictOrderedRing β] in
/-- **what `ppiSlice` returns after the drop belongs to the survivors**: whenever it returns intervals,
these are exactly the kept masks (threshold `min(min_n_points, n_points)`, `ppi_kept_iff_capped`) zipped with
`ppiBounds` of the SURVIVORS' members - so `ppi_boundaries_contain_members` is a statement about the
boundaries returned after the drop. -/
theorem ppiSlice_survivors (nP : Nat) (lf : Bool) (mp mi : Nat) (perm : List Nat) (data : List β)
    (ivs : List (Interval β)) (h : ppiSlice nP lf mp mi perm data = .ok ivs) :
    ∃ bounds,
      ppiBounds ((ppiKept nP mp ((ppiChunks nP lf perm).map (chunkMask data.length))).map
        fun m => maskSelect m data) = some bounds ∧
      ivs = ((ppiKept nP mp ((ppiChunks nP lf perm).map (chunkMask data.length))).zip bounds).map
        (fun x => { mask := x.1, ref := none, lo := x.2.1, hi := x.2.2 }) ∧
      ¬ ivs.length < mi := by
  unfold ppiSlice at h
  split at h
  · cases h
  · split at h
    · cases h
    · simp only at h
      split at h
      · cases h
      · rename_i bounds hb
        refine ⟨bounds, hb, ?_⟩
        unfold finishSlice at h
        split at h
        · cases h
        · rename_i hlen
          injection h with h
          subst h
          exact ⟨rfl, hlen⟩

end ppiBoundaries

/-! ### non-vacuity: concrete edges and data meeting the hypotheses -/

example : memberCount (ivPreds true false false (edgePairs ([0, 1, 2, 3] : List Int))) 2 = 1 := by decide
example : memberCount (ivPreds true false false (edgePairs ([0, 1, 2, 3] : List Int))) 3 = 0 := by decide
example : memberCount (ivPreds true false true (edgePairs ([0, 1, 2, 3] : List Int))) 3 = 1 := by decide
example : memberCount (ivPreds false true true (edgePairs ([0, 1, 2, 3] : List Int))) 0 = 0 := by decide
example : List.Pairwise (· ≤ ·) ([0, 1, 2, 3] : List Int) := by decide
example : ppiChunks 2 true [5, 1, 3, 4, 2, 0, 6] = [[5], [1, 3], [4, 2], [0, 6]] := by decide
example : List.Perm [5, 1, 3, 4, 2, 0, 6] (List.range 7) := by decide

-- PointsPerInterval boundaries: sorted chunks with a tie across the chunk border
example : ppiBounds ([[1, 2], [2, 4], [5]] : List (List ℚ)) = some [(1, 2), (2, 9 / 2), (9 / 2, 5)] := by
  norm_num [ppiBounds, ppiBoundsAux, listMin, listMax]
example : chunksOrdered ([[1, 2], [2, 4], [5]] : List (List ℚ)) := by
  norm_num [chunksOrdered]
-- caps: 2 intervals asked for, min_n_intervals 3 -> threshold 2; n_points 2, min_n_points 50 -> a full chunk stays
example : min 3 2 = 2 := by decide
example : [true, true, false] ∈ ppiKept 2 50 [[true, true, false], [false, false, true]] := by decide

/-- what goes wrong without a shared edge array (the code before the repair): with a gap
between `hi k` and `lo (k+1)` a value on the lower edge is in *no* interval, with an overlap
a value is in two. -/
theorem unchained_gap_counterexample :
    memberCount [inIv true false (0 : Int) 1, inIv true false 2 3] 1 = 0 ∧
    memberCount [inIv true false (0 : Int) 2, inIv true false 1 3] 1 = 2 := by decide

end VirVerif.C10
