/-
C18 — Ill-formed model, fit and contour specifications are rejected, not computed.

  "Ill-formed inputs raise an exception where they are supplied instead of yielding a result:
   model descriptions without a distribution, conditional without parameters, with unknown keys
   or parameter names, with a parameter both fixed and dependent or neither, whose first variable
   is conditional, or that condition a variable on itself, a later or a non-existent variable (the
   hierarchy requires conditional_on[i] < i). Likewise rejected are data or fit descriptions of
   the wrong dimension or without method, unknown fit methods and weight keywords, malformed HDC
   limits/deltas, non-finite evaluation points, non-2-D models for the 2-D-only contours, unknown
   slicer options or reference keywords, and slicing that leaves too few intervals."

The model (`Model/Validate.lean`) performs the checks of the code in the code's order on abstract
descriptions; the correspondence harness (`harness/c18.py`) ties it to the real constructors / fit /
contours on every run (same accepted-or-rejected verdict, same exception class, same dimension).
`WellFormed…` are the declarative readings of the property; the theorems say that the model accepts
exactly the well-formed specifications, for description lists of ANY length (induction over the
list via `firstFail_ok_iff` / `firstFail_error`).

Clause → theorem
  model description: no distribution / conditional without parameters / unknown keys / unknown
  parameter names / both fixed and dependent / neither / first variable conditional / conditioned on
  itself, a later, a non-existent variable      model_desc_ok_iff_wellformed, model_desc_ok_hierarchy,
                                                model_desc_ok_hier (⇒ `Hier`, the hypothesis of C01/C06/C07)
  the reported dimension is the first offending one
                                                first_error_position, first_error_dim_illformed;
                                                what a reported parameter error means: paramCheck_some,
                                                check2_some, check1_some, first_error_param_meaning
  the code before the fix accepted non-hierarchical descriptions (DESIGN 4 #8)
                                                COUNTER-MODEL (`validateDescOld`, never run by the driver
                                                on the present tree): old_validate_accepts_non_hier_counterexample
  data / fit descriptions of the wrong dimension, without method, unknown fit method, unknown
  weights keyword, unknown reference keyword and too few intervals while fitting
                                                fit_ok_iff_wellformed; fit_error_cases (EVERY error: wrong
                                                length / first description without 'method' / data shape /
                                                per-dimension loop); fit_first_error_position, fitLoop_error
                                                (per-dimension loop ONLY - description and data errors are
                                                excluded by their hypotheses: first offending dimension, the
                                                check reported there, argument 0)
  data of the wrong dimension, over the SHAPE of np.array(data): scalar, flat sequence (of n_rows or
  of exactly n_dim values), last axis ≠ n_dim     checkData_ok_iff, checkData_error
  malformed HDC limits / deltas (lengths, tuple lengths, entries that are not finite numbers,
  zero / negative / NaN steps)                  grid_ok_iff_wellformed (for n_dim ≥ 1; at n_dim = 0 the model
                                                accepts vacuously, see the example), grid_first_error_position
                                                (EVERY error, five cases: limits length / deltas length /
                                                first limit without default step / first bad cell of the
                                                _compute loop / first negative step),
                                                grid_first_error_position_compute_loop (the former statement)
  unknown slicer options, reference keywords, too few intervals
                                                slicer_ok_iff_wellformed, slicer_too_few_iff (any valid
                                                reference keyword or callable), sliceCheck_tooFew_iff
  non-finite evaluation points                  points_ok_iff_wellformed (`List.all` ↔ `∀`, little more than
                                                an unfolding)
  ONE-STEP UNFOLDINGS of one-line model functions (no content beyond the definition; the content of these
  clauses is the correspondence with the code, observed on every run):
    NaN in the HDC density table (anchored raise sites; not in the property's list)
                                                density_ok_iff_unfold
    non-finite points give a ValueError         points_error_kind_unfold
    non-2-D models for the 2-D-only contours    twod_ok_iff_unfold
    IFORM model type                            iform_model_ok_iff_unfold

Reading of "where they are supplied": the model description is checked by the constructor; fit
specifications by `fit` before the numerical fit of the offending dimension (earlier dimensions are
fitted first: `fit_first_error_position`); the reference keyword of Width/NumberOfIntervals slicers
and min_n_intervals by `slice_` (first use) before any interval is returned; grid specifications
by the HighestDensityContour constructor before any density is evaluated.  A weights keyword is
only looked at by least-squares fitting (documented: "ignored otherwise"), so `MethodOK` does not
constrain it for 'mle'.

What the model deliberately says about the code as it is (not more):
  * `Check.firstConditional` (the `RuntimeError` at the end of `GlobalHierarchicalModel.__init__`) is DEAD
    since the hierarchy check of `_check_dist_descriptions` (fix 61af94e): `phase3_after_phase1` proves that
    after phase 1 `phase3` can only fail for an empty list (`emptyModel`, an `IndexError`), and
    `first_error_position` has no `firstConditional` disjunct.  Likewise the bare `raise TypeError()` in
    `IFORMContour._compute` is unreachable behind the constructor's type-name test and is not modelled.
  * "data of the wrong dimension" is read as the code reads it: the LAST axis of np.array(data) must have
    n_dim entries (`DataOK`); the code has no test on the number of axes beyond "at least two", so an array
    with ≥ 3 axes and the right last axis passes `checkData` (what the numerical fits then do is outside the
    model; the harness only records it).
  * limit tuples given as (max, min) are not a `LimTag`: the code sorts them (`min(...)`, `max(...)`) when
    deltas are given and derives a negative default step otherwise; only recorded by the harness.
  * `LimTag.nonFinite`, `DVal.zero/neg/nan` end inside numpy (`ErrKind.leaf`): only "does not return" is
    modelled, neither the class nor the position of those rejections.
-/
import VirVerif.Model.Validate
import VirVerif.Lemmas.Hier
import Mathlib.Tactic.Linarith
import Mathlib.Data.List.Basic
import Mathlib.Tactic.Tauto

namespace VirVerif.C18
open VirVerif VirVerif.Validate

/-! ### the generic first-failure loop -/

theorem firstFail_ok_iff {β : Type} (chk : Nat → β → Option (Check × Nat)) (k : Nat) (l : List β) :
    firstFail chk k l = .ok () ↔ ∀ i (h : i < l.length), chk (k + i) l[i] = none := by
  induction l generalizing k with
  | nil => simp [firstFail]
  | cons x xs ih =>
    cases hx : chk k x with
    | some ca =>
      simp only [firstFail, hx]
      constructor
      · intro h; cases h
      · intro h; have := h 0 (by simp); simp [hx] at this
    | none =>
      simp only [firstFail, hx]
      rw [ih]
      constructor
      · intro h i hi
        cases i with
        | zero => simpa using hx
        | succ j =>
          have := h j (by simpa using hi)
          simpa [Nat.add_assoc, Nat.add_comm 1 j] using this
      · intro h i hi
        have := h (i + 1) (by simpa using hi)
        simpa [Nat.add_assoc, Nat.add_comm 1 i] using this

/-- the reported position is the first failing one, and check / argument are those of that position -/
theorem firstFail_error {β : Type} (chk : Nat → β → Option (Check × Nat)) (k : Nat) (l : List β)
    (e : Err) (he : firstFail chk k l = .error e) :
    ∃ i, ∃ h : i < l.length, e.pos = k + i ∧ chk (k + i) l[i] = some (e.check, e.arg) ∧
      ∀ j (hj : j < i), chk (k + j) (l[j]'(Nat.lt_trans hj h)) = none := by
  induction l generalizing k with
  | nil => simp [firstFail] at he
  | cons x xs ih =>
    cases hx : chk k x with
    | some ca =>
      simp only [firstFail, hx] at he
      cases he
      exact ⟨0, by simp, by simp, by simp [hx], by intro j hj; omega⟩
    | none =>
      simp only [firstFail, hx] at he
      obtain ⟨i, hi, hp, hc, hb⟩ := ih (k + 1) he
      refine ⟨i + 1, by simpa using hi, by omega, ?_, ?_⟩
      · simpa [Nat.add_assoc, Nat.add_comm 1 i] using hc
      · intro j hj
        cases j with
        | zero => simpa using hx
        | succ j' =>
          have := hb j' (by omega)
          simpa [Nat.add_assoc, Nat.add_comm 1 j'] using this

/-- `firstFail_error` for the loops whose check does not depend on the position and has no argument
(`(c x).map fun k => (k, 0)`, started at position 0): the reported position is in range, the check
reported is the one `c` returns there, the argument is 0 and `c` passes at every earlier position -/
theorem firstFail_map_error {β : Type} (c : β → Option Check) (l : List β) (e : Err)
    (he : firstFail (fun _ x => (c x).map fun k => (k, 0)) 0 l = .error e) :
    ∃ hi : e.pos < l.length, c l[e.pos] = some e.check ∧ e.arg = 0 ∧
      ∀ j (hj : j < e.pos), c (l[j]'(Nat.lt_trans hj hi)) = none := by
  obtain ⟨i, hi, hp, hc, hb⟩ := firstFail_error _ 0 l e he
  simp only [Nat.zero_add] at hp hc hb
  subst hp
  refine ⟨hi, ?_, ?_, ?_⟩
  · cases hk : c l[e.pos] with
    | none => rw [hk] at hc; cases hc
    | some k => rw [hk] at hc; simp only [Option.map_some, Option.some.injEq, Prod.mk.injEq] at hc; rw [hc.1]
  · cases hk : c l[e.pos] with
    | none => rw [hk] at hc; cases hc
    | some k => rw [hk] at hc; simp only [Option.map_some, Option.some.injEq, Prod.mk.injEq] at hc; exact hc.2.symm
  · intro j hj
    have := hb j hj
    cases hk : c (l[j]'(Nat.lt_trans hj hi)) with
    | none => rfl
    | some k => rw [hk] at this; cases this

/-! ### model descriptions -/

/-- declarative well-formedness of the description of dimension `i` -/
def DimOK (i : Nat) (d : DimDesc) : Prop :=
  d.hasDistribution = true ∧ d.unknownKeys = [] ∧
  match d.conditionalOn with
  | none => True
  | some t => d.hasParameters = true ∧ (∃ j : Int, t = .idx j ∧ 0 ≤ j ∧ j < (i : Int)) ∧
      (∀ p ∈ d.dependent, p ∈ d.paramNames) ∧
      (∀ p ∈ d.paramNames, (p ∈ d.dependent ↔ p ∉ d.fixed))

/-- a well-formed model description: at least one dimension, every dimension well-formed -/
def WellFormedModel (ds : List DimDesc) : Prop :=
  ds ≠ [] ∧ ∀ i (h : i < ds.length), DimOK i ds[i]

theorem paramCheck_none_iff (d : DimDesc) (ps : List Nat) :
    paramCheck d ps = none ↔ ∀ p ∈ ps, (p ∈ d.dependent ↔ p ∉ d.fixed) := by
  induction ps with
  | nil => simp [paramCheck]
  | cons p ps ih =>
    by_cases hd : p ∈ d.dependent <;> by_cases hf : p ∈ d.fixed <;>
      simp [paramCheck, hd, hf, ih]

theorem check2_none_iff (d : DimDesc) :
    check2 d = none ↔
      match d.conditionalOn with
      | none => True
      | some _ => (∀ p ∈ d.dependent, p ∈ d.paramNames) ∧
          (∀ p ∈ d.paramNames, (p ∈ d.dependent ↔ p ∉ d.fixed)) := by
  unfold check2
  cases d.conditionalOn with
  | none => simp
  | some t =>
    simp only
    cases hfind : d.dependent.find? (fun p => !d.paramNames.contains p) with
    | some p =>
      simp only [reduceCtorEq, false_iff, not_and]
      intro hall
      have hm := List.mem_of_find?_eq_some hfind
      have hp := List.find?_some hfind
      simp [hall p hm] at hp
    | none =>
      simp only [paramCheck_none_iff]
      have : ∀ p ∈ d.dependent, p ∈ d.paramNames := by
        intro p hp
        have := List.find?_eq_none.mp hfind p hp
        simpa using this
      exact ⟨fun h => ⟨this, h⟩, fun h => h.2⟩

/-- what a parameter error of `ConditionalDistribution.__init__` means: the named parameter is one
of the distribution's, it is both fixed and dependent (`paramBoth`) or neither (`paramNeither`) -/
theorem paramCheck_some (d : DimDesc) (ps : List Nat) (c : Check) (p : Nat)
    (h : paramCheck d ps = some (c, p)) :
    p ∈ ps ∧ ((c = .paramBoth ∧ p ∈ d.dependent ∧ p ∈ d.fixed) ∨
      (c = .paramNeither ∧ p ∉ d.dependent ∧ p ∉ d.fixed)) := by
  induction ps with
  | nil => simp [paramCheck] at h
  | cons q qs ih =>
    by_cases hd : q ∈ d.dependent <;> by_cases hf : q ∈ d.fixed <;>
      simp only [paramCheck, List.contains_iff_mem, hd, hf, if_true, if_false,
        Option.some.injEq, Prod.mk.injEq] at h
    · obtain ⟨rfl, rfl⟩ := h
      exact ⟨List.mem_cons_self .., Or.inl ⟨rfl, hd, hf⟩⟩
    · obtain ⟨h1, h2⟩ := ih h
      exact ⟨List.mem_cons_of_mem _ h1, h2⟩
    · obtain ⟨h1, h2⟩ := ih h
      exact ⟨List.mem_cons_of_mem _ h1, h2⟩
    · obtain ⟨rfl, rfl⟩ := h
      exact ⟨List.mem_cons_self .., Or.inr ⟨rfl, hd, hf⟩⟩

/-- what a phase-2 error means (the second disjunct of `first_error_position`): the dimension is
conditional and either a key of its `parameters` dict is not a parameter of the distribution
(`unknownParam`), or all keys are known and a parameter of the distribution is both fixed and
dependent / neither -/
theorem check2_some (d : DimDesc) (c : Check) (p : Nat) (h : check2 d = some (c, p)) :
    d.conditionalOn ≠ none ∧
    ((c = .unknownParam ∧ p ∈ d.dependent ∧ p ∉ d.paramNames) ∨
     ((∀ q ∈ d.dependent, q ∈ d.paramNames) ∧ p ∈ d.paramNames ∧
       ((c = .paramBoth ∧ p ∈ d.dependent ∧ p ∈ d.fixed) ∨
        (c = .paramNeither ∧ p ∉ d.dependent ∧ p ∉ d.fixed)))) := by
  unfold check2 at h
  cases hc : d.conditionalOn with
  | none => rw [hc] at h; cases h
  | some t =>
    rw [hc] at h
    simp only at h
    refine ⟨by simp, ?_⟩
    cases hfind : d.dependent.find? (fun p => !d.paramNames.contains p) with
    | some q =>
      rw [hfind] at h
      simp only [Option.some.injEq, Prod.mk.injEq] at h
      obtain ⟨rfl, rfl⟩ := h
      left
      have hm := List.mem_of_find?_eq_some hfind
      have hp := List.find?_some hfind
      exact ⟨rfl, hm, by simpa using hp⟩
    | none =>
      rw [hfind] at h
      right
      have hall : ∀ q ∈ d.dependent, q ∈ d.paramNames := by
        intro q hq
        have := List.find?_eq_none.mp hfind q hq
        simpa using this
      obtain ⟨h1, h2⟩ := paramCheck_some d d.paramNames c p h
      exact ⟨hall, h1, h2⟩

theorem check1_none_iff (i : Nat) (d : DimDesc) :
    check1 true i d = none ↔
      d.hasDistribution = true ∧ d.unknownKeys = [] ∧
      match d.conditionalOn with
      | none => True
      | some t => d.hasParameters = true ∧ ∃ j : Int, t = .idx j ∧ 0 ≤ j ∧ j < (i : Int) := by
  unfold check1
  cases hd : d.hasDistribution <;> simp
  cases hc : d.conditionalOn with
  | none => cases hu : d.unknownKeys <;> simp
  | some t =>
    cases hp : d.hasParameters <;> simp
    cases hu : d.unknownKeys <;> simp
    cases t with
    | other => simp
    | idx j => by_cases hj : 0 ≤ j ∧ j < (i : Int) <;> simp [hj]

theorem checks_none_iff_dimOK (i : Nat) (d : DimDesc) :
    (check1 true i d = none ∧ check2 d = none) ↔ DimOK i d := by
  rw [check1_none_iff, check2_none_iff]
  unfold DimOK
  cases d.conditionalOn with
  | none => simp
  | some t => simp only; tauto


theorem andThen_ok_iff (a b : Except Err Unit) :
    andThen a b = .ok () ↔ a = .ok () ∧ b = .ok () := by
  cases a <;> simp [andThen]

theorem andThen_error (a b : Except Err Unit) (e : Err) (h : andThen a b = .error e) :
    a = .error e ∨ (a = .ok () ∧ b = .error e) := by
  cases a <;> simp_all [andThen]

theorem phase1_ok_iff (hier : Bool) (ds : List DimDesc) :
    phase1 hier ds = .ok () ↔ ∀ i (h : i < ds.length), check1 hier i ds[i] = none := by
  unfold phase1
  rw [firstFail_ok_iff]
  simp

theorem phase2_ok_iff (ds : List DimDesc) :
    phase2 ds = .ok () ↔ ∀ i (h : i < ds.length), check2 ds[i] = none := by
  unfold phase2
  rw [firstFail_ok_iff]

/-- after phase 1 the first-dimension test can only fail for an empty description list -/
theorem phase3_after_phase1 (ds : List DimDesc) (h1 : phase1 true ds = .ok ()) :
    phase3 ds = .ok () ↔ ds ≠ [] := by
  cases ds with
  | nil => simp [phase3]
  | cons d rest =>
    have h0 := (phase1_ok_iff true (d :: rest)).mp h1 0 (by simp)
    have := (check1_none_iff 0 d).mp (by simpa using h0)
    cases hc : d.conditionalOn with
    | none => simp [phase3, hc]
    | some t =>
      rw [hc] at this
      obtain ⟨_, _, _, j, _, h0j, hj0⟩ := this
      omega

/-- **P1.** `GlobalHierarchicalModel(dist_descriptions)` accepts a description list of ANY
length iff it is well-formed. -/
theorem model_desc_ok_iff_wellformed (ds : List DimDesc) :
    validateDesc ds = .ok () ↔ WellFormedModel ds := by
  unfold validateDesc validateDescG WellFormedModel
  rw [andThen_ok_iff, andThen_ok_iff]
  constructor
  · rintro ⟨h1, h2, h3⟩
    refine ⟨(phase3_after_phase1 ds h1).mp h3, fun i hi => ?_⟩
    exact (checks_none_iff_dimOK i ds[i]).mp
      ⟨(phase1_ok_iff true ds).mp h1 i hi, (phase2_ok_iff ds).mp h2 i hi⟩
  · rintro ⟨hne, hall⟩
    have h1 : phase1 true ds = .ok () :=
      (phase1_ok_iff true ds).mpr fun i hi => ((checks_none_iff_dimOK i ds[i]).mpr (hall i hi)).1
    exact ⟨h1, (phase2_ok_iff ds).mpr fun i hi => ((checks_none_iff_dimOK i ds[i]).mpr (hall i hi)).2,
      (phase3_after_phase1 ds h1).mpr hne⟩

/-- `conditional_on` as the chain models of C01/C06/C07 read it -/
def condFn (ds : List DimDesc) (i : Nat) : Option Nat :=
  match ds[i]? with
  | some d => match d.conditionalOn with
    | some (.idx j) => some j.toNat
    | _ => none
  | none => none

/-- **P1 (hierarchy).** An accepted description conditions every dimension only on an integer
index of an earlier dimension: `conditional_on[i] < i` (and `≥ 0`, and never a non-integer). -/
theorem model_desc_ok_hierarchy (ds : List DimDesc) (h : validateDesc ds = .ok ())
    (i : Nat) (hi : i < ds.length) (t : CondTag) (ht : ds[i].conditionalOn = some t) :
    ∃ j : Nat, t = .idx (j : Int) ∧ j < i := by
  have := ((model_desc_ok_iff_wellformed ds).mp h).2 i hi
  unfold DimOK at this
  rw [ht] at this
  obtain ⟨_, _, _, ⟨j, rfl, h0, hji⟩, _⟩ := this
  refine ⟨j.toNat, ?_, ?_⟩
  · rw [Int.toNat_of_nonneg h0]
  · omega

/-- … hence the hypothesis `Hier` under which the chain theorems of C01 / C06 / C07 hold -/
theorem model_desc_ok_hier (ds : List DimDesc) (h : validateDesc ds = .ok ()) :
    Hier (condFn ds) ds.length := by
  intro i j hi hc
  unfold condFn at hc
  rw [List.getElem?_eq_getElem hi] at hc
  cases ht : ds[i].conditionalOn with
  | none => simp [ht] at hc
  | some t =>
    obtain ⟨k, rfl, hk⟩ := model_desc_ok_hierarchy ds h i hi t ht
    simp [ht] at hc
    omega


/-- **P1 (first error).** The error of the constructor names the FIRST offending dimension:
either a `_check_dist_descriptions` check fails at `e.pos` and at no earlier dimension; or all
dimensions pass those, and `ConditionalDistribution.__init__` fails at `e.pos` (with parameter
`e.arg`) and at no earlier dimension; or the list is empty. -/
theorem first_error_position (ds : List DimDesc) (e : Err) (h : validateDesc ds = .error e) :
    (∃ hi : e.pos < ds.length, check1 true e.pos ds[e.pos] = some e.check ∧ e.arg = 0 ∧
        ∀ j (hj : j < e.pos), check1 true j (ds[j]'(Nat.lt_trans hj hi)) = none) ∨
    ((∀ j (hj : j < ds.length), check1 true j ds[j] = none) ∧
      ∃ hi : e.pos < ds.length, check2 ds[e.pos] = some (e.check, e.arg) ∧
        ∀ j (hj : j < e.pos), check2 (ds[j]'(Nat.lt_trans hj hi)) = none) ∨
    (ds = [] ∧ e = ⟨.emptyModel, 0, 0⟩) := by
  unfold validateDesc validateDescG at h
  rcases andThen_error _ _ _ h with h1 | ⟨h1, h23⟩
  · left
    obtain ⟨i, hi, hp, hc, hb⟩ := firstFail_error _ 0 ds e h1
    simp only [Nat.zero_add] at hp hc hb
    subst hp
    refine ⟨hi, ?_, ?_, ?_⟩
    · cases hk : check1 true e.pos ds[e.pos] with
      | none => simp [hk] at hc
      | some c => simp [hk] at hc; simp [hc.1]
    · cases hk : check1 true e.pos ds[e.pos] with
      | none => simp [hk] at hc
      | some c => simp [hk] at hc; exact hc.2.symm
    · intro j hj
      have := hb j hj
      cases hk : check1 true j ds[j] with
      | none => rfl
      | some c => simp [hk] at this
  · rcases andThen_error _ _ _ h23 with h2 | ⟨h2, h3⟩
    · right; left
      refine ⟨(phase1_ok_iff true ds).mp h1, ?_⟩
      obtain ⟨i, hi, hp, hc, hb⟩ := firstFail_error _ 0 ds e h2
      simp only [Nat.zero_add] at hp hc hb
      subst hp
      exact ⟨hi, hc, hb⟩
    · right; right
      have := (phase3_after_phase1 ds h1)
      cases ds with
      | nil => simp [phase3] at h3; exact ⟨rfl, h3.symm⟩
      | cons d rest =>
        have hok : phase3 (d :: rest) = .ok () := this.mpr (by simp)
        rw [hok] at h3; cases h3

theorem check1_some (hier : Bool) (i : Nat) (d : DimDesc) (c : Check) (h : check1 hier i d = some c) :
    c = .missingDistribution ∨ c = .missingParameters ∨ c = .unknownKeys ∨ c = .hierarchy := by
  unfold check1 at h
  split_ifs at h
  · exact Or.inl (Option.some.inj h).symm
  · exact Or.inr (Or.inl (Option.some.inj h).symm)
  · exact Or.inr (Or.inr (Or.inl (Option.some.inj h).symm))
  · right; right; right
    split at h
    · cases h
    · exact (Option.some.inj h).symm
    · split_ifs at h
      exact (Option.some.inj h).symm

/-- **P1 (first error, parameter errors).** `first_error_position` composed with `check2_some`: when
the constructor reports `unknownParam` / `paramBoth` / `paramNeither`, every dimension passed
`_check_dist_descriptions`, the named dimension is conditional and the named parameter `e.arg` really is
an unknown key of its `parameters` dict, resp. a parameter of its distribution that is both fixed and
dependent, resp. neither. -/
theorem first_error_param_meaning (ds : List DimDesc) (e : Err) (h : validateDesc ds = .error e)
    (hc : e.check = .unknownParam ∨ e.check = .paramBoth ∨ e.check = .paramNeither) :
    (∀ j (hj : j < ds.length), check1 true j ds[j] = none) ∧
    ∃ hi : e.pos < ds.length, ds[e.pos].conditionalOn ≠ none ∧
      ((e.check = .unknownParam ∧ e.arg ∈ ds[e.pos].dependent ∧ e.arg ∉ ds[e.pos].paramNames) ∨
       ((∀ q ∈ ds[e.pos].dependent, q ∈ ds[e.pos].paramNames) ∧ e.arg ∈ ds[e.pos].paramNames ∧
         ((e.check = .paramBoth ∧ e.arg ∈ ds[e.pos].dependent ∧ e.arg ∈ ds[e.pos].fixed) ∨
          (e.check = .paramNeither ∧ e.arg ∉ ds[e.pos].dependent ∧ e.arg ∉ ds[e.pos].fixed)))) := by
  rcases first_error_position ds e h with ⟨hi, h1, _, _⟩ | ⟨hall, hi, h2, _⟩ | ⟨_, he⟩
  · exfalso
    rcases check1_some _ _ _ _ h1 with h' | h' | h' | h' <;> rw [h'] at hc <;> simp at hc
  · obtain ⟨a, b⟩ := check2_some _ _ _ h2
    exact ⟨hall, hi, a, b⟩
  · exfalso
    rw [he] at hc
    simp at hc

/-- the dimension named in the error really is ill-formed -/
theorem first_error_dim_illformed (ds : List DimDesc) (e : Err) (h : validateDesc ds = .error e)
    (hne : ds ≠ []) : ∃ hi : e.pos < ds.length, ¬ DimOK e.pos ds[e.pos] := by
  rcases first_error_position ds e h with ⟨hi, hc, _, _⟩ | ⟨_, hi, hc, _⟩ | ⟨hnil, _⟩
  · refine ⟨hi, fun hok => ?_⟩
    have := ((checks_none_iff_dimOK _ _).mpr hok).1
    rw [this] at hc; cases hc
  · refine ⟨hi, fun hok => ?_⟩
    have := ((checks_none_iff_dimOK _ _).mpr hok).2
    rw [this] at hc; cases hc
  · exact absurd hnil hne

/-! #### the constructor before the fix (DESIGN section 4 #8) -/

/-- `[unconditional, conditional on 2 (a LATER dimension), unconditional]` -/
def nonHierWitness : List DimDesc :=
  [⟨true, none, false, [], [0, 1], [], []⟩,
   ⟨true, some (.idx 2), true, [], [0, 1], [], [0, 1]⟩,
   ⟨true, none, false, [], [0, 1], [], []⟩]

/-- COUNTER-MODEL theorem (about `validateDescOld`, the constructor before fix 61af94e, which no driver op
runs on the present tree). The old constructor accepted descriptions that violate the hierarchy: dimension 1
conditional on dimension 2 (also on itself, on 5, on −1, on "a"). -/
theorem old_validate_accepts_non_hier_counterexample :
    validateDescOld nonHierWitness = .ok () ∧ ¬ WellFormedModel nonHierWitness ∧
    validateDescOld [⟨true, none, false, [], [0], [], []⟩, ⟨true, some (.idx 1), true, [], [0], [], [0]⟩] = .ok () ∧
    validateDescOld [⟨true, none, false, [], [0], [], []⟩, ⟨true, some (.idx 5), true, [], [0], [], [0]⟩] = .ok () ∧
    validateDescOld [⟨true, none, false, [], [0], [], []⟩, ⟨true, some (.idx (-1)), true, [], [0], [], [0]⟩] = .ok () ∧
    validateDescOld [⟨true, none, false, [], [0], [], []⟩, ⟨true, some .other, true, [], [0], [], [0]⟩] = .ok () := by
  refine ⟨by decide, ?_, by decide, by decide, by decide, by decide⟩
  intro h
  have := (model_desc_ok_iff_wellformed nonHierWitness).mpr h
  revert this
  decide

/-- the constructor as it is now rejects the witness, naming dimension 1 -/
example : validateDesc nonHierWitness = .error ⟨.hierarchy, 1, 0⟩ := by decide

/-- non-vacuity: a well-formed 3-dimensional description (Hs, Tz | Hs, V | Hs with one fixed
parameter) is accepted -/
example : validateDesc
    [⟨true, none, false, [], [0, 1, 2], [], []⟩,
     ⟨true, some (.idx 0), true, [], [0, 1], [], [0, 1]⟩,
     ⟨true, some (.idx 0), true, [], [0, 1, 2], [2], [0, 1]⟩] = .ok () := by decide

/-- non-vacuity of `first_error_position`: two offending dimensions, the first one is named;
a phase-2 error (parameter 1 neither fixed nor dependent) is reported for the right dimension -/
example : validateDesc
    [⟨true, none, false, [], [0], [], []⟩, ⟨true, none, false, [7], [0], [], []⟩,
     ⟨false, none, false, [], [0], [], []⟩] = .error ⟨.unknownKeys, 1, 0⟩ := by decide
example : validateDesc
    [⟨true, none, false, [], [0], [], []⟩, ⟨true, some (.idx 0), true, [], [0, 1], [], [0]⟩]
      = .error ⟨.paramNeither, 1, 1⟩ := by decide


/-! ### fit -/

/-- the slicing of a conditioning variable is usable: known reference keyword, at least
`min_n_intervals` intervals, and at least one -/
def SliceOK (s : SliceInfo) : Prop :=
  (s.kind ≠ .ppi → s.ref ≠ .unknownStr ∧ s.ref ≠ .other) ∧ s.minN ≤ s.nKept ∧ 0 < s.nKept

def WeightsOK (w : WeightsTag) : Prop :=
  w ≠ .unknownStr ∧ w ≠ .nonIterable ∧ w ≠ .arrayNonFinite

/-- known method; least squares only where implemented and then with a valid weights keyword
(`weights` is documented as ignored for 'mle') -/
def MethodOK (lsqOk : Bool) (m : MethodTag) (w : WeightsTag) : Prop :=
  m = .mle ∨ ((m = .lsq ∨ m = .wlsq) ∧ lsqOk = true ∧ WeightsOK w)

theorem ite_aux1 (n m : Nat) (a b : Check) :
    (if n < m then some a else if n = 0 then some b else none) = none ↔ m ≤ n ∧ 0 < n := by
  by_cases h1 : n < m
  · rw [if_pos h1]
    exact ⟨fun h => (by cases h), fun h => (by omega)⟩
  · rw [if_neg h1]
    by_cases h2 : n = 0
    · rw [if_pos h2]
      exact ⟨fun h => (by cases h), fun h => (by omega)⟩
    · rw [if_neg h2]
      exact ⟨fun _ => ⟨by omega, by omega⟩, fun _ => rfl⟩

theorem ite_aux2 (n m : Nat) (a b : Check) :
    (if n = 0 then some a else if n < m then some b else none) = none ↔ m ≤ n ∧ 0 < n := by
  by_cases h2 : n = 0
  · rw [if_pos h2]
    exact ⟨fun h => (by cases h), fun h => (by omega)⟩
  · rw [if_neg h2]
    by_cases h1 : n < m
    · rw [if_pos h1]
      exact ⟨fun h => (by cases h), fun h => (by omega)⟩
    · rw [if_neg h1]
      exact ⟨fun _ => ⟨by omega, by omega⟩, fun _ => rfl⟩

theorem sliceCheck_none_iff (s : SliceInfo) : sliceCheck s = none ↔ SliceOK s := by
  obtain ⟨kind, ref, nKept, minN⟩ := s
  unfold sliceCheck SliceOK
  cases kind <;> cases ref <;> simp <;> first | exact ite_aux1 _ _ _ _ | exact ite_aux2 _ _ _ _

theorem methodCheck_none_iff (lsqOk : Bool) (m : MethodTag) (w : WeightsTag) :
    methodCheck lsqOk m w = none ↔ MethodOK lsqOk m w := by
  unfold methodCheck MethodOK WeightsOK
  cases m <;> cases lsqOk <;> cases w <;> simp

/-- the (filled) fit description that applies to dimension `i` -/
def descAt (f : FitSpec) (i : Nat) : FitDesc :=
  match f.descs with
  | none => fillDesc none
  | some l => match l[i]? with
    | some d => fillDesc d
    | none => fillDesc none

def DescsOK (f : FitSpec) : Prop :=
  match f.descs with
  | none => True
  | some l => l.length = f.dims.length ∧ ∀ d ∈ l, ∀ x, d = some x → x.hasMethod = true

def FitDimOK (f : FitSpec) (i : Nat) (d : FitDim) : Prop :=
  (match d.slice with | none => True | some s => SliceOK s) ∧
    MethodOK d.lsqOk (descAt f i).method (descAt f i).weights

/-- the data is a table with one column per dimension, as the code reads it: the LAST axis of
`np.array(data)` has length n_dim and there are at least two axes (a scalar, a flat sequence of
any length - also of length n_dim - are not).  The code does not look at the number of axes
beyond that, see `checkData`. -/
def DataOK (f : FitSpec) : Prop :=
  f.dataShape.getLast? = some f.dims.length ∧ (0 < f.dims.length → 2 ≤ f.dataShape.length)

def WellFormedFit (f : FitSpec) : Prop :=
  DescsOK f ∧ DataOK f ∧ ∀ i (h : i < f.dims.length), FitDimOK f i f.dims[i]

theorem checkData_ok_iff (f : FitSpec) : checkData f = .ok () ↔ DataOK f := by
  unfold checkData DataOK
  cases hs : f.dataShape.getLast? with
  | none => simp
  | some k =>
    simp only [Option.some.injEq]
    by_cases hk : k = f.dims.length
    · rw [if_neg (by simpa using hk)]
      by_cases hl : 0 < f.dims.length ∧ f.dataShape.length < 2
      · rw [if_pos hl]
        constructor
        · intro h; cases h
        · rintro ⟨_, h2⟩; have := h2 hl.1; omega
      · rw [if_neg hl]
        refine ⟨fun _ => ⟨hk, fun h0 => ?_⟩, fun _ => rfl⟩
        by_cases h2 : 2 ≤ f.dataShape.length
        · exact h2
        · exact absurd ⟨h0, by omega⟩ hl
    · rw [if_pos (by simpa using hk)]
      constructor
      · intro h; cases h
      · rintro ⟨h1, _⟩; exact absurd h1 hk

/-- which data error: a 0-axis array is an `IndexError`, a last axis of the wrong length the
`ValueError` of the dimension check (also for a flat sequence of n_rows ≠ n_dim values), a flat
sequence of exactly n_dim values an `IndexError` -/
theorem checkData_error (f : FitSpec) (e : Err) (h : checkData f = .error e) :
    (f.dataShape = [] ∧ e.check = .dataScalar) ∨
    (∃ k, f.dataShape.getLast? = some k ∧ k ≠ f.dims.length ∧ e.check = .dataDim) ∨
    (f.dataShape = [f.dims.length] ∧ e.check = .dataFlat) := by
  unfold checkData at h
  cases hs : f.dataShape.getLast? with
  | none =>
    rw [hs] at h
    simp only [Except.error.injEq] at h
    left; exact ⟨List.getLast?_eq_none_iff.mp hs, by rw [← h]⟩
  | some k =>
    rw [hs] at h
    simp only at h
    by_cases hk : k = f.dims.length
    · right; right
      by_cases hl : 0 < f.dims.length ∧ f.dataShape.length < 2
      · simp only [hk, ne_eq, not_true_eq_false, if_false, hl, and_self, if_true, Except.error.injEq] at h
        refine ⟨?_, by rw [← h]⟩
        cases hd : f.dataShape with
        | nil => rw [hd] at hs; simp at hs
        | cons a t =>
          have : t = [] := by
            have := hl.2; rw [hd] at this; simp at this; exact List.eq_nil_of_length_eq_zero (by omega)
          subst this
          rw [hd] at hs; simp at hs; rw [hs, hk]
      · simp [hk, hl] at h
    · right; left
      simp only [ne_eq, hk, not_false_eq_true, if_true, Except.error.injEq] at h
      exact ⟨k, rfl, hk, by rw [← h]⟩

theorem checkDescs_ok_iff (f : FitSpec) : checkDescs f = .ok () ↔ DescsOK f := by
  unfold checkDescs DescsOK
  cases f.descs with
  | none => simp
  | some l =>
    simp only
    by_cases hl : l.length = f.dims.length
    · simp only [hl, ne_eq, not_true_eq_false, if_false, true_and]
      rw [firstFail_ok_iff]
      constructor
      · intro h d hd x hx
        obtain ⟨i, hi, rfl⟩ := List.getElem_of_mem hd
        have := h i hi
        rw [hx] at this
        simp [missingMethodCheck] at this
        exact this
      · intro h i hi
        cases hd : l[i] with
        | none => simp [missingMethodCheck]
        | some x =>
          have := h l[i] (List.getElem_mem hi) x hd
          simp [missingMethodCheck, this]
    · simp [hl]

theorem filledDescs_length (f : FitSpec) (h : DescsOK f) :
    (filledDescs f).length = f.dims.length := by
  unfold filledDescs; unfold DescsOK at h
  cases hd : f.descs with
  | none => simp
  | some l => rw [hd] at h; simp [h.1]

theorem filledDescs_getElem (f : FitSpec) (i : Nat) (h : i < (filledDescs f).length) :
    (filledDescs f)[i] = descAt f i := by
  obtain ⟨dims, descs, dd⟩ := f
  cases descs with
  | none => simp [filledDescs, descAt]
  | some l =>
    have hi : i < l.length := by simpa [filledDescs] using h
    simp [filledDescs, descAt, hi]

theorem dimFitCheck_none_iff (d : FitDim) (x : FitDesc) :
    dimFitCheck (d, x) = none ↔
      (match d.slice with | none => True | some s => SliceOK s) ∧ MethodOK d.lsqOk x.method x.weights := by
  unfold dimFitCheck
  cases hs : d.slice with
  | none => simp [methodCheck_none_iff]
  | some s =>
    simp only
    cases hc : sliceCheck s with
    | none =>
      simp only [methodCheck_none_iff]
      have := (sliceCheck_none_iff s).mp hc
      exact ⟨fun h => ⟨this, h⟩, fun h => h.2⟩
    | some c =>
      have : ¬ SliceOK s := fun h => by rw [(sliceCheck_none_iff s).mpr h] at hc; cases hc
      simp [this]

/-- **P1 (fit).** `GlobalHierarchicalModel.fit(data, fit_descriptions)` gets past its checks
(fit-description length and 'method' keys, data dimension, per dimension: slicer reference
keyword and min_n_intervals, fit method, weights keyword) iff the specification is well-formed,
for ANY number of dimensions. -/
theorem fit_ok_iff_wellformed (f : FitSpec) : validateFit f = .ok () ↔ WellFormedFit f := by
  unfold validateFit WellFormedFit
  rw [andThen_ok_iff, andThen_ok_iff, checkDescs_ok_iff]
  constructor
  · rintro ⟨hd, hdat, hloop⟩
    have hlen := filledDescs_length f hd
    refine ⟨hd, (checkData_ok_iff f).mp hdat, ?_⟩
    · intro i hi
      unfold fitLoop at hloop
      rw [firstFail_ok_iff] at hloop
      have := hloop i (by simp [hlen, hi])
      simp only [List.getElem_zip] at this
      rw [filledDescs_getElem] at this
      cases hk : dimFitCheck (f.dims[i], descAt f i) with
      | some c => simp [hk] at this
      | none => exact (dimFitCheck_none_iff _ _).mp hk
  · rintro ⟨hd, hdat, hall⟩
    have hlen := filledDescs_length f hd
    refine ⟨hd, (checkData_ok_iff f).mpr hdat, ?_⟩
    unfold fitLoop
    rw [firstFail_ok_iff]
    intro i hi
    have hi' : i < f.dims.length := by simp [hlen] at hi; exact hi
    simp only [List.getElem_zip]
    rw [filledDescs_getElem]
    rw [(dimFitCheck_none_iff _ _).mpr (hall i hi')]
    rfl

/-- the per-dimension loop of `fit` in isolation: its error names the first offending dimension,
reports the check `dimFitCheck` returns there (slicer reference / too few intervals / method /
weights), has no argument, and every earlier dimension passes -/
theorem fitLoop_error (f : FitSpec) (e : Err) (hd : checkDescs f = .ok ()) (h : fitLoop f = .error e) :
    ∃ hi : e.pos < f.dims.length,
      dimFitCheck (f.dims[e.pos], descAt f e.pos) = some e.check ∧ e.arg = 0 ∧
      ¬ FitDimOK f e.pos f.dims[e.pos] ∧
      ∀ j (hj : j < e.pos), FitDimOK f j (f.dims[j]'(Nat.lt_trans hj hi)) := by
  have hlen := filledDescs_length f ((checkDescs_ok_iff f).mp hd)
  unfold fitLoop at h
  obtain ⟨hi, hc, ha, hb⟩ := firstFail_map_error dimFitCheck _ e h
  have hi' : e.pos < f.dims.length := by simp [hlen] at hi; exact hi
  simp only [List.getElem_zip] at hc
  rw [filledDescs_getElem] at hc
  refine ⟨hi', hc, ha, ?_, ?_⟩
  · intro hok
    rw [(dimFitCheck_none_iff _ _).mpr hok] at hc
    cases hc
  · intro j hj
    have := hb j hj
    simp only [List.getElem_zip] at this
    rw [filledDescs_getElem] at this
    exact (dimFitCheck_none_iff _ _).mp this

/-- **P1 (fit, first error of the per-dimension loop).** When the fit descriptions and the data
shape are accepted, the error names the first offending dimension, the reported check is the one
`dimFitCheck` finds there (unknown reference keyword / reference type / too few intervals / no interval /
method type / unknown method / lsq unsupported / unknown weights / weights type / non-finite weights), its
argument is 0, and all earlier dimensions pass their slicer / method / weights checks (and are therefore
fitted before the exception is raised).  The errors that `hd` / `hdat` exclude (description length,
missing 'method', data shape) are covered by `fit_error_cases`. -/
theorem fit_first_error_position (f : FitSpec) (e : Err) (hd : checkDescs f = .ok ())
    (hdat : checkData f = .ok ()) (h : validateFit f = .error e) :
    ∃ hi : e.pos < f.dims.length,
      dimFitCheck (f.dims[e.pos], descAt f e.pos) = some e.check ∧ e.arg = 0 ∧
      ¬ FitDimOK f e.pos f.dims[e.pos] ∧
      ∀ j (hj : j < e.pos), FitDimOK f j (f.dims[j]'(Nat.lt_trans hj hi)) := by
  unfold validateFit at h
  rw [hd, hdat] at h
  simp only [andThen] at h
  exact fitLoop_error f e hd h

theorem missingMethodCheck_some (d : Option FitDesc) (c : Check) (h : missingMethodCheck d = some c) :
    c = .missingMethod ∧ ∃ x, d = some x ∧ x.hasMethod = false := by
  cases d with
  | none => simp [missingMethodCheck] at h
  | some x =>
    cases hm : x.hasMethod with
    | true => simp [missingMethodCheck, hm] at h
    | false => simp [missingMethodCheck, hm] at h; exact ⟨h.symm, x, rfl, hm⟩

/-- **P1 (fit, EVERY error).** Whatever `fit` rejects, the error is one of exactly four kinds, in
the code's order: (1) fit descriptions of the wrong length; (2) the FIRST description without a
'method' key, at its position; (3) the data shape (`checkData_error` says which of scalar / wrong last
axis / flat); (4) the per-dimension loop, as in `fit_first_error_position`. -/
theorem fit_error_cases (f : FitSpec) (e : Err) (h : validateFit f = .error e) :
    (∃ l, f.descs = some l ∧ l.length ≠ f.dims.length ∧ e = ⟨.fitLength, 0, 0⟩) ∨
    (∃ l, f.descs = some l ∧ l.length = f.dims.length ∧ ∃ hi : e.pos < l.length,
        e.check = .missingMethod ∧ e.arg = 0 ∧ (∃ x, l[e.pos] = some x ∧ x.hasMethod = false) ∧
        ∀ j (hj : j < e.pos), missingMethodCheck (l[j]'(Nat.lt_trans hj hi)) = none) ∨
    (checkDescs f = .ok () ∧ checkData f = .error e) ∨
    (checkDescs f = .ok () ∧ checkData f = .ok () ∧ ∃ hi : e.pos < f.dims.length,
        dimFitCheck (f.dims[e.pos], descAt f e.pos) = some e.check ∧ e.arg = 0 ∧
        ¬ FitDimOK f e.pos f.dims[e.pos] ∧
        ∀ j (hj : j < e.pos), FitDimOK f j (f.dims[j]'(Nat.lt_trans hj hi))) := by
  unfold validateFit at h
  rcases andThen_error _ _ _ h with h1 | ⟨h1, h23⟩
  · unfold checkDescs at h1
    cases hl : f.descs with
    | none => rw [hl] at h1; cases h1
    | some l =>
      rw [hl] at h1
      simp only at h1
      by_cases hlen : l.length = f.dims.length
      · right; left
        rw [if_neg (by simpa using hlen)] at h1
        obtain ⟨hi, hc, ha, hb⟩ := firstFail_map_error missingMethodCheck l e h1
        obtain ⟨hk, hx⟩ := missingMethodCheck_some _ _ hc
        exact ⟨l, rfl, hlen, hi, hk, ha, hx, hb⟩
      · left
        rw [if_pos (by simpa using hlen)] at h1
        exact ⟨l, rfl, hlen, (Except.error.inj h1).symm⟩
  · rcases andThen_error _ _ _ h23 with h2 | ⟨h2, h3⟩
    · right; right; left; exact ⟨h1, h2⟩
    · right; right; right
      exact ⟨h1, h2, fitLoop_error f e h1 h3⟩

/-- non-vacuity: Hs (exp. Weibull, wlsq / quadratic), Tz | Hs with 5 ≥ 3 intervals, default fit -/
example : validateFit ⟨[⟨none, true⟩, ⟨some ⟨.width, .center, 5, 3⟩, false⟩],
    some [some ⟨true, .wlsq, .quadratic⟩, none], [150, 2]⟩ = .ok () := by decide
example : validateFit ⟨[⟨none, true⟩, ⟨some ⟨.width, .center, 2, 3⟩, false⟩],
    some [some ⟨true, .wlsq, .quadratic⟩, none], [150, 2]⟩ = .error ⟨.tooFewIntervals, 1, 0⟩ := by decide
example : validateFit ⟨[⟨none, true⟩, ⟨none, false⟩], some [some ⟨true, .wlsq, .unknownStr⟩, some ⟨false, .mle, .none⟩], [150, 2]⟩
    = .error ⟨.missingMethod, 1, 0⟩ := by decide
/-- data shapes: a flat sequence of 150 values, a flat sequence of exactly n_dim = 2 values, a
scalar, a (150, 2, 1) array - all rejected; the description error comes first -/
example : validateFit ⟨[⟨none, false⟩, ⟨none, false⟩], none, [150]⟩ = .error ⟨.dataDim, 0, 0⟩ := by decide
example : validateFit ⟨[⟨none, false⟩, ⟨none, false⟩], none, [2]⟩ = .error ⟨.dataFlat, 0, 0⟩ := by decide
example : validateFit ⟨[⟨none, false⟩, ⟨none, false⟩], none, []⟩ = .error ⟨.dataScalar, 0, 0⟩ := by decide
example : validateFit ⟨[⟨none, false⟩, ⟨none, false⟩], none, [150, 2, 1]⟩ = .error ⟨.dataDim, 0, 0⟩ := by decide
example : validateFit ⟨[⟨none, false⟩, ⟨none, false⟩], some [none], [2]⟩ = .error ⟨.fitLength, 0, 0⟩ := by decide


/-! ### highest density contour: limits and deltas -/

def WellFormedGrid (g : GridSpec) : Prop :=
  (match g.limits with
    | none => True
    | some l => l.length = g.nDim ∧ ∀ x ∈ l, x = .tuple 2) ∧
  (match g.deltas with
    | .none => True
    | .scalar v => v = .pos
    | .list vs => vs.length = g.nDim ∧ ∀ v ∈ vs, v = .pos)

theorem firstFail_const_ok_iff {β : Type} (c : β → Option (Check × Nat)) (k : Nat) (l : List β) :
    firstFail (fun _ x => c x) k l = .ok () ↔ ∀ x ∈ l, c x = none := by
  rw [firstFail_ok_iff]
  constructor
  · intro h x hx
    obtain ⟨i, hi, rfl⟩ := List.getElem_of_mem hx
    exact h i hi
  · intro h i hi
    exact h _ (List.getElem_mem hi)

theorem map_pair_none_iff (o : Option Check) : (o.map fun c => (c, 0)) = none ↔ o = none := by
  cases o <;> simp

theorem cellCheck_none_iff (x : LimTag × DVal) :
    cellCheck x = none ↔ x.1 = .tuple 2 ∧ (x.2 = .pos ∨ x.2 = .neg) := by
  obtain ⟨l, v⟩ := x
  unfold cellCheck
  cases l with
  | scalar => simp
  | nonNumeric => simp
  | nonFinite => simp
  | tuple k =>
    by_cases hk : k = 2
    · subst hk; cases v <;> simp
    · simp [hk]

theorem grid_core (L : List LimTag) (D : List DVal) (hlen : L.length = D.length) :
    (firstFail (fun _ x => (cellCheck x).map fun c => (c, 0)) 0 (L.zip D) = .ok () ∧
      firstFail (fun _ v => if v = DVal.neg then some (Check.deltaNegative, 0) else none) 0 D = .ok ()) ↔
    (∀ x ∈ L, x = .tuple 2) ∧ (∀ v ∈ D, v = .pos) := by
  rw [firstFail_const_ok_iff, firstFail_const_ok_iff]
  simp only [map_pair_none_iff, cellCheck_none_iff]
  constructor
  · rintro ⟨hz, hn⟩
    constructor
    · intro x hx
      obtain ⟨i, hi, rfl⟩ := List.getElem_of_mem hx
      have := hz (L[i], D[i]'(hlen ▸ hi)) (by
        rw [List.mem_iff_getElem]
        exact ⟨i, by simp [← hlen, hi], by simp⟩)
      exact this.1
    · intro v hv
      obtain ⟨i, hi, rfl⟩ := List.getElem_of_mem hv
      have := hz (L[i]'(hlen ▸ hi), D[i]) (by
        rw [List.mem_iff_getElem]
        exact ⟨i, by simp [hlen, hi], by simp⟩)
      have hneg := hn D[i] (List.getElem_mem hi)
      rcases this.2 with h | h
      · exact h
      · have h' : D[i] = DVal.neg := h
        simp [h'] at hneg
  · rintro ⟨hL, hD⟩
    constructor
    · rintro ⟨l, v⟩ hx
      have := List.of_mem_zip hx
      exact ⟨hL l this.1, Or.inl (hD v this.2)⟩
    · intro v hv
      simp [hD v hv]

/-- **P1 (HDC).** `HighestDensityContour(model, alpha, limits, deltas)` gets past
`_check_grid` and the limit / step handling of `_compute` iff limits (when given) has one
2-tuple per dimension and deltas is absent, a positive scalar or a list of one positive step per
dimension - for any number of dimensions `≥ 1`. -/
theorem grid_ok_iff_wellformed (g : GridSpec) (hn : 0 < g.nDim) :
    validateGrid g = .ok () ↔ WellFormedGrid g := by
  obtain ⟨n, limits, deltas⟩ := g
  simp only at hn
  unfold validateGrid WellFormedGrid
  rw [andThen_ok_iff, andThen_ok_iff, andThen_ok_iff]
  unfold computeLoop negCheck
  cases limits with
  | some l =>
    by_cases hl : l.length = n
    · cases deltas with
      | none =>
        have hlen : (gridLimits ⟨n, some l, .none⟩).length = (gridDeltas ⟨n, some l, .none⟩).length := by
          simp [gridLimits, gridDeltas, hl]
        rw [grid_core _ _ hlen]
        simp only [checkLimitsLength, checkDeltas, gridLimits, gridDeltas, hl]
        rw [firstFail_const_ok_iff]
        simp only [map_pair_none_iff]
        constructor
        · rintro ⟨_, _, hL, _⟩; exact ⟨⟨trivial, hL⟩, trivial⟩
        · rintro ⟨⟨_, hL⟩, _⟩
          refine ⟨by simp, ?_, hL, by simp⟩
          intro x hx; rw [hL x hx]; simp [defaultDeltaCheck]
      | scalar v =>
        have hlen : (gridLimits ⟨n, some l, .scalar v⟩).length = (gridDeltas ⟨n, some l, .scalar v⟩).length := by
          simp [gridLimits, gridDeltas, hl]
        rw [grid_core _ _ hlen]
        simp only [checkLimitsLength, checkDeltas, gridLimits, gridDeltas, hl]
        constructor
        · rintro ⟨_, _, hL, hD⟩
          exact ⟨⟨trivial, hL⟩, hD v (by simp; omega)⟩
        · rintro ⟨⟨_, hL⟩, hv⟩
          refine ⟨by simp, trivial, hL, ?_⟩
          intro w hw; rw [List.mem_replicate] at hw; rw [hw.2]; exact hv
      | list vs =>
        by_cases hv : vs.length = n
        · have hlen : (gridLimits ⟨n, some l, .list vs⟩).length = (gridDeltas ⟨n, some l, .list vs⟩).length := by
            simp [gridLimits, gridDeltas, hl, hv]
          rw [grid_core _ _ hlen]
          simp only [checkLimitsLength, checkDeltas, gridLimits, gridDeltas, hl, hv]
          constructor
          · rintro ⟨_, _, hL, hD⟩; exact ⟨⟨trivial, hL⟩, trivial, hD⟩
          · rintro ⟨⟨_, hL⟩, _, hD⟩; exact ⟨by simp, by simp, hL, hD⟩
        · simp [checkDeltas, hv]
    · simp [checkLimitsLength, hl]
  | none =>
    cases deltas with
    | none =>
      have hlen : (gridLimits ⟨n, none, .none⟩).length = (gridDeltas ⟨n, none, .none⟩).length := by
        simp [gridLimits, gridDeltas]
      rw [grid_core _ _ hlen]
      simp only [checkLimitsLength, checkDeltas, gridLimits, gridDeltas]
      rw [firstFail_const_ok_iff]
      simp only [map_pair_none_iff]
      refine ⟨fun _ => ⟨trivial, trivial⟩, fun _ => ⟨trivial, ?_, ?_, ?_⟩⟩
      · intro x hx; rw [List.mem_replicate] at hx; rw [hx.2]; simp [defaultDeltaCheck]
      · intro x hx; rw [List.mem_replicate] at hx; exact hx.2
      · intro x hx; rw [List.mem_replicate] at hx; exact hx.2
    | scalar v =>
      have hlen : (gridLimits ⟨n, none, .scalar v⟩).length = (gridDeltas ⟨n, none, .scalar v⟩).length := by
        simp [gridLimits, gridDeltas]
      rw [grid_core _ _ hlen]
      simp only [checkLimitsLength, checkDeltas, gridLimits, gridDeltas]
      constructor
      · rintro ⟨_, _, _, hD⟩
        exact ⟨trivial, hD v (by simp; omega)⟩
      · rintro ⟨_, hv⟩
        refine ⟨trivial, trivial, ?_, ?_⟩
        · intro x hx; rw [List.mem_replicate] at hx; exact hx.2
        · intro w hw; rw [List.mem_replicate] at hw; rw [hw.2]; exact hv
    | list vs =>
      by_cases hv : vs.length = n
      · have hlen : (gridLimits ⟨n, none, .list vs⟩).length = (gridDeltas ⟨n, none, .list vs⟩).length := by
          simp [gridLimits, gridDeltas, hv]
        rw [grid_core _ _ hlen]
        simp only [checkLimitsLength, checkDeltas, gridLimits, gridDeltas, hv]
        constructor
        · rintro ⟨_, _, _, hD⟩; exact ⟨trivial, trivial, hD⟩
        · rintro ⟨_, _, hD⟩
          refine ⟨trivial, by simp, ?_, hD⟩
          intro x hx; rw [List.mem_replicate] at hx; exact hx.2
      · simp [checkDeltas, hv]

/-- non-vacuity and the order of the checks: limits of the wrong length are reported before
deltas of the wrong length; a 3-tuple is reported by `_compute`, a 1-tuple already by the default
step computation -/
example : validateGrid ⟨3, some [.tuple 2, .tuple 2, .tuple 2], .list [.pos, .pos, .pos]⟩ = .ok () := by decide
example : validateGrid ⟨2, some [.tuple 2], .list [.pos]⟩ = .error ⟨.limitsLength, 0, 0⟩ := by decide
example : validateGrid ⟨2, some [.tuple 2, .tuple 3], .none⟩ = .error ⟨.limitTuple, 1, 0⟩ := by decide
example : validateGrid ⟨2, some [.tuple 2, .tuple 1], .none⟩ = .error ⟨.limitIndex, 1, 0⟩ := by decide
/-- entries that are not finite numbers: (None, 4) is a `TypeError` in either stage, (nan, 4) fails inside numpy -/
example : validateGrid ⟨2, some [.tuple 2, .nonNumeric], .none⟩ = .error ⟨.limitEntry, 1, 0⟩ := by decide
example : validateGrid ⟨2, some [.nonNumeric, .tuple 2], .scalar .pos⟩ = .error ⟨.limitEntry, 0, 0⟩ := by decide
example : validateGrid ⟨2, some [.tuple 2, .nonFinite], .none⟩ = .error ⟨.limitNonFinite, 1, 0⟩ := by decide


/-- the loop of `_compute` in isolation (kept: the part of `grid_first_error_position` for which both
length checks passed) -/
theorem grid_first_error_position_compute_loop (g : GridSpec) (e : Err) (h1 : checkLimitsLength g = .ok ())
    (h2 : checkDeltas g = .ok ()) (h : computeLoop g = .error e) :
    validateGrid g = .error e ∧
    ∃ hi : e.pos < ((gridLimits g).zip (gridDeltas g)).length,
      cellCheck ((gridLimits g).zip (gridDeltas g))[e.pos] = some e.check ∧ e.arg = 0 ∧
      ∀ j (hj : j < e.pos), cellCheck (((gridLimits g).zip (gridDeltas g))[j]'(Nat.lt_trans hj hi)) = none := by
  refine ⟨by simp [validateGrid, andThen, h1, h2, h], ?_⟩
  unfold computeLoop at h
  exact firstFail_map_error cellCheck _ e h

theorem defaultDeltaCheck_some (l : LimTag) (c : Check) (h : defaultDeltaCheck l = some c) :
    (l = .scalar ∧ c = .limitSubscript) ∨ (∃ k, l = .tuple k ∧ k < 2 ∧ c = .limitIndex) ∨
    (l = .nonNumeric ∧ c = .limitEntry) := by
  cases l with
  | scalar => simp [defaultDeltaCheck] at h; exact Or.inl ⟨rfl, h.symm⟩
  | nonNumeric => simp [defaultDeltaCheck] at h; exact Or.inr (Or.inr ⟨rfl, h.symm⟩)
  | nonFinite => simp [defaultDeltaCheck] at h
  | tuple k =>
    by_cases hk : k < 2
    · simp [defaultDeltaCheck, hk] at h; exact Or.inr (Or.inl ⟨k, rfl, hk, h.symm⟩)
    · simp [defaultDeltaCheck, hk] at h

/-- **P1 (HDC, EVERY error, first position).** Whatever the HighestDensityContour constructor
rejects about limits / deltas, the error is one of exactly five kinds, in the code's order:
(1) limits of the wrong length; (2) a deltas list of the wrong length; (3) default deltas: the FIRST
limit entry from which no default step can be computed - a scalar (`limitSubscript`), a sequence with
fewer than two entries (`limitIndex`), non-numeric entries (`limitEntry`) - at its position; (4) the
loop of `_compute`: the FIRST dimension whose limit is not a 2-tuple of finite numbers or whose step is
zero / NaN, with the check `cellCheck` reports there; (5) the FIRST negative step (`deltaNegative`, an
empty axis), when every dimension passed (4). -/
theorem grid_first_error_position (g : GridSpec) (e : Err) (h : validateGrid g = .error e) :
    (∃ l, g.limits = some l ∧ l.length ≠ g.nDim ∧ e = ⟨.limitsLength, 0, 0⟩) ∨
    (checkLimitsLength g = .ok () ∧ ∃ vs, g.deltas = .list vs ∧ vs.length ≠ g.nDim ∧
        e = ⟨.deltasLength, 0, 0⟩) ∨
    (checkLimitsLength g = .ok () ∧ g.deltas = .none ∧ ∃ hi : e.pos < (gridLimits g).length,
        defaultDeltaCheck (gridLimits g)[e.pos] = some e.check ∧ e.arg = 0 ∧
        (e.check = .limitSubscript ∨ e.check = .limitIndex ∨ e.check = .limitEntry) ∧
        ∀ j (hj : j < e.pos), defaultDeltaCheck ((gridLimits g)[j]'(Nat.lt_trans hj hi)) = none) ∨
    (checkLimitsLength g = .ok () ∧ checkDeltas g = .ok () ∧
      ∃ hi : e.pos < ((gridLimits g).zip (gridDeltas g)).length,
        cellCheck ((gridLimits g).zip (gridDeltas g))[e.pos] = some e.check ∧ e.arg = 0 ∧
        ∀ j (hj : j < e.pos),
          cellCheck (((gridLimits g).zip (gridDeltas g))[j]'(Nat.lt_trans hj hi)) = none) ∨
    (checkLimitsLength g = .ok () ∧ checkDeltas g = .ok () ∧ computeLoop g = .ok () ∧
      e.check = .deltaNegative ∧ e.arg = 0 ∧ ∃ hi : e.pos < (gridDeltas g).length,
        (gridDeltas g)[e.pos] = .neg ∧
        ∀ j (hj : j < e.pos), (gridDeltas g)[j]'(Nat.lt_trans hj hi) ≠ .neg) := by
  unfold validateGrid at h
  rcases andThen_error _ _ _ h with h1 | ⟨h1, h234⟩
  · left
    unfold checkLimitsLength at h1
    cases hl : g.limits with
    | none => rw [hl] at h1; cases h1
    | some l =>
      rw [hl] at h1
      simp only at h1
      by_cases hlen : l.length = g.nDim
      · rw [if_neg (by simpa using hlen)] at h1; cases h1
      · rw [if_pos (by simpa using hlen)] at h1
        exact ⟨l, rfl, hlen, (Except.error.inj h1).symm⟩
  · right
    rcases andThen_error _ _ _ h234 with h2 | ⟨h2, h34⟩
    · unfold checkDeltas at h2
      cases hdl : g.deltas with
      | scalar v => rw [hdl] at h2; cases h2
      | list vs =>
        left
        rw [hdl] at h2
        simp only at h2
        by_cases hlen : vs.length = g.nDim
        · rw [if_neg (by simpa using hlen)] at h2; cases h2
        · rw [if_pos (by simpa using hlen)] at h2
          exact ⟨h1, vs, rfl, hlen, (Except.error.inj h2).symm⟩
      | none =>
        right; left
        rw [hdl] at h2
        simp only at h2
        obtain ⟨hi, hc, ha, hb⟩ := firstFail_map_error defaultDeltaCheck _ e h2
        refine ⟨h1, rfl, hi, hc, ha, ?_, hb⟩
        rcases defaultDeltaCheck_some _ _ hc with ⟨_, h⟩ | ⟨_, _, _, h⟩ | ⟨_, h⟩
        · exact Or.inl h
        · exact Or.inr (Or.inl h)
        · exact Or.inr (Or.inr h)
    · right; right
      rcases andThen_error _ _ _ h34 with h3 | ⟨h3, h4⟩
      · left
        exact ⟨h1, h2, (grid_first_error_position_compute_loop g e h1 h2 h3).2⟩
      · right
        unfold negCheck at h4
        obtain ⟨i, hi, hp, hc, hb⟩ := firstFail_error _ 0 _ e h4
        simp only [Nat.zero_add] at hp hc hb
        subst hp
        by_cases hneg : (gridDeltas g)[e.pos] = DVal.neg
        · rw [if_pos hneg] at hc
          simp only [Option.some.injEq, Prod.mk.injEq] at hc
          refine ⟨h1, h2, h3, hc.1.symm, hc.2.symm, hi, hneg, ?_⟩
          intro j hj hn
          have := hb j hj
          rw [if_pos hn] at this
          cases this
        · rw [if_neg hneg] at hc; cases hc

/-- non-vacuity of the five cases of `grid_first_error_position`, incl. the positions the former
statement excluded through `checkDeltas g = .ok ()` -/
example : validateGrid ⟨2, some [.tuple 2], .none⟩ = .error ⟨.limitsLength, 0, 0⟩ ∧
    validateGrid ⟨2, some [.tuple 2, .tuple 2], .list [.pos]⟩ = .error ⟨.deltasLength, 0, 0⟩ ∧
    validateGrid ⟨3, some [.tuple 2, .scalar, .tuple 1], .none⟩ = .error ⟨.limitSubscript, 1, 0⟩ ∧
    validateGrid ⟨3, some [.tuple 2, .tuple 2, .tuple 1], .none⟩ = .error ⟨.limitIndex, 2, 0⟩ ∧
    validateGrid ⟨2, some [.tuple 2, .tuple 2], .list [.pos, .zero]⟩ = .error ⟨.deltaStep, 1, 0⟩ ∧
    validateGrid ⟨3, none, .list [.pos, .neg, .neg]⟩ = .error ⟨.deltaNegative, 1, 0⟩ := by decide

/-- `grid_ok_iff_wellformed` needs `0 < nDim`: for the (non-existent: `model_desc_ok_iff_wellformed`
demands a non-empty description) 0-dimensional model the loops of the MODEL run over no dimension and
accept e.g. a zero scalar step - an artefact of the model at `nDim = 0`, not a statement about the
code -/
example : validateGrid ⟨0, none, .scalar .zero⟩ = .ok () ∧ ¬ WellFormedGrid ⟨0, none, .scalar .zero⟩ := by
  refine ⟨by decide, ?_⟩
  intro h
  exact absurd h.2 (by decide)

/-! ### slicers -/

def WellFormedSlicer (s : SlicerSpec) : Prop :=
  s.unknownKwargs = [] ∧ (s.kind = .ppi → s.ref = .callable) ∧
    SliceOK ⟨s.kind, s.ref, s.nKept, effMin s⟩

/-- **P1 (slicers).** A slicer is constructed and slices iff it has no unknown keyword argument,
a valid reference (a PointsPerIntervalSlicer: a callable; the others: 'center' / 'left' /
'right' or a callable) and at least (the effective) `min_n_intervals` ≥ … intervals remain, and
at least one. -/
theorem slicer_ok_iff_wellformed (s : SlicerSpec) :
    validateSlicer s = .ok () ↔ WellFormedSlicer s := by
  unfold validateSlicer WellFormedSlicer
  rw [andThen_ok_iff]
  have hslice : validateSlice s = .ok () ↔ SliceOK ⟨s.kind, s.ref, s.nKept, effMin s⟩ := by
    unfold validateSlice
    rw [← sliceCheck_none_iff]
    cases sliceCheck ⟨s.kind, s.ref, s.nKept, effMin s⟩ <;> simp
  rw [hslice]
  unfold validateSlicerCtor
  cases hu : s.unknownKwargs with
  | cons a as => simp
  | nil =>
    by_cases hk : s.kind = .ppi
    · by_cases hr : s.ref = .callable <;> simp [hk, hr]
    · simp [hk]

/-- the `min_n_intervals` test of `slice_` in isolation: for a valid reference keyword (and, for a
PointsPerIntervalSlicer, at least one kept interval) `tooFewIntervals` is reported iff fewer than
`minN` intervals remain -/
theorem sliceCheck_tooFew_iff (s : SliceInfo)
    (hr : s.kind ≠ .ppi → s.ref ≠ .unknownStr ∧ s.ref ≠ .other)
    (hk : s.kind = .ppi → 0 < s.nKept) :
    sliceCheck s = some .tooFewIntervals ↔ s.nKept < s.minN := by
  obtain ⟨kind, ref, n, m⟩ := s
  cases kind <;> cases ref <;> simp [sliceCheck] at hr hk ⊢ <;>
    (by_cases h1 : n < m <;> by_cases h0 : n = 0 <;> simp [h1, h0] <;> omega)

/-- too few intervals is an error exactly when fewer than `min_n_intervals` (lowered to
`n_intervals` by a NumberOfIntervalsSlicer) remain - for EVERY slicer whose reference keyword is
valid: 'center' / 'left' / 'right' or a callable for Width/NumberOfIntervals slicers (`hr`; an invalid
keyword is reported first), a PointsPerIntervalSlicer (whose reference is a callable by `hc`) with at
least one interval kept (`hk`; with none kept its `IndexError` comes first). -/
theorem slicer_too_few_iff (s : SlicerSpec) (hc : validateSlicerCtor s = .ok ())
    (hr : s.kind ≠ .ppi → s.ref ≠ .unknownStr ∧ s.ref ≠ .other)
    (hk : s.kind = .ppi → 0 < s.nKept) :
    validateSlicer s = .error ⟨.tooFewIntervals, 0, 0⟩ ↔ s.nKept < effMin s := by
  unfold validateSlicer
  rw [hc]
  simp only [andThen, validateSlice]
  rw [← sliceCheck_tooFew_iff ⟨s.kind, s.ref, s.nKept, effMin s⟩ hr hk]
  cases sliceCheck ⟨s.kind, s.ref, s.nKept, effMin s⟩ with
  | none => simp
  | some c => cases c <;> simp

/-- non-vacuity of `slicer_too_few_iff` for keyword references (the former statement demanded a
callable reference and so excluded every 'center' / 'left' / 'right' slicer) -/
example : validateSlicerCtor ⟨.width, [], .center, 0, 3, 2⟩ = .ok () ∧
    validateSlicer ⟨.width, [], .left, 0, 3, 2⟩ = .error ⟨.tooFewIntervals, 0, 0⟩ ∧
    validateSlicer ⟨.number, [], .right, 2, 3, 2⟩ = .ok () ∧
    validateSlicer ⟨.ppi, [], .callable, 0, 3, 2⟩ = .error ⟨.tooFewIntervals, 0, 0⟩ ∧
    validateSlicer ⟨.ppi, [], .callable, 0, 3, 0⟩ = .error ⟨.noIntervalPpi, 0, 0⟩ := by decide

example : validateSlicer ⟨.number, [], .center, 2, 3, 2⟩ = .ok () := by decide
example : validateSlicer ⟨.width, [], .center, 0, 3, 2⟩ = .error ⟨.tooFewIntervals, 0, 0⟩ := by decide
example : validateSlicer ⟨.ppi, [], .center, 0, 3, 5⟩ = .error ⟨.referenceType, 0, 0⟩ := by decide

/-! ### evaluation points, 2-D-only contours, IFORM model type -/

/-- **P1 (points).** `pdf` / `cdf` accept the points iff every coordinate is finite (the model function is
`List.all`; this is its `∀` reading, little more than an unfolding). -/
theorem points_ok_iff_wellformed (rows : List (List PtTag)) :
    validatePoints rows = .ok () ↔ ∀ r ∈ rows, ∀ t ∈ r, t = .finite := by
  unfold validatePoints
  by_cases h : rows.all (fun r => r.all (fun t => t = .finite)) = true
  · simp only [h, if_true, true_iff]
    simpa using h
  · simp only [h]
    simp only [Bool.false_eq_true, if_false, reduceCtorEq, false_iff]
    intro hall
    apply h
    simpa using hall

/-- (one-step unfolding of `validateDensity`) The contour is computed iff the cell-averaged density has no NaN. -/
theorem density_ok_iff_unfold (hasNan : Bool) : validateDensity hasNan = .ok () ↔ hasNan = false := by
  cases hasNan <;> simp [validateDensity]

/-- (one-step unfolding of `validateTwoD`) DirectSampling / And / Or contours compute only for 2-dimensional models. -/
theorem twod_ok_iff_unfold (n : Nat) : validateTwoD n = .ok () ↔ n = 2 := by
  unfold validateTwoD
  by_cases h : n = 2 <;> simp [h]

/-- (one-step unfolding of `validateIformModel`) IFORMContour accepts exactly GlobalHierarchicalModel and TransformedModel. -/
theorem iform_model_ok_iff_unfold (t : ModelTypeTag) :
    validateIformModel t = .ok () ↔ t = .ghm ∨ t = .transformed := by
  cases t <;> simp [validateIformModel]

/-- (one-step unfolding of `validatePoints` and `Check.kind`) the only error of `pdf` / `cdf` points is a `ValueError` -/
theorem points_error_kind_unfold (rows : List (List PtTag)) (e : Err) (h : validatePoints rows = .error e) :
    e.check.kind = .valueError := by
  unfold validatePoints at h
  split at h
  · cases h
  · cases h; rfl

example : validatePoints [[.finite, .finite], [.finite, .nan]] = .error ⟨.nonFinite, 0, 0⟩ := by decide
example : validatePoints [[.finite, .finite]] = .ok () := by decide
example : validateTwoD 3 = .error ⟨.notTwoDim, 0, 0⟩ := by decide

end VirVerif.C18
