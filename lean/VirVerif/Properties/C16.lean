/-
C16 — Transformed models are exact push-forwards; Monte-Carlo conditionals match them.

  "For the shipped variable transformations inverse(transform(x)) = x on the positive quadrant and
   the supplied Jacobian equals |det d transform/dx|; a TransformedModel's pdf is the push-forward
   of the base density (integrates to one, cdf equals the empirical cdf of its own samples within
   Monte-Carlo error) and its samples are the inverse-transformed samples of the base model.
   Monte-Carlo conditional samples, cdf and quantiles follow the conditional density without
   truncating its tails, so that an IFORM contour of a transformed model agrees with the exactly
   transformed IFORM contour of the base model within Monte-Carlo error, and is reproduced exactly
   when the model's random_state is set."

Models: `Model/Transform.lean` (the six closed forms of variable_transform.py, the predefined
`_transform/_inv_transform/_jacobian` triple, `TransformedModel.pdf/draw_sample/empirical_cdf`,
the row built by `pdf_like`), `Model/Rejection.lean` (`conditional_sample`: x_max search, envelope,
rejection loop and its exits).  All theorems over ℝ are for the whole positive quadrant, the
control-flow theorems for every density, every replayed stream, every n / max_iter.

Clause → theorem
  inverse(transform(x)) = x, (hs,tz) ↔ (hs,s)                  hs_s_roundtrip, hs_s_roundtrip_inv
  … (hs,tz) ↔ (s,tz)                                           s_tz_roundtrip, s_tz_roundtrip_inv
  … (hs,tz) ↔ (s,d)                                            s_d_roundtrip, s_d_roundtrip_inv
  … the predefined triple of both EW models                    predef_roundtrip, predef_roundtrip_inv
  Jacobian = |det d transform/dx|.  `TransformedModel.pdf(x)` is
  `model.pdf(transform(x)) * jacobian(x)` with x in the TRANSFORMED space (hs,tz), so the map whose
  Jacobian is needed is `_transform : (hs,tz) ↦ (hs, F·hs/tz²)`; its four partial derivatives
  and |det| = 2·F·hs/tz³ = `_jacobian(hs,tz)`                  jacobian_hs_s (steepness_deriv_tz, steepness_deriv_hs),
                                                                jacobian_is_abs_det (|a·d − b·c| for ANY partials a b c d)
  pdf is the push-forward: composition                         tpdf_def, tpdf_pushforward
  … the conditional density of Tz given Hs it induces is the derivative of the exact
  conditional cdf 1 − G(F·hs/t²) the harness compares samples with   tz_conditional_density_is_cdf_deriv (product-form
                                                                base density; about `tPdf`), tz_conditional_cdf_deriv (chain rule only)
  … integrates to one / cdf = ecdf of samples                  PARTIAL — observed per run (quadrature, DKW)
  samples = inverse-transformed base samples, map back onto them   tsample_def (definitional), tsample_pushforward (round trip as
                                                                hypothesis), tsample_pushforward_predef (shipped triple, positive quadrant)
  empirical cdf counts rows componentwise ≤ x                   (model `ecdfCount`, tied by correspondence)
  conditional density is evaluated on the row (given…, x at `dim`, …given)   xhat_spec
  rejection sampler: accept iff y < pdf(x); result = first n accepted in stream order;
  batch sizes; earliest stop                                    accepted_mem_iff (accepted_mem: one direction; list form
                                                                acceptBatch_eq_filter), accepted_spec
  … max_iter exits, CouldNotSampleError                         maxiter_branch_spec, could_not_sample_spec
  x_max search                                                  xmax_search_spec, xmax_search_terminates,
                                                                xmax_below_threshold_floor
  `conditional_sample` as a whole (what the driver op `rej` runs: `condSample`) = row density → x_max search →
  envelope f_max = slack · max over the grid → rejection loop, all on ONE density `condPdf`
                                                                condSample_spec, condSample_accepted_spec, condSample_maxiter_spec, condSample_could_not_sample,
                                                                condSample_envelope (ordered field; grid points only), listMax_mem,
                                                                listMax_ge, condPdf_eq
  "without truncating its tails" FAILS for the code as it is: the search compares the JOINT density
  with an absolute threshold, so the same conditional density gets x_max above its mode in the bulk
  and x_max = 0.05 below its mode when the marginal factor is small      xmax_truncates  (known finding #17)
  reproduced exactly when random_state is set                   PARTIAL — OBSERVED per run (two seeded real runs compared bit for bit).
                                                                Lean has only an abstract picture `iformTPoint` that neither driver nor
                                                                harness runs: iform_seeded_reproducible_trivial (rfl),
                                                                iform_unforwarded_model_witness (defect #16, repaired)
  … and cuts everything between the returned candidate and the previous one        xmax_cuts_between_candidates (known finding)
  MC agreement of conditional samples / IFORM ≈ transformed IFORM              PARTIAL — observed per run
  Monte-Carlo sample sizes (`precision_factor` in [0.1, 1]; Model/McSize.lean over ℚ, int = Nat.floor):
  marginal_icdf draws max(⌊(1/p_small)·100·pf⌋, 100000) points ⇒ p_small·n > 100·pf − p_small      marginalN_exceedances,
                                                                marginalN_ge_floor, marginalN_eq_formula, marginalN_mono_pf
  conditional_icdf: 100000 ≤ n ≤ 10^7, formula in between, exceedances unless capped, monotone    condN_bounds, condN_eq_formula,
                                                                condN_exceedances, condN_mono_pf, clampN_bounds, clampN_eq
  p_small                                                       pSmallMarginal_le, pSmallCond_le_half, pSmallCond_pos
  (the Float instance of the same definitions is compared with the n the real code requests, harness part F)
  `iform_seeded_reproducible_trivial` is `rfl` on an abstract two-step model (same seed ⇒ same streams); that the code
  forwards the model's random_state to every Monte-Carlo step is observed per run, not proven.
-/
import VirVerif.Model.Transform
import VirVerif.Model.Rejection
import VirVerif.Model.McSize
import Mathlib.Algebra.Order.Floor.Semiring
import Mathlib.Data.Rat.Floor
import Mathlib.Analysis.Real.Sqrt
import Mathlib.Analysis.Calculus.Deriv.Inv
import Mathlib.Analysis.Calculus.Deriv.Add
import Mathlib.Analysis.Calculus.Deriv.Mul
import Mathlib.Analysis.Calculus.Deriv.Pow
import Mathlib.Analysis.Calculus.Deriv.Comp
import Mathlib.Data.List.Basic
import Mathlib.Algebra.Order.Field.Basic
import Mathlib.Algebra.Order.Field.Rat
import Mathlib.Tactic.Ring
import Mathlib.Tactic.FieldSimp
import Mathlib.Tactic.Linarith
import Mathlib.Tactic.Positivity
import Mathlib.Tactic.NormNum

namespace VirVerif.C16
open VirVerif

/-! ## 1. round trips (ℝ, positive quadrant) -/

theorem hs_s_roundtrip (F hs tz : ℝ) (hF : 0 < F) (hhs : 0 < hs) (htz : 0 < tz) :
    hsSToHsTz Real.sqrt F (hsTzToHsS F hs tz).1 (hsTzToHsS F hs tz).2 = (hs, tz) := by
  simp only [hsTzToHsS, hsSToHsTz]
  have h : hs / (F * hs / (tz * tz)) = tz * tz / F := by field_simp
  rw [h, ← Real.sqrt_mul hF.le, mul_div_cancel₀ _ hF.ne', Real.sqrt_mul_self htz.le]

theorem hs_s_roundtrip_inv (F hs s : ℝ) (hF : 0 < F) (hhs : 0 < hs) (hs' : 0 < s) :
    hsTzToHsS F (hsSToHsTz Real.sqrt F hs s).1 (hsSToHsTz Real.sqrt F hs s).2 = (hs, s) := by
  simp only [hsTzToHsS, hsSToHsTz]
  have hq : 0 < hs / s := div_pos hhs hs'
  have h : Real.sqrt F * Real.sqrt (hs / s) * (Real.sqrt F * Real.sqrt (hs / s)) = F * (hs / s) := by
    rw [mul_mul_mul_comm, Real.mul_self_sqrt hF.le, Real.mul_self_sqrt hq.le]
  rw [h]
  congr 1
  field_simp

theorem s_tz_roundtrip (F hs tz : ℝ) (hF : 0 < F) (htz : 0 < tz) :
    sTzToHsTz F (hsTzToSTz F hs tz).1 (hsTzToSTz F hs tz).2 = (hs, tz) := by
  simp only [hsTzToSTz, sTzToHsTz]
  congr 1
  field_simp

theorem s_tz_roundtrip_inv (F s tz : ℝ) (hF : 0 < F) (htz : 0 < tz) :
    hsTzToSTz F (sTzToHsTz F s tz).1 (sTzToHsTz F s tz).2 = (s, tz) := by
  simp only [hsTzToSTz, sTzToHsTz]
  congr 1
  field_simp

theorem s_d_roundtrip (F hs tz : ℝ) (hF : 0 < F) (hhs : 0 < hs) (htz : 0 < tz) :
    sDToHsTz Real.sqrt F (hsTzToSD Real.sqrt F hs tz).1 (hsTzToSD Real.sqrt F hs tz).2 = (hs, tz) := by
  simp only [hsTzToSD, sDToHsTz]
  have hd : Real.sqrt (hs * hs + tz * tz / 2) * Real.sqrt (hs * hs + tz * tz / 2)
      = hs * hs + tz * tz / 2 := Real.mul_self_sqrt (by positivity)
  set q := F * (4 * hs * hs / (tz * tz) + 1) with hq
  have hqpos : 0 < q := by positivity
  have hr : 16 * (Real.sqrt (hs * hs + tz * tz / 2) * Real.sqrt (hs * hs + tz * tz / 2)) *
      (F * hs / (tz * tz) * (F * hs / (tz * tz))) + F * F = q * q := by
    rw [hd, hq]; field_simp; ring
  rw [hr, Real.sqrt_mul_self hqpos.le]
  have h1 : (q - F) / (4 * (F * hs / (tz * tz))) = hs := by
    rw [hq]; field_simp; ring
  have h2 : F * q / (F * hs / (tz * tz) * (F * hs / (tz * tz))) -
      F * F / (F * hs / (tz * tz) * (F * hs / (tz * tz))) = (2 * tz) * (2 * tz) := by
    rw [hq]; field_simp; ring
  rw [h1, h2, Real.sqrt_mul_self (by positivity)]
  congr 1
  ring

theorem s_d_roundtrip_inv (F s d : ℝ) (hF : 0 < F) (hs : 0 < s) (hd : 0 < d) :
    hsTzToSD Real.sqrt F (sDToHsTz Real.sqrt F s d).1 (sDToHsTz Real.sqrt F s d).2 = (s, d) := by
  simp only [hsTzToSD, sDToHsTz]
  set r := Real.sqrt (16 * (d * d) * (s * s) + F * F) with hr
  have hrr : r * r = 16 * (d * d) * (s * s) + F * F := Real.mul_self_sqrt (by positivity)
  have hrF : F < r := by
    have h0 : 0 ≤ r := Real.sqrt_nonneg _
    have : F * F < r * r := by rw [hrr]; nlinarith [mul_pos (mul_pos hd hd) (mul_pos hs hs)]
    nlinarith
  have hrpos : 0 < r - F := by linarith
  -- tz² = F (r - F) / (4 s²)
  have hin : F * r / (s * s) - F * F / (s * s) = F * (r - F) / (s * s) := by ring
  have hnn : 0 ≤ F * (r - F) / (s * s) := by positivity
  have htz2 : (1 / 2 * Real.sqrt (F * r / (s * s) - F * F / (s * s))) *
      (1 / 2 * Real.sqrt (F * r / (s * s) - F * F / (s * s))) = F * (r - F) / (4 * (s * s)) := by
    rw [hin, mul_mul_mul_comm, Real.mul_self_sqrt hnn]; ring
  rw [htz2]
  have e1 : F * ((r - F) / (4 * s)) / (F * (r - F) / (4 * (s * s))) = s := by
    field_simp
  have e2 : (r - F) / (4 * s) * ((r - F) / (4 * s)) + F * (r - F) / (4 * (s * s)) / 2 = d * d := by
    have : (r - F) / (4 * s) * ((r - F) / (4 * s)) + F * (r - F) / (4 * (s * s)) / 2
        = (r * r - F * F) / (16 * (s * s)) := by field_simp; ring
    rw [this, hrr]; field_simp; ring
  rw [e1, e2, Real.sqrt_mul_self hd.le]

/-- the predefined triple of `get_Windmeier_EW_Hs_S` / `get_Nonzero_EW_Hs_S`:
`_inv_transform(_transform(hs,tz)) = (hs,tz)` -/
theorem predef_roundtrip (F hs tz : ℝ) (hF : 0 < F) (hhs : 0 < hs) (htz : 0 < tz) :
    predefInverse Real.sqrt F (predefTransform Real.sqrt F (hs, tz)) = (hs, tz) := by
  have := hs_s_roundtrip F hs tz hF hhs htz
  simpa [predefInverse, predefTransform, hsTzToSD, hsTzToHsS] using this

theorem predef_roundtrip_inv (F hs s : ℝ) (hF : 0 < F) (hhs : 0 < hs) (hs' : 0 < s) :
    predefTransform Real.sqrt F (predefInverse Real.sqrt F (hs, s)) = (hs, s) := by
  have := hs_s_roundtrip_inv F hs s hF hhs hs'
  simpa [predefInverse, predefTransform, hsTzToSD, hsTzToHsS, hsSToHsTz] using this

/-- non-vacuity: the hypotheses are met by concrete sea states -/
example : sTzToHsTz (1 : ℝ) (hsTzToSTz 1 3 2).1 (hsTzToSTz 1 3 2).2 = (3, 2) :=
  s_tz_roundtrip 1 3 2 one_pos two_pos
example : predefInverse Real.sqrt (2 : ℝ) (predefTransform Real.sqrt 2 (3, 5)) = (3, 5) :=
  predef_roundtrip 2 3 5 (by norm_num) (by norm_num) (by norm_num)
example : sDToHsTz Real.sqrt (2 : ℝ) (hsTzToSD Real.sqrt 2 3 5).1 (hsTzToSD Real.sqrt 2 3 5).2 = (3, 5) :=
  s_d_roundtrip 2 3 5 (by norm_num) (by norm_num) (by norm_num)

/-! ## 2. Jacobian -/

/-- `d/dt (F·hs/(t·t)) = −2·F·hs/t³` -/
theorem steepness_deriv_tz (F hs tz : ℝ) (htz : 0 < tz) :
    HasDerivAt (fun t : ℝ => F * hs / (t * t)) (-(2 * F * hs / tz ^ 3)) tz := by
  have hsq : HasDerivAt (fun t : ℝ => t * t) (1 * tz + tz * 1) tz :=
    (hasDerivAt_id tz).mul (hasDerivAt_id tz)
  have h : HasDerivAt (fun t : ℝ => F * hs / (t * t)) _ tz :=
    (hasDerivAt_const tz (F * hs)).div hsq (by positivity)
  refine h.congr_deriv ?_
  field_simp
  ring

theorem steepness_deriv_hs (F hs tz : ℝ) :
    HasDerivAt (fun h : ℝ => F * h / (tz * tz)) (F / (tz * tz)) hs := by
  have h : HasDerivAt (fun h : ℝ => F * h / (tz * tz)) _ hs :=
    ((hasDerivAt_id hs).const_mul F).div_const (tz * tz)
  refine h.congr_deriv ?_
  simp

theorem jacobian_hs_s (F hs tz : ℝ) (hF : 0 < F) (hhs : 0 < hs) (htz : 0 < tz) :
    HasDerivAt (fun h => (predefTransform Real.sqrt F (h, tz)).1) 1 hs ∧
    HasDerivAt (fun t => (predefTransform Real.sqrt F (hs, t)).1) 0 tz ∧
    HasDerivAt (fun h => (predefTransform Real.sqrt F (h, tz)).2) (F / (tz * tz)) hs ∧
    HasDerivAt (fun t => (predefTransform Real.sqrt F (hs, t)).2) (-(2 * F * hs / tz ^ 3)) tz ∧
    |1 * (-(2 * F * hs / tz ^ 3)) - 0 * (F / (tz * tz))| =
      predefJacobian (fun b => b ^ 3) F (hs, tz) := by
  refine ⟨hasDerivAt_id hs, hasDerivAt_const tz hs, steepness_deriv_hs F hs tz,
    steepness_deriv_tz F hs tz htz, ?_⟩
  simp only [predefJacobian]
  have : 0 < 2 * F * hs / tz ^ 3 := by positivity
  rw [one_mul, zero_mul, sub_zero, abs_neg, abs_of_pos this]

/-- chain rule only (arbitrary `G`, `g`; mentions neither `tPdf` nor the base density): the statement
about the transformed model's density is `tz_conditional_density_is_cdf_deriv`. -/
theorem tz_conditional_cdf_deriv (G g : ℝ → ℝ) (F hs tz : ℝ) (htz : 0 < tz)
    (hG : HasDerivAt G (g (F * hs / (tz * tz))) (F * hs / (tz * tz))) :
    HasDerivAt (fun t => 1 - G (F * hs / (t * t)))
      (g (F * hs / (tz * tz)) * predefJacobian (fun b => b ^ 3) F (hs, tz)) tz := by
  have hc : HasDerivAt (fun t => 1 - G (F * hs / (t * t))) _ tz :=
    HasDerivAt.const_sub 1 (HasDerivAt.comp tz hG (steepness_deriv_tz F hs tz htz))
  refine hc.congr_deriv ?_
  simp only [predefJacobian]
  ring

/-- **the supplied Jacobian is |det| of WHATEVER the partial derivatives are** (ties the last
conjunct of `jacobian_hs_s`, whose matrix entries are typed by hand there, to the derivatives: by
uniqueness of derivatives any four partials `a b c d` of `_transform` at `(hs, tz)` satisfy
`|a·d − b·c| = _jacobian(hs, tz)`). -/
theorem jacobian_is_abs_det (F hs tz : ℝ) (hF : 0 < F) (hhs : 0 < hs) (htz : 0 < tz) (a b c d : ℝ)
    (ha : HasDerivAt (fun h => (predefTransform Real.sqrt F (h, tz)).1) a hs)
    (hb : HasDerivAt (fun t => (predefTransform Real.sqrt F (hs, t)).1) b tz)
    (hc : HasDerivAt (fun h => (predefTransform Real.sqrt F (h, tz)).2) c hs)
    (hd : HasDerivAt (fun t => (predefTransform Real.sqrt F (hs, t)).2) d tz) :
    |a * d - b * c| = predefJacobian (fun b => b ^ 3) F (hs, tz) := by
  obtain ⟨h1, h2, h3, h4, h5⟩ := jacobian_hs_s F hs tz hF hhs htz
  rw [ha.unique h1, hb.unique h2, hc.unique h3, hd.unique h4]
  exact h5

/-- **the conditional density of Tz given Hs induced by `TransformedModel.pdf`.**  Base density of
product form `base (h, s) = m h · g s` (marginal of Hs times conditional of S given that Hs; `g`
may depend on the fixed `hs`), `G` a cdf of `g` at the point.  Then the transformed model's JOINT
density `tPdf` at `(hs, tz)`, divided by the marginal density `m hs`, is the derivative in `tz` of
the exact conditional cdf `t ↦ 1 − G(F·hs/t²)` the harness compares the Monte-Carlo samples with. -/
theorem tz_conditional_density_is_cdf_deriv (base : ℝ × ℝ → ℝ) (m G g : ℝ → ℝ) (F hs tz : ℝ)
    (htz : 0 < tz) (hm : m hs ≠ 0)
    (hb : ∀ s, base (hs, s) = m hs * g s)
    (hG : HasDerivAt G (g (F * hs / (tz * tz))) (F * hs / (tz * tz))) :
    HasDerivAt (fun t => 1 - G (F * hs / (t * t)))
      (tPdf base (predefTransform Real.sqrt F) (predefJacobian (fun b => b ^ 3) F) (hs, tz) / m hs)
      tz := by
  refine (tz_conditional_cdf_deriv G g F hs tz htz hG).congr_deriv ?_
  have hT : predefTransform Real.sqrt F (hs, tz) = (hs, F * hs / (tz * tz)) := rfl
  rw [tPdf, hT, hb]
  field_simp

example : |1 * (-(2 * (2:ℝ) * 3 / 5 ^ 3)) - 0 * (2 / (5 * 5))| = predefJacobian (fun b => b ^ 3) 2 ((3:ℝ), 5) :=
  (jacobian_hs_s 2 3 5 (by norm_num) (by norm_num) (by norm_num)).2.2.2.2

/-! ## 3. composition logic of `TransformedModel`, the row of `pdf_like` -/

theorem tpdf_def {β α : Type} [Mul α] (base : β → α) (T : β → β) (J : β → α) (x : β) :
    tPdf base T J x = base (T x) * J x := rfl

theorem tsample_def {β : Type} (inv : β → β) (baseDraw : Nat → List β) (n : Nat) :
    tDraw (rowwise inv) baseDraw n = (baseDraw n).map inv := rfl

/-- generic form: `h` (the round trip on the drawn rows) is a hypothesis; discharged for the
shipped triple in `tsample_pushforward_predef`. -/
theorem tsample_pushforward {β : Type} (T inv : β → β) (baseDraw : Nat → List β) (n : Nat)
    (h : ∀ y ∈ baseDraw n, T (inv y) = y) :
    (tDraw (rowwise inv) baseDraw n).map T = baseDraw n ∧
      (tDraw (rowwise inv) baseDraw n).length = (baseDraw n).length := by
  simp only [tDraw, rowwise, List.map_map, List.length_map, and_true]
  calc (baseDraw n).map (T ∘ inv) = (baseDraw n).map id :=
        List.map_congr_left (fun y hy => by simpa using h y hy)
    _ = baseDraw n := List.map_id _

/-- `tsample_pushforward` with its hypothesis DISCHARGED for the shipped triple: on base samples in
the positive quadrant, `_transform` maps the samples of the TransformedModel back onto the base
samples (row by row, same number of rows). -/
theorem tsample_pushforward_predef (F : ℝ) (hF : 0 < F) (baseDraw : Nat → List (ℝ × ℝ)) (n : Nat)
    (hpos : ∀ y ∈ baseDraw n, 0 < y.1 ∧ 0 < y.2) :
    (tDraw (rowwise (predefInverse Real.sqrt F)) baseDraw n).map (predefTransform Real.sqrt F) =
      baseDraw n ∧
    (tDraw (rowwise (predefInverse Real.sqrt F)) baseDraw n).length = (baseDraw n).length :=
  tsample_pushforward (predefTransform Real.sqrt F) (predefInverse Real.sqrt F) baseDraw n
    (fun y hy => by
      obtain ⟨a, b⟩ := y
      exact predef_roundtrip_inv F a b hF (hpos _ hy).1 (hpos _ hy).2)

example : (tDraw (rowwise (predefInverse Real.sqrt (2 : ℝ))) (fun _ => [(3, 5), (1, 4)]) 2).map
    (predefTransform Real.sqrt 2) = [(3, 5), (1, 4)] :=
  (tsample_pushforward_predef 2 (by norm_num) (fun _ => [(3, 5), (1, 4)]) 2
    (by intro y hy; simp at hy; rcases hy with rfl | rfl <;> norm_num)).1

theorem xHatGo_after {α : Type} (dim : Nat) (x : α) :
    ∀ (k i : Nat) (g : List α), dim < i → g.length = k → xHatGo dim x k i g = some g
  | 0, _, g, _, hg => by
    have : g = [] := List.length_eq_zero_iff.mp hg
    simp [xHatGo, this]
  | k + 1, i, [], _, hg => by simp at hg
  | k + 1, i, v :: g, hi, hg => by
    have hne : i ≠ dim := by omega
    simp only [xHatGo, if_neg hne]
    rw [xHatGo_after dim x k (i + 1) g (by omega) (by simpa using hg)]
    rfl

theorem xHatGo_spec {α : Type} (dim : Nat) (x : α) :
    ∀ (k i : Nat) (g : List α), i ≤ dim → dim < i + k → g.length + 1 = k →
      xHatGo dim x k i g = some (g.take (dim - i) ++ x :: g.drop (dim - i))
  | 0, i, g, h1, h2, _ => by omega
  | k + 1, i, g, h1, h2, hg => by
    by_cases hi : i = dim
    · subst hi
      simp only [xHatGo]
      rw [xHatGo_after i x k (i + 1) g (by omega) (by omega)]
      simp
    · simp only [xHatGo, if_neg hi]
      cases g with
      | nil =>
        simp at hg
        omega
      | cons v g' =>
        simp only
        rw [xHatGo_spec dim x k (i + 1) g' (by omega) (by omega) (by simpa using hg)]
        have : dim - i = (dim - (i + 1)) + 1 := by omega
        rw [this]
        simp

theorem xhat_spec {α : Type} (nDim dim : Nat) (given : List α) (x : α)
    (hd : dim < nDim) (hg : given.length + 1 = nDim) :
    xHat nDim dim given x = some (given.take dim ++ x :: given.drop dim) := by
  have := xHatGo_spec dim x nDim 0 given (Nat.zero_le _) (by omega) hg
  simpa [xHat] using this

/-- push-forward form of the predefined model's density: base density at `(hs, F·hs/tz²)` times
`|∂s/∂tz|` -/
theorem tpdf_pushforward (base : ℝ × ℝ → ℝ) (F hs tz : ℝ) (hF : 0 < F) (hhs : 0 < hs) (htz : 0 < tz) :
    tPdf base (predefTransform Real.sqrt F) (predefJacobian (fun b => b ^ 3) F) (hs, tz) =
      base (hs, F * hs / (tz * tz)) * |-(2 * F * hs / tz ^ 3)| := by
  have h := (jacobian_hs_s F hs tz hF hhs htz).2.2.2.2
  rw [one_mul, zero_mul, sub_zero] at h
  rw [tpdf_def, h]
  rfl

example : xHat 3 1 [(7 : Nat), 9] 5 = some [7, 5, 9] := by decide
example : xHat 2 0 [(7 : Nat)] 5 = some [5, 7] := by decide
example : xHat 3 1 [(7 : Nat)] 5 = none := by decide

/-! ## 3b. reproducibility with `random_state` set (defect #16)

NOT a theorem about the code: `iformTPoint` is an abstract two-step picture of which stream each
Monte-Carlo step uses; it is run neither by the driver nor by the harness.  The clause "reproduced
exactly when random_state is set" is OBSERVED per run (two real runs with the same seed compared
bit for bit), not proven. -/

/-- (trivial: `rfl` for arbitrary `streamOf`/`marg`/`cond` — with `forwardMarg = true` and a seed the
entropy arguments are simply not used by the definition) -/
theorem iform_seeded_reproducible_trivial {S A B : Type} (streamOf : Nat → S) (marg : S → A) (cond : S → A → B)
    (seed e0 e1 e0' e1' : Nat) :
    iformTPoint streamOf marg cond (some seed) true e0 e1 =
      iformTPoint streamOf marg cond (some seed) true e0' e1' := rfl

/-- (witness in the abstract picture only) before the repair (`marginal_icdf` drew with
`random_state=None`): two runs with the same seed can differ — witness: the identity stream -/
theorem iform_unforwarded_model_witness :
    ∃ (streamOf : Nat → Nat) (marg : Nat → Nat) (cond : Nat → Nat → Nat) (seed e0 e0' e1 : Nat),
      iformTPoint streamOf marg cond (some seed) false e0 e1 ≠
        iformTPoint streamOf marg cond (some seed) false e0' e1 :=
  ⟨id, id, fun _ a => a, 42, 0, 1, 0, by decide⟩

/-! ## 4. the rejection sampler -/

section rej
variable {α : Type} [LT α] [DecidableLT α]

/-- accepted values of the first `k` batches, in stream order -/
def acceptedOf (pdf : α → α) (bs : List (List α × List α)) (k : Nat) : List α :=
  ((bs.take k).map fun b => acceptBatch pdf b.1 b.2).flatten

theorem acceptBatch_eq_filter (pdf : α → α) :
    ∀ xs ys : List α, acceptBatch pdf xs ys =
      ((xs.zip ys).filter fun p => decide (p.2 < pdf p.1)).map Prod.fst
  | [], _ => by simp [acceptBatch]
  | _ :: _, [] => by simp [acceptBatch]
  | x :: xs, y :: ys => by
    by_cases h : y < pdf x
    · simp [acceptBatch, h, acceptBatch_eq_filter pdf xs ys]
    · simp [acceptBatch, h, acceptBatch_eq_filter pdf xs ys]

/-- every accepted value was drawn together with a `y` below the density at it (one direction;
the equivalence is `accepted_mem_iff`) -/
theorem accepted_mem (pdf : α → α) (xs ys : List α) (x : α) (h : x ∈ acceptBatch pdf xs ys) :
    ∃ y, (x, y) ∈ xs.zip ys ∧ y < pdf x := by
  rw [acceptBatch_eq_filter] at h
  simp only [List.mem_map, List.mem_filter, decide_eq_true_eq] at h
  obtain ⟨⟨a, b⟩, ⟨hm, hlt⟩, rfl⟩ := h
  exact ⟨b, hm, hlt⟩

/-- both directions: a value is accepted iff it was drawn together with a `y` below the density
at it (`acceptBatch_eq_filter` is the list form: order and multiplicity) -/
theorem accepted_mem_iff (pdf : α → α) (xs ys : List α) (x : α) :
    x ∈ acceptBatch pdf xs ys ↔ ∃ y, (x, y) ∈ xs.zip ys ∧ y < pdf x := by
  constructor
  · exact accepted_mem pdf xs ys x
  · rintro ⟨y, hm, hlt⟩
    rw [acceptBatch_eq_filter]
    simp only [List.mem_map, List.mem_filter, decide_eq_true_eq]
    exact ⟨(x, y), ⟨hm, hlt⟩, rfl⟩

theorem mem_acceptedOf (pdf : α → α) (bs : List (List α × List α)) (k : Nat) (x : α)
    (h : x ∈ acceptedOf pdf bs k) : ∃ b ∈ bs, ∃ y, (x, y) ∈ b.1.zip b.2 ∧ y < pdf x := by
  simp only [acceptedOf, List.mem_flatten, List.mem_map] at h
  obtain ⟨l, ⟨b, hb, rfl⟩, hx⟩ := h
  obtain ⟨y, hy⟩ := accepted_mem pdf b.1 b.2 x hx
  exact ⟨b, List.mem_of_mem_take hb, y, hy⟩

theorem acceptedOf_zero (pdf : α → α) (bs) : acceptedOf pdf bs 0 = [] := by simp [acceptedOf]

theorem acceptedOf_cons_succ (pdf : α → α) (b) (bs) (k : Nat) :
    acceptedOf pdf (b :: bs) (k + 1) = acceptBatch pdf b.1 b.2 ++ acceptedOf pdf bs k := by
  simp [acceptedOf]

theorem rejLoop_spec (pdf : α → α) (n : Nat) :
    ∀ (left done : Nat) (acc : List α) (bs : List (List α × List α)) (acc' : List α) (done' : Nat)
      (broke : Bool),
      rejLoop pdf n left done acc bs = .ok (acc', done', broke) →
      ∃ k, done' = done + k ∧ k ≤ left ∧ k ≤ bs.length ∧ acc' = acc ++ acceptedOf pdf bs k ∧
        (broke = true → n ≤ acc'.length ∧ k < left) ∧ (broke = false → k = left) ∧
        (∀ j, j < k → (acc ++ acceptedOf pdf bs j).length < n) ∧
        (∀ j, j < k → ∃ b, bs[j]? = some b ∧
          b.1.length = tmpN n (acc ++ acceptedOf pdf bs j).length ∧ b.2.length = b.1.length)
  | 0, done, acc, bs, acc', done', broke, h => by
    simp only [rejLoop, Except.ok.injEq, Prod.mk.injEq] at h
    obtain ⟨rfl, rfl, rfl⟩ := h
    exact ⟨0, rfl, le_refl _, Nat.zero_le _, by simp [acceptedOf_zero], by simp, by simp,
      by simp, by simp⟩
  | left + 1, done, acc, bs, acc', done', broke, h => by
    unfold rejLoop at h
    by_cases hn : n ≤ acc.length
    · rw [if_pos hn] at h
      simp only [Except.ok.injEq, Prod.mk.injEq] at h
      obtain ⟨rfl, rfl, rfl⟩ := h
      exact ⟨0, rfl, Nat.zero_le _, Nat.zero_le _, by simp [acceptedOf_zero],
        by simp [hn], by simp, by simp, by simp⟩
    · rw [if_neg hn] at h
      cases bs with
      | nil => simp at h
      | cons b bs' =>
        obtain ⟨xs, ys⟩ := b
        simp only at h
        by_cases hsz : xs.length = tmpN n acc.length ∧ ys.length = xs.length
        · rw [if_pos hsz] at h
          obtain ⟨k, h1, h2, h3, h4, h5, h6, h7, h8⟩ :=
            rejLoop_spec pdf n left (done + 1) _ bs' acc' done' broke h
          refine ⟨k + 1, by omega, by omega, by simp; omega, ?_, ?_, ?_, ?_, ?_⟩
          · rw [h4, acceptedOf_cons_succ, List.append_assoc]
          · intro hb; have := h5 hb; exact ⟨this.1, by omega⟩
          · intro hb; have := h6 hb; omega
          · intro j hj
            cases j with
            | zero => simpa [acceptedOf_zero] using hn
            | succ j =>
              have := h7 j (by omega)
              rwa [acceptedOf_cons_succ, ← List.append_assoc]
          · intro j hj
            cases j with
            | zero => exact ⟨(xs, ys), by simp, by simpa [acceptedOf_zero] using hsz.1, hsz.2⟩
            | succ j =>
              obtain ⟨b, hb1, hb2, hb3⟩ := h8 j (by omega)
              refine ⟨b, by simpa using hb1, ?_, hb3⟩
              rw [acceptedOf_cons_succ, ← List.append_assoc]; exact hb2
        · rw [if_neg hsz] at h
          simp at h

/-- **`accepted_spec`** — the regular exit: the result is the first `n` accepted values of the
replayed stream, in stream order; exactly `n` of them; the loop stopped at the first iteration
count at which `n` values had been accepted; batch `j` had the size `max((n − accepted)·10, n)`. -/
theorem accepted_spec (pdf : α → α) (n maxIter : Nat) (bs : List (List α × List α)) (o : RejOut α)
    (h : rejSample pdf n maxIter bs = .ok o) (hw : o.maxIterWarning = false) :
    o.sample = (acceptedOf pdf bs o.iterations).take n ∧ o.sample.length = n ∧
      n ≤ (acceptedOf pdf bs o.iterations).length ∧
      (∀ j, j < o.iterations → (acceptedOf pdf bs j).length < n) ∧
      (∀ j, j < o.iterations → ∃ b, bs[j]? = some b ∧
          b.1.length = tmpN n (acceptedOf pdf bs j).length ∧ b.2.length = b.1.length) ∧
      o.iterations + 1 < maxIter := by
  unfold rejSample at h
  by_cases hm : maxIter = 0
  · simp [hm] at h
  rw [if_neg hm] at h
  by_cases hn0 : n = 0
  · simp [hn0] at h
  rw [if_neg hn0] at h
  cases hl : rejLoop pdf n maxIter 0 [] bs with
  | error e => simp [hl] at h
  | ok r =>
    obtain ⟨acc, done, broke⟩ := r
    obtain ⟨k, h1, h2, h3, h4, h5, h6, h7, h8⟩ := rejLoop_spec pdf n maxIter 0 [] bs acc done broke hl
    simp only [hl, List.nil_append, Nat.zero_add] at h h4 h7 h8 h1
    by_cases hi : (if broke = true then done else maxIter - 1) = maxIter - 1
    · rw [if_pos hi] at h
      by_cases he : acc.isEmpty = true
      · simp [he] at h
      · simp only [he, Bool.false_eq_true, if_false, Except.ok.injEq] at h
        subst h; simp at hw
    · rw [if_neg hi] at h
      simp only [Except.ok.injEq] at h
      subst h
      cases hb : broke with
      | false => simp [hb] at hi
      | true =>
        simp only [hb, if_true] at hi
        obtain ⟨h5a, h5b⟩ := h5 hb
        subst h1
        refine ⟨by simp [h4], by simp [h4] at h5a ⊢; omega, by simpa [h4] using h5a, h7, h8, ?_⟩
        show done + 1 < maxIter
        omega

/-- the `i == max_iter − 1` exit: ALL accepted values of the iterations that ran are returned
(fewer than `n` when the iterations ran out, possibly more than `n` when the loop was left
through `break` exactly at index `max_iter − 1`), and there is at least one. -/
theorem maxiter_branch_spec (pdf : α → α) (n maxIter : Nat) (bs : List (List α × List α))
    (o : RejOut α) (h : rejSample pdf n maxIter bs = .ok o) (hw : o.maxIterWarning = true) :
    o.sample = acceptedOf pdf bs o.iterations ∧ o.sample ≠ [] ∧
      ((o.iterations = maxIter ∧ ∀ j, j < maxIter → (acceptedOf pdf bs j).length < n) ∨
       (o.iterations + 1 = maxIter ∧ n ≤ o.sample.length)) := by
  unfold rejSample at h
  by_cases hm : maxIter = 0
  · simp [hm] at h
  rw [if_neg hm] at h
  by_cases hn0 : n = 0
  · simp [hn0] at h
  rw [if_neg hn0] at h
  cases hl : rejLoop pdf n maxIter 0 [] bs with
  | error e => simp [hl] at h
  | ok r =>
    obtain ⟨acc, done, broke⟩ := r
    obtain ⟨k, h1, h2, h3, h4, h5, h6, h7, h8⟩ := rejLoop_spec pdf n maxIter 0 [] bs acc done broke hl
    simp only [hl, List.nil_append, Nat.zero_add] at h h4 h7 h1
    by_cases hi : (if broke = true then done else maxIter - 1) = maxIter - 1
    · rw [if_pos hi] at h
      by_cases he : acc.isEmpty = true
      · simp [he] at h
      · simp only [he, Bool.false_eq_true, if_false, Except.ok.injEq] at h
        subst h
        subst h1
        refine ⟨h4, by simpa using he, ?_⟩
        cases hb : broke with
        | false =>
          left
          have hk := h6 hb
          exact ⟨hk, fun j hj => h7 j (by omega)⟩
        | true =>
          right
          simp only [hb, if_true] at hi
          have := h5 hb
          refine ⟨?_, this.1⟩
          show done + 1 = maxIter
          omega
    · rw [if_neg hi] at h
      simp only [Except.ok.injEq] at h
      subst h; simp at hw

end rej

section rej2
variable {α : Type} [LT α] [DecidableLT α]

theorem rejLoop_error_ne (pdf : α → α) (n : Nat) :
    ∀ (left done : Nat) (acc : List α) (bs : List (List α × List α)) (e : RejErr),
      rejLoop pdf n left done acc bs = .error e → e ≠ .couldNotSample
  | 0, _, _, _, e, h => by simp [rejLoop] at h
  | left + 1, done, acc, bs, e, h => by
    unfold rejLoop at h
    by_cases hn : n ≤ acc.length
    · rw [if_pos hn] at h; simp at h
    · rw [if_neg hn] at h
      cases bs with
      | nil => simp only [Except.error.injEq] at h; subst h; simp
      | cons b bs' =>
        obtain ⟨xs, ys⟩ := b
        simp only at h
        by_cases hsz : xs.length = tmpN n acc.length ∧ ys.length = xs.length
        · rw [if_pos hsz] at h; exact rejLoop_error_ne pdf n left _ _ _ e h
        · rw [if_neg hsz] at h; simp only [Except.error.injEq] at h; subst h; simp

/-- `CouldNotSampleError` is raised only when all `max_iter` batches were drawn and not a single
value was accepted -/
theorem could_not_sample_spec (pdf : α → α) (n maxIter : Nat) (bs : List (List α × List α))
    (h : rejSample pdf n maxIter bs = .error .couldNotSample) :
    0 < n ∧ 0 < maxIter ∧ maxIter ≤ bs.length ∧ acceptedOf pdf bs maxIter = [] := by
  unfold rejSample at h
  by_cases hm : maxIter = 0
  · simp [hm] at h
  rw [if_neg hm] at h
  by_cases hn0 : n = 0
  · simp [hn0] at h
  rw [if_neg hn0] at h
  cases hl : rejLoop pdf n maxIter 0 [] bs with
  | error e =>
    simp only [hl, Except.error.injEq] at h
    exact absurd h (rejLoop_error_ne pdf n maxIter 0 [] bs e hl)
  | ok r =>
    obtain ⟨acc, done, broke⟩ := r
    obtain ⟨k, h1, h2, h3, h4, h5, h6, h7, h8⟩ := rejLoop_spec pdf n maxIter 0 [] bs acc done broke hl
    simp only [hl, List.nil_append, Nat.zero_add] at h h4 h7 h1
    by_cases hi : (if broke = true then done else maxIter - 1) = maxIter - 1
    · rw [if_pos hi] at h
      by_cases he : acc.isEmpty = true
      · have hacc : acc = [] := by simpa using he
        cases hb : broke with
        | true =>
          have := (h5 hb).1
          rw [hacc] at this
          simp at this
          omega
        | false =>
          have hk := h6 hb
          subst hk
          exact ⟨by omega, by omega, h3, by rw [← h4, hacc]⟩
      · simp [he] at h
    · rw [if_neg hi] at h; simp at h

end rej2

/-- non-vacuity (natural numbers as carrier): density 5 everywhere, n = 1 ⇒ one batch of 10 draws,
the first `y < 5` decides -/
example : (rejSample (fun _ : Nat => 5) 1 100
    [([1, 2, 3, 4, 5, 6, 7, 8, 9, 10], [9, 7, 3, 1, 9, 9, 9, 9, 9, 2])]).toOption.map (·.sample) = some [3] := by
  decide
example : (match rejSample (fun _ : Nat => 0) 1 2
    [([1, 2, 3, 4, 5, 6, 7, 8, 9, 10], [9, 7, 3, 1, 9, 9, 9, 9, 9, 2]),
     ([1, 2, 3, 4, 5, 6, 7, 8, 9, 10], [9, 7, 3, 1, 9, 9, 9, 9, 9, 2])] with
    | .error .couldNotSample => true | _ => false) = true := by
  decide

/-- non-vacuity of `maxiter_branch_spec`, first disjunct (iterations ran out with fewer than `n`
accepted): n = 2, max_iter = 1, one batch of max(2·10, 2) = 20 draws of which one is accepted -/
example : (rejSample (fun _ : Nat => 5) 2 1
    [(List.range 20, 3 :: List.replicate 19 9)]).toOption.map
      (fun o => (o.sample, o.maxIterWarning, o.iterations)) = some ([0], true, 1) := by
  decide
/-- … second disjunct (`break` exactly at index `max_iter − 1`, all accepted values returned, more
than `n`): n = 1, max_iter = 2, first batch accepts two values -/
example : (rejSample (fun _ : Nat => 5) 1 2
    [([1, 2, 3, 4, 5, 6, 7, 8, 9, 10], [9, 7, 3, 1, 9, 9, 9, 9, 9, 9]),
     ([1, 2, 3, 4, 5, 6, 7, 8, 9, 10], [9, 9, 9, 9, 9, 9, 9, 9, 9, 9])]).toOption.map
      (fun o => (o.sample, o.maxIterWarning, o.iterations)) = some ([3, 4], true, 1) := by
  decide

/-! ## 5. the `x_max` search -/

section xmax
variable {α : Type} [Mul α] [LT α] [DecidableLT α]

omit [LT α] [DecidableLT α] in
theorem xmaxCand_shift (mult hi : α) : ∀ k, xmaxCand mult (mult * hi) k = xmaxCand mult hi (k + 1)
  | 0 => rfl
  | k + 1 => by simp only [xmaxCand]; rw [xmaxCand_shift mult hi k]; rfl

/-- **`xmax_search_spec`** — the result is the first candidate `mult^k·hi` whose density is not
below the threshold, all earlier candidates `c` having had `c·mult > lo`; or the floor `lo` with
the warning, when the density stayed below the threshold down to a candidate with `c·mult ≤ lo`. -/
theorem xmax_search_spec (pdf : α → α) (thr mult lo : α) :
    ∀ (fuel : Nat) (hi x : α) (w : Bool), xmaxSearch pdf thr mult lo fuel hi = some (x, w) →
      ∃ k, k < fuel ∧
        (∀ j, j < k → pdf (xmaxCand mult hi j) < thr ∧ lo < xmaxCand mult hi j * mult) ∧
        ((w = false ∧ x = xmaxCand mult hi k ∧ ¬ pdf x < thr) ∨
         (w = true ∧ x = lo ∧ pdf (xmaxCand mult hi k) < thr ∧ ¬ lo < xmaxCand mult hi k * mult))
  | 0, hi, x, w, h => by simp [xmaxSearch] at h
  | fuel + 1, hi, x, w, h => by
    unfold xmaxSearch at h
    by_cases hp : pdf hi < thr
    · rw [if_pos hp] at h
      by_cases hl : lo < hi * mult
      · rw [if_pos hl] at h
        obtain ⟨k, hk, hall, hres⟩ := xmax_search_spec pdf thr mult lo fuel (mult * hi) x w h
        refine ⟨k + 1, by omega, ?_, ?_⟩
        · intro j hj
          cases j with
          | zero => exact ⟨hp, hl⟩
          | succ j => have := hall j (by omega); rwa [xmaxCand_shift] at this
        · rwa [xmaxCand_shift] at hres
      · rw [if_neg hl] at h
        simp only [Option.some.injEq, Prod.mk.injEq] at h
        obtain ⟨rfl, rfl⟩ := h
        exact ⟨0, by omega, by simp, Or.inr ⟨rfl, rfl, hp, hl⟩⟩
    · rw [if_neg hp] at h
      simp only [Option.some.injEq, Prod.mk.injEq] at h
      obtain ⟨rfl, rfl⟩ := h
      exact ⟨0, by omega, by simp, Or.inl ⟨rfl, rfl, hp⟩⟩

/-- a density that is everywhere below the threshold sends the search to the floor -/
theorem xmax_below_threshold_floor (pdf : α → α) (thr mult lo : α) (hp : ∀ x, pdf x < thr) :
    ∀ (fuel : Nat) (hi : α), xmaxSearch pdf thr mult lo fuel hi = none ∨
      xmaxSearch pdf thr mult lo fuel hi = some (lo, true)
  | 0, _ => Or.inl rfl
  | fuel + 1, hi => by
    unfold xmaxSearch
    rw [if_pos (hp hi)]
    by_cases hl : lo < hi * mult
    · rw [if_pos hl]; exact xmax_below_threshold_floor pdf thr mult lo hp fuel (mult * hi)
    · rw [if_neg hl]; exact Or.inr rfl

end xmax

section field
variable {K : Type} [Field K] [LinearOrder K] [IsStrictOrderedRing K]

omit [IsStrictOrderedRing K] in
/-- termination: if `mult^(N+1)·x ≤ lo` then `N+1` loop tests suffice, whatever the density -/
theorem xmax_search_fuel (pdf : K → K) (thr mult lo : K) :
    ∀ (N : Nat) (x : K), mult ^ (N + 1) * x ≤ lo → xmaxSearch pdf thr mult lo (N + 1) x ≠ none
  | 0, x, h => by
    unfold xmaxSearch
    by_cases hp : pdf x < thr
    · rw [if_pos hp]
      have : ¬ lo < x * mult := by rw [pow_one, mul_comm] at h; exact not_lt.mpr h
      rw [if_neg this]; simp
    · rw [if_neg hp]; simp
  | N + 1, x, h => by
    unfold xmaxSearch
    by_cases hp : pdf x < thr
    · rw [if_pos hp]
      by_cases hl : lo < x * mult
      · rw [if_pos hl]
        exact xmax_search_fuel pdf thr mult lo N (mult * x) (by rw [← mul_assoc, ← pow_succ]; exact h)
      · rw [if_neg hl]; simp
    · rw [if_neg hp]; simp

omit [IsStrictOrderedRing K] in
theorem xmaxSearch_fuel_mono (pdf : K → K) (thr mult lo : K) :
    ∀ (f : Nat) (x : K) (r), xmaxSearch pdf thr mult lo f x = some r →
      xmaxSearch pdf thr mult lo (f + 1) x = some r
  | 0, x, r, h => by simp [xmaxSearch] at h
  | f + 1, x, r, h => by
    unfold xmaxSearch at h ⊢
    by_cases hp : pdf x < thr
    · rw [if_pos hp] at h ⊢
      by_cases hl : lo < x * mult
      · rw [if_pos hl] at h ⊢; exact xmaxSearch_fuel_mono pdf thr mult lo f _ r h
      · rw [if_neg hl] at h ⊢; exact h
    · rw [if_neg hp] at h ⊢; exact h

/-- **the shipped constants** (`x_max = 100`, factor `0.7`, floor `0.05`): the `while` loop makes
at most 22 tests, for every density; the driver's fuel of 64 is never exhausted. -/
theorem xmax_search_terminates (pdf : K → K) (thr : K) :
    xmaxSearch pdf thr (7 / 10) (1 / 20) 64 100 ≠ none := by
  have h22 : xmaxSearch pdf thr (7 / 10) (1 / 20) 22 100 ≠ none :=
    xmax_search_fuel pdf thr (7 / 10) (1 / 20) 21 100 (by norm_num)
  obtain ⟨r, hr⟩ := Option.ne_none_iff_exists'.mp h22
  have : ∀ d, xmaxSearch pdf thr (7 / 10) (1 / 20) (22 + d) 100 = some r := by
    intro d
    induction d with
    | zero => exact hr
    | succ d ih => exact xmaxSearch_fuel_mono pdf thr _ _ _ _ r ih
  rw [show (64 : Nat) = 22 + 42 from rfl, this 42]
  simp

end field

/-! ## 5b. `conditional_sample` as a whole: what the driver op `rej` executes (`condSample`) -/

section cond
variable {α : Type} [Mul α] [LT α] [DecidableLT α] [OfNat α 0]

/-- the density `conditional_sample` works with (`pdf_like`): the JOINT density on the row that has
`x` at position `dim` and the conditioning values elsewhere (`0` stands for the IndexError case,
which `condSample` has excluded before it evaluates anything) -/
def condPdf (pdfRow : List α → α) (nDim dim : Nat) (given : List α) : α → α :=
  fun x => match xHat nDim dim given x with
    | some row => pdfRow row
    | none => 0

omit [Mul α] [LT α] [DecidableLT α] in
theorem condPdf_eq (pdfRow : List α → α) (nDim dim : Nat) (given : List α)
    (hd : dim < nDim) (hg : given.length + 1 = nDim) (x : α) :
    condPdf pdfRow nDim dim given x = pdfRow (given.take dim ++ x :: given.drop dim) := by
  simp only [condPdf, xhat_spec nDim dim given x hd hg]

omit [Mul α] [OfNat α 0] in
/-- `np.max` of a non-empty list returns one of its entries (any `<`, also `Float`) -/
theorem listMax_mem : ∀ (l : List α) (m : α), listMax l = some m → m ∈ l := by
  intro l m h
  cases l with
  | nil => simp [listMax] at h
  | cons x xs =>
    simp only [listMax, Option.some.injEq] at h
    subst h
    suffices H : ∀ (ys : List α) (a : α),
        ys.foldl (fun m y => if m < y then y else m) a = a ∨
        ys.foldl (fun m y => if m < y then y else m) a ∈ ys by
      rcases H xs x with h | h
      · rw [h]; simp
      · exact List.mem_cons_of_mem _ h
    intro ys
    induction ys with
    | nil => intro a; left; rfl
    | cons y ys ih =>
      intro a
      rw [List.foldl_cons]
      by_cases hlt : a < y
      · rw [if_pos hlt]
        rcases ih y with h | h
        · right; rw [h]; simp
        · right; exact List.mem_cons_of_mem _ h
      · rw [if_neg hlt]
        rcases ih a with h | h
        · left; exact h
        · right; exact List.mem_cons_of_mem _ h

/-- **`condSample_spec`** — a successful `conditional_sample` is the composition of the four
pieces the theorems above are about, on ONE density (`condPdf`): the `x_max` search from
`c.hi` (→ `xmax_search_spec`), the envelope `f_max = max(pdf(linspace(x_min, x_max, gridN))) ·
slack` (the maximum is attained on the grid), and the rejection loop on the batches drawn for
that `x_max`/`f_max` (→ `accepted_spec`, `maxiter_branch_spec`). -/
theorem condSample_spec (pdfRow : List α → α) (linspace : α → α → Nat → List α) (c : RejConst α)
    (nDim dim : Nat) (given : List α) (n maxIter : Nat) (draws : α → α → List (List α × List α))
    (co : CondOut α)
    (h : condSample pdfRow linspace c nDim dim given n maxIter draws = .ok co) :
    (xHat nDim dim given c.hi).isSome = true ∧
    xmaxSearch (condPdf pdfRow nDim dim given) c.thr c.mult c.lo 64 c.hi =
      some (co.xMax, co.xMaxWarning) ∧
    (∃ m, listMax ((linspace c.xMin co.xMax c.gridN).map (condPdf pdfRow nDim dim given)) = some m ∧
      m ∈ (linspace c.xMin co.xMax c.gridN).map (condPdf pdfRow nDim dim given) ∧
      co.fMax = m * c.slack) ∧
    rejSample (condPdf pdfRow nDim dim given) n maxIter (draws co.xMax co.fMax) = .ok co.out := by
  unfold condSample at h
  cases hx : xHat nDim dim given c.hi with
  | none => rw [hx] at h; cases h
  | some r0 =>
    rw [hx] at h
    dsimp only at h
    replace h : (match xmaxSearch (condPdf pdfRow nDim dim given) c.thr c.mult c.lo 64 c.hi with
      | none => Except.error RejErr.xmaxFuel
      | some (xMax, w) =>
        match listMax ((linspace c.xMin xMax c.gridN).map (condPdf pdfRow nDim dim given)) with
        | none => Except.error RejErr.emptyGrid
        | some m =>
          match rejSample (condPdf pdfRow nDim dim given) n maxIter (draws xMax (m * c.slack)) with
          | Except.error e => Except.error e
          | Except.ok o =>
            Except.ok ({ xMax := xMax, xMaxWarning := w, fMax := m * c.slack, out := o } : CondOut α))
        = Except.ok co := h
    cases hs : xmaxSearch (condPdf pdfRow nDim dim given) c.thr c.mult c.lo 64 c.hi with
    | none => rw [hs] at h; cases h
    | some r =>
      obtain ⟨xMax, w⟩ := r
      rw [hs] at h
      dsimp only at h
      cases hm : listMax ((linspace c.xMin xMax c.gridN).map (condPdf pdfRow nDim dim given)) with
      | none => rw [hm] at h; cases h
      | some m =>
        rw [hm] at h
        dsimp only at h
        cases hr : rejSample (condPdf pdfRow nDim dim given) n maxIter (draws xMax (m * c.slack)) with
        | error e => rw [hr] at h; cases h
        | ok o =>
          rw [hr] at h
          simp only [Except.ok.injEq] at h
          subst h
          exact ⟨rfl, rfl, ⟨m, hm, listMax_mem _ _ hm, rfl⟩, hr⟩

/-- **regular exit of `conditional_sample`, composed**: exactly `n` values, namely the first `n`
accepted values of the replayed stream in stream order, and every returned value `x` was drawn
together with a `y` below the JOINT density at the row `(given…, x at dim, …given)`. -/
theorem condSample_accepted_spec (pdfRow : List α → α) (linspace : α → α → Nat → List α)
    (c : RejConst α) (nDim dim : Nat) (given : List α) (n maxIter : Nat)
    (draws : α → α → List (List α × List α)) (co : CondOut α)
    (hd : dim < nDim) (hg : given.length + 1 = nDim)
    (h : condSample pdfRow linspace c nDim dim given n maxIter draws = .ok co)
    (hw : co.out.maxIterWarning = false) :
    co.out.sample = (acceptedOf (condPdf pdfRow nDim dim given) (draws co.xMax co.fMax)
      co.out.iterations).take n ∧
    co.out.sample.length = n ∧
    ∀ x ∈ co.out.sample, ∃ b ∈ draws co.xMax co.fMax, ∃ y, (x, y) ∈ b.1.zip b.2 ∧
      y < pdfRow (given.take dim ++ x :: given.drop dim) := by
  obtain ⟨_, _, _, hr⟩ := condSample_spec pdfRow linspace c nDim dim given n maxIter draws co h
  obtain ⟨h1, h2, _⟩ := accepted_spec _ n maxIter _ co.out hr hw
  refine ⟨h1, h2, ?_⟩
  intro x hx
  rw [h1] at hx
  obtain ⟨b, hb, y, hy, hlt⟩ := mem_acceptedOf _ _ _ x (List.mem_of_mem_take hx)
  exact ⟨b, hb, y, hy, by rw [← condPdf_eq pdfRow nDim dim given hd hg]; exact hlt⟩

/-- **`max_iter` exit of `conditional_sample`, composed** -/
theorem condSample_maxiter_spec (pdfRow : List α → α) (linspace : α → α → Nat → List α)
    (c : RejConst α) (nDim dim : Nat) (given : List α) (n maxIter : Nat)
    (draws : α → α → List (List α × List α)) (co : CondOut α)
    (h : condSample pdfRow linspace c nDim dim given n maxIter draws = .ok co)
    (hw : co.out.maxIterWarning = true) :
    co.out.sample = acceptedOf (condPdf pdfRow nDim dim given) (draws co.xMax co.fMax)
      co.out.iterations ∧ co.out.sample ≠ [] :=
  let hr := (condSample_spec pdfRow linspace c nDim dim given n maxIter draws co h).2.2.2
  let hs := maxiter_branch_spec _ n maxIter _ co.out hr hw
  ⟨hs.1, hs.2.1⟩

/-- **`CouldNotSampleError` of `conditional_sample`, composed**: it comes from the rejection loop
only — `x_max` and `f_max` were found, all `max_iter` batches were drawn and not a single `y` lay
below the joint density at its row. -/
theorem condSample_could_not_sample (pdfRow : List α → α) (linspace : α → α → Nat → List α)
    (c : RejConst α) (nDim dim : Nat) (given : List α) (n maxIter : Nat)
    (draws : α → α → List (List α × List α))
    (h : condSample pdfRow linspace c nDim dim given n maxIter draws = .error .couldNotSample) :
    ∃ xMax w m, xmaxSearch (condPdf pdfRow nDim dim given) c.thr c.mult c.lo 64 c.hi = some (xMax, w) ∧
      listMax ((linspace c.xMin xMax c.gridN).map (condPdf pdfRow nDim dim given)) = some m ∧
      0 < n ∧ 0 < maxIter ∧ maxIter ≤ (draws xMax (m * c.slack)).length ∧
      acceptedOf (condPdf pdfRow nDim dim given) (draws xMax (m * c.slack)) maxIter = [] := by
  unfold condSample at h
  cases hx : xHat nDim dim given c.hi with
  | none => rw [hx] at h; simp at h
  | some r0 =>
    rw [hx] at h
    dsimp only at h
    replace h : (match xmaxSearch (condPdf pdfRow nDim dim given) c.thr c.mult c.lo 64 c.hi with
      | none => Except.error RejErr.xmaxFuel
      | some (xMax, w) =>
        match listMax ((linspace c.xMin xMax c.gridN).map (condPdf pdfRow nDim dim given)) with
        | none => Except.error RejErr.emptyGrid
        | some m =>
          match rejSample (condPdf pdfRow nDim dim given) n maxIter (draws xMax (m * c.slack)) with
          | Except.error e => Except.error e
          | Except.ok o =>
            Except.ok ({ xMax := xMax, xMaxWarning := w, fMax := m * c.slack, out := o } : CondOut α))
        = Except.error RejErr.couldNotSample := h
    cases hs : xmaxSearch (condPdf pdfRow nDim dim given) c.thr c.mult c.lo 64 c.hi with
    | none => rw [hs] at h; simp at h
    | some r =>
      obtain ⟨xMax, w⟩ := r
      rw [hs] at h
      dsimp only at h
      cases hm : listMax ((linspace c.xMin xMax c.gridN).map (condPdf pdfRow nDim dim given)) with
      | none => rw [hm] at h; simp at h
      | some m =>
        rw [hm] at h
        dsimp only at h
        cases hr : rejSample (condPdf pdfRow nDim dim given) n maxIter (draws xMax (m * c.slack)) with
        | ok o => rw [hr] at h; simp at h
        | error e =>
          rw [hr] at h
          simp only [Except.error.injEq] at h
          subst h
          exact ⟨xMax, w, m, rfl, hm, could_not_sample_spec _ n maxIter _ hr⟩

end cond

section condfield
variable {K : Type} [Field K] [LinearOrder K] [IsStrictOrderedRing K]

omit [Field K] [IsStrictOrderedRing K] in
theorem listMax_ge (l : List K) (m : K) (h : listMax l = some m) : ∀ v ∈ l, v ≤ m := by
  cases l with
  | nil => simp [listMax] at h
  | cons x xs =>
    simp only [listMax, Option.some.injEq] at h
    subst h
    suffices H : ∀ (ys : List K) (a : K),
        a ≤ ys.foldl (fun m y => if m < y then y else m) a ∧
        ∀ v ∈ ys, v ≤ ys.foldl (fun m y => if m < y then y else m) a by
      intro v hv
      rcases List.mem_cons.mp hv with rfl | hv
      · exact (H xs v).1
      · exact (H xs x).2 v hv
    intro ys
    induction ys with
    | nil => intro a; exact ⟨le_refl _, fun v hv => by cases hv⟩
    | cons y ys ih =>
      intro a
      rw [List.foldl_cons]
      by_cases hlt : a < y
      · rw [if_pos hlt]
        obtain ⟨h1, h2⟩ := ih y
        refine ⟨le_trans hlt.le h1, ?_⟩
        intro v hv
        rcases List.mem_cons.mp hv with rfl | hv
        · exact h1
        · exact h2 v hv
      · rw [if_neg hlt]
        obtain ⟨h1, h2⟩ := ih a
        refine ⟨h1, ?_⟩
        intro v hv
        rcases List.mem_cons.mp hv with rfl | hv
        · exact le_trans (not_lt.mp hlt) h1
        · exact h2 v hv

/-- **the envelope** (ordered field; at `Float` the same holds without NaNs): `f_max` is
`slack` times the largest density value ON THE GRID `linspace(x_min, x_max, gridN)`; with
`slack ≥ 1` and a non-negative density it dominates every grid value.  (It does NOT bound the
density between grid points: a density with a peak narrower than the grid spacing is
under-covered — not a theorem, not observed on the shipped models.) -/
theorem condSample_envelope (pdfRow : List K → K) (linspace : K → K → Nat → List K)
    (c : RejConst K) (nDim dim : Nat) (given : List K) (n maxIter : Nat)
    (draws : K → K → List (List K × List K)) (co : CondOut K)
    (h : condSample pdfRow linspace c nDim dim given n maxIter draws = .ok co)
    (hslack : 1 ≤ c.slack) (hnn : ∀ x, 0 ≤ condPdf pdfRow nDim dim given x) :
    ∀ x ∈ linspace c.xMin co.xMax c.gridN, condPdf pdfRow nDim dim given x ≤ co.fMax := by
  obtain ⟨_, _, ⟨m, hm, hmem, hf⟩, _⟩ :=
    condSample_spec pdfRow linspace c nDim dim given n maxIter draws co h
  intro x hx
  have h1 : condPdf pdfRow nDim dim given x ≤ m :=
    listMax_ge _ m hm _ (List.mem_map.mpr ⟨x, hx, rfl⟩)
  have hm0 : 0 ≤ m := le_trans (hnn x) h1
  rw [hf]
  calc condPdf pdfRow nDim dim given x ≤ m := h1
    _ = m * 1 := (mul_one m).symm
    _ ≤ m * c.slack := mul_le_mul_of_nonneg_left hslack hm0
end condfield

/-- non-vacuity of `condSample_spec` / `condSample_accepted_spec` (natural numbers as carrier):
2-D, `dim = 1`, given `[7]`, density `5` on every row, grid = the two end points, one batch -/
example : (condSample (fun _ : List Nat => 5) (fun a b _ => [a, b])
    ⟨1, 100, 1, 3, 1, 2, 2⟩ 2 1 [7] 1 100
    (fun _ _ => [([1, 2, 3, 4, 5, 6, 7, 8, 9, 10], [9, 7, 3, 1, 9, 9, 9, 9, 9, 2])])).toOption.map
      (fun co => (co.xMax, co.xMaxWarning, co.fMax, co.out.sample)) = some (100, false, 10, [3]) := by
  decide

/-- witness: triangular density on `[0, 20]` with mode 10 (integral 1, maximum 1/10) -/
def tri (x : ℚ) : ℚ :=
  if x ≤ 0 then 0 else if x ≤ 10 then x / 100 else if x ≤ 20 then (20 - x) / 100 else 0

theorem tri_le_max (x : ℚ) : tri x ≤ 1 / 10 := by
  unfold tri; split_ifs <;> linarith

theorem tri_nonneg (x : ℚ) : 0 ≤ tri x := by
  unfold tri; split_ifs <;> linarith

theorem tri_mode : tri 10 = 1 / 10 := by unfold tri; norm_num

theorem tri_unimodal :
    (∀ x y : ℚ, x ≤ y → y ≤ 10 → tri x ≤ tri y) ∧ (∀ x y : ℚ, 10 ≤ x → x ≤ y → tri y ≤ tri x) := by
  constructor
  · intro x y hxy hy; unfold tri; split_ifs <;> linarith
  · intro x y hx hxy; unfold tri; split_ifs <;> linarith

theorem xmaxSearch_step {α : Type} [Mul α] [LT α] [DecidableLT α] (pdf : α → α) (thr mult lo x : α)
    (f : Nat) (h1 : pdf x < thr) (h2 : lo < x * mult) :
    xmaxSearch pdf thr mult lo (f + 1) x = xmaxSearch pdf thr mult lo f (mult * x) := by
  rw [xmaxSearch, if_pos h1, if_pos h2]

theorem xmaxSearch_stop {α : Type} [Mul α] [LT α] [DecidableLT α] (pdf : α → α) (thr mult lo x : α)
    (f : Nat) (h1 : ¬ pdf x < thr) :
    xmaxSearch pdf thr mult lo (f + 1) x = some (x, false) := by
  rw [xmaxSearch, if_neg h1]

theorem tri_search_bulk :
    xmaxSearch tri (1 / 10 ^ 7) (7 / 10) (1 / 20) 64 100 = some (16807 / 1000, false) := by
  rw [show (64 : Nat) = 58 + 1 + 1 + 1 + 1 + 1 + 1 from rfl]
  rw [xmaxSearch_step _ _ _ _ _ _ (by norm_num [tri]) (by norm_num)]
  rw [xmaxSearch_step _ _ _ _ _ _ (by norm_num [tri]) (by norm_num)]
  rw [xmaxSearch_step _ _ _ _ _ _ (by norm_num [tri]) (by norm_num)]
  rw [xmaxSearch_step _ _ _ _ _ _ (by norm_num [tri]) (by norm_num)]
  rw [xmaxSearch_step _ _ _ _ _ _ (by norm_num [tri]) (by norm_num)]
  rw [xmaxSearch_stop _ _ _ _ _ _ (by norm_num [tri])]
  norm_num

/-- **`xmax_truncates`** — the search looks at the JOINT density `m·g(x)` (`m` = density of the
conditioning value, `g` = the conditional density, which does not depend on `m`) and compares it
with the absolute threshold 1e-7.  For the unimodal conditional density `tri` (mode 10):
in the bulk (`m = 1`) the returned `x_max = 16.807` lies above the mode; for every marginal factor
`m` with `m·max g < 1e-7` (a conditioning value far in the tail) the search ends at the floor
`0.05` — below the mode, so that the sampler only ever sees `[1e-16, 0.05]`, a region that carries
`tri`-mass 1.25e-5.  The conditional distribution is the same in both cases. -/
theorem xmax_truncates :
    ∃ (g : ℚ → ℚ) (mode : ℚ),
      (∀ x y, x ≤ y → y ≤ mode → g x ≤ g y) ∧ (∀ x y, mode ≤ x → x ≤ y → g y ≤ g x) ∧
      0 < g mode ∧
      (∃ x, xmaxSearch g (1 / 10 ^ 7) (7 / 10) (1 / 20) 64 100 = some (x, false) ∧ mode ≤ x) ∧
      (∀ m : ℚ, 0 < m → m * g mode < 1 / 10 ^ 7 →
        xmaxSearch (fun x => m * g x) (1 / 10 ^ 7) (7 / 10) (1 / 20) 64 100 = some (1 / 20, true) ∧
          (1 : ℚ) / 20 < mode) := by
  refine ⟨tri, 10, tri_unimodal.1, tri_unimodal.2, by rw [tri_mode]; norm_num,
    ⟨16807 / 1000, tri_search_bulk, by norm_num⟩, ?_⟩
  intro m hm hlt
  refine ⟨?_, by norm_num⟩
  have hall : ∀ x, (fun x => m * tri x) x < 1 / 10 ^ 7 := by
    intro x
    have h1 : m * tri x ≤ m * tri 10 := by
      rw [tri_mode]; exact mul_le_mul_of_nonneg_left (tri_le_max x) hm.le
    exact lt_of_le_of_lt h1 hlt
  rcases xmax_below_threshold_floor (fun x => m * tri x) (1 / 10 ^ 7) (7 / 10) (1 / 20) hall 64 100 with h | h
  · exact absurd h (xmax_search_terminates _ _)
  · exact h

/-- **between two candidates** — the search stops at the FIRST candidate with density ≥ threshold,
i.e. inside the region where the density is above the threshold: for `tri` it returns `16.807`,
although the density is above the threshold on all of `(16.807, 19]` (at 18 it is `2·10⁵` times
the threshold); the `tri`-mass above `16.807` is `3.193²/200 ≈ 5 %`.  (Second known finding; seen on
the real code for a random Hs–S model at the 0.9 quantile of Hs.) -/
theorem xmax_cuts_between_candidates :
    xmaxSearch tri (1 / 10 ^ 7) (7 / 10) (1 / 20) 64 100 = some (16807 / 1000, false) ∧
      (∀ y : ℚ, 16807 / 1000 < y → y ≤ 19 → ¬ tri y < 1 / 10 ^ 7) ∧
      tri 18 = 200000 * (1 / 10 ^ 7) := by
  refine ⟨tri_search_bulk, ?_, by norm_num [tri]⟩
  intro y h1 h2
  have h10 : ¬ y ≤ 10 := by linarith
  have h0 : ¬ y ≤ 0 := by linarith
  have h20 : y ≤ 20 := by linarith
  simp only [tri, if_neg h0, if_neg h10, if_pos h20, not_lt]
  have : (1 : ℚ) / 100 ≤ (20 - y) / 100 := by linarith
  calc (1 : ℚ) / 10 ^ 7 ≤ 1 / 100 := by norm_num
    _ ≤ (20 - y) / 100 := this

/-- non-vacuity of the tail case: `m = 1e-7` (then `m·max g = 1e-8 < 1e-7`) -/
example : (0 : ℚ) < 1 / 10 ^ 7 ∧ (1 / 10 ^ 7 : ℚ) * tri 10 < 1 / 10 ^ 7 := by
  rw [tri_mode]; norm_num

/-! ## Monte-Carlo sample sizes (`precision_factor`), Model/McSize.lean over ℚ with `int` = `Nat.floor` -/

section mcsize
open VirVerif.McSize

/-- `Nat.floor` as the `int()` of the code (non-negative arguments) -/
def qFloor (x : ℚ) : Nat := ⌊x⌋₊

theorem marginalN_ge_floor (pSmall pf : ℚ) : 100000 ≤ marginalN qFloor pSmall pf := by
  unfold marginalN; exact Nat.le_max_right _ _

/-- the documented rule "on average precision_factor * 100 realizations exceed the quantile": the expected
number of sample points beyond the p_small-quantile, `p_small * n`, exceeds `100 * pf - p_small`, for EVERY
`p_small > 0` and every precision factor (the floor of 100000 only adds points) -/
theorem marginalN_exceedances (pSmall pf : ℚ) (hp : 0 < pSmall) :
    100 * pf - pSmall < pSmall * (marginalN qFloor pSmall pf : ℚ) := by
  have h1 : rawN pSmall pf - 1 < (qFloor (rawN pSmall pf) : ℚ) := Nat.sub_one_lt_floor _
  have h2 : (qFloor (rawN pSmall pf) : ℚ) ≤ (marginalN qFloor pSmall pf : ℚ) := by
    unfold marginalN; exact_mod_cast Nat.le_max_left _ _
  have h3 : pSmall * (rawN pSmall pf - 1) = 100 * pf - pSmall := by
    unfold rawN; field_simp
  have h4 : pSmall * (rawN pSmall pf - 1) < pSmall * (marginalN qFloor pSmall pf : ℚ) :=
    mul_lt_mul_of_pos_left (lt_of_lt_of_le h1 h2) hp
  linarith

/-- above the floor the sample size IS the formula (so it depends on `precision_factor`) -/
theorem marginalN_eq_formula (pSmall pf : ℚ) (h : 100000 ≤ qFloor (rawN pSmall pf)) :
    marginalN qFloor pSmall pf = qFloor (rawN pSmall pf) := by
  unfold marginalN; exact Nat.max_eq_left h

theorem marginalN_mono_pf (pSmall pf pf' : ℚ) (hp : 0 < pSmall) (h : pf ≤ pf') :
    marginalN qFloor pSmall pf ≤ marginalN qFloor pSmall pf' := by
  unfold marginalN
  have : rawN pSmall pf ≤ rawN pSmall pf' := by
    unfold rawN
    have : 0 ≤ 1 / pSmall := by positivity
    nlinarith
  exact max_le_max (Nat.floor_mono this) le_rfl

theorem pSmallMarginal_le (pMin pMax : ℚ) :
    pSmallMarginal pMin pMax ≤ pMin ∧ pSmallMarginal pMin pMax ≤ 1 - pMax := by
  unfold pSmallMarginal
  split
  · constructor <;> linarith
  · constructor <;> linarith

theorem pSmallCond_le_half (p : ℚ) : pSmallCond (1 / 2) p ≤ 1 / 2 := by
  unfold pSmallCond; split <;> linarith

theorem pSmallCond_pos (p : ℚ) (h0 : 0 < p) (h1 : p < 1) : 0 < pSmallCond (1 / 2) p := by
  unfold pSmallCond; split <;> linarith

theorem clampN_bounds (x : ℚ) : 100000 ≤ clampN x ∧ clampN x ≤ 10000000 := by
  unfold clampN lowC
  constructor
  · split_ifs <;> linarith
  · split_ifs <;> linarith

theorem clampN_eq (x : ℚ) (h1 : 100000 ≤ x) (h2 : x ≤ 10000000) : clampN x = x := by
  unfold clampN lowC
  rw [if_neg (not_lt.mpr h1), if_neg (not_lt.mpr h2)]

theorem condN_bounds (p pf : ℚ) :
    100000 ≤ condN qFloor (1 / 2) p pf ∧ condN qFloor (1 / 2) p pf ≤ 10000000 := by
  unfold condN qFloor
  obtain ⟨h1, h2⟩ := clampN_bounds (rawN (pSmallCond (1 / 2) p) pf)
  constructor
  · exact Nat.le_floor (by exact_mod_cast h1)
  · exact Nat.floor_le_of_le (by exact_mod_cast h2)

/-- between floor and cap the conditional sample size is the formula -/
theorem condN_eq_formula (p pf : ℚ) (h1 : 100000 ≤ rawN (pSmallCond (1 / 2) p) pf)
    (h2 : rawN (pSmallCond (1 / 2) p) pf ≤ 10000000) :
    condN qFloor (1 / 2) p pf = qFloor (rawN (pSmallCond (1 / 2) p) pf) := by
  unfold condN; rw [clampN_eq _ h1 h2]

/-- as long as the cap of 10^7 is not hit, at least `100 * pf - p_small` points are expected beyond the
quantile on its shorter side; when the cap is hit (p_small < 10^-5 * pf) this is NOT the case -/
theorem condN_exceedances (p pf : ℚ) (h0 : 0 < p) (h1 : p < 1)
    (hcap : rawN (pSmallCond (1 / 2) p) pf ≤ 10000000) :
    100 * pf - pSmallCond (1 / 2) p < pSmallCond (1 / 2) p * (condN qFloor (1 / 2) p pf : ℚ) := by
  have hp := pSmallCond_pos p h0 h1
  set q := pSmallCond (1 / 2) p with hq
  have hx : rawN q pf ≤ clampN (rawN q pf) := by
    unfold clampN lowC
    split_ifs <;> linarith
  have hf : clampN (rawN q pf) - 1 < (condN qFloor (1 / 2) p pf : ℚ) := by
    unfold condN qFloor; rw [← hq]; exact Nat.sub_one_lt_floor _
  have h3 : q * (rawN q pf - 1) = 100 * pf - q := by
    unfold rawN; field_simp
  have h4 : q * (rawN q pf - 1) < q * (condN qFloor (1 / 2) p pf : ℚ) :=
    mul_lt_mul_of_pos_left (by linarith) hp
  linarith

theorem condN_mono_pf (p pf pf' : ℚ) (h0 : 0 < p) (h1 : p < 1) (h : pf ≤ pf') :
    condN qFloor (1 / 2) p pf ≤ condN qFloor (1 / 2) p pf' := by
  have hp := pSmallCond_pos p h0 h1
  unfold condN qFloor
  apply Nat.floor_mono
  have hr : rawN (pSmallCond (1 / 2) p) pf ≤ rawN (pSmallCond (1 / 2) p) pf' := by
    unfold rawN
    have : 0 ≤ 1 / pSmallCond (1 / 2) p := by positivity
    nlinarith
  unfold clampN lowC
  split_ifs <;> linarith

/-- non-vacuity / the formula is not the constant floor: p_small = 10^-6 needs 10^8 points at precision factor 1,
10^7 at 0.1 (marginal, no cap); the conditional rule caps the first at 10^7; in the bulk both sit on the floor -/
example : marginalN qFloor (1 / 1000000) 1 = 100000000 ∧ marginalN qFloor (1 / 1000000) (1 / 10) = 10000000 ∧
    marginalN qFloor (1 / 4) 1 = 100000 := by
  refine ⟨?_, ?_, ?_⟩ <;> · unfold marginalN rawN qFloor; norm_num

example :
    condN qFloor (1 / 2) (1 - 1 / 1000000) 1 = 10000000 ∧ condN qFloor (1 / 2) (1 / 100000) (1 / 2) = 5000000 ∧
    condN qFloor (1 / 2) (9 / 10) 1 = 100000 := by
  refine ⟨?_, ?_, ?_⟩ <;> · unfold condN clampN lowC rawN pSmallCond qFloor; norm_num

end mcsize

end VirVerif.C16
