/-
C06 — Joint density factorises hierarchically; cdf and marginals are its integrals.

  "For every hierarchical model the joint pdf at a point equals the product of each variable's
   marginal or conditional density evaluated with the value of its declared conditioning
   variable, is non-negative and integrates to one; the joint cdf equals the integral of that
   pdf over the lower-left orthant. marginal_pdf, marginal_cdf and marginal_icdf of any variable
   (conditional or not) agree with each other and with the joint density
   (marginal_cdf(marginal_icdf(p)) = p within Monte-Carlo/quadrature error)."

Clause → theorem
  pdf = product of (conditional) densities at the declared conditioning value   jointPdf_eq_prod
  non-negative                                                                  jointPdf_nonneg
  integrates to one (finite supports), for `jointPdfRow` = what the driver runs    jointPdf_sums_to_one, jointPdfRow_snoc
      the same for the abstract product of prefix-dependent kernels `totalMass`     mass_one_discrete
      (a definition of this file: a MATHEMATICAL OBJECT ONLY, not run by the driver)
  nquad's j-th argument lands in the model position it is meant for               reorder_places_label,
      (cdf, marginal_pdf, marginal_cdf orders)                                    marginalOrder_perm, identity_order
  marginal_cdf integrates the requested variable over (0, x), the others (0, ∞)  marginal_cdf_range_placement,
                                                                                 marginal_cdf_other_ranges_full
  cdf integrates variable i over (0, x_i); marginal_pdf every other one (0, ∞)    cdf_range_placement,
      (the three range lists are run by the driver op `ranges` and compared with    marginal_pdf_ranges_full
       the ranges the real code hands to nquad)
  integrates to one (real densities on (0,∞)): a hierarchical product of kernels   mass_one_iterated
      that each integrate to one has iterated integral one. This is a statement about `totalMassR` (a definition in
      this file: the iterated Lebesgue integral of a product of kernels), NOT about a model that the driver runs:
      no driver op ties it to the code. The code-side fact is observed only (quadrature of pdf ≈ 1, per run).
  "cdf = integral of the pdf over the lower-left orthant": the code's cdf IS the iterated integral
      ∫₀^a ∫₀^b pdf (that is what it hands to nquad: placement theorems above + the nquad contract, an assumption).
      What is proven about that iterated integral, for 2-D, real-valued factors:
        it equals the integral of the product density over the box (0,a]×(0,b]     cdf_iterated_eq_orthant_integral
            (Fubini, for a density integrable on the box)
        structure only (`integral_const_mul`, no more): the marginal factor can be   cdf_iterated_factor_trivial,
            pulled out of the inner integral, i.e. ∫ f₀(t) · (conditional cdf mass)    marginal_cdf_iterated_factor_trivial
        the integrand f₀(t)·f₁(t,s) of these 2-D statements IS the executed model's   jointPdf_two_dim,
            joint density `jointPdfRow c f 1 [t, s]` (c 0 = none, c 1 = some 0)        cdf_iterated_eq_orthant_integral_model,
                                                                                     marginal_cdf_eq_integral_marginal_pdf_model,
                                                                                     cdf_iterated_nonneg_model
        it is non-negative                                                           cdf_iterated_nonneg
      The clause stays PARTIAL: nquad's numerical value is runtime behaviour (value oracles against closed-form /
      independent quadrature references in the harness), and the n-dimensional case is not stated in Lean.
  marginal_cdf = ∫ marginal_pdf (integration orders of the two methods commute)   marginal_cdf_eq_integral_marginal_pdf
  "marginals agree within quadrature / MC error"                                  PARTIAL: nquad's numerical error and
      Monte-Carlo error are runtime behaviour; validated by the harness (values of marginal_pdf / marginal_cdf / cdf
      against independent references, quadrature of pdf ≈ 1; Bernstein/DKW band for marginal_icdf)
-/
import VirVerif.Lemmas.Hier
import VirVerif.Model.Joint
import Mathlib.Algebra.Order.Field.Basic
import Mathlib.Algebra.BigOperators.Group.List.Basic
import Mathlib.Algebra.Order.BigOperators.GroupWithZero.List
import Mathlib.Data.List.Basic
import Mathlib.Data.List.Nodup
import Mathlib.Data.List.Perm.Basic
import Mathlib.Tactic.Linarith
import Mathlib.MeasureTheory.Integral.Prod
import Mathlib.MeasureTheory.Integral.IntervalIntegral.Basic
import Mathlib.Analysis.SpecialFunctions.ImproperIntegrals

namespace VirVerif.C06
open VirVerif

section product
variable {α : Type} [Field α] [LinearOrder α] [IsStrictOrderedRing α]

omit [LinearOrder α] [IsStrictOrderedRing α] in
theorem foldl_mul_eq_prod (x : α) (xs : List α) : xs.foldl (· * ·) x = x * xs.prod := by
  induction xs generalizing x with
  | nil => simp
  | cons y ys ih => simp [List.foldl_cons, ih, mul_assoc]

omit [LinearOrder α] [IsStrictOrderedRing α] in
/-- **factorisation**: whenever the code's density evaluation succeeds (always, for a
hierarchical structure, see `jointPdf_defined`), its value is the product of the per-dimension
factors `fs`, where factor `i` is `f i g x_i` with `g` the row's value of the declared
conditioning variable. -/
theorem jointPdf_eq_prod (c : Nat → Option Nat) (f : Nat → Option α → α → α) (row : List α)
    (v : α) (h : jointPdfRow c f 1 row = some v) :
    ∃ fs, ros c f row = some fs ∧ v = fs.prod ∧ fs.length = row.length ∧
      ∀ i (hi : i < row.length), ∃ g, readCond row (c i) = some g ∧ fs[i]? = some (f i g row[i]) := by
  unfold jointPdfRow at h
  cases hr : ros c f row with
  | none => simp [hr] at h
  | some fs =>
    simp only [hr, Option.map_some, Option.some.injEq] at h
    obtain ⟨hlen, hcomp⟩ := (ros_eq_some_iff c f row fs).mp hr
    refine ⟨fs, rfl, ?_, hlen, ?_⟩
    · subst h
      cases fs with
      | nil => simp
      | cons x xs => simp [foldl_mul_eq_prod]
    · intro i hi
      have hk := hcomp i hi
      unfold rosAt at hk
      cases hg : readCond row (c i) with
      | none => simp [hg] at hk; omega
      | some g =>
        refine ⟨g, rfl, ?_⟩
        simp only [hg, List.getElem?_eq_getElem hi] at hk
        exact hk.symm

omit [LinearOrder α] [IsStrictOrderedRing α] in
/-- the evaluation succeeds for every row when the structure is hierarchical -/
theorem jointPdf_defined (c : Nat → Option Nat) (f : Nat → Option α → α → α) (row : List α)
    (hier : Hier c row.length) : ∃ v, jointPdfRow c f 1 row = some v := by
  obtain ⟨fs, hfs⟩ := ros_defined c f row hier
  unfold jointPdfRow
  rw [hfs]
  exact ⟨_, rfl⟩

/-- **non-negative** when every factor density is. -/
theorem jointPdf_nonneg (c : Nat → Option Nat) (f : Nat → Option α → α → α)
    (hf : ∀ i g x, 0 ≤ f i g x) (row : List α) (v : α) (h : jointPdfRow c f 1 row = some v) :
    0 ≤ v := by
  obtain ⟨fs, _, hv, hlen, hfac⟩ := jointPdf_eq_prod c f row v h
  subst hv
  apply List.prod_nonneg
  intro a ha
  obtain ⟨i, hi, rfl⟩ := List.getElem_of_mem ha
  obtain ⟨g, _, hg⟩ := hfac i (by omega)
  rw [List.getElem?_eq_getElem hi] at hg
  have : fs[i] = f i g row[i] := Option.some.inj hg
  rw [this]
  exact hf _ _ _

end product

/-! ### normalisation on finite supports -/
section mass
variable {α : Type} [Field α]

/-- total mass of a hierarchical product of kernels on finite supports: dimension `k` has
support `supp` and weight `w prefix x` that may depend on everything chosen before (which
covers conditioning on any earlier variable). -/
def totalMass (supp : List α) (w : List α → α → α) : Nat → List α → α
  | 0, _ => 1
  | n + 1, pre => (supp.map fun x => w pre x * totalMass supp w n (pre ++ [x])).sum

/-- **integrates to one** (discrete form): if each kernel is normalised for every prefix, the
joint weights of any number of dimensions sum to one. -/
theorem mass_one_discrete (supp : List α) (w : List α → α → α)
    (hnorm : ∀ pre, (supp.map (w pre)).sum = 1) (n : Nat) (pre : List α) :
    totalMass supp w n pre = 1 := by
  induction n generalizing pre with
  | zero => rfl
  | succ n ih =>
    simp only [totalMass]
    have : (supp.map fun x => w pre x * totalMass supp w n (pre ++ [x])) = supp.map (w pre) := by
      apply List.map_congr_left
      intro x _
      rw [ih, mul_one]
    rw [this, hnorm]

/-- the density value is the product of the factor list -/
theorem jointPdfRow_eq_prod (c : Nat → Option Nat) (f : Nat → Option α → α → α) (row fs : List α)
    (h : ros c f row = some fs) : jointPdfRow c f 1 row = some fs.prod := by
  unfold jointPdfRow
  rw [h]
  cases fs with
  | nil => simp
  | cons x xs => simp [foldl_mul_eq_prod]

/-- extending a row by one value multiplies the joint density by that value's conditional density
(hierarchical structure: the new variable is conditioned on an earlier one, the earlier factors do
not see the new value) -/
theorem jointPdfRow_snoc (c : Nat → Option Nat) (f : Nat → Option α → α → α) (row : List α)
    (hier : Hier c (row.length + 1)) :
    ∃ g v, readCond row (c row.length) = some g ∧ jointPdfRow c f 1 row = some v ∧
      ∀ x, jointPdfRow c f 1 (row ++ [x]) = some (v * f row.length g x) := by
  have hier' : Hier c row.length := fun i j hi hc => hier i j (by omega) hc
  obtain ⟨fs, hfs⟩ := ros_defined c f row hier'
  obtain ⟨hlen, hcomp⟩ := (ros_eq_some_iff c f row fs).mp hfs
  -- conditioning value of the new variable
  have hg : ∃ g, readCond row (c row.length) = some g := by
    cases hc : c row.length with
    | none => exact ⟨none, rfl⟩
    | some j =>
      have hj := hier row.length j (by omega) hc
      exact ⟨some row[j], by simp [readCond, hj]⟩
  obtain ⟨g, hg⟩ := hg
  refine ⟨g, fs.prod, hg, jointPdfRow_eq_prod c f row fs hfs, ?_⟩
  intro x
  have hext : ros c f (row ++ [x]) = some (fs ++ [f row.length g x]) := by
    rw [ros_eq_some_iff]
    refine ⟨by simp [hlen], ?_⟩
    intro i hi
    have hi' : i < row.length + 1 := by simpa using hi
    by_cases hlt : i < row.length
    · have h1 := hcomp i hlt
      rw [List.getElem?_append_left (by omega), ← h1]
      obtain ⟨gi, hgi, _⟩ := rosAt_some_of_hier c f row hier' i hlt
      unfold rosAt
      rw [readCond_append row [x] (c i) gi hgi, hgi, List.getElem?_append_left hlt]
    · have hi2 : i = row.length := by omega
      subst hi2
      unfold rosAt
      rw [readCond_append row [x] (c row.length) g hg]
      simp [hlen]
  rw [jointPdfRow_eq_prod c f _ _ hext]
  simp

/-- all rows of length `n` over the finite support `supp` -/
def allRows (supp : List α) : Nat → List (List α)
  | 0 => [[]]
  | n + 1 => (allRows supp n).flatMap fun row => supp.map fun x => row ++ [x]

omit [Field α] in
theorem allRows_length (supp : List α) (n : Nat) : ∀ row ∈ allRows supp n, row.length = n := by
  induction n with
  | zero => intro row h; simp [allRows] at h; simp [h]
  | succ n ih =>
    intro row h
    simp only [allRows, List.mem_flatMap, List.mem_map] at h
    obtain ⟨r, hr, x, _, rfl⟩ := h
    simp [ih r hr]

theorem sum_flatMap_eq {β : Type} (l : List β) (F : β → List α) :
    (l.flatMap F).sum = (l.map fun b => (F b).sum).sum := by
  induction l with
  | nil => rfl
  | cons b bs ih => simp [List.flatMap_cons, List.sum_append, ih]

theorem sum_map_mul_left' {β : Type} (a : α) (l : List β) (h : β → α) :
    (l.map fun x => a * h x).sum = a * (l.map h).sum := by
  induction l with
  | nil => simp
  | cons b bs ih => simp [ih, mul_add]

/-- **integrates to one, for the density the driver runs** (finite supports): if every (conditional)
density `f i g ·` sums to one over the support for every conditioning value, the joint density
`jointPdfRow` of a hierarchical model sums to one over all rows of the support — and is defined
(`some`) on every one of them, so the `getD 0` in the sum is never taken. -/
theorem jointPdf_sums_to_one (supp : List α) (c : Nat → Option Nat) (f : Nat → Option α → α → α)
    (n : Nat) (hier : Hier c n) (hnorm : ∀ i g, (supp.map (f i g)).sum = 1) :
    (∀ row ∈ allRows supp n, (jointPdfRow c f 1 row).isSome = true) ∧
      ((allRows supp n).map fun row => (jointPdfRow c f 1 row).getD 0).sum = 1 := by
  constructor
  · intro row hrow
    obtain ⟨v, hv⟩ := ros_defined c f row (by rw [allRows_length supp n row hrow]; exact hier)
    rw [jointPdfRow_eq_prod c f row v hv]; rfl
  · induction n with
    | zero => simp [allRows, jointPdfRow, ros, optMapM]
    | succ n ih =>
      have ih := ih (fun i j hi hc => hier i j (by omega) hc)
      rw [allRows, List.map_flatMap, sum_flatMap_eq]
      refine Eq.trans ?_ ih
      congr 1
      apply List.map_congr_left
      intro row hrow
      have hl := allRows_length supp n row hrow
      obtain ⟨g, v, _, hv, hext⟩ := jointPdfRow_snoc c f row (by rw [hl]; exact hier)
      rw [List.map_map]
      have : ((fun row => (jointPdfRow c f 1 row).getD 0) ∘ fun x => row ++ [x]) =
          fun x => v * f row.length g x := by
        funext x
        simp [hext x]
      rw [this, sum_map_mul_left', hnorm, hv]
      simp


/-- the hypotheses are satisfiable: two equally likely values per variable, second variable
conditional on the first -/
example : Hier (fun i => if i = 0 then none else some 0) 2 ∧
    ∀ (i : Nat) (g : Option ℚ), (([0, 1] : List ℚ).map ((fun _ _ _ => (1 / 2 : ℚ)) i g)).sum = 1 := by
  refine ⟨?_, fun i g => by norm_num⟩
  intro i j hi hc
  rcases i with _ | i
  · simp at hc
  · simp at hc; omega

end mass

/-! ### argument placement for nquad -/

theorem argsortPerm_length (order : List Nat) : (argsortPerm order).length = order.length := by
  simp [argsortPerm]

/-- **placement**: for a permutation `order` of `0..n-1`, nquad's `j`-th argument ends up at
model position `order[j]`. -/
theorem reorder_places_label {β : Type} (order : List Nat) (args : List β)
    (hnodup : order.Nodup) (hlen : args.length = order.length)
    (j : Nat) (hj : j < order.length) (hrange : order[j] < order.length) :
    (reorderArgs order args)[order[j]]? = some (args[j]?) := by
  unfold reorderArgs argsortPerm
  rw [List.getElem?_map, List.getElem?_map, List.getElem?_range hrange]
  simp only [Option.map_some]
  congr 1
  have : order.idxOf order[j] = j := hnodup.idxOf_getElem j hj
  rw [this]

/-- the order used by `marginal_pdf`/`marginal_cdf` is a permutation of `0..n-1` ending in `dim` -/
theorem marginalOrder_perm (n dim : Nat) (hd : dim < n) :
    (marginalOrder n dim).Perm (List.range n) ∧ (marginalOrder n dim).getLast? = some dim := by
  constructor
  · unfold marginalOrder
    have h1 : ((List.range n).filter (· ≠ dim)).reverse.Perm ((List.range n).filter (· ≠ dim)) :=
      List.reverse_perm _
    have h2 : ((List.range n).filter (· ≠ dim) ++ [dim]).Perm (List.range n) := by
      have hmem : dim ∈ List.range n := List.mem_range.mpr hd
      have := List.filter_append_perm (fun x => decide (x ≠ dim)) (List.range n)
      have hf : (List.range n).filter (fun x => !decide (x ≠ dim)) = [dim] := by
        have hnd := List.nodup_range (n := n)
        rw [List.filter_eq_cons_iff]
        obtain ⟨l1, l2, hsplit⟩ := List.append_of_mem hmem
        refine ⟨l1, l2, hsplit, ?_, by simp, ?_⟩
        · intro x hx
          have : x ≠ dim := by
            rintro rfl
            rw [hsplit] at hnd
            exact (List.nodup_append.mp hnd).2.2 x hx x (by simp) rfl
          simp [this]
        · rw [List.filter_eq_nil_iff]
          intro x hx
          have : x ≠ dim := by
            rintro rfl
            rw [hsplit] at hnd
            have := (List.nodup_append.mp hnd).2.1
            simp at this
            exact this.1 hx
          simp [this]
      rw [hf] at this
      exact this
    exact (List.Perm.append_right _ h1).trans h2
  · simp [marginalOrder]

theorem identity_order {β : Type} (args : List β) :
    reorderArgs (List.range args.length) args = args.map some := by
  unfold reorderArgs argsortPerm
  apply List.ext_getElem?
  intro i
  by_cases hi : i < args.length
  · have h1 : (List.range args.length).idxOf i = i := by
      have := (List.nodup_range (n := args.length)).idxOf_getElem i (by simpa using hi)
      simpa using this
    simp [hi, h1]
  · simp [hi]

/-- **marginal_cdf integrates the requested variable over (0, x)**: the finite range is the
last nquad argument, which `reorderArgs (marginalOrder n dim)` puts at model position `dim`;
all other positions receive a (0, ∞) range. -/
theorem marginal_cdf_range_placement {β : Type} (n dim : Nat) (hd : dim < n) (x : β) :
    (reorderArgs (marginalOrder n dim) (marginalCdfRanges n x))[dim]? = some (some (some x)) := by
  obtain ⟨hperm, hlast⟩ := marginalOrder_perm n dim hd
  have hlen : (marginalOrder n dim).length = n := by simpa using hperm.length_eq
  have hnodup : (marginalOrder n dim).Nodup := hperm.nodup_iff.mpr List.nodup_range
  have hj : n - 1 < (marginalOrder n dim).length := by omega
  have hget : (marginalOrder n dim)[n - 1] = dim := by
    have := List.getLast?_eq_getElem? (l := marginalOrder n dim)
    rw [hlast, hlen] at this
    rw [List.getElem?_eq_getElem (by omega)] at this
    exact (Option.some.inj this).symm
  have := reorder_places_label (marginalOrder n dim) (marginalCdfRanges n x) hnodup
    (by simp [marginalCdfRanges, hlen]; omega) (n - 1) hj (by rw [hget, hlen]; exact hd)
  rw [hget] at this
  rw [this]
  simp [marginalCdfRanges]

/-- … and every other nquad argument of `marginal_cdf` is integrated over `(0, ∞)` -/
theorem marginal_cdf_other_ranges_full {β : Type} (n : Nat) (x : β) (j : Nat) (hj : j + 1 < n) :
    (marginalCdfRanges n x)[j]? = some none := by
  unfold marginalCdfRanges
  rw [List.getElem?_append_left (by rw [List.length_replicate]; omega), List.getElem?_replicate,
    if_pos (by omega)]

/-- **cdf integrates variable `i` over `(0, x_i)`**: `cdf` uses the identity order, so the `i`-th range
`(0, x_i)` is the range of model position `i` -/
theorem cdf_range_placement {β : Type} (x : List β) :
    reorderArgs (List.range (cdfRanges x).length) (cdfRanges x) = x.map fun v => some (some v) := by
  rw [identity_order]
  simp [cdfRanges]

/-- `marginal_pdf` integrates each of the `n - 1` other variables over `(0, ∞)` -/
theorem marginal_pdf_ranges_full {β : Type} (n : Nat) :
    (marginalPdfRanges n : List (Range β)).length = n - 1 ∧
      ∀ r ∈ (marginalPdfRanges n : List (Range β)), r = none := by
  constructor
  · simp [marginalPdfRanges]
  · intro r hr
    exact (List.mem_replicate.mp hr).2

/-! ### the integrals themselves (real densities; `scipy.integrate.nquad` computes iterated integrals,
first argument innermost, over the ranges `(0, x)` / `(0, ∞)` modelled above) -/
section analytic
open MeasureTheory Set

/-- iterated integral over `(0,∞)ⁿ` of a hierarchical product of kernels: the density `w pre ·` of the next
variable may depend on everything integrated outside it (which covers conditioning on any earlier variable). -/
noncomputable def totalMassR (w : List ℝ → ℝ → ℝ) : Nat → List ℝ → ℝ
  | 0, _ => 1
  | n + 1, pre => ∫ x in Ioi (0 : ℝ), w pre x * totalMassR w n (pre ++ [x])

/-- **integrates to one**: if every (conditional) density integrates to one over `(0,∞)` for every value of
its conditioning variables, so does the joint density of any number of dimensions. (About `totalMassR`, the
mathematical iterated integral defined above; not tied to the code by a driver op. The harness uses it to justify
its reference marginals: variables that the requested one does not depend on integrate out to one.) -/
theorem mass_one_iterated (w : List ℝ → ℝ → ℝ) (hnorm : ∀ pre, ∫ x in Ioi (0 : ℝ), w pre x = 1)
    (n : Nat) (pre : List ℝ) : totalMassR w n pre = 1 := by
  induction n generalizing pre with
  | zero => rfl
  | succ n ih => simp only [totalMassR, ih, mul_one, hnorm]

/-- the hypothesis is satisfiable: the unit exponential density -/
example : ∀ pre : List ℝ, ∫ x in Ioi (0 : ℝ), (fun (_ : List ℝ) x => Real.exp (-x)) pre x = 1 :=
  fun _ => integral_exp_neg_Ioi_zero

/-- structure of the **joint cdf** of a 2-D model as computed (iterated integral of the joint pdf over
`(0,a] × (0,b]`): the inner level is the conditional cdf mass `∫₀ᵇ f₁(s | t) ds`, weighted by the marginal density.
(This is `integral_const_mul` and nothing more; "cdf = integral of pdf over the orthant" is
`cdf_iterated_eq_orthant_integral`.) -/
theorem cdf_iterated_factor_trivial (f0 : ℝ → ℝ) (f1 : ℝ → ℝ → ℝ) (a b : ℝ) :
    ∫ t in Ioc 0 a, ∫ s in Ioc 0 b, f0 t * f1 t s = ∫ t in Ioc 0 a, f0 t * ∫ s in Ioc 0 b, f1 t s := by
  simp only [integral_const_mul]

/-- the same structural remark for `marginal_cdf(x, dim)` of the conditional variable (the conditioning variable
runs over `(0,∞)`); again `integral_const_mul` only. -/
theorem marginal_cdf_iterated_factor_trivial (f0 : ℝ → ℝ) (f1 : ℝ → ℝ → ℝ) (b : ℝ) :
    ∫ t in Ioi 0, ∫ s in Ioc 0 b, f0 t * f1 t s = ∫ t in Ioi 0, f0 t * ∫ s in Ioc 0 b, f1 t s := by
  simp only [integral_const_mul]

/-- **marginal_cdf agrees with marginal_pdf**: `marginal_cdf(b)` integrates the requested variable innermost
and `marginal_pdf(s) = ∫ f₀(t) f₁(s|t) dt`; for an integrable joint density the two orders give the same number. -/
theorem marginal_cdf_eq_integral_marginal_pdf (f0 : ℝ → ℝ) (f1 : ℝ → ℝ → ℝ) (b : ℝ)
    (hint : Integrable (Function.uncurry fun t s => f0 t * f1 t s)
      ((volume.restrict (Ioi (0 : ℝ))).prod (volume.restrict (Ioc 0 b)))) :
    ∫ t in Ioi 0, ∫ s in Ioc 0 b, f0 t * f1 t s = ∫ s in Ioc 0 b, ∫ t in Ioi 0, f0 t * f1 t s :=
  integral_integral_swap hint

/-- **the iterated integral the code computes is the integral of the joint density over the lower-left orthant**
(2-D; the box `(0,a] × (0,b]`, as all factors vanish below 0): Fubini for a density that is integrable on the box. -/
theorem cdf_iterated_eq_orthant_integral (f0 : ℝ → ℝ) (f1 : ℝ → ℝ → ℝ) (a b : ℝ)
    (hint : IntegrableOn (fun z : ℝ × ℝ => f0 z.1 * f1 z.1 z.2) (Ioc 0 a ×ˢ Ioc 0 b) (volume.prod volume)) :
    ∫ t in Ioc 0 a, ∫ s in Ioc 0 b, f0 t * f1 t s =
      ∫ z in Ioc 0 a ×ˢ Ioc 0 b, f0 z.1 * f1 z.1 z.2 ∂(volume.prod volume) :=
  (setIntegral_prod (fun z : ℝ × ℝ => f0 z.1 * f1 z.1 z.2) hint).symm

/-- the hypothesis is satisfiable: the uniform density on the unit square -/
example : IntegrableOn (fun z : ℝ × ℝ => (fun _ : ℝ => (1 : ℝ)) z.1 * (fun _ _ : ℝ => (1 : ℝ)) z.1 z.2)
    (Ioc 0 1 ×ˢ Ioc 0 1) (volume.prod volume) := by
  simp only [mul_one]
  refine integrableOn_const ?_
  rw [Measure.prod_prod]
  simp

/-- the joint cdf of non-negative densities is non-negative -/
theorem cdf_iterated_nonneg (f0 : ℝ → ℝ) (f1 : ℝ → ℝ → ℝ) (a b : ℝ) (h0 : ∀ t, 0 ≤ f0 t)
    (h1 : ∀ t s, 0 ≤ f1 t s) : 0 ≤ ∫ t in Ioc 0 a, ∫ s in Ioc 0 b, f0 t * f1 t s :=
  integral_nonneg fun t => integral_nonneg fun s => mul_nonneg (h0 t) (h1 t s)

/-- **link to the executed model**: for the 2-D hierarchical structure (variable 1 conditional on variable 0)
the joint density `jointPdfRow` that the driver's `pdf` op runs is `f₀(t) · f₁(s | t)` with `f₀ = f 0 none`,
`f₁ t = f 1 (some t)` — the integrand of the 2-D integral statements above. -/
theorem jointPdf_two_dim {α : Type} [Mul α] (c : Nat → Option Nat) (f : Nat → Option α → α → α) (one : α)
    (h0 : c 0 = none) (h1 : c 1 = some 0) (t s : α) :
    jointPdfRow c f one [t, s] = some (f 0 none t * f 1 (some t) s) := by
  simp [jointPdfRow, ros, optMapM, rosAt, readCond, h0, h1, List.range_succ]

/-- `cdf_iterated_eq_orthant_integral` stated on the model's joint density `p t s` -/
theorem cdf_iterated_eq_orthant_integral_model (c : Nat → Option Nat) (f : Nat → Option ℝ → ℝ → ℝ)
    (h0 : c 0 = none) (h1 : c 1 = some 0) (p : ℝ → ℝ → ℝ)
    (hp : ∀ t s, jointPdfRow c f 1 [t, s] = some (p t s)) (a b : ℝ)
    (hint : IntegrableOn (fun z : ℝ × ℝ => p z.1 z.2) (Ioc 0 a ×ˢ Ioc 0 b) (volume.prod volume)) :
    ∫ t in Ioc 0 a, ∫ s in Ioc 0 b, p t s = ∫ z in Ioc 0 a ×ˢ Ioc 0 b, p z.1 z.2 ∂(volume.prod volume) := by
  have hp' : p = fun t s => f 0 none t * f 1 (some t) s := by
    funext t s
    have := hp t s
    rw [jointPdf_two_dim c f 1 h0 h1] at this
    exact (Option.some.inj this).symm
  subst hp'
  exact cdf_iterated_eq_orthant_integral (f 0 none) (fun t => f 1 (some t)) a b hint

/-- `marginal_cdf_eq_integral_marginal_pdf` stated on the model's joint density -/
theorem marginal_cdf_eq_integral_marginal_pdf_model (c : Nat → Option Nat) (f : Nat → Option ℝ → ℝ → ℝ)
    (h0 : c 0 = none) (h1 : c 1 = some 0) (p : ℝ → ℝ → ℝ)
    (hp : ∀ t s, jointPdfRow c f 1 [t, s] = some (p t s)) (b : ℝ)
    (hint : Integrable (Function.uncurry p) ((volume.restrict (Ioi (0 : ℝ))).prod (volume.restrict (Ioc 0 b)))) :
    ∫ t in Ioi 0, ∫ s in Ioc 0 b, p t s = ∫ s in Ioc 0 b, ∫ t in Ioi 0, p t s := by
  have hp' : p = fun t s => f 0 none t * f 1 (some t) s := by
    funext t s
    have := hp t s
    rw [jointPdf_two_dim c f 1 h0 h1] at this
    exact (Option.some.inj this).symm
  subst hp'
  exact marginal_cdf_eq_integral_marginal_pdf (f 0 none) (fun t => f 1 (some t)) b hint

/-- the 2-D joint cdf of the model's density is non-negative when the leaf densities are -/
theorem cdf_iterated_nonneg_model (c : Nat → Option Nat) (f : Nat → Option ℝ → ℝ → ℝ)
    (hf : ∀ i g x, 0 ≤ f i g x) (p : ℝ → ℝ → ℝ)
    (hp : ∀ t s, jointPdfRow c f 1 [t, s] = some (p t s)) (a b : ℝ) :
    0 ≤ ∫ t in Ioc 0 a, ∫ s in Ioc 0 b, p t s :=
  integral_nonneg fun t => integral_nonneg fun s => jointPdf_nonneg c f hf [t, s] (p t s) (hp t s)

end analytic

/-! ### non-vacuity -/
example : marginalOrder 3 1 = [2, 0, 1] := by decide
example : marginalCdfRanges 3 (7 : Nat) = [none, none, some 7] ∧ (marginalPdfRanges 3 : List (Range Nat)) = [none, none]
    ∧ cdfRanges [4, 5, (6 : Nat)] = [some 4, some 5, some 6] := by decide
example : reorderArgs [2, 0, 1] [10, 20, 30] = [some 20, some 30, some 10] := by decide
example : jointPdfRow (fun i => if i = 0 then none else some 0)
    (fun _ g x => match g with | none => x | some y => x + y) (1 : Int) [2, 3] = some 10 := by decide

end VirVerif.C06
