/-
C07 — Samples follow the model they are drawn from and are reproducible by seed.

  "Random samples drawn from any distribution or hierarchical model are distributed according
   to it: univariate samples match the cdf, and in joint samples each conditional variable is
   drawn from its conditional distribution given the sampled value of its declared conditioning
   variable in the same row (so the Rosenblatt transform of the sample is independent standard
   normal). The requested size and (n, n_dim) shape are honoured; the same integer seed or an
   identically seeded Generator reproduces the sample bit-for-bit, and different seeds give
   different samples."

The model is sequential inverse-transform sampling (`sampleRows`) driven by a stream of
uniforms; it is what the code does when the leaves sample by inversion (the rational doubles of
the correspondence harness do).

Clause → theorem
  each conditional variable drawn given the value in the same row; Rosenblatt transform of the
  sample is the driving i.i.d. stream                                  sample_rosenblatt_is_stream
  (n, n_dim) shape                                                     sample_shape
  dimension i consumes stream[i·n … (i+1)·n), row j uses stream[i·n+j] stream_segments
  same stream ⇒ same sample (reproducibility given the generator)      same_stream_same_sample
  size handed to the leaf sampler; one draw per conditioning value     rvsSize_spec, rvsSize_flat_iff,
                                                                       cond_one_draw_per_row
  PARTIAL (runtime): numpy's stream is i.i.d. uniform, scipy's non-inversion samplers follow
  their cdf, different seeds differ — validated with DKW bounds at error probability 1e-12.
-/
import VirVerif.Lemmas.Hier
import VirVerif.Model.Sampling
import Mathlib.Data.List.Basic
import Mathlib.Tactic.Linarith

namespace VirVerif.C07
open VirVerif

variable {α : Type}

/-- **the Rosenblatt transform of the sample is the driving stream**: for a hierarchical
structure and leaves with `F(Q(u)) = u` on the uniforms used, every row `x` of the sample
satisfies `F i (x_{c i}) x_i = u_i` — each variable is drawn from its conditional distribution
given the sampled value of its conditioning variable *in the same row*. -/
theorem sample_rosenblatt_is_stream (c : Nat → Option Nat) (F Q : Nat → Option α → α → α)
    (P : α → Prop) (hFQ : ∀ i g p, P p → F i g (Q i g p) = p)
    (d : Nat) (hier : Hier c d) (us : List (List α)) (hlen : ∀ u ∈ us, u.length = d)
    (hP : ∀ u ∈ us, ∀ p ∈ u, P p) :
    ∃ rows, sampleRows c Q us = some rows ∧ rows.length = us.length ∧
      ∀ k (hk : k < us.length), ∃ row, rows[k]? = some row ∧ row.length = d ∧
        ros c F row = some us[k] := by
  induction us with
  | nil => exact ⟨[], rfl, rfl, fun k hk => by simp at hk⟩
  | cons u us ih =>
    obtain ⟨rows, hr, hl, hk⟩ := ih (fun v hv => hlen v (by simp [hv])) (fun v hv => hP v (by simp [hv]))
    have hu : u.length = d := hlen u (by simp)
    obtain ⟨row, h1, h2, h3⟩ := ros_invRos c F Q P hFQ u (by rw [hu]; exact hier) (hP u (by simp))
    refine ⟨row :: rows, ?_, by simp [hl], ?_⟩
    · unfold sampleRows at hr ⊢
      simp [optMapM, h1, hr]
    · intro k hk'
      cases k with
      | zero => exact ⟨row, by simp, by omega, by simpa using h3⟩
      | succ k =>
        obtain ⟨r, hr1, hr2, hr3⟩ := hk k (by simpa using hk')
        exact ⟨r, by simpa using hr1, hr2, by simpa using hr3⟩

/-- **shape**: a sample of `n` rows, each of length `n_dim`. -/
theorem sample_shape (c : Nat → Option Nat) (F Q : Nat → Option α → α → α)
    (P : α → Prop) (hFQ : ∀ i g p, P p → F i g (Q i g p) = p)
    (d : Nat) (hier : Hier c d) (us : List (List α)) (hlen : ∀ u ∈ us, u.length = d)
    (hP : ∀ u ∈ us, ∀ p ∈ u, P p) (rows : List (List α)) (h : sampleRows c Q us = some rows) :
    rows.length = us.length ∧ ∀ r ∈ rows, r.length = d := by
  obtain ⟨rows', h', hl, hk⟩ := sample_rosenblatt_is_stream c F Q P hFQ d hier us hlen hP
  rw [h] at h'; cases h'
  refine ⟨hl, ?_⟩
  intro r hr
  obtain ⟨k, hk', rfl⟩ := List.getElem_of_mem hr
  obtain ⟨row, h1, h2, _⟩ := hk k (by omega)
  rw [List.getElem?_eq_getElem hk'] at h1
  cases h1; exact h2

/-- **stream segments**: row `j`, dimension `i` is driven by `stream[i·n + j]`. -/
theorem stream_segments (n d : Nat) (stream : Array α) (j i : Nat) (hj : j < n) (hi : i < d) :
    ((streamToRows n d stream)[j]'(by simp [streamToRows, hj]))[i]'(by simp [streamToRows, hi]) =
      stream[i * n + j]? := by
  simp [streamToRows]

theorem stream_rows_shape (n d : Nat) (stream : Array α) :
    (streamToRows n d stream).length = n ∧ ∀ r ∈ streamToRows n d stream, r.length = d := by
  constructor
  · simp [streamToRows]
  · intro r hr
    simp only [streamToRows, List.mem_map] at hr
    obtain ⟨_, _, rfl⟩ := hr
    simp

/-- **reproducibility at the level of the logic**: the sample is a function of the stream. -/
theorem same_stream_same_sample (c : Nat → Option Nat) (Q : Nat → Option α → α → α)
    (us us' : List (List α)) (h : us = us') : sampleRows c Q us = sampleRows c Q us' := by
  rw [h]

/-- **size handed to the leaf sampler**: `(n, len)` of the last vector parameter … -/
theorem rvsSize_spec (n : Nat) (pars : List ParShape) (l : Nat) (rest : List ParShape)
    (h : pars = rest ++ [.vector l]) : rvsSize n pars = .matrix n l := by
  subst h
  simp [rvsSize, List.filterMap_append, vecLen?]

/-- … and the plain `n` exactly when no parameter is a vector. -/
theorem rvsSize_flat_iff (n : Nat) (pars : List ParShape) :
    rvsSize n pars = .flat n ↔ ∀ p ∈ pars, p = .scalar := by
  unfold rvsSize
  constructor
  · intro h p hp
    cases p with
    | scalar => rfl
    | vector l =>
      exfalso
      have hmem : l ∈ pars.filterMap vecLen? :=
        List.mem_filterMap.mpr ⟨.vector l, hp, rfl⟩
      cases hl : (pars.filterMap vecLen?).getLast? with
      | none =>
        rw [List.getLast?_eq_none_iff] at hl
        rw [hl] at hmem; simp at hmem
      | some x => rw [hl] at h; cases h
  · intro h
    have : pars.filterMap vecLen? = [] := by
      rw [List.filterMap_eq_nil_iff]
      intro p hp
      rw [h p hp]; rfl
    rw [this]; rfl

/-- **one draw per conditioning value**: in a joint sample of `N` rows every conditional
dimension draws exactly `N` values whenever each vector-valued parameter has one entry per
conditioning value — also when *every* dependence function returns a scalar (constant
functions), because the parameters are broadcast to the conditioning values first. -/
theorem cond_one_draw_per_row (N : Nat) (raw : List ParShape) (hne : raw ≠ [])
    (hvec : ∀ p ∈ raw, p = .scalar ∨ p = .vector N) : condDrawCount N raw = N := by
  unfold condDrawCount
  have hall : ∀ p ∈ condParShapes (some N) raw, p = .vector N := by
    intro p hp
    simp only [condParShapes, List.mem_map] at hp
    obtain ⟨q, hq, rfl⟩ := hp
    rcases hvec q hq with rfl | rfl <;> rfl
  have hne' : condParShapes (some N) raw ≠ [] := by
    simp [condParShapes, hne]
  obtain ⟨init, lst, hsplit⟩ : ∃ init lst, condParShapes (some N) raw = init ++ [lst] := by
    rcases (condParShapes (some N) raw).eq_nil_or_concat with h | ⟨i, b, h⟩
    · exact absurd h hne'
    · exact ⟨i, b, by simpa using h⟩
  have hl : lst = .vector N := hall lst (by rw [hsplit]; simp)
  rw [rvsSize_spec 1 _ N init (by rw [hsplit, hl])]
  simp

/-- without the broadcast (the code before the repair) a conditional dimension whose
dependence functions all return scalars draws ONE value for all rows. -/
theorem unbroadcast_constant_draws_once (N : Nat) :
    rvsSize 1 [.scalar, .scalar] = .flat 1 ∧ condDrawCount N [.scalar, .scalar] = N := by
  constructor
  · decide
  · simp [condDrawCount, condParShapes, rvsSize, vecLen?]

/-! ### non-vacuity -/
example : streamToRows 2 3 #[(10 : Nat), 11, 20, 21, 30, 31] =
    [[some 10, some 20, some 30], [some 11, some 21, some 31]] := by decide
example : sampleRows (fun i => if i = 0 then none else some 0)
    (fun _ g p => match g with | none => p | some x => x + p) [[(1 : Int), 2], [5, 7]] = some [[1, 3], [5, 12]] := by
  decide
example : rvsSize 1 [.scalar, .vector 5] = .matrix 1 5 := by decide

end VirVerif.C07
