/-
C07 — Samples follow the model they are drawn from and are reproducible by seed.

  "Random samples drawn from any distribution or hierarchical model are distributed according
   to it: univariate samples match the cdf, and in joint samples each conditional variable is
   drawn from its conditional distribution given the sampled value of its declared conditioning
   variable in the same row (so the Rosenblatt transform of the sample is independent standard
   normal). The requested size and (n, n_dim) shape are honoured; the same integer seed or an
   identically seeded Generator reproduces the sample bit-for-bit, and different seeds give
   different samples."

The model is sequential inverse-transform sampling (`sampleRows`) driven by a stream of
uniforms; it is what the code does when the leaves sample by inversion (the rational doubles of
the correspondence harness do).

Clause → theorem
  each conditional variable drawn given the value in the same row; Rosenblatt transform of the
  sample is the driving i.i.d. stream                                  sample_rosenblatt_is_stream
  (n, n_dim) shape                                                     sample_shape_any (no hypothesis on the
                                                                       leaves), sample_shape (older, under the
                                                                       round-trip hypotheses)
  dimension i consumes stream[i·n … (i+1)·n), row j uses stream[i·n+j] stream_segments
  the sample is determined by the n·n_dim stream values that are consumed
  (two streams that agree on them give the same rows)                  stream_prefix_determines_rows,
                                                                       stream_prefix_determines_sample
  definitional remark, NOT a reproducibility result: `sampleRows` is a function, equal streams
  give equal samples (proof is `rw`)                                   same_stream_same_sample_trivial
  size handed to the leaf sampler; one draw per conditioning value     rvsSize_spec_general, rvsSize_spec (vector
                                                                       last), rvsSize_flat_iff,
                                                                       cond_one_draw_per_row
  a leaf that samples by inversion follows its cdf: P(Q(U) ≤ x) = F(x)    inverse_transform_cdf
  … and the rational doubles of the harness are such leaves              ratDouble_galois_model,
      (on `ratCdf`/`ratIcdf` of Model/Doubles.lean = what the driver runs;   ratDouble_follows_cdf_model
       `ratF`/`ratQ` are local copies, equal by `rfl`)                       (ratF_eq_ratCdf, ratQ_eq_ratIcdf,
                                                                             ratDouble_galois, ratDouble_follows_cdf)
  `unbroadcast_constant_draws_once` is a worked instance for two scalar-valued (constant) dependence
  functions: WITHOUT the broadcast `_get_rvs_size(1, ·)` is the flat size 1 (one draw for all rows, the
  behaviour before the repair 96752d1), WITH it (`condDrawCount`, the model of the code as it is) N draws.
  PARTIAL / OBSERVED ONLY (runtime): "the same integer seed or an identically seeded Generator reproduces
  the sample bit-for-bit" and "different seeds give different samples" are NOT theorems (they are facts
  about numpy's generators and about how the code threads random_state); they are checked per run on the
  real code (same int seed, identically seeded Generators, on a second model object, after an earlier draw
  on the same object, seed pairs s/t, random_state=None draws differ). numpy's stream being i.i.d. uniform
  and scipy's non-inversion samplers following their cdf are validated with DKW bounds at error
  probability 1e-12 per comparison.
-/
import VirVerif.Lemmas.Hier
import VirVerif.Model.Sampling
import VirVerif.Model.Doubles
import Mathlib.Data.List.Basic
import Mathlib.Tactic.Linarith
import Mathlib.Tactic.FieldSimp
import Mathlib.MeasureTheory.Measure.Lebesgue.Basic

namespace VirVerif.C07
open VirVerif

variable {α : Type}

/-- **the Rosenblatt transform of the sample is the driving stream**: for a hierarchical
structure and leaves with `F(Q(u)) = u` on the uniforms used, every row `x` of the sample
satisfies `F i (x_{c i}) x_i = u_i` — each variable is drawn from its conditional distribution
given the sampled value of its conditioning variable *in the same row*. -/
theorem sample_rosenblatt_is_stream (c : Nat → Option Nat) (F Q : Nat → Option α → α → α)
    (P : α → Prop) (hFQ : ∀ i g p, P p → F i g (Q i g p) = p)
    (d : Nat) (hier : Hier c d) (us : List (List α)) (hlen : ∀ u ∈ us, u.length = d)
    (hP : ∀ u ∈ us, ∀ p ∈ u, P p) :
    ∃ rows, sampleRows c Q us = some rows ∧ rows.length = us.length ∧
      ∀ k (hk : k < us.length), ∃ row, rows[k]? = some row ∧ row.length = d ∧
        ros c F row = some us[k] := by
  induction us with
  | nil => exact ⟨[], rfl, rfl, fun k hk => by simp at hk⟩
  | cons u us ih =>
    obtain ⟨rows, hr, hl, hk⟩ := ih (fun v hv => hlen v (by simp [hv])) (fun v hv => hP v (by simp [hv]))
    have hu : u.length = d := hlen u (by simp)
    obtain ⟨row, h1, h2, h3⟩ := ros_invRos c F Q P hFQ u (by rw [hu]; exact hier) (hP u (by simp))
    refine ⟨row :: rows, ?_, by simp [hl], ?_⟩
    · unfold sampleRows at hr ⊢
      simp [optMapM, h1, hr]
    · intro k hk'
      cases k with
      | zero => exact ⟨row, by simp, by omega, by simpa using h3⟩
      | succ k =>
        obtain ⟨r, hr1, hr2, hr3⟩ := hk k (by simpa using hk')
        exact ⟨r, by simpa using hr1, hr2, by simpa using hr3⟩

/-- **shape**: a sample of `n` rows, each of length `n_dim`. -/
theorem sample_shape (c : Nat → Option Nat) (F Q : Nat → Option α → α → α)
    (P : α → Prop) (hFQ : ∀ i g p, P p → F i g (Q i g p) = p)
    (d : Nat) (hier : Hier c d) (us : List (List α)) (hlen : ∀ u ∈ us, u.length = d)
    (hP : ∀ u ∈ us, ∀ p ∈ u, P p) (rows : List (List α)) (h : sampleRows c Q us = some rows) :
    rows.length = us.length ∧ ∀ r ∈ rows, r.length = d := by
  obtain ⟨rows', h', hl, hk⟩ := sample_rosenblatt_is_stream c F Q P hFQ d hier us hlen hP
  rw [h] at h'; cases h'
  refine ⟨hl, ?_⟩
  intro r hr
  obtain ⟨k, hk', rfl⟩ := List.getElem_of_mem hr
  obtain ⟨row, h1, h2, _⟩ := hk k (by omega)
  rw [List.getElem?_eq_getElem hk'] at h1
  cases h1; exact h2

theorem invRosAux_length (c : Nat → Option Nat) (Q : Nat → Option α → α → α) (acc ps row : List α)
    (h : invRosAux c Q acc ps = some row) : row.length = acc.length + ps.length := by
  induction ps generalizing acc with
  | nil => simp [invRosAux] at h; subst h; simp
  | cons p ps ih =>
    unfold invRosAux at h
    cases hg : readCond acc (c acc.length) with
    | none => rw [hg] at h; cases h
    | some g =>
      rw [hg] at h
      have := ih _ h
      simp at this ⊢; omega

/-- **shape, without any hypothesis on the leaves**: whenever the sampler returns, there is one row per
stream row and row `k` has as many entries as stream row `k` (= `n_dim`). -/
theorem sample_shape_any (c : Nat → Option Nat) (Q : Nat → Option α → α → α) (us rows : List (List α))
    (h : sampleRows c Q us = some rows) :
    rows.length = us.length ∧ List.Forall₂ (fun r u => r.length = u.length) rows us := by
  unfold sampleRows at h
  obtain ⟨hl, hk⟩ := (optMapM_eq_some_iff _ us rows).mp h
  refine ⟨hl, ?_⟩
  rw [List.forall₂_iff_get]
  refine ⟨hl, fun i h1 h2 => ?_⟩
  have := hk i h2
  simp only [List.get_eq_getElem]
  rw [List.getElem?_eq_getElem h1] at this
  have h3 := invRosAux_length c Q [] us[i] rows[i] this
  simpa using h3

/-- **stream segments**: row `j`, dimension `i` is driven by `stream[i·n + j]`. -/
theorem stream_segments (n d : Nat) (stream : Array α) (j i : Nat) (hj : j < n) (hi : i < d) :
    ((streamToRows n d stream)[j]'(by simp [streamToRows, hj]))[i]'(by simp [streamToRows, hi]) =
      stream[i * n + j]? := by
  simp [streamToRows]

theorem stream_rows_shape (n d : Nat) (stream : Array α) :
    (streamToRows n d stream).length = n ∧ ∀ r ∈ streamToRows n d stream, r.length = d := by
  constructor
  · simp [streamToRows]
  · intro r hr
    simp only [streamToRows, List.mem_map] at hr
    obtain ⟨_, _, rfl⟩ := hr
    simp

/-- **the consumed prefix determines the rows**: two streams that agree on the `d·n` values that are
consumed (`stream[i·n + j]`, `i < d`, `j < n`) give the same per-row uniforms — nothing beyond the first
`n·n_dim` values of the generator's stream can influence the sample. -/
theorem stream_prefix_determines_rows (n d : Nat) (s s' : Array α)
    (h : ∀ k, k < d * n → s[k]? = s'[k]?) : streamToRows n d s = streamToRows n d s' := by
  unfold streamToRows
  apply List.map_congr_left
  intro j hj
  apply List.map_congr_left
  intro i hi
  rw [List.mem_range] at hj hi
  apply h
  calc i * n + j < i * n + n := by omega
    _ = (i + 1) * n := by rw [Nat.add_mul, Nat.one_mul]
    _ ≤ d * n := Nat.mul_le_mul_right n hi

/-- … and hence the sample (whatever the leaves `Q` and the structure `c`). -/
theorem stream_prefix_determines_sample (c : Nat → Option Nat) (Q : Nat → Option (Option α) → Option α → Option α)
    (n d : Nat) (s s' : Array α) (h : ∀ k, k < d * n → s[k]? = s'[k]?) :
    sampleRows c Q (streamToRows n d s) = sampleRows c Q (streamToRows n d s') := by
  rw [stream_prefix_determines_rows n d s s' h]

/-- Definitional remark, deliberately named `_trivial`: `sampleRows` is a function, so equal streams give
equal samples (the proof is `rw`). This says NOTHING about seeds: that the same integer seed / an
identically seeded Generator yields the same stream and that the code threads it through every dimension
is observed at runtime (harness oracles `same_seed_reproduces`, `generator_reproduces_*`). -/
theorem same_stream_same_sample_trivial (c : Nat → Option Nat) (Q : Nat → Option α → α → α)
    (us us' : List (List α)) (h : us = us') : sampleRows c Q us = sampleRows c Q us' := by
  rw [h]

/-- **size handed to the leaf sampler**: `(n, len)` of the last vector parameter … -/
theorem rvsSize_spec (n : Nat) (pars : List ParShape) (l : Nat) (rest : List ParShape)
    (h : pars = rest ++ [.vector l]) : rvsSize n pars = .matrix n l := by
  subst h
  simp [rvsSize, List.filterMap_append, vecLen?]

/-- **size handed to the leaf sampler, general position**: `(n, len)` of the LAST vector-valued parameter,
wherever it stands (every parameter after it is a scalar; earlier vectors are ignored) -/
theorem rvsSize_spec_general (n : Nat) (pre post : List ParShape) (l : Nat)
    (hpost : ∀ p ∈ post, p = .scalar) : rvsSize n (pre ++ [.vector l] ++ post) = .matrix n l := by
  have : post.filterMap vecLen? = [] := by
    rw [List.filterMap_eq_nil_iff]
    intro p hp
    rw [hpost p hp]; rfl
  simp [rvsSize, List.filterMap_append, vecLen?, this]

/-- … and the plain `n` exactly when no parameter is a vector. -/
theorem rvsSize_flat_iff (n : Nat) (pars : List ParShape) :
    rvsSize n pars = .flat n ↔ ∀ p ∈ pars, p = .scalar := by
  unfold rvsSize
  constructor
  · intro h p hp
    cases p with
    | scalar => rfl
    | vector l =>
      exfalso
      have hmem : l ∈ pars.filterMap vecLen? :=
        List.mem_filterMap.mpr ⟨.vector l, hp, rfl⟩
      cases hl : (pars.filterMap vecLen?).getLast? with
      | none =>
        rw [List.getLast?_eq_none_iff] at hl
        rw [hl] at hmem; simp at hmem
      | some x => rw [hl] at h; cases h
  · intro h
    have : pars.filterMap vecLen? = [] := by
      rw [List.filterMap_eq_nil_iff]
      intro p hp
      rw [h p hp]; rfl
    rw [this]; rfl

/-- **one draw per conditioning value**: in a joint sample of `N` rows every conditional
dimension draws exactly `N` values whenever each vector-valued parameter has one entry per
conditioning value — also when *every* dependence function returns a scalar (constant
functions), because the parameters are broadcast to the conditioning values first. -/
theorem cond_one_draw_per_row (N : Nat) (raw : List ParShape) (hne : raw ≠ [])
    (hvec : ∀ p ∈ raw, p = .scalar ∨ p = .vector N) : condDrawCount N raw = N := by
  unfold condDrawCount
  have hall : ∀ p ∈ condParShapes (some N) raw, p = .vector N := by
    intro p hp
    simp only [condParShapes, List.mem_map] at hp
    obtain ⟨q, hq, rfl⟩ := hp
    rcases hvec q hq with rfl | rfl <;> rfl
  have hne' : condParShapes (some N) raw ≠ [] := by
    simp [condParShapes, hne]
  obtain ⟨init, lst, hsplit⟩ : ∃ init lst, condParShapes (some N) raw = init ++ [lst] := by
    rcases (condParShapes (some N) raw).eq_nil_or_concat with h | ⟨i, b, h⟩
    · exact absurd h hne'
    · exact ⟨i, b, by simpa using h⟩
  have hl : lst = .vector N := hall lst (by rw [hsplit]; simp)
  rw [rvsSize_spec 1 _ N init (by rw [hsplit, hl])]
  simp

/-- worked instance, two dependence functions that both return a scalar (constant functions): the raw
parameter list handed to `_get_rvs_size(1, ·)` WITHOUT the broadcast gives the flat size `1` (one value for
all rows: the behaviour before the repair), whereas `condDrawCount` — the model of the code as it is, which
broadcasts first — draws `N` values. (Second conjunct = `cond_one_draw_per_row` at `[.scalar, .scalar]`.) -/
theorem unbroadcast_constant_draws_once (N : Nat) :
    rvsSize 1 [.scalar, .scalar] = .flat 1 ∧ condDrawCount N [.scalar, .scalar] = N := by
  constructor
  · decide
  · simp [condDrawCount, condParShapes, rvsSize, vecLen?]

/-! ### inversion sampling follows the cdf (real numbers, Lebesgue measure on the unit interval) -/
section inversion
open MeasureTheory Set

/-- **univariate samples match the cdf** for a leaf that samples by inversion: if `Q` is the quantile function of
`F` (`Q u ≤ x ↔ u ≤ F x` on the open unit interval), the uniforms `u` with `Q u ≤ x` have Lebesgue measure `F x`. -/
theorem inverse_transform_cdf (F Q : ℝ → ℝ) (x : ℝ) (h1 : F x ≤ 1)
    (hgal : ∀ u ∈ Ioo (0 : ℝ) 1, Q u ≤ x ↔ u ≤ F x) :
    volume {u | u ∈ Ioo (0 : ℝ) 1 ∧ Q u ≤ x} = ENNReal.ofReal (F x) := by
  rcases lt_or_eq_of_le h1 with hlt | heq
  · have : {u | u ∈ Ioo (0 : ℝ) 1 ∧ Q u ≤ x} = Ioc 0 (F x) := by
      ext u
      constructor
      · rintro ⟨hu, hq⟩
        exact ⟨hu.1, (hgal u hu).1 hq⟩
      · rintro ⟨hu0, huF⟩
        have hu : u ∈ Ioo (0 : ℝ) 1 := ⟨hu0, lt_of_le_of_lt huF hlt⟩
        exact ⟨hu, (hgal u hu).2 huF⟩
    rw [this, Real.volume_Ioc, sub_zero]
  · have : {u | u ∈ Ioo (0 : ℝ) 1 ∧ Q u ≤ x} = Ioo 0 1 := by
      ext u
      constructor
      · rintro ⟨hu, _⟩; exact hu
      · intro hu
        exact ⟨hu, (hgal u hu).2 (by rw [heq]; exact hu.2.le)⟩
    rw [this, Real.volume_Ioo, heq, sub_zero]

/-- cdf and quantile function of the harness's rational double (`harness/doubles.py: RatDist`,
`Model/Doubles.lean`): `F x = z/(z+s)` for `z = x - l > 0`, else `0`; `Q u = l + s·u/(1-u)`. -/
noncomputable def ratF (s l x : ℝ) : ℝ := if 0 < x - l then (x - l) / (x - l + s) else 0
noncomputable def ratQ (s l u : ℝ) : ℝ := l + s * u / (1 - u)

/-- the double's quantile function is the generalised inverse of its cdf -/
theorem ratDouble_galois (s l : ℝ) (hs : 0 < s) (x u : ℝ) (hu : u ∈ Ioo (0 : ℝ) 1) :
    ratQ s l u ≤ x ↔ u ≤ ratF s l x := by
  obtain ⟨hu0, hu1⟩ := hu
  have h1u : 0 < 1 - u := by linarith
  unfold ratQ ratF
  have key : l + s * u / (1 - u) ≤ x ↔ s * u ≤ (x - l) * (1 - u) := by
    rw [← le_sub_iff_add_le', div_le_iff₀ h1u]
  rw [key]
  split
  · rename_i hz
    have hzs : 0 < x - l + s := by linarith
    rw [le_div_iff₀ hzs]
    constructor <;> intro h <;> nlinarith
  · rename_i hz
    have hz' : x - l ≤ 0 := not_lt.mp hz
    constructor
    · intro h
      have : 0 < s * u := mul_pos hs hu0
      nlinarith
    · intro h; linarith

theorem ratF_le_one (s l : ℝ) (hs : 0 < s) (x : ℝ) : ratF s l x ≤ 1 := by
  unfold ratF
  split
  · rename_i hz
    rw [div_le_one (by linarith)]; linarith
  · exact zero_le_one

/-- the doubles' sampler (`l + s·u/(1-u)` of a uniform `u`) follows the double's cdf -/
theorem ratDouble_follows_cdf (s l : ℝ) (hs : 0 < s) (x : ℝ) :
    volume {u | u ∈ Ioo (0 : ℝ) 1 ∧ ratQ s l u ≤ x} = ENNReal.ofReal (ratF s l x) :=
  inverse_transform_cdf (ratF s l) (ratQ s l) x (ratF_le_one s l hs x) (fun u hu => ratDouble_galois s l hs x u hu)

/-- `ratF` / `ratQ` above ARE the model's `ratCdf` / `ratIcdf` (Model/Doubles.lean) at `ℝ`, the functions the
driver runs at `Float` as leaves of `sampleRows` -/
theorem ratF_eq_ratCdf (s l x : ℝ) : ratF s l x = ratCdf s l x := rfl
theorem ratQ_eq_ratIcdf (s l u : ℝ) : ratQ s l u = ratIcdf s l u := rfl

/-- the Galois connection and the cdf law stated on the model's own functions -/
theorem ratDouble_galois_model (s l : ℝ) (hs : 0 < s) (x u : ℝ) (hu : u ∈ Ioo (0 : ℝ) 1) :
    ratIcdf s l u ≤ x ↔ u ≤ ratCdf s l x :=
  ratDouble_galois s l hs x u hu

theorem ratDouble_follows_cdf_model (s l : ℝ) (hs : 0 < s) (x : ℝ) :
    volume {u | u ∈ Ioo (0 : ℝ) 1 ∧ ratIcdf s l u ≤ x} = ENNReal.ofReal (ratCdf s l x) :=
  ratDouble_follows_cdf s l hs x

end inversion

/-! ### non-vacuity -/
example : streamToRows 2 3 #[(10 : Nat), 11, 20, 21, 30, 31] =
    [[some 10, some 20, some 30], [some 11, some 21, some 31]] := by decide
example : sampleRows (fun i => if i = 0 then none else some 0)
    (fun _ g p => match g with | none => p | some x => x + p) [[(1 : Int), 2], [5, 7]] = some [[1, 3], [5, 12]] := by
  decide
example : rvsSize 1 [.scalar, .vector 5] = .matrix 1 5 := by decide
/-- `stream_prefix_determines_rows` is not vacuous: streams that differ beyond the consumed prefix -/
example : streamToRows 1 2 #[(1 : Nat), 2, 99] = streamToRows 1 2 #[1, 2, 7] :=
  stream_prefix_determines_rows 1 2 _ _ (fun k hk => by
    have : k = 0 ∨ k = 1 := by omega
    rcases this with rfl | rfl <;> rfl)

end VirVerif.C07
