/-
C11 — Fixed parameters are honoured at construction, in evaluation and through fitting.

"For every distribution family, a parameter declared fixed (f_<name>) has that value from
construction on, is used by every evaluation, and is still that value (to round-off, 1e-12
relative) after fitting by any supported method to any data, while the non-fixed parameters are
estimated. Fitting succeeds for every proper subset of fixed parameters supported by the method,
and in conditional distributions a fixed parameter has the same value for every conditioning
value."

`Generated/ParamMap.lean` (constructors, calls, ConditionalDistribution) and
`Generated/FitKeywords.lean` (what `_fit_mle` hands to `scipy.stats.<d>.fit`, what `.parameters`
is afterwards, which least-squares fits exist) are what the code says on THIS run (sentinel
execution, harness/sentinel.py); the table theorems are re-proved by `lake build` whenever they
change.  The keyword grammar of scipy's `fit` is the hand-written model `fitTarget`
(Model/Families.lean), compared with the real scipy by harness/c11.py.

clause                                               theorem(s)
---------------------------------------------------  -----------------------------------------------
fixed value from construction on (any call style)    ctor_table_complete, ctor_fixed_wins, ctor_fixed_wins_semantic
used by every evaluation                             C05.override_law (rows with fixed ≠ ∅: `leafFor` puts `farg p`
                                                       into every slot of p), fixed_used_in_evaluation
fitting succeeds for every proper subset (MLE):      fit_table_complete, fit_keywords_accepted_and_targeted
  keywords accepted by scipy's grammar, pin exactly
  the slots the parameter map assigns to the subset,
  at the mapped values
a family without shape parameters (ScipyDistribution  noshape_scipy_shapes, noshape_fit_pins (f_loc ↦ slot `loc` only,
  subclass of gumbel_r declared via `scipy_dist`)      f_scale ↦ slot `scale` only, in scipy's grammar for NO shapes)
still that value after fitting                       fixed_survives_fit_partial (+ simpInv_sound): proven under the
                                                       CONTRACT "fit returns a pinned slot unchanged" and over ℝ
                                                       (log (exp v) = v, 1/(1/v) = v). FULL STATEMENT (scipy honours
                                                       the contract; |after − f| ≤ 1e-12·|f| in floating point; free
                                                       parameters finite and moved) is observed on real fits only.
  draw_sample (not in the generated call table)      no theorem: OBSERVED per run (harness/c11.py check_draw, seeded comparison
                                                       with the instance constructed with the effective values; instance
                                                       and ConditionalDistribution, scalar / array conditioning value)
least squares where implemented                      ew_lsq_supported_sets
conditional distributions: constant in `given`       cond_fixed_const, condParamValue_fixed
defects this found (DESIGN 4 #2, #3, #4)             ctor_counterexample_old_vonmises,
                                                       fit_counterexample_old_gengamma, fit_counterexample_old_vonmises
-/
import VirVerif.Model.Families
import VirVerif.Generated.ParamMap
import VirVerif.Generated.FitKeywords
import Mathlib.Analysis.SpecialFunctions.Log.Basic
import Mathlib.Analysis.SpecialFunctions.Pow.Real
import Mathlib.Tactic.FieldSimp

namespace VirVerif.C11
open VirVerif VirVerif.Generated

/-! ## generated-table theorems (re-proved against the code on every run) -/

theorem ctor_table_complete : ctorTableComplete families ctorRows = true := by decide +kernel

/-- for every family, every subset of fixed parameters and every calling style (values before
or after the `f_` keywords, positional values, every free parameter explicitly `f_<q>=None`, no values at all): a fixed parameter *is* the fixed
value and is remembered as fixed, a free one is the given value / a literal default -/
theorem ctor_fixed_wins : ctorRows.all ctorRowOk = true := by decide +kernel

/-- rows with fixed parameters of the call table: every evaluation method of an instance with
`f_p` set uses the fixed value for `p` (directly, and through a ConditionalDistribution) -/
theorem fixed_used_in_evaluation :
    ((getRows.filter fun r => r.fixed != []).all fun r => getRowOkWith baseMaps[r.fam]? r) = true := by
  decide +kernel

theorem cond_fixed_const : condRows.all condRowOk = true := by decide +kernel

theorem fit_table_complete : fitTableComplete families fitRows = true := by decide +kernel

/-- for every family and every proper subset `S` of fixed parameters: `_fit_mle` calls the scipy
distribution the family evaluates with, every fixing keyword is accepted by scipy's grammar, no
slot is pinned twice, something is left to optimise, exactly the slots the parameter map assigns
to `S` (and the constant slots) are pinned, at the mapped values, and (under the contract) the
fixed parameters come back as their fixed values while the free ones depend on the estimate -/
theorem fit_keywords_accepted_and_targeted :
    fitTableOk families scipyShapes baseMaps fitRows = true := by decide +kernel

/-- scipy reports no shape parameter for the distribution behind family 9 (the Gumbel subclass declared by
`scipy_dist = scipy.stats.gumbel_r`): its slots are `(loc, scale)` only -/
theorem noshape_scipy_shapes :
    (families[9]?.map (·.params)) = some ["loc", "scale"] ∧ (baseMaps[9]?.map (·.1)) = some "gumbel_r" ∧
    shapesOf scipyShapes "gumbel_r" = some [] := by decide +kernel

/-- what `_fit_mle` of the family without shapes pins, read with scipy's grammar for an EMPTY shape list
(`f0` is not a keyword there): nothing / slot 0 = `loc` at `f_loc` / slot 1 = `scale` at `f_scale`; with both
fixed scipy's `fit` is not reached (nothing to estimate) -/
theorem noshape_fit_pins :
    ((fitRows.filter fun r => r.fam == 9).map fun r => (r.fixed, match r.outcome with
        | .called d _ kws => some (d, fixedValue [] kws 0, fixedValue [] kws 1)
        | _ => none)) =
    [([], some ("gumbel_r", none, none)), ([0], some ("gumbel_r", some (.farg 0), none)),
     ([1], some ("gumbel_r", none, some (.farg 1))), ([0, 1], none)] := by decide +kernel

theorem ew_lsq_supported_sets : lsqRows.all (lsqRowOk families) = true := by decide +kernel

/-! ## semantics -/

section semantics
variable {α : Type} [Add α] [Sub α] [Mul α] [Div α] [Neg α]

theorem ctor_fixed_wins_semantic (T : Tr α) (ρ : Env α) (r : CtorRow) (hr : r ∈ ctorRows) :
    ∃ ps fs, r.result = some (ps, fs) ∧
      ∀ p, p ∈ r.fixed → p < ps.length → (ps[p]?.map (PExpr.eval T ρ)) = some (ρ.farg p) := by
  have h := (List.all_eq_true.mp ctor_fixed_wins) r hr
  unfold ctorRowOk at h
  cases hres : r.result with
  | none => rw [hres] at h; exact absurd h (by simp)
  | some pf =>
    obtain ⟨ps, fs⟩ := pf
    rw [hres] at h
    refine ⟨ps, fs, rfl, fun p hp hlt => ?_⟩
    have hp' := (List.all_eq_true.mp h) p (List.mem_range.2 hlt)
    rw [if_pos hp] at hp'
    simp only [Bool.and_eq_true, beq_iff_eq] at hp'
    rw [hp'.1]
    rfl

end semantics

/-- `ConditionalDistribution._get_param_values`: a parameter without a dependence function has
the stored fixed value for every conditioning value -/
theorem condParamValue_fixed {γ β : Type} (v : β) (g g' : γ) :
    condParamValue (none : Option (γ → β)) v g = v ∧
    condParamValue (none : Option (γ → β)) v g = condParamValue (none : Option (γ → β)) v g' :=
  ⟨rfl, rfl⟩

noncomputable def realTr : Tr ℝ :=
  { exp := Real.exp, log := Real.log, pow := fun x y => x ^ y, sqrt := Real.sqrt, cos := Real.cos,
    pi := Real.pi }

/-- the inverse pairs cancelled by `simpInv` are identities over ℝ (`Real.log (Real.exp v) = v`;
`1/(1/v) = v`, also at `v = 0` with Mathlib's `1/0 = 0`) -/
theorem simpInv_sound (ρ : Env ℝ) (h1 : ρ.ofInt 1 = 1) (e : PExpr) :
    e.simpInv.eval realTr ρ = e.eval realTr ρ := by
  unfold PExpr.simpInv
  split
  · simp [PExpr.eval, realTr]
  · simp [PExpr.eval, h1]
  · rfl

/-- FULL STATEMENT (observed only): after `fit` on any data the fixed parameter equals its fixed
value within 1e-12 relative and the free ones are estimated.
Proven part: if `afterOk` holds for a recorded `_fit_mle` run (it does for every proper subset of
every family, `fit_keywords_accepted_and_targeted`), then under the contract "a pinned slot is
returned unchanged" (`afterFit`) every fixed parameter evaluates, over ℝ and for every valuation
of the symbols, to its fixed value. -/
theorem fixed_survives_fit_partial (ρ : Env ℝ) (h1 : ρ.ofInt 1 = 1) (r : FitRow)
    (shapes : List String) (kws : List (String × PExpr)) (hok : afterOk r shapes kws = true)
    (p : Nat) (hp : p ∈ r.fixed) (hlt : p < r.after.length) :
    (r.after[p]?.map fun e => (afterFit shapes kws e).eval realTr ρ) = some (ρ.farg p) := by
  unfold afterOk at hok
  have h := (List.all_eq_true.mp hok) p (List.mem_range.2 hlt)
  cases he : r.after[p]? with
  | none => rw [he] at h; exact absurd h (by simp)
  | some e =>
    rw [he] at h
    simp only [if_pos hp, beq_iff_eq] at h
    simp only [Option.map_some]
    rw [← simpInv_sound ρ h1, h]
    rfl

/-! ## the old code, as counterexamples (what the proof attempts produced) -/

/-- `VonMisesDistribution(kappa=…, mu=…, f_kappa=…)` before the fix stored the plain value -/
theorem ctor_counterexample_old_vonmises :
    ctorRowOk { fam := 6, given := [0, 1], fixed := [0], order := 0,
                result := some ([.arg 0, .arg 1], [some (.farg 0), none]) } = false := by decide

/-- `GeneralizedGammaDistribution(f_m=…)._fit_mle` before the fix: `fshape1` is not in the grammar -/
theorem fit_counterexample_old_gengamma :
    fitTarget ["a", "c"] "fshape1" = none ∧ fitTarget ["a", "c"] "fshape2" = none ∧
    kwsAccepted ["a", "c"] [("scale", .div (.int 1) (.arg 2)), ("floc", .int 0), ("fshape1", .farg 0)]
      = false := by decide

/-- `VonMisesDistribution(f_kappa=…)._fit_mle` before the fix: `fshape` is not in the grammar -/
theorem fit_counterexample_old_vonmises :
    fitTarget ["kappa"] "fshape" = none ∧
    kwsAccepted ["kappa"] [("loc", .arg 1), ("scale", .int 1), ("fscale", .int 1), ("fshape", .farg 0)]
      = false := by decide

/-! ## non-vacuity -/

example : fitTarget ["a", "c"] "f0" = some 0 ∧ fitTarget ["a", "c"] "f1" = some 1 ∧
    fitTarget ["a", "c"] "fa" = some 0 ∧ fitTarget ["a", "c"] "fix_c" = some 1 ∧
    fitTarget ["a", "c"] "floc" = some 2 ∧ fitTarget ["a", "c"] "fscale" = some 3 ∧
    fitTarget ["a", "c"] "f2" = none ∧ fitTarget ["a", "c"] "f00" = none ∧
    fitTarget [] "f0" = none := by decide
/-- a generated row with a proper subset fixed that passes the whole obligation -/
example : ∃ r ∈ fitRows, r.fam = 5 ∧ r.fixed = [0, 2] ∧
    fitRowOk scipyShapes baseMaps[r.fam]? r = true := by decide +kernel
example : ∃ r ∈ fitRows, r.fam = 9 ∧ r.fixed = [1] ∧
    fitRowOk scipyShapes baseMaps[r.fam]? r = true := by decide +kernel
example : fitTarget [] "floc" = some 0 ∧ fitTarget [] "fscale" = some 1 ∧ fitTarget [] "floc0" = none := by decide
example : ∃ r ∈ ctorRows, r.fam = 9 ∧ r.fixed = [0] ∧ r.given = [] ∧
    r.result = some ([.farg 0, .int 1], [some (.farg 0), none]) := by decide +kernel
/-- calling style 3 (`loc=…, scale=…, f_loc=…, f_scale=None`): the free parameter keeps its value, unmarked -/
example : ∃ r ∈ ctorRows, r.fam = 9 ∧ r.fixed = [0] ∧ r.order = 3 ∧
    r.result = some ([.farg 0, .arg 1], [some (.farg 0), none]) := by decide +kernel
example : ∃ r ∈ ctorRows, r.fam = 6 ∧ r.fixed = [0] ∧ r.order = 1 ∧ ctorRowOk r = true := by
  decide +kernel
example : ∃ r ∈ lsqRows, r.fam = 4 ∧ r.fixed = [2] ∧ r.ok = true ∧ r.kept = true := by decide +kernel
example : (PExpr.log (.exp (.farg 0))).simpInv = .farg 0 ∧
    (PExpr.div (.int 1) (.div (.int 1) (.farg 2))).simpInv = .farg 2 := by decide

end VirVerif.C11
