/-
C11 — Fixed parameters are honoured at construction, in evaluation and through fitting.

"For every distribution family, a parameter declared fixed (f_<name>) has that value from
construction on, is used by every evaluation, and is still that value (to round-off, 1e-12
relative) after fitting by any supported method to any data, while the non-fixed parameters are
estimated. Fitting succeeds for every proper subset of fixed parameters supported by the method,
and in conditional distributions a fixed parameter has the same value for every conditioning
value."

`Generated/ParamMap.lean` (constructors, calls, ConditionalDistribution) and
`Generated/FitKeywords.lean` (what `_fit_mle` hands to `scipy.stats.<d>.fit`, what `.parameters`
is afterwards, which least-squares fits exist) are what the code says on THIS run (sentinel
execution, harness/sentinel.py); the table theorems are re-proved by `lake build` whenever they
change.  The keyword grammar of scipy's `fit` is the hand-written model `fitTarget`
(Model/Families.lean), compared with the real scipy by harness/c11.py.

clause                                               theorem(s)
---------------------------------------------------  -----------------------------------------------
fixed value from construction on (any call style)    ctor_table_complete, ctor_fixed_wins (incl. one entry per parameter of
                                                       the family), ctor_fixed_wins_semantic (every parameter of the family)
used by every evaluation                             C05.override_law (rows with fixed ≠ ∅: `leafFor` puts `farg p`
                                                       into every slot of p), fixed_used_in_evaluation (the rows obey the
                                                       override law AND return, except the one documented refusal),
                                                       fixed_evaluation_returns
fitting succeeds for every proper subset (MLE):      fit_table_complete, fit_keywords_accepted_and_targeted (incl.
                                                       `.parameters` afterwards has one entry per parameter of the family)
  keywords accepted by scipy's grammar, pin exactly
  the slots the parameter map assigns to the subset,
  at the mapped values
a family without shape parameters (ScipyDistribution  noshape_scipy_shapes, noshape_fit_pins (f_loc ↦ slot `loc` only,
  subclass of gumbel_r declared via `scipy_dist`)      f_scale ↦ slot `scale` only, in scipy's grammar for NO shapes)
still that value after fitting                       fixed_survives_fit_partial (+ simpInv_sound), applied to every
                                                       generated row by fixed_survives_fit_rows_partial: proven under the
                                                       CONTRACT "fit returns a pinned slot unchanged" and over ℝ
                                                       (log (exp v) = v, 1/(1/v) = v). FULL STATEMENT (scipy honours
                                                       the contract; |after − f| ≤ 1e-12·|f| in floating point; free
                                                       parameters finite and moved) is observed on real fits only.
  draw_sample (not in the generated call table)      no theorem: OBSERVED per run (harness/c11.py check_draw, seeded comparison
                                                       with the instance constructed with the effective values; instance
                                                       and ConditionalDistribution, scalar / array conditioning value)
least squares where implemented                      ew_lsq_supported_sets_observed: `ok` / `kept` of an `LsqRow` are booleans
                                                       recorded from ONE concrete `_fit_lsq` run per (family, fixed set) on a
                                                       fixed sample; the theorem is about that recorded table (which fixed sets
                                                       are implemented / refused), NOT about all data (observed: harness/c11.py)
conditional distributions: constant in `given`       cond_table_complete, cond_fixed_const (one entry per parameter of the family),
                                                       cond_fixed_const_semantic
                                                       (condParamValue_fixed_trivial: `rfl` about a definition used nowhere
                                                       else; not part of the evidence for the clause)
defects this found (DESIGN 4 #2, #3, #4)             ctor_counterexample_old_vonmises,
                                                       fit_counterexample_old_gengamma, fit_counterexample_old_vonmises
-/
import VirVerif.Model.Families
import VirVerif.Generated.ParamMap
import VirVerif.Generated.FitKeywords
import Mathlib.Analysis.SpecialFunctions.Log.Basic
import Mathlib.Analysis.SpecialFunctions.Pow.Real
import Mathlib.Tactic.FieldSimp

namespace VirVerif.C11
open VirVerif VirVerif.Generated

/-! ## generated-table theorems (re-proved against the code on every run) -/

theorem ctor_table_complete : ctorTableComplete families ctorRows = true := by decide +kernel

/-- for every family, every subset of fixed parameters and every calling style (values before
or after the `f_` keywords, positional values, every free parameter explicitly `f_<q>=None`, no values at all): a fixed parameter *is* the fixed
value and is remembered as fixed, a free one is the given value / a literal default -/
theorem ctor_fixed_wins : ctorRows.all (ctorRowOk families) = true := by decide +kernel

/-- rows with fixed parameters of the call table: every evaluation method of an instance with
`f_p` set uses the fixed value for `p` (directly, and through a ConditionalDistribution).
`getRowOkWith` alone accepts a row whose call RAISED (`result = none`); the second conjunct
(`raiseOk`, the predicate of `C05.refusal_only_documented`) closes that: the call returns unless it
is the one documented refusal (LogNormalNormFit with exactly one explicit parameter). -/
theorem fixed_used_in_evaluation :
    ((getRows.filter fun r => r.fixed != []).all fun r =>
      getRowOkWith baseMaps[r.fam]? r && raiseOk families r) = true := by
  decide +kernel

/-- the rows in which the fixed value is the one in force for every fixed parameter (nothing
explicit, or through a ConditionalDistribution) all RETURN and obey the override law: no fixed
evaluation passes by raising -/
theorem fixed_evaluation_returns :
    ((getRows.filter fun r => r.fixed != [] && (r.expl == [] || r.mode == 2)).all fun r =>
      r.result.isSome && getRowOkWith baseMaps[r.fam]? r) = true := by
  decide +kernel

/-- for every family and every subset of fixed parameters `ConditionalDistribution._get_param_values`
returns one value per parameter of the family: the fixed value (no leaf depending on the
conditioning value) for a fixed one, the dependence function's value for any other -/
theorem cond_fixed_const : condRows.all (condRowOk families) = true := by decide +kernel

/-- `condRows` has a row for every family and every NON-EMPTY subset of fixed parameters -/
theorem cond_table_complete :
    ((List.range families.length).all fun i => match families[i]? with
      | none => false
      | some f => (subsetsBelow f.params.length).all fun F =>
          F == [] || condRows.any fun r => r.fam == i && r.fixed == F) = true := by decide +kernel

theorem fit_table_complete : fitTableComplete families fitRows = true := by decide +kernel

/-- for every family and every proper subset `S` of fixed parameters: `_fit_mle` calls the scipy
distribution the family evaluates with, every fixing keyword is accepted by scipy's grammar, no
slot is pinned twice, something is left to optimise, exactly the slots the parameter map assigns
to `S` (and the constant slots) are pinned, at the mapped values, and (under the contract) the
fixed parameters come back as their fixed values while the free ones depend on the estimate -/
theorem fit_keywords_accepted_and_targeted :
    fitTableOk families scipyShapes baseMaps fitRows = true := by decide +kernel

/-- scipy reports no shape parameter for the distribution behind family 9 (the Gumbel subclass declared by
`scipy_dist = scipy.stats.gumbel_r`): its slots are `(loc, scale)` only -/
theorem noshape_scipy_shapes :
    (families[9]?.map (·.params)) = some ["loc", "scale"] ∧ (baseMaps[9]?.map (·.1)) = some "gumbel_r" ∧
    shapesOf scipyShapes "gumbel_r" = some [] := by decide +kernel

/-- what `_fit_mle` of the family without shapes pins, read with scipy's grammar for an EMPTY shape list
(`f0` is not a keyword there): nothing / slot 0 = `loc` at `f_loc` / slot 1 = `scale` at `f_scale`; with both
fixed scipy's `fit` is not reached (nothing to estimate) -/
theorem noshape_fit_pins :
    ((fitRows.filter fun r => r.fam == 9).map fun r => (r.fixed, match r.outcome with
        | .called d _ kws => some (d, fixedValue [] kws 0, fixedValue [] kws 1)
        | _ => none)) =
    [([], some ("gumbel_r", none, none)), ([0], some ("gumbel_r", some (.farg 0), none)),
     ([1], some ("gumbel_r", none, some (.farg 1))), ([0, 1], none)] := by decide +kernel

/-- OBSERVED TABLE, not a theorem about all data: `LsqRow.ok` / `.kept` are booleans recorded from
ONE concrete `fit(data, "lsq")` run per (family, fixed set) on a fixed sample of THIS run. What is
proved is that in this record least squares returned with the fixed parameters bit-identical exactly
for the exponentiated Weibull with nothing / only `delta` fixed and refused with
`NotImplementedError` everywhere else. "Kept for any data" is observed by harness/c11.py. -/
theorem ew_lsq_supported_sets_observed : lsqRows.all (lsqRowOk families) = true := by decide +kernel

/-! ## semantics -/

section semantics
variable {α : Type} [Add α] [Sub α] [Mul α] [Div α] [Neg α]

/-- semantic reading of `ctor_fixed_wins` for EVERY parameter of the family (not only the recorded
ones): the row records one value and one `f_` attribute per parameter; for every valuation of the
symbols a fixed parameter evaluates to the fixed value and is remembered as fixed, a free one is
not marked fixed and, if a value was given, evaluates to that value. -/
theorem ctor_fixed_wins_semantic (T : Tr α) (ρ : Env α) (r : CtorRow) (hr : r ∈ ctorRows) :
    ∃ f ps fs, families[r.fam]? = some f ∧ r.result = some (ps, fs) ∧
      ps.length = f.params.length ∧ fs.length = f.params.length ∧
      ∀ p, p < f.params.length →
        (p ∈ r.fixed → (ps[p]?.map (PExpr.eval T ρ)) = some (ρ.farg p) ∧
          fs[p]? = some (some (.farg p))) ∧
        (p ∉ r.fixed → fs[p]? = some none ∧
          (p ∈ r.given → (ps[p]?.map (PExpr.eval T ρ)) = some (ρ.arg p))) := by
  have h := (List.all_eq_true.mp ctor_fixed_wins) r hr
  unfold ctorRowOk at h
  cases hres : r.result with
  | none => rw [hres] at h; exact absurd h (by simp)
  | some pf =>
    obtain ⟨ps, fs⟩ := pf
    cases hf : families[r.fam]? with
    | none => rw [hres, hf] at h; exact absurd h (by simp)
    | some f =>
      rw [hres, hf] at h
      simp only [Bool.and_eq_true, beq_iff_eq] at h
      obtain ⟨⟨hl1, hl2⟩, hall⟩ := h
      refine ⟨f, ps, fs, rfl, rfl, hl1, hl2, fun p hlt => ?_⟩
      have hp' := (List.all_eq_true.mp hall) p (List.mem_range.2 hlt)
      refine ⟨fun hp => ?_, fun hp => ?_⟩
      · rw [if_pos hp] at hp'
        simp only [Bool.and_eq_true, beq_iff_eq] at hp'
        rw [hp'.1]
        exact ⟨rfl, hp'.2⟩
      · rw [if_neg hp] at hp'
        simp only [Bool.and_eq_true, beq_iff_eq] at hp'
        refine ⟨hp'.1, fun hg => ?_⟩
        have h2 := hp'.2
        rw [if_pos hg] at h2
        rw [beq_iff_eq.mp h2]
        rfl

/-- semantic reading of `cond_fixed_const`: for every generated row and every parameter `p` of the
family that is fixed, the value `_get_param_values` returns for `p` evaluates to the fixed value
under ANY two valuations that agree on the fixed values (in particular: for any two conditioning
values, which only enter through the `dep` leaves) -/
theorem cond_fixed_const_semantic (T : Tr α) (ρ ρ' : Env α) (hfx : ρ.farg = ρ'.farg)
    (r : CondRow) (hr : r ∈ condRows) :
    ∃ f ps, families[r.fam]? = some f ∧ r.result = some ps ∧ ps.length = f.params.length ∧
      ∀ p, p < f.params.length → p ∈ r.fixed →
        (ps[p]?.map (PExpr.eval T ρ)) = some (ρ.farg p) ∧
        (ps[p]?.map (PExpr.eval T ρ)) = (ps[p]?.map (PExpr.eval T ρ')) := by
  have h := (List.all_eq_true.mp cond_fixed_const) r hr
  unfold condRowOk at h
  cases hres : r.result with
  | none => rw [hres] at h; exact absurd h (by simp)
  | some ps =>
    cases hf : families[r.fam]? with
    | none => rw [hres, hf] at h; exact absurd h (by simp)
    | some f =>
      rw [hres, hf] at h
      simp only [Bool.and_eq_true, beq_iff_eq] at h
      obtain ⟨hl, hall⟩ := h
      refine ⟨f, ps, rfl, rfl, hl, fun p hlt hp => ?_⟩
      have hp' := (List.all_eq_true.mp hall) p (List.mem_range.2 hlt)
      rw [if_pos hp] at hp'
      rw [beq_iff_eq.mp hp']
      refine ⟨rfl, ?_⟩
      show some (ρ.farg p) = some (ρ'.farg p)
      rw [hfx]

end semantics

/-- TRIVIAL (`rfl` twice): unfolds the definition `condParamValue`, which nothing else uses (the
driver does not run it, no table refers to it). Kept for the record only; the clause "constant in
the conditioning value" rests on `cond_fixed_const` / `cond_fixed_const_semantic`. -/
theorem condParamValue_fixed_trivial {γ β : Type} (v : β) (g g' : γ) :
    condParamValue (none : Option (γ → β)) v g = v ∧
    condParamValue (none : Option (γ → β)) v g = condParamValue (none : Option (γ → β)) v g' :=
  ⟨rfl, rfl⟩

noncomputable def realTr : Tr ℝ :=
  { exp := Real.exp, log := Real.log, pow := fun x y => x ^ y, sqrt := Real.sqrt, cos := Real.cos,
    pi := Real.pi }

/-- the inverse pairs cancelled by `simpInv` are identities over ℝ (`Real.log (Real.exp v) = v`;
`1/(1/v) = v`, also at `v = 0` with Mathlib's `1/0 = 0`) -/
theorem simpInv_sound (ρ : Env ℝ) (h1 : ρ.ofInt 1 = 1) (e : PExpr) :
    e.simpInv.eval realTr ρ = e.eval realTr ρ := by
  unfold PExpr.simpInv
  split
  · simp [PExpr.eval, realTr]
  · simp [PExpr.eval, h1]
  · rfl

/-- FULL STATEMENT (observed only): after `fit` on any data the fixed parameter equals its fixed
value within 1e-12 relative and the free ones are estimated.
Proven part: if `afterOk` holds for a recorded `_fit_mle` run (it does for every proper subset of
every family, `fit_keywords_accepted_and_targeted`), then under the contract "a pinned slot is
returned unchanged" (`afterFit`) every fixed parameter evaluates, over ℝ and for every valuation
of the symbols, to its fixed value. -/
theorem fixed_survives_fit_partial (ρ : Env ℝ) (h1 : ρ.ofInt 1 = 1) (r : FitRow)
    (shapes : List String) (kws : List (String × PExpr)) (hok : afterOk r shapes kws = true)
    (p : Nat) (hp : p ∈ r.fixed) (hlt : p < r.after.length) :
    (r.after[p]?.map fun e => (afterFit shapes kws e).eval realTr ρ) = some (ρ.farg p) := by
  unfold afterOk at hok
  have h := (List.all_eq_true.mp hok) p (List.mem_range.2 hlt)
  cases he : r.after[p]? with
  | none => rw [he] at h; exact absurd h (by simp)
  | some e =>
    rw [he] at h
    simp only [if_pos hp, beq_iff_eq] at h
    simp only [Option.map_some]
    rw [← simpInv_sound ρ h1, h]
    rfl

/-- shape names and keywords in force for a recorded `_fit_mle` run (`notCalled`: no keywords) -/
def fitKws (r : FitRow) : Option (List String × List (String × PExpr)) :=
  match r.outcome with
  | .called dist _ kws => (shapesOf scipyShapes dist).map fun sh => (sh, kws)
  | .notCalled => some ([], [])
  | .raised _ => none

/-- `fixed_survives_fit_partial` tied to the generated table (same CONTRACT, same FULL STATEMENT
missing): for EVERY recorded `_fit_mle` run with a proper subset of the family's parameters fixed,
the run did not raise, scipy knows the distribution called, `.parameters` afterwards has one entry
per parameter of the family, and every fixed parameter of the family evaluates over ℝ, for every
valuation of the symbols, to its fixed value. -/
theorem fixed_survives_fit_rows_partial (ρ : Env ℝ) (h1 : ρ.ofInt 1 = 1) (r : FitRow)
    (hr : r ∈ fitRows) (f : Family) (hf : families[r.fam]? = some f)
    (hproper : r.fixed.length < f.params.length) :
    ∃ shapes kws, fitKws r = some (shapes, kws) ∧ r.after.length = f.params.length ∧
      ∀ p, p ∈ r.fixed → p < f.params.length →
        (r.after[p]?.map fun e => (afterFit shapes kws e).eval realTr ρ) = some (ρ.farg p) := by
  have h := (List.all_eq_true.mp fit_keywords_accepted_and_targeted) r hr
  simp only [hf, Bool.and_eq_true, beq_iff_eq, Bool.or_eq_true, Bool.not_eq_true',
    decide_eq_false_iff_not] at h
  obtain ⟨hlen, hor⟩ := h
  have hrow : fitRowOk scipyShapes baseMaps[r.fam]? r = true := by
    rcases hor with h | h
    · exact absurd hproper h
    · exact h
  unfold fitRowOk at hrow
  unfold fitKws
  cases hout : r.outcome with
  | raised e => rw [hout] at hrow; exact absurd hrow (by simp)
  | notCalled =>
    rw [hout] at hrow
    refine ⟨[], [], rfl, hlen, fun p hp hlt => ?_⟩
    exact fixed_survives_fit_partial ρ h1 r [] [] hrow p hp (hlen ▸ hlt)
  | called dist starts kws =>
    rw [hout] at hrow
    cases hsh : shapesOf scipyShapes dist with
    | none => simp [hsh] at hrow
    | some shapes =>
      cases hb : baseMaps[r.fam]? with
      | none => simp [hsh, hb] at hrow
      | some b =>
        obtain ⟨d0, slots⟩ := b
        simp only [hsh, hb, Bool.and_eq_true] at hrow
        refine ⟨shapes, kws, by simp [hsh], hlen, fun p hp hlt => ?_⟩
        exact fixed_survives_fit_partial ρ h1 r shapes kws hrow.2 p hp (hlen ▸ hlt)

/-! ## the old code, as counterexamples (what the proof attempts produced) -/

/-- `VonMisesDistribution(kappa=…, mu=…, f_kappa=…)` before the fix stored the plain value -/
theorem ctor_counterexample_old_vonmises :
    ctorRowOk families { fam := 6, given := [0, 1], fixed := [0], order := 0,
                         result := some ([.arg 0, .arg 1], [some (.farg 0), none]) } = false := by decide +kernel

/-- `GeneralizedGammaDistribution(f_m=…)._fit_mle` before the fix: `fshape1` is not in the grammar -/
theorem fit_counterexample_old_gengamma :
    fitTarget ["a", "c"] "fshape1" = none ∧ fitTarget ["a", "c"] "fshape2" = none ∧
    kwsAccepted ["a", "c"] [("scale", .div (.int 1) (.arg 2)), ("floc", .int 0), ("fshape1", .farg 0)]
      = false := by decide

/-- `VonMisesDistribution(f_kappa=…)._fit_mle` before the fix: `fshape` is not in the grammar -/
theorem fit_counterexample_old_vonmises :
    fitTarget ["kappa"] "fshape" = none ∧
    kwsAccepted ["kappa"] [("loc", .arg 1), ("scale", .int 1), ("fscale", .int 1), ("fshape", .farg 0)]
      = false := by decide

/-! ## non-vacuity -/

example : fitTarget ["a", "c"] "f0" = some 0 ∧ fitTarget ["a", "c"] "f1" = some 1 ∧
    fitTarget ["a", "c"] "fa" = some 0 ∧ fitTarget ["a", "c"] "fix_c" = some 1 ∧
    fitTarget ["a", "c"] "floc" = some 2 ∧ fitTarget ["a", "c"] "fscale" = some 3 ∧
    fitTarget ["a", "c"] "f2" = none ∧ fitTarget ["a", "c"] "f00" = none ∧
    fitTarget [] "f0" = none := by decide
/-- a generated row with a proper subset fixed that passes the whole obligation -/
example : ∃ r ∈ fitRows, r.fam = 5 ∧ r.fixed = [0, 2] ∧
    fitRowOk scipyShapes baseMaps[r.fam]? r = true := by decide +kernel
example : ∃ r ∈ fitRows, r.fam = 9 ∧ r.fixed = [1] ∧
    fitRowOk scipyShapes baseMaps[r.fam]? r = true := by decide +kernel
example : fitTarget [] "floc" = some 0 ∧ fitTarget [] "fscale" = some 1 ∧ fitTarget [] "floc0" = none := by decide
example : ∃ r ∈ ctorRows, r.fam = 9 ∧ r.fixed = [0] ∧ r.given = [] ∧
    r.result = some ([.farg 0, .int 1], [some (.farg 0), none]) := by decide +kernel
/-- calling style 3 (`loc=…, scale=…, f_loc=…, f_scale=None`): the free parameter keeps its value, unmarked -/
example : ∃ r ∈ ctorRows, r.fam = 9 ∧ r.fixed = [0] ∧ r.order = 3 ∧
    r.result = some ([.farg 0, .arg 1], [some (.farg 0), none]) := by decide +kernel
example : ∃ r ∈ ctorRows, r.fam = 6 ∧ r.fixed = [0] ∧ r.order = 1 ∧ ctorRowOk families r = true := by
  decide +kernel
example : ∃ r ∈ lsqRows, r.fam = 4 ∧ r.fixed = [2] ∧ r.ok = true ∧ r.kept = true := by decide +kernel
example : (PExpr.log (.exp (.farg 0))).simpInv = .farg 0 ∧
    (PExpr.div (.int 1) (.div (.int 1) (.farg 2))).simpInv = .farg 2 := by decide

/-- the parameter-count conjuncts are not idle: rows that dropped a parameter are rejected
(before this round `ctorRowOk`, `condRowOk`, `afterOk` ran over the RECORDED list and accepted them) -/
example : ctorRowOk families { fam := 0, given := [], fixed := [], order := 0, result := some ([], []) } = false ∧
    condRowOk families { fam := 0, fixed := [0], result := some [] } = false ∧
    fitTableOk families scipyShapes baseMaps [{ fam := 0, fixed := [0], outcome := .notCalled, after := [] }]
      = false := by decide +kernel
/-- `fixed_survives_fit_rows_partial` is not vacuous: a generated row with a proper subset fixed -/
example : ∃ r ∈ fitRows, ∃ f ∈ families, families[r.fam]? = some f ∧ r.fixed = [0] ∧
    r.fixed.length < f.params.length := by
  decide +kernel
/-- a row of a fixed evaluation that returned (so `fixed_evaluation_returns` speaks about something) -/
example : ∃ r ∈ getRows, r.fixed = [0] ∧ r.expl = [] ∧ r.result.isSome = true := by decide +kernel

end VirVerif.C11
