/-
C11 (table part, draft)
-/
import VirVerif.Model.Families
import VirVerif.Generated.ParamMap
import VirVerif.Generated.FitKeywords

namespace VirVerif.C11
open VirVerif VirVerif.Generated

theorem ctor_table_complete : ctorTableComplete families ctorRows = true := by decide +kernel
theorem ctor_fixed_wins : ctorRows.all ctorRowOk = true := by decide +kernel
theorem cond_fixed_const : condRows.all condRowOk = true := by decide +kernel
theorem fit_table_complete : fitTableComplete families fitRows = true := by decide +kernel
theorem fit_keywords_accepted_and_targeted :
    fitTableOk families scipyShapes baseMaps fitRows = true := by decide +kernel
theorem ew_lsq_supported_sets : lsqRows.all (lsqRowOk families) = true := by decide +kernel

end VirVerif.C11
