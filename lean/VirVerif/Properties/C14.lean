/-
C14 — Dependence functions are fitted within bounds, optimally, in dependency order.

  "Fitting a dependence function yields parameters inside their declared bounds and satisfying
   their declared inequality constraints, whose (weighted) squared residual is no larger than at
   the start parameters or at any nearby admissible perturbation; for shapes linear in their
   parameters (inactive bounds, no constraints) it is the unique linear least-squares solution.
   A dependence function that uses other dependence functions as parameters ends up with the
   parameters obtained by fitting it after all of those have been fitted, whatever the order in
   which they are declared or fitted and also when a model is re-fitted, so that the result is
   independent of that order (within optimiser tolerance)."

Clause → theorem                                   (model: Model/DepProtocol.lean, Model/DepFit.lean)
  declaration order is a dependency order           declaration_is_topological
  the callback recursion terminates                 callbacks_terminate
  fitted after all conditioners, ANY history        no_stale_after_any_history  (versions),
    (any declaration order, any order/multiplicity  final_fit_after_conditioners (event log),
     of fit calls, re-fit)                          version_eq_count_log
  everything called ⇒ everything fitted             all_called_all_fitted
  both together (⇒ order independence: the final    final_state_consistent
    fits happen in a dependency-compatible order)
  intermediate fit may see an unfitted conditioner  intermediate_fit_may_see_unfitted_conditioner (witness)
  the `issubset` test of `callback` never fails     callback_true
  bounds handed to curve_fit = declared bounds      convertBounds_spec, convertBounds_length
  declared constraints reach the optimiser          constraints_reach_optimiser, unconstrained_uses_curve_fit,
                                                    constrained_weighted_refused;
                                                    constraints_dropped_counterexample (code before the repair)
  linear shapes: solution of the normal equations   normal_equations_minimise, isNormalSolution_sound,
    minimises / is unique                           normal_equations_unique, affineLsq_normal, affineLsq_minimises

NOT theorems (observed on the real code by the harness on every explored case, see claims/C14.json):
  `optimality_partial`: that curve_fit / SLSQP actually return parameters inside the bounds,
  satisfying the constraints, with residual ≤ residual(start) and ≤ residual(nearby admissible
  points), and that for linear shapes they return the solution of the normal equations.  Full
  statement: ∀ shape f, data, bounds, constraints, start p0 admissible:
     popt := fit f … ⊢ Admissible bounds popt ∧ constraints popt ≥ 0 ∧ S popt ≤ S p0 ∧
                        ∃ ε > 0, ∀ q admissible, ‖q − popt‖ < ε → S popt ≤ S q.
  What is missing is a model of scipy's optimisers.
-/
import VirVerif.Model.DepProtocol
import VirVerif.Model.DepFit
import Mathlib.Data.List.Basic
import Mathlib.Tactic.Linarith
import Mathlib.Tactic.Ring
import Mathlib.Tactic.LinearCombination
import Mathlib.Tactic.FieldSimp
import Mathlib.Algebra.Order.Field.Basic

namespace VirVerif.C14
open VirVerif.Dep

/-! ## Part 1 — the callback protocol -/

/-- conditioners are declared before their dependents -/
def WF (conds : Nat → List Nat) : Prop := ∀ f g, g ∈ conds f → g < f

/-- `h`'s last `_fit` did not see the current version of its conditioner `g` -/
def Stale (conds : Nat → List Nat) (s : Mut) (h g : Nat) : Prop :=
  0 < s.version h ∧ g ∈ conds h ∧ s.seen h g ≠ s.version g

def Good (s : Mut) : Prop := ∀ h, 0 < s.version h → s.hasXY h = true

/-- `_fitted_conditioners ⊆ dependent_parameters.values()` -/
def FcSub (conds : Nat → List Nat) (s : Mut) : Prop := ∀ h g, g ∈ s.fitted h → g ∈ conds h

def NoStale (N : Nat) (conds : Nat → List Nat) (s : Mut) : Prop :=
  ∀ h g, h < N → ¬ Stale conds s h g

/-- state after the bookkeeping part of `h.callback(f)` -/
def allow (s : Mut) (f h : Nat) : Mut :=
  { s with fitted := upd s.fitted h (insertNew f (s.fitted h)), mayFit := upd s.mayFit h true }

@[simp] theorem upd_same {β} (f : Nat → β) (i : Nat) (v : β) : upd f i v i = v := by simp [upd]
theorem upd_other {β} (f : Nat → β) (i j : Nat) (v : β) (h : j ≠ i) : upd f i v j = f j := by
  simp [upd, h]

theorem mem_dependents {N conds f h} : h ∈ dependents N conds f ↔ h < N ∧ f ∈ conds h := by
  simp only [dependents, List.mem_flatMap, List.mem_range, List.mem_map, List.mem_filter]
  constructor
  · rintro ⟨a, ha, g, ⟨hg, hgf⟩, rfl⟩
    have : g = f := by simpa using hgf
    exact ⟨ha, this ▸ hg⟩
  · rintro ⟨hN, hf⟩
    exact ⟨h, hN, f, ⟨hf, by simp⟩, rfl⟩

theorem mem_insertNew {a b : Nat} {l : List Nat} : b ∈ insertNew a l ↔ b = a ∨ b ∈ l := by
  unfold insertNew
  by_cases hc : l.contains a = true
  · rw [if_pos hc]
    have : a ∈ l := by simpa using hc
    constructor
    · exact Or.inr
    · rintro (rfl | h)
      · exact this
      · exact h
  · rw [if_neg hc]
    simp [or_comm]

/-- the `issubset` test in `callback` can never fail -/
theorem callback_true (conds : Nat → List Nat) (refit : Nat → Mut → Mut) (f : Nat) (s : Mut) (h : Nat)
    (hsub : FcSub conds s) (hf : f ∈ conds h) :
    callback conds refit f s h = if s.hasXY h then refit h (allow s f h) else allow s f h := by
  have hall : ((upd s.fitted h (insertNew f (s.fitted h))) h).all
      (fun g => (conds h).contains g) = true := by
    rw [upd_same, List.all_eq_true]
    intro g hg
    rcases mem_insertNew.mp hg with rfl | hg
    · simpa using hf
    · simpa using hsub h g hg
  unfold callback
  dsimp only
  rw [if_pos hall]
  rfl

theorem allow_fcSub {conds : Nat → List Nat} {s : Mut} {f h : Nat} (hsub : FcSub conds s)
    (hf : f ∈ conds h) : FcSub conds (allow s f h) := by
  intro k g hg
  by_cases hk : k = h
  · subst hk
    have hg' : g ∈ insertNew f (s.fitted k) := by
      have : (allow s f k).fitted k = insertNew f (s.fitted k) := upd_same _ _ _
      rw [← this]; exact hg
    rcases mem_insertNew.mp hg' with rfl | hg''
    · exact hf
    · exact hsub k g hg''
  · have : (allow s f h).fitted k = s.fitted k := upd_other _ _ _ _ hk
    rw [this] at hg
    exact hsub k g hg

theorem foldl_callback_cons (conds : Nat → List Nat) (refit : Nat → Mut → Mut) (f : Nat) (t : Mut)
    (d : Nat) (ds : List Nat) (hsub : FcSub conds t) (hf : f ∈ conds d) :
    (d :: ds).foldl (callback conds refit f) t =
      ds.foldl (callback conds refit f)
        (if t.hasXY d then refit d (allow t f d) else allow t f d) := by
  rw [List.foldl_cons, callback_true conds refit f t d hsub hf]

theorem doFit_fcSub (N : Nat) (conds : Nat → List Nat) :
    ∀ fuel f s, FcSub conds s → FcSub conds (doFit N conds fuel f s) := by
  intro fuel
  induction fuel with
  | zero => intro f s hs; exact hs
  | succ fuel ih =>
    intro f s hs
    simp only [doFit]
    have loop : ∀ (ds : List Nat) (t : Mut), (∀ d ∈ ds, f ∈ conds d) → FcSub conds t →
        FcSub conds (ds.foldl (callback conds (doFit N conds fuel) f) t) := by
      intro ds
      induction ds with
      | nil => intro t _ ht; exact ht
      | cons d ds ihds =>
        intro t hds ht
        have hd := hds d (by simp)
        rw [foldl_callback_cons _ _ _ _ _ _ ht hd]
        apply ihds _ (fun k hk => hds k (by simp [hk]))
        split
        · exact ih _ _ (allow_fcSub ht hd)
        · exact allow_fcSub ht hd
    exact loop _ _ (fun d hd => (mem_dependents.mp hd).2) hs

/-- Main cascade lemma: a `_fit` of `f` (with enough fuel) leaves `hasXY` alone, keeps `Good`,
creates no stale pair, and clears every stale pair of `f` itself. -/
theorem doFit_spec (N : Nat) (conds : Nat → List Nat) (wf : WF conds) :
    ∀ fuel f s, f < N → N - f ≤ fuel → Good s → FcSub conds s → s.hasXY f = true →
      let s' := doFit N conds fuel f s
      s'.hasXY = s.hasXY ∧ Good s' ∧
      (∀ h g, h < N → Stale conds s' h g → Stale conds s h g ∧ h ≠ f) := by
  intro fuel
  induction fuel with
  | zero => intro f s hf hfuel; omega
  | succ fuel ih =>
    intro f s hf hfuel hgood hsub hxy
    simp only [doFit]
    -- state after the `_fit` of `f` itself
    have h1xy : (bump s f).hasXY = s.hasXY := rfl
    have h1sub : FcSub conds (bump s f) := hsub
    have h1good : Good (bump s f) := by
      intro h hv
      by_cases hhf : h = f
      · subst hhf; exact hxy
      · have : (bump s f).version h = s.version h := upd_other _ _ _ _ hhf
        exact hgood h (by rw [← this]; exact hv)
    -- stale pairs after the bump: old ones (not of f) or new ones `(h, f)` with `h` a dependent
    have h1stale : ∀ h g, h < N → Stale conds (bump s f) h g →
        (Stale conds s h g ∧ h ≠ f) ∨ (g = f ∧ h ∈ dependents N conds f) := by
      intro h g hhN ⟨hv, hg, hne⟩
      by_cases hhf : h = f
      · subst hhf
        exfalso
        have hgf : g ≠ h := by have := wf h g hg; omega
        apply hne
        show upd s.seen h (fun g => s.version g) h g = upd s.version h (s.version h + 1) g
        rw [upd_same, upd_other _ _ _ _ hgf]
      · have hvh : (bump s f).version h = s.version h := upd_other _ _ _ _ hhf
        have hsh : (bump s f).seen h = s.seen h := upd_other _ _ _ _ hhf
        by_cases hgf : g = f
        · right; exact ⟨hgf, mem_dependents.mpr ⟨hhN, hgf ▸ hg⟩⟩
        · left
          have hvg : (bump s f).version g = s.version g := upd_other _ _ _ _ hgf
          refine ⟨⟨by rw [← hvh]; exact hv, hg, ?_⟩, hhf⟩
          rw [← hsh, ← hvg]; exact hne
    -- loop over the dependents
    have loop : ∀ (ds : List Nat) (t : Mut), (∀ h ∈ ds, h < N ∧ f ∈ conds h) →
        t.hasXY = s.hasXY → Good t → FcSub conds t →
        (∀ h g, h < N → Stale conds t h g →
            (Stale conds s h g ∧ h ≠ f) ∨ (g = f ∧ h ∈ ds)) →
        let t' := ds.foldl (callback conds (doFit N conds fuel) f) t
        t'.hasXY = s.hasXY ∧ Good t' ∧
        (∀ h g, h < N → Stale conds t' h g → Stale conds s h g ∧ h ≠ f) := by
      intro ds
      induction ds with
      | nil =>
        intro t _ hxyt hgt _ hst
        refine ⟨hxyt, hgt, ?_⟩
        intro h g hhN hstale
        rcases hst h g hhN hstale with h' | ⟨_, hmem⟩
        · exact h'
        · cases hmem
      | cons d ds ihds =>
        intro t hds hxyt hgt hsubt hst
        have hd := hds d (by simp)
        have hdf : f < d := wf d f hd.2
        rw [foldl_callback_cons _ _ _ _ _ _ hsubt hd.2]
        have ht2stale : ∀ h g, Stale conds (allow t f d) h g ↔ Stale conds t h g :=
          fun h g => Iff.rfl
        have ht2sub : FcSub conds (allow t f d) := allow_fcSub hsubt hd.2
        by_cases hxyd : t.hasXY d = true
        · rw [if_pos hxyd]
          have hgood2 : Good (allow t f d) := hgt
          obtain ⟨hxy3, hgood3, hst3⟩ :=
            ih d (allow t f d) hd.1 (by omega) hgood2 ht2sub hxyd
          apply ihds (doFit N conds fuel d (allow t f d)) (fun h hh => hds h (by simp [hh]))
            (by rw [hxy3]; exact hxyt) hgood3 (doFit_fcSub N conds fuel d _ ht2sub)
          intro h g hhN hstale
          obtain ⟨hold, hhd⟩ := hst3 h g hhN hstale
          rcases hst h g hhN ((ht2stale h g).mp hold) with h' | ⟨hgf, hmem⟩
          · left; exact h'
          · right; refine ⟨hgf, ?_⟩
            rcases List.mem_cons.mp hmem with h'' | h''
            · exact absurd h'' hhd
            · exact h''
        · rw [if_neg hxyd]
          apply ihds (allow t f d) (fun h hh => hds h (by simp [hh])) hxyt hgt ht2sub
          intro h g hhN hstale
          rcases hst h g hhN ((ht2stale h g).mp hstale) with h' | ⟨hgf, hmem⟩
          · left; exact h'
          · right; refine ⟨hgf, ?_⟩
            rcases List.mem_cons.mp hmem with h'' | h''
            · -- `d` was never fitted (no x, y), so `(d, f)` cannot be stale
              exfalso
              subst h''
              have : t.hasXY h = true := hgt h hstale.1
              exact hxyd this
            · exact h''
    exact loop (dependents N conds f) (bump s f) (fun h hh => mem_dependents.mp hh) h1xy h1good
      h1sub h1stale

/-- the three invariants of a top-level state -/
def Inv (N : Nat) (conds : Nat → List Nat) (s : Mut) : Prop :=
  Good s ∧ FcSub conds s ∧ NoStale N conds s

/-- one public `fit` call keeps the invariant -/
theorem fitCall_inv (N : Nat) (conds : Nat → List Nat) (wf : WF conds) (f : Nat) (hf : f < N)
    (s : Mut) (hinv : Inv N conds s) : Inv N conds (fitCall N conds f s) := by
  obtain ⟨hg, hsub, hs⟩ := hinv
  unfold fitCall
  have hg1 : Good { s with hasXY := upd s.hasXY f true } := by
    intro h hv
    by_cases hhf : h = f
    · subst hhf; exact upd_same _ _ _
    · show upd s.hasXY f true h = true
      rw [upd_other _ _ _ _ hhf]; exact hg h hv
  have hs1' : NoStale N conds { s with hasXY := upd s.hasXY f true } := hs
  have hsub1 : FcSub conds { s with hasXY := upd s.hasXY f true } := hsub
  dsimp only
  by_cases hm : s.mayFit f = true
  · rw [if_pos hm]
    obtain ⟨_, hg2, hst2⟩ :=
      doFit_spec N conds wf N f _ hf (by omega) hg1 hsub1 (upd_same _ _ _)
    exact ⟨hg2, doFit_fcSub N conds N f _ hsub1,
      fun h g hh hstale => hs1' h g hh (hst2 h g hh hstale).1⟩
  · rw [if_neg hm]
    exact ⟨hg1, hsub1, hs1'⟩

theorem init_inv (N : Nat) (conds : Nat → List Nat) : Inv N conds (init conds) := by
  refine ⟨?_, ?_, ?_⟩
  · intro h hv; simp [init] at hv
  · intro h g hg; simp [init] at hg
  · intro h g _ hst; simp [Stale, init] at hst

theorem runHistory_inv (N : Nat) (conds : Nat → List Nat) (wf : WF conds)
    (ops : List Nat) (hops : ∀ f ∈ ops, f < N) : Inv N conds (runHistory N conds ops) := by
  unfold runHistory
  suffices H : ∀ (ops : List Nat) (s : Mut), (∀ f ∈ ops, f < N) → Inv N conds s →
      Inv N conds (ops.foldl (fun s f => fitCall N conds f s) s) from
    H ops _ hops (init_inv N conds)
  intro ops
  induction ops with
  | nil => intro s _ h; exact h
  | cons f ops ih =>
    intro s hops hinv
    exact ih _ (fun g hg => hops g (by simp [hg])) (fitCall_inv N conds wf f (hops f (by simp)) s hinv)

/-- **C14, history form.** After *any* sequence of public `fit` calls (any order, any
multiplicity, i.e. including re-fits of the whole model), no fitted dependence function is
stale: its last `_fit` saw the current version of every one of its conditioners. -/
theorem no_stale_after_any_history (N : Nat) (conds : Nat → List Nat) (wf : WF conds)
    (ops : List Nat) (hops : ∀ f ∈ ops, f < N) :
    let s := runHistory N conds ops
    ∀ h g, h < N → 0 < s.version h → g ∈ conds h → s.seen h g = s.version g := by
  intro s h g hh hv hg
  have := (runHistory_inv N conds wf ops hops).2.2 h g hh
  by_contra hne
  exact this ⟨hv, hg, hne⟩

/-! ### termination: declaration order is a topological order -/

/-- **declaration is topological.**  Whatever Python can construct (`checkDecls`: a keyword can only
be bound to an object that already exists) has every conditioner declared before its dependent. -/
theorem declaration_is_topological (decls : List (List Nat)) (h : checkDecls decls = true) :
    WF (condsOf decls) := by
  intro f g hg
  unfold condsOf at hg
  cases hd : decls[f]? with
  | none => simp [hd] at hg
  | some cs =>
    simp only [hd] at hg
    have hf : f < decls.length := by
      rcases List.getElem?_eq_some_iff.mp hd with ⟨hlt, _⟩
      exact hlt
    unfold checkDecls at h
    rw [List.all_eq_true] at h
    have := h f (List.mem_range.mpr hf)
    simp only [hd, List.all_eq_true, decide_eq_true_eq] at this
    exact this g hg

theorem callback_congr (conds : Nat → List Nat) (r₁ r₂ : Nat → Mut → Mut) (f : Nat) (s : Mut) (h : Nat)
    (hr : ∀ t, r₁ h t = r₂ h t) : callback conds r₁ f s h = callback conds r₂ f s h := by
  unfold callback
  simp only [hr]

theorem foldl_congr_mem {β γ} (g₁ g₂ : β → γ → β) :
    ∀ (ds : List γ) (t : β), (∀ t d, d ∈ ds → g₁ t d = g₂ t d) → ds.foldl g₁ t = ds.foldl g₂ t := by
  intro ds
  induction ds with
  | nil => intro t _; rfl
  | cons d ds ih =>
    intro t h
    rw [List.foldl_cons, List.foldl_cons, h t d (by simp)]
    exact ih _ (fun t e he => h t e (by simp [he]))

/-- **the callback recursion terminates**: its depth is bounded by `N - f` (the declaration index
strictly increases along callbacks), so any larger fuel gives the same result. -/
theorem callbacks_terminate (N : Nat) (conds : Nat → List Nat) (wf : WF conds) :
    ∀ fuel₁ fuel₂ f s, f < N → N - f ≤ fuel₁ → N - f ≤ fuel₂ →
      doFit N conds fuel₁ f s = doFit N conds fuel₂ f s := by
  intro fuel₁
  induction fuel₁ with
  | zero => intro fuel₂ f s hf h1; omega
  | succ a ih =>
    intro fuel₂ f s hf h1 h2
    cases fuel₂ with
    | zero => omega
    | succ b =>
      simp only [doFit]
      apply foldl_congr_mem
      intro t d hd
      obtain ⟨hdN, hfd⟩ := mem_dependents.mp hd
      have := wf d f hfd
      exact callback_congr conds _ _ f t d (fun u => ih b d u hdN (by omega) (by omega))

/-! ### liveness: once every function has been `fit`-called, every function is fitted -/

/-- `h` may fit, or none of its conditioners has been fitted yet -/
def MayOK (conds : Nat → List Nat) (s : Mut) (h : Nat) : Prop :=
  s.mayFit h = true ∨ ∀ g ∈ conds h, s.version g = 0

/-- data stored and allowed to fit ⇒ fitted -/
def FitOK (s : Mut) (h : Nat) : Prop := s.hasXY h = true → s.mayFit h = true → 0 < s.version h

structure Mono (s t : Mut) : Prop where
  xy : t.hasXY = s.hasXY
  ver : ∀ h, s.version h ≤ t.version h
  may : ∀ h, s.mayFit h = true → t.mayFit h = true

theorem Mono.refl (s : Mut) : Mono s s := ⟨rfl, fun _ => Nat.le_refl _, fun _ h => h⟩
theorem Mono.trans {s t u : Mut} (a : Mono s t) (b : Mono t u) : Mono s u :=
  ⟨b.xy.trans a.xy, fun h => Nat.le_trans (a.ver h) (b.ver h), fun h hm => b.may h (a.may h hm)⟩

theorem mono_bump (s : Mut) (f : Nat) : Mono s (bump s f) := by
  refine ⟨rfl, ?_, fun _ h => h⟩
  intro h
  by_cases hf : h = f
  · subst hf
    show s.version h ≤ upd s.version h (s.version h + 1) h
    rw [upd_same]; omega
  · show s.version h ≤ upd s.version f (s.version f + 1) h
    rw [upd_other _ _ _ _ hf]

theorem mono_allow (s : Mut) (f h : Nat) : Mono s (allow s f h) := by
  refine ⟨rfl, fun _ => Nat.le_refl _, ?_⟩
  intro k hk
  by_cases hkh : k = h
  · subst hkh; exact upd_same _ _ _
  · show upd s.mayFit h true k = true
    rw [upd_other _ _ _ _ hkh]; exact hk

theorem doFit_live (N : Nat) (conds : Nat → List Nat) (wf : WF conds) :
    ∀ fuel f s, f < N → N - f ≤ fuel → FcSub conds s → s.hasXY f = true →
      let s' := doFit N conds fuel f s
      Mono s s' ∧ 0 < s'.version f ∧
      (∀ h, h < N → MayOK conds s h → MayOK conds s' h) ∧
      (∀ h, h < N → FitOK s h → FitOK s' h) := by
  intro fuel
  induction fuel with
  | zero => intro f s hf hfuel; omega
  | succ fuel ih =>
    intro f s hf hfuel hsub hxy
    simp only [doFit]
    have loop : ∀ (ds : List Nat) (t : Mut), (∀ d ∈ ds, d < N ∧ f ∈ conds d) →
        FcSub conds t → Mono (bump s f) t →
        (∀ h, h < N → MayOK conds s h → MayOK conds t h ∨ h ∈ ds) →
        (∀ h, h < N → FitOK s h → FitOK t h) →
        let t' := ds.foldl (callback conds (doFit N conds fuel) f) t
        Mono (bump s f) t' ∧
        (∀ h, h < N → MayOK conds s h → MayOK conds t' h) ∧
        (∀ h, h < N → FitOK s h → FitOK t' h) := by
      intro ds
      induction ds with
      | nil =>
        intro t _ _ hmono hmay hfit
        refine ⟨hmono, ?_, hfit⟩
        intro h hh hm
        rcases hmay h hh hm with ok | mem
        · exact ok
        · cases mem
      | cons d ds ihds =>
        intro t hds hsubt hmono hmay hfit
        have hd := hds d (by simp)
        have hdf : f < d := wf d f hd.2
        rw [foldl_callback_cons _ _ _ _ _ _ hsubt hd.2]
        have ht2sub : FcSub conds (allow t f d) := allow_fcSub hsubt hd.2
        have hmayd : (allow t f d).mayFit d = true := upd_same _ _ _
        have hmay_allow : ∀ h, MayOK conds t h → MayOK conds (allow t f d) h := by
          intro h hm
          rcases hm with hm | hm
          · left; exact (mono_allow t f d).may h hm
          · right; exact hm
        by_cases hxyd : t.hasXY d = true
        · rw [if_pos hxyd]
          obtain ⟨m3, v3, may3, fit3⟩ := ih d (allow t f d) hd.1 (by omega) ht2sub hxyd
          apply ihds (doFit N conds fuel d (allow t f d)) (fun h hh => hds h (by simp [hh]))
            (doFit_fcSub N conds fuel d _ ht2sub) ((hmono.trans (mono_allow t f d)).trans m3)
          · intro h hh hm
            rcases hmay h hh hm with ok | mem
            · left; exact may3 h hh (hmay_allow h ok)
            · rcases List.mem_cons.mp mem with h' | h'
              · subst h'; left; exact may3 h hh (Or.inl hmayd)
              · right; exact h'
          · intro h hh hf'
            by_cases hhd : h = d
            · subst hhd; intro _ _; exact v3
            · apply fit3 h hh
              intro hx hm
              have : (allow t f d).mayFit h = t.mayFit h := upd_other _ _ _ _ hhd
              exact hfit h hh hf' hx (by rw [← this]; exact hm)
        · rw [if_neg hxyd]
          apply ihds (allow t f d) (fun h hh => hds h (by simp [hh])) ht2sub
            (hmono.trans (mono_allow t f d))
          · intro h hh hm
            rcases hmay h hh hm with ok | mem
            · left; exact hmay_allow h ok
            · rcases List.mem_cons.mp mem with h' | h'
              · subst h'; left; left; exact hmayd
              · right; exact h'
          · intro h hh hf'
            by_cases hhd : h = d
            · subst hhd; intro hx _; exact absurd hx hxyd
            · intro hx hm
              have : (allow t f d).mayFit h = t.mayFit h := upd_other _ _ _ _ hhd
              exact hfit h hh hf' hx (by rw [← this]; exact hm)
    have hb := mono_bump s f
    obtain ⟨m, may', fit'⟩ := loop (dependents N conds f) (bump s f)
      (fun h hh => mem_dependents.mp hh) hsub (Mono.refl _)
      (by
        intro h hh hm
        rcases hm with hm | hm
        · left; left; exact hb.may h hm
        · by_cases hfc : f ∈ conds h
          · right; exact mem_dependents.mpr ⟨hh, hfc⟩
          · left; right
            intro g hg
            have hgf : g ≠ f := fun e => hfc (e ▸ hg)
            show upd s.version f (s.version f + 1) g = 0
            rw [upd_other _ _ _ _ hgf]; exact hm g hg)
      (by
        intro h hh hf' hx hm
        exact Nat.lt_of_lt_of_le (hf' hx hm) (hb.ver h))
    refine ⟨hb.trans m, ?_, may', fit'⟩
    have h1 : (bump s f).version f = s.version f + 1 := upd_same _ _ _
    have := m.ver f
    omega

/-- liveness invariant of top-level states -/
def Live (N : Nat) (conds : Nat → List Nat) (s : Mut) : Prop :=
  FcSub conds s ∧ (∀ h, h < N → MayOK conds s h) ∧ (∀ h, h < N → FitOK s h) ∧
    (∀ h, conds h = [] → s.mayFit h = true)

theorem init_live (N : Nat) (conds : Nat → List Nat) : Live N conds (init conds) := by
  refine ⟨?_, ?_, ?_, ?_⟩
  · intro h g hg; simp [init] at hg
  · intro h _; right; intro g _; rfl
  · intro h _ hx; simp [init] at hx
  · intro h hc; simp [init, hc]

theorem fitCall_live (N : Nat) (conds : Nat → List Nat) (wf : WF conds) (f : Nat) (hf : f < N)
    (s : Mut) (hl : Live N conds s) :
    Live N conds (fitCall N conds f s) ∧ (fitCall N conds f s).hasXY f = true ∧
      (∀ h, s.hasXY h = true → (fitCall N conds f s).hasXY h = true) := by
  obtain ⟨hsub, hmay, hfit, hroot⟩ := hl
  unfold fitCall
  dsimp only
  have hxyf : (upd s.hasXY f true) f = true := upd_same _ _ _
  have hxymono : ∀ h, s.hasXY h = true → (upd s.hasXY f true) h = true := by
    intro h hx
    by_cases hhf : h = f
    · subst hhf; exact hxyf
    · rw [upd_other _ _ _ _ hhf]; exact hx
  have hsub1 : FcSub conds { s with hasXY := upd s.hasXY f true } := hsub
  by_cases hm : s.mayFit f = true
  · rw [if_pos hm]
    obtain ⟨m, v, may', fit'⟩ :=
      doFit_live N conds wf N f { s with hasXY := upd s.hasXY f true } hf (by omega) hsub1 hxyf
    refine ⟨⟨doFit_fcSub N conds N f _ hsub1, ?_, ?_, ?_⟩, ?_, ?_⟩
    · intro h hh; exact may' h hh (hmay h hh)
    · intro h hh
      by_cases hhf : h = f
      · subst hhf; intro _ _; exact v
      · apply fit' h hh
        intro hx hmm
        have : (upd s.hasXY f true) h = s.hasXY h := upd_other _ _ _ _ hhf
        exact hfit h hh (by rw [← this]; exact hx) hmm
    · intro h hc; exact m.may h (hroot h hc)
    · rw [m.xy]; exact hxyf
    · intro h hx; rw [m.xy]; exact hxymono h hx
  · rw [if_neg hm]
    refine ⟨⟨hsub1, hmay, ?_, hroot⟩, hxyf, hxymono⟩
    intro h hh
    by_cases hhf : h = f
    · subst hhf; intro _ hmm; exact absurd hmm hm
    · intro hx hmm
      have : (upd s.hasXY f true) h = s.hasXY h := upd_other _ _ _ _ hhf
      exact hfit h hh (by rw [← this]; exact hx) hmm

theorem runHistory_live (N : Nat) (conds : Nat → List Nat) (wf : WF conds)
    (ops : List Nat) (hops : ∀ f ∈ ops, f < N) :
    Live N conds (runHistory N conds ops) ∧ ∀ h ∈ ops, (runHistory N conds ops).hasXY h = true := by
  unfold runHistory
  suffices H : ∀ (ops : List Nat) (s : Mut), (∀ f ∈ ops, f < N) → Live N conds s →
      Live N conds (ops.foldl (fun s f => fitCall N conds f s) s) ∧
      ∀ h, (s.hasXY h = true ∨ h ∈ ops) →
        (ops.foldl (fun s f => fitCall N conds f s) s).hasXY h = true by
    obtain ⟨a, b⟩ := H ops _ hops (init_live N conds)
    exact ⟨a, fun h hh => b h (Or.inr hh)⟩
  intro ops
  induction ops with
  | nil =>
    intro s _ hl
    refine ⟨hl, ?_⟩
    intro h hh
    rcases hh with hh | hh
    · exact hh
    · cases hh
  | cons f ops ih =>
    intro s hops hl
    obtain ⟨hl', hxf, hxm⟩ := fitCall_live N conds wf f (hops f (by simp)) s hl
    obtain ⟨a, b⟩ := ih (fitCall N conds f s) (fun g hg => hops g (by simp [hg])) hl'
    refine ⟨a, ?_⟩
    intro h hh
    apply b h
    rcases hh with hh | hh
    · left; exact hxm h hh
    · rcases List.mem_cons.mp hh with rfl | hh
      · left; exact hxf
      · right; exact hh

/-- **liveness.**  If every declared function has been `fit`-called at least once (in any order,
any number of times), every function has been fitted. -/
theorem all_called_all_fitted (N : Nat) (conds : Nat → List Nat) (wf : WF conds)
    (ops : List Nat) (hops : ∀ f ∈ ops, f < N) (hall : ∀ f, f < N → f ∈ ops) :
    ∀ h, h < N → 0 < (runHistory N conds ops).version h := by
  obtain ⟨⟨_, hmay, hfit, hroot⟩, hxy⟩ := runHistory_live N conds wf ops hops
  intro h
  induction h using Nat.strong_induction_on with
  | _ h ih =>
    intro hh
    apply hfit h hh (hxy h (hall h hh))
    cases hc : conds h with
    | nil => exact hroot h hc
    | cons g gs =>
      have hg : g ∈ conds h := by rw [hc]; simp
      have hgh : g < h := wf h g hg
      have hv := ih g hgh (by omega)
      rcases hmay h hh with hm | hm
      · exact hm
      · have := hm g hg; omega

/-! ### the event log -/

/-- the log (newest first) agrees with the counters: `version f` counts the `_fit` executions of `f`,
and `seen h g` is the number of `_fit`s of `g` that happened before the last `_fit` of `h` -/
def LogInv (s : Mut) : Prop :=
  (∀ f, s.version f = s.log.count f) ∧
  (∀ h g, 0 < s.version h → s.seen h g = ((s.log.dropWhile (fun e => e != h)).tail).count g)

theorem logInv_of_eq {s t : Mut} (hv : t.version = s.version) (hs : t.seen = s.seen)
    (hl : t.log = s.log) (h : LogInv s) : LogInv t := by
  unfold LogInv at *
  rw [hv, hs, hl]; exact h

theorem logInv_bump (s : Mut) (f : Nat) (h : LogInv s) : LogInv (bump s f) := by
  obtain ⟨hc, hs⟩ := h
  constructor
  · intro k
    show upd s.version f (s.version f + 1) k = (f :: s.log).count k
    by_cases hk : k = f
    · subst hk; rw [upd_same, List.count_cons_self, hc]
    · rw [upd_other _ _ _ _ hk, List.count_cons_of_ne (fun e => hk e.symm), hc]
  · intro h g hv
    show upd s.seen f (fun g => s.version g) h g =
      (((f :: s.log).dropWhile (fun e => e != h)).tail).count g
    by_cases hk : h = f
    · subst hk
      rw [upd_same]
      have : (h :: s.log).dropWhile (fun e => e != h) = h :: s.log := by
        simp [List.dropWhile]
      rw [this, List.tail_cons, hc]
    · have hv' : 0 < s.version h := by
        have : (bump s f).version h = s.version h := upd_other _ _ _ _ hk
        rw [← this]; exact hv
      have : (f :: s.log).dropWhile (fun e => e != h) = s.log.dropWhile (fun e => e != h) := by
        have : (f != h) = true := by simpa using fun e : f = h => hk e.symm
        simp [List.dropWhile, this]
      rw [upd_other _ _ _ _ hk, this]
      exact hs h g hv'

theorem doFit_logInv (N : Nat) (conds : Nat → List Nat) :
    ∀ fuel f s, LogInv s → LogInv (doFit N conds fuel f s) := by
  intro fuel
  induction fuel with
  | zero => intro f s hs; exact hs
  | succ fuel ih =>
    intro f s hs
    simp only [doFit]
    have loop : ∀ (ds : List Nat) (t : Mut), LogInv t →
        LogInv (ds.foldl (callback conds (doFit N conds fuel) f) t) := by
      intro ds
      induction ds with
      | nil => intro t ht; exact ht
      | cons d ds ihds =>
        intro t ht
        rw [List.foldl_cons]
        apply ihds
        unfold callback
        dsimp only
        split
        · split
          · exact ih _ _ (logInv_of_eq rfl rfl rfl ht)
          · exact logInv_of_eq rfl rfl rfl ht
        · exact logInv_of_eq rfl rfl rfl ht
    exact loop _ _ (logInv_bump s f hs)

theorem runHistory_logInv (N : Nat) (conds : Nat → List Nat) (ops : List Nat) :
    LogInv (runHistory N conds ops) := by
  unfold runHistory
  suffices H : ∀ (ops : List Nat) (s : Mut), LogInv s →
      LogInv (ops.foldl (fun s f => fitCall N conds f s) s) from
    H ops _ ⟨fun _ => rfl, fun h g hv => by simp [init] at hv⟩
  intro ops
  induction ops with
  | nil => intro s h; exact h
  | cons f ops ih =>
    intro s hs
    rw [List.foldl_cons]
    apply ih
    unfold fitCall
    dsimp only
    split
    · exact doFit_logInv N conds N f _ (logInv_of_eq rfl rfl rfl hs)
    · exact logInv_of_eq rfl rfl rfl hs

/-- the version counter of `f` is the number of `_fit` executions of `f` in the log -/
theorem version_eq_count_log (N : Nat) (conds : Nat → List Nat) (ops : List Nat) (f : Nat) :
    (runHistory N conds ops).version f = (runHistory N conds ops).log.count f :=
  (runHistory_logInv N conds ops).1 f

theorem count_dropWhile_tail (g h : Nat) (hgh : g ≠ h) (l : List Nat) :
    ((l.dropWhile (fun e => e != h)).tail).count g = (l.dropWhile (fun e => e != h)).count g := by
  induction l with
  | nil => rfl
  | cons a l ih =>
    by_cases ha : a = h
    · subst ha
      have : (a :: l).dropWhile (fun e => e != a) = a :: l := by simp [List.dropWhile]
      rw [this, List.tail_cons, List.count_cons_of_ne (fun e => hgh e.symm)]
    · have hne : (a != h) = true := by simpa using ha
      have : (a :: l).dropWhile (fun e => e != h) = l.dropWhile (fun e => e != h) := by
        simp [List.dropWhile, hne]
      rw [this]; exact ih

/-- **C14, log form of `no_stale_after_any_history`.**  In the log of `_fit` executions (newest
first) of any history, no `_fit` of a conditioner `g` of `h` lies after the last `_fit` of `h`:
the parameters `h` ends up with were obtained after the last fit of each of its conditioners. -/
theorem final_fit_after_conditioners (N : Nat) (conds : Nat → List Nat) (wf : WF conds)
    (ops : List Nat) (hops : ∀ f ∈ ops, f < N) :
    let s := runHistory N conds ops
    ∀ h g, h < N → g ∈ conds h → h ∈ s.log → g ∉ s.log.takeWhile (fun e => e != h) := by
  show ∀ h g, h < N → g ∈ conds h → h ∈ (runHistory N conds ops).log →
    g ∉ (runHistory N conds ops).log.takeWhile (fun e => e != h)
  generalize hsdef : runHistory N conds ops = s
  intro h g hh hg hmem
  have hc : ∀ f, s.version f = s.log.count f := by
    rw [← hsdef]; exact (runHistory_logInv N conds ops).1
  have hs : ∀ h g, 0 < s.version h →
      s.seen h g = ((s.log.dropWhile (fun e => e != h)).tail).count g := by
    rw [← hsdef]; exact (runHistory_logInv N conds ops).2
  have hv : 0 < s.version h := by
    rw [hc h]; exact List.count_pos_iff.mpr hmem
  have h1 : s.seen h g = s.version g := by
    have := no_stale_after_any_history N conds wf ops hops h g hh
    rw [hsdef] at this
    exact this hv hg
  have h2 := hs h g hv
  have hgh : g ≠ h := by have := wf h g hg; omega
  rw [count_dropWhile_tail g h hgh] at h2
  have h3 : s.log.count g = (s.log.takeWhile (fun e => e != h)).count g +
      (s.log.dropWhile (fun e => e != h)).count g := by
    conv_lhs => rw [← List.takeWhile_append_dropWhile (p := fun e => e != h) (l := s.log)]
    exact List.count_append
  have h4 := hc g
  have h5 : (s.log.takeWhile (fun e => e != h)).count g = 0 := by
    have e1 : s.seen h g = s.version g := h1
    omega
  exact List.count_eq_zero.mp h5

/-- **final state after every function has been called** (both halves together): every function
is fitted, every conditioner is fitted, and every function's last fit saw the final version of
each of its conditioners — whatever the order and multiplicity of the calls. -/
theorem final_state_consistent (N : Nat) (conds : Nat → List Nat) (wf : WF conds)
    (ops : List Nat) (hops : ∀ f ∈ ops, f < N) (hall : ∀ f, f < N → f ∈ ops) :
    let s := runHistory N conds ops
    ∀ h, h < N → 0 < s.version h ∧ ∀ g ∈ conds h, 0 < s.version g ∧ s.seen h g = s.version g := by
  intro s h hh
  have hv := all_called_all_fitted N conds wf ops hops hall
  refine ⟨hv h hh, ?_⟩
  intro g hg
  have hgh := wf h g hg
  exact ⟨hv g (by omega), no_stale_after_any_history N conds wf ops hops h g hh (hv h hh) hg⟩

/-! ### witnesses / non-vacuity -/

/-- the join `{0, 1} → 2` -/
def joinConds : Nat → List Nat | 2 => [0, 1] | _ => []

theorem joinConds_wf : WF joinConds := by
  intro f g hg
  unfold joinConds at hg
  split at hg
  · simp at hg; omega
  · simp at hg

/-- **an intermediate fit may see an unfitted conditioner**: `fit(2); fit(0)` on the join — the
callback of `0` fits `2` (log, newest first: `[2, 0]`) although its conditioner `1` has never
been fitted (`_may_fit` became true after the *first* conditioner; the `issubset` test in
`callback` is the wrong way round).  The wasted fit is repaired when `1` is fitted later
(`final_state_consistent`). -/
theorem intermediate_fit_may_see_unfitted_conditioner :
    (runHistory 3 joinConds [2, 0]).log = [2, 0] ∧
    (runHistory 3 joinConds [2, 0]).version 1 = 0 ∧ 1 ∈ joinConds 2 ∧
    (runHistory 3 joinConds [2, 0, 1]).log = [2, 1, 2, 0] := by decide

-- non-vacuity: the diamond 0 → {1, 2} → 3, fitted in the order 3, 1, 2, 0 and then 0 again
def diamond : Nat → List Nat | 1 => [0] | 2 => [0] | 3 => [1, 2] | _ => []
theorem diamond_wf : WF diamond := by
  intro f g hg
  unfold diamond at hg
  split at hg <;> simp at hg <;> omega
example : checkDecls [[], [0], [0], [1, 2]] = true := by decide
example : ((runHistory 4 diamond [3, 1, 2, 0]).version 3, (runHistory 4 diamond [3, 1, 2, 0]).version 0)
    = (2, 1) := by decide
example : (runHistory 4 diamond [3, 1, 2, 0]).log = [3, 2, 3, 1, 0] := by decide
example : (runHistory 4 diamond [3, 1, 2, 0, 0]).version 3 = 4 := by decide
example : (runHistory 4 diamond [3, 1, 2]).version 3 = 0 := by decide  -- nothing fitted before the root is

/-! ## Part 2 — bounds, optimiser dispatch, linear least squares -/

section Bounds
variable {α : Type} [Preorder α]

/-- the declared bounds admit the parameter vector `p` (`None` = unbounded) -/
def Admissible (bs : List (Option α × Option α)) (p : List α) : Prop :=
  List.Forall₂ (fun b x => (∀ l, b.1 = some l → l ≤ x) ∧ (∀ u, b.2 = some u → x ≤ u)) bs p

/-- `p` lies in the box handed to `curve_fit` -/
def InBox (lo hi p : List α) : Prop := List.Forall₂ (· ≤ ·) lo p ∧ List.Forall₂ (· ≤ ·) p hi

omit [Preorder α] in
theorem convertBounds_length (ninf pinf : α) (bs : List (Option α × Option α)) :
    (convertBounds ninf pinf bs).1.length = bs.length ∧
    (convertBounds ninf pinf bs).2.length = bs.length := by
  simp [convertBounds]

/-- **`convert_bounds_for_curve_fit`**: the box `[lower_bounds, upper_bounds]` admits exactly the
parameter vectors the declared bounds admit (parameter `i` gets *its* pair, lower stays lower),
`ninf`/`pinf` being below/above every parameter value. -/
theorem convertBounds_spec (ninf pinf : α) (bs : List (Option α × Option α)) (p : List α)
    (hinf : ∀ x ∈ p, ninf ≤ x ∧ x ≤ pinf) :
    Admissible bs p ↔
      InBox (convertBounds ninf pinf bs).1 (convertBounds ninf pinf bs).2 p := by
  induction bs generalizing p with
  | nil =>
    cases p with
    | nil => simp [Admissible, InBox, convertBounds]
    | cons x p => simp [Admissible, InBox, convertBounds]
  | cons b bs ih =>
    cases p with
    | nil => simp [Admissible, InBox, convertBounds]
    | cons x p =>
      have ih' := ih p (fun y hy => hinf y (by simp [hy]))
      have hx := hinf x (by simp)
      unfold Admissible InBox convertBounds at *
      simp only [List.map_cons, List.forall₂_cons] at *
      rw [ih']
      obtain ⟨b1, b2⟩ := b
      cases b1 <;> cases b2 <;> simp [hx.1, hx.2] <;> tauto
end Bounds

example : convertBounds (-100 : Int) 100 [(some 0, none), (none, some 5)] = ([0, -100], [100, 5]) := by
  decide

section Dispatch
variable {α : Type}

/-- **constraints reach the optimiser**: when constraints are declared and the dispatch produces an
optimiser call, that call is SLSQP started at `p0` with the declared bounds and with exactly the
declared constraints among its arguments (and no weights were declared). -/
theorem constraints_reach_optimiser (ninf pinf : α) (spec : DepSpec α) (p0 : List α)
    (w : Option (List α)) (cs : List Nat) (call : OptCall α)
    (hc : spec.constraints = some cs) (h : dispatch ninf pinf spec p0 w = .ok call) :
    call = .slsqp p0 spec.bounds cs ∧ w = none := by
  unfold dispatch at h
  rw [hc] at h
  cases w with
  | some v => simp at h
  | none =>
    simp only [Except.ok.injEq] at h
    exact ⟨h.symm, rfl⟩

/-- without constraints: `curve_fit` at `p0`, `sigma = weights(x, y)`, converted bounds -/
theorem unconstrained_uses_curve_fit (ninf pinf : α) (spec : DepSpec α) (p0 : List α)
    (w : Option (List α)) (hc : spec.constraints = none) :
    dispatch ninf pinf spec p0 w =
      .ok (.curveFit p0 w (spec.bounds.map (convertBounds ninf pinf))) := by
  unfold dispatch; rw [hc]

/-- constraints together with a weights callable are refused (`NotImplementedError`) -/
theorem constrained_weighted_refused (ninf pinf : α) (spec : DepSpec α) (p0 : List α)
    (v : List α) (cs : List Nat) (hc : spec.constraints = some cs) :
    dispatch ninf pinf spec p0 (some v) = .error .notImplemented := by
  unfold dispatch; rw [hc]

/-- defect #9 (model of the code before the repair): a declared constraint is not among the
arguments of the optimiser call. -/
theorem constraints_dropped_counterexample :
    ∃ (spec : DepSpec Int) (p0 : List Int) (cs : List Nat), spec.constraints = some cs ∧ cs ≠ [] ∧
      dispatchOld 0 0 spec p0 none = .ok (.slsqp p0 spec.bounds []) :=
  ⟨{ bounds := none, constraints := some [0] }, [1, 1], [0], rfl, by simp, rfl⟩

example : dispatch (0 : Int) 0 { bounds := none, constraints := some [0, 1] } [1, 1] none
    = .ok (.slsqp [1, 1] none [0, 1]) := rfl
end Dispatch

section Lsq
variable {α : Type} [CommRing α] [LinearOrder α] [IsStrictOrderedRing α]

omit [LinearOrder α] [IsStrictOrderedRing α] in
theorem dotN_add (n : Nat) (a x d : Nat → α) :
    dotN n a (fun j => x j + d j) = dotN n a x + dotN n a d := by
  induction n with
  | zero => simp [dotN]
  | succ n ih => simp only [dotN]; rw [ih]; ring

omit [LinearOrder α] [IsStrictOrderedRing α] in
theorem dotN_lin_left (n : Nat) (c : α) (a g d : Nat → α) :
    dotN n (fun j => c * a j + g j) d = c * dotN n a d + dotN n g d := by
  induction n with
  | zero => simp [dotN]
  | succ n ih => simp only [dotN]; rw [ih]; ring

omit [LinearOrder α] [IsStrictOrderedRing α] in
theorem dotN_zero_left (n : Nat) (g d : Nat → α) (hg : ∀ j, j < n → g j = 0) : dotN n g d = 0 := by
  induction n with
  | zero => simp [dotN]
  | succ n ih =>
    simp only [dotN]
    rw [ih (fun j hj => hg j (by omega)), hg n (by omega)]; ring

/-- `Σ w (row · d)²` -/
def quad (n : Nat) : List (Obs α) → (Nat → α) → α
  | [], _ => 0
  | o :: os, d => o.w * (dotN n o.row d * dotN n o.row d) + quad n os d

omit [LinearOrder α] [IsStrictOrderedRing α] in
theorem grad_cons (n : Nat) (o : Obs α) (os : List (Obs α)) (x : Nat → α) :
    grad n (o :: os) x = fun j => (o.w * (dotN n o.row x - o.y)) * o.row j + grad n os x j := by
  funext j; rfl

omit [LinearOrder α] [IsStrictOrderedRing α] in
/-- exact second-order expansion of the weighted squared residual -/
theorem sse_add (n : Nat) (obs : List (Obs α)) (x d : Nat → α) :
    sse n obs (fun j => x j + d j) =
      sse n obs x + 2 * dotN n (grad n obs x) d + quad n obs d := by
  induction obs with
  | nil =>
    have : grad n ([] : List (Obs α)) x = fun _ => 0 := by funext j; rfl
    simp only [sse, quad, this]
    rw [dotN_zero_left n _ d (fun _ _ => rfl)]; ring
  | cons o os ih =>
    rw [grad_cons, dotN_lin_left]
    simp only [sse, quad]
    rw [ih, dotN_add]; ring

theorem quad_nonneg (n : Nat) (obs : List (Obs α)) (d : Nat → α) (hw : ∀ o ∈ obs, 0 ≤ o.w) :
    0 ≤ quad n obs d := by
  induction obs with
  | nil => simp [quad]
  | cons o os ih =>
    simp only [quad]
    have h1 := mul_nonneg (hw o (by simp)) (mul_self_nonneg (dotN n o.row d))
    have h2 := ih (fun p hp => hw p (by simp [hp]))
    linarith

/-- **normal equations minimise** (any ordered commutative ring, any number `n` of parameters,
any number of observations, non-negative weights): if `Aᵀ W (A x − y) = 0` then the weighted
squared residual at `x` is no larger than at any other parameter vector `z`. -/
theorem normal_equations_minimise (n : Nat) (obs : List (Obs α)) (x : Nat → α)
    (hw : ∀ o ∈ obs, 0 ≤ o.w) (hne : ∀ j, j < n → grad n obs x j = 0) (z : Nat → α) :
    sse n obs x ≤ sse n obs z := by
  have hz : z = fun j => x j + (z j - x j) := by funext j; ring
  rw [hz, sse_add, dotN_zero_left n _ _ hne]
  have := quad_nonneg n obs (fun j => z j - x j) hw
  linarith

/-- the executable certificate check is sound -/
theorem isNormalSolution_sound (n : Nat) (obs : List (Obs α)) (x : Nat → α)
    (hw : ∀ o ∈ obs, 0 ≤ o.w) (h : isNormalSolution n obs x = true) (z : Nat → α) :
    sse n obs x ≤ sse n obs z := by
  apply normal_equations_minimise n obs x hw
  intro j hj
  unfold isNormalSolution at h
  rw [List.all_eq_true] at h
  simpa using h j (List.mem_range.mpr hj)

theorem quad_eq_zero (n : Nat) (obs : List (Obs α)) (d : Nat → α) (hw : ∀ o ∈ obs, 0 < o.w)
    (h : quad n obs d = 0) : ∀ o ∈ obs, dotN n o.row d = 0 := by
  induction obs with
  | nil => intro o ho; cases ho
  | cons o os ih =>
    simp only [quad] at h
    have hw' : ∀ p ∈ os, 0 ≤ p.w := fun p hp => le_of_lt (hw p (by simp [hp]))
    have h1 := mul_nonneg (le_of_lt (hw o (by simp))) (mul_self_nonneg (dotN n o.row d))
    have h2 := quad_nonneg n os d hw'
    have h3 : o.w * (dotN n o.row d * dotN n o.row d) = 0 := by linarith
    have h4 : quad n os d = 0 := by linarith
    intro p hp
    rcases List.mem_cons.mp hp with rfl | hp
    · rcases mul_eq_zero.mp h3 with h5 | h5
      · exact absurd h5 (ne_of_gt (hw p (by simp)))
      · exact mul_self_eq_zero.mp h5
    · exact ih (fun q hq => hw q (by simp [hq])) h4 p hp

/-- **uniqueness** for a design of full column rank and positive weights: any parameter vector
with the same (minimal) residual coincides with the solution of the normal equations. -/
theorem normal_equations_unique (n : Nat) (obs : List (Obs α)) (x : Nat → α)
    (hw : ∀ o ∈ obs, 0 < o.w) (hne : ∀ j, j < n → grad n obs x j = 0)
    (hrank : ∀ d : Nat → α, (∀ o ∈ obs, dotN n o.row d = 0) → ∀ j, j < n → d j = 0)
    (z : Nat → α) (hz : sse n obs z ≤ sse n obs x) : ∀ j, j < n → z j = x j := by
  have hzz : z = fun j => x j + (z j - x j) := by funext j; ring
  have hexp := sse_add n obs x (fun j => z j - x j)
  rw [← hzz, dotN_zero_left n _ _ hne] at hexp
  have hq := quad_nonneg n obs (fun j => z j - x j) (fun o ho => le_of_lt (hw o ho))
  have hq0 : quad n obs (fun j => z j - x j) = 0 := by linarith
  intro j hj
  have := hrank _ (quad_eq_zero n obs _ hw hq0) j hj
  linarith
end Lsq

section Affine
variable {α : Type} [Field α] [LinearOrder α] [IsStrictOrderedRing α]

omit [LinearOrder α] [IsStrictOrderedRing α] in
theorem grad_affine (pts : List (WPt α)) (a b : α) :
    grad 2 (affineObs pts) (pair a b) 0 =
      a * wsumBy (fun _ => 1) pts + b * wsumBy (fun p => p.x) pts - wsumBy (fun p => p.y) pts ∧
    grad 2 (affineObs pts) (pair a b) 1 =
      a * wsumBy (fun p => p.x) pts + b * wsumBy (fun p => p.x * p.x) pts
        - wsumBy (fun p => p.x * p.y) pts := by
  induction pts with
  | nil => simp [affineObs, grad, wsumBy]
  | cons p ps ih =>
    obtain ⟨ih0, ih1⟩ := ih
    unfold affineObs at ih0 ih1 ⊢
    simp only [List.map_cons, grad, wsumBy, dotN, pair] at ih0 ih1 ⊢
    rw [ih0, ih1]
    simp
    constructor <;> ring

omit [LinearOrder α] [IsStrictOrderedRing α] in
theorem cramer_normal (sw sx sxx sy sxy : α) (hdet : sw * sxx - sx * sx ≠ 0) :
    (sxx * sy - sx * sxy) / (sw * sxx - sx * sx) * sw
      + (sw * sxy - sx * sy) / (sw * sxx - sx * sx) * sx - sy = 0 ∧
    (sxx * sy - sx * sxy) / (sw * sxx - sx * sx) * sx
      + (sw * sxy - sx * sy) / (sw * sxx - sx * sx) * sxx - sxy = 0 := by
  constructor
  · rw [sub_eq_zero, div_mul_eq_mul_div, div_mul_eq_mul_div, ← add_div, div_eq_iff hdet]; ring
  · rw [sub_eq_zero, div_mul_eq_mul_div, div_mul_eq_mul_div, ← add_div, div_eq_iff hdet]; ring

omit [IsStrictOrderedRing α] in
/-- the closed form solves the normal equations of the affine shape `a + b x` -/
theorem affineLsq_normal (pts : List (WPt α)) (a b : α) (h : affineLsq pts = some (a, b)) :
    ∀ j, j < 2 → grad 2 (affineObs pts) (pair a b) j = 0 := by
  unfold affineLsq at h
  dsimp only at h
  split at h
  · cases h
  · rename_i hdet
    simp only [Option.some.injEq, Prod.mk.injEq] at h
    obtain ⟨ha, hb⟩ := h
    obtain ⟨g0, g1⟩ := grad_affine pts a b
    intro j hj
    have : j = 0 ∨ j = 1 := by omega
    obtain ⟨c0, c1⟩ := cramer_normal _ _ _ (wsumBy (fun p => p.y) pts)
      (wsumBy (fun p => p.x * p.y) pts) hdet
    rcases this with rfl | rfl
    · rw [g0, ← ha, ← hb]; exact c0
    · rw [g1, ← ha, ← hb]; exact c1

/-- **affine shapes**: whenever the closed form exists it minimises the weighted squared residual
of `a + b x` over all `(a', b')` (weights ≥ 0) -/
theorem affineLsq_minimises (pts : List (WPt α)) (a b : α) (h : affineLsq pts = some (a, b))
    (hw : ∀ p ∈ pts, 0 ≤ p.w) (a' b' : α) :
    sse 2 (affineObs pts) (pair a b) ≤ sse 2 (affineObs pts) (pair a' b') := by
  apply normal_equations_minimise 2 _ _ _ (affineLsq_normal pts a b h)
  intro o ho
  unfold affineObs at ho
  rcases List.mem_map.mp ho with ⟨p, hp, rfl⟩
  exact hw p hp
end Affine

-- non-vacuity: three points on no common line, unit weights
example : affineLsq [⟨1, 0, 0⟩, ⟨1, 1, 1⟩, ⟨1, 2, 1⟩] = some ((1 : ℚ) / 6, 1 / 2) := by
  norm_num [affineLsq, wsumBy]

end VirVerif.C14
