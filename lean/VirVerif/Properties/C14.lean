/-
C14 — Dependence functions are fitted within bounds, optimally, in dependency order.

  "Fitting a dependence function yields parameters inside their declared bounds and satisfying
   their declared inequality constraints, whose (weighted) squared residual is no larger than at
   the start parameters or at any nearby admissible perturbation; for shapes linear in their
   parameters (inactive bounds, no constraints) it is the unique linear least-squares solution.
   A dependence function that uses other dependence functions as parameters ends up with the
   parameters obtained by fitting it after all of those have been fitted, whatever the order in
   which they are declared or fitted and also when a model is re-fitted, so that the result is
   independent of that order (within optimiser tolerance)."

Clause → theorem                                   (model: Model/DepProtocol.lean, Model/DepFit.lean)
  declaration order is a dependency order           ASSUMED (Python can only bind existing objects); the driver's
                                                    test of it is the hypothesis `WF`: checkDecls_iff_WF (definitional)
  the callback recursion terminates                 callbacks_terminate
  fitted after all conditioners, ANY history        no_stale_after_any_history  (versions),
    (any declaration order, any order/multiplicity  final_fit_after_conditioners (event log),
     of fit calls, any data epochs, re-fit)         version_eq_count_log
  everything called ⇒ everything fitted             all_called_all_fitted
  both together (versions only; says nothing about  final_state_consistent
    results: see the next three rows)
  RESULTS (`results` = replay of the event log with an ARBITRARY deterministic `fitRes f data p0
  (conditioners' current parameters)`, = the ghost field `bump` would update: results_bump):
  after ANY history a fitted function has the fit   results_consistent_after_any_history
    of its stored pairs given its conditioners'
    CURRENT parameters
  a complete round of epoch r (any order, after     results_after_complete_round  (`canon` = dependency-order
    any earlier history) leaves every function with   fit: canon_spec, canon_unique)
    the dependency-order fit of the epoch-r pairs
  ⇒ ORDER INDEPENDENCE: two histories ending with   fit_order_independent, first_fit_order_independent
    complete rounds of the same data, in different
    orders / after different pre-histories, give
    the same parameters for every function
  … and also when the same dependence structure is  canon_relabel, fit_declaration_order_independent
    declared in another admissible order (renaming σ)
  intermediate fit may see an unfitted conditioner  intermediate_fit_may_see_unfitted_conditioner (witness)
  the `issubset` test of `callback` never fails     callback_true (one step, given FcSub), fcSub_after_any_history
                                                    (FcSub holds in every reachable state),
                                                    callback_true_after_any_history (composed)
  INPUTS of every `_fit` (a history is a list of public calls `(function, data epoch)`):
  stored x/y = pairs of the latest public call      stored_data_is_latest_call
                                                    (latestCall_eq_some_iff / _eq_none_iff pin the spec down)
  every `_fit` (direct or by callback, any depth)   fit_uses_stored_data (per call),
    runs on the stored pairs = latest call's pairs  every_fit_used_latest_call_data (whole log),
                                                    last_fit_data_is_stored, lastData_eq_log (state)
  re-fit: after a complete round of epoch r (any    round_complete_all_current,
    order, after any earlier complete/partial       round_complete_fits_in_round (fresh epoch label:
    rounds) every last `_fit` used epoch-r pairs      the last fits happen during that round)
    AND saw its conditioners' final versions
  start values of every `_fit` = the values         start_values_fixed
    captured at the first `_fit` = the constructor's
    values, never an earlier result
  detailed log refines the plain log                evlog_refines_log
  seeded variant "store x/y only when deferred"     stale_variant_refits_old_pairs (COUNTER-MODEL, by decide, on
    violates the re-fit statement                     `fitCallStale`, which is NOT the code)
  bounds handed to curve_fit = declared bounds      convertBounds_spec (over a Preorder; the driver runs it at Float, see
                                                    the docstring), convertBounds_length
  declared constraints reach the optimiser          DEFINITIONAL unfoldings of the model `dispatch` (no content beyond
                                                    the model; the tie to the code is the correspondence check):
                                                    constraints_reach_optimiser_def, unconstrained_uses_curve_fit_def,
                                                    constrained_weighted_refused_def, dispatch_cases_def;
                                                    constraints_dropped_counterexample (COUNTER-MODEL `dispatchOld`:
                                                    the code before the repair)
  linear shapes: solution of the normal equations   normal_equations_minimise, isNormalSolution_sound,
    minimises / is unique                           normal_equations_unique (rank + positive weights as hypotheses;
                                                    discharged for a + b x: affine_full_rank, affineLsq_unique;
                                                    weights the driver builds are positive: sigmaWeight_pos),
                                                    affineLsq_normal, affineLsq_minimises

NOT theorems (observed on the real code by the harness on every explored case, see claims/C14.json):
  `optimality_partial`: that curve_fit / SLSQP actually return parameters inside the bounds,
  satisfying the constraints, with residual ≤ residual(start) and ≤ residual(nearby admissible
  points), and that for linear shapes they return the solution of the normal equations.  Full
  statement: ∀ shape f, data, bounds, constraints, start p0 admissible:
     popt := fit f … ⊢ Admissible bounds popt ∧ constraints popt ≥ 0 ∧ S popt ≤ S p0 ∧
                        ∃ ε > 0, ∀ q admissible, ‖q − popt‖ < ε → S popt ≤ S q.
  What is missing is a model of scipy's optimisers.
  Not covered at all: a weights callable TOGETHER with declared constraints — the code refuses
  (`constrained_weighted_refused` is the model of that refusal), so for this combination of the
  quantifier there is no fit and no clause is checked.  On the SLSQP path with shapes non-linear
  in their parameters the residual clauses fail on the unchanged code in about 0.4 % of the fits
  (known findings, one signature per clause / shape / size class of the gap).
  That the model's `_fit` inputs (function, data epoch, start-value token, call number) are the real
  code's is the correspondence check: the harness records, for every real `_fit`, the identity of
  the x/y objects that reach `fit_function`/`fit_constrained_function` and the `p0` handed over.
-/
import VirVerif.Model.DepProtocol
import VirVerif.Model.DepFit
import Mathlib.Data.List.Basic
import Mathlib.Data.List.Induction
import Mathlib.Tactic.Linarith
import Mathlib.Tactic.Ring
import Mathlib.Tactic.LinearCombination
import Mathlib.Tactic.FieldSimp
import Mathlib.Algebra.Order.Field.Basic

namespace VirVerif.C14
open VirVerif.Dep

/-! ## Part 1 — the callback protocol -/

/-- conditioners are declared before their dependents -/
def WF (conds : Nat → List Nat) : Prop := ∀ f g, g ∈ conds f → g < f

/-- `h`'s last `_fit` did not see the current version of its conditioner `g` -/
def Stale (conds : Nat → List Nat) (s : Mut) (h g : Nat) : Prop :=
  0 < s.version h ∧ g ∈ conds h ∧ s.seen h g ≠ s.version g

def Good (s : Mut) : Prop := ∀ h, 0 < s.version h → s.hasXY h = true

/-- `_fitted_conditioners ⊆ dependent_parameters.values()` -/
def FcSub (conds : Nat → List Nat) (s : Mut) : Prop := ∀ h g, g ∈ s.fitted h → g ∈ conds h

def NoStale (N : Nat) (conds : Nat → List Nat) (s : Mut) : Prop :=
  ∀ h g, h < N → ¬ Stale conds s h g

/-- state after the bookkeeping part of `h.callback(f)` -/
def allow (s : Mut) (f h : Nat) : Mut :=
  { s with fitted := upd s.fitted h (insertNew f (s.fitted h)), mayFit := upd s.mayFit h true }

@[simp] theorem upd_same {β} (f : Nat → β) (i : Nat) (v : β) : upd f i v i = v := by simp [upd]
theorem upd_other {β} (f : Nat → β) (i j : Nat) (v : β) (h : j ≠ i) : upd f i v j = f j := by
  simp [upd, h]

theorem hasXY_some {s : Mut} {h e : Nat} (hx : s.xyEpoch h = some e) : s.hasXY h = true := by
  simp [Mut.hasXY, hx]
theorem hasXY_none {s : Mut} {h : Nat} (hx : s.xyEpoch h = none) : s.hasXY h = false := by
  simp [Mut.hasXY, hx]

theorem mem_dependents {N conds f h} : h ∈ dependents N conds f ↔ h < N ∧ f ∈ conds h := by
  simp only [dependents, List.mem_flatMap, List.mem_range, List.mem_map, List.mem_filter]
  constructor
  · rintro ⟨a, ha, g, ⟨hg, hgf⟩, rfl⟩
    have : g = f := by simpa using hgf
    exact ⟨ha, this ▸ hg⟩
  · rintro ⟨hN, hf⟩
    exact ⟨h, hN, f, ⟨hf, by simp⟩, rfl⟩

theorem mem_insertNew {a b : Nat} {l : List Nat} : b ∈ insertNew a l ↔ b = a ∨ b ∈ l := by
  unfold insertNew
  by_cases hc : l.contains a = true
  · rw [if_pos hc]
    have : a ∈ l := by simpa using hc
    constructor
    · exact Or.inr
    · rintro (rfl | h)
      · exact this
      · exact h
  · rw [if_neg hc]
    simp [or_comm]

/-- the `issubset` test in `callback` can never fail -/
theorem callback_true (conds : Nat → List Nat) (refit : Nat → Nat → Mut → Mut) (f : Nat) (s : Mut)
    (h : Nat) (hsub : FcSub conds s) (hf : f ∈ conds h) :
    callback conds refit f s h =
      match s.xyEpoch h with
      | some e => refit h e (allow s f h)
      | none => allow s f h := by
  have hall : ((upd s.fitted h (insertNew f (s.fitted h))) h).all
      (fun g => (conds h).contains g) = true := by
    rw [upd_same, List.all_eq_true]
    intro g hg
    rcases mem_insertNew.mp hg with rfl | hg
    · simpa using hf
    · simpa using hsub h g hg
  unfold callback
  dsimp only
  rw [if_pos hall]
  rfl

theorem allow_fcSub {conds : Nat → List Nat} {s : Mut} {f h : Nat} (hsub : FcSub conds s)
    (hf : f ∈ conds h) : FcSub conds (allow s f h) := by
  intro k g hg
  by_cases hk : k = h
  · subst hk
    have hg' : g ∈ insertNew f (s.fitted k) := by
      have : (allow s f k).fitted k = insertNew f (s.fitted k) := upd_same _ _ _
      rw [← this]; exact hg
    rcases mem_insertNew.mp hg' with rfl | hg''
    · exact hf
    · exact hsub k g hg''
  · have : (allow s f h).fitted k = s.fitted k := upd_other _ _ _ _ hk
    rw [this] at hg
    exact hsub k g hg

/-- stored pairs of epoch `e`: the callback re-fits `d` on exactly these pairs -/
theorem foldl_callback_cons_some (conds : Nat → List Nat) (refit : Nat → Nat → Mut → Mut) (f : Nat)
    (t : Mut) (d e : Nat) (ds : List Nat) (hsub : FcSub conds t) (hf : f ∈ conds d)
    (hx : t.xyEpoch d = some e) :
    (d :: ds).foldl (callback conds refit f) t =
      ds.foldl (callback conds refit f) (refit d e (allow t f d)) := by
  rw [List.foldl_cons, callback_true conds refit f t d hsub hf, hx]

/-- no stored pairs: only the bookkeeping happens -/
theorem foldl_callback_cons_none (conds : Nat → List Nat) (refit : Nat → Nat → Mut → Mut) (f : Nat)
    (t : Mut) (d : Nat) (ds : List Nat) (hsub : FcSub conds t) (hf : f ∈ conds d)
    (hx : t.xyEpoch d = none) :
    (d :: ds).foldl (callback conds refit f) t =
      ds.foldl (callback conds refit f) (allow t f d) := by
  rw [List.foldl_cons, callback_true conds refit f t d hsub hf, hx]

theorem doFit_fcSub (N : Nat) (conds : Nat → List Nat) :
    ∀ fuel f e s, FcSub conds s → FcSub conds (doFit N conds fuel f e s) := by
  intro fuel
  induction fuel with
  | zero => intro f e s hs; exact hs
  | succ fuel ih =>
    intro f e s hs
    simp only [doFit]
    have loop : ∀ (ds : List Nat) (t : Mut), (∀ d ∈ ds, f ∈ conds d) → FcSub conds t →
        FcSub conds (ds.foldl (callback conds (doFit N conds fuel) f) t) := by
      intro ds
      induction ds with
      | nil => intro t _ ht; exact ht
      | cons d ds ihds =>
        intro t hds ht
        have hd := hds d (by simp)
        cases hxd : t.xyEpoch d with
        | some e' =>
          rw [foldl_callback_cons_some _ _ _ _ _ _ _ ht hd hxd]
          exact ihds _ (fun k hk => hds k (by simp [hk])) (ih _ _ _ (allow_fcSub ht hd))
        | none =>
          rw [foldl_callback_cons_none _ _ _ _ _ _ ht hd hxd]
          exact ihds _ (fun k hk => hds k (by simp [hk])) (allow_fcSub ht hd)
    exact loop _ _ (fun d hd => (mem_dependents.mp hd).2) hs

/-- the state in which `fit` has stored the pairs but not yet fitted -/
def store (s : Mut) (f e : Nat) : Mut :=
  { s with xyEpoch := upd s.xyEpoch f (some e), calls := s.calls + 1 }

theorem fitCall_eq (N : Nat) (conds : Nat → List Nat) (f e : Nat) (s : Mut) :
    fitCall N conds f e s =
      if s.mayFit f = true then doFit N conds N f e (store s f e) else store s f e := rfl

/-- the hypothesis `FcSub` of `callback_true` holds in EVERY reachable top-level state (any
declaration, any history; no well-formedness needed) -/
theorem fcSub_after_any_history (N : Nat) (conds : Nat → List Nat) (ops : List (Nat × Nat)) :
    FcSub conds (runHistory N conds ops) := by
  unfold runHistory
  suffices H : ∀ (ops : List (Nat × Nat)) (s : Mut), FcSub conds s →
      FcSub conds (ops.foldl (fun s p => fitCall N conds p.1 p.2 s) s) from
    H ops _ (fun h g hg => by simp [init] at hg)
  intro ops
  induction ops with
  | nil => intro s h; exact h
  | cons p ops ih =>
    intro s hs
    apply ih
    show FcSub conds (fitCall N conds p.1 p.2 s)
    rw [fitCall_eq]
    have h1 : FcSub conds (store s p.1 p.2) := hs
    split
    · exact doFit_fcSub N conds N p.1 p.2 _ h1
    · exact h1

/-- **the `issubset` test never fails, in any reachable state**: the callbacks of the NEXT cascade
after any history (started on a reachable state, then kept by `doFit_fcSub` through the cascade)
always take the "may fit" branch. -/
theorem callback_true_after_any_history (N : Nat) (conds : Nat → List Nat)
    (ops : List (Nat × Nat)) (refit : Nat → Nat → Mut → Mut) (f h : Nat) (hf : f ∈ conds h) :
    callback conds refit f (runHistory N conds ops) h =
      match (runHistory N conds ops).xyEpoch h with
      | some e => refit h e (allow (runHistory N conds ops) f h)
      | none => allow (runHistory N conds ops) f h :=
  callback_true conds refit f _ h (fcSub_after_any_history N conds ops) hf

/-! ### a generic preservation principle for the cascade

Everything a `_fit` cascade does is: `bump` (always on a function whose pairs are stored, on
exactly the stored epoch, and whose `_may_fit` is true), and bookkeeping updates of `fitted` /
`mayFit`.  A predicate closed under these three steps holds after the cascade. -/

theorem doFit_preserves (N : Nat) (conds : Nat → List Nat) (P : Mut → Prop)
    (hb : ∀ s f e, s.xyEpoch f = some e → s.mayFit f = true → P s → P (bump s f e))
    (hfit : ∀ (s : Mut) (f h : Nat), P s →
      P { s with fitted := upd s.fitted h (insertNew f (s.fitted h)) })
    (hallow : ∀ (s : Mut) (f h : Nat), P s → P (allow s f h)) :
    (∀ fuel f e s, s.xyEpoch f = some e → s.mayFit f = true → P s → P (doFit N conds fuel f e s)) ∧
    (∀ fuel f e s, P (bump s f e) → P (doFit N conds (fuel + 1) f e s)) := by
  have main : ∀ fuel, (∀ f e s, s.xyEpoch f = some e → s.mayFit f = true → P s →
      P (doFit N conds fuel f e s)) →
      ∀ f (ds : List Nat) (t : Mut), P t → P (ds.foldl (callback conds (doFit N conds fuel) f) t) := by
    intro fuel ih f ds
    induction ds with
    | nil => intro t ht; exact ht
    | cons d ds ihds =>
      intro t ht
      rw [List.foldl_cons]
      apply ihds
      unfold callback
      dsimp only
      split
      · split
        · rename_i e' hx
          exact ih d e' (allow t f d) hx (upd_same _ _ _) (hallow t f d ht)
        · exact hallow t f d ht
      · exact hfit t f d ht
  have all : ∀ fuel f e s, s.xyEpoch f = some e → s.mayFit f = true → P s →
      P (doFit N conds fuel f e s) := by
    intro fuel
    induction fuel with
    | zero => intro f e s _ _ hs; exact hs
    | succ fuel ih =>
      intro f e s hx hm hs
      simp only [doFit]
      exact main fuel ih f _ _ (hb s f e hx hm hs)
  refine ⟨all, ?_⟩
  intro fuel f e s hs
  simp only [doFit]
  exact main fuel (all fuel) f _ _ hs

/-- a cascade touches neither the stored pairs nor the call counter -/
theorem doFit_frame (N : Nat) (conds : Nat → List Nat) (fuel f e : Nat) (s : Mut) :
    (doFit N conds fuel f e s).xyEpoch = s.xyEpoch ∧ (doFit N conds fuel f e s).calls = s.calls := by
  have key := (doFit_preserves N conds (fun t => t.xyEpoch = s.xyEpoch ∧ t.calls = s.calls)
    (fun _ _ _ _ _ h => h) (fun _ _ _ h => h) (fun _ _ _ h => h))
  cases fuel with
  | zero => exact ⟨rfl, rfl⟩
  | succ fuel => exact key.2 fuel f e s ⟨rfl, rfl⟩

/-- Main cascade lemma: a `_fit` of `f` (with enough fuel) leaves the stored pairs alone, keeps
`Good`, creates no stale pair, and clears every stale pair of `f` itself. -/
theorem doFit_spec (N : Nat) (conds : Nat → List Nat) (wf : WF conds) :
    ∀ fuel f e s, f < N → N - f ≤ fuel → Good s → FcSub conds s → s.hasXY f = true →
      let s' := doFit N conds fuel f e s
      s'.xyEpoch = s.xyEpoch ∧ Good s' ∧
      (∀ h g, h < N → Stale conds s' h g → Stale conds s h g ∧ h ≠ f) := by
  intro fuel
  induction fuel with
  | zero => intro f e s hf hfuel; omega
  | succ fuel ih =>
    intro f e s hf hfuel hgood hsub hxy
    simp only [doFit]
    -- state after the `_fit` of `f` itself
    have h1xy : (bump s f e).xyEpoch = s.xyEpoch := rfl
    have h1sub : FcSub conds (bump s f e) := hsub
    have h1good : Good (bump s f e) := by
      intro h hv
      by_cases hhf : h = f
      · subst hhf; exact hxy
      · have : (bump s f e).version h = s.version h := upd_other _ _ _ _ hhf
        exact hgood h (by rw [← this]; exact hv)
    -- stale pairs after the bump: old ones (not of f) or new ones `(h, f)` with `h` a dependent
    have h1stale : ∀ h g, h < N → Stale conds (bump s f e) h g →
        (Stale conds s h g ∧ h ≠ f) ∨ (g = f ∧ h ∈ dependents N conds f) := by
      intro h g hhN ⟨hv, hg, hne⟩
      by_cases hhf : h = f
      · subst hhf
        exfalso
        have hgf : g ≠ h := by have := wf h g hg; omega
        apply hne
        show upd s.seen h (fun g => s.version g) h g = upd s.version h (s.version h + 1) g
        rw [upd_same, upd_other _ _ _ _ hgf]
      · have hvh : (bump s f e).version h = s.version h := upd_other _ _ _ _ hhf
        have hsh : (bump s f e).seen h = s.seen h := upd_other _ _ _ _ hhf
        by_cases hgf : g = f
        · right; exact ⟨hgf, mem_dependents.mpr ⟨hhN, hgf ▸ hg⟩⟩
        · left
          have hvg : (bump s f e).version g = s.version g := upd_other _ _ _ _ hgf
          refine ⟨⟨by rw [← hvh]; exact hv, hg, ?_⟩, hhf⟩
          rw [← hsh, ← hvg]; exact hne
    -- loop over the dependents
    have loop : ∀ (ds : List Nat) (t : Mut), (∀ h ∈ ds, h < N ∧ f ∈ conds h) →
        t.xyEpoch = s.xyEpoch → Good t → FcSub conds t →
        (∀ h g, h < N → Stale conds t h g →
            (Stale conds s h g ∧ h ≠ f) ∨ (g = f ∧ h ∈ ds)) →
        let t' := ds.foldl (callback conds (doFit N conds fuel) f) t
        t'.xyEpoch = s.xyEpoch ∧ Good t' ∧
        (∀ h g, h < N → Stale conds t' h g → Stale conds s h g ∧ h ≠ f) := by
      intro ds
      induction ds with
      | nil =>
        intro t _ hxyt hgt _ hst
        refine ⟨hxyt, hgt, ?_⟩
        intro h g hhN hstale
        rcases hst h g hhN hstale with h' | ⟨_, hmem⟩
        · exact h'
        · cases hmem
      | cons d ds ihds =>
        intro t hds hxyt hgt hsubt hst
        have hd := hds d (by simp)
        have hdf : f < d := wf d f hd.2
        have ht2stale : ∀ h g, Stale conds (allow t f d) h g ↔ Stale conds t h g :=
          fun h g => Iff.rfl
        have ht2sub : FcSub conds (allow t f d) := allow_fcSub hsubt hd.2
        cases hxd : t.xyEpoch d with
        | some e' =>
          rw [foldl_callback_cons_some _ _ _ _ _ _ _ hsubt hd.2 hxd]
          have hxyd : (allow t f d).hasXY d = true := hasXY_some (s := allow t f d) hxd
          have hgood2 : Good (allow t f d) := hgt
          obtain ⟨hxy3, hgood3, hst3⟩ :=
            ih d e' (allow t f d) hd.1 (by omega) hgood2 ht2sub hxyd
          apply ihds (doFit N conds fuel d e' (allow t f d)) (fun h hh => hds h (by simp [hh]))
            (by rw [hxy3]; exact hxyt) hgood3 (doFit_fcSub N conds fuel d e' _ ht2sub)
          intro h g hhN hstale
          obtain ⟨hold, hhd⟩ := hst3 h g hhN hstale
          rcases hst h g hhN ((ht2stale h g).mp hold) with h' | ⟨hgf, hmem⟩
          · left; exact h'
          · right; refine ⟨hgf, ?_⟩
            rcases List.mem_cons.mp hmem with h'' | h''
            · exact absurd h'' hhd
            · exact h''
        | none =>
          rw [foldl_callback_cons_none _ _ _ _ _ _ hsubt hd.2 hxd]
          apply ihds (allow t f d) (fun h hh => hds h (by simp [hh])) hxyt hgt ht2sub
          intro h g hhN hstale
          rcases hst h g hhN ((ht2stale h g).mp hstale) with h' | ⟨hgf, hmem⟩
          · left; exact h'
          · right; refine ⟨hgf, ?_⟩
            rcases List.mem_cons.mp hmem with h'' | h''
            · -- `d` was never fitted (no x, y), so `(d, f)` cannot be stale
              exfalso
              subst h''
              have : t.hasXY h = true := hgt h hstale.1
              rw [hasXY_none hxd] at this
              cases this
            · exact h''
    exact loop (dependents N conds f) (bump s f e) (fun h hh => mem_dependents.mp hh) h1xy h1good
      h1sub h1stale

/-- the three invariants of a top-level state -/
def Inv (N : Nat) (conds : Nat → List Nat) (s : Mut) : Prop :=
  Good s ∧ FcSub conds s ∧ NoStale N conds s

theorem store_hasXY_self (s : Mut) (f e : Nat) : (store s f e).hasXY f = true :=
  hasXY_some (s := store s f e) (upd_same _ _ _)

theorem store_hasXY_other (s : Mut) (f e h : Nat) (hhf : h ≠ f) :
    (store s f e).hasXY h = s.hasXY h := by
  show ((upd s.xyEpoch f (some e)) h).isSome = (s.xyEpoch h).isSome
  rw [upd_other _ _ _ _ hhf]

theorem store_hasXY_mono (s : Mut) (f e h : Nat) (hx : s.hasXY h = true) :
    (store s f e).hasXY h = true := by
  by_cases hhf : h = f
  · subst hhf; exact store_hasXY_self s h e
  · rw [store_hasXY_other s f e h hhf]; exact hx

/-- one public `fit` call keeps the invariant -/
theorem fitCall_inv (N : Nat) (conds : Nat → List Nat) (wf : WF conds) (f e : Nat) (hf : f < N)
    (s : Mut) (hinv : Inv N conds s) : Inv N conds (fitCall N conds f e s) := by
  obtain ⟨hg, hsub, hs⟩ := hinv
  rw [fitCall_eq]
  have hg1 : Good (store s f e) := fun h hv => store_hasXY_mono s f e h (hg h hv)
  have hs1' : NoStale N conds (store s f e) := hs
  have hsub1 : FcSub conds (store s f e) := hsub
  by_cases hm : s.mayFit f = true
  · rw [if_pos hm]
    obtain ⟨_, hg2, hst2⟩ :=
      doFit_spec N conds wf N f e _ hf (by omega) hg1 hsub1 (store_hasXY_self s f e)
    exact ⟨hg2, doFit_fcSub N conds N f e _ hsub1,
      fun h g hh hstale => hs1' h g hh (hst2 h g hh hstale).1⟩
  · rw [if_neg hm]
    exact ⟨hg1, hsub1, hs1'⟩

theorem init_inv (N : Nat) (conds : Nat → List Nat) : Inv N conds (init conds) := by
  refine ⟨?_, ?_, ?_⟩
  · intro h hv; simp [init] at hv
  · intro h g hg; simp [init] at hg
  · intro h g _ hst; simp [Stale, init] at hst

/-- histories: induction principle (a property of the start state that every public call keeps) -/
theorem runHistory_induct (N : Nat) (conds : Nat → List Nat) (P : Mut → Prop)
    (h0 : P (init conds)) (ops : List (Nat × Nat)) (Q : Nat × Nat → Prop) (hops : ∀ p ∈ ops, Q p)
    (hstep : ∀ s p, Q p → P s → P (fitCall N conds p.1 p.2 s)) : P (runHistory N conds ops) := by
  unfold runHistory
  suffices H : ∀ (ops : List (Nat × Nat)) (s : Mut), (∀ p ∈ ops, Q p) → P s →
      P (ops.foldl (fun s p => fitCall N conds p.1 p.2 s) s) from H ops _ hops h0
  intro ops
  induction ops with
  | nil => intro s _ h; exact h
  | cons p ops ih =>
    intro s hops hs
    exact ih _ (fun q hq => hops q (by simp [hq])) (hstep s p (hops p (by simp)) hs)

theorem runHistory_append (N : Nat) (conds : Nat → List Nat) (ops : List (Nat × Nat)) (p : Nat × Nat) :
    runHistory N conds (ops ++ [p]) = fitCall N conds p.1 p.2 (runHistory N conds ops) := by
  simp [runHistory, List.foldl_append]

theorem runHistory_inv (N : Nat) (conds : Nat → List Nat) (wf : WF conds)
    (ops : List (Nat × Nat)) (hops : ∀ p ∈ ops, p.1 < N) : Inv N conds (runHistory N conds ops) :=
  runHistory_induct N conds (Inv N conds) (init_inv N conds) ops (fun p => p.1 < N) hops
    (fun s p hp hs => fitCall_inv N conds wf p.1 p.2 hp s hs)

/-- **C14, history form.** After *any* sequence of public `fit` calls (any order, any
multiplicity, any data epochs, i.e. including re-fits of the whole model on new data), no fitted
dependence function is stale: its last `_fit` saw the current version of every one of its
conditioners. -/
theorem no_stale_after_any_history (N : Nat) (conds : Nat → List Nat) (wf : WF conds)
    (ops : List (Nat × Nat)) (hops : ∀ p ∈ ops, p.1 < N) :
    let s := runHistory N conds ops
    ∀ h g, h < N → 0 < s.version h → g ∈ conds h → s.seen h g = s.version g := by
  intro s h g hh hv hg
  have := (runHistory_inv N conds wf ops hops).2.2 h g hh
  by_contra hne
  exact this ⟨hv, hg, hne⟩

/-! ### termination: declaration order is a topological order -/

/-- **`checkDecls` is the Boolean form of `WF`** (definitional restatement, both directions).
That Python can only construct declarations with `checkDecls = true` (a keyword can only be bound to
an object that already exists) is an ASSUMPTION about Python, not a theorem: the driver refuses
other declarations (`ERR badDecl`) and the harness never produces one.  So "declaration order is a
dependency order" is assumed; this lemma only says that the driver's test is exactly the hypothesis
`WF` of the theorems (for declared objects; undeclared ones have no conditioners). -/
theorem checkDecls_iff_WF (decls : List (List Nat)) :
    checkDecls decls = true ↔ WF (condsOf decls) := by
  constructor
  · intro h f g hg
    unfold condsOf at hg
    cases hd : decls[f]? with
    | none => simp [hd] at hg
    | some cs =>
      simp only [hd] at hg
      have hf : f < decls.length := by
        rcases List.getElem?_eq_some_iff.mp hd with ⟨hlt, _⟩
        exact hlt
      unfold checkDecls at h
      rw [List.all_eq_true] at h
      have := h f (List.mem_range.mpr hf)
      simp only [hd, List.all_eq_true, decide_eq_true_eq] at this
      exact this g hg
  · intro wf
    unfold checkDecls
    rw [List.all_eq_true]
    intro i hi
    have hi' : i < decls.length := List.mem_range.mp hi
    have hd : decls[i]? = some decls[i] := List.getElem?_eq_getElem hi'
    simp only [hd, List.all_eq_true, decide_eq_true_eq]
    intro g hg
    apply wf i g
    unfold condsOf
    simp only [hd]
    exact hg

theorem callback_congr (conds : Nat → List Nat) (r₁ r₂ : Nat → Nat → Mut → Mut) (f : Nat) (s : Mut)
    (h : Nat) (hr : ∀ e t, r₁ h e t = r₂ h e t) :
    callback conds r₁ f s h = callback conds r₂ f s h := by
  unfold callback
  simp only [hr]

theorem foldl_congr_mem {β γ} (g₁ g₂ : β → γ → β) :
    ∀ (ds : List γ) (t : β), (∀ t d, d ∈ ds → g₁ t d = g₂ t d) → ds.foldl g₁ t = ds.foldl g₂ t := by
  intro ds
  induction ds with
  | nil => intro t _; rfl
  | cons d ds ih =>
    intro t h
    rw [List.foldl_cons, List.foldl_cons, h t d (by simp)]
    exact ih _ (fun t e he => h t e (by simp [he]))

/-- **the callback recursion terminates**: its depth is bounded by `N - f` (the declaration index
strictly increases along callbacks), so any larger fuel gives the same result. -/
theorem callbacks_terminate (N : Nat) (conds : Nat → List Nat) (wf : WF conds) :
    ∀ fuel₁ fuel₂ f e s, f < N → N - f ≤ fuel₁ → N - f ≤ fuel₂ →
      doFit N conds fuel₁ f e s = doFit N conds fuel₂ f e s := by
  intro fuel₁
  induction fuel₁ with
  | zero => intro fuel₂ f e s hf h1; omega
  | succ a ih =>
    intro fuel₂ f e s hf h1 h2
    cases fuel₂ with
    | zero => omega
    | succ b =>
      simp only [doFit]
      apply foldl_congr_mem
      intro t d hd
      obtain ⟨hdN, hfd⟩ := mem_dependents.mp hd
      have := wf d f hfd
      exact callback_congr conds _ _ f t d (fun e' u => ih b d e' u hdN (by omega) (by omega))

/-! ### liveness: once every function has been `fit`-called, every function is fitted -/

/-- `h` may fit, or none of its conditioners has been fitted yet -/
def MayOK (conds : Nat → List Nat) (s : Mut) (h : Nat) : Prop :=
  s.mayFit h = true ∨ ∀ g ∈ conds h, s.version g = 0

/-- data stored and allowed to fit ⇒ fitted -/
def FitOK (s : Mut) (h : Nat) : Prop := s.hasXY h = true → s.mayFit h = true → 0 < s.version h

structure Mono (s t : Mut) : Prop where
  xy : t.xyEpoch = s.xyEpoch
  ver : ∀ h, s.version h ≤ t.version h
  may : ∀ h, s.mayFit h = true → t.mayFit h = true

theorem Mono.refl (s : Mut) : Mono s s := ⟨rfl, fun _ => Nat.le_refl _, fun _ h => h⟩
theorem Mono.trans {s t u : Mut} (a : Mono s t) (b : Mono t u) : Mono s u :=
  ⟨b.xy.trans a.xy, fun h => Nat.le_trans (a.ver h) (b.ver h), fun h hm => b.may h (a.may h hm)⟩

theorem Mono.hasXY {s t : Mut} (m : Mono s t) (h : Nat) : t.hasXY h = s.hasXY h := by
  unfold Mut.hasXY; rw [m.xy]

theorem mono_bump (s : Mut) (f e : Nat) : Mono s (bump s f e) := by
  refine ⟨rfl, ?_, fun _ h => h⟩
  intro h
  by_cases hf : h = f
  · subst hf
    show s.version h ≤ upd s.version h (s.version h + 1) h
    rw [upd_same]; omega
  · show s.version h ≤ upd s.version f (s.version f + 1) h
    rw [upd_other _ _ _ _ hf]

theorem mono_allow (s : Mut) (f h : Nat) : Mono s (allow s f h) := by
  refine ⟨rfl, fun _ => Nat.le_refl _, ?_⟩
  intro k hk
  by_cases hkh : k = h
  · subst hkh; exact upd_same _ _ _
  · show upd s.mayFit h true k = true
    rw [upd_other _ _ _ _ hkh]; exact hk

theorem doFit_live (N : Nat) (conds : Nat → List Nat) (wf : WF conds) :
    ∀ fuel f e s, f < N → N - f ≤ fuel → FcSub conds s → s.hasXY f = true →
      let s' := doFit N conds fuel f e s
      Mono s s' ∧ 0 < s'.version f ∧
      (∀ h, h < N → MayOK conds s h → MayOK conds s' h) ∧
      (∀ h, h < N → FitOK s h → FitOK s' h) := by
  intro fuel
  induction fuel with
  | zero => intro f e s hf hfuel; omega
  | succ fuel ih =>
    intro f e s hf hfuel hsub hxy
    simp only [doFit]
    have loop : ∀ (ds : List Nat) (t : Mut), (∀ d ∈ ds, d < N ∧ f ∈ conds d) →
        FcSub conds t → Mono (bump s f e) t →
        (∀ h, h < N → MayOK conds s h → MayOK conds t h ∨ h ∈ ds) →
        (∀ h, h < N → FitOK s h → FitOK t h) →
        let t' := ds.foldl (callback conds (doFit N conds fuel) f) t
        Mono (bump s f e) t' ∧
        (∀ h, h < N → MayOK conds s h → MayOK conds t' h) ∧
        (∀ h, h < N → FitOK s h → FitOK t' h) := by
      intro ds
      induction ds with
      | nil =>
        intro t _ _ hmono hmay hfit
        refine ⟨hmono, ?_, hfit⟩
        intro h hh hm
        rcases hmay h hh hm with ok | mem
        · exact ok
        · cases mem
      | cons d ds ihds =>
        intro t hds hsubt hmono hmay hfit
        have hd := hds d (by simp)
        have hdf : f < d := wf d f hd.2
        have ht2sub : FcSub conds (allow t f d) := allow_fcSub hsubt hd.2
        have hmayd : (allow t f d).mayFit d = true := upd_same _ _ _
        have hmay_allow : ∀ h, MayOK conds t h → MayOK conds (allow t f d) h := by
          intro h hm
          rcases hm with hm | hm
          · left; exact (mono_allow t f d).may h hm
          · right; exact hm
        cases hxd : t.xyEpoch d with
        | some e' =>
          rw [foldl_callback_cons_some _ _ _ _ _ _ _ hsubt hd.2 hxd]
          have hxyd : (allow t f d).hasXY d = true := hasXY_some (s := allow t f d) hxd
          obtain ⟨m3, v3, may3, fit3⟩ := ih d e' (allow t f d) hd.1 (by omega) ht2sub hxyd
          apply ihds (doFit N conds fuel d e' (allow t f d)) (fun h hh => hds h (by simp [hh]))
            (doFit_fcSub N conds fuel d e' _ ht2sub) ((hmono.trans (mono_allow t f d)).trans m3)
          · intro h hh hm
            rcases hmay h hh hm with ok | mem
            · left; exact may3 h hh (hmay_allow h ok)
            · rcases List.mem_cons.mp mem with h' | h'
              · subst h'; left; exact may3 h hh (Or.inl hmayd)
              · right; exact h'
          · intro h hh hf'
            by_cases hhd : h = d
            · subst hhd; intro _ _; exact v3
            · apply fit3 h hh
              intro hx hm
              have : (allow t f d).mayFit h = t.mayFit h := upd_other _ _ _ _ hhd
              exact hfit h hh hf' hx (by rw [← this]; exact hm)
        | none =>
          rw [foldl_callback_cons_none _ _ _ _ _ _ hsubt hd.2 hxd]
          apply ihds (allow t f d) (fun h hh => hds h (by simp [hh])) ht2sub
            (hmono.trans (mono_allow t f d))
          · intro h hh hm
            rcases hmay h hh hm with ok | mem
            · left; exact hmay_allow h ok
            · rcases List.mem_cons.mp mem with h' | h'
              · subst h'; left; left; exact hmayd
              · right; exact h'
          · intro h hh hf'
            by_cases hhd : h = d
            · subst hhd
              intro hx _
              have hx' : t.hasXY h = true := hx
              rw [hasXY_none hxd] at hx'
              cases hx'
            · intro hx hm
              have : (allow t f d).mayFit h = t.mayFit h := upd_other _ _ _ _ hhd
              exact hfit h hh hf' hx (by rw [← this]; exact hm)
    have hb := mono_bump s f e
    obtain ⟨m, may', fit'⟩ := loop (dependents N conds f) (bump s f e)
      (fun h hh => mem_dependents.mp hh) hsub (Mono.refl _)
      (by
        intro h hh hm
        rcases hm with hm | hm
        · left; left; exact hb.may h hm
        · by_cases hfc : f ∈ conds h
          · right; exact mem_dependents.mpr ⟨hh, hfc⟩
          · left; right
            intro g hg
            have hgf : g ≠ f := fun e => hfc (e ▸ hg)
            show upd s.version f (s.version f + 1) g = 0
            rw [upd_other _ _ _ _ hgf]; exact hm g hg)
      (by
        intro h hh hf' hx hm
        exact Nat.lt_of_lt_of_le (hf' hx hm) (hb.ver h))
    refine ⟨hb.trans m, ?_, may', fit'⟩
    have h1 : (bump s f e).version f = s.version f + 1 := upd_same _ _ _
    have := m.ver f
    omega

/-- liveness invariant of top-level states -/
def Live (N : Nat) (conds : Nat → List Nat) (s : Mut) : Prop :=
  FcSub conds s ∧ (∀ h, h < N → MayOK conds s h) ∧ (∀ h, h < N → FitOK s h) ∧
    (∀ h, conds h = [] → s.mayFit h = true)

theorem init_live (N : Nat) (conds : Nat → List Nat) : Live N conds (init conds) := by
  refine ⟨?_, ?_, ?_, ?_⟩
  · intro h g hg; simp [init] at hg
  · intro h _; right; intro g _; rfl
  · intro h _ hx; simp [init, Mut.hasXY] at hx
  · intro h hc; simp [init, hc]

theorem fitCall_live (N : Nat) (conds : Nat → List Nat) (wf : WF conds) (f e : Nat) (hf : f < N)
    (s : Mut) (hl : Live N conds s) :
    Live N conds (fitCall N conds f e s) ∧ (fitCall N conds f e s).hasXY f = true ∧
      (∀ h, s.hasXY h = true → (fitCall N conds f e s).hasXY h = true) := by
  obtain ⟨hsub, hmay, hfit, hroot⟩ := hl
  rw [fitCall_eq]
  have hxyf := store_hasXY_self s f e
  have hxymono := store_hasXY_mono s f e
  have hsub1 : FcSub conds (store s f e) := hsub
  by_cases hm : s.mayFit f = true
  · rw [if_pos hm]
    obtain ⟨m, v, may', fit'⟩ :=
      doFit_live N conds wf N f e (store s f e) hf (by omega) hsub1 hxyf
    refine ⟨⟨doFit_fcSub N conds N f e _ hsub1, ?_, ?_, ?_⟩, ?_, ?_⟩
    · intro h hh; exact may' h hh (hmay h hh)
    · intro h hh
      by_cases hhf : h = f
      · subst hhf; intro _ _; exact v
      · apply fit' h hh
        intro hx hmm
        exact hfit h hh (by rw [← store_hasXY_other s f e h hhf]; exact hx) hmm
    · intro h hc; exact m.may h (hroot h hc)
    · rw [m.hasXY]; exact hxyf
    · intro h hx; rw [m.hasXY]; exact hxymono h hx
  · rw [if_neg hm]
    refine ⟨⟨hsub1, hmay, ?_, hroot⟩, hxyf, hxymono⟩
    intro h hh
    by_cases hhf : h = f
    · subst hhf; intro _ hmm; exact absurd hmm hm
    · intro hx hmm
      exact hfit h hh (by rw [← store_hasXY_other s f e h hhf]; exact hx) hmm

theorem runHistory_live (N : Nat) (conds : Nat → List Nat) (wf : WF conds)
    (ops : List (Nat × Nat)) (hops : ∀ p ∈ ops, p.1 < N) :
    Live N conds (runHistory N conds ops) ∧
      ∀ p ∈ ops, (runHistory N conds ops).hasXY p.1 = true := by
  unfold runHistory
  suffices H : ∀ (ops : List (Nat × Nat)) (s : Mut), (∀ p ∈ ops, p.1 < N) → Live N conds s →
      Live N conds (ops.foldl (fun s p => fitCall N conds p.1 p.2 s) s) ∧
      ∀ h, (s.hasXY h = true ∨ ∃ p ∈ ops, p.1 = h) →
        (ops.foldl (fun s p => fitCall N conds p.1 p.2 s) s).hasXY h = true by
    obtain ⟨a, b⟩ := H ops _ hops (init_live N conds)
    exact ⟨a, fun p hp => b p.1 (Or.inr ⟨p, hp, rfl⟩)⟩
  intro ops
  induction ops with
  | nil =>
    intro s _ hl
    refine ⟨hl, ?_⟩
    intro h hh
    rcases hh with hh | ⟨p, hp, _⟩
    · exact hh
    · cases hp
  | cons q ops ih =>
    intro s hops hl
    obtain ⟨hl', hxf, hxm⟩ := fitCall_live N conds wf q.1 q.2 (hops q (by simp)) s hl
    obtain ⟨a, b⟩ := ih (fitCall N conds q.1 q.2 s) (fun g hg => hops g (by simp [hg])) hl'
    refine ⟨a, ?_⟩
    intro h hh
    apply b h
    rcases hh with hh | ⟨p, hp, rfl⟩
    · left; exact hxm h hh
    · rcases List.mem_cons.mp hp with rfl | hp
      · left; exact hxf
      · right; exact ⟨p, hp, rfl⟩

/-- **liveness.**  If every declared function has been `fit`-called at least once (in any order,
any number of times, with any data), every function has been fitted. -/
theorem all_called_all_fitted (N : Nat) (conds : Nat → List Nat) (wf : WF conds)
    (ops : List (Nat × Nat)) (hops : ∀ p ∈ ops, p.1 < N) (hall : ∀ f, f < N → ∃ p ∈ ops, p.1 = f) :
    ∀ h, h < N → 0 < (runHistory N conds ops).version h := by
  obtain ⟨⟨_, hmay, hfit, hroot⟩, hxy⟩ := runHistory_live N conds wf ops hops
  intro h
  induction h using Nat.strong_induction_on with
  | _ h ih =>
    intro hh
    have hxyh : (runHistory N conds ops).hasXY h = true := by
      obtain ⟨p, hp, rfl⟩ := hall h hh
      exact hxy p hp
    apply hfit h hh hxyh
    cases hc : conds h with
    | nil => exact hroot h hc
    | cons g gs =>
      have hg : g ∈ conds h := by rw [hc]; simp
      have hgh : g < h := wf h g hg
      have hv := ih g hgh (by omega)
      rcases hmay h hh with hm | hm
      · exact hm
      · have := hm g hg; omega

/-! ### the event log -/

/-- the log (newest first) agrees with the counters: `version f` counts the `_fit` executions of `f`,
and `seen h g` is the number of `_fit`s of `g` that happened before the last `_fit` of `h` -/
def LogInv (s : Mut) : Prop :=
  (∀ f, s.version f = s.log.count f) ∧
  (∀ h g, 0 < s.version h → s.seen h g = ((s.log.dropWhile (fun e => e != h)).tail).count g)

theorem logInv_of_eq {s t : Mut} (hv : t.version = s.version) (hs : t.seen = s.seen)
    (hl : t.log = s.log) (h : LogInv s) : LogInv t := by
  unfold LogInv at *
  rw [hv, hs, hl]; exact h

theorem logInv_bump (s : Mut) (f e : Nat) (h : LogInv s) : LogInv (bump s f e) := by
  obtain ⟨hc, hs⟩ := h
  constructor
  · intro k
    show upd s.version f (s.version f + 1) k = (f :: s.log).count k
    by_cases hk : k = f
    · subst hk; rw [upd_same, List.count_cons_self, hc]
    · rw [upd_other _ _ _ _ hk, List.count_cons_of_ne (fun e => hk e.symm), hc]
  · intro h g hv
    show upd s.seen f (fun g => s.version g) h g =
      (((f :: s.log).dropWhile (fun e => e != h)).tail).count g
    by_cases hk : h = f
    · subst hk
      rw [upd_same]
      have : (h :: s.log).dropWhile (fun e => e != h) = h :: s.log := by
        simp [List.dropWhile]
      rw [this, List.tail_cons, hc]
    · have hv' : 0 < s.version h := by
        have : (bump s f e).version h = s.version h := upd_other _ _ _ _ hk
        rw [← this]; exact hv
      have : (f :: s.log).dropWhile (fun e => e != h) = s.log.dropWhile (fun e => e != h) := by
        have : (f != h) = true := by simpa using fun e : f = h => hk e.symm
        simp [List.dropWhile, this]
      rw [upd_other _ _ _ _ hk, this]
      exact hs h g hv'

theorem doFit_logInv (N : Nat) (conds : Nat → List Nat) (fuel f e : Nat) (s : Mut) (h : LogInv s) :
    LogInv (doFit N conds fuel f e s) := by
  have key := doFit_preserves N conds LogInv (fun s f e _ _ h => logInv_bump s f e h)
    (fun _ _ _ h => logInv_of_eq rfl rfl rfl h) (fun _ _ _ h => logInv_of_eq rfl rfl rfl h)
  cases fuel with
  | zero => exact h
  | succ fuel => exact key.2 fuel f e s (logInv_bump s f e h)

theorem fitCall_logInv (N : Nat) (conds : Nat → List Nat) (f e : Nat) (s : Mut) (h : LogInv s) :
    LogInv (fitCall N conds f e s) := by
  rw [fitCall_eq]
  have h1 : LogInv (store s f e) := logInv_of_eq rfl rfl rfl h
  split
  · exact doFit_logInv N conds N f e _ h1
  · exact h1

theorem runHistory_logInv (N : Nat) (conds : Nat → List Nat) (ops : List (Nat × Nat)) :
    LogInv (runHistory N conds ops) :=
  runHistory_induct N conds LogInv ⟨fun _ => rfl, fun h g hv => by simp [init] at hv⟩ ops
    (fun _ => True) (fun _ _ => trivial) (fun s p _ hs => fitCall_logInv N conds p.1 p.2 s hs)

/-- the version counter of `f` is the number of `_fit` executions of `f` in the log -/
theorem version_eq_count_log (N : Nat) (conds : Nat → List Nat) (ops : List (Nat × Nat)) (f : Nat) :
    (runHistory N conds ops).version f = (runHistory N conds ops).log.count f :=
  (runHistory_logInv N conds ops).1 f

theorem count_dropWhile_tail (g h : Nat) (hgh : g ≠ h) (l : List Nat) :
    ((l.dropWhile (fun e => e != h)).tail).count g = (l.dropWhile (fun e => e != h)).count g := by
  induction l with
  | nil => rfl
  | cons a l ih =>
    by_cases ha : a = h
    · subst ha
      have : (a :: l).dropWhile (fun e => e != a) = a :: l := by simp [List.dropWhile]
      rw [this, List.tail_cons, List.count_cons_of_ne (fun e => hgh e.symm)]
    · have hne : (a != h) = true := by simpa using ha
      have : (a :: l).dropWhile (fun e => e != h) = l.dropWhile (fun e => e != h) := by
        simp [List.dropWhile, hne]
      rw [this]; exact ih

/-- **C14, log form of `no_stale_after_any_history`.**  In the log of `_fit` executions (newest
first) of any history, no `_fit` of a conditioner `g` of `h` lies after the last `_fit` of `h`:
the parameters `h` ends up with were obtained after the last fit of each of its conditioners. -/
theorem final_fit_after_conditioners (N : Nat) (conds : Nat → List Nat) (wf : WF conds)
    (ops : List (Nat × Nat)) (hops : ∀ p ∈ ops, p.1 < N) :
    let s := runHistory N conds ops
    ∀ h g, h < N → g ∈ conds h → h ∈ s.log → g ∉ s.log.takeWhile (fun e => e != h) := by
  show ∀ h g, h < N → g ∈ conds h → h ∈ (runHistory N conds ops).log →
    g ∉ (runHistory N conds ops).log.takeWhile (fun e => e != h)
  generalize hsdef : runHistory N conds ops = s
  intro h g hh hg hmem
  have hc : ∀ f, s.version f = s.log.count f := by
    rw [← hsdef]; exact (runHistory_logInv N conds ops).1
  have hs : ∀ h g, 0 < s.version h →
      s.seen h g = ((s.log.dropWhile (fun e => e != h)).tail).count g := by
    rw [← hsdef]; exact (runHistory_logInv N conds ops).2
  have hv : 0 < s.version h := by
    rw [hc h]; exact List.count_pos_iff.mpr hmem
  have h1 : s.seen h g = s.version g := by
    have := no_stale_after_any_history N conds wf ops hops h g hh
    rw [hsdef] at this
    exact this hv hg
  have h2 := hs h g hv
  have hgh : g ≠ h := by have := wf h g hg; omega
  rw [count_dropWhile_tail g h hgh] at h2
  have h3 : s.log.count g = (s.log.takeWhile (fun e => e != h)).count g +
      (s.log.dropWhile (fun e => e != h)).count g := by
    conv_lhs => rw [← List.takeWhile_append_dropWhile (p := fun e => e != h) (l := s.log)]
    exact List.count_append
  have h4 := hc g
  have h5 : (s.log.takeWhile (fun e => e != h)).count g = 0 := by
    have e1 : s.seen h g = s.version g := h1
    omega
  exact List.count_eq_zero.mp h5

/-- **final state after every function has been called** (both halves together): every function
is fitted, every conditioner is fitted, and every function's last fit saw the final version of
each of its conditioners — whatever the order and multiplicity of the calls. -/
theorem final_state_consistent (N : Nat) (conds : Nat → List Nat) (wf : WF conds)
    (ops : List (Nat × Nat)) (hops : ∀ p ∈ ops, p.1 < N) (hall : ∀ f, f < N → ∃ p ∈ ops, p.1 = f) :
    let s := runHistory N conds ops
    ∀ h, h < N → 0 < s.version h ∧ ∀ g ∈ conds h, 0 < s.version g ∧ s.seen h g = s.version g := by
  intro s h hh
  have hv := all_called_all_fitted N conds wf ops hops hall
  refine ⟨hv h hh, ?_⟩
  intro g hg
  have hgh := wf h g hg
  exact ⟨hv g (by omega), no_stale_after_any_history N conds wf ops hops h g hh (hv h hh) hg⟩

/-! ### the inputs of every `_fit`: which pairs, which start values -/

/-- epoch of the latest public `fit` call on `h` in a history (specification function; what it
computes is pinned down by `latestCall_eq_some_iff` and `latestCall_eq_none_iff`) -/
def latestCall (ops : List (Nat × Nat)) (h : Nat) : Option Nat :=
  ops.foldl (fun acc p => if p.1 = h then some p.2 else acc) none

theorem latestCall_append (ops : List (Nat × Nat)) (p : Nat × Nat) (h : Nat) :
    latestCall (ops ++ [p]) h = if p.1 = h then some p.2 else latestCall ops h := by
  simp [latestCall, List.foldl_append]

theorem latestCall_eq_none_iff (ops : List (Nat × Nat)) (h : Nat) :
    latestCall ops h = none ↔ ∀ p ∈ ops, p.1 ≠ h := by
  induction ops using List.reverseRecOn with
  | nil => simp [latestCall]
  | append_singleton ops p ih =>
    rw [latestCall_append]
    by_cases hp : p.1 = h
    · rw [if_pos hp]
      constructor
      · intro hc; cases hc
      · intro hall; exact absurd hp (hall p (by simp))
    · rw [if_neg hp, ih]
      constructor
      · intro hall q hq
        rcases List.mem_append.mp hq with hq | hq
        · exact hall q hq
        · have : q = p := by simpa using hq
          rw [this]; exact hp
      · intro hall q hq; exact hall q (List.mem_append_left _ hq)

/-- `latestCall` really is the latest call: `(h, e)` occurs in the history and no call on `h`
follows it -/
theorem latestCall_eq_some_iff (ops : List (Nat × Nat)) (h e : Nat) :
    latestCall ops h = some e ↔
      ∃ pre post, ops = pre ++ (h, e) :: post ∧ ∀ p ∈ post, p.1 ≠ h := by
  induction ops using List.reverseRecOn with
  | nil => simp [latestCall]
  | append_singleton ops p ih =>
    rw [latestCall_append]
    by_cases hp : p.1 = h
    · rw [if_pos hp]
      constructor
      · intro he
        have he' : p.2 = e := by simpa using he
        refine ⟨ops, [], ?_, by simp⟩
        have : p = (h, e) := by rw [← hp, ← he']
        rw [this]
      · rintro ⟨pre, post, heq, hpost⟩
        rcases List.eq_nil_or_concat post with rfl | ⟨post', q, rfl⟩
        · have := (List.append_inj' heq (by simp)).2
          have : p = (h, e) := by simpa using this
          rw [this]
        · exfalso
          rw [List.concat_eq_append] at heq hpost
          have heq' : ops ++ [p] = (pre ++ (h, e) :: post') ++ [q] := by
            rw [heq]; simp
          have hq : p = q := by simpa using (List.append_inj' heq' (by simp)).2
          exact hpost q (by simp) (hq ▸ hp)
    · rw [if_neg hp, ih]
      constructor
      · rintro ⟨pre, post, rfl, hpost⟩
        refine ⟨pre, post ++ [p], by simp, ?_⟩
        intro q hq
        rcases List.mem_append.mp hq with hq | hq
        · exact hpost q hq
        · have : q = p := by simpa using hq
          rw [this]; exact hp
      · rintro ⟨pre, post, heq, hpost⟩
        rcases List.eq_nil_or_concat post with rfl | ⟨post', q, rfl⟩
        · exfalso
          have := (List.append_inj' heq (by simp)).2
          have : p = (h, e) := by simpa using this
          exact hp (by rw [this])
        · rw [List.concat_eq_append] at heq hpost
          have heq' : ops ++ [p] = (pre ++ (h, e) :: post') ++ [q] := by
            rw [heq]; simp
          have h1 := (List.append_inj' heq' (by simp)).1
          exact ⟨pre, post', h1, fun r hr => hpost r (List.mem_append_left _ hr)⟩

theorem latestCall_mem (ops : List (Nat × Nat)) (h e : Nat) (hl : latestCall ops h = some e) :
    (h, e) ∈ ops := by
  obtain ⟨pre, post, rfl, _⟩ := (latestCall_eq_some_iff ops h e).mp hl
  simp

/-- a history that ends with calls of epoch `r` on `h` (and on whatever else) -/
theorem latestCall_suffix (pre rnd : List (Nat × Nat)) (h r : Nat)
    (hr : ∀ p ∈ rnd, p.1 = h → p.2 = r) (hmem : ∃ p ∈ rnd, p.1 = h) :
    latestCall (pre ++ rnd) h = some r := by
  unfold latestCall
  rw [List.foldl_append]
  generalize pre.foldl (fun acc p => if p.1 = h then some p.2 else acc) none = acc
  suffices H : ∀ (l : List (Nat × Nat)) (acc : Option Nat), (∀ p ∈ l, p.1 = h → p.2 = r) →
      (acc = some r ∨ ∃ p ∈ l, p.1 = h) →
      l.foldl (fun acc p => if p.1 = h then some p.2 else acc) acc = some r from
    H rnd acc hr (Or.inr hmem)
  intro l
  induction l with
  | nil =>
    intro acc _ hacc
    rcases hacc with hacc | ⟨p, hp, _⟩
    · exact hacc
    · cases hp
  | cons q l ih =>
    intro acc hr hacc
    rw [List.foldl_cons]
    apply ih _ (fun p hp => hr p (by simp [hp]))
    by_cases hq : q.1 = h
    · left; rw [if_pos hq, hr q (by simp) hq]
    · rw [if_neg hq]
      rcases hacc with hacc | ⟨p, hp, hph⟩
      · left; exact hacc
      · rcases List.mem_cons.mp hp with rfl | hp
        · exact absurd hph hq
        · right; exact ⟨p, hp, hph⟩

/-- what the public `fit` stores -/
theorem fitCall_xyEpoch (N : Nat) (conds : Nat → List Nat) (f e : Nat) (s : Mut) :
    (fitCall N conds f e s).xyEpoch = upd s.xyEpoch f (some e) ∧
    (fitCall N conds f e s).calls = s.calls + 1 := by
  rw [fitCall_eq]
  split
  · exact doFit_frame N conds N f e (store s f e)
  · exact ⟨rfl, rfl⟩

theorem runHistory_calls (N : Nat) (conds : Nat → List Nat) (ops : List (Nat × Nat)) :
    (runHistory N conds ops).calls = ops.length := by
  induction ops using List.reverseRecOn with
  | nil => rfl
  | append_singleton ops p ih =>
    rw [runHistory_append, (fitCall_xyEpoch N conds p.1 p.2 _).2, ih]; simp

/-- **stored pairs = pairs of the latest public call.**  After any history the pairs stored in
`h.x, h.y` are those handed over by the latest public `fit` call on `h` (none if there was no
such call); callbacks and cascades never touch them. -/
theorem stored_data_is_latest_call (N : Nat) (conds : Nat → List Nat) (ops : List (Nat × Nat))
    (h : Nat) : (runHistory N conds ops).xyEpoch h = latestCall ops h := by
  induction ops using List.reverseRecOn with
  | nil => rfl
  | append_singleton ops p ih =>
    rw [runHistory_append, (fitCall_xyEpoch N conds p.1 p.2 _).1, latestCall_append]
    by_cases hp : p.1 = h
    · rw [if_pos hp, ← hp, upd_same]
    · rw [if_neg hp, upd_other _ _ _ _ (fun e => hp e.symm), ih]

/-- the `_fit` events of one cascade: each ran on the pairs stored for its function, during the
current public call -/
theorem doFit_events (N : Nat) (conds : Nat → List Nat) (fuel f e : Nat) (s : Mut)
    (hx : s.xyEpoch f = some e) (hm : s.mayFit f = true) :
    ∃ new, (doFit N conds fuel f e s).evlog = new ++ s.evlog ∧
      ∀ ev ∈ new, s.xyEpoch ev.fn = some ev.data ∧ ev.call = s.calls := by
  have key := (doFit_preserves N conds
    (fun t => t.xyEpoch = s.xyEpoch ∧ t.calls = s.calls ∧
      ∃ new, t.evlog = new ++ s.evlog ∧ ∀ ev ∈ new, s.xyEpoch ev.fn = some ev.data ∧ ev.call = s.calls)
    ?_ (fun _ _ _ h => h) (fun _ _ _ h => h)).1 fuel f e s hx hm ⟨rfl, rfl, [], rfl, by simp⟩
  · exact key.2.2
  · rintro t f' e' hx' _ ⟨hxy, hc, new, hnew, hev⟩
    refine ⟨hxy, hc, { fn := f', data := e', p0 := p0Token t f', call := t.calls } :: new, ?_, ?_⟩
    · show _ :: t.evlog = _
      rw [hnew]; rfl
    · intro ev hev'
      rcases List.mem_cons.mp hev' with rfl | hev'
      · exact ⟨by rw [← hxy]; exact hx', hc⟩
      · exact hev ev hev'

theorem fitCall_events (N : Nat) (conds : Nat → List Nat) (f e : Nat) (s : Mut) :
    ∃ new, (fitCall N conds f e s).evlog = new ++ s.evlog ∧
      ∀ ev ∈ new, (fitCall N conds f e s).xyEpoch ev.fn = some ev.data ∧ ev.call = s.calls + 1 := by
  have hfr := (fitCall_xyEpoch N conds f e s).1
  rw [hfr]
  rw [fitCall_eq]
  by_cases hm : s.mayFit f = true
  · rw [if_pos hm]
    exact doFit_events N conds N f e (store s f e) (upd_same _ _ _) hm
  · rw [if_neg hm]
    exact ⟨[], rfl, by simp⟩

/-- **every `_fit` uses the stored pairs.**  The `_fit` executions caused by one more public call
(the direct one and all callback-triggered ones, at any depth) each received the pairs that are
stored for their function at that moment, and these are the pairs of the latest public `fit`
call on that function — never those of an earlier epoch. -/
theorem fit_uses_stored_data (N : Nat) (conds : Nat → List Nat) (ops : List (Nat × Nat))
    (p : Nat × Nat) :
    ∃ new, (runHistory N conds (ops ++ [p])).evlog = new ++ (runHistory N conds ops).evlog ∧
      ∀ ev ∈ new, (runHistory N conds (ops ++ [p])).xyEpoch ev.fn = some ev.data ∧
        latestCall (ops ++ [p]) ev.fn = some ev.data ∧ ev.call = ops.length + 1 := by
  obtain ⟨new, hnew, hev⟩ := fitCall_events N conds p.1 p.2 (runHistory N conds ops)
  rw [← runHistory_append, runHistory_calls] at hev
  rw [← runHistory_append] at hnew
  refine ⟨new, hnew, fun ev hmem => ?_⟩
  obtain ⟨h1, h2⟩ := hev ev hmem
  exact ⟨h1, by rw [← stored_data_is_latest_call N conds]; exact h1, h2⟩

/-- **whole-history form.**  Every `_fit` event in the log of any history ran during some public
call number `ev.call` and used the pairs of the latest public call on its function among the
first `ev.call` calls. -/
theorem every_fit_used_latest_call_data (N : Nat) (conds : Nat → List Nat)
    (ops : List (Nat × Nat)) :
    ∀ ev ∈ (runHistory N conds ops).evlog, 1 ≤ ev.call ∧ ev.call ≤ ops.length ∧
      latestCall (ops.take ev.call) ev.fn = some ev.data := by
  induction ops using List.reverseRecOn with
  | nil => intro ev hev; simp [runHistory, init] at hev
  | append_singleton ops p ih =>
    obtain ⟨new, hnew, hev⟩ := fit_uses_stored_data N conds ops p
    intro ev hmem
    rw [hnew] at hmem
    rcases List.mem_append.mp hmem with hmem | hmem
    · obtain ⟨_, h2, h3⟩ := hev ev hmem
      refine ⟨by omega, by simp [h3], ?_⟩
      rw [h3, List.take_of_length_le (by simp)]
      exact h2
    · obtain ⟨h1, h2, h3⟩ := ih ev hmem
      refine ⟨h1, by simp; omega, ?_⟩
      rw [List.take_append_of_le_length h2]
      exact h3

/-- log invariants that every step keeps: the detailed log refines the plain one, `lastData` is
the newest event's data, `_p0` is captured exactly at the first `_fit` and is the constructor's
parameter values (token 0), every event used that token -/
structure EvInv (s : Mut) : Prop where
  fns : s.evlog.map (fun ev => ev.fn) = s.log
  last : ∀ h, s.lastData h = (s.evlog.find? (fun ev => ev.fn == h)).map (fun ev => ev.data)
  never : ∀ h, s.version h = 0 → s.p0At h = none ∧ s.lastData h = none
  once : ∀ h, 0 < s.version h → s.p0At h = some 0 ∧ (s.lastData h).isSome = true
  p0ev : ∀ ev ∈ s.evlog, ev.p0 = 0 ∧ s.p0At ev.fn = some 0

theorem evInv_of_eq {s t : Mut} (hv : t.version = s.version) (hl : t.log = s.log)
    (hd : t.lastData = s.lastData) (hp : t.p0At = s.p0At) (he : t.evlog = s.evlog)
    (h : EvInv s) : EvInv t := by
  obtain ⟨a, b, c, d, e⟩ := h
  constructor
  · rw [he, hl]; exact a
  · rw [hd, he]; exact b
  · rw [hv, hp, hd]; exact c
  · rw [hv, hp, hd]; exact d
  · rw [he, hp]; exact e

theorem p0Token_zero {s : Mut} (h : EvInv s) (f : Nat) : p0Token s f = 0 := by
  unfold p0Token
  by_cases hv : s.version f = 0
  · rw [(h.never f hv).1]; exact hv
  · rw [(h.once f (by omega)).1]

theorem evInv_bump (s : Mut) (f e : Nat) (h : EvInv s) : EvInv (bump s f e) := by
  have htok := p0Token_zero h f
  constructor
  · show ({ fn := f, data := e, p0 := p0Token s f, call := s.calls } :: s.evlog).map
      (fun ev => ev.fn) = f :: s.log
    rw [List.map_cons, h.fns]
  · intro k
    show upd s.lastData f (some e) k =
      (({ fn := f, data := e, p0 := p0Token s f, call := s.calls } :: s.evlog).find?
        (fun ev => ev.fn == k)).map (fun ev => ev.data)
    by_cases hk : k = f
    · subst hk
      rw [upd_same, List.find?_cons_of_pos (by simp)]; rfl
    · rw [upd_other _ _ _ _ hk, List.find?_cons_of_neg (by simpa using fun e' : f = k => hk e'.symm)]
      exact h.last k
  · intro k hv
    have hk : k ≠ f := by
      intro e'; subst e'
      have : (bump s k e).version k = s.version k + 1 := upd_same _ _ _
      omega
    have hv' : s.version k = 0 := by
      have : (bump s f e).version k = s.version k := upd_other _ _ _ _ hk
      rw [← this]; exact hv
    show upd s.p0At f (some (p0Token s f)) k = none ∧ upd s.lastData f (some e) k = none
    rw [upd_other _ _ _ _ hk, upd_other _ _ _ _ hk]
    exact h.never k hv'
  · intro k hv
    show upd s.p0At f (some (p0Token s f)) k = some 0 ∧
      (upd s.lastData f (some e) k).isSome = true
    by_cases hk : k = f
    · subst hk
      rw [upd_same, upd_same, htok]; exact ⟨rfl, rfl⟩
    · have hv' : 0 < s.version k := by
        have : (bump s f e).version k = s.version k := upd_other _ _ _ _ hk
        rw [← this]; exact hv
      rw [upd_other _ _ _ _ hk, upd_other _ _ _ _ hk]
      exact h.once k hv'
  · intro ev hev
    have hev' : ev ∈ { fn := f, data := e, p0 := p0Token s f, call := s.calls } :: s.evlog := hev
    show ev.p0 = 0 ∧ upd s.p0At f (some (p0Token s f)) ev.fn = some 0
    rcases List.mem_cons.mp hev' with rfl | hold
    · exact ⟨htok, by rw [upd_same, htok]⟩
    · refine ⟨(h.p0ev ev hold).1, ?_⟩
      by_cases hk : ev.fn = f
      · rw [hk, upd_same, htok]
      · rw [upd_other _ _ _ _ hk]; exact (h.p0ev ev hold).2

theorem doFit_evInv (N : Nat) (conds : Nat → List Nat) (fuel f e : Nat) (s : Mut) (h : EvInv s) :
    EvInv (doFit N conds fuel f e s) := by
  have key := doFit_preserves N conds EvInv (fun s f e _ _ h => evInv_bump s f e h)
    (fun s _ _ h => evInv_of_eq (s := s) rfl rfl rfl rfl rfl h)
    (fun s _ _ h => evInv_of_eq (s := s) rfl rfl rfl rfl rfl h)
  cases fuel with
  | zero => exact h
  | succ fuel => exact key.2 fuel f e s (evInv_bump s f e h)

theorem fitCall_evInv (N : Nat) (conds : Nat → List Nat) (f e : Nat) (s : Mut) (h : EvInv s) :
    EvInv (fitCall N conds f e s) := by
  rw [fitCall_eq]
  have h1 : EvInv (store s f e) := evInv_of_eq (s := s) rfl rfl rfl rfl rfl h
  split
  · exact doFit_evInv N conds N f e _ h1
  · exact h1

theorem init_evInv (conds : Nat → List Nat) : EvInv (init conds) := by
  constructor
  · rfl
  · intro h; rfl
  · intro h _; exact ⟨rfl, rfl⟩
  · intro h hv; simp [init] at hv
  · intro ev hev; simp [init] at hev

theorem runHistory_evInv (N : Nat) (conds : Nat → List Nat) (ops : List (Nat × Nat)) :
    EvInv (runHistory N conds ops) :=
  runHistory_induct N conds EvInv (init_evInv conds) ops
    (fun _ => True) (fun _ _ => trivial) (fun s p _ hs => fitCall_evInv N conds p.1 p.2 s hs)

/-- **start values are fixed.**  The start values handed to the optimiser by any `_fit` of `h`, in
any history, are the ones captured at `h`'s first `_fit` (`h._p0`), and those are the parameter
values the constructor put in place (token 0) — never the result of an earlier fit.  Hence what a
`_fit` computes is a function of (pairs, conditioners' parameters, initial values) only. -/
theorem start_values_fixed (N : Nat) (conds : Nat → List Nat) (ops : List (Nat × Nat)) :
    let s := runHistory N conds ops
    (∀ ev ∈ s.evlog, s.p0At ev.fn = some ev.p0 ∧ ev.p0 = 0) ∧
    (∀ h, s.version h = 0 → s.p0At h = none) ∧ (∀ h, 0 < s.version h → s.p0At h = some 0) := by
  intro s
  have hinv := runHistory_evInv N conds ops
  refine ⟨fun ev hev => ?_, fun h hv => (hinv.never h hv).1, fun h hv => (hinv.once h hv).1⟩
  obtain ⟨h1, h2⟩ := hinv.p0ev ev hev
  exact ⟨by rw [h1]; exact h2, h1⟩

/-- the detailed event log refines the plain one -/
theorem evlog_refines_log (N : Nat) (conds : Nat → List Nat) (ops : List (Nat × Nat)) :
    (runHistory N conds ops).evlog.map (fun ev => ev.fn) = (runHistory N conds ops).log :=
  (runHistory_evInv N conds ops).fns

/-- `lastData h` is the data epoch of the newest `_fit` event of `h` in the log -/
theorem lastData_eq_log (N : Nat) (conds : Nat → List Nat) (ops : List (Nat × Nat)) (h : Nat) :
    (runHistory N conds ops).lastData h =
      ((runHistory N conds ops).evlog.find? (fun ev => ev.fn == h)).map (fun ev => ev.data) :=
  (runHistory_evInv N conds ops).last h

/-- a fitted function may fit -/
def MF (s : Mut) : Prop := ∀ h, 0 < s.version h → s.mayFit h = true

/-- the pairs of the last `_fit` are the stored ones -/
def DataOK (s : Mut) : Prop := ∀ h e, s.lastData h = some e → s.xyEpoch h = some e

theorem mf_bump (s : Mut) (f e : Nat) (hm : s.mayFit f = true) (h : MF s) : MF (bump s f e) := by
  intro k hv
  by_cases hk : k = f
  · subst hk; exact hm
  · have : (bump s f e).version k = s.version k := upd_other _ _ _ _ hk
    exact h k (by rw [← this]; exact hv)

theorem mf_allow (s : Mut) (f h : Nat) (hs : MF s) : MF (allow s f h) :=
  fun k hv => (mono_allow s f h).may k (hs k hv)

theorem dataOK_bump (s : Mut) (f e : Nat) (hx : s.xyEpoch f = some e) (h : DataOK s) :
    DataOK (bump s f e) := by
  intro k e' hl
  have hl' : upd s.lastData f (some e) k = some e' := hl
  show s.xyEpoch k = some e'
  by_cases hk : k = f
  · subst hk
    rw [upd_same] at hl'
    rw [← hl']; exact hx
  · rw [upd_other _ _ _ _ hk] at hl'
    exact h k e' hl'

/-- the invariants about the inputs of the fits, for top-level states -/
def InInv (s : Mut) : Prop := EvInv s ∧ MF s ∧ DataOK s

theorem fitCall_inInv (N : Nat) (conds : Nat → List Nat) (f e : Nat) (hf : f < N) (s : Mut)
    (h : InInv s) : InInv (fitCall N conds f e s) := by
  obtain ⟨hev, hmf, hd⟩ := h
  refine ⟨fitCall_evInv N conds f e s hev, ?_, ?_⟩
  · rw [fitCall_eq]
    have h1 : MF (store s f e) := hmf
    by_cases hm : s.mayFit f = true
    · rw [if_pos hm]
      exact (doFit_preserves N conds MF (fun s f e _ hm h => mf_bump s f e hm h)
        (fun _ _ _ h => h) (fun s f h hs => mf_allow s f h hs)).1 N f e _ (upd_same _ _ _) hm h1
    · rw [if_neg hm]; exact h1
  · rw [fitCall_eq]
    by_cases hm : s.mayFit f = true
    · rw [if_pos hm]
      obtain ⟨n, rfl⟩ : ∃ n, N = n + 1 := ⟨N - 1, by omega⟩
      apply (doFit_preserves (n + 1) conds DataOK (fun s f e hx _ h => dataOK_bump s f e hx h)
        (fun _ _ _ h => h) (fun _ _ _ h => h)).2 n f e
      intro k e' hl
      have hl' : upd s.lastData f (some e) k = some e' := hl
      show upd s.xyEpoch f (some e) k = some e'
      by_cases hk : k = f
      · subst hk
        rw [upd_same] at hl' ⊢; exact hl'
      · rw [upd_other _ _ _ _ hk] at hl' ⊢
        exact hd k e' hl'
    · rw [if_neg hm]
      intro k e' hl
      have hl' : s.lastData k = some e' := hl
      show upd s.xyEpoch f (some e) k = some e'
      by_cases hk : k = f
      · subst hk
        exfalso
        by_cases hv : s.version k = 0
        · rw [(hev.never k hv).2] at hl'; cases hl'
        · exact hm (hmf k (by omega))
      · rw [upd_other _ _ _ _ hk]; exact hd k e' hl'

theorem init_inInv (conds : Nat → List Nat) : InInv (init conds) := by
  refine ⟨init_evInv conds, ?_, ?_⟩
  · intro h hv; simp [init] at hv
  · intro h e hl; simp [init] at hl

theorem runHistory_inInv (N : Nat) (conds : Nat → List Nat) (ops : List (Nat × Nat))
    (hops : ∀ p ∈ ops, p.1 < N) : InInv (runHistory N conds ops) :=
  runHistory_induct N conds InInv (init_inInv conds) ops (fun p => p.1 < N) hops
    (fun s p hp hs => fitCall_inInv N conds p.1 p.2 hp s hs)

/-- **the last `_fit` of a fitted function used the stored pairs**, i.e. those of the latest public
call on it (state form of `fit_uses_stored_data`; no assumption on the declaration) -/
theorem last_fit_data_is_stored (N : Nat) (conds : Nat → List Nat) (ops : List (Nat × Nat))
    (hops : ∀ p ∈ ops, p.1 < N) :
    let s := runHistory N conds ops
    ∀ h, 0 < s.version h →
      ∃ e, s.lastData h = some e ∧ s.xyEpoch h = some e ∧ latestCall ops h = some e := by
  intro s h hv
  obtain ⟨hev, _, hd⟩ := runHistory_inInv N conds ops hops
  obtain ⟨e, he⟩ := Option.isSome_iff_exists.mp (hev.once h hv).2
  have hx := hd h e he
  exact ⟨e, he, hx, by rw [← stored_data_is_latest_call N conds]; exact hx⟩

/-- **re-fit: after a complete round everything is current.**  Well-formed declaration; any earlier
history `pre` (complete or partial rounds, any epochs); then a round `rnd` in which every function
receives a public `fit` call with pairs of epoch `r`, in ANY order (also repeated calls).  Then
every function is fitted, its stored pairs are those of epoch `r`, its LAST `_fit` ran on the
epoch-`r` pairs starting from the initial values, and that last `_fit` saw the final version of
each of its conditioners — whose own last `_fit` also ran on epoch-`r` pairs.  So a re-fitted
model's dependence functions are fitted to the NEW pairs given the conditioners' NEW parameters. -/
theorem round_complete_all_current (N : Nat) (conds : Nat → List Nat) (wf : WF conds)
    (pre rnd : List (Nat × Nat)) (r : Nat) (hpre : ∀ p ∈ pre, p.1 < N)
    (hrnd : ∀ p ∈ rnd, p.1 < N ∧ p.2 = r) (hall : ∀ f, f < N → (f, r) ∈ rnd) :
    let s := runHistory N conds (pre ++ rnd)
    ∀ h, h < N → 0 < s.version h ∧ s.xyEpoch h = some r ∧ s.lastData h = some r ∧
      (∃ ev, s.evlog.find? (fun ev => ev.fn == h) = some ev ∧ ev.data = r ∧ ev.p0 = 0) ∧
      ∀ g ∈ conds h, 0 < s.version g ∧ s.seen h g = s.version g ∧ s.lastData g = some r := by
  intro s
  have hops : ∀ p ∈ pre ++ rnd, p.1 < N := by
    intro p hp
    rcases List.mem_append.mp hp with hp | hp
    · exact hpre p hp
    · exact (hrnd p hp).1
  have hall' : ∀ f, f < N → ∃ p ∈ pre ++ rnd, p.1 = f :=
    fun f hf => ⟨(f, r), List.mem_append_right _ (hall f hf), rfl⟩
  have hfin := final_state_consistent N conds wf (pre ++ rnd) hops hall'
  have hlast : ∀ h, h < N → s.lastData h = some r ∧ s.xyEpoch h = some r := by
    intro h hh
    obtain ⟨e, h1, h2, h3⟩ := last_fit_data_is_stored N conds (pre ++ rnd) hops h (hfin h hh).1
    have h4 := latestCall_suffix pre rnd h r (fun p hp _ => (hrnd p hp).2)
      ⟨(h, r), hall h hh, rfl⟩
    have her : e = r := by
      rw [h4] at h3; exact (Option.some.inj h3).symm
    subst her
    exact ⟨h1, h2⟩
  intro h hh
  obtain ⟨hv, hc⟩ := hfin h hh
  refine ⟨hv, (hlast h hh).2, (hlast h hh).1, ?_, ?_⟩
  · have hev := runHistory_evInv N conds (pre ++ rnd)
    have h1 := hev.last h
    rw [(hlast h hh).1] at h1
    obtain ⟨ev, hfind, hdata⟩ := Option.map_eq_some_iff.mp h1.symm
    exact ⟨ev, hfind, hdata, (hev.p0ev ev (List.mem_of_find?_eq_some hfind)).1⟩
  · intro g hg
    have hgN : g < N := by have := wf h g hg; omega
    exact ⟨(hc g hg).1, (hc g hg).2, (hlast g hgN).1⟩

/-- if the epoch label `r` of the final round is fresh, the last `_fit` of every function
happened *during* the final round -/
theorem round_complete_fits_in_round (N : Nat) (conds : Nat → List Nat) (wf : WF conds)
    (pre rnd : List (Nat × Nat)) (r : Nat) (hpre : ∀ p ∈ pre, p.1 < N)
    (hrnd : ∀ p ∈ rnd, p.1 < N ∧ p.2 = r) (hall : ∀ f, f < N → (f, r) ∈ rnd)
    (hfresh : ∀ p ∈ pre, p.2 ≠ r) :
    let s := runHistory N conds (pre ++ rnd)
    ∀ h, h < N → ∃ ev, s.evlog.find? (fun ev => ev.fn == h) = some ev ∧ pre.length < ev.call := by
  intro s h hh
  obtain ⟨_, _, _, ⟨ev, hfind, hdata, _⟩, _⟩ :=
    round_complete_all_current N conds wf pre rnd r hpre hrnd hall h hh
  refine ⟨ev, hfind, ?_⟩
  have hmem := List.mem_of_find?_eq_some hfind
  have hfn : ev.fn = h := by simpa using List.find?_some hfind
  obtain ⟨_, _, h3⟩ := every_fit_used_latest_call_data N conds (pre ++ rnd) ev hmem
  by_contra hle
  have hle' : ev.call ≤ pre.length := by omega
  rw [List.take_append_of_le_length hle', hfn, hdata] at h3
  exact hfresh _ (List.mem_of_mem_take (latestCall_mem _ h r h3)) rfl

/-! ### results: what the functions END UP WITH, and order independence

The numerical `_fit` is an event in the model.  What it returns is, in the code, a deterministic
function of its inputs: the function fitted, the pairs (data epoch), the start values (token) and
the parameters the conditioners have *at that moment*.  `results` replays the detailed event log
with an ARBITRARY such function `fitRes` over an arbitrary result type `R`; it is exactly the field
one would add to `Mut` and update in `bump` (`results_bump`, by `rfl`), so nothing about the
driver's state machine changes.  `canon` is the dependency-order fit of data epoch `r` (every
function fitted once, after its conditioners, from the initial values); `canon_spec` /
`canon_unique` show it is the only solution of `c h = fitRes h r 0 ((conds h).map c)`. -/

section Results
variable {R : Type}

/-- the parameters every function has after the `_fit` events of a log (newest first): a `_fit` of
`f` replaces `f`'s parameters by `fitRes f data p0 (current parameters of conds f)` -/
def results (conds : Nat → List Nat) (fitRes : Nat → Nat → Nat → List R → R) (init0 : Nat → R) :
    List Ev → Nat → R
  | [] => init0
  | ev :: rest =>
    upd (results conds fitRes init0 rest) ev.fn
      (fitRes ev.fn ev.data ev.p0 ((conds ev.fn).map (results conds fitRes init0 rest)))

/-- `results` is the ghost field "current parameters" updated by `bump`: the `_fit` of `f` on pairs
of epoch `e` stores `fitRes f e (start token) (parameters of the conditioners now)`. -/
theorem results_bump (conds : Nat → List Nat) (fitRes : Nat → Nat → Nat → List R → R)
    (init0 : Nat → R) (s : Mut) (f e : Nat) :
    results conds fitRes init0 (bump s f e).evlog =
      upd (results conds fitRes init0 s.evlog) f
        (fitRes f e (p0Token s f) ((conds f).map (results conds fitRes init0 s.evlog))) := rfl

/-- dependency-order fit of data epoch `r`: function `n` is fitted once, from the initial values
(token 0), after all functions `< n` -/
def canon (conds : Nat → List Nat) (fitRes : Nat → Nat → Nat → List R → R) (init0 : Nat → R)
    (r : Nat) : Nat → Nat → R
  | 0 => init0
  | n + 1 =>
    upd (canon conds fitRes init0 r n) n
      (fitRes n r 0 ((conds n).map (canon conds fitRes init0 r n)))

theorem canon_stable (conds : Nat → List Nat) (fitRes : Nat → Nat → Nat → List R → R)
    (init0 : Nat → R) (r h : Nat) :
    ∀ n, h < n → canon conds fitRes init0 r n h = canon conds fitRes init0 r (h + 1) h := by
  intro n
  induction n with
  | zero => intro hn; omega
  | succ n ih =>
    intro hn
    by_cases hh : h = n
    · subst hh; rfl
    · have : canon conds fitRes init0 r (n + 1) h = canon conds fitRes init0 r n h :=
        upd_other _ _ _ _ hh
      rw [this]; exact ih (by omega)

/-- **`canon` is the dependency-order fit**: every function's parameters are the result of fitting
it to the epoch-`r` pairs, from the initial values, given the `canon` parameters of its
conditioners. -/
theorem canon_spec (conds : Nat → List Nat) (wf : WF conds)
    (fitRes : Nat → Nat → Nat → List R → R) (init0 : Nat → R) (r N h : Nat) (hh : h < N) :
    canon conds fitRes init0 r N h =
      fitRes h r 0 ((conds h).map (canon conds fitRes init0 r N)) := by
  rw [canon_stable conds fitRes init0 r h N hh]
  have h1 : canon conds fitRes init0 r (h + 1) h =
      fitRes h r 0 ((conds h).map (canon conds fitRes init0 r h)) := upd_same _ _ _
  rw [h1]
  congr 1
  apply List.map_congr_left
  intro g hg
  have hgh : g < h := wf h g hg
  rw [canon_stable conds fitRes init0 r g h hgh, canon_stable conds fitRes init0 r g N (by omega)]

/-- the fixed-point equation has only one solution below `N`: `canon` does not depend on how the
dependency order is linearised -/
theorem canon_unique (conds : Nat → List Nat) (wf : WF conds)
    (fitRes : Nat → Nat → Nat → List R → R) (init0 : Nat → R) (r N : Nat) (c : Nat → R)
    (hc : ∀ h, h < N → c h = fitRes h r 0 ((conds h).map c)) :
    ∀ h, h < N → c h = canon conds fitRes init0 r N h := by
  intro h
  induction h using Nat.strong_induction_on with
  | _ h ih =>
    intro hh
    rw [hc h hh, canon_spec conds wf fitRes init0 r N h hh]
    congr 1
    apply List.map_congr_left
    intro g hg
    have hgh : g < h := wf h g hg
    exact ih g hgh (by omega)

/-- `seen` never runs ahead of `version` -/
def SeenLe (s : Mut) : Prop := ∀ h g, s.seen h g ≤ s.version g

/-- a function whose last `_fit` saw the current version of all its conditioners has the parameters
obtained by fitting it to the pairs of that `_fit`, from the initial values, given the CURRENT
parameters of its conditioners -/
def ResOK (conds : Nat → List Nat) (fitRes : Nat → Nat → Nat → List R → R) (init0 : Nat → R)
    (s : Mut) : Prop :=
  ∀ h e, s.lastData h = some e → (∀ g ∈ conds h, s.seen h g = s.version g) →
    results conds fitRes init0 s.evlog h =
      fitRes h e 0 ((conds h).map (results conds fitRes init0 s.evlog))

def ResInv (conds : Nat → List Nat) (fitRes : Nat → Nat → Nat → List R → R) (init0 : Nat → R)
    (s : Mut) : Prop :=
  EvInv s ∧ SeenLe s ∧ ResOK conds fitRes init0 s

theorem seenLe_bump (s : Mut) (f e : Nat) (h : SeenLe s) : SeenLe (bump s f e) := by
  intro k g
  have hv : s.version g ≤ (bump s f e).version g := (mono_bump s f e).ver g
  by_cases hk : k = f
  · subst hk
    have : (bump s k e).seen k g = s.version g := by
      show upd s.seen k (fun g => s.version g) k g = s.version g
      rw [upd_same]
    rw [this]; exact hv
  · have : (bump s f e).seen k g = s.seen k g := by
      show upd s.seen f (fun g => s.version g) k g = s.seen k g
      rw [upd_other _ _ _ _ hk]
    rw [this]; exact Nat.le_trans (h k g) hv

theorem map_upd_of_not_mem (c : Nat → R) (f : Nat) (v : R) (l : List Nat) (hf : f ∉ l) :
    l.map (upd c f v) = l.map c := by
  apply List.map_congr_left
  intro g hg
  exact upd_other _ _ _ _ (fun e => hf (e ▸ hg))

theorem resOK_bump (conds : Nat → List Nat) (wf : WF conds)
    (fitRes : Nat → Nat → Nat → List R → R) (init0 : Nat → R) (s : Mut) (f e : Nat)
    (hev : EvInv s) (hle : SeenLe s) (hres : ResOK conds fitRes init0 s) :
    ResOK conds fitRes init0 (bump s f e) := by
  intro h e' hl hseen
  rw [results_bump, p0Token_zero hev f]
  have hl' : upd s.lastData f (some e) h = some e' := hl
  by_cases hk : h = f
  · subst hk
    rw [upd_same] at hl'
    have he : e = e' := Option.some.inj hl'
    subst he
    have hself : h ∉ conds h := fun hm => Nat.lt_irrefl _ (wf h h hm)
    rw [upd_same, map_upd_of_not_mem _ _ _ _ hself]
  · rw [upd_other _ _ _ _ hk] at hl'
    have hfc : f ∉ conds h := by
      intro hm
      have h1 : (bump s f e).seen h f = (bump s f e).version f := hseen f hm
      have h2 : (bump s f e).seen h f = s.seen h f := by
        show upd s.seen f (fun g => s.version g) h f = s.seen h f
        rw [upd_other _ _ _ _ hk]
      have h3 : (bump s f e).version f = s.version f + 1 := upd_same _ _ _
      have h4 := hle h f
      omega
    have hold : ∀ g ∈ conds h, s.seen h g = s.version g := by
      intro g hg
      have hgf : g ≠ f := fun e' => hfc (e' ▸ hg)
      have h1 : (bump s f e).seen h g = (bump s f e).version g := hseen g hg
      have h2 : (bump s f e).seen h g = s.seen h g := by
        show upd s.seen f (fun g => s.version g) h g = s.seen h g
        rw [upd_other _ _ _ _ hk]
      have h3 : (bump s f e).version g = s.version g := upd_other _ _ _ _ hgf
      rw [← h2, ← h3]; exact h1
    rw [upd_other _ _ _ _ hk, map_upd_of_not_mem _ _ _ _ hfc]
    exact hres h e' hl' hold

theorem resInv_bump (conds : Nat → List Nat) (wf : WF conds)
    (fitRes : Nat → Nat → Nat → List R → R) (init0 : Nat → R) (s : Mut) (f e : Nat)
    (h : ResInv conds fitRes init0 s) : ResInv conds fitRes init0 (bump s f e) :=
  ⟨evInv_bump s f e h.1, seenLe_bump s f e h.2.1, resOK_bump conds wf fitRes init0 s f e h.1 h.2.1 h.2.2⟩

theorem resInv_of_eq (conds : Nat → List Nat) (fitRes : Nat → Nat → Nat → List R → R)
    (init0 : Nat → R) {s t : Mut} (hv : t.version = s.version) (hs : t.seen = s.seen)
    (hl : t.log = s.log) (hd : t.lastData = s.lastData) (hp : t.p0At = s.p0At)
    (he : t.evlog = s.evlog) (h : ResInv conds fitRes init0 s) : ResInv conds fitRes init0 t := by
  obtain ⟨a, b, c⟩ := h
  refine ⟨evInv_of_eq hv hl hd hp he a, ?_, ?_⟩
  · unfold SeenLe; rw [hv, hs]; exact b
  · unfold ResOK; rw [hv, hs, hd, he]; exact c

theorem fitCall_resInv (N : Nat) (conds : Nat → List Nat) (wf : WF conds)
    (fitRes : Nat → Nat → Nat → List R → R) (init0 : Nat → R) (f e : Nat) (s : Mut)
    (h : ResInv conds fitRes init0 s) : ResInv conds fitRes init0 (fitCall N conds f e s) := by
  rw [fitCall_eq]
  have h1 : ResInv conds fitRes init0 (store s f e) :=
    resInv_of_eq conds fitRes init0 (s := s) rfl rfl rfl rfl rfl rfl h
  have key := doFit_preserves N conds (ResInv conds fitRes init0)
    (fun s f e _ _ h => resInv_bump conds wf fitRes init0 s f e h)
    (fun s _ _ h => resInv_of_eq conds fitRes init0 (s := s) rfl rfl rfl rfl rfl rfl h)
    (fun s _ _ h => resInv_of_eq conds fitRes init0 (s := s) rfl rfl rfl rfl rfl rfl h)
  split
  · rename_i hm
    exact key.1 N f e _ (upd_same _ _ _) hm h1
  · exact h1

theorem runHistory_resInv (N : Nat) (conds : Nat → List Nat) (wf : WF conds)
    (fitRes : Nat → Nat → Nat → List R → R) (init0 : Nat → R) (ops : List (Nat × Nat)) :
    ResInv conds fitRes init0 (runHistory N conds ops) :=
  runHistory_induct N conds (ResInv conds fitRes init0)
    ⟨init_evInv conds, fun _ _ => Nat.le_refl _, fun h e hl => by simp [init] at hl⟩ ops
    (fun _ => True) (fun _ _ => trivial)
    (fun s p _ hs => fitCall_resInv N conds wf fitRes init0 p.1 p.2 s hs)

/-- **after ANY history** (no completeness assumption): every fitted function has exactly the
parameters obtained by fitting it to its stored pairs (= the pairs of the latest public call on
it), from the initial values, given the parameters its conditioners have NOW. -/
theorem results_consistent_after_any_history (N : Nat) (conds : Nat → List Nat) (wf : WF conds)
    (fitRes : Nat → Nat → Nat → List R → R) (init0 : Nat → R)
    (ops : List (Nat × Nat)) (hops : ∀ p ∈ ops, p.1 < N) :
    let s := runHistory N conds ops
    ∀ h, h < N → 0 < s.version h → ∃ e, latestCall ops h = some e ∧
      results conds fitRes init0 s.evlog h =
        fitRes h e 0 ((conds h).map (results conds fitRes init0 s.evlog)) := by
  intro s h hh hv
  obtain ⟨e, h1, _, h3⟩ := last_fit_data_is_stored N conds ops hops h hv
  refine ⟨e, h3, ?_⟩
  exact (runHistory_resInv N conds wf fitRes init0 ops).2.2 h e h1
    (fun g hg => no_stale_after_any_history N conds wf ops hops h g hh hv hg)

/-- **the result of a complete round is the dependency-order fit.**  Well-formed declaration; any
earlier history `pre`; then a round in which every function receives a public `fit` call with pairs
of epoch `r`, in ANY order (also repeated calls).  Then every function ends up with exactly the
parameters of the dependency-order fit of the epoch-`r` pairs (`canon`), whatever `fitRes` is. -/
theorem results_after_complete_round (N : Nat) (conds : Nat → List Nat) (wf : WF conds)
    (fitRes : Nat → Nat → Nat → List R → R) (init0 : Nat → R)
    (pre rnd : List (Nat × Nat)) (r : Nat) (hpre : ∀ p ∈ pre, p.1 < N)
    (hrnd : ∀ p ∈ rnd, p.1 < N ∧ p.2 = r) (hall : ∀ f, f < N → (f, r) ∈ rnd) :
    ∀ h, h < N →
      results conds fitRes init0 (runHistory N conds (pre ++ rnd)).evlog h =
        canon conds fitRes init0 r N h := by
  have hcur := round_complete_all_current N conds wf pre rnd r hpre hrnd hall
  have hres := (runHistory_resInv N conds wf fitRes init0 (pre ++ rnd)).2.2
  apply canon_unique conds wf fitRes init0 r N
  intro h hh
  obtain ⟨_, _, hld, _, hc⟩ := hcur h hh
  exact hres h r hld (fun g hg => (hc g hg).2.1)

/-- **order independence.**  Two histories on the same declaration, each ending with a complete
round of the same data (epoch `r`) — in different orders, with different multiplicities, after
different earlier histories (first fit vs. re-fit) — leave every function with the same parameters. -/
theorem fit_order_independent (N : Nat) (conds : Nat → List Nat) (wf : WF conds)
    (fitRes : Nat → Nat → Nat → List R → R) (init0 : Nat → R)
    (pre₁ rnd₁ pre₂ rnd₂ : List (Nat × Nat)) (r : Nat)
    (hpre₁ : ∀ p ∈ pre₁, p.1 < N) (hrnd₁ : ∀ p ∈ rnd₁, p.1 < N ∧ p.2 = r)
    (hall₁ : ∀ f, f < N → (f, r) ∈ rnd₁)
    (hpre₂ : ∀ p ∈ pre₂, p.1 < N) (hrnd₂ : ∀ p ∈ rnd₂, p.1 < N ∧ p.2 = r)
    (hall₂ : ∀ f, f < N → (f, r) ∈ rnd₂) :
    ∀ h, h < N →
      results conds fitRes init0 (runHistory N conds (pre₁ ++ rnd₁)).evlog h =
        results conds fitRes init0 (runHistory N conds (pre₂ ++ rnd₂)).evlog h := by
  intro h hh
  rw [results_after_complete_round N conds wf fitRes init0 pre₁ rnd₁ r hpre₁ hrnd₁ hall₁ h hh,
    results_after_complete_round N conds wf fitRes init0 pre₂ rnd₂ r hpre₂ hrnd₂ hall₂ h hh]

/-- special case: the first fit of a model, with the parameters dict in two different orders -/
theorem first_fit_order_independent (N : Nat) (conds : Nat → List Nat) (wf : WF conds)
    (fitRes : Nat → Nat → Nat → List R → R) (init0 : Nat → R) (o₁ o₂ : List Nat) (r : Nat)
    (h₁ : ∀ f, f ∈ o₁ ↔ f < N) (h₂ : ∀ f, f ∈ o₂ ↔ f < N) :
    ∀ h, h < N →
      results conds fitRes init0 (runHistory N conds (round o₁ r)).evlog h =
        results conds fitRes init0 (runHistory N conds (round o₂ r)).evlog h := by
  have hr : ∀ o : List Nat, (∀ f, f ∈ o ↔ f < N) →
      (∀ p ∈ round o r, p.1 < N ∧ p.2 = r) ∧ (∀ f, f < N → (f, r) ∈ round o r) := by
    intro o ho
    constructor
    · intro p hp
      obtain ⟨f, hf, rfl⟩ := List.mem_map.mp hp
      exact ⟨(ho f).mp hf, rfl⟩
    · intro f hf
      exact List.mem_map.mpr ⟨f, (ho f).mpr hf, rfl⟩
  have := fit_order_independent N conds wf fitRes init0 [] (round o₁ r) [] (round o₂ r) r
    (by simp) (hr o₁ h₁).1 (hr o₁ h₁).2 (by simp) (hr o₂ h₂).1 (hr o₂ h₂).2
  simpa using this
/-- **the dependency-order fit does not depend on the declaration order.**  The same dependence
structure declared in another (admissible) order: `σ` renames the objects, `conds'`/`fitRes'` are
the renamed conditioner lists / fit function.  Then object `σ h` of the second declaration gets
the `canon` parameters of object `h` of the first. -/
theorem canon_relabel (N : Nat) (conds conds' : Nat → List Nat) (wf : WF conds) (wf' : WF conds')
    (fitRes fitRes' : Nat → Nat → Nat → List R → R) (init0 init0' : Nat → R) (r : Nat)
    (σ : Nat → Nat) (hσ : ∀ h, h < N → σ h < N)
    (hconds : ∀ h, h < N → conds' (σ h) = (conds h).map σ)
    (hfit : ∀ h, h < N → fitRes' (σ h) = fitRes h) :
    ∀ h, h < N → canon conds' fitRes' init0' r N (σ h) = canon conds fitRes init0 r N h := by
  apply canon_unique conds wf fitRes init0 r N (fun h => canon conds' fitRes' init0' r N (σ h))
  intro h hh
  show canon conds' fitRes' init0' r N (σ h) = _
  rw [canon_spec conds' wf' fitRes' init0' r N (σ h) (hσ h hh), hconds h hh, hfit h hh,
    List.map_map]
  rfl

/-- **declaration order AND fit order independence**: two declarations of the same dependence
structure (renaming `σ`), each fitted by some history that ends with a complete round of the same
data — corresponding objects end up with the same parameters. -/
theorem fit_declaration_order_independent (N : Nat) (conds conds' : Nat → List Nat)
    (wf : WF conds) (wf' : WF conds') (fitRes fitRes' : Nat → Nat → Nat → List R → R)
    (init0 init0' : Nat → R) (r : Nat) (σ : Nat → Nat) (hσ : ∀ h, h < N → σ h < N)
    (hconds : ∀ h, h < N → conds' (σ h) = (conds h).map σ)
    (hfit : ∀ h, h < N → fitRes' (σ h) = fitRes h)
    (pre rnd pre' rnd' : List (Nat × Nat))
    (hpre : ∀ p ∈ pre, p.1 < N) (hrnd : ∀ p ∈ rnd, p.1 < N ∧ p.2 = r)
    (hall : ∀ f, f < N → (f, r) ∈ rnd)
    (hpre' : ∀ p ∈ pre', p.1 < N) (hrnd' : ∀ p ∈ rnd', p.1 < N ∧ p.2 = r)
    (hall' : ∀ f, f < N → (f, r) ∈ rnd') :
    ∀ h, h < N →
      results conds' fitRes' init0' (runHistory N conds' (pre' ++ rnd')).evlog (σ h) =
        results conds fitRes init0 (runHistory N conds (pre ++ rnd)).evlog h := by
  intro h hh
  rw [results_after_complete_round N conds' wf' fitRes' init0' pre' rnd' r hpre' hrnd' hall'
      (σ h) (hσ h hh),
    results_after_complete_round N conds wf fitRes init0 pre rnd r hpre hrnd hall h hh]
  exact canon_relabel N conds conds' wf wf' fitRes fitRes' init0 init0' r σ hσ hconds hfit h hh

end Results

/-! ### witnesses / non-vacuity -/

/-- the join `{0, 1} → 2` -/
def joinConds : Nat → List Nat | 2 => [0, 1] | _ => []

theorem joinConds_wf : WF joinConds := by
  intro f g hg
  unfold joinConds at hg
  split at hg
  · simp at hg; omega
  · simp at hg

/-- **an intermediate fit may see an unfitted conditioner**: `fit(2); fit(0)` on the join — the
callback of `0` fits `2` (log, newest first: `[2, 0]`) although its conditioner `1` has never
been fitted (`_may_fit` became true after the *first* conditioner; the `issubset` test in
`callback` is the wrong way round).  The wasted fit is repaired when `1` is fitted later
(`final_state_consistent`). -/
theorem intermediate_fit_may_see_unfitted_conditioner :
    (runHistory 3 joinConds (round [2, 0] 0)).log = [2, 0] ∧
    (runHistory 3 joinConds (round [2, 0] 0)).version 1 = 0 ∧ 1 ∈ joinConds 2 ∧
    (runHistory 3 joinConds (round [2, 0, 1] 0)).log = [2, 1, 2, 0] := by decide

/-- the chain `0 → 1` (function 1 is declared after its conditioner 0) -/
def chain2 : Nat → List Nat | 1 => [0] | _ => []

theorem chain2_wf : WF chain2 := by
  intro f g hg
  unfold chain2 at hg
  split at hg
  · simp at hg; omega
  · simp at hg

/-- **the seeded variant (a) re-fits old pairs.**  Chain `0 → 1`; the parameters dict lists the
chained function first, so every round is `fit(1); fit(0)`; two rounds with pairs of epochs 0
and 1.  On the variant `fitCallStale` (pairs stored only when the fit is deferred) the callback of
round 2 re-fits function 1 on the pairs of epoch 0 — the conclusion of
`round_complete_all_current` fails — whereas the model of the real code ends with epoch 1. -/
theorem stale_variant_refits_old_pairs :
    let ops := round [1, 0] 0 ++ round [1, 0] 1
    (runHistoryStale 2 chain2 ops).lastData 1 = some 0 ∧
    (runHistoryStale 2 chain2 ops).xyEpoch 1 = some 0 ∧
    (runHistoryStale 2 chain2 ops).evlog.map (fun ev => (ev.fn, ev.data)) =
      [(1, 0), (0, 1), (1, 1), (1, 0), (0, 0)] ∧
    ¬ (∀ h, h < 2 → (runHistoryStale 2 chain2 ops).lastData h = some 1) ∧
    (runHistory 2 chain2 ops).evlog.map (fun ev => (ev.fn, ev.data)) =
      [(1, 1), (0, 1), (1, 1), (1, 0), (0, 0)] ∧
    (∀ h, h < 2 → (runHistory 2 chain2 ops).lastData h = some 1) := by decide

-- non-vacuity: the diamond 0 → {1, 2} → 3, fitted in the order 3, 1, 2, 0 and then 0 again
def diamond : Nat → List Nat | 1 => [0] | 2 => [0] | 3 => [1, 2] | _ => []
theorem diamond_wf : WF diamond := by
  intro f g hg
  unfold diamond at hg
  split at hg <;> simp at hg <;> omega
example : checkDecls [[], [0], [0], [1, 2]] = true := by decide
example : ((runHistory 4 diamond (round [3, 1, 2, 0] 0)).version 3,
    (runHistory 4 diamond (round [3, 1, 2, 0] 0)).version 0) = (2, 1) := by decide
example : (runHistory 4 diamond (round [3, 1, 2, 0] 0)).log = [3, 2, 3, 1, 0] := by decide
example : (runHistory 4 diamond (round [3, 1, 2, 0, 0] 0)).version 3 = 4 := by decide
example : (runHistory 4 diamond (round [3, 1, 2] 0)).version 3 = 0 := by decide  -- nothing fitted before the root is

-- non-vacuity of `round_complete_all_current`: a first round, a partial round (only 2 re-fitted,
-- epoch 1), then a complete round of epoch 2 in another order
example :
    let pre := round [3, 1, 2, 0] 0 ++ [(2, 1)]
    let rnd := round [3, 0, 2, 1] 2
    (∀ p ∈ pre, p.1 < 4) ∧ (∀ p ∈ rnd, p.1 < 4 ∧ p.2 = 2) ∧ (∀ f, f < 4 → (f, 2) ∈ rnd) ∧
    (∀ p ∈ pre, p.2 ≠ 2) := by decide
example :
    (runHistory 4 diamond (round [3, 1, 2, 0] 0 ++ [(2, 1)] ++ round [3, 0, 2, 1] 2)).evlog.map
      (fun ev => (ev.fn, ev.data, ev.p0, ev.call)) =
    [(3, 2, 0, 9), (1, 2, 0, 9), (3, 2, 0, 8), (2, 2, 0, 8), (3, 2, 0, 7), (2, 1, 0, 7), (3, 2, 0, 7),
     (1, 0, 0, 7), (0, 2, 0, 7), (3, 2, 0, 6), (3, 0, 0, 5), (2, 1, 0, 5), (3, 0, 0, 4), (2, 0, 0, 4), (3, 0, 0, 4),
     (1, 0, 0, 4), (0, 0, 0, 4)] := by decide
-- the partial round leaves function 1 on the old pairs (that is what a partial re-fit means)
example : (runHistory 4 diamond (round [3, 1, 2, 0] 0 ++ [(2, 1)])).lastData 1 = some 0 ∧
    (runHistory 4 diamond (round [3, 1, 2, 0] 0 ++ [(2, 1)])).lastData 2 = some 1 ∧
    (runHistory 4 diamond (round [3, 1, 2, 0] 0 ++ [(2, 1)])).lastData 3 = some 0 := by decide
-- non-vacuity of `results_after_complete_round` / `fit_order_independent`: a toy `fitRes` on `Nat`
-- that depends on every one of its inputs; diamond; first fit in one order vs. re-fit (after a
-- round on other pairs and a partial round) in another order give the dependency-order fit of
-- epoch 5; a partial re-fit does not; `canon` differs from the initial values.
def toyFit (f e p0 : Nat) (args : List Nat) : Nat := 1 + f + 10 * e + 1000 * p0 + 3 * args.sum
example :
    (List.range 4).map (results diamond toyFit (fun _ => 0)
      (runHistory 4 diamond (round [3, 1, 2, 0] 5)).evlog) = [51, 205, 206, 1287] ∧
    (List.range 4).map (results diamond toyFit (fun _ => 0)
      (runHistory 4 diamond (round [0, 2, 1, 3] 0 ++ [(2, 1)] ++ round [2, 3, 0, 1, 0] 5)).evlog)
      = [51, 205, 206, 1287] ∧
    (List.range 4).map (canon diamond toyFit (fun _ => 0) 5 4) = [51, 205, 206, 1287] ∧
    (List.range 4).map (results diamond toyFit (fun _ => 0)
      (runHistory 4 diamond (round [0, 2, 1, 3] 0 ++ [(2, 5)])).evlog) ≠ [51, 205, 206, 1287] := by
  decide
-- non-vacuity of `canon_relabel`: the diamond declared as 0 → {1, 2} → 3 and, with the two middle
-- objects swapped (σ = swap 1 2), the renamed toy fit gives the swapped parameters
def swap12 : Nat → Nat | 1 => 2 | 2 => 1 | n => n
def diamond' : Nat → List Nat | 1 => [0] | 2 => [0] | 3 => [2, 1] | _ => []
example : (∀ h, h < 4 → swap12 h < 4) ∧ (∀ h, h < 4 → diamond' (swap12 h) = (diamond h).map swap12) ∧
    (List.range 4).map (fun h => canon diamond' (fun f => toyFit (swap12 f)) (fun _ => 0) 5 4 (swap12 h))
      = (List.range 4).map (canon diamond toyFit (fun _ => 0) 5 4) := by decide
example : latestCall [(1, 0), (0, 0), (1, 1)] 1 = some 1 ∧ latestCall [(1, 0), (0, 0), (1, 1)] 0 = some 0 ∧
    latestCall [(1, 0), (0, 0), (1, 1)] 2 = none := by decide

/-! ## Part 2 — bounds, optimiser dispatch, linear least squares -/

section Bounds
variable {α : Type} [Preorder α]

/-- the declared bounds admit the parameter vector `p` (`None` = unbounded) -/
def Admissible (bs : List (Option α × Option α)) (p : List α) : Prop :=
  List.Forall₂ (fun b x => (∀ l, b.1 = some l → l ≤ x) ∧ (∀ u, b.2 = some u → x ≤ u)) bs p

/-- `p` lies in the box handed to `curve_fit` -/
def InBox (lo hi p : List α) : Prop := List.Forall₂ (· ≤ ·) lo p ∧ List.Forall₂ (· ≤ ·) p hi

omit [Preorder α] in
theorem convertBounds_length (ninf pinf : α) (bs : List (Option α × Option α)) :
    (convertBounds ninf pinf bs).1.length = bs.length ∧
    (convertBounds ninf pinf bs).2.length = bs.length := by
  simp [convertBounds]

/-- **`convert_bounds_for_curve_fit`**: the box `[lower_bounds, upper_bounds]` admits exactly the
parameter vectors the declared bounds admit (parameter `i` gets *its* pair, lower stays lower),
`ninf`/`pinf` being below/above every parameter value.
Stated over a `Preorder`; the driver runs `convertBounds` at `Float` (not a preorder: NaN), where
the statement applies to the non-NaN values only; the Float output itself is compared bit for bit
with `convert_bounds_for_curve_fit` by the harness (op `cbounds`). -/
theorem convertBounds_spec (ninf pinf : α) (bs : List (Option α × Option α)) (p : List α)
    (hinf : ∀ x ∈ p, ninf ≤ x ∧ x ≤ pinf) :
    Admissible bs p ↔
      InBox (convertBounds ninf pinf bs).1 (convertBounds ninf pinf bs).2 p := by
  induction bs generalizing p with
  | nil =>
    cases p with
    | nil => simp [Admissible, InBox, convertBounds]
    | cons x p => simp [Admissible, InBox, convertBounds]
  | cons b bs ih =>
    cases p with
    | nil => simp [Admissible, InBox, convertBounds]
    | cons x p =>
      have ih' := ih p (fun y hy => hinf y (by simp [hy]))
      have hx := hinf x (by simp)
      unfold Admissible InBox convertBounds at *
      simp only [List.map_cons, List.forall₂_cons] at *
      rw [ih']
      obtain ⟨b1, b2⟩ := b
      cases b1 <;> cases b2 <;> simp [hx.1, hx.2] <;> tauto
end Bounds

example : convertBounds (-100 : Int) 100 [(some 0, none), (none, some 5)] = ([0, -100], [100, 5]) := by
  decide

section Dispatch
variable {α : Type}

/-! The four statements below are DEFINITIONAL: they unfold the model `dispatch` (a two-level
`match`) and carry no content beyond it.  That `dispatch` is what `_fit` / `fit_function` /
`fit_constrained_function` do is the correspondence check (recorders around `curve_fit`/`minimize`). -/

/-- (definitional, inversion of `dispatch`) when constraints are declared and the dispatch produces an
optimiser call, that call is SLSQP started at `p0` with the declared bounds and with exactly the
declared constraints among its arguments (and no weights were declared). -/
theorem constraints_reach_optimiser_def (ninf pinf : α) (spec : DepSpec α) (p0 : List α)
    (w : Option (List α)) (cs : List Nat) (call : OptCall α)
    (hc : spec.constraints = some cs) (h : dispatch ninf pinf spec p0 w = .ok call) :
    call = .slsqp p0 spec.bounds cs ∧ w = none := by
  unfold dispatch at h
  rw [hc] at h
  cases w with
  | some v => simp at h
  | none =>
    simp only [Except.ok.injEq] at h
    exact ⟨h.symm, rfl⟩

/-- (definitional) without constraints: `curve_fit` at `p0`, `sigma = weights(x, y)`, converted bounds -/
theorem unconstrained_uses_curve_fit_def (ninf pinf : α) (spec : DepSpec α) (p0 : List α)
    (w : Option (List α)) (hc : spec.constraints = none) :
    dispatch ninf pinf spec p0 w =
      .ok (.curveFit p0 w (spec.bounds.map (convertBounds ninf pinf))) := by
  unfold dispatch; rw [hc]

/-- (definitional) constraints together with a weights callable are refused (`NotImplementedError`) -/
theorem constrained_weighted_refused_def (ninf pinf : α) (spec : DepSpec α) (p0 : List α)
    (v : List α) (cs : List Nat) (hc : spec.constraints = some cs) :
    dispatch ninf pinf spec p0 (some v) = .error .notImplemented := by
  unfold dispatch; rw [hc]

/-- (definitional) complete case analysis of `dispatch` -/
theorem dispatch_cases_def (ninf pinf : α) (spec : DepSpec α) (p0 : List α) (w : Option (List α))
    (call : OptCall α) :
    dispatch ninf pinf spec p0 w = .ok call ↔
      (spec.constraints = none ∧ call = .curveFit p0 w (spec.bounds.map (convertBounds ninf pinf))) ∨
      (∃ cs, spec.constraints = some cs ∧ w = none ∧ call = .slsqp p0 spec.bounds cs) := by
  unfold dispatch
  cases hc : spec.constraints with
  | none => simp [eq_comm]
  | some cs =>
    cases w with
    | some v => simp
    | none => simp [eq_comm]

/-- COUNTER-MODEL, defect #9 (model of the code before the repair): a declared constraint is not among the
arguments of the optimiser call. -/
theorem constraints_dropped_counterexample :
    ∃ (spec : DepSpec Int) (p0 : List Int) (cs : List Nat), spec.constraints = some cs ∧ cs ≠ [] ∧
      dispatchOld 0 0 spec p0 none = .ok (.slsqp p0 spec.bounds []) :=
  ⟨{ bounds := none, constraints := some [0] }, [1, 1], [0], rfl, by simp, rfl⟩

example : dispatch (0 : Int) 0 { bounds := none, constraints := some [0, 1] } [1, 1] none
    = .ok (.slsqp [1, 1] none [0, 1]) := rfl
end Dispatch

section Lsq
variable {α : Type} [CommRing α] [LinearOrder α] [IsStrictOrderedRing α]

omit [LinearOrder α] [IsStrictOrderedRing α] in
theorem dotN_add (n : Nat) (a x d : Nat → α) :
    dotN n a (fun j => x j + d j) = dotN n a x + dotN n a d := by
  induction n with
  | zero => simp [dotN]
  | succ n ih => simp only [dotN]; rw [ih]; ring

omit [LinearOrder α] [IsStrictOrderedRing α] in
theorem dotN_lin_left (n : Nat) (c : α) (a g d : Nat → α) :
    dotN n (fun j => c * a j + g j) d = c * dotN n a d + dotN n g d := by
  induction n with
  | zero => simp [dotN]
  | succ n ih => simp only [dotN]; rw [ih]; ring

omit [LinearOrder α] [IsStrictOrderedRing α] in
theorem dotN_zero_left (n : Nat) (g d : Nat → α) (hg : ∀ j, j < n → g j = 0) : dotN n g d = 0 := by
  induction n with
  | zero => simp [dotN]
  | succ n ih =>
    simp only [dotN]
    rw [ih (fun j hj => hg j (by omega)), hg n (by omega)]; ring

/-- `Σ w (row · d)²` -/
def quad (n : Nat) : List (Obs α) → (Nat → α) → α
  | [], _ => 0
  | o :: os, d => o.w * (dotN n o.row d * dotN n o.row d) + quad n os d

omit [LinearOrder α] [IsStrictOrderedRing α] in
theorem grad_cons (n : Nat) (o : Obs α) (os : List (Obs α)) (x : Nat → α) :
    grad n (o :: os) x = fun j => (o.w * (dotN n o.row x - o.y)) * o.row j + grad n os x j := by
  funext j; rfl

omit [LinearOrder α] [IsStrictOrderedRing α] in
/-- exact second-order expansion of the weighted squared residual -/
theorem sse_add (n : Nat) (obs : List (Obs α)) (x d : Nat → α) :
    sse n obs (fun j => x j + d j) =
      sse n obs x + 2 * dotN n (grad n obs x) d + quad n obs d := by
  induction obs with
  | nil =>
    have : grad n ([] : List (Obs α)) x = fun _ => 0 := by funext j; rfl
    simp only [sse, quad, this]
    rw [dotN_zero_left n _ d (fun _ _ => rfl)]; ring
  | cons o os ih =>
    rw [grad_cons, dotN_lin_left]
    simp only [sse, quad]
    rw [ih, dotN_add]; ring

theorem quad_nonneg (n : Nat) (obs : List (Obs α)) (d : Nat → α) (hw : ∀ o ∈ obs, 0 ≤ o.w) :
    0 ≤ quad n obs d := by
  induction obs with
  | nil => simp [quad]
  | cons o os ih =>
    simp only [quad]
    have h1 := mul_nonneg (hw o (by simp)) (mul_self_nonneg (dotN n o.row d))
    have h2 := ih (fun p hp => hw p (by simp [hp]))
    linarith

/-- **normal equations minimise** (any ordered commutative ring, any number `n` of parameters,
any number of observations, non-negative weights): if `Aᵀ W (A x − y) = 0` then the weighted
squared residual at `x` is no larger than at any other parameter vector `z`. -/
theorem normal_equations_minimise (n : Nat) (obs : List (Obs α)) (x : Nat → α)
    (hw : ∀ o ∈ obs, 0 ≤ o.w) (hne : ∀ j, j < n → grad n obs x j = 0) (z : Nat → α) :
    sse n obs x ≤ sse n obs z := by
  have hz : z = fun j => x j + (z j - x j) := by funext j; ring
  rw [hz, sse_add, dotN_zero_left n _ _ hne]
  have := quad_nonneg n obs (fun j => z j - x j) hw
  linarith

/-- the executable certificate check is sound -/
theorem isNormalSolution_sound (n : Nat) (obs : List (Obs α)) (x : Nat → α)
    (hw : ∀ o ∈ obs, 0 ≤ o.w) (h : isNormalSolution n obs x = true) (z : Nat → α) :
    sse n obs x ≤ sse n obs z := by
  apply normal_equations_minimise n obs x hw
  intro j hj
  unfold isNormalSolution at h
  rw [List.all_eq_true] at h
  simpa using h j (List.mem_range.mpr hj)

theorem quad_eq_zero (n : Nat) (obs : List (Obs α)) (d : Nat → α) (hw : ∀ o ∈ obs, 0 < o.w)
    (h : quad n obs d = 0) : ∀ o ∈ obs, dotN n o.row d = 0 := by
  induction obs with
  | nil => intro o ho; cases ho
  | cons o os ih =>
    simp only [quad] at h
    have hw' : ∀ p ∈ os, 0 ≤ p.w := fun p hp => le_of_lt (hw p (by simp [hp]))
    have h1 := mul_nonneg (le_of_lt (hw o (by simp))) (mul_self_nonneg (dotN n o.row d))
    have h2 := quad_nonneg n os d hw'
    have h3 : o.w * (dotN n o.row d * dotN n o.row d) = 0 := by linarith
    have h4 : quad n os d = 0 := by linarith
    intro p hp
    rcases List.mem_cons.mp hp with rfl | hp
    · rcases mul_eq_zero.mp h3 with h5 | h5
      · exact absurd h5 (ne_of_gt (hw p (by simp)))
      · exact mul_self_eq_zero.mp h5
    · exact ih (fun q hq => hw q (by simp [hq])) h4 p hp

/-- **uniqueness** for a design of full column rank and positive weights: any parameter vector
with the same (minimal) residual coincides with the solution of the normal equations.
`hrank` (full column rank) is a HYPOTHESIS here; it is discharged for the affine design in
`affine_full_rank` / `affineLsq_unique`; for other linear shapes the harness only uses
`isNormalSolution_sound` (minimality), not uniqueness.  `0 < o.w`: see `sigmaWeight_pos`. -/
theorem normal_equations_unique (n : Nat) (obs : List (Obs α)) (x : Nat → α)
    (hw : ∀ o ∈ obs, 0 < o.w) (hne : ∀ j, j < n → grad n obs x j = 0)
    (hrank : ∀ d : Nat → α, (∀ o ∈ obs, dotN n o.row d = 0) → ∀ j, j < n → d j = 0)
    (z : Nat → α) (hz : sse n obs z ≤ sse n obs x) : ∀ j, j < n → z j = x j := by
  have hzz : z = fun j => x j + (z j - x j) := by funext j; ring
  have hexp := sse_add n obs x (fun j => z j - x j)
  rw [← hzz, dotN_zero_left n _ _ hne] at hexp
  have hq := quad_nonneg n obs (fun j => z j - x j) (fun o ho => le_of_lt (hw o ho))
  have hq0 : quad n obs (fun j => z j - x j) = 0 := by linarith
  intro j hj
  have := hrank _ (quad_eq_zero n obs _ hw hq0) j hj
  linarith
end Lsq

section Affine
variable {α : Type} [Field α] [LinearOrder α] [IsStrictOrderedRing α]

omit [LinearOrder α] [IsStrictOrderedRing α] in
theorem grad_affine (pts : List (WPt α)) (a b : α) :
    grad 2 (affineObs pts) (pair a b) 0 =
      a * wsumBy (fun _ => 1) pts + b * wsumBy (fun p => p.x) pts - wsumBy (fun p => p.y) pts ∧
    grad 2 (affineObs pts) (pair a b) 1 =
      a * wsumBy (fun p => p.x) pts + b * wsumBy (fun p => p.x * p.x) pts
        - wsumBy (fun p => p.x * p.y) pts := by
  induction pts with
  | nil => simp [affineObs, grad, wsumBy]
  | cons p ps ih =>
    obtain ⟨ih0, ih1⟩ := ih
    unfold affineObs at ih0 ih1 ⊢
    simp only [List.map_cons, grad, wsumBy, dotN, pair] at ih0 ih1 ⊢
    rw [ih0, ih1]
    simp
    constructor <;> ring

omit [LinearOrder α] [IsStrictOrderedRing α] in
theorem cramer_normal (sw sx sxx sy sxy : α) (hdet : sw * sxx - sx * sx ≠ 0) :
    (sxx * sy - sx * sxy) / (sw * sxx - sx * sx) * sw
      + (sw * sxy - sx * sy) / (sw * sxx - sx * sx) * sx - sy = 0 ∧
    (sxx * sy - sx * sxy) / (sw * sxx - sx * sx) * sx
      + (sw * sxy - sx * sy) / (sw * sxx - sx * sx) * sxx - sxy = 0 := by
  constructor
  · rw [sub_eq_zero, div_mul_eq_mul_div, div_mul_eq_mul_div, ← add_div, div_eq_iff hdet]; ring
  · rw [sub_eq_zero, div_mul_eq_mul_div, div_mul_eq_mul_div, ← add_div, div_eq_iff hdet]; ring

omit [IsStrictOrderedRing α] in
/-- the closed form solves the normal equations of the affine shape `a + b x` -/
theorem affineLsq_normal (pts : List (WPt α)) (a b : α) (h : affineLsq pts = some (a, b)) :
    ∀ j, j < 2 → grad 2 (affineObs pts) (pair a b) j = 0 := by
  unfold affineLsq at h
  dsimp only at h
  split at h
  · cases h
  · rename_i hdet
    simp only [Option.some.injEq, Prod.mk.injEq] at h
    obtain ⟨ha, hb⟩ := h
    obtain ⟨g0, g1⟩ := grad_affine pts a b
    intro j hj
    have : j = 0 ∨ j = 1 := by omega
    obtain ⟨c0, c1⟩ := cramer_normal _ _ _ (wsumBy (fun p => p.y) pts)
      (wsumBy (fun p => p.x * p.y) pts) hdet
    rcases this with rfl | rfl
    · rw [g0, ← ha, ← hb]; exact c0
    · rw [g1, ← ha, ← hb]; exact c1

/-- **affine shapes**: whenever the closed form exists it minimises the weighted squared residual
of `a + b x` over all `(a', b')` (weights ≥ 0) -/
theorem affineLsq_minimises (pts : List (WPt α)) (a b : α) (h : affineLsq pts = some (a, b))
    (hw : ∀ p ∈ pts, 0 ≤ p.w) (a' b' : α) :
    sse 2 (affineObs pts) (pair a b) ≤ sse 2 (affineObs pts) (pair a' b') := by
  apply normal_equations_minimise 2 _ _ _ (affineLsq_normal pts a b h)
  intro o ho
  unfold affineObs at ho
  rcases List.mem_map.mp ho with ⟨p, hp, rfl⟩
  exact hw p hp
omit [LinearOrder α] [IsStrictOrderedRing α] in
theorem wsumBy_lin (pts : List (WPt α)) (c d : α) (f g : WPt α → α) :
    wsumBy (fun p => c * f p + d * g p) pts = c * wsumBy f pts + d * wsumBy g pts := by
  induction pts with
  | nil => simp [wsumBy]
  | cons p ps ih => simp only [wsumBy]; rw [ih]; ring

omit [LinearOrder α] [IsStrictOrderedRing α] in
theorem wsumBy_eq_zero (pts : List (WPt α)) (f : WPt α → α) (h : ∀ p ∈ pts, f p = 0) :
    wsumBy f pts = 0 := by
  induction pts with
  | nil => rfl
  | cons p ps ih =>
    simp only [wsumBy]
    rw [h p (by simp), ih (fun q hq => h q (by simp [hq]))]; ring

omit [LinearOrder α] [IsStrictOrderedRing α] in
/-- the hypothesis `hrank` of `normal_equations_unique` for the affine design: a non-zero
determinant of the normal matrix (exactly the guard of `affineLsq`) means full column rank -/
theorem affine_full_rank (pts : List (WPt α))
    (hdet : wsumBy (fun _ => 1) pts * wsumBy (fun p => p.x * p.x) pts
      - wsumBy (fun p => p.x) pts * wsumBy (fun p => p.x) pts ≠ 0)
    (d : Nat → α) (h : ∀ o ∈ affineObs pts, dotN 2 o.row d = 0) : ∀ j, j < 2 → d j = 0 := by
  have hp : ∀ p ∈ pts, d 0 + p.x * d 1 = 0 := by
    intro p hp
    have := h _ (List.mem_map.mpr ⟨p, hp, rfl⟩)
    simpa [dotN] using this
  have e1 : d 0 * wsumBy (fun _ => 1) pts + d 1 * wsumBy (fun p => p.x) pts = 0 := by
    rw [← wsumBy_lin]
    apply wsumBy_eq_zero
    intro p hm; have := hp p hm; linear_combination this
  have e2 : d 0 * wsumBy (fun p => p.x) pts + d 1 * wsumBy (fun p => p.x * p.x) pts = 0 := by
    rw [← wsumBy_lin]
    apply wsumBy_eq_zero
    intro p hm; have := hp p hm; linear_combination p.x * this
  have h0 : d 0 = 0 := by
    have : d 0 * (wsumBy (fun _ => 1) pts * wsumBy (fun p => p.x * p.x) pts
        - wsumBy (fun p => p.x) pts * wsumBy (fun p => p.x) pts) = 0 := by
      linear_combination wsumBy (fun p => p.x * p.x) pts * e1 - wsumBy (fun p => p.x) pts * e2
    rcases mul_eq_zero.mp this with h | h
    · exact h
    · exact absurd h hdet
  have h1 : d 1 = 0 := by
    have : d 1 * (wsumBy (fun _ => 1) pts * wsumBy (fun p => p.x * p.x) pts
        - wsumBy (fun p => p.x) pts * wsumBy (fun p => p.x) pts) = 0 := by
      linear_combination wsumBy (fun _ => 1) pts * e2 - wsumBy (fun p => p.x) pts * e1
    rcases mul_eq_zero.mp this with h | h
    · exact h
    · exact absurd h hdet
  intro j hj
  have : j = 0 ∨ j = 1 := by omega
  rcases this with rfl | rfl
  · exact h0
  · exact h1

/-- **affine shapes, uniqueness** (`normal_equations_unique` with its rank hypothesis DISCHARGED):
whenever the closed form exists and the weights are positive, any `(a', b')` whose weighted
squared residual is not larger is the closed form itself. -/
theorem affineLsq_unique (pts : List (WPt α)) (a b : α) (h : affineLsq pts = some (a, b))
    (hw : ∀ p ∈ pts, 0 < p.w) (a' b' : α)
    (hle : sse 2 (affineObs pts) (pair a' b') ≤ sse 2 (affineObs pts) (pair a b)) :
    a' = a ∧ b' = b := by
  have hdet : wsumBy (fun _ => 1) pts * wsumBy (fun p => p.x * p.x) pts
      - wsumBy (fun p => p.x) pts * wsumBy (fun p => p.x) pts ≠ 0 := by
    intro h0
    unfold affineLsq at h
    dsimp only at h
    rw [if_pos h0] at h
    cases h
  have hw' : ∀ o ∈ affineObs pts, 0 < o.w := by
    intro o ho
    rcases List.mem_map.mp ho with ⟨p, hp, rfl⟩
    exact hw p hp
  have := normal_equations_unique 2 (affineObs pts) (pair a b) hw' (affineLsq_normal pts a b h)
    (affine_full_rank pts hdet) (pair a' b') hle
  exact ⟨this 0 (by omega), this 1 (by omega)⟩

/-- the weight `curve_fit(sigma = s)` gives to an observation is positive whenever it exists
(`s ≠ 0`): the hypothesis `0 < o.w` of `normal_equations_unique` holds for what the driver builds
(`takeObs`/`takeWPts`: weight `1` without sigma, `sigmaWeight s` otherwise). -/
theorem sigmaWeight_pos [DecidableEq α] (s w : α) (h : sigmaWeight s = some w) : 0 < w := by
  unfold sigmaWeight at h
  split at h
  · cases h
  · rename_i hs
    have hw : 1 / (s * s) = w := Option.some.inj h
    rw [← hw]
    exact one_div_pos.mpr (mul_self_pos.mpr hs)
end Affine

-- non-vacuity of `affineLsq_unique` / `affine_full_rank`: the design below has determinant 6 ≠ 0
example : wsumBy (fun _ => 1) [⟨1, 0, 0⟩, ⟨1, 1, 1⟩, ⟨1, 2, 1⟩] *
      wsumBy (fun p => p.x * p.x) [⟨1, 0, 0⟩, ⟨1, 1, 1⟩, ⟨(1 : ℚ), 2, 1⟩]
    - wsumBy (fun p => p.x) [⟨1, 0, 0⟩, ⟨1, 1, 1⟩, ⟨1, 2, 1⟩] *
      wsumBy (fun p => p.x) [⟨1, 0, 0⟩, ⟨1, 1, 1⟩, ⟨(1 : ℚ), 2, 1⟩] = 6 := by
  norm_num [wsumBy]
example : sigmaWeight (2 : ℚ) = some (1 / 4) := by norm_num [sigmaWeight]

-- non-vacuity: three points on no common line, unit weights
example : affineLsq [⟨1, 0, 0⟩, ⟨1, 1, 1⟩, ⟨1, 2, 1⟩] = some ((1 : ℚ) / 6, 1 / 2) := by
  norm_num [affineLsq, wsumBy]

end VirVerif.C14
