/-
C03 — Direct-sampling contour edges are (1-alpha)-quantile tangent lines of the sample.

  "For every two-variable sample (supplied or drawn from the model), alpha and angular step
   that divides 360 degrees, every edge of the returned polygon lies on a straight line whose
   offset along its outward normal equals the empirical (1-alpha)-quantile of the sample
   projected on that normal, i.e. a fraction alpha of the sample lies beyond it. Successive
   edge normals advance by exactly the angular step and together cover the full circle once,
   and when no sample is supplied n = int(100/alpha) points are drawn."

Clause → theorem (model: `Model/DirectSampling.lean`, tied to contours.py by the bit-exact
correspondence check in `harness/c03.py`)
  HEADLINE, composed for the pipeline `vertices ∘ tangentLines` the driver op `c03ds` runs: every
  edge (closing one included) lies on the line with normal direction (j+1) mod N whose offset is the
  (1-alpha)-quantile of the projected sample, and a fraction alpha of the SAMPLE POINTS lies beyond it
                                                          edge_on_quantile_line
  pieces:
  every edge (incl. the closing one) lies on one line     vertex_on_both_lines, edge_on_tangent_line,
                                                          vertex_isSome_iff (guard: lines not parallel)
  that line: normal = direction j, offset = quantile      tangentLines_spec
  quantile between two order statistics                   quantile7_between_order_stats
  a fraction alpha of the sample lies beyond it           exceed_count_bounds, exceed_fraction_bounds
  successive normals advance by exactly the step          direction_value, successive_normals_advance_by_step
  ... and cover the full circle once                      closing_pair_advances_by_step (on the direction grid:
                                                          last direction + step = first direction - 2π, given
                                                          N*deg = 360), each_direction_carries_exactly_one_edge
                                                          (j ↦ (j+1) mod N hits every line index once);
                                                          cyclicPairs_spec (generic list fact: pair j = (l[j], l[j+1 mod N])),
                                                          closing_advance_is_step (plain algebra used by the first),
                                                          arange_exact_count + oneTurn_exact_count: over an exact
                                                          field the arange has N+1 entries, the slice N directions
     NUMBER of directions at Float (hypothesis `hn` of direction_value / oneTurn_length: the arange has at
     least N+1 entries after rounding)                    observed per run (model grid = numpy grid, oracle M = N)
  n = int(100/alpha)                                      default_n_unique (the only k with k ≤ 100/alpha < k+1);
                                                          default_n_trivial (conclusion = floor hypothesis; `defaultN`
                                                          is not run by the driver: the harness compares the size of
                                                          the drawn sample with int(100/alpha))
  first direction / coordinates[0]                        not fixed by the property (correspondence only)
  the code before the repair violates the closing clause  oldPairs_spec, closing_pair_is_degenerate (counter-model)

Carrier: any field (linear ordered where order matters).  `cos`/`sin` are uninterpreted
functions (`cosT`, `sinT`), the floor function `fl` is a parameter whose floor property is a
hypothesis at the one index where it is used.  What is observed at runtime only: that the
`Float` run of these same functions equals the code's output bit for bit, and the clauses
themselves on the code's own output (oracle).  "Drawn from the model" is C07's subject.
-/
import VirVerif.Model.DirectSampling
import Mathlib.Tactic.FieldSimp
import Mathlib.Tactic.Ring
import Mathlib.Tactic.Linarith
import Mathlib.Tactic.LinearCombination
import Mathlib.Algebra.Order.Field.Basic
import Mathlib.Data.List.Basic
import Mathlib.Data.List.Sort
import Mathlib.Data.List.Perm.Basic
import Mathlib.Tactic.NormNum
import Mathlib.Tactic.Push
import Mathlib.Algebra.Order.Ring.Rat

namespace VirVerif.C03
open VirVerif
theorem consecPairs_length {β} : ∀ l : List β, (consecPairs l).length = l.length - 1
  | [] => rfl
  | [_] => rfl
  | a :: b :: rest => by
    simp [consecPairs, consecPairs_length (b :: rest)]

theorem consecPairs_get {β} : ∀ (l : List β) (i : Nat) (h : i + 1 < l.length),
    (consecPairs l)[i]? = some (l[i]'(by omega), l[i + 1])
  | [], i, h => by simp at h
  | [_], i, h => by simp at h
  | a :: b :: rest, 0, h => by simp [consecPairs]
  | a :: b :: rest, i + 1, h => by
    have h' : i + 1 < (b :: rest).length := by simpa using h
    simp [consecPairs, consecPairs_get (b :: rest) i h']

theorem cyclicPairs_length {β} (l : List β) : (cyclicPairs l).length = l.length := by
  cases l with
  | nil => rfl
  | cons a rest => simp [cyclicPairs, consecPairs_length]

theorem cyclicPairs_get {β} (l : List β) (j : Nat) (hj : j < l.length) :
    (cyclicPairs l)[j]? = some (l[j], l[(j + 1) % l.length]'(Nat.mod_lt _ (by omega))) := by
  cases l with
  | nil => simp at hj
  | cons a rest =>
    have hlen : j + 1 < ((a :: rest) ++ [a]).length := by simp at hj ⊢; omega
    rw [cyclicPairs, consecPairs_get _ j hlen]
    congr 2
    · rw [List.getElem_append_left]
    · by_cases hlt : j + 1 < (a :: rest).length
      · rw [List.getElem_append_left hlt]
        congr 1
        exact (Nat.mod_eq_of_lt hlt).symm
      · have heq : j + 1 = (a :: rest).length := by omega
        simp only [heq, Nat.mod_self]
        rw [List.getElem_append_right (by omega)]
        simp

/-- a point lies on a tangent line -/
def OnLine {α} [Add α] [Mul α] (l : TLine α) (p : α × α) : Prop := l.c * p.1 + l.s * p.2 = l.r

theorem lineInter_on_both_lines {α} [Field α] [DecidableEq α]
    (c1 s1 r1 c2 s2 r2 x y : α)
    (h : lineInter c1 s1 r1 c2 s2 r2 = some (x, y)) :
    c1 * x + s1 * y = r1 ∧ c2 * x + s2 * y = r2 := by
  unfold lineInter at h
  simp only at h
  split at h
  · cases h
  · rename_i hd
    cases h
    have hd' : s2 * c1 - s1 * c2 ≠ 0 := hd
    constructor
    · rw [← mul_div_assoc, ← mul_div_assoc, ← add_div, div_eq_iff hd']; ring
    · rw [← mul_div_assoc, ← mul_div_assoc, ← add_div, div_eq_iff hd']; ring

theorem lineInter_isSome_iff {α} [Field α] [DecidableEq α] (c1 s1 r1 c2 s2 r2 : α) :
    (lineInter c1 s1 r1 c2 s2 r2).isSome ↔ s2 * c1 - s1 * c2 ≠ 0 := by
  unfold lineInter
  simp only
  split <;> simp_all

/-- two identical lines have no intersection point: the determinant is 0 -/
theorem lineInter_same_none {α} [Field α] [DecidableEq α] (c s r : α) :
    lineInter c s r c s r = none := by
  unfold lineInter
  simp [mul_comm]

/-! ### vertices and edges -/

theorem vertices_length {α} [Field α] [DecidableEq α] (ls : List (TLine α)) :
    (vertices ls).length = ls.length := by
  simp [vertices, cyclicPairs_length]

/-- vertex `j` is the intersection of line `j` with line `j+1 (mod N)`: it lies on both. -/
theorem vertex_on_both_lines {α} [Field α] [DecidableEq α] (ls : List (TLine α)) (j : Nat)
    (hj : j < ls.length) (v : α × α) (h : (vertices ls)[j]? = some (some v)) :
    OnLine ls[j] v ∧ OnLine (ls[(j + 1) % ls.length]'(Nat.mod_lt _ (by omega))) v := by
  unfold vertices at h
  rw [List.getElem?_map, cyclicPairs_get ls j hj] at h
  simp only [Option.map_some, Option.some.injEq, interLines] at h
  obtain ⟨x, y⟩ := v
  exact lineInter_on_both_lines _ _ _ _ _ _ x y h

/-- **every edge lies on one tangent line**: the cyclic edge from vertex `j` to vertex
`j+1 (mod N)` has both endpoints on line `j+1 (mod N)`. This includes the closing edge
(`j = N-1`: from the last vertex to vertex 0, on line 0). -/
theorem edge_on_tangent_line {α} [Field α] [DecidableEq α] (ls : List (TLine α)) (j : Nat)
    (hj : j < ls.length) (v w : α × α)
    (hv : (vertices ls)[j]? = some (some v))
    (hw : (vertices ls)[(j + 1) % ls.length]? = some (some w)) :
    OnLine (ls[(j + 1) % ls.length]'(Nat.mod_lt _ (by omega))) v ∧
    OnLine (ls[(j + 1) % ls.length]'(Nat.mod_lt _ (by omega))) w :=
  ⟨(vertex_on_both_lines ls j hj v hv).2,
   (vertex_on_both_lines ls ((j + 1) % ls.length) (Nat.mod_lt _ (by omega)) w hw).1⟩

/-- a vertex exists exactly when the two lines are not parallel (the guard of the division). -/
theorem vertex_isSome_iff {α} [Field α] [DecidableEq α] (ls : List (TLine α)) (j : Nat)
    (hj : j < ls.length) :
    (∃ v, (vertices ls)[j]? = some (some v)) ↔
      (ls[(j + 1) % ls.length]'(Nat.mod_lt _ (by omega))).s * ls[j].c -
        ls[j].s * (ls[(j + 1) % ls.length]'(Nat.mod_lt _ (by omega))).c ≠ 0 := by
  unfold vertices
  rw [List.getElem?_map, cyclicPairs_get ls j hj]
  simp only [Option.map_some, Option.some.injEq, interLines]
  rw [← lineInter_isSome_iff, Option.isSome_iff_exists]

/-! ### the pairing of lines: each direction once, the circle closed -/

/-- (generic list fact, the specification of `cyclicPairs`; the index form of "the normals cover
the circle once") the `N` vertices use the line pairs `(j, j+1 mod N)`, `j = 0 … N-1`, position `j`
of the list holding pair `j`. -/
theorem cyclicPairs_spec {β} (l : List β) :
    (cyclicPairs l).length = l.length ∧
    ∀ j (hj : j < l.length),
      (cyclicPairs l)[j]? = some (l[j], l[(j + 1) % l.length]'(Nat.mod_lt _ (by omega))) :=
  ⟨cyclicPairs_length l, fun j hj => cyclicPairs_get l j hj⟩

/-- **every direction is the normal of exactly one edge**: edge `j` (from vertex `j` to vertex
`j+1 mod N`) lies on line `(j+1) mod N` (`edge_on_tangent_line`); `j ↦ (j+1) mod N` hits every
line index `i < N` exactly once, so the `N` edges use the `N` directions once each. -/
theorem each_direction_carries_exactly_one_edge (N i : Nat) (hi : i < N) :
    ∃! j, j < N ∧ (j + 1) % N = i := by
  rcases Nat.eq_zero_or_pos i with h0 | hpos
  · subst h0
    refine ⟨N - 1, ⟨by omega, by rw [show N - 1 + 1 = N by omega]; exact Nat.mod_self N⟩, ?_⟩
    rintro j ⟨hj, hm⟩
    by_contra hne
    rw [Nat.mod_eq_of_lt (by omega)] at hm
    omega
  · refine ⟨i - 1, ⟨by omega, by rw [show i - 1 + 1 = i by omega]; exact Nat.mod_eq_of_lt hi⟩, ?_⟩
    rintro j ⟨hj, hm⟩
    rcases Nat.lt_or_ge (j + 1) N with hlt | hge
    · rw [Nat.mod_eq_of_lt hlt] at hm; omega
    · rw [show j + 1 = N by omega, Nat.mod_self] at hm; omega

/-- the pairing of the code before the repair: one pair fewer than lines, pair `j` is
`(j+1, j+2 mod N)`; in particular line 0 is never paired with line 1. -/
theorem oldPairs_spec {β} (l : List β) :
    (oldPairs l).length = l.length - 1 ∧
    ∀ j (hj : j + 1 < l.length),
      (oldPairs l)[j]? = some (l[j + 1], l[(j + 2) % l.length]'(Nat.mod_lt _ (by omega))) := by
  cases l with
  | nil => simp [oldPairs]
  | cons a rest =>
    refine ⟨by simp [oldPairs, consecPairs_length], fun j hj => ?_⟩
    have hj' : j < rest.length := by simpa using hj
    have hlen : j + 1 < (rest ++ [a]).length := by simp; omega
    rw [oldPairs, consecPairs_get _ j hlen]
    congr 2
    · rw [List.getElem_append_left hj']; simp
    · by_cases hlt : j + 1 < rest.length
      · rw [List.getElem_append_left hlt]
        have hm : (j + 2) % (a :: rest).length = j + 2 := Nat.mod_eq_of_lt (by simp; omega)
        rw [getElem_congr_idx hm]
        simp
      · have heq : j + 1 = rest.length := by omega
        have hm : (j + 2) % (a :: rest).length = 0 := by
          rw [show j + 2 = (a :: rest).length by simp; omega]; exact Nat.mod_self _
        rw [List.getElem_append_right (by omega), getElem_congr_idx hm]
        simp [heq]

/-- **the defect of the code before the repair** (DESIGN section 4 #10): its last vertex pairs
the last line with line 0; when these are the same line (directions `theta` and
`theta - 2 pi`: same cosine, sine and quantile) the determinant is 0 and there is no vertex. -/
theorem closing_pair_is_degenerate {α} [Field α] [DecidableEq α] (ls : List (TLine α))
    (h2 : 2 ≤ ls.length) (hsame : ls[ls.length - 1] = ls[0]) :
    (verticesOld ls)[ls.length - 2]? = some none := by
  have hspec := (oldPairs_spec ls).2 (ls.length - 2) (by omega)
  unfold verticesOld
  rw [List.getElem?_map, hspec]
  have h1 : ls.length - 2 + 1 = ls.length - 1 := by omega
  have h0 : (ls.length - 2 + 2) % ls.length = 0 := by
    rw [show ls.length - 2 + 2 = ls.length by omega]; exact Nat.mod_self _
  simp only [Option.map_some, interLines, h1, h0, hsame]
  rw [lineInter_same_none]

/-! ### the tangent lines are the quantile lines of the projected sample -/

/-- line `j` has the cosine / sine of direction `j` as normal and the `q`-quantile of the
sample projected on that normal as offset. -/
theorem tangentLines_spec {α} [Field α] [LinearOrder α]
    (fl : α → Nat) (ofN : Nat → α) (half : α) (cosT sinT : α → α) (pts : List (α × α)) (q : α) :
    ∀ (angles : List α) (ls : List (TLine α)),
      tangentLines fl ofN half cosT sinT pts q angles = some ls →
      ls.length = angles.length ∧
      ∀ j (hj : j < angles.length), ∃ l, ls[j]? = some l ∧
        l.c = cosT angles[j] ∧ l.s = sinT angles[j] ∧
        quantile7 fl ofN half (proj (cosT angles[j]) (sinT angles[j]) pts) q = some l.r
  | [], ls, h => by
    simp only [tangentLines, Option.some.injEq] at h
    subst h
    exact ⟨rfl, fun j hj => absurd hj (by simp)⟩
  | th :: rest, ls, h => by
    simp only [tangentLines] at h
    split at h
    · rename_i r ls' hq hrest
      simp only [Option.some.injEq] at h
      subst h
      obtain ⟨hlen, hall⟩ := tangentLines_spec fl ofN half cosT sinT pts q rest ls' hrest
      refine ⟨by simp [hlen], fun j hj => ?_⟩
      cases j with
      | zero => exact ⟨{ c := cosT th, s := sinT th, r := r }, by simp, rfl, rfl, by simpa using hq⟩
      | succ j =>
        obtain ⟨l, h1, h2⟩ := hall j (by simpa using hj)
        exact ⟨l, by simpa using h1, by simpa using h2⟩
    · cases h

/-! ### the direction grid -/

theorem arangeVals_get {α} [Field α] (start step : α) (n i : Nat) (hi : i < n) :
    (arangeVals (fun k : Nat => (k : α)) start step n)[i]? = some (start + i * step) := by
  unfold arangeVals
  simp only [List.getElem?_map, List.getElem?_range hi, Option.map_some, Option.some.injEq]
  split
  · rename_i h; subst h; simp
  · split
    · rename_i h; subst h; simp
    · ring

theorem oneTurn_get {β} (nDir : Nat) (l : List β) (j : Nat) (hj : j < nDir) :
    (oneTurn nDir l)[j]? = l[j + 1]? := by
  unfold oneTurn
  rw [List.getElem?_take_of_lt hj, List.getElem?_drop, Nat.add_comm]

theorem oneTurn_length {β} (nDir : Nat) (l : List β) (h : nDir + 1 ≤ l.length) :
    (oneTurn nDir l).length = nDir := by
  unfold oneTurn
  simp; omega

/-- direction `j` of the grid is `start + (j+1)*step` (`start = pi/2 + 2*rad_step`,
`step = -rad_step` in the code). -/
theorem direction_value {α} [Field α] (start step : α) (n nDir j : Nat) (hn : nDir + 1 ≤ n)
    (hj : j < nDir) :
    (oneTurn nDir (arangeVals (fun k : Nat => (k : α)) start step n))[j]? =
      some (start + ((j + 1 : Nat) : α) * step) := by
  rw [oneTurn_get nDir _ j hj, arangeVals_get start step n (j + 1) (by omega)]

/-- **successive edge normals advance by exactly the angular step.** -/
theorem successive_normals_advance_by_step {α} [Field α] (start step : α) (n nDir j : Nat)
    (hn : nDir + 1 ≤ n) (hj : j + 1 < nDir) :
    ∃ a b, (oneTurn nDir (arangeVals (fun k : Nat => (k : α)) start step n))[j]? = some a ∧
      (oneTurn nDir (arangeVals (fun k : Nat => (k : α)) start step n))[j + 1]? = some b ∧
      b - a = step := by
  refine ⟨_, _, direction_value start step n nDir j hn (by omega),
    direction_value start step n nDir (j + 1) hn hj, ?_⟩
  push_cast
  ring

/-- (plain algebra on the closed forms `start + (k+1)·step`; the statement on the direction grid
is `closing_pair_advances_by_step`) when `nDir * deg_step = 360`, one more step
after the last direction is the first direction minus `2 pi`, i.e. the closing pair
(last, first) also advances by exactly the angular step. -/
theorem closing_advance_is_step {α} [Field α] [CharZero α] (pi deg start : α) (nDir : Nat)
    (hdiv : (nDir : α) * deg = 360) :
    let radStep := deg * pi / 180
    let step := -1 * radStep
    (start + ((nDir - 1 + 1 : Nat) : α) * step) + step = (start + ((0 + 1 : Nat) : α) * step) - 2 * pi := by
  intro radStep step
  rcases Nat.eq_zero_or_pos nDir with h0 | hpos
  · subst h0
    simp at hdiv
  · have : nDir - 1 + 1 = nDir := by omega
    rw [this]
    simp only [radStep, step]
    push_cast
    have h180 : (180 : α) ≠ 0 := by norm_num
    field_simp
    linear_combination (-pi) * hdiv

/-- **the closing pair (last direction, first direction) also advances by exactly the step, on the
grid itself**: on `dirs = oneTurn N (arangeVals … start step n)` (the list the driver computes as
`dsAnglesF`, read over a field) with `step = -deg·π/180` and `N·deg = 360`, the last direction plus
one step is the first direction minus `2π`. With `successive_normals_advance_by_step` (all inner
pairs): the `N` normals advance by the step all the way round and return to the start after exactly
one full turn. -/
theorem closing_pair_advances_by_step {α} [Field α] [CharZero α] (pi deg start : α) (n nDir : Nat)
    (hn : nDir + 1 ≤ n) (hpos : 0 < nDir) (hdiv : (nDir : α) * deg = 360) :
    ∃ a b,
      (oneTurn nDir (arangeVals (fun k : Nat => (k : α)) start (-1 * (deg * pi / 180)) n))[0]? = some a ∧
      (oneTurn nDir (arangeVals (fun k : Nat => (k : α)) start (-1 * (deg * pi / 180)) n))[nDir - 1]?
        = some b ∧
      b + -1 * (deg * pi / 180) = a - 2 * pi :=
  ⟨_, _, direction_value start _ n nDir 0 hn hpos,
    direction_value start _ n nDir (nDir - 1) hn (by omega),
    closing_advance_is_step pi deg start nDir hdiv⟩

/-! ### the quantile: between two order statistics, a fraction alpha beyond -/

section quantile
variable {α : Type} [Field α] [LinearOrder α] [IsStrictOrderedRing α]

/-- ascending sort used by `quantile7` -/
def sorted (z : List α) : List α := z.mergeSort (fun a b => decide (a ≤ b))

omit [Field α] [IsStrictOrderedRing α] in
theorem sorted_perm (z : List α) : (sorted z).Perm z := List.mergeSort_perm _ _

omit [Field α] [IsStrictOrderedRing α] in
theorem sorted_pairwise (z : List α) : (sorted z).Pairwise (· ≤ ·) := by
  have := List.pairwise_mergeSort (le := fun (a b : α) => decide (a ≤ b))
    (fun a b c hab hbc => by simp at *; exact le_trans hab hbc)
    (fun a b => by simp; exact le_total a b) z
  exact this.imp (by simp)

omit [Field α] [IsStrictOrderedRing α] in
theorem sorted_length (z : List α) : (sorted z).length = z.length := (sorted_perm z).length_eq

omit [IsStrictOrderedRing α] in
/-- both forms of numpy's lerp are `a + (b-a)*g` in a field -/
theorem lerp7_eq (half a b g : α) : lerp7 half a b g = a + (b - a) * g := by
  unfold lerp7
  simp only
  split <;> ring

theorem lerp7_between (half a b g : α) (hab : a ≤ b) (hg0 : 0 ≤ g) (hg1 : g ≤ 1) :
    a ≤ lerp7 half a b g ∧ lerp7 half a b g ≤ b := by
  rw [lerp7_eq]
  have hd : 0 ≤ b - a := sub_nonneg.mpr hab
  constructor
  · nlinarith [mul_nonneg hd hg0]
  · nlinarith [mul_nonneg hd (sub_nonneg.mpr hg1)]

omit [IsStrictOrderedRing α] in
/-- unfolding of `quantile7`: it is `some r` exactly through one of the two branches. -/
theorem quantile7_cases (fl : α → Nat) (ofN : Nat → α) (half : α) (z : List α) (q r : α)
    (h : quantile7 fl ofN half z q = some r) :
    let k := fl (ofN (z.length - 1) * q)
    ∃ a, (sorted z)[k]? = some a ∧
      ((∃ b, (sorted z)[k + 1]? = some b ∧
          r = lerp7 half a b (ofN (z.length - 1) * q - ofN k)) ∨
       ((sorted z)[k + 1]? = none ∧ r = a)) := by
  intro k
  unfold quantile7 at h
  simp only at h
  rw [show (z.mergeSort fun a b => decide (a ≤ b)) = sorted z from rfl, sorted_length] at h
  split at h
  · rename_i a b ha hb
    simp only [Option.some.injEq] at h
    exact ⟨a, ha, Or.inl ⟨b, hb, h.symm⟩⟩
  · rename_i a ha hb
    simp only [Option.some.injEq] at h
    exact ⟨a, ha, Or.inr ⟨hb, h.symm⟩⟩
  · cases h

omit [Field α] [IsStrictOrderedRing α] in
theorem pairwise_get_le (s : List α) (hs : s.Pairwise (· ≤ ·)) (i j : Nat) (hij : i ≤ j)
    (a b : α) (ha : s[i]? = some a) (hb : s[j]? = some b) : a ≤ b := by
  obtain ⟨hi, rfl⟩ := List.getElem?_eq_some_iff.mp ha
  obtain ⟨hj, rfl⟩ := List.getElem?_eq_some_iff.mp hb
  rcases Nat.lt_or_eq_of_le hij with hlt | heq
  · exact (List.pairwise_iff_getElem.mp hs) i j hi hj hlt
  · subst heq; exact le_refl _

omit [Field α] [IsStrictOrderedRing α] in
/-- in an ascending list, at most `n-1-k` entries are strictly above anything `≥ s[k]`. -/
theorem count_gt_le (s : List α) (hs : s.Pairwise (· ≤ ·)) (k : Nat) (a r : α)
    (ha : s[k]? = some a) (har : a ≤ r) :
    s.countP (fun x => decide (r < x)) ≤ s.length - 1 - k := by
  obtain ⟨hk, _⟩ := List.getElem?_eq_some_iff.mp ha
  rw [← List.take_append_drop (k + 1) s, List.countP_append]
  have h0 : (s.take (k + 1)).countP (fun x => decide (r < x)) = 0 := by
    rw [List.countP_eq_zero]
    intro x hx
    obtain ⟨i, hi, rfl⟩ := List.mem_take_iff_getElem.mp hx
    have : s[i] ≤ a := pairwise_get_le s hs i k (by omega) _ _
      (List.getElem?_eq_getElem (by omega)) ha
    simpa using le_trans this har
  have h1 := List.countP_le_length (p := fun x => decide (r < x)) (l := s.drop (k + 1))
  rw [h0]
  simp only [List.length_drop, List.take_append_drop] at h1 ⊢
  omega

omit [Field α] [IsStrictOrderedRing α] in
/-- in an ascending list, at least `n-1-k` entries are at or above anything `≤ s[k+1]`. -/
theorem count_ge_ge (s : List α) (hs : s.Pairwise (· ≤ ·)) (k : Nat) (b r : α)
    (hb : s[k + 1]? = some b) (hrb : r ≤ b) :
    s.length - 1 - k ≤ s.countP (fun x => decide (r ≤ x)) := by
  obtain ⟨hk, _⟩ := List.getElem?_eq_some_iff.mp hb
  conv_rhs => rw [← List.take_append_drop (k + 1) s, List.countP_append]
  have h1 : (s.drop (k + 1)).countP (fun x => decide (r ≤ x)) = (s.drop (k + 1)).length := by
    rw [List.countP_eq_length]
    intro x hx
    obtain ⟨i, hi, rfl⟩ := List.mem_drop_iff_getElem.mp hx
    have : b ≤ s[k + 1 + i] := pairwise_get_le s hs (k + 1) (k + 1 + i) (by omega) _ _ hb
      (List.getElem?_eq_getElem (by omega))
    simpa using le_trans hrb this
  rw [h1]
  simp only [List.length_drop]
  omega

/-- **the quantile lies between the two order statistics** `k = floor((n-1) q)` and `k+1` of
the sample (it is the maximum when `k = n-1`), for every `fl` that is a floor at this index. -/
theorem quantile7_between_order_stats (fl : α → Nat) (half : α) (z : List α) (q r : α)
    (hfl : ((fl (((z.length - 1 : Nat) : α) * q) : Nat) : α) ≤ ((z.length - 1 : Nat) : α) * q ∧
      ((z.length - 1 : Nat) : α) * q < (fl (((z.length - 1 : Nat) : α) * q) : Nat) + 1)
    (h : quantile7 fl (fun k : Nat => (k : α)) half z q = some r) :
    ∃ a, (sorted z)[fl (((z.length - 1 : Nat) : α) * q)]? = some a ∧ a ≤ r ∧
      ∀ b, (sorted z)[fl (((z.length - 1 : Nat) : α) * q) + 1]? = some b → r ≤ b := by
  obtain ⟨a, ha, hcase⟩ := quantile7_cases fl _ half z q r h
  refine ⟨a, ha, ?_⟩
  rcases hcase with ⟨b, hb, rfl⟩ | ⟨hnone, rfl⟩
  · have hab : a ≤ b := pairwise_get_le _ (sorted_pairwise z) _ _ (Nat.le_succ _) a b ha hb
    have hbt := lerp7_between half a b _ hab (sub_nonneg.mpr hfl.1) (by linarith [hfl.2])
    refine ⟨hbt.1, fun b' hb' => ?_⟩
    rw [hb] at hb'
    cases hb'
    exact hbt.2
  · exact ⟨le_refl _, fun b hb => by rw [hnone] at hb; cases hb⟩

/-- **exceedance counts**: of the `n` projected sample values at most `n-1-k` are strictly
beyond the tangent line and at least `n-1-k` are on or beyond it, `k = floor((n-1) q)`. -/
theorem exceed_count_bounds (fl : α → Nat) (half : α) (z : List α) (q r : α)
    (hfl : ((fl (((z.length - 1 : Nat) : α) * q) : Nat) : α) ≤ ((z.length - 1 : Nat) : α) * q ∧
      ((z.length - 1 : Nat) : α) * q < (fl (((z.length - 1 : Nat) : α) * q) : Nat) + 1)
    (h : quantile7 fl (fun k : Nat => (k : α)) half z q = some r) :
    z.countP (fun x => decide (r < x)) ≤ z.length - 1 - fl (((z.length - 1 : Nat) : α) * q) ∧
    z.length - 1 - fl (((z.length - 1 : Nat) : α) * q) ≤ z.countP (fun x => decide (r ≤ x)) := by
  obtain ⟨a, ha, har, hrb⟩ := quantile7_between_order_stats fl half z q r hfl h
  have hp := sorted_perm z
  rw [← hp.countP_eq, ← hp.countP_eq]
  constructor
  · have := count_gt_le _ (sorted_pairwise z) _ a r ha har
    rwa [sorted_length] at this
  · cases hb : (sorted z)[fl (((z.length - 1 : Nat) : α) * q) + 1]? with
    | some b =>
      have := count_ge_ge _ (sorted_pairwise z) _ b r hb (hrb b hb)
      rwa [sorted_length] at this
    | none =>
      have := List.getElem?_eq_none_iff.mp hb
      rw [sorted_length] at this
      omega

/-- **a fraction alpha of the sample lies beyond the line** (`q = 1 - alpha`): strictly beyond
fewer than `(n-1) alpha + 1`, on or beyond at least `(n-1) alpha` of the `n` points; divided by
`n` this is `alpha` up to `1/n`. -/
theorem exceed_fraction_bounds (fl : α → Nat) (half : α) (z : List α) (alpha r : α)
    (hfl : ((fl (((z.length - 1 : Nat) : α) * (1 - alpha)) : Nat) : α) ≤
        ((z.length - 1 : Nat) : α) * (1 - alpha) ∧
      ((z.length - 1 : Nat) : α) * (1 - alpha) <
        (fl (((z.length - 1 : Nat) : α) * (1 - alpha)) : Nat) + 1)
    (h : quantile7 fl (fun k : Nat => (k : α)) half z (1 - alpha) = some r) :
    ((z.countP (fun x => decide (r < x)) : Nat) : α) < ((z.length - 1 : Nat) : α) * alpha + 1 ∧
    ((z.length - 1 : Nat) : α) * alpha ≤ ((z.countP (fun x => decide (r ≤ x)) : Nat) : α) := by
  obtain ⟨h1, h2⟩ := exceed_count_bounds fl half z (1 - alpha) r hfl h
  obtain ⟨a, ha, _⟩ := quantile7_cases fl _ half z (1 - alpha) r h
  have hk : fl (((z.length - 1 : Nat) : α) * (1 - alpha)) ≤ z.length - 1 := by
    have := (List.getElem?_eq_some_iff.mp ha).1
    rw [sorted_length] at this
    omega
  set k := fl (((z.length - 1 : Nat) : α) * (1 - alpha)) with hkdef
  have hc : ((z.length - 1 - k : Nat) : α) = ((z.length - 1 : Nat) : α) - (k : α) := by
    rw [Nat.cast_sub hk]
  have h1' : ((z.countP (fun x => decide (r < x)) : Nat) : α) ≤ ((z.length - 1 - k : Nat) : α) :=
    Nat.cast_le.mpr h1
  have h2' : ((z.length - 1 - k : Nat) : α) ≤ ((z.countP (fun x => decide (r ≤ x)) : Nat) : α) :=
    Nat.cast_le.mpr h2
  rw [hc] at h1' h2'
  constructor
  · linarith [hfl.2]
  · linarith [hfl.1]

/-- **the headline clause, for the pipeline the driver runs** (`vertices ∘ tangentLines`, op `c03ds`):
let `ls` be the tangent lines of the sample `pts` for the directions `angles` at level `1 - alpha`.
Then the edge from vertex `j` to vertex `j+1 (mod N)` of `vertices ls` — for every `j < N`, the
closing edge included — lies on the straight line with normal `(cos θ, sin θ)`,
`θ = angles[(j+1) mod N]`, whose offset `r` along that normal is the `(1-alpha)`-quantile of the
sample projected on the normal, and a fraction `alpha` of the sample lies beyond it: fewer than
`(n-1)·alpha + 1` of the `n` sample points are strictly beyond, at least `(n-1)·alpha` on or beyond.
(`hfl`: `fl` is a floor at the one index used, `(n-1)(1-alpha)`; the vertices exist iff the
lines are not parallel, `vertex_isSome_iff`.) -/
theorem edge_on_quantile_line (fl : α → Nat) (half : α) (cosT sinT : α → α) (pts : List (α × α))
    (alpha : α)
    (hfl : ((fl (((pts.length - 1 : Nat) : α) * (1 - alpha)) : Nat) : α) ≤
        ((pts.length - 1 : Nat) : α) * (1 - alpha) ∧
      ((pts.length - 1 : Nat) : α) * (1 - alpha) <
        (fl (((pts.length - 1 : Nat) : α) * (1 - alpha)) : Nat) + 1)
    (angles : List α) (ls : List (TLine α))
    (hls : tangentLines fl (fun k : Nat => (k : α)) half cosT sinT pts (1 - alpha) angles = some ls)
    (j : Nat) (hj : j < angles.length) (v w : α × α)
    (hv : (vertices ls)[j]? = some (some v))
    (hw : (vertices ls)[(j + 1) % angles.length]? = some (some w)) :
    ∃ r, quantile7 fl (fun k : Nat => (k : α)) half
          (proj (cosT (angles[(j + 1) % angles.length]'(Nat.mod_lt _ (by omega))))
            (sinT (angles[(j + 1) % angles.length]'(Nat.mod_lt _ (by omega)))) pts) (1 - alpha) = some r ∧
      cosT (angles[(j + 1) % angles.length]'(Nat.mod_lt _ (by omega))) * v.1 +
        sinT (angles[(j + 1) % angles.length]'(Nat.mod_lt _ (by omega))) * v.2 = r ∧
      cosT (angles[(j + 1) % angles.length]'(Nat.mod_lt _ (by omega))) * w.1 +
        sinT (angles[(j + 1) % angles.length]'(Nat.mod_lt _ (by omega))) * w.2 = r ∧
      ((pts.countP (fun p => decide (r <
          p.1 * cosT (angles[(j + 1) % angles.length]'(Nat.mod_lt _ (by omega))) +
          p.2 * sinT (angles[(j + 1) % angles.length]'(Nat.mod_lt _ (by omega))))) : Nat) : α)
        < ((pts.length - 1 : Nat) : α) * alpha + 1 ∧
      ((pts.length - 1 : Nat) : α) * alpha ≤
        ((pts.countP (fun p => decide (r ≤
          p.1 * cosT (angles[(j + 1) % angles.length]'(Nat.mod_lt _ (by omega))) +
          p.2 * sinT (angles[(j + 1) % angles.length]'(Nat.mod_lt _ (by omega))))) : Nat) : α) := by
  obtain ⟨hlen, hall⟩ := tangentLines_spec fl _ half cosT sinT pts (1 - alpha) angles ls hls
  have hj' : (j + 1) % angles.length < angles.length := Nat.mod_lt _ (by omega)
  obtain ⟨l, hl, hc, hs, hq⟩ := hall _ hj'
  have hjl : j < ls.length := by omega
  have hedge := edge_on_tangent_line ls j hjl v w hv (by rw [hlen]; exact hw)
  have e : ls[(j + 1) % ls.length]'(Nat.mod_lt _ (by omega)) = l := by
    have h2 := (List.getElem?_eq_some_iff.mp hl).2
    rw [← h2]; exact getElem_congr_idx (by rw [hlen])
  rw [e] at hedge
  unfold OnLine at hedge
  rw [hc, hs] at hedge
  have hzlen : (proj (cosT angles[(j + 1) % angles.length]) (sinT angles[(j + 1) % angles.length]) pts).length
      = pts.length := by simp [proj]
  have hb := exceed_fraction_bounds fl half _ alpha l.r (by rw [hzlen]; exact hfl) hq
  rw [hzlen] at hb
  refine ⟨l.r, hq, hedge.1, hedge.2, ?_, ?_⟩
  · have := hb.1
    simp only [proj, List.countP_map] at this
    exact this
  · have := hb.2
    simp only [proj, List.countP_map] at this
    exact this

omit [IsStrictOrderedRing α] in
/-- (definitional: the conclusion IS the hypothesis, `defaultN fl 100 alpha = fl (100/alpha)` by
`rfl`; `defaultN` is not executed by the driver — the harness compares the number of points the
real code draws with `int(100/alpha)`. The statement with content is `default_n_unique`.)
`n = int(100 / alpha)`: the default sample size is the floor of `100 / alpha`. -/
theorem default_n_trivial (fl : α → Nat) (alpha : α)
    (hfl : ((fl (100 / alpha) : Nat) : α) ≤ 100 / alpha ∧ 100 / alpha < (fl (100 / alpha) : Nat) + 1) :
    ((defaultN fl 100 alpha : Nat) : α) ≤ 100 / alpha ∧
      100 / alpha < ((defaultN fl 100 alpha : Nat) : α) + 1 := hfl

end quantile

/-! ### gap-closing round: the count of directions in exact arithmetic, uniqueness of the default n -/

/-- **the direction grid has one turn plus one entry in exact arithmetic**: for the `arange` of the code
(`start = pi/2 + 2*rad_step`, `stop = -3*pi/2 + rad_step`, `step = -rad_step`) the quotient
`(stop - start)/step`, whose ceiling is the number of entries, is exactly `N + 1` when `N * deg_step = 360`.
So over the reals hypothesis `hn : nDir + 1 ≤ n` of `direction_value` / `oneTurn_length` holds with equality;
at `Float` the quotient may round up past `N + 1` (one or two extra entries, defect #10), which is why the
code slices `[1 : N+1]` and why the count at `Float` is compared per run. -/
theorem arange_exact_count {α} [Field α] [CharZero α] (pi deg : α) (nDir : Nat) (hpi : pi ≠ 0)
    (hdeg : deg ≠ 0) (hdiv : (nDir : α) * deg = 360) :
    ((-(3 / 2) * pi + deg * pi / 180) - (1 / 2 * pi + 2 * (deg * pi / 180))) / (-1 * (deg * pi / 180))
      = (nDir : α) + 1 := by
  have h180 : (180 : α) ≠ 0 := by norm_num
  have hrs : -1 * (deg * pi / 180) ≠ 0 := by
    simp [hdeg, hpi]
  rw [div_eq_iff hrs]
  linear_combination (pi / 180) * hdiv

/-- with exactly `N + 1` arange entries the slice `[1 : N+1]` has exactly `N` directions -/
theorem oneTurn_exact_count {α} [Field α] (start step : α) (nDir : Nat) :
    (oneTurn nDir (arangeVals (fun k : Nat => (k : α)) start step (nDir + 1))).length = nDir := by
  apply oneTurn_length
  simp [arangeVals]

section
variable {α : Type} [Field α] [LinearOrder α] [IsStrictOrderedRing α]

/-- `n = int(100/alpha)` is THE integer `k` with `k ≤ 100/alpha < k + 1` (given that `fl` is a floor at
this one argument): the default sample size is determined by `alpha` alone. -/
theorem default_n_unique (fl : α → Nat) (alpha : α)
    (hfl : ((fl (100 / alpha) : Nat) : α) ≤ 100 / alpha ∧ 100 / alpha < (fl (100 / alpha) : Nat) + 1)
    (k : Nat) (hk : (k : α) ≤ 100 / alpha ∧ 100 / alpha < (k : α) + 1) :
    defaultN fl 100 alpha = k := by
  unfold defaultN
  rcases Nat.lt_trichotomy (fl (100 / alpha)) k with h | h | h
  · exfalso
    have h1 : ((fl (100 / alpha) : Nat) : α) + 1 ≤ (k : α) := by exact_mod_cast h
    linarith [hfl.2, hk.1]
  · exact h
  · exfalso
    have h1 : (k : α) + 1 ≤ ((fl (100 / alpha) : Nat) : α) := by exact_mod_cast h
    linarith [hfl.1, hk.2]
end

example : defaultN (fun _ : ℚ => 2000) 100 (5 / 100) = 2000 :=
  default_n_unique (fun _ : ℚ => 2000) (5 / 100) (by norm_num) 2000 (by norm_num)

example : ((-(3 / 2) * (3 : ℚ) + 90 * 3 / 180) - (1 / 2 * 3 + 2 * (90 * 3 / 180))) / (-1 * (90 * 3 / 180)) = ((4 : Nat) : ℚ) + 1 :=
  arange_exact_count 3 90 4 (by norm_num) (by norm_num) (by norm_num)


/-! ### non-vacuity: concrete instances of the hypotheses -/

/-- four axis-parallel tangent lines: all four vertices exist, the last one closes the
polygon with line 0. -/
example : vertices [(⟨1, 0, 2⟩ : TLine ℚ), ⟨0, 1, 3⟩, ⟨-1, 0, 1⟩, ⟨0, -1, 1⟩] =
    [some (2, 3), some (-1, 3), some (-1, -1), some (2, -1)] := by
  norm_num [vertices, cyclicPairs, consecPairs, interLines, lineInter]

/-- the old pairing on lines `[L0, L1, L2, L0]` (first direction repeated, as `arange`
produced it): vertex L0∩L1 is missing and the closing vertex does not exist. -/
example : verticesOld [(⟨1, 0, 2⟩ : TLine ℚ), ⟨0, 1, 3⟩, ⟨-1, 0, 1⟩, ⟨1, 0, 2⟩] =
    [some (-1, 3), none, none] := by
  norm_num [verticesOld, oldPairs, consecPairs, interLines, lineInter]

/-- `np.quantile([3, 1], 0.5) = 2` with the `g >= 0.5` form of the lerp; the floor hypothesis
of the quantile theorems holds at this index. -/
example : quantile7 (fun _ : ℚ => 0) (fun k : Nat => (k : ℚ)) (1 / 2) [3, 1] (1 - 1 / 2) = some 2 ∧
    (((fun _ : ℚ => 0) ((([3, 1] : List ℚ).length - 1 : Nat) * (1 - 1 / 2)) : Nat) : ℚ) ≤
      ((([3, 1] : List ℚ).length - 1 : Nat) : ℚ) * (1 - 1 / 2) ∧
    ((([3, 1] : List ℚ).length - 1 : Nat) : ℚ) * (1 - 1 / 2) <
      (((fun _ : ℚ => 0) ((([3, 1] : List ℚ).length - 1 : Nat) * (1 - 1 / 2)) : Nat) : ℚ) + 1 := by
  have hs : [(3 : ℚ), 1].mergeSort (fun a b => decide (a ≤ b)) = [1, 3] := by
    simp [List.mergeSort]
  refine ⟨?_, by norm_num, by norm_num⟩
  unfold quantile7
  simp only [hs]
  norm_num [lerp7]

/-- non-vacuity of `edge_on_quantile_line`: four axis-parallel directions (labels 0..3 with a lookup
cosine/sine), a one-point sample: the tangent lines exist, the closing edge (vertex 3 → vertex 0)
exists, and `fl` is a floor at the index used. -/
example :
    let cosT : ℚ → ℚ := fun t => if t = 0 then 1 else if t = 2 then -1 else 0
    let sinT : ℚ → ℚ := fun t => if t = 1 then 1 else if t = 3 then -1 else 0
    tangentLines (fun _ : ℚ => 0) (fun k : Nat => (k : ℚ)) (1 / 2) cosT sinT [(1, 2)] (1 - 1 / 2) [0, 1, 2, 3]
      = some [⟨1, 0, 1⟩, ⟨0, 1, 2⟩, ⟨-1, 0, -1⟩, ⟨0, -1, -2⟩] ∧
    (vertices [(⟨1, 0, 1⟩ : TLine ℚ), ⟨0, 1, 2⟩, ⟨-1, 0, -1⟩, ⟨0, -1, -2⟩])[3]? = some (some (1, 2)) ∧
    (vertices [(⟨1, 0, 1⟩ : TLine ℚ), ⟨0, 1, 2⟩, ⟨-1, 0, -1⟩, ⟨0, -1, -2⟩])[(3 + 1) % 4]? = some (some (1, 2)) ∧
    ((((fun _ : ℚ => 0) (((([(1, 2)] : List (ℚ × ℚ)).length - 1 : Nat) : ℚ) * (1 - 1 / 2)) : Nat) : ℚ) ≤
      ((([(1, 2)] : List (ℚ × ℚ)).length - 1 : Nat) : ℚ) * (1 - 1 / 2)) := by
  intro cosT sinT
  refine ⟨?_, ?_, ?_, by norm_num⟩
  · norm_num [tangentLines, quantile7, proj, cosT, sinT]
  · norm_num [vertices, cyclicPairs, consecPairs, interLines, lineInter]
  · norm_num [vertices, cyclicPairs, consecPairs, interLines, lineInter]

/-- `deg_step = 90`, four directions: `4 * 90 = 360`. -/
example : ((4 : Nat) : ℚ) * 90 = 360 := by norm_num

end VirVerif.C03
