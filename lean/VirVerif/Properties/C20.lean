/-
C20 — Exported, plotted and loaded data are exactly the computed / stored values.

  "save_contour_coordinates writes one header line built from the semantics followed by one row
   per contour point, in order, whose parsed values equal the coordinates to the written 6
   decimals, appending '.txt' when the path has no extension. plot_2D_contour draws the closed
   polyline through exactly the contour's points in order (first point repeated at the end, axes
   exchanged iff swap_axis) with sample and design conditions as supplied, the other plot
   functions draw the model's own pdf values, dependence-function values and per-interval
   estimates unmodified, and read_ec_benchmark_dataset returns every data row, in order, with
   its time stamp as index."

Clause → theorem (model: Model/Export.lean; a double is its exact value ± num/den, `%1.6f` is
round-half-even of that exact value, text is `List Char`)
  one header line + one row per point, in order          save_rows_in_order, save_row_fields
  header built from the semantics                        header_spec, header_fields
  parsed values = coordinates to 6 decimals              parse_save (∀ non-empty newline-free header, ∀ rows, ∀ widths),
                                                         parse_save_semantics (the header IS `headerOf` of the
                                                         semantics, ≥ 1 dimension; headerOf_ne_nil),
                                                         round6_error (≤ 5·10⁻⁷, sign/finiteness kept; needs 0 < den),
                                                         round6_error_bits + valOfBits_den_pos (for the value behind
                                                         every finite bit pattern),
                                                         roundHalfEven_error, roundHalfEven_tie_even,
                                                         roundDec_nonfinite, parseDecimal_fmtDec
  '.txt' appended iff no extension                       txt_appended_iff_no_ext (in terms of the PATH: last component
                                                         `stem.e`, a non-dot character in `stem`, no dot in `e`),
                                                         splitext_spec, ext_nonempty_iff;
                                                         txt_appended_iff_no_ext_unfold (unfolding of `savePath`,
                                                         true for any `splitext`)
  closed polyline, order, swap                           polyline_closed, polyline_swap
  sample / design conditions as supplied                 scatter_spec; design_conditions_as_supplied_def is only the
                                                         defining equations of the model function `designPts` (free
                                                         default): the clause rests on the correspondence (scatter
                                                         offsets compared bit for bit), NOT on a theorem;
                                                         COUNTER-MODEL (`designPtsOld`, defect #13, never run by the
                                                         driver): design_conditions_old_counterexample,
                                                         design_conditions_old_every_nonempty_array
  other plots draw the leaf values unmodified            curve_values  — PARTIAL with respect to the clause: the
                                                         theorem is about the model curve of an uninterpreted
                                                         leaf (pdf, dependence function); that the arrays the
                                                         real functions hand to matplotlib ARE this curve, that
                                                         the per-interval estimates / histogram data / QQ
                                                         ordinates are the stored values, and everything about
                                                         labels, legends and automatic isodensity levels is
                                                         observed per run by the harness (`ck.partial`), not
                                                         proven. No theorem exists for histogram data or
                                                         marginal quantiles.
  reader: every row, in order, time stamp as index       reader_free_layout (ANY column names / rows written with any
                                                         padding after the separators, blank lines before the header
                                                         and between rows, no / one / several final line ends, `\n` or
                                                         Windows line ends: the reader returns exactly the names and
                                                         the rows in file order), reader_rows_in_order (canonical
                                                         layout), parseBenchRow_padded, fields_padLine, reader_crlf,
                                                         parseStamp_fmtStamp;
                                                         readBenchmark_unfold_lines_in_order /
                                                         readBenchmark_unfold_returns_every_line are unfoldings of
                                                         `readBenchmark` (their hypothesis / conclusion is "every line
                                                         parses to its row"), no statement about file contents

The save / polyline / scatter / reader clauses are proven for all inputs (induction on rows /
digits / paths); the design-condition clause has no theorem beyond the model's definition; the "other
plot functions" clause is partial as said above.
What is *not* a theorem and is tied by the correspondence check on every run: that the model's
`saveText` / `savePath` / `closePolyline` / `readBenchmarkU` / `linspaceEndF` compute what the
Python code (numpy's savetxt, os.path.splitext, matplotlib, pandas.read_csv) computes.
-/
import VirVerif.Model.Export
import Mathlib.Data.List.Basic
import Mathlib.Data.List.TakeWhile
import Mathlib.Tactic.Linarith
import Mathlib.Tactic.Ring
import Mathlib.Tactic.IntervalCases
import Mathlib.Tactic.FieldSimp
import Mathlib.Tactic.Positivity
import Mathlib.Tactic.NormNum
import Mathlib.Algebra.Order.Field.Basic
import Mathlib.Algebra.Order.Field.Rat
import Mathlib.Data.Rat.Cast.Order

namespace VirVerif.C20
open VirVerif

theorem digitChar_isDigit (d : Nat) : (digitChar d).isDigit = true := by
  unfold digitChar; split <;> decide

theorem digitChar_val (d : Nat) (h : d < 10) : (digitChar d).toNat - 48 = d := by
  interval_cases d <;> rfl

theorem parseDigitsFrom_digit (a d : Nat) (h : d < 10) (tl : Str) :
    parseDigitsFrom a (digitChar d :: tl) = parseDigitsFrom (a * 10 + d) tl := by
  simp [parseDigitsFrom, digitChar_isDigit, digitChar_val d h]

theorem parse_natDigits (n : Nat) : ∀ (a : Nat) (tl : Str),
    parseDigitsFrom a (natDigits n ++ tl) =
      parseDigitsFrom (a * 10 ^ (natDigits n).length + n) tl := by
  induction n using Nat.strong_induction_on with
  | _ n ih =>
    intro a tl
    rw [natDigits]
    split
    · rename_i h
      simp [parseDigitsFrom_digit a n h]
    · rename_i h
      have hlt : n / 10 < n := by omega
      rw [List.append_assoc, ih _ hlt]
      simp only [List.singleton_append, List.length_append, List.length_singleton]
      rw [parseDigitsFrom_digit _ _ (Nat.mod_lt _ (by norm_num))]
      congr 1
      have := Nat.div_add_mod n 10
      rw [pow_succ]
      nlinarith [this]

theorem parse_fixedDigits (w : Nat) : ∀ (n a : Nat) (tl : Str),
    parseDigitsFrom a (fixedDigits w n ++ tl) = parseDigitsFrom (a * 10 ^ w + n % 10 ^ w) tl := by
  induction w with
  | zero => intro n a tl; simp [fixedDigits, Nat.mod_one]
  | succ w ih =>
    intro n a tl
    rw [fixedDigits, List.append_assoc, ih]
    simp only [List.singleton_append]
    rw [parseDigitsFrom_digit _ _ (Nat.mod_lt _ (by norm_num))]
    congr 1
    have h : n % (10 * 10 ^ w) = n % 10 + 10 * (n / 10 % 10 ^ w) := Nat.mod_mul
    rw [pow_succ, Nat.mul_comm (10 ^ w) 10, h]
    ring

theorem natDigits_ne_nil (n : Nat) : natDigits n ≠ [] := by
  rw [natDigits]; split <;> simp

theorem natDigits_all_digit (n : Nat) : ∀ c ∈ natDigits n, c.isDigit = true := by
  induction n using Nat.strong_induction_on with
  | _ n ih =>
    rw [natDigits]
    split
    · simp [digitChar_isDigit]
    · intro c hc
      rw [List.mem_append] at hc
      rcases hc with hc | hc
      · exact ih (n / 10) (by omega) c hc
      · simp at hc; subst hc; exact digitChar_isDigit _

theorem fixedDigits_all_digit (w n : Nat) : ∀ c ∈ fixedDigits w n, c.isDigit = true := by
  induction w generalizing n with
  | zero => simp [fixedDigits]
  | succ w ih =>
    intro c hc
    rw [fixedDigits, List.mem_append] at hc
    rcases hc with hc | hc
    · exact ih _ c hc
    · simp at hc; subst hc; exact digitChar_isDigit _

theorem fixedDigits_length (w n : Nat) : (fixedDigits w n).length = w := by
  induction w generalizing n with
  | zero => rfl
  | succ w ih => simp [fixedDigits, ih]

/-! splitting -/

theorem splitOn_ne_nil (sep : Char) (l : Str) : splitOn sep l ≠ [] := by
  cases l with
  | nil => simp [splitOn]
  | cons c l =>
    simp only [splitOn, List.foldr_cons]
    split
    · simp
    · split <;> simp

theorem splitOn_cons_sep (sep : Char) (l : Str) : splitOn sep (sep :: l) = [] :: splitOn sep l := by
  simp [splitOn]

theorem splitOn_append_sep (sep : Char) (a b : Str) (h : sep ∉ a) :
    splitOn sep (a ++ sep :: b) = a :: splitOn sep b := by
  induction a with
  | nil => exact splitOn_cons_sep sep b
  | cons c a ih =>
    have hc : c ≠ sep := fun e => h (by simp [e])
    have ha : sep ∉ a := fun e => h (by simp [e])
    have := ih ha
    simp only [splitOn, List.cons_append, List.foldr_cons] at this ⊢
    rw [if_neg hc, this]

theorem splitOn_no_sep (sep : Char) (a : Str) (h : sep ∉ a) : splitOn sep a = [a] := by
  induction a with
  | nil => rfl
  | cons c a ih =>
    have hc : c ≠ sep := fun e => h (by simp [e])
    have ha : sep ∉ a := fun e => h (by simp [e])
    have := ih ha
    simp only [splitOn, List.foldr_cons] at this ⊢
    rw [if_neg hc, this]

theorem splitOn_joinSep (sep : Char) (fs : List Str) (hne : fs ≠ [])
    (h : ∀ f ∈ fs, sep ∉ f) : splitOn sep (joinSep sep fs) = fs := by
  induction fs with
  | nil => exact absurd rfl hne
  | cons a t ih =>
    cases t with
    | nil => simpa [joinSep] using splitOn_no_sep sep a (h a (by simp))
    | cons b t =>
      rw [joinSep, splitOn_append_sep sep a _ (h a (by simp))]
      rw [ih (by simp) (fun f hf => h f (by simp [hf]))]

theorem digit_ne {c : Char} (h : c.isDigit = true) :
    c ≠ ';' ∧ c ≠ '\n' ∧ c ≠ ' ' ∧ c ≠ '.' ∧ c ≠ '-' ∧ c ≠ 'n' ∧ c ≠ 'i' := by
  refine ⟨?_, ?_, ?_, ?_, ?_, ?_, ?_⟩ <;> (rintro rfl; exact absurd h (by decide))

/-- the text after the sign of a finite decimal -/
def bodyOf (m p : Nat) : Str :=
  natDigits (m / 10 ^ p) ++ (if p = 0 then [] else '.' :: fixedDigits p (m % 10 ^ p))

theorem parseBody_bodyOf (neg : Bool) (m p : Nat) :
    parseBody neg (bodyOf m p) = some (.fin neg m p) := by
  have hdot : '.' ∉ natDigits (m / 10 ^ p) := fun hmem =>
    absurd (natDigits_all_digit _ _ hmem) (by decide)
  unfold parseBody bodyOf
  by_cases hp : p = 0
  · subst hp
    simp only [if_true, List.append_nil, pow_zero, Nat.div_one]
    rw [splitOn_no_sep _ _ (by simpa using hdot)]
    have := parse_natDigits m 0 []
    rw [List.append_nil] at this
    simp [parseNat, natDigits_ne_nil, this, parseDigitsFrom]
  · simp only [hp, if_false]
    rw [splitOn_append_sep _ _ _ hdot, splitOn_no_sep _ _ (fun hmem =>
      absurd (fixedDigits_all_digit _ _ _ hmem) (by decide))]
    have hval : parseDigitsFrom 0 (natDigits (m / 10 ^ p) ++ fixedDigits p (m % 10 ^ p)) = some m := by
      rw [parse_natDigits]
      have := parse_fixedDigits p (m % 10 ^ p) (0 * 10 ^ (natDigits (m / 10 ^ p)).length + m / 10 ^ p) []
      rw [List.append_nil] at this
      rw [this]
      simp only [parseDigitsFrom, Nat.zero_mul, Nat.zero_add, Nat.mod_mod]
      congr 1
      exact Nat.div_add_mod' m (10 ^ p)
    simp [natDigits_ne_nil, hval, fixedDigits_length]

theorem fmtDec_fin (s : Bool) (m p : Nat) :
    fmtDec (.fin s m p) = (if s then ['-'] else []) ++ bodyOf m p := by
  simp [fmtDec, bodyOf]

theorem bodyOf_head (m p : Nat) : ∃ c t, bodyOf m p = c :: t ∧ c.isDigit = true := by
  obtain ⟨c, ds, hd⟩ := List.exists_cons_of_ne_nil (natDigits_ne_nil (m / 10 ^ p))
  refine ⟨c, ds ++ _, by simp [bodyOf, hd]; rfl, natDigits_all_digit _ c (by rw [hd]; simp)⟩

theorem parseDecimal_fmtDec (d : Dec) : parseDecimal (fmtDec d) = some d := by
  cases d with
  | nan => rfl
  | inf s => cases s <;> rfl
  | fin s m p =>
    obtain ⟨c, t, hb, hc⟩ := bodyOf_head m p
    obtain ⟨-, -, -, -, hminus, hn, hi⟩ := digit_ne hc
    rw [fmtDec_fin]
    have key := parseBody_bodyOf s m p
    cases s with
    | false =>
      simp only [Bool.false_eq_true, if_false, List.nil_append]
      unfold parseDecimal
      rw [hb] at key ⊢
      rw [if_neg (by intro h; injection h with h1 _; exact hn h1)]
      rw [if_neg (by intro h; injection h with h1 _; exact hi h1)]
      rw [if_neg (by intro h; injection h with h1 _; exact hminus h1)]
      split
      · rename_i heq; injection heq with h1 _; exact absurd h1 hminus
      · exact key
    | true =>
      simp only [if_true, List.singleton_append]
      unfold parseDecimal
      rw [if_neg (by intro h; injection h with h1 _; exact absurd h1 (by decide))]
      rw [if_neg (by intro h; injection h with h1 _; exact absurd h1 (by decide))]
      rw [if_neg (by rw [hb]; intro h; injection h with _ h2; injection h2 with h1 _; exact hi h1)]
      exact key

/-! rows and files -/

theorem fmtDec_chars (d : Dec) : ∀ c ∈ fmtDec d, c ≠ ';' ∧ c ≠ '\n' ∧ c ≠ ' ' := by
  intro c hc
  have hdig : c.isDigit = true → c ≠ ';' ∧ c ≠ '\n' ∧ c ≠ ' ' := fun h =>
    ⟨(digit_ne h).1, (digit_ne h).2.1, (digit_ne h).2.2.1⟩
  cases d with
  | nan => simp [fmtDec] at hc; rcases hc with rfl | rfl | rfl <;> decide
  | inf s =>
    cases s <;> simp [fmtDec] at hc
    · rcases hc with rfl | rfl | rfl <;> decide
    · rcases hc with rfl | rfl | rfl | rfl <;> decide
  | fin s m p =>
    rw [fmtDec_fin, bodyOf, List.mem_append, List.mem_append] at hc
    rcases hc with hc | hc | hc
    · cases s <;> simp at hc; subst hc; decide
    · exact hdig (natDigits_all_digit _ c hc)
    · by_cases hp : p = 0
      · simp [hp] at hc
      · simp only [hp, if_false, List.mem_cons] at hc
        rcases hc with rfl | hc
        · decide
        · exact hdig (fixedDigits_all_digit _ _ c hc)

theorem fmtDec_ne_nil (d : Dec) : fmtDec d ≠ [] := by
  cases d with
  | nan => simp [fmtDec]
  | inf s => cases s <;> simp [fmtDec]
  | fin s m p =>
    obtain ⟨c, t, hb, -⟩ := bodyOf_head m p
    rw [fmtDec_fin, hb]; simp

theorem mem_joinSep (sep : Char) (fs : List Str) (c : Char) (h : c ∈ joinSep sep fs) :
    c = sep ∨ ∃ f ∈ fs, c ∈ f := by
  induction fs with
  | nil => simp [joinSep] at h
  | cons a t ih =>
    cases t with
    | nil => exact Or.inr ⟨a, by simp, by simpa [joinSep] using h⟩
    | cons b t =>
      rw [joinSep, List.mem_append, List.mem_cons] at h
      rcases h with h | h | h
      · exact Or.inr ⟨a, by simp, h⟩
      · exact Or.inl h
      · rcases ih h with h | ⟨f, hf, hc⟩
        · exact Or.inl h
        · exact Or.inr ⟨f, by simp [List.mem_cons] at hf ⊢; tauto, hc⟩

theorem joinSep_ne_nil (sep : Char) (a : Str) (t : List Str) (ha : a ≠ []) :
    joinSep sep (a :: t) ≠ [] := by
  cases t with
  | nil => simpa [joinSep] using ha
  | cons b t => simp [joinSep, ha]

theorem mapM_map_some {α β γ : Type} (f : β → Option γ) (g : α → β) (h : α → γ) (l : List α)
    (H : ∀ x ∈ l, f (g x) = some (h x)) : (l.map g).mapM f = some (l.map h) := by
  induction l with
  | nil => rfl
  | cons a l ih =>
    rw [List.map_cons, List.mapM_cons, H a (by simp), ih (fun x hx => H x (by simp [hx]))]
    rfl

theorem newline_notin_rowLine (r : List Val) : '\n' ∉ rowLine r := by
  intro h
  rcases mem_joinSep _ _ _ h with h | ⟨f, hf, hc⟩
  · exact absurd h (by decide)
  · rw [List.mem_map] at hf
    obtain ⟨v, -, rfl⟩ := hf
    exact (fmtDec_chars _ _ hc).2.1 rfl

theorem parseRow_rowLine (r : List Val) : parseRow (rowLine r) = some (r.map (roundDec 6)) := by
  cases r with
  | nil => rfl
  | cons v t =>
    unfold parseRow rowLine
    rw [List.map_cons, if_neg (joinSep_ne_nil _ (fmt6 v) _ (fmtDec_ne_nil _)), ← List.map_cons,
      splitOn_joinSep _ _ (by simp)]
    · exact mapM_map_some _ _ _ _ (fun x _ => parseDecimal_fmtDec _)
    · intro f hf
      rw [List.mem_map] at hf
      obtain ⟨x, -, rfl⟩ := hf
      exact fun hc => (fmtDec_chars _ _ hc).1 rfl

/-- the lines of the data part -/
theorem splitOn_rows (rows : List (List Val)) :
    splitOn '\n' (rows.flatMap fun r => rowLine r ++ ['\n']) = rows.map rowLine ++ [[]] := by
  induction rows with
  | nil => rfl
  | cons r rs ih =>
    rw [List.flatMap_cons, List.append_assoc, List.singleton_append,
      splitOn_append_sep _ _ _ (newline_notin_rowLine r), ih]
    rfl

theorem parseLines_rows (rows : List (List Val)) :
    parseLines (rows.map rowLine ++ [[]]) = some (rows.map (·.map (roundDec 6))) := by
  induction rows with
  | nil => rfl
  | cons r rs ih =>
    rw [List.map_cons, List.cons_append]
    cases h : rs.map rowLine ++ [[]] with
    | nil => simp at h
    | cons m rest =>
      rw [h] at ih
      rw [parseLines, parseRow_rowLine, ih]
      rfl

/-- **save_rows_in_order.**  The file consists of exactly the header line followed by one
line per row, in the order of the rows, every line ended by a newline (so splitting at the
newlines gives header, row 1, …, row n and one empty piece after the last newline). -/
theorem save_rows_in_order (hdr : Str) (rows : List (List Val)) (h1 : hdr ≠ []) (h2 : '\n' ∉ hdr) :
    splitOn '\n' (saveText hdr rows) = hdr :: (rows.map rowLine ++ [[]]) := by
  unfold saveText
  rw [if_neg h1, List.append_assoc, List.singleton_append, splitOn_append_sep _ _ _ h2, splitOn_rows]

/-- the i-th data line is the `;`-joined `%1.6f` text of the i-th row -/
theorem save_row_fields (r : List Val) (hr : r ≠ []) :
    splitOn ';' (rowLine r) = r.map fmt6 := by
  unfold rowLine
  refine splitOn_joinSep _ _ (by simpa using hr) ?_
  intro f hf
  rw [List.mem_map] at hf
  obtain ⟨x, -, rfl⟩ := hf
  exact fun hc => (fmtDec_chars _ _ hc).1 rfl

/-- **parse_save.**  Reading back what was saved returns the header and, row by row in order,
every value rounded (half-even on its exact binary value) to 6 decimals. -/
theorem parse_save (hdr : Str) (rows : List (List Val)) (h1 : hdr ≠ []) (h2 : '\n' ∉ hdr) :
    parseText (saveText hdr rows) = some (hdr, rows.map (·.map (roundDec 6))) := by
  unfold parseText
  rw [save_rows_in_order hdr rows h1 h2]
  simp only [parseLines_rows, Option.map_some]

/-! paths -/

theorem while_split (q : Char → Bool) (l : Str) :
    l = l.takeWhile q ++ l.dropWhile q ∧ (∀ x ∈ l.takeWhile q, q x = true) ∧
      (l.dropWhile q = [] ∨ ∃ y t, l.dropWhile q = y :: t ∧ q y = false) := by
  refine ⟨(List.takeWhile_append_dropWhile).symm, fun x hx => List.mem_takeWhile_imp hx, ?_⟩
  cases h : l.dropWhile q with
  | nil => exact Or.inl rfl
  | cons y t =>
    refine Or.inr ⟨y, t, rfl, ?_⟩
    have := List.head_dropWhile_not q (l := l) (by rw [h]; simp)
    simpa [h] using this

theorem while_unique (q : Char → Bool) (a b : Str) (ha : ∀ x ∈ a, q x = true)
    (hb : b = [] ∨ ∃ y t, b = y :: t ∧ q y = false) :
    (a ++ b).takeWhile q = a ∧ (a ++ b).dropWhile q = b := by
  rw [List.takeWhile_append_of_pos ha, List.dropWhile_append_of_pos ha]
  rcases hb with rfl | ⟨y, t, rfl, hy⟩
  · simp
  · rw [List.takeWhile_cons_of_neg (by simp [hy]), List.dropWhile_cons_of_neg (by simp [hy])]
    simp

theorem notSlash_iff (c : Char) : notSlash c = true ↔ c ≠ '/' := by simp [notSlash]
theorem notDot_iff (c : Char) : notDot c = true ↔ c ≠ '.' := by simp [notDot]
theorem notSlash_false (c : Char) : notSlash c = false ↔ c = '/' := by simp [notSlash]
theorem notDot_false (c : Char) : notDot c = false ↔ c = '.' := by simp [notDot]

/-- decomposition of a path as `splitext` sees it -/
theorem path_decomp (p : Str) :
    ∃ revDir revBase, p.reverse = revBase ++ revDir ∧
      p.reverse.takeWhile notSlash = revBase ∧ p.reverse.dropWhile notSlash = revDir ∧
      '/' ∉ revBase ∧ (revDir = [] ∨ ∃ t, revDir = '/' :: t) := by
  obtain ⟨h1, h2, h3⟩ := while_split notSlash p.reverse
  refine ⟨_, _, h1, rfl, rfl, ?_, ?_⟩
  · intro hm; exact (notSlash_iff _).mp (h2 _ hm) rfl
  · rcases h3 with h3 | ⟨y, t, h3, hy⟩
    · exact Or.inl h3
    · exact Or.inr ⟨t, by rw [h3, (notSlash_false y).mp hy]⟩

theorem base_decomp (revBase : Str) :
    (revBase.dropWhile notDot = [] ∧ '.' ∉ revBase) ∨
    ∃ revExt revStem, revBase = revExt ++ '.' :: revStem ∧ revBase.takeWhile notDot = revExt ∧
      revBase.dropWhile notDot = '.' :: revStem ∧ '.' ∉ revExt := by
  obtain ⟨h1, h2, h3⟩ := while_split notDot revBase
  rcases h3 with h3 | ⟨y, t, h3, hy⟩
  · left
    refine ⟨h3, ?_⟩
    intro hm
    rw [List.dropWhile_eq_nil_iff] at h3
    exact (notDot_iff _).mp (h3 _ hm) rfl
  · right
    have hy' := (notDot_false y).mp hy
    subst hy'
    refine ⟨_, t, by rw [← h3]; exact h1, rfl, h3, ?_⟩
    intro hm; exact (notDot_iff _).mp (h2 _ hm) rfl

/-- `splitext` splits the path, and an extension starts with the only dot it contains and
contains no `/`. -/
theorem splitext_spec (p : Str) :
    (splitext p).1 ++ (splitext p).2 = p ∧
      ((splitext p).2 = [] ∨ ∃ e, (splitext p).2 = '.' :: e ∧ '.' ∉ e ∧ '/' ∉ e) := by
  obtain ⟨revDir, revBase, hp, hb, hd, hsl, -⟩ := path_decomp p
  unfold splitext
  simp only []
  rw [hb, hd]
  rcases base_decomp revBase with ⟨h0, -⟩ | ⟨revExt, revStem, hbase, ht, hdw, hdot⟩
  · rw [h0]; simp [splitextAux]
  · rw [hdw, ht]
    simp only [splitextAux]
    split
    · refine ⟨?_, Or.inr ⟨_, rfl, ?_, ?_⟩⟩
      · have : p = (p.reverse).reverse := by simp
        conv_rhs => rw [this, hp, hbase]
        simp
      · intro hm; exact hdot (List.mem_reverse.mp hm)
      · intro hm
        apply hsl
        rw [hbase]; simp [List.mem_reverse.mp hm]
    · simp

/-- **which paths have an extension**: exactly those whose last component is
`stem ++ "." ++ e` with no dot in `e` and at least one non-dot character in `stem`
(so `.hidden`, `..a`, `dir.d/name` have none, `a.`, `x/.h.t`, `a.b.c` have one). -/
theorem ext_nonempty_iff (p : Str) :
    (splitext p).2 ≠ [] ↔
      ∃ dir stem e, p = dir ++ stem ++ '.' :: e ∧ (dir = [] ∨ dir.getLast? = some '/') ∧
        '/' ∉ stem ∧ (∃ c ∈ stem, c ≠ '.') ∧ '.' ∉ e ∧ '/' ∉ e := by
  constructor
  · intro hne
    obtain ⟨revDir, revBase, hp, hb, hd, hsl, hdir⟩ := path_decomp p
    unfold splitext at hne
    simp only [] at hne
    rw [hb, hd] at hne
    rcases base_decomp revBase with ⟨h0, -⟩ | ⟨revExt, revStem, hbase, ht, hdw, hdot⟩
    · rw [h0] at hne; simp [splitextAux] at hne
    · rw [hdw, ht] at hne
      simp only [splitextAux] at hne
      by_cases hany : revStem.any notDot = true
      · refine ⟨revDir.reverse, revStem.reverse, revExt.reverse, ?_, ?_, ?_, ?_, ?_, ?_⟩
        · have : p = (p.reverse).reverse := by simp
          conv_lhs => rw [this, hp, hbase]
          simp
        · rcases hdir with rfl | ⟨t, rfl⟩
          · left; rfl
          · right; simp
        · intro hm; apply hsl; rw [hbase]; simp [List.mem_reverse.mp hm]
        · rw [List.any_eq_true] at hany
          obtain ⟨c, hc, hcd⟩ := hany
          exact ⟨c, List.mem_reverse.mpr hc, (notDot_iff c).mp hcd⟩
        · intro hm; exact hdot (List.mem_reverse.mp hm)
        · intro hm; apply hsl; rw [hbase]; simp [List.mem_reverse.mp hm]
      · rw [if_neg hany] at hne; simp at hne
  · rintro ⟨dir, stem, e, rfl, hdir, hs, ⟨c, hc, hcd⟩, he1, he2⟩
    have hrev : (dir ++ stem ++ '.' :: e).reverse =
        (e.reverse ++ '.' :: stem.reverse) ++ dir.reverse := by simp
    have hb : ∀ x ∈ e.reverse ++ '.' :: stem.reverse, notSlash x = true := by
      intro x hx
      rw [notSlash_iff]
      simp only [List.mem_append, List.mem_reverse, List.mem_cons] at hx
      rcases hx with hx | rfl | hx
      · rintro rfl; exact he2 hx
      · decide
      · rintro rfl; exact hs hx
    have hd : dir.reverse = [] ∨ ∃ y t, dir.reverse = y :: t ∧ notSlash y = false := by
      rcases hdir with rfl | hl
      · left; rfl
      · right
        rcases dir.eq_nil_or_concat with rfl | ⟨l, b, rfl⟩
        · simp at hl
        · simp at hl; subst hl; exact ⟨'/', l.reverse, by simp, by decide⟩
    obtain ⟨t1, t2⟩ := while_unique _ _ _ hb hd
    have he : ∀ x ∈ e.reverse, notDot x = true := by
      intro x hx
      rw [notDot_iff]
      rintro rfl; exact he1 (List.mem_reverse.mp hx)
    obtain ⟨t3, t4⟩ := while_unique notDot e.reverse ('.' :: stem.reverse) he
      (Or.inr ⟨'.', _, rfl, by decide⟩)
    unfold splitext
    simp only []
    rw [hrev, t1, t4]
    have hany : (stem.reverse).any notDot = true := by
      rw [List.any_eq_true]; exact ⟨c, List.mem_reverse.mpr hc, (notDot_iff c).mpr hcd⟩
    simp only [splitextAux]
    rw [if_pos hany]
    simp

/-- (unfolding of `savePath`: true for ANY function in place of `splitext`) `.txt` is appended exactly
when `splitext` returns an empty extension; otherwise the path is used unchanged.  The statement about
paths is `txt_appended_iff_no_ext`. -/
theorem txt_appended_iff_no_ext_unfold (p : Str) :
    (savePath p = p ++ ['.', 't', 'x', 't'] ↔ (splitext p).2 = []) ∧
      (savePath p = p ↔ (splitext p).2 ≠ []) := by
  unfold savePath
  by_cases h : (splitext p).2 = []
  · simp [h]
  · simp [h]

/-- **txt_appended_iff_no_ext.**  The path is used unchanged exactly when its last component has the
form `stem ++ "." ++ e` with no dot in `e` and at least one non-dot character in `stem` (posix
`os.path.splitext` finds an extension: `a.b`, `x/.h.t`, `a.`); in every other case (`name`, `.hidden`,
`..a`, `dir.d/name`) `.txt` is appended. -/
theorem txt_appended_iff_no_ext (p : Str) :
    (savePath p = p ↔
      ∃ dir stem e, p = dir ++ stem ++ '.' :: e ∧ (dir = [] ∨ dir.getLast? = some '/') ∧
        '/' ∉ stem ∧ (∃ c ∈ stem, c ≠ '.') ∧ '.' ∉ e ∧ '/' ∉ e) ∧
    (savePath p = p ++ ['.', 't', 'x', 't'] ↔
      ¬ ∃ dir stem e, p = dir ++ stem ++ '.' :: e ∧ (dir = [] ∨ dir.getLast? = some '/') ∧
        '/' ∉ stem ∧ (∃ c ∈ stem, c ≠ '.') ∧ '.' ∉ e ∧ '/' ∉ e) := by
  rw [← ext_nonempty_iff, (txt_appended_iff_no_ext_unfold p).1, (txt_appended_iff_no_ext_unfold p).2]
  simp

/-! rounding -/

/-- exact rational value of a finite double / decimal -/
def Val.toRat : Val → Option ℚ
  | .fin s n d => some ((if s then -1 else 1) * ((n : ℚ) / d))
  | _ => none

def Dec.toRat : Dec → Option ℚ
  | .fin s m p => some ((if s then -1 else 1) * ((m : ℚ) / 10 ^ p))
  | _ => none

theorem roundHalfEven_error (n d : Nat) (hd : 0 < d) :
    |(roundHalfEven n d : ℚ) - (n : ℚ) / d| ≤ 1 / 2 := by
  have hdq : (0 : ℚ) < d := by exact_mod_cast hd
  have hn : (n : ℚ) = d * (n / d : ℕ) + (n % d : ℕ) := by exact_mod_cast (Nat.div_add_mod n d).symm
  have hr : ((n % d : ℕ) : ℚ) < d := by exact_mod_cast Nat.mod_lt n hd
  have hdiv : (n : ℚ) / d = (n / d : ℕ) + ((n % d : ℕ) : ℚ) / d := by
    have : (n : ℚ) / d = (d * (n / d : ℕ) + (n % d : ℕ)) / d := congrArg (· / (d : ℚ)) hn
    rw [this, add_div, mul_div_cancel_left₀ _ hdq.ne']
  have hx0 : 0 ≤ ((n % d : ℕ) : ℚ) / d := by positivity
  have hx1 : ((n % d : ℕ) : ℚ) / d < 1 := by rw [div_lt_one hdq]; exact hr
  rw [hdiv, abs_le]
  unfold roundHalfEven
  simp only []
  split
  · rename_i h
    have : ((n % d : ℕ) : ℚ) / d < 1 / 2 := by
      rw [div_lt_iff₀ hdq]
      have : (2 * (n % d) : ℕ) < d := h
      have : ((2 * (n % d) : ℕ) : ℚ) < d := by exact_mod_cast this
      push_cast at this; linarith
    constructor <;> linarith
  · rename_i h
    split
    · rename_i h2
      have : 1 / 2 < ((n % d : ℕ) : ℚ) / d := by
        rw [lt_div_iff₀ hdq]
        have : ((d : ℕ) : ℚ) < ((2 * (n % d) : ℕ) : ℚ) := by exact_mod_cast h2
        push_cast at this; linarith
      push_cast
      constructor <;> linarith
    · rename_i h2
      have heq : 2 * (n % d) = d := by omega
      have : ((n % d : ℕ) : ℚ) / d = 1 / 2 := by
        rw [div_eq_iff hdq.ne']
        have : ((2 * (n % d) : ℕ) : ℚ) = d := by exact_mod_cast heq
        push_cast at this; linarith
      split
      · constructor <;> linarith
      · push_cast; constructor <;> linarith

/-- in an exact tie the even neighbour is chosen -/
theorem roundHalfEven_tie_even (n d : Nat) (htie : 2 * (n % d) = d) :
    roundHalfEven n d % 2 = 0 := by
  unfold roundHalfEven
  simp only []
  rw [if_neg (by omega), if_neg (by omega)]
  split
  · assumption
  · omega

/-- **round6_error.**  The written number differs from the exact value of the coordinate by
at most half a unit of the 6th decimal (so it is a nearest 6-decimal number; ties go to the
even one by `roundHalfEven_tie_even`); sign and finiteness are kept. -/
theorem round6_error (s : Bool) (n d : Nat) (hd : 0 < d) :
    ∃ k, roundDec 6 (.fin s n d) = .fin s k 6 ∧
      ∀ x y, Val.toRat (.fin s n d) = some x → Dec.toRat (.fin s k 6) = some y →
        |y - x| ≤ 5 / 10 ^ 7 := by
  refine ⟨_, rfl, ?_⟩
  intro x y hx hy
  simp only [Val.toRat, Dec.toRat, Option.some.injEq] at hx hy
  subst hx hy
  have h := roundHalfEven_error (n * 10 ^ 6) d hd
  have hdq : (0 : ℚ) < d := by exact_mod_cast hd
  have e : ((n * 10 ^ 6 : ℕ) : ℚ) / d = ((n : ℚ) / d) * 10 ^ 6 := by push_cast; ring
  rw [e] at h
  rw [← mul_sub, abs_mul]
  have hs : |(if s then (-1 : ℚ) else 1)| = 1 := by cases s <;> simp
  rw [hs, one_mul]
  have : ((roundHalfEven (n * 10 ^ 6) d : ℚ) / 10 ^ 6 - (n : ℚ) / d) =
      ((roundHalfEven (n * 10 ^ 6) d : ℚ) - (n : ℚ) / d * 10 ^ 6) / 10 ^ 6 := by
    field_simp
  rw [this, abs_div, abs_of_pos (by positivity : (0 : ℚ) < 10 ^ 6), div_le_iff₀ (by positivity)]
  norm_num at h ⊢
  linarith

/-- the exact value decoded from a bit pattern has a positive denominator (the hypothesis `0 < d` of
`round6_error` is met by every double) -/
theorem valOfBits_den_pos (b : Nat) (s : Bool) (n d : Nat) (h : valOfBits b = .fin s n d) : 0 < d := by
  unfold valOfBits at h
  simp only at h
  split_ifs at h <;> injection h with _ _ hd <;> rw [← hd] <;> positivity

/-- **round6_error_bits**: `round6_error` for the value behind ANY finite bit pattern (what the driver
decodes from the coordinates it receives) -/
theorem round6_error_bits (b : Nat) (s : Bool) (n d : Nat) (h : valOfBits b = .fin s n d) :
    ∃ k, roundDec 6 (valOfBits b) = .fin s k 6 ∧
      ∀ x y, Val.toRat (valOfBits b) = some x → Dec.toRat (.fin s k 6) = some y →
        |y - x| ≤ 5 / 10 ^ 7 := by
  rw [h]
  exact round6_error s n d (valOfBits_den_pos b s n d h)

theorem roundDec_nonfinite (p : Nat) : roundDec p .nan = .nan ∧ ∀ s, roundDec p (.inf s) = .inf s :=
  ⟨rfl, fun _ => rfl⟩

/-! header -/

/-- **header_spec.**  The header exists iff names and units are given for every dimension; it
is the `;`-joined list of exactly `nDim` labels, label `i` being `names[i] (units[i])`. -/
theorem header_spec (names units : List Str) (nDim : Nat) :
    (headerOf names units nDim = none ↔ names.length < nDim ∨ units.length < nDim) ∧
    ∀ h, headerOf names units nDim = some h →
      ∃ labels : List Str, h = joinSep ';' labels ∧ labels.length = nDim ∧
        ∀ i (hn : i < names.length) (hu : i < units.length), i < nDim →
          labels[i]? = some (names[i] ++ [' ', '('] ++ units[i] ++ [')']) := by
  unfold headerOf
  constructor
  · split
    · rename_i h; simp; omega
    · rename_i h; simp; omega
  · intro h hh
    split at hh
    · rename_i hg
      injection hh with hh
      refine ⟨_, hh.symm, ?_, ?_⟩
      · simp; omega
      · intro i hn hu hi
        simp [hi, hn, hu, label]
    · exact absurd hh (by simp)

/-- when no label contains a `;` the header splits back into exactly the labels -/
theorem header_fields (names units : List Str) (nDim : Nat) (h : Str) (hpos : 0 < nDim)
    (hh : headerOf names units nDim = some h)
    (hsemi : ∀ l ∈ List.zipWith label (names.take nDim) (units.take nDim), ';' ∉ l) :
    splitOn ';' h = List.zipWith label (names.take nDim) (units.take nDim) := by
  unfold headerOf at hh
  split at hh
  · rename_i hg
    injection hh with hh
    rw [← hh]
    refine splitOn_joinSep _ _ ?_ hsemi
    intro he
    have := congrArg List.length he
    simp only [List.length_zipWith, List.length_take, List.length_nil] at this
    omega
  · exact absurd hh (by simp)

theorem label_ne_nil (n u : Str) : label n u ≠ [] := by simp [label]

/-- the header of at least one dimension is not empty (hypothesis `h1` of `parse_save`) -/
theorem headerOf_ne_nil (names units : List Str) (nDim : Nat) (h : Str) (hpos : 0 < nDim)
    (hh : headerOf names units nDim = some h) : h ≠ [] := by
  unfold headerOf at hh
  split at hh
  · rename_i hg
    injection hh with hh
    rw [← hh]
    obtain ⟨k, rfl⟩ : ∃ k, nDim = k + 1 := ⟨nDim - 1, by omega⟩
    cases names with
    | nil => simp at hg
    | cons n ns =>
      cases units with
      | nil => simp at hg
      | cons u us =>
        simp only [List.take_succ_cons, List.zipWith_cons_cons]
        exact joinSep_ne_nil _ _ _ (label_ne_nil n u)
  · exact absurd hh (by simp)

/-- **parse_save_semantics**: `parse_save` with the header the code actually writes - the one built
from the semantics by `headerOf`, for at least one dimension and names / units free of newlines:
reading back what was saved returns that header and every value rounded to 6 decimals. -/
theorem parse_save_semantics (names units : List Str) (nDim : Nat) (h : Str) (rows : List (List Val))
    (hpos : 0 < nDim) (hh : headerOf names units nDim = some h)
    (hnl : ∀ l ∈ List.zipWith label (names.take nDim) (units.take nDim), '\n' ∉ l) :
    parseText (saveText h rows) = some (h, rows.map (·.map (roundDec 6))) := by
  apply parse_save h rows (headerOf_ne_nil names units nDim h hpos hh)
  unfold headerOf at hh
  split at hh
  · injection hh with hh
    rw [← hh]
    intro hm
    rcases mem_joinSep _ _ _ hm with hm | ⟨l, hl, hc⟩
    · exact absurd hm (by decide)
    · exact hnl l hl hc
  · exact absurd hh (by simp)

/-! polyline -/

/-- **polyline_closed.**  For a non-empty contour the drawn line has one point more than the
contour, its first `n` points are the contour's points in order (axes exchanged iff `swap`),
and the last point repeats the first; an empty contour is an error. -/
theorem polyline_closed {α : Type} (swap : Bool) (pts : List (α × α)) :
    (closePolyline swap pts = none ↔ pts = []) ∧
    ∀ line, closePolyline swap pts = some line →
      line.length = pts.length + 1 ∧
      line.take pts.length = pts.map (fun p => if swap then (p.2, p.1) else p) ∧
      line.getLast? = line.head? ∧
      (∀ i (hi : i < pts.length), line[i]? = some (if swap then (pts[i].2, pts[i].1) else pts[i])) := by
  cases pts with
  | nil => simp [closePolyline]
  | cons p rest =>
    refine ⟨by simp [closePolyline], ?_⟩
    intro line hl
    simp only [closePolyline, Option.some.injEq] at hl
    subst hl
    refine ⟨by simp, ?_, ?_, ?_⟩
    rotate_left
    · rw [List.getLast?_append]; simp
    · intro i hi
      rw [List.getElem?_append_left (by simpa using hi), List.getElem?_map,
        List.getElem?_eq_getElem hi]
      simp [orient]
    · have : (p :: rest).length = ((p :: rest).map (orient swap)).length := by simp
      rw [this, List.take_left']
      · rfl
      · rfl

/-- exchanging the axes of the drawing = drawing the contour with exchanged columns -/
theorem polyline_swap {α : Type} (pts : List (α × α)) :
    closePolyline true pts = closePolyline false (pts.map Prod.swap) := by
  cases pts with
  | nil => rfl
  | cons p rest => simp [closePolyline, orient, Prod.swap, Function.comp_def]

/-- the sample is drawn point for point, in order, on the same axes as the contour -/
theorem scatter_spec {α : Type} (swap : Bool) (pts : List (α × α)) :
    (scatterPts swap pts).length = pts.length ∧
    ∀ i (hi : i < pts.length),
      (scatterPts swap pts)[i]? = some (if swap then (pts[i].2, pts[i].1) else pts[i]) := by
  refine ⟨by simp [scatterPts], fun i hi => ?_⟩
  simp [scatterPts, orient, hi]

/-- **curve_values.**  The curve handed to matplotlib has one point per abscissa, in order, and
its ordinate is the leaf's value at that abscissa, unmodified. -/
theorem curve_values {α β : Type} (f : α → Option β) (xs : List α) (c : List (α × β))
    (h : curve f xs = some c) :
    c.map Prod.fst = xs ∧ ∀ p ∈ c, f p.1 = some p.2 := by
  induction xs generalizing c with
  | nil =>
    simp [curve] at h; subst h; simp
  | cons x xs ih =>
    unfold curve at h ih
    rw [List.mapM_cons] at h
    cases hx : f x with
    | none => simp [hx] at h
    | some y =>
      cases hr : xs.mapM (fun x => (f x).map fun y => (x, y)) with
      | none => simp [hx, hr] at h
      | some r =>
        simp [hx, hr] at h
        subst h
        obtain ⟨i1, i2⟩ := ih r hr
        refine ⟨by simp [i1], ?_⟩
        intro p hp
        simp only [List.mem_cons] at hp
        rcases hp with rfl | hp
        · exact hx
        · exact i2 p hp

/-! benchmark reader -/

theorem parseNat_fixedDigits (w n : Nat) (hw : 0 < w) (hn : n < 10 ^ w) :
    parseNat (fixedDigits w n) = some n := by
  unfold parseNat
  have hne : fixedDigits w n ≠ [] := by
    intro h; have := fixedDigits_length w n; rw [h] at this; simp at this; omega
  rw [if_neg hne]
  have := parse_fixedDigits w n 0 []
  rw [List.append_nil] at this
  rw [this]
  simp [parseDigitsFrom, Nat.mod_eq_of_lt hn]

theorem dash_notin_fixed (w n : Nat) : '-' ∉ fixedDigits w n := fun hm =>
  absurd (fixedDigits_all_digit _ _ _ hm) (by decide)

theorem daysInMonth_le (y m : Nat) : daysInMonth y m ≤ 31 := by
  unfold daysInMonth; split <;> (try split) <;> omega

theorem parseStamp_fmtStamp (s : Stamp) (hv : s.valid = true) : parseStamp (fmtStamp s) = some s := by
  obtain ⟨y, m, d, h⟩ := s
  simp only [Stamp.valid, Bool.and_eq_true, decide_eq_true_eq] at hv
  obtain ⟨⟨⟨⟨⟨⟨hy1, hy2⟩, hm1⟩, hm2⟩, hd1⟩, hd2⟩, hh⟩ := hv
  have hd3 := daysInMonth_le y m
  unfold parseStamp fmtStamp
  simp only []
  rw [splitOn_append_sep _ _ _ (dash_notin_fixed _ _), splitOn_append_sep _ _ _ (dash_notin_fixed _ _),
    splitOn_append_sep _ _ _ (dash_notin_fixed _ _), splitOn_no_sep _ _ (dash_notin_fixed _ _)]
  simp only [fixedDigits_length]
  rw [if_pos (by simp)]
  rw [parseNat_fixedDigits 4 y (by norm_num) (by norm_num; omega),
    parseNat_fixedDigits 2 m (by norm_num) (by norm_num; omega),
    parseNat_fixedDigits 2 d (by norm_num) (by norm_num; omega),
    parseNat_fixedDigits 2 h (by norm_num) (by norm_num; omega)]
  simp only []
  rw [if_pos]
  simp only [Stamp.valid, Bool.and_eq_true, decide_eq_true_eq]
  exact ⟨⟨⟨⟨⟨⟨hy1, hy2⟩, hm1⟩, hm2⟩, hd1⟩, hd2⟩, hh⟩

theorem stripInitial_of_head (f : Str) (h : f.head? ≠ some ' ') : stripInitial f = f := by
  cases f with
  | nil => rfl
  | cons c t =>
    have : c ≠ ' ' := by simpa using h
    simp [stripInitial, this]

theorem stripInitial_space (f : Str) (h : f.head? ≠ some ' ') : stripInitial (' ' :: f) = f := by
  have := stripInitial_of_head f h
  simpa [stripInitial, List.dropWhile_cons] using this

/-- the fields of a benchmark-format line are the pieces it was built from -/
theorem fields_benchLine (fs : List Str) (hne : fs ≠ [])
    (h : ∀ f ∈ fs, ';' ∉ f ∧ f.head? ≠ some ' ') : fields (benchLine fs) = fs := by
  cases fs with
  | nil => exact absurd rfl hne
  | cons f rest =>
    unfold fields benchLine
    rw [splitOn_joinSep _ _ (by simp)]
    · rw [List.map_cons, stripInitial_of_head f (h f (by simp)).2, List.map_map]
      congr 1
      have : ∀ g ∈ rest, (stripInitial ∘ fun x => ' ' :: x) g = g := fun g hg =>
        stripInitial_space g (h g (by simp [hg])).2
      calc List.map (stripInitial ∘ fun x => ' ' :: x) rest = List.map id rest :=
            List.map_congr_left this
        _ = rest := List.map_id _
    · intro g hg
      simp only [List.mem_cons, List.mem_map] at hg
      rcases hg with rfl | ⟨g', hg', rfl⟩
      · exact (h _ (by simp)).1
      · intro hm
        simp only [List.mem_cons] at hm
        rcases hm with hm | hm
        · exact absurd hm (by decide)
        · exact (h g' (by simp [hg'])).1 hm

theorem fmtStamp_chars (s : Stamp) : ∀ c ∈ fmtStamp s, c ≠ ';' ∧ c ≠ '\n' ∧ c ≠ ' ' := by
  intro c hc
  have hdig : c.isDigit = true → c ≠ ';' ∧ c ≠ '\n' ∧ c ≠ ' ' := fun h =>
    ⟨(digit_ne h).1, (digit_ne h).2.1, (digit_ne h).2.2.1⟩
  unfold fmtStamp at hc
  rcases List.mem_append.mp hc with hc | hc
  · exact hdig (fixedDigits_all_digit _ _ _ hc)
  rcases List.mem_cons.mp hc with hc | hc
  · rw [hc]; decide
  rcases List.mem_append.mp hc with hc | hc
  · exact hdig (fixedDigits_all_digit _ _ _ hc)
  rcases List.mem_cons.mp hc with hc | hc
  · rw [hc]; decide
  rcases List.mem_append.mp hc with hc | hc
  · exact hdig (fixedDigits_all_digit _ _ _ hc)
  rcases List.mem_cons.mp hc with hc | hc
  · rw [hc]; decide
  · exact hdig (fixedDigits_all_digit _ _ _ hc)

theorem head_ne_space_of_chars (f : Str) (h : ∀ c ∈ f, c ≠ ' ') : f.head? ≠ some ' ' := by
  cases f with
  | nil => simp
  | cons c t => simpa using h c (by simp)

theorem rowFields_ok (r : Stamp × List Dec) :
    ∀ f ∈ fmtStamp r.1 :: r.2.map fmtDec, (';' ∉ f ∧ f.head? ≠ some ' ') ∧ '\n' ∉ f := by
  intro f hf
  simp only [List.mem_cons, List.mem_map] at hf
  rcases hf with rfl | ⟨d, -, rfl⟩
  · exact ⟨⟨fun hm => (fmtStamp_chars _ _ hm).1 rfl,
      head_ne_space_of_chars _ (fun c hc => (fmtStamp_chars _ _ hc).2.2)⟩,
      fun hm => (fmtStamp_chars _ _ hm).2.1 rfl⟩
  · exact ⟨⟨fun hm => (fmtDec_chars _ _ hm).1 rfl,
      head_ne_space_of_chars _ (fun c hc => (fmtDec_chars _ _ hc).2.2)⟩,
      fun hm => (fmtDec_chars _ _ hm).2.1 rfl⟩

theorem parseBenchRow_render (n : Nat) (r : Stamp × List Dec) (hv : r.1.valid = true)
    (hw : r.2.length + 1 = n) : parseBenchRow n (renderBenchRow r) = some r := by
  unfold parseBenchRow renderBenchRow
  rw [fields_benchLine _ (by simp) (fun f hf => (rowFields_ok r f hf).1)]
  simp only [List.length_map]
  rw [if_pos hw, parseStamp_fmtStamp _ hv,
    mapM_map_some parseDecimal fmtDec id r.2 (fun x _ => parseDecimal_fmtDec x)]
  simp

theorem newline_notin_benchLine (fs : List Str) (h : ∀ f ∈ fs, '\n' ∉ f) : '\n' ∉ benchLine fs := by
  cases fs with
  | nil => simp [benchLine]
  | cons f rest =>
    intro hm
    unfold benchLine at hm
    rcases mem_joinSep _ _ _ hm with hm | ⟨g, hg, hc⟩
    · exact absurd hm (by decide)
    · simp only [List.mem_cons, List.mem_map] at hg
      rcases hg with rfl | ⟨g', hg', rfl⟩
      · exact h _ (by simp) hc
      · simp only [List.mem_cons] at hc
        rcases hc with hc | hc
        · exact absurd hc (by decide)
        · exact h g' (by simp [hg']) hc

theorem benchLine_ne_nil (f : Str) (rest : List Str) (hf : f ≠ []) : benchLine (f :: rest) ≠ [] := by
  unfold benchLine
  exact joinSep_ne_nil _ _ _ hf

theorem fmtStamp_ne_nil (s : Stamp) : fmtStamp s ≠ [] := by
  intro h
  have := congrArg List.length h
  simp [fmtStamp, fixedDigits_length] at this

theorem newline_notin_renderBenchRow (r : Stamp × List Dec) : '\n' ∉ renderBenchRow r :=
  newline_notin_benchLine _ (fun f hf => (rowFields_ok r f hf).2)

theorem renderBenchRow_ne_nil (r : Stamp × List Dec) : renderBenchRow r ≠ [] :=
  benchLine_ne_nil _ _ (fmtStamp_ne_nil r.1)

theorem splitOn_benchRows (rows : List (Stamp × List Dec)) :
    splitOn '\n' (rows.flatMap fun r => renderBenchRow r ++ ['\n']) =
      rows.map renderBenchRow ++ [[]] := by
  induction rows with
  | nil => rfl
  | cons r rs ih =>
    rw [List.flatMap_cons, List.append_assoc, List.singleton_append,
      splitOn_append_sep _ _ _ (newline_notin_renderBenchRow r), ih]
    rfl

/-- **reader_rows_in_order.**  Reading a benchmark-format file (column names not starting with a
blank and free of `;` and newlines, valid time stamps, one value per data column) returns the
column names, and for every data row of the file, in file order, its time stamp (the index) and
its values exactly. -/
theorem reader_rows_in_order (c0 : Str) (cols : List Str) (rows : List (Stamp × List Dec))
    (hc0 : c0 ≠ [])
    (hcols : ∀ f ∈ c0 :: cols, ';' ∉ f ∧ '\n' ∉ f ∧ f.head? ≠ some ' ')
    (hrows : ∀ r ∈ rows, r.1.valid = true ∧ r.2.length = cols.length) :
    readBenchmark (renderBenchmark (c0 :: cols) rows) = some (c0 :: cols, rows) := by
  unfold readBenchmark renderBenchmark
  rw [splitOn_append_sep _ _ _ (newline_notin_benchLine _ (fun f hf => (hcols f hf).2.1)),
    splitOn_benchRows]
  have hfilter : List.filter (fun x => decide (x ≠ []))
      (benchLine (c0 :: cols) :: (rows.map renderBenchRow ++ [[]])) =
      benchLine (c0 :: cols) :: rows.map renderBenchRow := by
    rw [List.filter_cons_of_pos (p := fun x => decide (x ≠ []))
      (decide_eq_true (benchLine_ne_nil c0 cols hc0)), List.filter_append]
    congr 1
    rw [List.filter_eq_self.mpr]
    · simp
    · intro l hl
      rw [List.mem_map] at hl
      obtain ⟨r, -, rfl⟩ := hl
      exact decide_eq_true (renderBenchRow_ne_nil r)
  rw [hfilter]
  simp only []
  rw [fields_benchLine _ (by simp) (fun f hf => ⟨(hcols f hf).1, (hcols f hf).2.2⟩)]
  rw [mapM_map_some (parseBenchRow (c0 :: cols).length) renderBenchRow id rows
    (fun r hr => parseBenchRow_render _ r (hrows r hr).1 (by simp [(hrows r hr).2]))]
  simp


/-! the reader on ARBITRARY files, Windows line ends, any padding after the separators -/

theorem mapM_forall2 {α β : Type} (f : α → Option β) (ls : List α) (rs : List β)
    (h : List.Forall₂ (fun l r => f l = some r) ls rs) : ls.mapM f = some rs := by
  induction h with
  | nil => rfl
  | cons hab _ ih => rw [List.mapM_cons, hab, ih]; rfl

/-- (unfolding of `readBenchmark`: the hypothesis `hrows` already says that every data line parses to
its row, so this theorem only states how `readBenchmark` is assembled from `splitOn`, `filter`,
`fields` and `parseBenchRow`; the statement with content is `reader_free_layout` below.)
If `hdr :: ls` are the non-blank lines of the text in file order and every data line `l` parses
(valid stamp, one decimal per data column) to `r`, the reader returns the header's column names and
exactly these rows, one per data line, in file order. -/
theorem readBenchmark_unfold_lines_in_order (text hdr : Str) (ls : List Str) (rs : List (Stamp × List Dec))
    (hlines : (splitOn '\n' text).filter (· ≠ []) = hdr :: ls)
    (hrows : List.Forall₂ (fun l r => parseBenchRow (fields hdr).length l = some r) ls rs) :
    readBenchmark text = some (fields hdr, rs) := by
  unfold readBenchmark
  rw [hlines]
  simp only []
  rw [mapM_forall2 _ ls rs hrows]
  rfl

/-- (unfolding of `readBenchmark`, converse direction) whatever the reader returns has one row per
non-blank data line, in order, each the parse of that line; nothing is dropped, merged or reordered
BY THE ASSEMBLY - what a line parses to is the business of `parseBenchRow_padded` -/
theorem readBenchmark_unfold_returns_every_line (text : Str) (cols : List Str) (rs : List (Stamp × List Dec))
    (h : readBenchmark text = some (cols, rs)) :
    ∃ hdr ls, (splitOn '\n' text).filter (· ≠ []) = hdr :: ls ∧ cols = fields hdr ∧
      ls.mapM (parseBenchRow cols.length) = some rs ∧ rs.length = ls.length := by
  unfold readBenchmark at h
  split at h
  · exact absurd h (by simp)
  · rename_i hdr ls heq
    simp only [Option.map_eq_some_iff] at h
    obtain ⟨rs', hm, hp⟩ := h
    have h1 : fields hdr = cols := (Prod.mk.inj hp).1
    have h2 : rs' = rs := (Prod.mk.inj hp).2
    subst h1 h2
    refine ⟨hdr, ls, heq, rfl, hm, ?_⟩
    have : ∀ (l : List Str) (r : List (Stamp × List Dec)),
        l.mapM (parseBenchRow (fields hdr).length) = some r → r.length = l.length := by
      intro l
      induction l with
      | nil => intro r hr; simp at hr; simp [← hr]
      | cons a l ih =>
        intro r hr
        rw [List.mapM_cons] at hr
        cases ha : parseBenchRow (fields hdr).length a with
        | none => simp [ha] at hr
        | some x =>
          cases hl : l.mapM (parseBenchRow (fields hdr).length) with
          | none => simp [ha, hl] at hr
          | some y =>
            simp [ha, hl] at hr
            subst hr
            simp [ih y hl]
    exact this ls rs' hm

theorem stripInitial_replicate (k : Nat) (f : Str) (h : f.head? ≠ some ' ') :
    stripInitial (List.replicate k ' ' ++ f) = f := by
  induction k with
  | zero => simpa using stripInitial_of_head f h
  | succ k ih =>
    have : stripInitial (' ' :: (List.replicate k ' ' ++ f)) = stripInitial (List.replicate k ' ' ++ f) := by
      simp [stripInitial]
    rw [List.replicate_succ, List.cons_append, this, ih]

/-- the fields of a line are the pieces it was built from, whatever number of blanks follows
each `;` -/
theorem fields_padLine (f : Str) (rest : List (Nat × Str))
    (h : ∀ g ∈ f :: rest.map Prod.snd, ';' ∉ g ∧ g.head? ≠ some ' ') :
    fields (padLine f rest) = f :: rest.map Prod.snd := by
  unfold fields padLine
  rw [splitOn_joinSep _ _ (by simp)]
  · rw [List.map_cons, stripInitial_of_head f (h f (by simp)).2, List.map_map]
    congr 1
    apply List.map_congr_left
    intro p hp
    exact stripInitial_replicate p.1 p.2 (h p.2 (by simp; exact Or.inr ⟨p.1, hp⟩)).2
  · intro g hg
    simp only [List.mem_cons, List.mem_map] at hg
    rcases hg with rfl | ⟨p, hp, rfl⟩
    · exact (h _ (by simp)).1
    · intro hm
      rcases List.mem_append.mp hm with hm | hm
      · exact absurd (List.eq_of_mem_replicate hm) (by decide)
      · exact (h p.2 (by simp; exact Or.inr ⟨p.1, hp⟩)).1 hm

/-- a data line with any padding parses to the row it was rendered from -/
theorem parseBenchRow_padded (n : Nat) (r : Stamp × List Dec) (pads : List Nat)
    (hv : r.1.valid = true) (hw : r.2.length + 1 = n) (hp : pads.length = r.2.length) :
    parseBenchRow n (padLine (fmtStamp r.1) (pads.zip (r.2.map fmtDec))) = some r := by
  have hsnd : (pads.zip (r.2.map fmtDec)).map Prod.snd = r.2.map fmtDec :=
    List.map_snd_zip (by simp [hp])
  unfold parseBenchRow
  rw [fields_padLine _ _ (by rw [hsnd]; exact fun g hg => (rowFields_ok r g hg).1), hsnd]
  simp only [List.length_map]
  rw [if_pos hw, parseStamp_fmtStamp _ hv,
    mapM_map_some parseDecimal fmtDec id r.2 (fun x _ => parseDecimal_fmtDec x)]
  simp

theorem normalizeEol_of_no_cr (t : Str) (h : '\r' ∉ t) : normalizeEol t = t := by
  induction t with
  | nil => rfl
  | cons c t ih =>
    have hc : c ≠ '\r' := fun e => h (by simp [e])
    have ht : '\r' ∉ t := fun m => h (List.mem_cons_of_mem _ m)
    show eolStep c (normalizeEol t) = c :: t
    rw [ih ht]
    simp [eolStep, hc]

theorem normalizeEol_toCRLF (t : Str) (h : '\r' ∉ t) : normalizeEol (toCRLF t) = t := by
  induction t with
  | nil => rfl
  | cons c t ih =>
    have hc : c ≠ '\r' := fun e => h (by simp [e])
    have ht : '\r' ∉ t := fun m => h (List.mem_cons_of_mem _ m)
    by_cases hn : c = '\n'
    · subst hn
      show normalizeEol (if '\n' = '\n' then '\r' :: '\n' :: toCRLF t else '\n' :: toCRLF t) = '\n' :: t
      rw [if_pos rfl]
      show eolStep '\r' (eolStep '\n' (normalizeEol (toCRLF t))) = '\n' :: t
      rw [ih ht]
      simp [eolStep]
    · show normalizeEol (if c = '\n' then '\r' :: '\n' :: toCRLF t else c :: toCRLF t) = c :: t
      rw [if_neg hn]
      show eolStep c (normalizeEol (toCRLF t)) = c :: t
      rw [ih ht]
      simp [eolStep, hc]

/-- **reader_crlf.**  A file stored with Windows line ends reads exactly like the same file with
`\n` line ends (and `readBenchmarkU` is `readBenchmark` on files without `\r`): all reader theorems
carry over. -/
theorem reader_crlf (text : Str) (h : '\r' ∉ text) :
    readBenchmarkU (toCRLF text) = readBenchmark text ∧ readBenchmarkU text = readBenchmark text := by
  unfold readBenchmarkU
  rw [normalizeEol_toCRLF text h, normalizeEol_of_no_cr text h]
  exact ⟨rfl, rfl⟩

/-! the reader on files in FREE LAYOUT: composition of `fields_padLine`, `parseBenchRow_padded`,
`splitOn_joinSep` and `reader_crlf` -/

/-- a data line of a row with `pads[i]` blanks after the i-th separator -/
def paddedRow (r : Stamp × List Dec) (pads : List Nat) : Str :=
  padLine (fmtStamp r.1) (pads.zip (r.2.map fmtDec))

/-- the lines of a file in free layout: `pre` blank lines, the header line, every data line preceded by
its own number of blank lines, and `post` empty pieces at the end (`post = 0`: no final newline,
`post = 1`: the file ends with a newline, `post = 2`: … followed by a blank line, …) -/
def looseLines (pre : Nat) (hdr : Str) (items : List (Nat × Str)) (post : Nat) : List Str :=
  List.replicate pre [] ++ hdr :: (items.flatMap (fun it => List.replicate it.1 [] ++ [it.2]) ++
    List.replicate post [])

theorem filter_replicate_nil (k : Nat) :
    (List.replicate k ([] : Str)).filter (fun x => decide (x ≠ [])) = [] := by
  induction k with
  | zero => rfl
  | succ k ih => simp [List.replicate_succ]

theorem filter_looseLines (pre : Nat) (hdr : Str) (items : List (Nat × Str)) (post : Nat)
    (hh : hdr ≠ []) (hi : ∀ it ∈ items, it.2 ≠ []) :
    (looseLines pre hdr items post).filter (fun x => decide (x ≠ [])) = hdr :: items.map Prod.snd := by
  unfold looseLines
  rw [List.filter_append, filter_replicate_nil, List.nil_append,
    List.filter_cons_of_pos (by simpa using hh), List.filter_append, filter_replicate_nil,
    List.append_nil]
  congr 1
  induction items with
  | nil => rfl
  | cons it rest ih =>
    rw [List.flatMap_cons, List.filter_append, List.filter_append, filter_replicate_nil,
      List.nil_append, List.map_cons, ih (fun x hx => hi x (List.mem_cons_of_mem _ hx))]
    have := hi it (List.mem_cons_self ..)
    simp [this]

theorem notin_padLine (x : Char) (f : Str) (rest : List (Nat × Str)) (hx : x ≠ ';') (hs : x ≠ ' ')
    (h : ∀ g ∈ f :: rest.map Prod.snd, x ∉ g) : x ∉ padLine f rest := by
  intro hm
  unfold padLine at hm
  rcases mem_joinSep _ _ _ hm with hm | ⟨g, hg, hc⟩
  · exact hx hm
  · simp only [List.mem_cons, List.mem_map] at hg
    rcases hg with rfl | ⟨p, hp, rfl⟩
    · exact h _ (by simp) hc
    · rcases List.mem_append.mp hc with hc | hc
      · exact hs (List.eq_of_mem_replicate hc)
      · exact h p.2 (by simp; exact Or.inr ⟨p.1, hp⟩) hc

theorem notin_looseLines_join (x : Char) (pre : Nat) (hdr : Str) (items : List (Nat × Str)) (post : Nat)
    (hx : x ≠ '\n') (hh : x ∉ hdr) (hi : ∀ it ∈ items, x ∉ it.2) :
    x ∉ joinSep '\n' (looseLines pre hdr items post) := by
  intro hm
  rcases mem_joinSep _ _ _ hm with hm | ⟨l, hl, hc⟩
  · exact hx hm
  · unfold looseLines at hl
    simp only [List.mem_append, List.mem_cons, List.mem_flatMap, List.not_mem_nil, or_false] at hl
    rcases hl with hl | rfl | ⟨it, hit, hl | rfl⟩ | hl
    · rw [List.eq_of_mem_replicate hl] at hc; simp at hc
    · exact hh hc
    · rw [List.eq_of_mem_replicate hl] at hc; simp at hc
    · exact hi it hit hc
    · rw [List.eq_of_mem_replicate hl] at hc; simp at hc

/-- no character other than a digit, `-`, `.` or a letter of `nan` / `inf` occurs in a `%f` text -/
theorem notin_fmtDec (x : Char) (d : Dec) (hd : x.isDigit = false)
    (hx : x ≠ '-' ∧ x ≠ '.' ∧ x ≠ 'n' ∧ x ≠ 'a' ∧ x ≠ 'i' ∧ x ≠ 'f') : x ∉ fmtDec d := by
  obtain ⟨h1, h2, h3, h4, h5, h6⟩ := hx
  have hdig : ∀ c : Char, c.isDigit = true → x ≠ c := fun c hc e => by rw [e, hc] at hd; cases hd
  intro hc
  cases d with
  | nan => simp [fmtDec] at hc; rcases hc with rfl | rfl | rfl <;> simp_all
  | inf s =>
    cases s <;> simp [fmtDec] at hc
    · rcases hc with rfl | rfl | rfl <;> simp_all
    · rcases hc with rfl | rfl | rfl | rfl <;> simp_all
  | fin s m p =>
    rw [fmtDec_fin, bodyOf, List.mem_append, List.mem_append] at hc
    rcases hc with hc | hc | hc
    · cases s <;> simp at hc; exact h1 hc
    · exact hdig x (natDigits_all_digit _ x hc) rfl
    · by_cases hp : p = 0
      · simp [hp] at hc
      · simp only [hp, if_false, List.mem_cons] at hc
        rcases hc with hc | hc
        · exact h2 hc
        · exact hdig x (fixedDigits_all_digit _ _ x hc) rfl

theorem notin_fmtStamp (x : Char) (s : Stamp) (hd : x.isDigit = false) (hx : x ≠ '-') :
    x ∉ fmtStamp s := by
  have hdig : ∀ w n, x ∉ fixedDigits w n := fun w n hm => by
    rw [fixedDigits_all_digit w n x hm] at hd; cases hd
  intro hc
  unfold fmtStamp at hc
  simp only [List.mem_append, List.mem_cons] at hc
  rcases hc with hc | hc | hc | hc | hc | hc | hc
  · exact hdig _ _ hc
  · exact hx hc
  · exact hdig _ _ hc
  · exact hx hc
  · exact hdig _ _ hc
  · exact hx hc
  · exact hdig _ _ hc

theorem notin_paddedRow (x : Char) (r : Stamp × List Dec) (pads : List Nat) (hd : x.isDigit = false)
    (hx : x ≠ '-' ∧ x ≠ '.' ∧ x ≠ 'n' ∧ x ≠ 'a' ∧ x ≠ 'i' ∧ x ≠ 'f') (h1 : x ≠ ';') (h2 : x ≠ ' ') :
    x ∉ paddedRow r pads := by
  unfold paddedRow
  apply notin_padLine x _ _ h1 h2
  intro g hg
  simp only [List.mem_cons, List.mem_map] at hg
  rcases hg with rfl | ⟨p, hp, rfl⟩
  · exact notin_fmtStamp x _ hd hx.1
  · have := (List.of_mem_zip hp).2
    rw [List.mem_map] at this
    obtain ⟨d, -, hd'⟩ := this
    rw [← hd']
    exact notin_fmtDec x d hd hx

theorem paddedRow_ne_nil (r : Stamp × List Dec) (pads : List Nat) : paddedRow r pads ≠ [] := by
  unfold paddedRow padLine
  exact joinSep_ne_nil _ _ _ (fmtStamp_ne_nil r.1)

/-- **reader_free_layout** (the reader clause, composed).  Take ANY column names (first one non-empty,
none containing `;`, a newline or a carriage return, none starting with a blank), ANY rows (valid
time stamp, one decimal per data column) and write them in FREE LAYOUT: any number of blanks after
every `;` of the header (`cpads`) and of every data line (each row has its own `pads`), any number of
blank lines before the header and before every data line, and no / one / several line ends after the
last row (`post`).  Then the reader returns exactly the column names and, for every row, in file
order, its time stamp (the index) and its values - and the same when the file is stored with Windows
line ends. -/
theorem reader_free_layout (c0 : Str) (cols : List Str) (cpads : List Nat)
    (rows : List (Nat × (Stamp × List Dec) × List Nat)) (pre post : Nat)
    (hc0 : c0 ≠ [])
    (hcols : ∀ f ∈ c0 :: cols, ';' ∉ f ∧ '\n' ∉ f ∧ '\r' ∉ f ∧ f.head? ≠ some ' ')
    (hcp : cpads.length = cols.length)
    (hrows : ∀ x ∈ rows, x.2.1.1.valid = true ∧ x.2.1.2.length = cols.length ∧
      x.2.2.length = cols.length) :
    readBenchmark (joinSep '\n' (looseLines pre (padLine c0 (cpads.zip cols))
        (rows.map fun x => (x.1, paddedRow x.2.1 x.2.2)) post)) =
      some (c0 :: cols, rows.map (·.2.1)) ∧
    readBenchmarkU (toCRLF (joinSep '\n' (looseLines pre (padLine c0 (cpads.zip cols))
        (rows.map fun x => (x.1, paddedRow x.2.1 x.2.2)) post))) =
      some (c0 :: cols, rows.map (·.2.1)) := by
  have hsnd : (cpads.zip cols).map Prod.snd = cols := List.map_snd_zip (by simp [hcp])
  have hhdr_ne : padLine c0 (cpads.zip cols) ≠ [] := by
    unfold padLine; exact joinSep_ne_nil _ _ _ hc0
  have hitems_ne : ∀ it ∈ rows.map (fun x => (x.1, paddedRow x.2.1 x.2.2)), it.2 ≠ [] := by
    intro it hit
    obtain ⟨x, -, rfl⟩ := List.mem_map.mp hit
    exact paddedRow_ne_nil _ _
  have hkey : readBenchmark (joinSep '\n' (looseLines pre (padLine c0 (cpads.zip cols))
        (rows.map fun x => (x.1, paddedRow x.2.1 x.2.2)) post)) =
      some (c0 :: cols, rows.map (·.2.1)) := by
    unfold readBenchmark
    rw [splitOn_joinSep]
    · rw [filter_looseLines _ _ _ _ hhdr_ne hitems_ne]
      simp only []
      rw [fields_padLine _ _ (by rw [hsnd]; exact fun g hg => ⟨(hcols g hg).1, (hcols g hg).2.2.2⟩),
        hsnd, List.map_map]
      rw [mapM_map_some (parseBenchRow (c0 :: cols).length)
        (Prod.snd ∘ fun x : Nat × (Stamp × List Dec) × List Nat => (x.1, paddedRow x.2.1 x.2.2))
        (fun x => x.2.1) rows
        (fun x hx => parseBenchRow_padded _ x.2.1 x.2.2 (hrows x hx).1
          (by simp [(hrows x hx).2.1]) (by rw [(hrows x hx).2.2, (hrows x hx).2.1]))]
      rfl
    · unfold looseLines; simp
    · intro l hl
      unfold looseLines at hl
      simp only [List.mem_append, List.mem_cons, List.mem_flatMap, List.not_mem_nil, or_false] at hl
      rcases hl with hl | rfl | ⟨it, hit, hl | rfl⟩ | hl
      · rw [List.eq_of_mem_replicate hl]; simp
      · apply notin_padLine _ _ _ (by decide) (by decide)
        rw [hsnd]; exact fun g hg => (hcols g hg).2.1
      · rw [List.eq_of_mem_replicate hl]; simp
      · obtain ⟨x, -, rfl⟩ := List.mem_map.mp hit
        exact notin_paddedRow _ _ _ (by decide) (by decide) (by decide) (by decide)
      · rw [List.eq_of_mem_replicate hl]; simp
  refine ⟨hkey, ?_⟩
  rw [(reader_crlf _ ?_).1, hkey]
  apply notin_looseLines_join _ _ _ _ _ (by decide)
  · apply notin_padLine _ _ _ (by decide) (by decide)
    rw [hsnd]; exact fun g hg => (hcols g hg).2.2.1
  · intro it hit
    obtain ⟨x, -, rfl⟩ := List.mem_map.mp hit
    exact notin_paddedRow _ _ _ (by decide) (by decide) (by decide) (by decide)

/-- non-vacuity of `reader_free_layout`: a blank line before the header, three blanks after the header's
separator, a blank line between the rows, different paddings, final newline -/
example : joinSep '\n' (looseLines 1 (padLine "t".toList ([3].zip ["a".toList]))
      [(0, "2001-03-04-05;  1.5".toList), (1, "2001-03-04-04;-2".toList)] 1) =
    "\nt;   a\n2001-03-04-05;  1.5\n\n2001-03-04-04;-2\n".toList := by decide
example : paddedRow ((⟨2001, 3, 4, 5⟩ : Stamp), [Dec.fin false 15 1]) [2] = "2001-03-04-05;  1.5".toList := by
  simp [paddedRow, padLine, fmtStamp, fmtDec, natDigits, fixedDigits, joinSep, digitChar]
example : readBenchmarkU "\nt;   a\n2001-03-04-05;  1.5\n\n2001-03-04-04;-2\n".toList =
    some (["t".toList, "a".toList],
      [(⟨2001, 3, 4, 5⟩, [.fin false 15 1]), (⟨2001, 3, 4, 4⟩, [.fin true 2 0])]) := by decide

/-! design conditions argument of `plot_2D_contour` (defect #13) -/

/-- (definitional: `⟨rfl, rfl, rfl⟩`, three of the four defining equations of the model function
`designPts`, with the default `dflt` a free variable - NOT a statement about how the default is
computed; that the real function scatters exactly the supplied array is the correspondence check)
an array argument is passed on point for point, unchanged, `True` gives the default, `None` nothing. -/
theorem design_conditions_as_supplied_def {α : Type} (dflt pts : List (α × α)) :
    designPts dflt (.arr pts) = some pts ∧ designPts dflt (.flag true) = some dflt ∧
      designPts dflt (DCArg.none) = Option.none := ⟨rfl, rfl, rfl⟩

/-- COUNTER-MODEL theorem (about `designPtsOld`, the code before the repair; no driver op runs it).
Defect #13: under the old truth-value test every non-empty array argument was an error -/
theorem design_conditions_old_counterexample :
    designPtsOld ([] : List (Nat × Nat)) (.arr [(1, 2)]) = .error () := rfl

/-- COUNTER-MODEL: … for EVERY non-empty array and every default -/
theorem design_conditions_old_every_nonempty_array {α : Type} (dflt pts : List (α × α)) (h : pts ≠ []) :
    designPtsOld dflt (.arr pts) = .error () := by
  cases pts with
  | nil => exact absurd rfl h
  | cons p t => simp [designPtsOld]; omega

/-! non-vacuity -/

example : parseText (saveText ['x'] [[.fin false 1 2, .fin true 3 2000000], [.nan, .inf true]]) =
    some (['x'], [[.fin false 500000 6, .fin true 2 6], [.nan, .inf true]]) := by
  have := parse_save ['x'] [[.fin false 1 2, .fin true 3 2000000], [.nan, .inf true]]
    (by simp) (by simp)
  simpa [roundDec, roundHalfEven] using this

-- exact ties at the 7th decimal go to the even neighbour: 0.0000005 → 0, 0.0000015 → 2
example : roundHalfEven (1 * 10 ^ 6) 2000000 = 0 ∧ roundHalfEven (3 * 10 ^ 6) 2000000 = 2 := by
  constructor <;> simp [roundHalfEven]

example : (splitext "dir.d/.hidden".toList).2 = [] ∧ (splitext "a/b.c.txt".toList).2 = ".txt".toList := by
  constructor <;> decide

-- the exact value behind a bit pattern: 0.5 = 2^52 / 2^53, -2.0 = -2^52 / 2^51, 2^53 = (2^52 · 2) / 1
example : valOfBits 4602678819172646912 = .fin false (2 ^ 52) (2 ^ 53) ∧
    valOfBits 13835058055282163712 = .fin true (2 ^ 52) (2 ^ 51) ∧
    valOfBits 4845873199050653696 = .fin false (2 ^ 52 * 2 ^ 1) 1 := by
  refine ⟨?_, ?_, ?_⟩ <;> decide

example : closePolyline true [(1, 2), (3, 4)] = some [(2, 1), (4, 3), (2, 1)] := rfl

example : (⟨1996, 2, 29, 23⟩ : Stamp).valid = true := by decide

-- Windows line ends, three blanks after a separator, a blank line, no final newline
example : readBenchmarkU "t; a\r\n2001-03-04-05;   1.5\r\n\r\n2001-03-04-04;-2".toList =
    some (["t".toList, "a".toList],
      [(⟨2001, 3, 4, 5⟩, [.fin false 15 1]), (⟨2001, 3, 4, 4⟩, [.fin true 2 0])]) := by decide

example : toCRLF "a\nb\n".toList = "a\r\nb\r\n".toList ∧
    normalizeEol "a\r\nb\r\n".toList = "a\nb\n".toList := by decide

example : padLine "x".toList [(2, "y".toList), (0, "z".toList)] = "x;  y;z".toList := by decide

end VirVerif.C20
