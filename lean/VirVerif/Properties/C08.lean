/-
C08 — A conditional distribution is its template evaluated at the dependence values.

  "A conditional distribution evaluated at conditioning value(s) g behaves exactly like its
   template family with every dependent parameter set to its dependence function's value at g
   and every fixed parameter at its fixed value, for pdf, cdf, icdf and sampling. Evaluating
   many (x, g) pairs in one vectorised call gives the same numbers as evaluating them one at a
   time, and a dependence function that takes another dependence function as parameter
   evaluates it at the same g."

The model (`Model/Cond.lean`) is small and these theorems are close to its definition — the
weight of this property is in the correspondence: the harness compares the real
ConditionalDistribution (every shipped family × every fixed/dependent partition × random
dependence functions × scalar/vector/broadcast `given`) with *constructed* template instances.

Clause → theorem
  template at the dependence values, parameter order kept        cond_eq_template, paramValues_names
  dependent parameter = its function at g; fixed = fixed, ∀ g    paramValues_dep, fixed_param_const
  vectorised = pointwise (equal lengths; scalar g broadcast)     vector_eq_pointwise, broadcast_eq_pointwise
  chained dependence function(s) evaluated at the same g         chained_same_given, ratio_same_given
  keyword-bound dependence functions: call succeeds iff the bound
  parameters are the trailing ones, and then every free parameter
  receives its own value                                         bindCall_ok_iff_suffix, bindCall_positions
-/
import VirVerif.Model.Cond
import Mathlib.Data.List.Basic
import Mathlib.Tactic.Linarith

namespace VirVerif.C08
open VirVerif

variable {α β : Type} [Add α] [Mul α] [Div α] [OfNat α 1]

/-- **template at the dependence values** -/
theorem cond_eq_template (template : List (String × α) → α → β) (specs : List (String × ParSpec α))
    (x g : α) : condEval template specs x g = template (paramValues specs g) x := rfl

/-- the keyword arguments are the template's parameters, in template order -/
theorem paramValues_names (specs : List (String × ParSpec α)) (g : α) :
    (paramValues specs g).map Prod.fst = specs.map Prod.fst := by
  simp only [paramValues, List.map_map]
  apply List.map_congr_left
  intro ⟨n, s⟩ _
  cases s <;> rfl

/-- a dependent parameter is its dependence function's value at `g` -/
theorem paramValues_dep (specs : List (String × ParSpec α)) (g : α) (k : Nat) (name : String)
    (d : DepFn α) (h : specs[k]? = some (name, .dep d)) :
    (paramValues specs g)[k]? = some (name, d.eval g) := by
  simp [paramValues, h]

/-- **a fixed parameter has the same value for every conditioning value** -/
theorem fixed_param_const (specs : List (String × ParSpec α)) (k : Nat) (name : String) (v : α)
    (h : specs[k]? = some (name, .fixed v)) (g g' : α) :
    (paramValues specs g)[k]? = some (name, v) ∧ (paramValues specs g')[k]? = some (name, v) := by
  simp [paramValues, h]

/-- **vectorised = pointwise** -/
theorem vector_eq_pointwise (template : List (String × α) → α → β) (specs : List (String × ParSpec α))
    (xs gs : List α) (j : Nat) (hx : j < xs.length) (hg : j < gs.length) :
    (condEvalVec template specs xs gs)[j]? = some (condEval template specs xs[j] gs[j]) := by
  simp [condEvalVec, List.getElem?_zipWith, List.getElem?_eq_getElem hx, List.getElem?_eq_getElem hg]

/-- scalar `given` broadcast over a vector of `x` -/
theorem broadcast_eq_pointwise (template : List (String × α) → α → β)
    (specs : List (String × ParSpec α)) (xs : List α) (g : α) :
    condEvalVec template specs xs (List.replicate xs.length g) = xs.map fun x => condEval template specs x g := by
  induction xs with
  | nil => rfl
  | cons x xs ih =>
    simp only [condEvalVec, List.length_cons, List.replicate_succ, List.zipWith_cons_cons, List.map_cons] at ih ⊢
    rw [ih]

theorem vector_length (template : List (String × α) → α → β) (specs : List (String × ParSpec α))
    (xs gs : List α) (h : xs.length = gs.length) :
    (condEvalVec template specs xs gs).length = xs.length := by
  simp [condEvalVec, h]

/-- **a chained dependence function evaluates its inner function at the same g** -/
theorem chained_same_given (a b : α) (d : DepFn α) (g : α) :
    (DepFn.chained a b d).eval g = (a + b * g) / d.eval g := rfl

/-- … also with two dependence functions as parameters: both are evaluated at the same g, each in
its own place -/
theorem ratio_same_given (a : α) (n d : DepFn α) (g : α) :
    (DepFn.ratio a n d).eval g = (a + n.eval g) / d.eval g := rfl

/-! ### keyword binding -/

/-- the call succeeds iff no bound parameter is among the leading `#free` parameters, i.e. the
bound parameters are the trailing ones -/
theorem bindCall_ok_iff_suffix (names bound : List String) :
    (∃ r, bindCall names bound = .ok r) ↔
      ∀ n ∈ names.take ((names.filter fun n => !bound.contains n).length), ¬ bound.contains n = true := by
  unfold bindCall
  simp only
  split
  · rename_i h
    constructor
    · intro ⟨r, hr⟩; cases hr
    · intro hall
      rw [List.any_eq_true] at h
      obtain ⟨n, hn, hb⟩ := h
      exact absurd hb (hall n hn)
  · rename_i h
    constructor
    · intro _ n hn hb
      apply h
      rw [List.any_eq_true]
      exact ⟨n, hn, hb⟩
    · intro _; exact ⟨_, rfl⟩

/-- when the call succeeds, the `k`-th free parameter (in declaration order) receives the
`k`-th positional value -/
theorem bindCall_positions (names bound : List String) (r : List (String × ArgSource))
    (h : bindCall names bound = .ok r) (k : Nat)
    (hk : k < (names.filter fun n => !bound.contains n).length) (hk' : k < names.length) :
    r[k]? = some (names[k], .positional k) := by
  unfold bindCall at h
  simp only at h
  generalize (names.filter fun n => !bound.contains n).length = m at h hk
  split at h
  · cases h
  · cases h
    have hk2 : k < (names.take m).length := by
      rw [List.length_take]; omega
    rw [List.getElem?_append_left (by rw [List.length_map, List.length_zipIdx]; exact hk2)]
    rw [List.getElem?_map, List.getElem?_zipIdx, List.getElem?_take]
    simp [hk, List.getElem?_eq_getElem hk']

/-! ### non-vacuity -/
example : bindCall ["a", "b", "d"] ["d"] =
    .ok [("a", .positional 0), ("b", .positional 1), ("d", .boundDep)] := by decide
example : bindCall ["d", "a", "b"] ["d"] = .error "multipleValues" := by decide
example : (paramValues [("s", ParSpec.dep (.affine 1 2)), ("l", .fixed 5)] (3 : Int)) = [("s", 7), ("l", 5)] := by
  decide

end VirVerif.C08
