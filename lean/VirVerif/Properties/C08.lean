/-
C08 — A conditional distribution is its template evaluated at the dependence values.

  "A conditional distribution evaluated at conditioning value(s) g behaves exactly like its
   template family with every dependent parameter set to its dependence function's value at g
   and every fixed parameter at its fixed value, for pdf, cdf, icdf and sampling. Evaluating
   many (x, g) pairs in one vectorised call gives the same numbers as evaluating them one at a
   time, and a dependence function that takes another dependence function as parameter
   evaluates it at the same g."

The model (`Model/Cond.lean`) is small and these theorems are close to its definition — the
weight of this property is in the correspondence: the harness compares the real
ConditionalDistribution (every shipped family × every fixed/dependent partition × random
dependence functions × scalar/vector/broadcast `given`) with *constructed* template instances.

WHAT THE DRIVER RUNS. The `cond` op (Drv/C08.lean) evaluates `ratCondVec m spec xs gs` and the
shared leaf functions `cdfOf`/`qOf`/`pdfOf` of Drv/Hier.lean evaluate `ratCond m spec x g` for a
conditioned dimension; both are `condEvalVec` / `condEval` / `paramValues` of `Model/Cond.lean`
applied to the template `ratTemplate m` (the `RatDist` double called with keyword arguments) and the
specs `ratParSpecs spec` (token `c a` = FIXED parameter, anything else = dependence function). So the
generic theorems below are about executed code, and the `ratCond*` theorems are the bridge to the
closed form `m (paramAt s (some g)) (paramAt l (some g)) x` used by the theorems of C01/C02/C06/C07.

Clause → theorem
  template at the dependence values, parameter order kept        ratCond_eq_template_at_dependence_values,
                                                                 ratParamValues, paramValues_names
                                                                 (cond_eq_template_unfold: definition only)
  dependent parameter = its function at g; fixed = fixed, ∀ g    paramValues_dep, fixed_param_const,
                                                                 fixed_param_indep_of_given, ratCond_fixed_s,
                                                                 ratCond_fixed_l
  vectorised = pointwise (equal lengths; scalar g broadcast)     ratCondVec_pointwise, ratCondVec_eq_one_at_a_time,
                                                                 ratCondVec_broadcast, ratCondVec_length,
                                                                 ratCondVec_all_some (generic: vector_eq_pointwise,
                                                                 broadcast_eq_pointwise, vector_length — these
                                                                 three are facts of `List.zipWith`, true for any
                                                                 pointwise function; the content is that the
                                                                 driver's loop IS this `zipWith`)
  chained dependence function(s) evaluated at the same g         evalLog_value, inner_calls_same_given,
                                                                 inner_calls_all (every depth, by induction);
                                                                 chained_same_given_unfold, ratio_same_given_unfold
                                                                 (one-step unfoldings of `DepFn.eval`)
  keyword-bound dependence functions: call succeeds iff the bound
  parameters are the trailing ones, and then every free parameter
  receives its own value                                         bindCall_ok_iff_suffix, bindCall_positions
  "defaults": parameters come from the callable's signature,
  a parameter without default is 1                               defaultParams_names, defaultParams_default,
                                                                 defaultParams_implicit_one
  explicit-parameter call: stored values iff none given, the given
  ones iff their number is the number of free parameters,
  otherwise an error                                             callMode_stored_iff, callMode_explicit_iff,
                                                                 callMode_error_iff
  one dependence function used as a parameter AND inside another
  parameter's dependence function: one value for both            shared_inner_same_value, ratCond_shared_inner
  sampling: size handed to the template's sampler is (n, k) for a
  vector `given` of length k (every parameter broadcast first),
  n for a scalar `given` with scalar dependence values           cond_sample_shape_vector, cond_sample_shape_scalar
  (that the SAMPLE equals the template's sample at the broadcast values for the same seed is
  observed by the harness against every shipped family, not proven: the samplers are scipy's)
-/
import VirVerif.Model.Cond
import VirVerif.Model.Sampling
import Mathlib.Data.List.Basic
import Mathlib.Tactic.Linarith

namespace VirVerif.C08
open VirVerif

variable {α β : Type} [Add α] [Mul α] [Div α] [OfNat α 1]

/-- definition of `condEval`, unfolded (no content beyond the definition; the substantive statement
for the executed double is `ratCond_eq_template_at_dependence_values`) -/
theorem cond_eq_template_unfold (template : List (String × α) → α → β) (specs : List (String × ParSpec α))
    (x g : α) : condEval template specs x g = template (paramValues specs g) x := rfl

/-- the keyword arguments are the template's parameters, in template order -/
theorem paramValues_names (specs : List (String × ParSpec α)) (g : α) :
    (paramValues specs g).map Prod.fst = specs.map Prod.fst := by
  simp only [paramValues, List.map_map]
  apply List.map_congr_left
  intro ⟨n, s⟩ _
  cases s <;> rfl

/-- a dependent parameter is its dependence function's value at `g` -/
theorem paramValues_dep (specs : List (String × ParSpec α)) (g : α) (k : Nat) (name : String)
    (d : DepFn α) (h : specs[k]? = some (name, .dep d)) :
    (paramValues specs g)[k]? = some (name, d.eval g) := by
  simp [paramValues, h]

/-- **a fixed parameter has its fixed value at every conditioning value** -/
theorem fixed_param_const (specs : List (String × ParSpec α)) (k : Nat) (name : String) (v : α)
    (h : specs[k]? = some (name, .fixed v)) (g : α) :
    (paramValues specs g)[k]? = some (name, v) := by
  simp [paramValues, h]

/-- … hence the same keyword argument for any two conditioning values -/
theorem fixed_param_indep_of_given (specs : List (String × ParSpec α)) (k : Nat) (name : String) (v : α)
    (h : specs[k]? = some (name, .fixed v)) (g g' : α) :
    (paramValues specs g)[k]? = (paramValues specs g')[k]? := by
  rw [fixed_param_const specs k name v h g, fixed_param_const specs k name v h g']

/-! ### the executed conditional double (bridge) -/

/-- the keyword arguments the conditional rational double hands to its template at `g`: `s` and `l`,
in this order, each its description's value at `g` (a `c a` description is a fixed parameter: `a`) -/
theorem ratParamValues (spec : RatSpec α) (g : α) :
    paramValues (ratParSpecs spec) g = [("s", spec.s.eval g), ("l", spec.l.eval g)] := by
  obtain ⟨s, l⟩ := spec
  cases s <;> cases l <;> rfl

/-- **template at the dependence values — for the function the driver runs.** `ratCond` (= `condEval`
on the `RatDist` template) never fails and is the template's method `m` with `s`, `l` set to their
dependence values at `g`: exactly the closed form `m (paramAt s (some g)) (paramAt l (some g)) x`
that `Drv/Hier.lean` used to compute directly and that the `Q`/`F`/`f` of C01, C02, C06, C07 denote. -/
theorem ratCond_eq_template_at_dependence_values (m : α → α → α → β) (spec : RatSpec α) (x g : α) :
    ratCond m spec x g = some (m (paramAt spec.s (some g)) (paramAt spec.l (some g)) x) := by
  unfold ratCond condEval
  rw [ratParamValues]
  rfl

/-- a fixed `s` (description `c a`) is `a` at every conditioning value -/
theorem ratCond_fixed_s (m : α → α → α → β) (a : α) (l : DepFn α) (x g : α) :
    ratCond m ⟨.const a, l⟩ x g = some (m a (l.eval g) x) :=
  ratCond_eq_template_at_dependence_values m ⟨.const a, l⟩ x g

/-- a fixed `l` is `a` at every conditioning value -/
theorem ratCond_fixed_l (m : α → α → α → β) (a : α) (s : DepFn α) (x g : α) :
    ratCond m ⟨s, .const a⟩ x g = some (m (s.eval g) a x) :=
  ratCond_eq_template_at_dependence_values m ⟨s, .const a⟩ x g

/-- **the driver's vectorised call, pair by pair**: entry `j` is the scalar call at `(x_j, g_j)` -/
theorem ratCondVec_pointwise (m : α → α → α → β) (spec : RatSpec α) (xs gs : List α) (j : Nat)
    (hx : j < xs.length) (hg : j < gs.length) :
    (ratCondVec m spec xs gs)[j]? = some (ratCond m spec xs[j] gs[j]) := by
  simp [ratCondVec, ratCond, condEvalVec, List.getElem?_zipWith, List.getElem?_eq_getElem hx,
    List.getElem?_eq_getElem hg]

/-- **vectorised = one at a time, in closed form**: the whole answer of the `cond` op is the list of
template values at the dependence values of each pair -/
theorem ratCondVec_eq_one_at_a_time (m : α → α → α → β) (spec : RatSpec α) (xs gs : List α) :
    ratCondVec m spec xs gs =
      List.zipWith (fun x g => some (m (paramAt spec.s (some g)) (paramAt spec.l (some g)) x)) xs gs := by
  unfold ratCondVec condEvalVec
  congr 1
  funext x g
  exact ratCond_eq_template_at_dependence_values m spec x g

/-- no entry of the vectorised answer is a failed template call (the driver's `getD nan` is never
taken) -/
theorem ratCondVec_all_some (m : α → α → α → β) (spec : RatSpec α) (xs gs : List α) :
    ∀ v ∈ ratCondVec m spec xs gs, v.isSome = true := by
  rw [ratCondVec_eq_one_at_a_time]
  intro v hv
  obtain ⟨i, h1, h2⟩ := List.getElem_of_mem hv
  rw [List.getElem_zipWith] at h2
  rw [← h2]; rfl

/-- a scalar `given` broadcast over a vector of `x` -/
theorem ratCondVec_broadcast (m : α → α → α → β) (spec : RatSpec α) (xs : List α) (g : α) :
    ratCondVec m spec xs (List.replicate xs.length g) = xs.map fun x => ratCond m spec x g := by
  unfold ratCondVec condEvalVec ratCond
  induction xs with
  | nil => rfl
  | cons x xs ih =>
    simp only [List.length_cons, List.replicate_succ, List.zipWith_cons_cons, List.map_cons] at ih ⊢
    rw [ih]

/-- one value per pair -/
theorem ratCondVec_length (m : α → α → α → β) (spec : RatSpec α) (xs gs : List α)
    (h : xs.length = gs.length) : (ratCondVec m spec xs gs).length = xs.length := by
  simp [ratCondVec, condEvalVec, h]

/-! ### generic (any template, any specs) -/

/-- **vectorised = pointwise** -/
theorem vector_eq_pointwise (template : List (String × α) → α → β) (specs : List (String × ParSpec α))
    (xs gs : List α) (j : Nat) (hx : j < xs.length) (hg : j < gs.length) :
    (condEvalVec template specs xs gs)[j]? = some (condEval template specs xs[j] gs[j]) := by
  simp [condEvalVec, List.getElem?_zipWith, List.getElem?_eq_getElem hx, List.getElem?_eq_getElem hg]

/-- scalar `given` broadcast over a vector of `x` -/
theorem broadcast_eq_pointwise (template : List (String × α) → α → β)
    (specs : List (String × ParSpec α)) (xs : List α) (g : α) :
    condEvalVec template specs xs (List.replicate xs.length g) = xs.map fun x => condEval template specs x g := by
  induction xs with
  | nil => rfl
  | cons x xs ih =>
    simp only [condEvalVec, List.length_cons, List.replicate_succ, List.zipWith_cons_cons, List.map_cons] at ih ⊢
    rw [ih]

theorem vector_length (template : List (String × α) → α → β) (specs : List (String × ParSpec α))
    (xs gs : List α) (h : xs.length = gs.length) :
    (condEvalVec template specs xs gs).length = xs.length := by
  simp [condEvalVec, h]

/-- one-step unfolding of `DepFn.eval` (the function the driver runs) for a chained function -/
theorem chained_same_given_unfold (a b : α) (d : DepFn α) (g : α) :
    (DepFn.chained a b d).eval g = (a + b * g) / d.eval g := rfl

/-- one-step unfolding of `DepFn.eval` for a function with two inner dependence functions -/
theorem ratio_same_given_unfold (a : α) (n d : DepFn α) (g : α) :
    (DepFn.ratio a n d).eval g = (a + n.eval g) / d.eval g := rfl

/-- the instrumented evaluator computes the value of `DepFn.eval` (which the driver runs) … -/
theorem evalLog_value (d : DepFn α) (g : α) : (d.evalLog g).1 = d.eval g := by
  induction d with
  | const a => rfl
  | affine a b => rfl
  | asym a b c => rfl
  | chained a b d ih => simp only [DepFn.evalLog, DepFn.eval, ih]
  | ratio a n d ihn ihd => simp only [DepFn.evalLog, DepFn.eval, ihn, ihd]

/-- **… and every call it makes to an inner dependence function, at any depth of nesting, is at the
same conditioning value `g`** -/
theorem inner_calls_same_given (d : DepFn α) (g : α) : ∀ p ∈ (d.evalLog g).2, p.2 = g := by
  induction d with
  | const a => intro p hp; cases hp
  | affine a b => intro p hp; cases hp
  | asym a b c => intro p hp; cases hp
  | chained a b d ih =>
    intro p hp
    simp only [DepFn.evalLog, List.mem_cons] at hp
    rcases hp with rfl | hp
    · rfl
    · exact ih p hp
  | ratio a n d ihn ihd =>
    intro p hp
    simp only [DepFn.evalLog, List.mem_cons, List.mem_append] at hp
    rcases hp with (rfl | hp) | rfl | hp
    · rfl
    · exact ihn p hp
    · rfl
    · exact ihd p hp

/-- the calls are exactly the inner functions (every strict sub-function, each once, in order): none
is skipped -/
theorem inner_calls_all (d : DepFn α) (g : α) : (d.evalLog g).2.map Prod.fst = d.inner := by
  induction d with
  | const a => rfl
  | affine a b => rfl
  | asym a b c => rfl
  | chained a b d ih => simp only [DepFn.evalLog, DepFn.inner, List.map_cons, ih]
  | ratio a n d ihn ihd =>
    simp only [DepFn.evalLog, DepFn.inner, List.map_cons, List.map_append, ihn, ihd]

/-! ### keyword binding -/

/-- the call succeeds iff no bound parameter is among the leading `#free` parameters, i.e. the
bound parameters are the trailing ones -/
theorem bindCall_ok_iff_suffix (names bound : List String) :
    (∃ r, bindCall names bound = .ok r) ↔
      ∀ n ∈ names.take ((names.filter fun n => !bound.contains n).length), ¬ bound.contains n = true := by
  unfold bindCall
  simp only
  split
  · rename_i h
    constructor
    · intro ⟨r, hr⟩; cases hr
    · intro hall
      rw [List.any_eq_true] at h
      obtain ⟨n, hn, hb⟩ := h
      exact absurd hb (hall n hn)
  · rename_i h
    constructor
    · intro _ n hn hb
      apply h
      rw [List.any_eq_true]
      exact ⟨n, hn, hb⟩
    · intro _; exact ⟨_, rfl⟩

/-- when the call succeeds, the `k`-th free parameter (in declaration order) receives the
`k`-th positional value -/
theorem bindCall_positions (names bound : List String) (r : List (String × ArgSource))
    (h : bindCall names bound = .ok r) (k : Nat)
    (hk : k < (names.filter fun n => !bound.contains n).length) (hk' : k < names.length) :
    r[k]? = some (names[k], .positional k) := by
  unfold bindCall at h
  simp only at h
  generalize (names.filter fun n => !bound.contains n).length = m at h hk
  split at h
  · cases h
  · cases h
    have hk2 : k < (names.take m).length := by
      rw [List.length_take]; omega
    rw [List.getElem?_append_left (by rw [List.length_map, List.length_zipIdx]; exact hk2)]
    rw [List.getElem?_map, List.getElem?_zipIdx, List.getElem?_take]
    simp [hk, List.getElem?_eq_getElem hk']


/-! ### signature defaults, explicit-parameter call -/

/-- the parameter names are the signature's names after `x`, in order -/
theorem defaultParams_names {γ : Type} [OfNat γ 1] (sig : List (String × Option γ)) :
    (defaultParams sig).map Prod.fst = sig.map Prod.fst := by
  simp only [defaultParams, List.map_map]
  apply List.map_congr_left
  intro ⟨n, d⟩ _
  rfl

/-- **a parameter with a signature default has that value** -/
theorem defaultParams_default {γ : Type} [OfNat γ 1] (sig : List (String × Option γ)) (k : Nat)
    (name : String) (d : γ) (h : sig[k]? = some (name, some d)) :
    (defaultParams sig)[k]? = some (name, d) := by
  simp [defaultParams, h]

/-- **a parameter without a signature default is 1** -/
theorem defaultParams_implicit_one {γ : Type} [OfNat γ 1] (sig : List (String × Option γ)) (k : Nat)
    (name : String) (h : sig[k]? = some (name, none)) :
    (defaultParams sig)[k]? = some (name, 1) := by
  simp [defaultParams, h]

/-- the stored parameters are used exactly when no parameter value is passed -/
theorem callMode_stored_iff (nFree nArgs nKw : Nat) :
    callMode nFree nArgs nKw = .stored ↔ nArgs + nKw = 0 := by
  unfold callMode
  split_ifs with h0 h1
  · exact ⟨fun _ => h0, fun _ => rfl⟩
  · exact ⟨fun h => (by cases h), fun h => absurd h h0⟩
  · exact ⟨fun h => (by cases h), fun h => absurd h h0⟩

/-- the passed values are used exactly when at least one is passed and their number (positional +
keyword) equals the number of free parameters -/
theorem callMode_explicit_iff (nFree nArgs nKw : Nat) :
    callMode nFree nArgs nKw = .explicit ↔ nArgs + nKw ≠ 0 ∧ nArgs + nKw = nFree := by
  unfold callMode
  split_ifs with h0 h1
  · exact ⟨fun h => (by cases h), fun h => absurd h0 h.1⟩
  · exact ⟨fun _ => ⟨h0, h1⟩, fun _ => rfl⟩
  · exact ⟨fun h => (by cases h), fun h => absurd h.2 h1⟩

/-- every other number of passed values is rejected -/
theorem callMode_error_iff (nFree nArgs nKw : Nat) :
    callMode nFree nArgs nKw = .error ↔ nArgs + nKw ≠ 0 ∧ nArgs + nKw ≠ nFree := by
  unfold callMode
  split_ifs with h0 h1
  · exact ⟨fun h => (by cases h), fun h => absurd h0 h.1⟩
  · exact ⟨fun h => (by cases h), fun h => absurd h1 h.2⟩
  · exact ⟨fun _ => ⟨h0, h1⟩, fun _ => rfl⟩

/-! ### one dependence function shared between a parameter and another parameter's function -/

/-- **shared inner function**: when the dependence function `d` is the `k`-th parameter and ALSO
the inner function of the `k'`-th parameter's chained dependence function, the chained one is
computed from the very value the `k`-th parameter has at this `g`. -/
theorem shared_inner_same_value (specs : List (String × ParSpec α)) (g : α) (k k' : Nat)
    (n n' : String) (a b : α) (d : DepFn α)
    (h : specs[k]? = some (n, .dep d)) (h' : specs[k']? = some (n', .dep (.chained a b d))) :
    ∃ v, (paramValues specs g)[k]? = some (n, v) ∧
      (paramValues specs g)[k']? = some (n', (a + b * g) / v) := by
  refine ⟨d.eval g, ?_, ?_⟩
  · simp [paramValues, h]
  · simp [paramValues, h', DepFn.eval]

/-- the same for the executed double: `s` is the dependence function `d` and `l`'s chained function has
`d` as inner function — the template is called with `s = v` and `l = (a + b g)/v` for ONE `v = d(g)` -/
theorem ratCond_shared_inner (m : α → α → α → β) (a b : α) (d : DepFn α) (x g : α) :
    ∃ v, v = d.eval g ∧ ratCond m ⟨d, .chained a b d⟩ x g = some (m v ((a + b * g) / v) x) :=
  ⟨d.eval g, rfl, ratCond_eq_template_at_dependence_values m ⟨d, .chained a b d⟩ x g⟩

/-! ### size handed to the template's sampler -/

/-- **vector given**: `ConditionalDistribution.draw_sample(n, given)` with `k` conditioning values
asks the template for an `(n, k)` sample — `n` realisations per conditioning value — whatever
mixture of scalars (fixed parameters, constant dependence functions) and length-`k` vectors the
dependence values are. -/
theorem cond_sample_shape_vector (n k : Nat) (raw : List ParShape) (hne : raw ≠ [])
    (hvec : ∀ p ∈ raw, p = .scalar ∨ p = .vector k) :
    rvsSize n (condParShapes (some k) raw) = .matrix n k := by
  have hall : ∀ p ∈ condParShapes (some k) raw, p = .vector k := by
    intro p hp
    simp only [condParShapes, List.mem_map] at hp
    obtain ⟨q, hq, rfl⟩ := hp
    rcases hvec q hq with rfl | rfl <;> rfl
  have hne' : condParShapes (some k) raw ≠ [] := by
    simp [condParShapes, hne]
  rcases (condParShapes (some k) raw).eq_nil_or_concat with h | ⟨init, lst, h⟩
  · exact absurd h hne'
  · have hl : lst = .vector k := hall lst (by rw [h]; simp)
    rw [h, hl]
    simp [rvsSize, List.filterMap_append, vecLen?]

/-- **scalar given** (scalar dependence values): a flat sample of `n` realisations -/
theorem cond_sample_shape_scalar (n : Nat) (raw : List ParShape) (h : ∀ p ∈ raw, p = .scalar) :
    rvsSize n (condParShapes none raw) = .flat n := by
  have : raw.filterMap vecLen? = [] := by
    rw [List.filterMap_eq_nil_iff]
    intro p hp
    rw [h p hp]; rfl
  simp [rvsSize, condParShapes, this]

/-! ### non-vacuity -/
example : bindCall ["a", "b", "d"] ["d"] =
    .ok [("a", .positional 0), ("b", .positional 1), ("d", .boundDep)] := by decide
example : bindCall ["d", "a", "b"] ["d"] = .error "multipleValues" := by decide
example : (paramValues [("s", ParSpec.dep (.affine 1 2)), ("l", .fixed 5)] (3 : Int)) = [("s", 7), ("l", 5)] := by
  decide
example : ratCond (fun s l x => s * 100 + l * 10 + x) ⟨.affine 1 2, .const 5⟩ (4 : Int) 3 = some 754 := by decide
example : ratCondVec (fun s l x => s * 100 + l * 10 + x) ⟨.affine 1 2, .const 5⟩ [4, 1] [3, (0 : Int)]
    = [some 754, some 151] := by decide
example : (DepFn.ratio (1 : Int) (.chained 6 0 (.affine 1 1)) (.affine 0 1)).evalLog 2 =
    (1, [(.chained 6 0 (.affine 1 1), 2), (.affine 1 1, 2), (.affine 0 1, 2)]) := by rfl
example : defaultParams [("a", some (2 : Int)), ("b", none)] = [("a", 2), ("b", 1)] := by decide
example : callMode 2 0 0 = .stored ∧ callMode 2 1 1 = .explicit ∧ callMode 2 1 0 = .error ∧
    callMode 0 0 0 = .stored := by decide
example : rvsSize 4 (condParShapes (some 3) [.scalar, .vector 3]) = .matrix 4 3 := by decide
example : rvsSize 4 (condParShapes none [.scalar, .scalar]) = .flat 4 := by decide

end VirVerif.C08
