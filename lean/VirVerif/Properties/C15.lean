/-
C15 — HDC coordinates are exactly the boundary cells of the enclosed region.

  "The coordinates returned by a highest-density contour are exactly the centres of the
   boundary cells of the enclosed region - region cells with at least one of their 3^n-1
   neighbours outside the region or outside the grid - each exactly once, for every grid
   including anisotropic cell sizes. For a single connected 2-D region they are returned as
   one (N,2) array in the order produced by the line-sorting utility, which for any planar
   point set returns a permutation of its input (no point lost or duplicated); several
   disconnected regions are returned as one coordinate set per region."

Clause → theorem
  3^n-1 neighbours (the structuring element)            mem_offsets, offsets_length, offsets_nodup
  boundary cell ⇔ region cell with a neighbour outside   boundary_iff   (erode_subset: HDR − erosion is a mask)
  the cells visited are the grid, each once               mem_cells_iff, cells_nodup
  … in C order (k-th cell has flat position k)            cells_flatIndex, cells_length, flatIndex_injOn
  each boundary cell exactly once, any labelling 1..m     gather_each_boundary_cell_once, boundaryCells_nodup,
                                                          mem_boundaryCells_iff
    (no gathered set is empty: only the unfolding gather_sets_nonempty_unfold, whose hypothesis
     "labelling onto 1..m" is proven neither for the driver's labelComponents nor for scipy)
  coordinates = cell centres, anisotropic deltas          coords_are_cell_centres (cells of the grid; the toNat form for
                                                          arbitrary index vectors is coords_are_cell_centres_toNat),
                                                          arange_axis_injective (ordered field), coords_injective,
                                                          gather_coords_perm, centres_nodup (injective axes: ordered
                                                          field, not Float in general)
  sorter: no duplicate, nothing foreign                   dfs_preorder_nodup, dfs_preorder_sound
  sorter: everything reachable is emitted                 dfs_preorder_complete
  COUNTER-MODEL sorterOld (code before fix #15; never      sorter_perm_iff_connected, sorter_points_perm_iff_connected,
    output by the driver): permutation ⇔ connected        old_sorter_counterexample; lost_if_unreachable (contrapositive
                                                          of dfs_preorder_sound)
  sorter (after fix #15), FIXED start: a permutation      sorter_perm, sorter_points_perm
  sorter, OPTIMAL start (what the HDC uses; op            optimal_sorter_perm, optimal_sorter_points_perm, optimalStart_lt,
    `c15sorter 1`): a permutation, for any `<` (Float)    optimalStart_isSome, paths_getD
  fix #15 leaves connected inputs alone, only appends     fix_preserves_order, fix_only_appends
  optimal start = a cheapest path (LinearOrder only:      argminFirst_min, optimalStart_min
    Float costs without NaN)

NOT covered by a theorem / reading of the statement:
  "single connected 2-D region → one (N,2) array … one coordinate set per region" is stated nowhere
  in Lean; the harness checks it with "region" read as CONNECTED COMPONENT OF THE BOUNDARY MASK
  (what `_compute` labels).  Taken literally (component of the enclosed cell set) it does not hold
  for a region with a hole: the code returns a ring-shaped region as a list of two unsorted sets
  (outer and inner contour; witness in claims/C15.json).  The theorems above do not depend on that
  reading: every boundary cell is gathered exactly once for ANY labelling.
  The grid itself (default limits / default deltas / scalar delta / (max, min) entries / the
  fall-back region when 1 − alpha is not reached) has no Lean model; the harness compares it with
  the documented rule in Python on every run.

The labelling itself (`scipy.ndimage.label`) is a leaf: `gather_each_boundary_cell_once` holds for
every labelling with "label ∈ 1..m ⇔ boundary cell"; that hypothesis is checked on the real
label array in every run.  k-NN lists (sklearn) are a leaf: the sorter theorems hold for every
adjacency that stays inside `0..n-1` (`closedB`, evaluated by the driver on the actual lists).
-/
import VirVerif.Model.Grid
import VirVerif.Model.Dfs
import Mathlib.Data.List.Nodup
import Mathlib.Data.List.Perm.Basic
import Mathlib.Data.List.Perm.Subperm
import Mathlib.Data.List.Range
import Mathlib.Logic.Relation
import Mathlib.Algebra.Order.Field.Basic
import Mathlib.Tactic.Linarith

namespace VirVerif.C15
open VirVerif

/-! ## the point sorter: DFS preorder (DESIGN A.7) -/

theorem dfsAux_nodup (adj : Nat → List Nat) :
    ∀ fuel todo visited, visited.Nodup → (dfsAux adj fuel todo visited).Nodup := by
  intro fuel
  induction fuel with
  | zero => intro todo visited h; simpa [dfsAux] using h
  | succ fuel ih =>
    intro todo visited h
    cases todo with
    | nil => simpa [dfsAux] using h
    | cons v rest =>
      simp only [dfsAux]
      split
      · exact ih _ _ h
      · rename_i hv
        apply ih
        rw [List.nodup_append]
        refine ⟨h, by simp, ?_⟩
        intro a ha b hb
        simp at hb; subst hb
        intro hab; subst hab; exact hv ha

/-- reachability in the adjacency relation -/
def Reach (adj : Nat → List Nat) (s : Nat) : Nat → Prop :=
  Relation.ReflTransGen (fun a b => b ∈ adj a) s

theorem dfsAux_sound (adj : Nat → List Nat) (s : Nat) :
    ∀ fuel todo visited, (∀ v ∈ todo, Reach adj s v) → (∀ v ∈ visited, Reach adj s v) →
      ∀ v ∈ dfsAux adj fuel todo visited, Reach adj s v := by
  intro fuel
  induction fuel with
  | zero => intro todo visited _ hv; simpa [dfsAux] using hv
  | succ fuel ih =>
    intro todo visited ht hv
    cases todo with
    | nil => simpa [dfsAux] using hv
    | cons v rest =>
      simp only [dfsAux]
      split
      · exact ih _ _ (fun w hw => ht w (by simp [hw])) hv
      · apply ih
        · intro w hw
          rcases List.mem_append.mp hw with h | h
          · exact Relation.ReflTransGen.tail (ht v (by simp)) h
          · exact ht w (by simp [h])
        · intro w hw
          rcases List.mem_append.mp hw with h | h
          · exact hv w h
          · simp at h; rw [h]; exact ht v (by simp)

/-- the DFS order never contains a node twice -/
theorem dfs_preorder_nodup (adj) (fuel s) : (dfsPreorder adj fuel s).Nodup :=
  dfsAux_nodup adj fuel [s] [] List.nodup_nil

/-- soundness: everything emitted is reachable from the start node -/
theorem dfs_preorder_sound (adj) (fuel s) : ∀ v ∈ dfsPreorder adj fuel s, Reach adj s v :=
  dfsAux_sound adj s fuel [s] [] (by intro v hv; simp at hv; subst hv; exact Relation.ReflTransGen.refl)
    (by intro v hv; cases hv)

/-- (contrapositive of `dfs_preorder_sound`, no content of its own) a point that is not reachable
from the start node in the 2-NN graph is lost -/
theorem lost_if_unreachable (adj) (fuel s v : Nat) (h : ¬ Reach adj s v) :
    v ∉ dfsPreorder adj fuel s := fun hv => h (dfs_preorder_sound adj fuel s v hv)

/-! ### completeness with the fuel the model uses -/

theorem closedB_iff (n : Nat) (adj : Nat → List Nat) :
    closedB n adj = true ↔ ∀ u < n, ∀ w ∈ adj u, w < n := by
  simp [closedB]

/-- weight of the unvisited nodes of `univ`: one step for the visit plus one per pushed entry -/
def wsum (adj : Nat → List Nat) : List Nat → List Nat → Nat
  | [], _ => 0
  | u :: us, visited => (if u ∈ visited then 0 else 1 + (adj u).length) + wsum adj us visited

theorem wsum_mono (adj : Nat → List Nat) (univ visited : List Nat) (v : Nat) :
    wsum adj univ (visited ++ [v]) ≤ wsum adj univ visited := by
  induction univ with
  | nil => simp [wsum]
  | cons u us ih =>
    simp only [wsum]
    by_cases hu : u ∈ visited
    · have h2 : u ∈ visited ++ [v] := by simp [hu]
      rw [if_pos hu, if_pos h2]; omega
    · rw [if_neg hu]
      split <;> omega

theorem wsum_visit (adj : Nat → List Nat) (univ visited : List Nat) (v : Nat)
    (hv : v ∈ univ) (hnv : v ∉ visited) :
    wsum adj univ (visited ++ [v]) + (1 + (adj v).length) ≤ wsum adj univ visited := by
  induction univ with
  | nil => cases hv
  | cons u us ih =>
    simp only [wsum]
    by_cases huv : u = v
    · subst huv
      have hm := wsum_mono adj us visited u
      have h2 : u ∈ visited ++ [u] := by simp
      rw [if_neg hnv, if_pos h2]; omega
    · have hv' : v ∈ us := by
        rcases List.mem_cons.mp hv with h | h
        · exact absurd h.symm huv
        · exact h
      have ih' := ih hv'
      by_cases hu : u ∈ visited
      · have h2 : u ∈ visited ++ [v] := by simp [hu]
        rw [if_pos hu, if_pos h2]; omega
      · have h2 : u ∉ visited ++ [v] := by simp [hu, huv]
        rw [if_neg hu, if_neg h2]; omega

/-- with enough fuel the result contains `visited` and `todo` and is closed under `adj` -/
theorem dfsAux_closed (adj : Nat → List Nat) (n : Nat) (hcl : ∀ u < n, ∀ w ∈ adj u, w < n) :
    ∀ fuel todo visited, (∀ v ∈ todo, v < n) →
      wsum adj (List.range n) visited + todo.length < fuel →
      (∀ v ∈ visited, ∀ w ∈ adj v, w ∈ visited ∨ w ∈ todo) →
      (∀ v ∈ visited, v ∈ dfsAux adj fuel todo visited) ∧
      (∀ v ∈ todo, v ∈ dfsAux adj fuel todo visited) ∧
      (∀ v ∈ dfsAux adj fuel todo visited, ∀ w ∈ adj v, w ∈ dfsAux adj fuel todo visited) := by
  intro fuel
  induction fuel with
  | zero => intro todo visited _ hf; omega
  | succ fuel ih =>
    intro todo visited hr hf hinv
    cases todo with
    | nil =>
      simp only [dfsAux]
      refine ⟨fun v hv => hv, fun v hv => absurd hv (by simp), ?_⟩
      intro v hv w hw
      rcases hinv v hv w hw with h | h
      · exact h
      · cases h
    | cons v rest =>
      simp only [dfsAux]
      split
      · rename_i hv
        have := ih rest visited (fun w hw => hr w (by simp [hw]))
          (by simp at hf; omega)
          (by
            intro x hx w hw
            rcases hinv x hx w hw with h | h
            · exact Or.inl h
            · rcases List.mem_cons.mp h with h | h
              · subst h; exact Or.inl hv
              · exact Or.inr h)
        refine ⟨this.1, ?_, this.2.2⟩
        intro w hw
        rcases List.mem_cons.mp hw with h | h
        · subst h; exact this.1 _ hv
        · exact this.2.1 _ h
      · rename_i hv
        have hvn : v < n := hr v (by simp)
        have hws := wsum_visit adj (List.range n) visited v (List.mem_range.mpr hvn) hv
        have := ih (adj v ++ rest) (visited ++ [v])
          (by
            intro w hw
            rcases List.mem_append.mp hw with h | h
            · exact hcl v hvn w h
            · exact hr w (by simp [h]))
          (by simp at hf ⊢; omega)
          (by
            intro x hx w hw
            rcases List.mem_append.mp hx with hx | hx
            · rcases hinv x hx w hw with h | h
              · exact Or.inl (by simp [h])
              · rcases List.mem_cons.mp h with h | h
                · subst h; exact Or.inl (by simp)
                · exact Or.inr (by simp [h])
            · simp at hx; subst hx
              exact Or.inr (by simp [hw]))
        refine ⟨fun w hw => this.1 w (by simp [hw]), ?_, this.2.2⟩
        intro w hw
        rcases List.mem_cons.mp hw with h | h
        · subst h; exact this.1 _ (by simp)
        · exact this.2.1 _ (by simp [h])

theorem wsum_nil (adj : Nat → List Nat) (l : List Nat) :
    wsum adj l [] = (l.map fun u => 1 + (adj u).length).sum := by
  induction l with
  | nil => rfl
  | cons u us ih => simp [wsum, ih]

/-- completeness: with the fuel the model uses, every node reachable from the start is emitted -/
theorem dfs_preorder_complete (adj : Nat → List Nat) (n s : Nat) (hs : s < n)
    (hcl : closedB n adj = true) :
    ∀ v, Reach adj s v → v ∈ dfsPreorder adj (dfsFuel n adj) s := by
  have hcl' := (closedB_iff n adj).mp hcl
  have h := dfsAux_closed adj n hcl' (dfsFuel n adj) [s] []
    (by intro v hv; simp at hv; subst hv; exact hs)
    (by rw [wsum_nil]; simp [dfsFuel])
    (by intro v hv; cases hv)
  intro v hv
  induction hv with
  | refl => exact h.2.1 s (by simp)
  | tail _ hbc ih => exact h.2.2 _ ih _ hbc

theorem reach_lt (adj : Nat → List Nat) (n s : Nat) (hs : s < n) (hcl : closedB n adj = true) :
    ∀ v, Reach adj s v → v < n := by
  have hcl' := (closedB_iff n adj).mp hcl
  intro v hv
  induction hv with
  | refl => exact hs
  | tail _ hbc ih => exact hcl' _ ih _ hbc

theorem sorterOld_nodup (adj : Nat → List Nat) (n s : Nat) : (sorterOld adj n s).Nodup :=
  dfs_preorder_nodup adj _ s

theorem mem_sorterOld_iff (adj : Nat → List Nat) (n s : Nat) (hs : s < n) (hcl : closedB n adj = true)
    (v : Nat) : v ∈ sorterOld adj n s ↔ Reach adj s v :=
  ⟨dfs_preorder_sound adj _ s v, dfs_preorder_complete adj n s hs hcl v⟩

/-- COUNTER-MODEL (`sorterOld` = the code before fix #15; the driver never outputs it, it only
occurs as the first segment of `sorterFrom`).  The order returned is a permutation of the node set `0..n-1` exactly
when every node is reachable from the start node in the 2-NN graph. -/
theorem sorter_perm_iff_connected (adj : Nat → List Nat) (n s : Nat) (hs : s < n)
    (hcl : closedB n adj = true) :
    (sorterOld adj n s).Perm (List.range n) ↔ ∀ v < n, Reach adj s v := by
  constructor
  · intro hp v hv
    exact (mem_sorterOld_iff adj n s hs hcl v).mp (hp.mem_iff.mpr (List.mem_range.mpr hv))
  · intro hall
    rw [List.perm_ext_iff_of_nodup (sorterOld_nodup adj n s) List.nodup_range]
    intro v
    rw [mem_sorterOld_iff adj n s hs hcl, List.mem_range]
    exact ⟨reach_lt adj n s hs hcl v, hall v⟩

/-- COUNTER-MODEL (`sorterOld`).  The same for the points themselves (`x[order], y[order]`),
duplicates among the points allowed: the output is a permutation of the input iff the 2-NN graph is connected from the start;
otherwise points are lost (`lost_if_unreachable`). -/
theorem sorter_points_perm_iff_connected {β : Type} (pts : Nat → β) (adj : Nat → List Nat) (n s : Nat)
    (hs : s < n) (hcl : closedB n adj = true) :
    ((sorterOld adj n s).map pts).Perm ((List.range n).map pts) ↔ ∀ v < n, Reach adj s v := by
  rw [← sorter_perm_iff_connected adj n s hs hcl]
  constructor
  · intro hp
    have hlen : (List.range n).length ≤ (sorterOld adj n s).length := by
      have := hp.length_eq; simp at this; simp [this]
    have hsub : sorterOld adj n s ⊆ List.range n := by
      intro v hv
      exact List.mem_range.mpr
        (reach_lt adj n s hs hcl v ((mem_sorterOld_iff adj n s hs hcl v).mp hv))
    exact (List.subperm_of_subset (sorterOld_nodup adj n s) hsub).perm_of_length_le hlen
  · intro hp; exact hp.map pts

/-- COUNTER-MODEL: concrete witness of defect #15 in the model of the old code: six points forming two
triangles in the 2-NN graph (k-NN rows as sklearn returns them); the DFS from node 0 returns 3 of
the 6 points, so the output is not a permutation of the input. -/
theorem old_sorter_counterexample :
    let adj := adjFn (buildAdj [[1, 2], [0, 2], [0, 1], [4, 5], [3, 5], [3, 4]])
    closedB 6 adj = true ∧ sorterOld adj 6 0 = [0, 1, 2] ∧
      ¬ (sorterOld adj 6 0).Perm (List.range 6) := by
  have h2 : sorterOld (adjFn (buildAdj [[1, 2], [0, 2], [0, 1], [4, 5], [3, 5], [3, 4]])) 6 0 = [0, 1, 2] := by
    decide +kernel
  refine ⟨by decide +kernel, h2, ?_⟩
  intro h
  have := h.length_eq
  rw [h2] at this
  simp at this

/-! ### after fix #15 -/

theorem dfsAux_visited_subset (adj : Nat → List Nat) :
    ∀ fuel todo visited, ∀ v ∈ visited, v ∈ dfsAux adj fuel todo visited := by
  intro fuel
  induction fuel with
  | zero => intro todo visited v hv; simpa [dfsAux] using hv
  | succ fuel ih =>
    intro todo visited v hv
    cases todo with
    | nil => simpa [dfsAux] using hv
    | cons w rest =>
      simp only [dfsAux]
      split
      · exact ih _ _ v hv
      · exact ih _ _ v (by simp [hv])

theorem start_mem_dfsPreorder (adj : Nat → List Nat) (fuel s : Nat) (hf : 0 < fuel) :
    s ∈ dfsPreorder adj fuel s := by
  obtain ⟨f, rfl⟩ : ∃ f, fuel = f + 1 := ⟨fuel - 1, by omega⟩
  simp only [dfsPreorder, dfsAux, List.not_mem_nil, if_false]
  exact dfsAux_visited_subset adj f _ _ s (by simp)

theorem argminFirst_mem {α : Type} [LT α] [DecidableLT α] (cost : Nat → α) :
    ∀ (l : List Nat) (i : Nat), argminFirst cost l = some i → i ∈ l := by
  intro l
  induction l with
  | nil => intro i h; simp [argminFirst] at h
  | cons a rest ih =>
    intro i h
    simp only [argminFirst] at h
    cases hr : argminFirst cost rest with
    | none => rw [hr] at h; simp at h; simp [h]
    | some j =>
      rw [hr] at h
      simp only at h
      split at h
      · simp at h; subst h; exact List.mem_cons_of_mem _ (ih j hr)
      · simp at h; simp [h]

theorem argminFirst_none {α : Type} [LT α] [DecidableLT α] (cost : Nat → α) (l : List Nat) :
    argminFirst cost l = none ↔ l = [] := by
  cases l with
  | nil => simp [argminFirst]
  | cons a rest =>
    simp only [argminFirst]
    cases argminFirst cost rest with
    | none => simp
    | some j => simp only; split <;> simp

/-- the cheapest element: `argminFirst` returns an element of the list no other element beats.
Over a `LinearOrder`; the driver runs `argminFirst` on `Float` path costs, which are totally
ordered only when no cost is NaN (costs are finite sums of squares of differences of the input
coordinates; the harness feeds finite points).  The order-free facts the driver's output needs
(`argminFirst_mem`, `optimalStart_lt`, `optimal_sorter_perm`) hold for ANY `<`, Float included. -/
theorem argminFirst_min {α : Type} [LinearOrder α] (cost : Nat → α) :
    ∀ (l : List Nat) (i : Nat), argminFirst cost l = some i → i ∈ l ∧ ∀ j ∈ l, cost i ≤ cost j := by
  intro l
  induction l with
  | nil => intro i h; simp [argminFirst] at h
  | cons a rest ih =>
    intro i h
    refine ⟨argminFirst_mem cost _ i h, ?_⟩
    simp only [argminFirst] at h
    cases hr : argminFirst cost rest with
    | none =>
      rw [hr] at h; simp at h; subst h
      have : rest = [] := (argminFirst_none cost rest).mp hr
      subst this
      intro j hj; simp at hj; subst hj; exact le_refl _
    | some k =>
      rw [hr] at h
      have ihk := (ih k hr).2
      simp only at h
      split at h
      · rename_i hlt
        simp at h; subst h
        intro j hj
        rcases List.mem_cons.mp hj with h | h
        · subst h; exact le_of_lt hlt
        · exact ihk j h
      · rename_i hlt
        simp at h; subst h
        intro j hj
        rcases List.mem_cons.mp hj with h | h
        · subst h; exact le_refl _
        · exact le_trans (not_lt.mp hlt) (ihk j h)

/-- a duplicate-free part of a duplicate-free list splits it -/
theorem split_perm (chunk rest : List Nat) (hc : chunk.Nodup) (hr : rest.Nodup)
    (hsub : ∀ x ∈ chunk, x ∈ rest) :
    (chunk ++ rest.filter fun i => i ∉ chunk).Perm rest := by
  rw [List.perm_ext_iff_of_nodup _ hr]
  · intro a
    simp only [List.mem_append, List.mem_filter, decide_eq_true_eq]
    constructor
    · rintro (h | h)
      · exact hsub a h
      · exact h.1
    · intro h
      by_cases ha : a ∈ chunk
      · exact Or.inl ha
      · exact Or.inr ⟨h, ha⟩
  · rw [List.nodup_append]
    refine ⟨hc, hr.filter _, ?_⟩
    intro a ha b hb hab
    subst hab
    simp only [List.mem_filter, decide_eq_true_eq] at hb
    exact hb.2 ha

theorem completeOrder_perm {α : Type} [LT α] [DecidableLT α] (adj : Nat → List Nat)
    (d : Nat → Nat → α) (fuel : Nat) (hf : 0 < fuel) :
    ∀ k order rest, order ≠ [] → rest.Nodup → rest.length ≤ k →
      (completeOrder adj d fuel k order rest).Perm (order ++ rest) := by
  intro k
  induction k with
  | zero =>
    intro order rest _ _ hl
    have : rest = [] := List.length_eq_zero_iff.mp (by omega)
    subst this
    simp [completeOrder]
  | succ k ih =>
    intro order rest hne hr hl
    simp only [completeOrder]
    cases hlast : order.getLast? with
    | none => exact absurd (List.getLast?_eq_none_iff.mp hlast) hne
    | some last =>
      simp only
      cases hnx : argminFirst (d last) rest with
      | none =>
        have : rest = [] := (argminFirst_none _ rest).mp hnx
        subst this; simp
      | some nxt =>
        simp only
        have hmem : nxt ∈ rest := argminFirst_mem _ rest nxt hnx
        set chunk := (dfsPreorder adj fuel nxt).filter fun i => i ∈ rest with hchunk
        have hcn : chunk.Nodup := (dfs_preorder_nodup adj fuel nxt).filter _
        have hcs : ∀ x ∈ chunk, x ∈ rest := by
          intro x hx
          simp only [hchunk, List.mem_filter, decide_eq_true_eq] at hx
          exact hx.2
        have hnc : nxt ∈ chunk := by
          simp only [hchunk, List.mem_filter, decide_eq_true_eq]
          exact ⟨start_mem_dfsPreorder adj fuel nxt hf, hmem⟩
        have hsp := split_perm chunk rest hcn hr hcs
        have hlen : (rest.filter fun i => i ∉ chunk).length ≤ k := by
          have h1 := hsp.length_eq
          have h2 : 0 < chunk.length := List.length_pos_of_mem hnc
          simp only [List.length_append] at h1
          omega
        have := ih (order ++ chunk) (rest.filter fun i => i ∉ chunk) (by simp [hne])
          (hr.filter _) hlen
        refine this.trans ?_
        rw [List.append_assoc]
        exact List.Perm.append_left order hsp

theorem sorterOld_ne_nil (adj : Nat → List Nat) (n s : Nat) : sorterOld adj n s ≠ [] := by
  intro h
  have := start_mem_dfsPreorder adj (dfsFuel n adj) s (by simp [dfsFuel])
  unfold sorterOld at h
  rw [h] at this
  cases this

/-- After fix #15 the order returned is a permutation of `0..n-1` for every start node, every
adjacency inside `0..n-1` and every notion of "nearest". No point is lost or duplicated. -/
theorem sorter_perm {α : Type} [LT α] [DecidableLT α] (adj : Nat → List Nat) (d : Nat → Nat → α)
    (n s : Nat) (hs : s < n) (hcl : closedB n adj = true) :
    (sorterFrom adj d n s).Perm (List.range n) := by
  unfold sorterFrom
  simp only
  have hsub : ∀ x ∈ sorterOld adj n s, x ∈ List.range n := by
    intro v hv
    exact List.mem_range.mpr
      (reach_lt adj n s hs hcl v ((mem_sorterOld_iff adj n s hs hcl v).mp hv))
  have hsp := split_perm (sorterOld adj n s) (List.range n) (sorterOld_nodup adj n s)
    List.nodup_range hsub
  refine (completeOrder_perm adj d (dfsFuel n adj) (by simp [dfsFuel]) n _ _
    (sorterOld_ne_nil adj n s) (List.nodup_range.filter _) ?_).trans hsp
  exact (List.length_filter_le _ _).trans (by simp)

theorem sorter_points_perm {α β : Type} [LT α] [DecidableLT α] (pts : Nat → β) (adj : Nat → List Nat)
    (d : Nat → Nat → α) (n s : Nat) (hs : s < n) (hcl : closedB n adj = true) :
    ((sorterFrom adj d n s).map pts).Perm ((List.range n).map pts) :=
  (sorter_perm adj d n s hs hcl).map pts

/-! ### `search_for_optimal_start = True` (what the HDC always uses): op `c15sorter 1` -/

/-- the start chosen by `optimalStart` is a node `< n` (any `<`, any `+`: holds at `Float`) -/
theorem optimalStart_lt {α : Type} [Add α] [LT α] [DecidableLT α] (zero : α)
    (path : Nat → List Nat) (d : Nat → Nat → α) (n s : Nat)
    (h : optimalStart zero path d n = some s) : s < n :=
  List.mem_range.mp (argminFirst_mem _ _ s h)

/-- `optimalStart` answers for every non-empty point set -/
theorem optimalStart_isSome {α : Type} [Add α] [LT α] [DecidableLT α] (zero : α)
    (path : Nat → List Nat) (d : Nat → Nat → α) (n : Nat) (hn : 0 < n) :
    (optimalStart zero path d n).isSome = true := by
  cases h : optimalStart zero path d n with
  | some s => rfl
  | none =>
    have := (argminFirst_none _ (List.range n)).mp h
    have h2 : (List.range n).length = 0 := by rw [this]; rfl
    rw [List.length_range] at h2
    omega

/-- the table of paths the driver builds (`paths.getD i []`) is `sorterFrom` on `0..n-1` -/
theorem paths_getD {β : Type} (f : Nat → List β) (n i : Nat) (hi : i < n) :
    ((List.range n).map f).toArray.getD i [] = f i := by
  simp [Array.getD, hi]

/-- **optimal start: the output is a permutation** (the composition the driver's `c15sorter 1`
executes: all `n` candidate paths by `sorterFrom`, cost by `pathCostL`, first minimum by
`argminFirst`, output = the path of the chosen start).  Whatever `<`, `+` and the distances are
(so also at `Float`, NaN included), the returned order is a permutation of `0..n-1`. -/
theorem optimal_sorter_perm {α : Type} [Add α] [LT α] [DecidableLT α] (zero : α)
    (adj : Nat → List Nat) (d : Nat → Nat → α) (n s : Nat) (path : Nat → List Nat)
    (hpath : ∀ i, i < n → path i = sorterFrom adj d n i) (hcl : closedB n adj = true)
    (h : optimalStart zero path d n = some s) : (path s).Perm (List.range n) := by
  have hs := optimalStart_lt zero path d n s h
  rw [hpath s hs]
  exact sorter_perm adj d n s hs hcl

theorem optimal_sorter_points_perm {α β : Type} [Add α] [LT α] [DecidableLT α] (zero : α)
    (pts : Nat → β) (adj : Nat → List Nat) (d : Nat → Nat → α) (n s : Nat) (path : Nat → List Nat)
    (hpath : ∀ i, i < n → path i = sorterFrom adj d n i) (hcl : closedB n adj = true)
    (h : optimalStart zero path d n = some s) :
    ((path s).map pts).Perm ((List.range n).map pts) :=
  (optimal_sorter_perm zero adj d n s path hpath hcl h).map pts

/-- over a linear order the chosen start has a cheapest path among all `n` candidates -/
theorem optimalStart_min {α : Type} [Add α] [LinearOrder α] (zero : α) (path : Nat → List Nat)
    (d : Nat → Nat → α) (n s : Nat) (h : optimalStart zero path d n = some s) :
    ∀ j, j < n → pathCostL zero d (path s) ≤ pathCostL zero d (path j) :=
  fun j hj => (argminFirst_min _ _ s h).2 j (List.mem_range.mpr hj)

theorem completeOrder_prefix {α : Type} [LT α] [DecidableLT α] (adj : Nat → List Nat)
    (d : Nat → Nat → α) (fuel : Nat) :
    ∀ k order rest, order <+: completeOrder adj d fuel k order rest := by
  intro k
  induction k with
  | zero => intro order rest; simp [completeOrder]
  | succ k ih =>
    intro order rest
    simp only [completeOrder]
    cases order.getLast? with
    | none => simp
    | some last =>
      simp only
      cases argminFirst (d last) rest with
      | none => simp
      | some nxt =>
        simp only
        exact (List.prefix_append order _).trans (ih _ _)

/-- the fix only appends: the order of the old code is a prefix of the new order -/
theorem fix_only_appends {α : Type} [LT α] [DecidableLT α] (adj : Nat → List Nat) (d : Nat → Nat → α)
    (n s : Nat) : sorterOld adj n s <+: sorterFrom adj d n s :=
  completeOrder_prefix adj d _ n _ _

/-- wherever the old code already returned a permutation (graph connected from the start) the
fixed code returns the very same order -/
theorem fix_preserves_order {α : Type} [LT α] [DecidableLT α] (adj : Nat → List Nat)
    (d : Nat → Nat → α) (n s : Nat) (hs : s < n) (hcl : closedB n adj = true)
    (hconn : ∀ v < n, Reach adj s v) : sorterFrom adj d n s = sorterOld adj n s := by
  unfold sorterFrom
  simp only
  have hrest : ((List.range n).filter fun i => i ∉ sorterOld adj n s) = [] := by
    rw [List.filter_eq_nil_iff]
    intro a ha
    simp only [decide_eq_true_eq, not_not]
    exact (mem_sorterOld_iff adj n s hs hcl a).mpr (hconn a (List.mem_range.mp ha))
  rw [hrest]
  cases n with
  | zero => simp [completeOrder]
  | succ n =>
    simp only [completeOrder]
    cases hlast : (sorterOld adj (n + 1) s).getLast? with
    | none => rfl
    | some last => simp [argminFirst]

/-! ## the boundary mask -/

/-- the structuring element: exactly the vectors of length `n` with entries in `{-1, 0, 1}` -/
theorem mem_offsets (n : Nat) (o : List Int) :
    o ∈ offsets n ↔ o.length = n ∧ ∀ x ∈ o, x = -1 ∨ x = 0 ∨ x = 1 := by
  induction n generalizing o with
  | zero =>
    simp only [offsets, List.mem_singleton]
    constructor
    · rintro rfl; simp
    · rintro ⟨h, _⟩; exact List.length_eq_zero_iff.mp h
  | succ n ih =>
    simp only [offsets, List.mem_flatMap, List.mem_map]
    constructor
    · rintro ⟨a, ha, t, ht, rfl⟩
      have := (ih t).mp ht
      refine ⟨by simp [this.1], ?_⟩
      intro x hx
      rcases List.mem_cons.mp hx with h | h
      · subst h; simpa using ha
      · exact this.2 x h
    · rintro ⟨hl, hx⟩
      cases o with
      | nil => simp at hl
      | cons a t =>
        refine ⟨a, ?_, t, (ih t).mpr ⟨by simpa using hl, fun x h => hx x (by simp [h])⟩, rfl⟩
        have := hx a (by simp)
        simpa using this

/-- it has `3^n` elements (the cell itself and its `3^n - 1` neighbours) … -/
theorem offsets_length (n : Nat) : (offsets n).length = 3 ^ n := by
  induction n with
  | zero => rfl
  | succ n ih =>
    simp only [offsets, List.flatMap_cons, List.flatMap_nil, List.length_append, List.length_map,
      List.length_nil, ih, pow_succ]
    omega

/-- … all different -/
theorem offsets_nodup (n : Nat) : (offsets n).Nodup := by
  induction n with
  | zero => simp [offsets]
  | succ n ih =>
    simp only [offsets, List.flatMap_cons, List.flatMap_nil, List.append_nil]
    have hm : ∀ a : Int, ((offsets n).map fun t => a :: t).Nodup :=
      fun a => ih.map (fun x y h => by simpa using h)
    rw [List.nodup_append, List.nodup_append]
    refine ⟨hm _, ⟨hm _, hm _, ?_⟩, ?_⟩
    · intro a ha b hb hab
      subst hab
      simp only [List.mem_map] at ha hb
      obtain ⟨t, _, rfl⟩ := ha
      obtain ⟨t', _, h⟩ := hb
      simp at h
    · intro a ha b hb hab
      subst hab
      simp only [List.mem_map, List.mem_append] at ha hb
      obtain ⟨t, _, rfl⟩ := ha
      rcases hb with ⟨t', _, h⟩ | ⟨t', _, h⟩ <;> simp at h

theorem inGrid_length : ∀ (shape : List Nat) (idx : List Int), inGrid shape idx = true →
    idx.length = shape.length := by
  intro shape
  induction shape with
  | nil => intro idx h; cases idx <;> simp [inGrid] at h ⊢
  | cons s ss ih =>
    intro idx h
    cases idx with
    | nil => simp [inGrid] at h
    | cons i is =>
      simp only [inGrid, Bool.and_eq_true] at h
      simp [ih is h.2]

theorem addVec_zero : ∀ (idx : List Int), addVec idx (List.replicate idx.length 0) = idx := by
  intro idx
  induction idx with
  | nil => rfl
  | cons i is ih => simp [List.replicate_succ, addVec, ih]

/-- the erosion is contained in the region (so `HDR - erosion` is a 0/1 mask, never −1) -/
theorem erode_subset (shape : List Nat) (region : List Int → Bool) (idx : List Int)
    (hg : inGrid shape idx = true) (h : erodeAt shape region idx = true) :
    region idx = true := by
  unfold erodeAt at h
  rw [List.all_eq_true] at h
  have hz : List.replicate shape.length (0 : Int) ∈ offsets shape.length :=
    (mem_offsets _ _).mpr ⟨by simp, by intro x hx; simp [List.mem_replicate] at hx; simp [hx.2]⟩
  have := h _ hz
  rw [← inGrid_length shape idx hg, addVec_zero] at this
  simp only [cellAt, Bool.and_eq_true] at this
  exact this.2

/-- **boundary cells.** A cell belongs to `HDR - binary_erosion(HDR, ones(3^n))` iff it lies in
the grid and in the region and at least one of its `3^n - 1` neighbours (an offset in
`{-1,0,1}^n` other than zero) lies outside the grid or outside the region - for every dimension
and every shape. -/
theorem boundary_iff (shape : List Nat) (region : List Int → Bool) (idx : List Int) :
    boundaryAt shape region idx = true ↔
      inGrid shape idx = true ∧ region idx = true ∧
        ∃ o, o ∈ offsets shape.length ∧ o ≠ List.replicate shape.length 0 ∧
          (inGrid shape (addVec idx o) = false ∨ region (addVec idx o) = false) := by
  constructor
  · intro h
    rw [boundaryAt, Bool.and_eq_true, Bool.not_eq_true'] at h
    obtain ⟨hc, he⟩ := h
    rw [cellAt, Bool.and_eq_true] at hc
    unfold erodeAt at he
    rw [List.all_eq_false] at he
    obtain ⟨o, ho, hout⟩ := he
    have hout' : inGrid shape (addVec idx o) = false ∨ region (addVec idx o) = false := by
      rw [cellAt, Bool.and_eq_true] at hout
      cases h1 : inGrid shape (addVec idx o)
      · exact Or.inl rfl
      · cases h2 : region (addVec idx o)
        · exact Or.inr rfl
        · exact absurd ⟨h1, h2⟩ hout
    refine ⟨hc.1, hc.2, o, ho, ?_, hout'⟩
    intro hz
    subst hz
    rw [← inGrid_length shape idx hc.1, addVec_zero] at hout'
    rcases hout' with h | h
    · rw [hc.1] at h; cases h
    · rw [hc.2] at h; cases h
  · rintro ⟨hg, hr, o, ho, _, hout⟩
    rw [boundaryAt, Bool.and_eq_true, Bool.not_eq_true']
    refine ⟨by rw [cellAt, hg, hr]; rfl, ?_⟩
    unfold erodeAt
    rw [List.all_eq_false]
    refine ⟨o, ho, ?_⟩
    rw [cellAt, Bool.and_eq_true]
    rintro ⟨h1, h2⟩
    rcases hout with h | h
    · rw [h1] at h; cases h
    · rw [h2] at h; cases h

/-! ## the grid cells in C order and the gathering of coordinates -/

/-- `cells shape` enumerates exactly the valid indices of the grid … -/
theorem mem_cells_iff : ∀ (shape : List Nat) (idx : List Int),
    idx ∈ cells shape ↔ inGrid shape idx = true := by
  intro shape
  induction shape with
  | nil => intro idx; cases idx <;> simp [cells, inGrid]
  | cons s ss ih =>
    intro idx
    simp only [cells, List.mem_flatMap, List.mem_range, List.mem_map]
    constructor
    · rintro ⟨i, hi, t, ht, rfl⟩
      simp only [inGrid, Bool.and_eq_true, decide_eq_true_eq]
      exact ⟨⟨by omega, by omega⟩, (ih t).mp ht⟩
    · intro h
      cases idx with
      | nil => simp [inGrid] at h
      | cons j t =>
        simp only [inGrid, Bool.and_eq_true, decide_eq_true_eq] at h
        refine ⟨j.toNat, by omega, t, (ih t).mpr h.2, ?_⟩
        congr 1
        omega

/-- … each exactly once -/
theorem cells_nodup : ∀ (shape : List Nat), (cells shape).Nodup := by
  intro shape
  induction shape with
  | nil => simp [cells]
  | cons s ss ih =>
    simp only [cells]
    rw [List.nodup_flatMap]
    refine ⟨fun i _ => ih.map (fun x y h => by simpa using h), ?_⟩
    refine List.Pairwise.imp ?_ List.nodup_range
    intro a b hab x hx hy
    simp only [List.mem_map] at hx hy
    obtain ⟨t, _, rfl⟩ := hx
    obtain ⟨t', _, h⟩ := hy
    simp at h
    exact hab (by omega)

theorem foldl_mul_eq (l : List Nat) : ∀ a : Nat, l.foldl (· * ·) a = a * l.foldl (· * ·) 1 := by
  induction l with
  | nil => intro a; simp
  | cons x xs ih =>
    intro a
    simp only [List.foldl_cons]
    rw [ih (a * x), ih (1 * x)]
    simp [Nat.mul_assoc]

theorem range_mul_flatMap (s P : Nat) :
    (List.range s).flatMap (fun i => (List.range P).map fun k => i * P + k) = List.range (s * P) := by
  induction s with
  | zero => simp
  | succ s ih =>
    rw [List.range_succ, List.flatMap_append, ih, Nat.succ_mul, List.range_add]
    simp

/-- **C order**: the `k`-th cell of `cells shape` has flat C-order position `k` — `cells` enumerates
the grid in the order of `np.nonzero` / of the flat bit strings the driver indexes with `flatIndex`
(`maskFn`, `labels.getD (flatIndex …)`). -/
theorem cells_flatIndex : ∀ (shape : List Nat),
    (cells shape).map (flatIndex shape) = List.range (shape.foldl (· * ·) 1) := by
  intro shape
  induction shape with
  | nil => rfl
  | cons s ss ih =>
    have hP : (s :: ss).foldl (· * ·) 1 = s * ss.foldl (· * ·) 1 := by
      simp only [List.foldl_cons]
      rw [foldl_mul_eq ss (1 * s)]; simp
    rw [hP, ← range_mul_flatMap]
    simp only [cells, List.map_flatMap, List.map_map]
    congr 1
    funext i
    have : ((flatIndex (s :: ss)) ∘ fun t => (i : Int) :: t) =
        (fun k => i * ss.foldl (· * ·) 1 + k) ∘ flatIndex ss := by
      funext t
      simp [flatIndex]
    rw [this, ← List.map_map, ih]

theorem cells_length (shape : List Nat) : (cells shape).length = shape.foldl (· * ·) 1 := by
  have := congrArg List.length (cells_flatIndex shape)
  simpa using this

/-- on grid cells `flatIndex` is injective (so a flat array indexed by it is a function on cells) -/
theorem flatIndex_injOn (shape : List Nat) (a b : List Int) (ha : a ∈ cells shape)
    (hb : b ∈ cells shape) (h : flatIndex shape a = flatIndex shape b) : a = b := by
  have hnd : ((cells shape).map (flatIndex shape)).Nodup := by
    rw [cells_flatIndex]; exact List.nodup_range
  exact List.inj_on_of_nodup_map hnd ha hb h

theorem boundaryCells_nodup (shape : List Nat) (region : List Int → Bool) :
    (boundaryCells shape region).Nodup := (cells_nodup shape).filter _

theorem mem_boundaryCells_iff (shape : List Nat) (region : List Int → Bool) (idx : List Int) :
    idx ∈ boundaryCells shape region ↔ boundaryAt shape region idx = true := by
  unfold boundaryCells
  rw [List.mem_filter, mem_cells_iff]
  constructor
  · exact fun h => h.2
  · intro h
    exact ⟨((boundary_iff shape region idx).mp h).1, h⟩

theorem filter_disj_append {β : Type} (l : List β) (p q : β → Bool)
    (hd : ∀ x ∈ l, ¬ (p x = true ∧ q x = true)) :
    (l.filter p ++ l.filter q).Perm (l.filter fun x => p x || q x) := by
  induction l with
  | nil => simp
  | cons a l ih =>
    have ih' := ih (fun x hx => hd x (by simp [hx]))
    have ha := hd a (by simp)
    cases hp : p a <;> cases hq : q a
    · simpa [List.filter_cons, hp, hq] using ih'
    · simp only [List.filter_cons, hp, hq, Bool.false_eq_true, if_false, if_true, Bool.or_true]
      exact (List.perm_middle).trans (ih'.cons a)
    · simp only [List.filter_cons, hp, hq, Bool.false_eq_true, if_false, if_true, Bool.or_false,
        List.cons_append]
      exact ih'.cons a
    · exact absurd ⟨hp, hq⟩ ha

theorem flatMap_labels_perm {β : Type} (l : List β) (f : β → Nat) (m : Nat) :
    ((List.range m).flatMap fun i => l.filter fun c => f c == i + 1).Perm
      (l.filter fun c => decide (1 ≤ f c) && decide (f c ≤ m)) := by
  induction m with
  | zero =>
    simp only [List.range_zero, List.flatMap_nil]
    rw [List.filter_eq_nil_iff.mpr]
    intro a _
    simp only [Bool.and_eq_true, decide_eq_true_eq]
    omega
  | succ m ih =>
    rw [List.range_succ, List.flatMap_append]
    simp only [List.flatMap_cons, List.flatMap_nil, List.append_nil]
    refine (ih.append_right _).trans ?_
    refine (filter_disj_append l _ _ ?_).trans ?_
    · intro x _
      simp only [Bool.and_eq_true, decide_eq_true_eq, beq_iff_eq]
      omega
    · apply List.Perm.of_eq
      apply List.filter_congr
      intro x _
      rw [Bool.eq_iff_iff]
      simp only [Bool.or_eq_true, Bool.and_eq_true, decide_eq_true_eq, beq_iff_eq]
      omega

/-- **each boundary cell exactly once.** For any labelling of the grid that gives the boundary
cells the labels `1..m` and every other cell none of them, the per-label index sets that
`_compute` gathers (`np.nonzero(labeled_array == i)`, `i = 1..m`), concatenated, are a
permutation of the boundary cells (which are duplicate-free: `boundaryCells_nodup`). -/
theorem gather_each_boundary_cell_once (shape : List Nat) (region : List Int → Bool)
    (label : List Int → Nat) (m : Nat)
    (hl : ∀ c ∈ cells shape, boundaryAt shape region c = true ↔ (1 ≤ label c ∧ label c ≤ m)) :
    (gatherIdx shape label m).flatten.Perm (boundaryCells shape region) := by
  have h1 : (gatherIdx shape label m).flatten =
      (List.range m).flatMap fun i => (cells shape).filter fun c => label c == i + 1 := by
    simp [gatherIdx, List.flatMap_def]
  rw [h1]
  refine (flatMap_labels_perm (cells shape) label m).trans ?_
  apply List.Perm.of_eq
  unfold boundaryCells
  apply List.filter_congr
  intro c hc
  have := hl c hc
  cases hb : boundaryAt shape region c
  · simp only [Bool.and_eq_false_iff, decide_eq_false_iff_not]
    by_contra hcon
    have : 1 ≤ label c ∧ label c ≤ m := by omega
    rw [← hl c hc, hb] at this
    cases this
  · simp only [Bool.and_eq_true, decide_eq_true_eq]
    exact this.mp hb

/-- (unfolding; `honto` IS the conclusion spelled out and is NOT proven for the driver's
`labelComponents` nor for `scipy.ndimage.label` — both are only compared with each other at run
time) if the labelling is onto `1..m` (every label is used by some grid cell), every gathered
coordinate set is non-empty -/
theorem gather_sets_nonempty_unfold (shape : List Nat) (label : List Int → Nat) (m : Nat)
    (honto : ∀ i, 1 ≤ i → i ≤ m → ∃ c ∈ cells shape, label c = i) :
    ∀ comp ∈ gatherIdx shape label m, comp ≠ [] := by
  intro comp hcomp
  simp only [gatherIdx, List.mem_map, List.mem_range] at hcomp
  obtain ⟨i, hi, rfl⟩ := hcomp
  obtain ⟨c, hc, hlc⟩ := honto (i + 1) (by omega) (by omega)
  intro hnil
  have : c ∈ (cells shape).filter fun c => label c == i + 1 := by
    simp [List.mem_filter, hc, hlc]
  rw [hnil] at this
  cases this

theorem coordsFrom_get {α : Type} (axis : Nat → Nat → α) :
    ∀ (idx : List Int) (e d : Nat),
      (coordsFrom axis e idx)[d]? = idx[d]?.map fun i => axis (e + d) i.toNat := by
  intro idx
  induction idx with
  | nil => intro e d; simp [coordsFrom]
  | cons i is ih =>
    intro e d
    cases d with
    | zero => simp [coordsFrom]
    | succ d =>
      simp only [coordsFrom, List.getElem?_cons_succ, ih]
      congr 2
      funext j
      congr 1
      omega

/-- `toNat` form, for ANY index vector.  Totalisation artefact: a negative index (never produced by
`cells`) is read as index 0 — `idx = [-5]` yields `lo 0`.  The statement about grid cells is
`coords_are_cell_centres`. -/
theorem coords_are_cell_centres_toNat {α : Type} [Field α] (lo δ : Nat → α) (idx : List Int) (d : Nat) :
    (coordsOf (fun d k => lo d + (k : α) * δ d) idx)[d]? =
      idx[d]?.map fun i => lo d + ((i.toNat : Nat) : α) * δ d := by
  unfold coordsOf
  rw [coordsFrom_get]
  simp

theorem inGrid_nonneg : ∀ (shape : List Nat) (idx : List Int), inGrid shape idx = true →
    ∀ (d : Nat) (i : Int), idx[d]? = some i → 0 ≤ i := by
  intro shape
  induction shape with
  | nil => intro idx h d i hi; cases idx <;> simp [inGrid] at h hi
  | cons s ss ih =>
    intro idx h d i hi
    cases idx with
    | nil => simp [inGrid] at h
    | cons j js =>
      simp only [inGrid, Bool.and_eq_true, decide_eq_true_eq] at h
      cases d with
      | zero => simp at hi; omega
      | succ d => exact ih js h.2 d i (by simpa using hi)

/-- **coordinates are cell centres.** For a cell OF THE GRID (`inGrid`), entry `d` of its coordinate
row is the `d`-th axis evaluated at the cell's `d`-th index; with `axis d k = lo d + k·δ d` (the
exact value of `np.arange(min, max + δ, δ)[k]`) it is `lo d + idx[d]·δ d` (the integer index
itself, no `toNat`), each axis with its own cell size. -/
theorem coords_are_cell_centres {α : Type} [Field α] (lo δ : Nat → α) (shape : List Nat)
    (idx : List Int) (hg : inGrid shape idx = true) (d : Nat) :
    (coordsOf (fun d k => lo d + (k : α) * δ d) idx)[d]? =
      idx[d]?.map fun i => lo d + ((i : Int) : α) * δ d := by
  rw [coords_are_cell_centres_toNat]
  cases hi : idx[d]? with
  | none => rfl
  | some i =>
    have h0 := inGrid_nonneg shape idx hg d i hi
    simp only [Option.map_some]
    congr 3
    have : ((i.toNat : Nat) : Int) = i := Int.toNat_of_nonneg h0
    rw [← Int.cast_natCast, this]

/-- distinct indices of an axis with non-zero cell size are distinct coordinates -/
theorem arange_axis_injective {α : Type} [Field α] [LinearOrder α] [IsStrictOrderedRing α]
    (lo δ : α) (hδ : δ ≠ 0) : Function.Injective fun k : Nat => lo + (k : α) * δ := by
  intro a b h
  simp only [add_right_inj] at h
  have := mul_right_cancel₀ hδ h
  exact_mod_cast this

theorem coordsFrom_injective {α : Type} (axis : Nat → Nat → α)
    (hinj : ∀ d, Function.Injective (axis d)) :
    ∀ (shape : List Nat) (e : Nat) (a b : List Int), inGrid shape a = true → inGrid shape b = true →
      coordsFrom axis e a = coordsFrom axis e b → a = b := by
  intro shape
  induction shape with
  | nil =>
    intro e a b ha hb _
    cases a <;> cases b <;> simp [inGrid] at ha hb ⊢
  | cons s ss ih =>
    intro e a b ha hb h
    cases a with
    | nil => simp [inGrid] at ha
    | cons i is =>
      cases b with
      | nil => simp [inGrid] at hb
      | cons j js =>
        simp only [inGrid, Bool.and_eq_true, decide_eq_true_eq] at ha hb
        simp only [coordsFrom, List.cons.injEq] at h
        have h1 := hinj e h.1
        have h2 := ih (e + 1) is js ha.2 hb.2 h.2
        rw [h2]
        congr 1
        omega

/-- different grid cells have different coordinate rows (axes injective, e.g. `lo + k·δ`,
`δ ≠ 0`): "each cell once" and "each centre once" are the same statement -/
theorem coords_injective {α : Type} (axis : Nat → Nat → α) (hinj : ∀ d, Function.Injective (axis d))
    (shape : List Nat) (a b : List Int) (ha : inGrid shape a = true) (hb : inGrid shape b = true)
    (h : coordsOf axis a = coordsOf axis b) : a = b :=
  coordsFrom_injective axis hinj shape 0 a b ha hb h

/-- the gathered coordinate sets, concatenated, are a permutation of the centres of the boundary
cells; with injective axes the centres are pairwise different -/
theorem gather_coords_perm {α : Type} (shape : List Nat) (region : List Int → Bool)
    (label : List Int → Nat) (m : Nat) (axis : Nat → Nat → α)
    (hl : ∀ c ∈ cells shape, boundaryAt shape region c = true ↔ (1 ≤ label c ∧ label c ≤ m)) :
    (gather shape label m axis).flatten.Perm ((boundaryCells shape region).map (coordsOf axis)) := by
  have h := (gather_each_boundary_cell_once shape region label m hl).map (coordsOf axis)
  have h2 : (gather shape label m axis).flatten = (gatherIdx shape label m).flatten.map (coordsOf axis) := by
    simp [gather, List.map_flatten]
  rw [h2]
  exact h

/-- the centres of the boundary cells are pairwise different WHEN the axes are injective.  That
hypothesis holds for `lo + k·δ`, `δ ≠ 0` over an ordered field (`arange_axis_injective`), NOT in
general over `Float` (`1e16 + 0·1 == 1e16 + 1·1`): for the driver's Float axes "each centre once"
follows only for grids whose axis values are distinct doubles (the harness checks the real axes). -/
theorem centres_nodup {α : Type} (shape : List Nat) (region : List Int → Bool) (axis : Nat → Nat → α)
    (hinj : ∀ d, Function.Injective (axis d)) :
    ((boundaryCells shape region).map (coordsOf axis)).Nodup := by
  refine List.Nodup.map_on ?_ (boundaryCells_nodup shape region)
  intro a ha b hb h
  have ha' := ((boundary_iff shape region a).mp ((mem_boundaryCells_iff shape region a).mp ha)).1
  have hb' := ((boundary_iff shape region b).mp ((mem_boundaryCells_iff shape region b).mp hb)).1
  exact coords_injective axis hinj shape a b ha' hb' h

/-! ## non-vacuity -/

/-- a 3×4 grid whose region is the full grid: the 10 border cells are the boundary, the two
inner cells are not -/
example : boundaryCells [3, 4] (fun _ => true) =
    [[0,0],[0,1],[0,2],[0,3],[1,0],[1,3],[2,0],[2,1],[2,2],[2,3]] := by decide

/-- an L-shaped region inside a 4×4 grid: a cell with all 8 neighbours in the region is interior -/
example : boundaryAt [4, 4] (fun i => decide (i ≠ [3, 3])) [1, 1] = false ∧
    boundaryAt [4, 4] (fun i => decide (i ≠ [3, 3])) [2, 2] = true := by decide

/-- the labelling hypothesis of `gather_each_boundary_cell_once` is satisfiable: label every
boundary cell 1 -/
example : ∀ c ∈ cells [3, 4], boundaryAt [3, 4] (fun _ => true) c = true ↔
    (1 ≤ (if boundaryAt [3, 4] (fun _ => true) c then 1 else 0) ∧
      (if boundaryAt [3, 4] (fun _ => true) c then 1 else 0) ≤ 1) := by decide

/-- a connected adjacency (4-cycle from 2-NN rows): hypotheses of `sorter_perm_iff_connected`
and `fix_preserves_order` hold, the order is a permutation -/
example : closedB 4 (adjFn (buildAdj [[1, 3], [0, 2], [1, 3], [2, 0]])) = true ∧
    sorterOld (adjFn (buildAdj [[1, 3], [0, 2], [1, 3], [2, 0]])) 4 0 = [0, 1, 2, 3] := by
  constructor <;> decide +kernel

/-- the two-triangle witness after the fix: all six points, old order as prefix -/
example : sorterFrom (adjFn (buildAdj [[1, 2], [0, 2], [0, 1], [4, 5], [3, 5], [3, 4]]))
    (fun i j => if i ≤ j then j - i else i - j) 6 0 = [0, 1, 2, 3, 4, 5] := by decide +kernel

/-- C order of a 2×3 grid; `flatIndex` of the cells is `0..5` -/
example : (cells [2, 3]).map (flatIndex [2, 3]) = [0, 1, 2, 3, 4, 5] := by decide

/-- the totalisation artefact `coords_are_cell_centres_toNat` warns about, and the in-grid case -/
example : coordsOf (fun _ k => (10 : Int) + k * 2) [-5] = [10] ∧ inGrid [3] [-5] = false ∧
    coordsOf (fun _ k => (10 : Int) + k * 2) [2] = [14] ∧ inGrid [3] [2] = true := by decide

/-- `optimal_sorter_perm` is not vacuous: on the two-triangle witness `optimalStart` answers -/
example :
    let adj := adjFn (buildAdj [[1, 2], [0, 2], [0, 1], [4, 5], [3, 5], [3, 4]])
    let d : Nat → Nat → Nat := fun i j => if i ≤ j then j - i else i - j
    closedB 6 adj = true ∧
    optimalStart 0 (fun i => sorterFrom adj d 6 i) d 6 = some 0 := by
  constructor <;> decide +kernel

end VirVerif.C15
