/-
C09 — Joint fitting is order-invariant and fits each interval to exactly its own data.

  "Fitting a joint model to a data matrix gives the same model whatever the order of the
   observations (rows). For each conditional variable the per-interval estimates equal a
   stand-alone fit of the template distribution to exactly those observations whose
   conditioning value falls in the interval, the dependence functions are fitted to the
   (interval reference value, estimate) pairs, and each dimension's fit options (method,
   weights) are applied to that dimension only."

Clause → theorem
  interval k is fitted to exactly the observations whose conditioning value is in interval k,
  in input order                                                   split_data_exact (given the mask equation),
                                                                   width_split_data_exact, number_split_data_exact
                                                                   (mask equation discharged for what the Width /
                                                                   Number slicers return; predicate k is `inIv` on
                                                                   interval k's boundaries: C10.ivPreds_get)
  row order does not matter, Width / Number slicers (all options):  widthSlice_perm_invariant, numberSlice_perm_invariant
  for permuted rows the same error or the same intervals            (composed from listMax_perm, listMin_perm,
  (references, boundaries, which survive min_n_points) and each     width_as_templates, number_as_templates,
  interval holds the same observations as a multiset …              template_split_perm; the float models are instances:
                                                                    widthSliceF_eq_G, numberSliceF_eq_G)
  … hence the same per-interval estimates for any permutation-      sameSplit_estimates
  invariant estimator, and the same callable references (np.median  (building blocks for a FIXED predicate:
  of the members' conditioning values)                              split_perm_invariant, estimates_perm_invariant)
  ASSUMED in that composition (stated as the shape of widthSliceG / numberSliceG, proved to be the
  executable model by …_eq_G): the interval starts are computed from the data max (Width) / min and
  max (Number) and the options only. Float `<` on NaN-free data is taken to be a linear order.
  PointsPerInterval with ties across a chunk boundary: invariance
  is impossible (two valid sort orders, different intervals)       ppi_ties_not_invariant
  dependence functions get (reference, estimate) pairs             OBSERVED at run time (recording doubles).
                                                                   dep_fit_inputs_def only unfolds `condFitInputs`, a
                                                                   definition that NO driver op runs. Which data
                                                                   every `_fit` of a dependence function uses is
                                                                   proven in C14 on its executed model
                                                                   (`VirVerif.C14.fit_uses_stored_data`).
  each dimension gets its own (method, weights) or the default     fitPlan_per_dim, fitPlan_length,
                                                                   fitPlan_default_when_absent, missing_method_reported
  NOT here: that the parsed (method, weights) of dimension i are the ones actually HANDED to dimension i's fit
  (only the parsing `_check_and_fill_fit_desc` is modelled; the application is a run-time oracle over recording
  doubles). "First fit and re-fit" of dependence functions (stale data, start values): C14's round theorems
  (`VirVerif.C14.round_complete_all_current`, `start_values_fixed`).
  NOT here: `DependenceFunction(weights=…, constraints=…)` — how a dependence function is fitted to
  its pairs is C14; C09 proves which pairs it receives. Refusal of a wrong-length list is part of
  the model (`fillFitDesc`), compared with the code at run time. PointsPerInterval WITHOUT ties
  across a chunk boundary: order invariance observed at run time only (no theorem).
  An unconditional dimension i is fitted to column i: run-time oracle over recording doubles and
  shipped families (no model function; there is nothing to compute).
  PARTIAL (runtime): float summation noise of the real estimators under permutation (MLE /
  least squares are permutation-invariant only up to rounding) — compared with rtol 1e-6.
-/
import VirVerif.Model.FitPipeline
import VirVerif.Properties.C10
import Mathlib.Order.Basic
import Mathlib.Order.Defs.LinearOrder
import Mathlib.Data.List.Basic
import Mathlib.Data.List.Perm.Basic
import Mathlib.Data.List.Forall2
import Mathlib.Tactic.Linarith

namespace VirVerif.C09
open VirVerif

variable {ρ α β : Type}

/-- selecting by a mask computed row by row is filtering the rows -/
theorem maskSelect_map (rows : List ρ) (p : ρ → Bool) (f : ρ → α) :
    maskSelect (rows.map p) (rows.map f) = (rows.filter p).map f := by
  induction rows with
  | nil => rfl
  | cons r rs ih =>
    by_cases h : p r = true
    · simp [maskSelect, h, ih]
    · simp only [Bool.not_eq_true] at h
      simp [maskSelect, h, ih]

/-- **each interval is fitted to exactly its own data**: with masks `mask_k[j] = pred_k(cond_j)`
(alignment, C10 `masks_aligned`), the data handed to the template for interval `k` are the
fitted-dimension values of exactly the rows whose conditioning value satisfies `pred_k`, in
input order. -/
theorem split_data_exact (rows : List ρ) (cond dist : ρ → α) (pred : α → Bool)
    (iv : Interval α) (hmask : iv.mask = (rows.map cond).map pred) :
    maskSelect iv.mask (rows.map dist) = (rows.filter (fun r => pred (cond r))).map dist := by
  rw [hmask, List.map_map]
  exact maskSelect_map rows (pred ∘ cond) dist

/-- **row order does not matter for the interval contents**: for permuted rows the data of an
interval are a permutation of each other. -/
theorem split_perm_invariant (rows rows' : List ρ) (h : rows.Perm rows') (q : ρ → Bool) (f : ρ → α) :
    ((rows.filter q).map f).Perm ((rows'.filter q).map f) :=
  (h.filter q).map f

/-- … hence any permutation-invariant estimator (a stand-alone fit is a function of the
sample as a multiset) returns the same per-interval estimate. -/
theorem estimates_perm_invariant (rows rows' : List ρ) (h : rows.Perm rows') (q : ρ → Bool)
    (f : ρ → α) (est : List α → β) (hest : ∀ l l', l.Perm l' → est l = est l') :
    est ((rows.filter q).map f) = est ((rows'.filter q).map f) :=
  hest _ _ (split_perm_invariant rows rows' h q f)

section order
variable [LinearOrder α]

theorem foldl_max_spec (l : List α) (x : α) :
    (l.foldl (fun m y => if m < y then y else m) x = x ∨
      l.foldl (fun m y => if m < y then y else m) x ∈ l) ∧
    x ≤ l.foldl (fun m y => if m < y then y else m) x ∧
    ∀ y ∈ l, y ≤ l.foldl (fun m y => if m < y then y else m) x := by
  induction l generalizing x with
  | nil => simp
  | cons a as ih =>
    simp only [List.foldl_cons]
    by_cases hx : x < a
    · rw [if_pos hx]
      obtain ⟨h1, h2, h3⟩ := ih a
      refine ⟨Or.inr ?_, le_trans (le_of_lt hx) h2, ?_⟩
      · rcases h1 with h | h
        · rw [h]; simp
        · simp [h]
      · intro y hy
        rcases List.mem_cons.mp hy with rfl | hy'
        · exact h2
        · exact h3 y hy'
    · rw [if_neg hx]
      obtain ⟨h1, h2, h3⟩ := ih x
      refine ⟨?_, h2, ?_⟩
      · rcases h1 with h | h
        · exact Or.inl h
        · exact Or.inr (by simp [h])
      · intro y hy
        rcases List.mem_cons.mp hy with rfl | hy'
        · exact le_trans (not_lt.mp hx) h2
        · exact h3 y hy'

/-- `listMax` is the maximum: a member that bounds all members -/
theorem listMax_spec (l : List α) (m : α) (h : listMax l = some m) : m ∈ l ∧ ∀ y ∈ l, y ≤ m := by
  cases l with
  | nil => simp [listMax] at h
  | cons x xs =>
    simp only [listMax, Option.some.injEq] at h
    obtain ⟨h1, h2, h3⟩ := foldl_max_spec xs x
    rw [h] at h1 h2 h3
    refine ⟨?_, ?_⟩
    · rcases h1 with h1 | h1
      · rw [h1]; simp
      · simp [h1]
    · intro y hy
      rcases List.mem_cons.mp hy with rfl | hy'
      · exact h2
      · exact h3 y hy'

/-- **the data maximum — and with it every edge the Width slicer derives from it — does not
depend on the row order** -/
theorem listMax_perm (l l' : List α) (h : l.Perm l') : listMax l = listMax l' := by
  cases hl : listMax l with
  | none =>
    have : l = [] := by cases l <;> simp [listMax] at hl ⊢
    subst this
    have : l' = [] := h.symm.eq_nil
    subst this; rfl
  | some m =>
    cases hl' : listMax l' with
    | none =>
      have : l' = [] := by cases l' <;> simp [listMax] at hl' ⊢
      subst this
      have : l = [] := h.eq_nil
      subst this; simp [listMax] at hl
    | some m' =>
      obtain ⟨hm, hb⟩ := listMax_spec l m hl
      obtain ⟨hm', hb'⟩ := listMax_spec l' m' hl'
      have h1 : m ≤ m' := hb' m (h.mem_iff.mp hm)
      have h2 : m' ≤ m := hb m' (h.mem_iff.mpr hm')
      rw [le_antisymm h1 h2]

theorem foldl_min_spec (l : List α) (x : α) :
    (l.foldl (fun m y => if y < m then y else m) x = x ∨
      l.foldl (fun m y => if y < m then y else m) x ∈ l) ∧
    l.foldl (fun m y => if y < m then y else m) x ≤ x ∧
    ∀ y ∈ l, l.foldl (fun m y => if y < m then y else m) x ≤ y := by
  induction l generalizing x with
  | nil => simp
  | cons a as ih =>
    simp only [List.foldl_cons]
    by_cases hx : a < x
    · rw [if_pos hx]
      obtain ⟨h1, h2, h3⟩ := ih a
      refine ⟨Or.inr ?_, le_trans h2 (le_of_lt hx), ?_⟩
      · rcases h1 with h | h
        · rw [h]; simp
        · simp [h]
      · intro y hy
        rcases List.mem_cons.mp hy with rfl | hy'
        · exact h2
        · exact h3 y hy'
    · rw [if_neg hx]
      obtain ⟨h1, h2, h3⟩ := ih x
      refine ⟨?_, h2, ?_⟩
      · rcases h1 with h | h
        · exact Or.inl h
        · exact Or.inr (by simp [h])
      · intro y hy
        rcases List.mem_cons.mp hy with rfl | hy'
        · exact le_trans h2 (not_lt.mp hx)
        · exact h3 y hy'

theorem listMin_spec (l : List α) (m : α) (h : listMin l = some m) : m ∈ l ∧ ∀ y ∈ l, m ≤ y := by
  cases l with
  | nil => simp [listMin] at h
  | cons x xs =>
    simp only [listMin, Option.some.injEq] at h
    obtain ⟨h1, h2, h3⟩ := foldl_min_spec xs x
    rw [h] at h1 h2 h3
    refine ⟨?_, ?_⟩
    · rcases h1 with h1 | h1
      · rw [h1]; simp
      · simp [h1]
    · intro y hy
      rcases List.mem_cons.mp hy with rfl | hy'
      · exact h2
      · exact h3 y hy'

theorem listMin_perm (l l' : List α) (h : l.Perm l') : listMin l = listMin l' := by
  cases hl : listMin l with
  | none =>
    have : l = [] := by cases l <;> simp [listMin] at hl ⊢
    subst this
    have : l' = [] := h.symm.eq_nil
    subst this; rfl
  | some m =>
    cases hl' : listMin l' with
    | none =>
      have : l' = [] := by cases l' <;> simp [listMin] at hl' ⊢
      subst this
      have : l = [] := h.eq_nil
      subst this; simp [listMin] at hl
    | some m' =>
      obtain ⟨hm, hb⟩ := listMin_spec l m hl
      obtain ⟨hm', hb'⟩ := listMin_spec l' m' hl'
      have h1 : m' ≤ m := hb' m (h.mem_iff.mp hm)
      have h2 : m ≤ m' := hb m' (h.mem_iff.mpr hm')
      rw [le_antisymm h2 h1]

end order

/-- **PointsPerInterval with ties across a chunk boundary cannot be order-invariant**: for the
conditioning values `[1, 2, 2, 3]` both `[0,1,2,3]` and `[0,2,1,3]` are valid sorting
permutations (which one `argsort` returns depends on the row order); with 2 points per interval
they put different observations into the intervals. -/
theorem ppi_ties_not_invariant :
    let cond : List Int := [1, 2, 2, 3]
    let dist : List Int := [10, 20, 30, 40]
    (ppiSlice 2 true 1 1 [0, 1, 2, 3] cond).toOption.map (fun ivs => splitData ivs dist)
        = some [[10, 20], [30, 40]] ∧
    (ppiSlice 2 true 1 1 [0, 2, 1, 3] cond).toOption.map (fun ivs => splitData ivs dist)
        = some [[10, 30], [20, 40]] := by
  decide

/-- unfolding of the definition `condFitInputs` (Model/FitPipeline.lean), which is a description of
`ConditionalDistribution.fit` that no driver op executes: the clause "dependence functions are fitted
to the (reference, estimate) pairs" is OBSERVED by the harness, not proven here. -/
theorem dep_fit_inputs_def (est : List α → β) (refs : List α) (intervals : List (List α)) :
    (condFitInputs est refs intervals).2 = refs.zip (intervals.map est) ∧
    (condFitInputs est refs intervals).1 = intervals.map est := ⟨rfl, rfl⟩

/-! ### per-dimension fit options -/

theorem fillAux_length (i : Nat) (ds : List FitDescIn) (r : List FitDesc)
    (h : fillFitDescAux i ds = .ok r) : r.length = ds.length := by
  induction ds generalizing i r with
  | nil => simp [fillFitDescAux] at h; subst h; rfl
  | cons d ds ih =>
    cases d with
    | none =>
      simp only [fillFitDescAux] at h
      cases hr : fillFitDescAux (i + 1) ds with
      | error e => simp [hr, Except.map] at h
      | ok r' =>
        simp [hr, Except.map] at h; subst h
        simp [ih (i + 1) r' hr]
    | dict m w =>
      cases m with
      | none => simp [fillFitDescAux] at h
      | some m =>
        simp only [fillFitDescAux] at h
        cases hr : fillFitDescAux (i + 1) ds with
        | error e => simp [hr, Except.map] at h
        | ok r' =>
          simp [hr, Except.map] at h; subst h
          simp [ih (i + 1) r' hr]

theorem fitPlan_length (n : Nat) (ds : Option (List FitDescIn)) (r : List FitDesc)
    (h : fillFitDesc n ds = .ok r) : r.length = n := by
  cases ds with
  | none => simp [fillFitDesc] at h; subst h; simp
  | some ds =>
    simp only [fillFitDesc] at h
    split at h
    · cases h
    · rename_i hl
      have := fillAux_length 0 ds r h
      simp at hl; omega

theorem fillAux_get (i : Nat) (ds : List FitDescIn) (r : List FitDesc)
    (h : fillFitDescAux i ds = .ok r) (k : Nat) (hk : k < ds.length) :
    r[k]? = some (match ds[k] with
      | .none => defaultFitDesc
      | .dict m w => { method := m.getD "", weights := w.getD none }) ∧
    (∀ w, ds[k] ≠ .dict none w) := by
  induction ds generalizing i r k with
  | nil => simp at hk
  | cons d ds ih =>
    have step : ∀ (hd : FitDesc) (r' : List FitDesc), fillFitDescAux (i + 1) ds = .ok r' →
        r = hd :: r' → (k = 0 → True) → True := fun _ _ _ _ _ => trivial
    cases d with
    | none =>
      simp only [fillFitDescAux] at h
      cases hr : fillFitDescAux (i + 1) ds with
      | error e => simp [hr, Except.map] at h
      | ok r' =>
        simp [hr, Except.map] at h; subst h
        cases k with
        | zero => simp
        | succ k =>
          have := ih (i + 1) r' hr k (by simpa using hk)
          simpa using this
    | dict m w =>
      cases m with
      | none => simp [fillFitDescAux] at h
      | some m =>
        simp only [fillFitDescAux] at h
        cases hr : fillFitDescAux (i + 1) ds with
        | error e => simp [hr, Except.map] at h
        | ok r' =>
          simp [hr, Except.map] at h; subst h
          cases k with
          | zero => simp
          | succ k =>
            have := ih (i + 1) r' hr k (by simpa using hk)
            simpa using this

/-- **each dimension gets exactly its own description**: entry `k` of the plan is the default
for `None`, else the method and weights given for dimension `k` (weights `None` if absent) —
never another dimension's options. -/
theorem fitPlan_per_dim (n : Nat) (ds : List FitDescIn) (r : List FitDesc)
    (h : fillFitDesc n (some ds) = .ok r) (k : Nat) (hk : k < ds.length) :
    r[k]? = some (match ds[k] with
      | .none => defaultFitDesc
      | .dict m w => { method := m.getD "", weights := w.getD none }) := by
  simp only [fillFitDesc] at h
  split at h
  · cases h
  · exact (fillAux_get 0 ds r h k hk).1

theorem fitPlan_default_when_absent (n : Nat) :
    fillFitDesc n none = .ok (List.replicate n defaultFitDesc) := rfl

/-- a description without `method` is refused, naming that dimension (the first such) -/
theorem missing_method_reported (pre : List FitDescIn) (w : Option (Option String))
    (post : List FitDescIn) (hpre : ∀ d ∈ pre, ∀ w', d ≠ .dict none w') (i : Nat) :
    fillFitDescAux i (pre ++ .dict none w :: post) = .error (.missingMethod (i + pre.length)) := by
  induction pre generalizing i with
  | nil => simp [fillFitDescAux]
  | cons d ds ih =>
    have hd := hpre d (by simp)
    have ih' := ih (fun d' hd' => hpre d' (by simp [hd'])) (i + 1)
    cases d with
    | none =>
      simp only [List.cons_append, fillFitDescAux, ih', Except.map, List.length_cons]
      congr 2; omega
    | dict m w' =>
      cases m with
      | none => exact absurd rfl (hd w')
      | some m =>
        simp only [List.cons_append, fillFitDescAux, ih', Except.map, List.length_cons]
        congr 2; omega

/-! ### composed order invariance of the Width / Number slicers (edges ← min/max ← multiset of rows) -/

/-- what is reported about an interval besides its members: reference (`none` = a user callable
applied to the members' conditioning values) and the two boundaries -/
def ivDescr (iv : Interval α) : Option α × α × α := (iv.ref, iv.lo, iv.hi)

/-- two slicing results describe **the same intervals with the same members**: same error or the
same list of (reference, boundaries), and interval by interval the selected values of the
columns `col`, `col'` are permutations of each other -/
def SameSplit (r r' : Except SliceErr (List (Interval α))) (col col' : List α) : Prop :=
  r.map (·.map ivDescr) = r'.map (·.map ivDescr) ∧
  ∀ ivs ivs', r = .ok ivs → r' = .ok ivs' →
    List.Forall₂ List.Perm (splitData ivs col) (splitData ivs' col')

/-- an interval as a function of the data: its membership predicate applied position by position -/
def ivOfTemplate (data : List α) (t : (α → Bool) × Option α × α × α) : Interval α :=
  { mask := data.map t.1, ref := t.2.1, lo := t.2.2.1, hi := t.2.2.2 }

theorem maskCount_map (rows : List ρ) (p : ρ → Bool) : maskCount (rows.map p) = rows.countP p := by
  induction rows with
  | nil => rfl
  | cons r rs ih =>
    simp only [maskCount, List.map_cons, List.countP_cons] at ih ⊢
    rw [ih]; simp

/-- **slicing by data-independent predicates is order invariant.** If the intervals' predicates,
references and boundaries (`T`) do not depend on the rows, then for permuted rows: the same
intervals survive `min_n_points`, `min_n_intervals` raises the same error or none, and each
surviving interval holds the same observations (as a multiset) of any column. -/
theorem template_split_perm (T : List ((α → Bool) × Option α × α × α)) (minPts minIv : Nat)
    (rows rows' : List ρ) (h : rows.Perm rows') (cond dist : ρ → α) :
    SameSplit
      (finishSlice minIv (dropSmall minPts (T.map (ivOfTemplate (rows.map cond)))))
      (finishSlice minIv (dropSmall minPts (T.map (ivOfTemplate (rows'.map cond)))))
      (rows.map dist) (rows'.map dist) := by
  have hdrop : ∀ rs : List ρ, dropSmall minPts (T.map (ivOfTemplate (rs.map cond))) =
      (T.filter fun t => decide (minPts ≤ rs.countP (fun r => t.1 (cond r)))).map
        (ivOfTemplate (rs.map cond)) := by
    intro rs
    unfold dropSmall
    rw [List.filter_map]
    congr 1
    apply List.filter_congr
    intro t _
    simp only [Function.comp, ivOfTemplate, List.map_map]
    rw [maskCount_map]; rfl
  have hkeep : (T.filter fun t => decide (minPts ≤ rows.countP (fun r => t.1 (cond r)))) =
      (T.filter fun t => decide (minPts ≤ rows'.countP (fun r => t.1 (cond r)))) := by
    apply List.filter_congr
    intro t _
    rw [h.countP_eq]
  rw [hdrop rows, hdrop rows', ← hkeep]
  generalize (T.filter fun t => decide (minPts ≤ rows.countP (fun r => t.1 (cond r)))) = K
  unfold SameSplit finishSlice
  simp only [List.length_map]
  by_cases hlen : K.length < minIv
  · simp [hlen]
  · simp only [hlen, if_false]
    refine ⟨?_, ?_⟩
    · simp [Except.map, ivDescr, ivOfTemplate]
    · intro ivs ivs' h1 h2
      cases h1; cases h2
      simp only [splitData, List.map_map]
      rw [List.forall₂_map_left_iff, List.forall₂_map_right_iff, List.forall₂_same]
      intro t _
      simp only [Function.comp, ivOfTemplate]
      rw [List.map_map, List.map_map]
      rw [show (rows.map (t.1 ∘ cond)) = rows.map (fun r => t.1 (cond r)) from rfl,
        show (rows'.map (t.1 ∘ cond)) = rows'.map (fun r => t.1 (cond r)) from rfl,
        maskSelect_map, maskSelect_map]
      exact (h.filter _).map _


section slicers
variable [LinearOrder α]

omit [LinearOrder α] in
theorem zip3_map_left {A B C D : Type} (f : A → B) (l : List A) (r : List C) (p : List D) (g : B × C × D → β) :
    ((l.map f).zip (r.zip p)).map g = (l.zip (r.zip p)).map (fun x => g (f x.1, x.2)) := by
  rw [List.zip_map_left, List.map_map]
  rfl

/-- the Width slicer's intervals before dropping are given by predicates, references and
boundaries that depend on the starts (and the options) only -/
theorem width_as_templates [Add α] [Sub α] (ro : Bool) (ref : RefKind) (w hw : α) (starts : List α) :
    ∃ T : List ((α → Bool) × Option α × α × α), ∀ data : List α,
      widthIntervalsOfStarts ro ref w hw starts data = T.map (ivOfTemplate data) := by
  refine ⟨?T, fun data => ?_⟩
  rotate_left
  unfold widthIntervalsOfStarts edgeMasks
  simp only []
  rw [zip3_map_left]
  rfl

theorem number_as_templates [Add α] (im : Bool) (ref : RefKind) (w hw upper : α) (starts : List α) :
    ∃ T : List ((α → Bool) × Option α × α × α), ∀ data : List α,
      numberIntervalsOfStarts im ref w hw upper starts data = T.map (ivOfTemplate data) := by
  refine ⟨?T, fun data => ?_⟩
  rotate_left
  unfold numberIntervalsOfStarts edgeMasks
  simp only []
  rw [zip3_map_left]
  rfl

omit [LinearOrder α] in
theorem sameSplit_error (e : SliceErr) (col col' : List α) :
    SameSplit (.error e : Except SliceErr (List (Interval α))) (.error e) col col' :=
  ⟨rfl, fun _ _ h => by cases h⟩

/-- **WidthOfIntervalSlicer: permuting the rows gives the same intervals with the same members.**
The starts are a function of the data maximum (or of `value_range`), the maximum does not depend
on the row order (`listMax_perm`), the predicates / references / boundaries are functions of the
starts (`width_as_templates`), and slicing by fixed predicates is order invariant
(`template_split_perm`). -/
theorem widthSlice_perm_invariant [Add α] [Sub α] (startsOf : α → List α) (ro : Bool) (ref : RefKind)
    (w hw : α) (vmax : Option α) (minPts minIv : Nat)
    (rows rows' : List ρ) (h : rows.Perm rows') (cond dist : ρ → α) :
    SameSplit (widthSliceG startsOf ro ref w hw vmax minPts minIv (rows.map cond))
      (widthSliceG startsOf ro ref w hw vmax minPts minIv (rows'.map cond))
      (rows.map dist) (rows'.map dist) := by
  have key : ∀ mx, SameSplit
      (finishSlice minIv (dropSmall minPts (widthIntervalsOfStarts ro ref w hw (startsOf mx) (rows.map cond))))
      (finishSlice minIv (dropSmall minPts (widthIntervalsOfStarts ro ref w hw (startsOf mx) (rows'.map cond))))
      (rows.map dist) (rows'.map dist) := by
    intro mx
    obtain ⟨T, hT⟩ := width_as_templates ro ref w hw (startsOf mx)
    simp only [hT]
    exact template_split_perm T minPts minIv rows rows' h cond dist
  unfold widthSliceG
  rw [← listMax_perm _ _ (h.map cond)]
  cases vmax with
  | some m => exact key m
  | none =>
    rcases hmx : listMax (List.map cond rows) with _ | mx
    · exact sameSplit_error _ _ _
    · exact key mx

/-- **NumberOfIntervalsSlicer: permuting the rows gives the same intervals with the same members**
(starts and width are a function of the data minimum and maximum, or of `value_range`). -/
theorem numberSlice_perm_invariant [Add α] (startsOf : α → α → List α × α) (half : α → α) (k : Nat)
    (im : Bool) (ref : RefKind) (range : Option (α × α)) (minPts minIv : Nat)
    (rows rows' : List ρ) (h : rows.Perm rows') (cond dist : ρ → α) :
    SameSplit (numberSliceG startsOf half k im ref range minPts minIv (rows.map cond))
      (numberSliceG startsOf half k im ref range minPts minIv (rows'.map cond))
      (rows.map dist) (rows'.map dist) := by
  have key : ∀ a b, SameSplit
      (finishSlice (min minIv k) (dropSmall minPts (numberIntervalsOfStarts im ref (startsOf a b).2
        (half (startsOf a b).2) b (startsOf a b).1 (rows.map cond))))
      (finishSlice (min minIv k) (dropSmall minPts (numberIntervalsOfStarts im ref (startsOf a b).2
        (half (startsOf a b).2) b (startsOf a b).1 (rows'.map cond))))
      (rows.map dist) (rows'.map dist) := by
    intro a b
    obtain ⟨T, hT⟩ := number_as_templates im ref (startsOf a b).2 (half (startsOf a b).2) b (startsOf a b).1
    simp only [hT]
    exact template_split_perm T minPts _ rows rows' h cond dist
  unfold numberSliceG
  rw [← listMax_perm _ _ (h.map cond), ← listMin_perm _ _ (h.map cond)]
  cases range with
  | some r => obtain ⟨a, b⟩ := r; exact key a b
  | none =>
    rcases hmn : listMin (List.map cond rows) with _ | mn
    · exact sameSplit_error _ _ _
    · rcases hmx : listMax (List.map cond rows) with _ | mx
      · exact sameSplit_error _ _ _
      · exact key mn mx

end slicers

/-- … hence every permutation-invariant function of an interval's members gives the same value
for permuted rows: the **per-interval estimates** (`est` = stand-alone fit of the template,
`col` = the fitted dimension) and a **callable reference** such as `np.median` (`est` = the
callable, `col` = the conditioning dimension itself). -/
theorem sameSplit_estimates (r r' : Except SliceErr (List (Interval α))) (col col' : List α)
    (hs : SameSplit r r' col col') (est : List α → β) (hest : ∀ l l', l.Perm l' → est l = est l')
    (ivs ivs' : List (Interval α)) (h1 : r = .ok ivs) (h2 : r' = .ok ivs') :
    (splitData ivs col).map est = (splitData ivs' col').map est := by
  have := hs.2 ivs ivs' h1 h2
  generalize splitData ivs col = A at this ⊢
  generalize splitData ivs' col' = B at this ⊢
  induction this with
  | nil => rfl
  | cons hp _ ih => simp [hest _ _ hp, ih]

/-! ### `split_data_exact` with its mask hypothesis discharged for the slicers' own intervals -/

theorem splitData_of_masks (ivs : List (Interval α)) (preds : List (α → Bool)) (rows : List ρ)
    (cond dist : ρ → α) (h : ivs.map (·.mask) = preds.map fun p => (rows.map cond).map p) :
    splitData ivs (rows.map dist) = preds.map fun p => (rows.filter fun r => p (cond r)).map dist := by
  unfold splitData
  rw [show (fun iv : Interval α => maskSelect iv.mask (rows.map dist)) =
    (fun m => maskSelect m (rows.map dist)) ∘ (·.mask) from rfl, ← List.map_map, h, List.map_map]
  apply List.map_congr_left
  intro p _
  simp only [Function.comp, List.map_map]
  exact maskSelect_map rows (p ∘ cond) dist

/-- **each Width interval is fitted to exactly its own data**: the data handed to the template for
interval `k` of `WidthOfIntervalSlicer._slice` are the fitted-dimension values of exactly the rows whose
conditioning value satisfies the `k`-th interval predicate (`inIv` on that interval's boundaries,
`C10.ivPreds_get`), in input order. -/
theorem width_split_data_exact [LinearOrder α] [Add α] [Sub α] (ro : Bool) (ref : RefKind) (w hw : α) (starts : List α)
    (hne : starts ≠ []) (rows : List ρ) (cond dist : ρ → α) :
    splitData (widthIntervalsOfStarts ro ref w hw starts (rows.map cond)) (rows.map dist) =
      (ivPreds ro (!ro) (!ro) (edgePairs (starts ++ [starts.getLast hne + w]))).map
        fun p => (rows.filter fun r => p (cond r)).map dist :=
  splitData_of_masks _ _ rows cond dist (C10.widthIntervals_spec ro ref w hw starts (rows.map cond) hne).2

/-- the same for `NumberOfIntervalsSlicer._slice` -/
theorem number_split_data_exact [LinearOrder α] [Add α] (im : Bool) (ref : RefKind) (w hw upper : α) (starts : List α)
    (hne : starts ≠ []) (rows : List ρ) (cond dist : ρ → α) :
    splitData (numberIntervalsOfStarts im ref w hw upper starts (rows.map cond)) (rows.map dist) =
      (ivPreds true false im (edgePairs (starts ++ [upper]))).map
        fun p => (rows.filter fun r => p (cond r)).map dist :=
  splitData_of_masks _ _ rows cond dist (C10.numberIntervals_spec im ref w hw upper starts (rows.map cond) hne).2

/-! the executable float models are instances of `widthSliceG` / `numberSliceG` -/

theorem widthSliceF_eq_G (w : Float) (ro : Bool) (ref : RefKind) (vmin vmax : Option Float)
    (mp mi : Nat) (data : List Float) :
    widthSliceF w ro ref vmin vmax mp mi data =
      widthSliceG (fun mx => arange (vmin.getD 0.0) (mx + w) w) ro ref w (0.5 * w) vmax mp mi data := by
  unfold widthSliceF widthSliceG
  cases vmax with
  | some m => rfl
  | none => cases listMax data <;> rfl

theorem numberSliceF_eq_G (k : Nat) (im : Bool) (ref : RefKind) (range : Option (Float × Float))
    (mp mi : Nat) (data : List Float) :
    numberSliceF k im ref range mp mi data =
      numberSliceG (fun a b => linspaceNoEnd a b k) (fun w => 0.5 * w) k im ref range mp mi data := by
  unfold numberSliceF numberSliceG
  cases range with
  | some r => rfl
  | none => cases listMin data <;> cases listMax data <;> rfl

/-! ### non-vacuity -/
example : fillFitDesc 3 (some [.none, .dict (some "wlsq") (some (some "quadratic")), .dict (some "mle") none])
    = .ok [defaultFitDesc, ⟨"wlsq", some "quadratic"⟩, ⟨"mle", none⟩] := by decide
example : maskSelect [true, false, true] [(1 : Int), 2, 3] = [1, 3] := by decide
example : splitData (widthIntervalsOfStarts true .center (1 : Int) 0 [0, 1] [0, 1, 1]) [10, 20, 30]
    = [[10], [20, 30]] := by decide
-- widthSlice_perm_invariant on concrete rows (conditioning value, fitted value) and a permutation of them
example :
    (widthSliceG (fun _ : Int => [0, 2, 4]) true .center 2 1 none 1 1 ([(1, 10), (3, 30), (5, 50), (4, 40)].map Prod.fst)).toOption.map
        (fun ivs => splitData ivs ([((1 : Int), (10 : Int)), (3, 30), (5, 50), (4, 40)].map Prod.snd)) = some [[10], [30], [50, 40]] ∧
    (widthSliceG (fun _ : Int => [0, 2, 4]) true .center 2 1 none 1 1 ([(4, 40), (5, 50), (1, 10), (3, 30)].map Prod.fst)).toOption.map
        (fun ivs => splitData ivs ([((4 : Int), (40 : Int)), (5, 50), (1, 10), (3, 30)].map Prod.snd)) = some [[10], [30], [40, 50]] := by
  decide

end VirVerif.C09
